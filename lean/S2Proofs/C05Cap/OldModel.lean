/-
  C05Cap.OldModel — the faithful PRE-repair model of `Cap.intersects` / `Cap.IntersectsCell` / `Cap.ContainsCell`
  (s2/cap.go before repair D59): the edge rejection test was `dot*dot > sin2Angle*edge.Norm2()` without allowance.
  Kept only for the regression witnesses (`Properties/C05_Cap.lean`: the old code answers `false` for a cap that
  reaches into the cell).  Everything else is the text of `S2.CapCell`.
-/
import S2.CapCell
namespace S2Proofs.C05Cap
open S2 S2.CellM S2.CapF64 S2.CapCell

def edgeStepOld (c : Cap) (sin2Angle : F64) (cell : Cell) (k : Nat) : Option Bool :=
  let edge := CellM.edge cell k
  let dot := c.center.dot edge
  if F64.gt dot (F64.zero false) then none
  else if F64.gt (dot * dot) (sin2Angle * edge.norm2) then some false
  else
    let dir := edge.cross c.center
    if F64.lt (dir.dot (CellM.vertex cell k)) (F64.zero false) &&
       F64.gt (dir.dot (CellM.vertex cell ((k + 1) % 4))) (F64.zero false) then some true
    else none

def edgeLoopOld (c : Cap) (sin2Angle : F64) (cell : Cell) : Nat → Nat → Bool
  | _, 0 => false
  | k, n + 1 =>
    match edgeStepOld c sin2Angle cell k with
    | some b => b
    | none => edgeLoopOld c sin2Angle cell (k + 1) n

def intersectsOld (c : Cap) (cell : Cell) : Bool :=
  if F64.ge c.radius rightChordAngle then false
  else if c.isEmpty then false
  else if CellM.containsPoint cell c.center then true
  else edgeLoopOld c (Chord.sin2 c.radius) cell 0 4

def intersectsCellOld (c : Cap) (cell : Cell) : Bool :=
  if c.containsPoint (CellM.vertex cell 0) then true
  else if c.containsPoint (CellM.vertex cell 1) then true
  else if c.containsPoint (CellM.vertex cell 2) then true
  else if c.containsPoint (CellM.vertex cell 3) then true
  else intersectsOld c cell

def containsCellOld (c : Cap) (cell : Cell) : Bool :=
  if !c.containsPoint (CellM.vertex cell 0) then false
  else if !c.containsPoint (CellM.vertex cell 1) then false
  else if !c.containsPoint (CellM.vertex cell 2) then false
  else if !c.containsPoint (CellM.vertex cell 3) then false
  else !intersectsOld c.complement cell

end S2Proofs.C05Cap
