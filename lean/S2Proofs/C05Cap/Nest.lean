/-
  C05Cap.Nest — the exact cells `InCellXYZ (cellFromCellID ·)` are nested under `CellID.contains`, every odd position
  in the leaf range of a valid cell is a valid leaf whose exact cell lies in the exact cell of the container, and the
  exact cells of the valid leaves cover the unit sphere.

  (B1) `inCellXYZ_of_contains`, `inCellXYZ_of_leaf`      (B2) `leaf_cover`

  The uv bound of the cell of `IsCell x n` is `boundOf I J (30 − n)`, `(I, J) = prefixState x n`
  (`cell_bound_is_square`); the four bounds are the float grid values `stToUV (g (I·2^m))`, `stToUV (g ((I+1)·2^m))`, …
  and the float grid `k ↦ val (stToUV (g k))` is monotone (`stToUV_g_mono`).  Containment of ids gives
  `I_c·2^(j−k) ≤ I_d < (I_c+1)·2^(j−k)` (`prefixState_parent`, `prefixState_mono`), hence the rectangle of `d`
  is inside the rectangle of `c`, on the same face.
-/
import S2Proofs.C05Cap.Defs
import S2Proofs.C12Dist.CellOK
import S2Proofs.C05.Geom
import Mathlib.Tactic.Linarith
import Mathlib.Tactic.Ring
import Mathlib.Tactic.NormNum

namespace S2Proofs.C05Cap
open S2 S2.CellID S2.STUV S2.CellM S2.Hilbert
open S2Proofs S2Proofs.C12Dist S2Proofs.C16Acc S2Proofs.C12M S2Proofs.C12H S2Proofs.C12C

namespace Nest

/-- the float grid is monotone (real values) -/
theorem grid_mono (k1 k2 : Nat) (h12 : k1 ≤ k2) (hk : k2 ≤ 2 ^ 30) :
    FloatErr.val (stToUV (ijToSTMin ((k1 : Nat) : Int))) ≤ FloatErr.val (stToUV (ijToSTMin ((k2 : Nat) : Int))) := by
  rcases Nat.lt_or_eq_of_le h12 with hlt | rfl
  · have h := CellOK.stToUV_g_gap k1 k2 hlt hk
    have hp : (0 : ℝ) < 1 / 2 ^ 31 := by positivity
    unfold g at h
    linarith
  · exact le_refl _

/-- a smaller rectangle gives a smaller exact cell -/
theorem inCell_mono {r s : RRect} (h0 : r.u0 ≤ s.u0) (h1 : s.u1 ≤ r.u1) (h2 : r.v0 ≤ s.v0) (h3 : s.v1 ≤ r.v1)
    (q : R3) (h : InCell s q) : InCell r q := by
  obtain ⟨hn, hz, a, b, c, d⟩ := h
  refine ⟨hn, hz, ?_, ?_, ?_, ?_⟩
  · have := mul_le_mul_of_nonneg_right h0 hz.le; linarith
  · have := mul_le_mul_of_nonneg_right h1 hz.le; linarith
  · have := mul_le_mul_of_nonneg_right h2 hz.le; linarith
  · have := mul_le_mul_of_nonneg_right h3 hz.le; linarith

/-- the ij-square of a descendant, scaled to leaf units, lies in the ij-square of the ancestor -/
theorem square_nest {I I' k j : Nat} (hkj : k ≤ j) (hj : j ≤ 30)
    (h1 : I * 2 ^ (j - k) ≤ I') (h2 : I' < (I + 1) * 2 ^ (j - k)) :
    I * 2 ^ (30 - k) ≤ I' * 2 ^ (30 - j) ∧ (I' + 1) * 2 ^ (30 - j) ≤ (I + 1) * 2 ^ (30 - k) := by
  have e : 2 ^ (30 - k) = 2 ^ (j - k) * 2 ^ (30 - j) := by
    rw [← Nat.pow_add]; congr 1; omega
  rw [e]
  constructor
  · rw [← Nat.mul_assoc]; exact Nat.mul_le_mul_right _ h1
  · rw [← Nat.mul_assoc]; exact Nat.mul_le_mul_right _ h2

/-- containment of cells: same face, nested uv rectangles -/
theorem rect_nest {c d : CellID} {k j : Nat} (hc : IsCell c k) (hd : IsCell d j) (h : CellID.contains c d = true) :
    (cellFromCellID d).face = (cellFromCellID c).face ∧
    (rectOf (cellFromCellID c)).u0 ≤ (rectOf (cellFromCellID d)).u0 ∧
    (rectOf (cellFromCellID d)).u1 ≤ (rectOf (cellFromCellID c)).u1 ∧
    (rectOf (cellFromCellID c)).v0 ≤ (rectOf (cellFromCellID d)).v0 ∧
    (rectOf (cellFromCellID d)).v1 ≤ (rectOf (cellFromCellID c)).v1 := by
  obtain ⟨hkj, hp⟩ := (hc.contains_iff_parent hd).1 h
  have hj := hd.k_le
  have hpre : prefixState c k = prefixState d k := by rw [← hp]; exact prefixState_parent hd hkj
  have hface : face c = face d := by
    rw [← hp]
    apply face_congr hc.k_le
    rw [parent_toNat d k hc.k_le]
    have hk := hc.k_le
    interval_cases k <;> cell_omega
  obtain ⟨m1, m2, m3, m4⟩ := prefixState_mono d k j hkj
  rw [← hpre] at m1 m2 m3 m4
  obtain ⟨hI, hJ, -⟩ := prefixState_bounds c k
  obtain ⟨hI', hJ', -⟩ := prefixState_bounds d j
  obtain ⟨a1, a2⟩ := square_nest hkj hj m1 m2
  obtain ⟨b1, b2⟩ := square_nest hkj hj m3 m4
  have tI := CellOK.square_le hc.k_le hI
  have tJ := CellOK.square_le hc.k_le hJ
  have tI' := CellOK.square_le hj hI'
  have tJ' := CellOK.square_le hj hJ'
  obtain ⟨uvc, fc⟩ := S2Proofs.C12.cell_bound_is_square hc
  obtain ⟨uvd, fd⟩ := S2Proofs.C12.cell_bound_is_square hd
  unfold rectOf
  rw [uvc, uvd, fc, fd]
  unfold boundOf
  simp only
  have s0 : (prefixState d j).1 * 2 ^ (30 - j) ≤ ((prefixState d j).1 + 1) * 2 ^ (30 - j) :=
    Nat.mul_le_mul_right _ (Nat.le_succ _)
  have s1 : (prefixState d j).2.1 * 2 ^ (30 - j) ≤ ((prefixState d j).2.1 + 1) * 2 ^ (30 - j) :=
    Nat.mul_le_mul_right _ (Nat.le_succ _)
  exact ⟨hface.symm, grid_mono _ _ a1 (by omega), grid_mono _ _ a2 tI, grid_mono _ _ b1 (by omega), grid_mono _ _ b2 tJ⟩

end Nest

open Nest

/-- **(B1) exact cells are nested under id containment.** -/
theorem inCellXYZ_of_contains (c d : CellID) (hc : isValid c = true) (hd : isValid d = true)
    (h : CellID.contains c d = true) (q : R3) :
    InCellXYZ (cellFromCellID d) q → InCellXYZ (cellFromCellID c) q := by
  obtain ⟨k, hck⟩ := (isValid_iff c).1 hc
  obtain ⟨j, hdj⟩ := (isValid_iff d).1 hd
  obtain ⟨hf, h0, h1, h2, h3⟩ := rect_nest hck hdj h
  unfold InCellXYZ
  rw [hf]
  exact inCell_mono h0 h1 h2 h3 _

-- non-vacuity: the face-1 cell contains one of its leaves
example : isValid (0x3000000000000000 : CellID) = true ∧ isValid (0x3000000000000001 : CellID) = true ∧
    CellID.contains (0x3000000000000000 : CellID) (0x3000000000000001 : CellID) = true := by decide

/-- an odd position inside the leaf range of a valid cell is (the word of) a valid leaf contained in the cell -/
theorem leaf_of_odd_in_range {c : CellID} {k : Nat} (hc : IsCell c k) (n : Nat) (hn : n % 2 = 1)
    (hin : S2Proofs.C05.InCell c n) :
    n < 2 ^ 64 ∧ (UInt64.ofNat n).toNat = n ∧ IsCell (UInt64.ofNat n) 30 ∧ CellID.contains c (UInt64.ofNat n) = true := by
  obtain ⟨lo, hi⟩ := hin
  have hlt : n < 2 ^ 64 := lt_of_le_of_lt hi (rangeMax c).toNat_lt
  have hto : (UInt64.ofNat n).toNat = n := by
    rw [UInt64.toNat_ofNat']; exact Nat.mod_eq_of_lt hlt
  refine ⟨hlt, hto, ⟨le_refl _, ?_, ?_⟩, ?_⟩
  · rw [hto]
    rw [hc.rangeMax_eq] at hi
    obtain ⟨hk, hf, hlow⟩ := hc
    interval_cases k <;> cell_omega
  · rw [hto]; simpa using hn
  · rw [contains_iff, hto]; exact ⟨lo, hi⟩

/-- **(B1, leaf form)** an odd position `n` in the leaf range of a valid cell `c` is a valid leaf id whose exact cell
    lies in the exact cell of `c`. -/
theorem inCellXYZ_of_leaf (c : CellID) (hc : isValid c = true) (n : Nat) (hn : n % 2 = 1) (hin : S2Proofs.C05.InCell c n) :
    ∃ l : CellID, l.toNat = n ∧ isValid l = true ∧
      ∀ q, InCellXYZ (cellFromCellID l) q → InCellXYZ (cellFromCellID c) q := by
  obtain ⟨k, hck⟩ := (isValid_iff c).1 hc
  obtain ⟨-, hto, hl, hcon⟩ := leaf_of_odd_in_range hck n hn hin
  have hv : isValid (UInt64.ofNat n : CellID) = true := (isValid_iff _).2 ⟨30, hl⟩
  exact ⟨UInt64.ofNat n, hto, hv, fun q => inCellXYZ_of_contains c _ hc hv hcon q⟩

/-- the leaf of `inCellXYZ_of_leaf` is moreover a leaf (`isLeaf`) and is contained in `c` -/
theorem inCellXYZ_of_leaf' (c : CellID) (hc : isValid c = true) (n : Nat) (hn : n % 2 = 1) (hin : S2Proofs.C05.InCell c n) :
    ∃ l : CellID, l.toNat = n ∧ isValid l = true ∧ isLeaf l = true ∧ CellID.contains c l = true ∧
      ∀ q, InCellXYZ (cellFromCellID l) q → InCellXYZ (cellFromCellID c) q := by
  obtain ⟨k, hck⟩ := (isValid_iff c).1 hc
  obtain ⟨-, hto, hl, hcon⟩ := leaf_of_odd_in_range hck n hn hin
  have hv : isValid (UInt64.ofNat n : CellID) = true := (isValid_iff _).2 ⟨30, hl⟩
  refine ⟨UInt64.ofNat n, hto, hv, ?_, hcon, fun q => inCellXYZ_of_contains c _ hc hv hcon q⟩
  rw [isLeaf_eq hl]; rfl

-- non-vacuity: position 0x3000000000000001 is odd and in the range of the face-1 cell
example : isValid (0x3000000000000000 : CellID) = true ∧ (0x3000000000000001 : Nat) % 2 = 1 ∧
    S2Proofs.C05.InCell (0x3000000000000000 : CellID) 0x3000000000000001 := by
  refine ⟨by decide, by decide, ?_, ?_⟩ <;> decide

/-! ## (B2) the exact cells of the valid leaves cover the unit sphere -/

namespace Nest

/-- real value of the float grid point `k` (`k = 0 … 2^30`): the uv coordinate of the ij-line `k` -/
noncomputable def G (k : Nat) : ℝ := FloatErr.val (stToUV (ijToSTMin ((k : Nat) : Int)))

theorem G_zero : G 0 = -1 := by
  have h := stToUV_g_zero
  unfold g at h
  unfold G
  rw [h, CellOK.val_bridge, F64Round.val_neg, F64Round.val_one]
  norm_num

theorem G_top : G (2 ^ 30) = 1 := by
  have h := stToUV_g_one
  unfold g at h
  unfold G
  rw [h, CellOK.val_bridge, F64Round.val_one]
  norm_num

/-- discrete intermediate value: a value between `f 0` and `f N` lies between two consecutive `f i`, `f (i+1)` -/
theorem discrete_ivt (f : Nat → ℝ) (u : ℝ) : ∀ N : Nat, 0 < N → f 0 ≤ u → u ≤ f N →
    ∃ i, i < N ∧ f i ≤ u ∧ u ≤ f (i + 1) := by
  intro N
  induction N with
  | zero => intro h; exact absurd h (Nat.lt_irrefl 0)
  | succ N ih =>
    intro _ h0 h1
    by_cases hN : u ≤ f N
    · by_cases hz : N = 0
      · subst hz; exact ⟨0, Nat.zero_lt_one, h0, h1⟩
      · obtain ⟨i, hi, a, b⟩ := ih (Nat.pos_of_ne_zero hz) h0 hN
        exact ⟨i, Nat.lt_succ_of_lt hi, a, b⟩
    · exact ⟨N, Nat.lt_succ_self N, le_of_lt (not_le.1 hN), h1⟩

/-- every slope `x / z ∈ [-1, 1]` lies in a grid interval -/
theorem grid_interval (x z : ℝ) (hz : 0 < z) (h0 : -z ≤ x) (h1 : x ≤ z) :
    ∃ i, i < 2 ^ 30 ∧ G i * z ≤ x ∧ x ≤ G (i + 1) * z := by
  have a : G 0 ≤ x / z := by rw [G_zero, le_div_iff₀ hz]; linarith
  have b : x / z ≤ G (2 ^ 30) := by rw [G_top, div_le_iff₀ hz]; linarith
  obtain ⟨i, hi, c, d⟩ := discrete_ivt G (x / z) (2 ^ 30) (Nat.two_pow_pos 30) a b
  exact ⟨i, hi, (le_div_iff₀ hz).1 c, (div_le_iff₀ hz).1 d⟩

/-- the face of the largest |coordinate|: in its frame `z > 0` and `|x|, |y| ≤ z` -/
theorem face_exists (q : R3) (hq : q.norm2 = 1) :
    ∃ f, f < 6 ∧ 0 < (uvwR f q).z ∧ -(uvwR f q).z ≤ (uvwR f q).x ∧ (uvwR f q).x ≤ (uvwR f q).z ∧
      -(uvwR f q).z ≤ (uvwR f q).y ∧ (uvwR f q).y ≤ (uvwR f q).z := by
  have key : ∃ f, f < 6 ∧ -(uvwR f q).z ≤ (uvwR f q).x ∧ (uvwR f q).x ≤ (uvwR f q).z ∧
      -(uvwR f q).z ≤ (uvwR f q).y ∧ (uvwR f q).y ≤ (uvwR f q).z := by
    rcases le_total |q.y| |q.x| with hyx | hxy
    · rcases le_total |q.z| |q.x| with hzx | hxz
      · -- x largest
        rcases le_total 0 q.x with hx | hx
        · rw [abs_of_nonneg hx] at hyx hzx
          rw [abs_le] at hyx hzx
          exact ⟨0, by norm_num, by simp only [uvwR]; exact ⟨hyx.1, hyx.2, hzx.1, hzx.2⟩⟩
        · rw [abs_of_nonpos hx] at hyx hzx
          rw [abs_le] at hyx hzx
          refine ⟨3, by norm_num, ?_⟩
          simp only [uvwR]
          refine ⟨?_, ?_, ?_, ?_⟩ <;> linarith [hyx.1, hyx.2, hzx.1, hzx.2]
      · -- z largest
        have hyz : |q.y| ≤ |q.z| := le_trans hyx hxz
        rcases le_total 0 q.z with hz | hz
        · rw [abs_of_nonneg hz] at hyz hxz
          rw [abs_le] at hyz hxz
          refine ⟨2, by norm_num, ?_⟩
          simp only [uvwR]
          refine ⟨?_, ?_, ?_, ?_⟩ <;> linarith [hyz.1, hyz.2, hxz.1, hxz.2]
        · rw [abs_of_nonpos hz] at hyz hxz
          rw [abs_le] at hyz hxz
          refine ⟨5, by norm_num, ?_⟩
          simp only [uvwR]
          refine ⟨?_, ?_, ?_, ?_⟩ <;> linarith [hyz.1, hyz.2, hxz.1, hxz.2]
    · rcases le_total |q.z| |q.y| with hzy | hyz
      · -- y largest
        rcases le_total 0 q.y with hy | hy
        · rw [abs_of_nonneg hy] at hxy hzy
          rw [abs_le] at hxy hzy
          refine ⟨1, by norm_num, ?_⟩
          simp only [uvwR]
          refine ⟨?_, ?_, ?_, ?_⟩ <;> linarith [hxy.1, hxy.2, hzy.1, hzy.2]
        · rw [abs_of_nonpos hy] at hxy hzy
          rw [abs_le] at hxy hzy
          refine ⟨4, by norm_num, ?_⟩
          simp only [uvwR]
          refine ⟨?_, ?_, ?_, ?_⟩ <;> linarith [hxy.1, hxy.2, hzy.1, hzy.2]
      · -- z largest
        have hxz : |q.x| ≤ |q.z| := le_trans hxy hyz
        rcases le_total 0 q.z with hz | hz
        · rw [abs_of_nonneg hz] at hyz hxz
          rw [abs_le] at hyz hxz
          refine ⟨2, by norm_num, ?_⟩
          simp only [uvwR]
          refine ⟨?_, ?_, ?_, ?_⟩ <;> linarith [hyz.1, hyz.2, hxz.1, hxz.2]
        · rw [abs_of_nonpos hz] at hyz hxz
          rw [abs_le] at hyz hxz
          refine ⟨5, by norm_num, ?_⟩
          simp only [uvwR]
          refine ⟨?_, ?_, ?_, ?_⟩ <;> linarith [hyz.1, hyz.2, hxz.1, hxz.2]
  obtain ⟨f, hf, a, b, c, d⟩ := key
  refine ⟨f, hf, ?_, a, b, c, d⟩
  have hn : (uvwR f q).norm2 = 1 := by rw [uvwR_norm2]; exact hq
  by_contra hz
  have hz' : (uvwR f q).z = 0 := by linarith
  have hx' : (uvwR f q).x = 0 := by linarith
  have hy' : (uvwR f q).y = 0 := by linarith
  unfold R3.norm2 at hn
  rw [hx', hy', hz'] at hn
  norm_num at hn

/-- the cell of the leaf `cellIDFromFaceIJ f i j`: face `f`, rectangle `[G i, G (i+1)] × [G j, G (j+1)]` -/
theorem leaf_cell (f i j : Nat) (hf : f < 6) (hi : i < 2 ^ 30) (hj : j < 2 ^ 30) :
    IsCell (cellIDFromFaceIJ f i j) 30 ∧ (cellFromCellID (cellIDFromFaceIJ f i j)).face = f ∧
    rectOf (cellFromCellID (cellIDFromFaceIJ f i j)) = ⟨G i, G (i + 1), G j, G (j + 1)⟩ := by
  obtain ⟨hl, h1, h2, h3⟩ := S2Proofs.C12H.hilbertBijection f i j hf (by norm_num at hi ⊢; exact hi) (by norm_num at hj ⊢; exact hj)
  have hfo := faceIJOrientation_cell hl
  rw [hfo] at h1 h2 h3
  simp only [Nat.sub_self, Nat.pow_zero, Nat.mul_one, if_true, Nat.add_zero] at h1 h2 h3
  obtain ⟨uvl, fl⟩ := S2Proofs.C12.cell_bound_is_square hl
  refine ⟨hl, by rw [fl, h1], ?_⟩
  unfold rectOf
  rw [uvl, h2, h3]
  unfold boundOf G
  simp only [Nat.sub_self, Nat.pow_zero, Nat.mul_one]

end Nest

/-- **(B2) the leaves tile the sphere**: every unit vector lies in the exact cell of some valid leaf. -/
theorem leaf_cover (q : R3) (hq : q.norm2 = 1) :
    ∃ l : CellID, isValid l = true ∧ isLeaf l = true ∧ InCellXYZ (cellFromCellID l) q := by
  obtain ⟨f, hf, hz, x0, x1, y0, y1⟩ := face_exists q hq
  obtain ⟨i, hi, a, b⟩ := grid_interval _ _ hz x0 x1
  obtain ⟨j, hj, c, d⟩ := grid_interval _ _ hz y0 y1
  obtain ⟨hl, hface, hrect⟩ := leaf_cell f i j hf hi hj
  refine ⟨cellIDFromFaceIJ f i j, (isValid_iff _).2 ⟨30, hl⟩, by rw [isLeaf_eq hl]; rfl, ?_⟩
  unfold InCellXYZ
  rw [hrect, hface]
  exact ⟨by rw [uvwR_norm2]; exact hq, hz, a, b, c, d⟩

/-- the same with the leaf named: face `f` of the largest coordinate, `(i, j)` the grid square of `(u, v)` -/
theorem leaf_cover_faceIJ (q : R3) (hq : q.norm2 = 1) :
    ∃ f i j : Nat, f < 6 ∧ i < 2 ^ 30 ∧ j < 2 ^ 30 ∧ isValid (cellIDFromFaceIJ f i j) = true ∧
      isLeaf (cellIDFromFaceIJ f i j) = true ∧ InCellXYZ (cellFromCellID (cellIDFromFaceIJ f i j)) q := by
  obtain ⟨f, hf, hz, x0, x1, y0, y1⟩ := face_exists q hq
  obtain ⟨i, hi, a, b⟩ := grid_interval _ _ hz x0 x1
  obtain ⟨j, hj, c, d⟩ := grid_interval _ _ hz y0 y1
  obtain ⟨hl, hface, hrect⟩ := leaf_cell f i j hf hi hj
  refine ⟨f, i, j, hf, hi, hj, (isValid_iff _).2 ⟨30, hl⟩, by rw [isLeaf_eq hl]; rfl, ?_⟩
  unfold InCellXYZ
  rw [hrect, hface]
  exact ⟨by rw [uvwR_norm2]; exact hq, hz, a, b, c, d⟩

-- non-vacuity: a unit vector
example : (⟨1, 0, 0⟩ : R3).norm2 = 1 := by unfold R3.norm2; norm_num

/-- **glue for the coverer theorems**: if every valid leaf whose exact cell holds the unit vector `q` has its position
    covered (`S2Proofs.C05.Covered`) by the list `cu` of valid cells, then `q` lies in the exact cell of a member of `cu`.
    (`leaf_cover` supplies the leaf, `inCellXYZ_of_contains` carries `q` up.) -/
theorem exists_cell_of_covered (cu : List CellID) (hv : ∀ c ∈ cu, isValid c = true) (q : R3) (hq : q.norm2 = 1)
    (hcov : ∀ l : CellID, isValid l = true → isLeaf l = true → InCellXYZ (cellFromCellID l) q →
      S2Proofs.C05.Covered cu l.toNat) :
    ∃ c ∈ cu, InCellXYZ (cellFromCellID c) q := by
  obtain ⟨l, hl, hleaf, hin⟩ := leaf_cover q hq
  obtain ⟨c, hc, lo, hi⟩ := hcov l hl hleaf hin
  exact ⟨c, hc, inCellXYZ_of_contains c l (hv c hc) hl ((contains_iff c l).2 ⟨lo, hi⟩) q hin⟩

end S2Proofs.C05Cap
