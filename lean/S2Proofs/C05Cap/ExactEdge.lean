/-
  C05Cap.ExactEdge — per-edge toolbox for the exact geometry of `Cap.intersects` (sub-package A of c05cap).

  For edge `k` (numbered as in the code: 0 bottom, 1 right, 2 top, 3 left) with inward raw normal `n = nrm r k`
  and a UNIT cap centre `a`:
    * `edgeVal r a k`   — C12's `edgeReal` of that edge = squared chord distance from `a` to the closest point of the
                           edge's great circle; `edgeVal_eq`: it is `2 − 2·√(1 − (a·n)²/|n|²)`;
    * `edgeVal_le_iff`  — for `ρ ≤ 2`:  `edgeVal ≤ ρ ↔ (a·n)² ≤ sin2R ρ·|n|²`   (the radius test of the loop);
    * `edgeVal_lower`   — every cell point is at squared distance `≥ edgeVal − 2·max(a·n, 0)`;
    * `Slab r a k`      — the two `dir·vertex` tests of the loop; `slab_iff_k`: they are C12's tangential tests
                           `vTan`/`uTan`; `edgeVal_attained`: if they hold, `edgeVal` is attained on the cell.
    * `hemi_lt`, `hemi_ge` — convexity of the cell (from C12's `cell_combination`).
-/
import S2Proofs.C05Cap.Defs
import S2Proofs.C12Dist.ExactAlg
import S2Proofs.C12Dist.CoverBasics

namespace S2Proofs.C05Cap
open S2Proofs.C12Dist S2Proofs.C16Acc S2Proofs.C12Dist.Cover

/-! ### unfolding lemmas -/

@[simp] theorem vtx_0 (r : RRect) : vtx r 0 = vhat r.u0 r.v0 := rfl
@[simp] theorem vtx_1 (r : RRect) : vtx r 1 = vhat r.u1 r.v0 := rfl
@[simp] theorem vtx_2 (r : RRect) : vtx r 2 = vhat r.u1 r.v1 := rfl
@[simp] theorem vtx_3 (r : RRect) : vtx r 3 = vhat r.u0 r.v1 := rfl
@[simp] theorem nrm_0 (r : RRect) : nrm r 0 = ⟨0, 1, -r.v0⟩ := rfl
@[simp] theorem nrm_1 (r : RRect) : nrm r 1 = ⟨-1, 0, r.u1⟩ := rfl
@[simp] theorem nrm_2 (r : RRect) : nrm r 2 = ⟨0, -1, r.v1⟩ := rfl
@[simp] theorem nrm_3 (r : RRect) : nrm r 3 = ⟨1, 0, -r.u0⟩ := rfl

theorem vtx_norm2 (r : RRect) (k : Nat) : (vtx r k).norm2 = 1 := by
  unfold vtx; split <;> exact vhat_norm2 _ _

theorem vtx_inCell (r : RRect) (hr : r.OK) (k : Nat) : InCell r (vtx r k) := by
  have hu0 : r.u0 ≤ r.u0 ∧ r.u0 ≤ r.u1 := ⟨le_refl _, hr.u_lt.le⟩
  have hu1 : r.u0 ≤ r.u1 ∧ r.u1 ≤ r.u1 := ⟨hr.u_lt.le, le_refl _⟩
  have hv0 : r.v0 ≤ r.v0 ∧ r.v0 ≤ r.v1 := ⟨le_refl _, hr.v_lt.le⟩
  have hv1 : r.v0 ≤ r.v1 ∧ r.v1 ≤ r.v1 := ⟨hr.v_lt.le, le_refl _⟩
  unfold vtx; split
  · exact vhat_inCell r hr _ _ hu0 hv0
  · exact vhat_inCell r hr _ _ hu1 hv0
  · exact vhat_inCell r hr _ _ hu1 hv1
  · exact vhat_inCell r hr _ _ hu0 hv1

theorem nrm_norm2_pos (r : RRect) (k : Nat) : 0 < (nrm r k).norm2 := by
  unfold nrm; split <;> (unfold R3.norm2; simp only; positivity)

/-- the dot products with the four normals are C12's `dir` quantities -/
theorem dot_nrm_0 (r : RRect) (a : R3) : R3.dot a (nrm r 0) = sB r a := by
  rw [nrm_0]; unfold R3.dot sB; simp only; ring
theorem dot_nrm_1 (r : RRect) (a : R3) : R3.dot a (nrm r 1) = -(sR r a) := by
  rw [nrm_1]; unfold R3.dot sR; simp only; ring
theorem dot_nrm_2 (r : RRect) (a : R3) : R3.dot a (nrm r 2) = -(sT r a) := by
  rw [nrm_2]; unfold R3.dot sT; simp only; ring
theorem dot_nrm_3 (r : RRect) (a : R3) : R3.dot a (nrm r 3) = sL r a := by
  rw [nrm_3]; unfold R3.dot sL; simp only; ring

theorem norm2_nrm_0 (r : RRect) : (nrm r 0).norm2 = 1 + r.v0 ^ 2 := by
  rw [nrm_0]; unfold R3.norm2; simp only; ring
theorem norm2_nrm_1 (r : RRect) : (nrm r 1).norm2 = 1 + r.u1 ^ 2 := by
  rw [nrm_1]; unfold R3.norm2; simp only; ring
theorem norm2_nrm_2 (r : RRect) : (nrm r 2).norm2 = 1 + r.v1 ^ 2 := by
  rw [nrm_2]; unfold R3.norm2; simp only; ring
theorem norm2_nrm_3 (r : RRect) : (nrm r 3).norm2 = 1 + r.u0 ^ 2 := by
  rw [nrm_3]; unfold R3.norm2; simp only; ring

/-! ### the value of `edgeDistance` for edge `k` -/

/-- C12's `edgeReal` for edge `k` (the value `Cell.distanceInternal` returns when edge `k` is the closest feature) -/
noncomputable def edgeVal (r : RRect) (a : R3) : Nat → ℝ
  | 0 => edgeReal (-(sB r a)) r.v0 a.x (r.v0 * a.y + a.z)
  | 1 => edgeReal (sR r a) r.u1 a.y (r.u1 * a.x + a.z)
  | 2 => edgeReal (sT r a) r.v1 a.x (r.v1 * a.y + a.z)
  | _ => edgeReal (-(sL r a)) r.u0 a.y (r.u0 * a.x + a.z)

@[simp] theorem edgeVal_0 (r : RRect) (a : R3) :
    edgeVal r a 0 = edgeReal (-(sB r a)) r.v0 a.x (r.v0 * a.y + a.z) := rfl
@[simp] theorem edgeVal_1 (r : RRect) (a : R3) :
    edgeVal r a 1 = edgeReal (sR r a) r.u1 a.y (r.u1 * a.x + a.z) := rfl
@[simp] theorem edgeVal_2 (r : RRect) (a : R3) :
    edgeVal r a 2 = edgeReal (sT r a) r.v1 a.x (r.v1 * a.y + a.z) := rfl
@[simp] theorem edgeVal_3 (r : RRect) (a : R3) :
    edgeVal r a 3 = edgeReal (-(sL r a)) r.u0 a.y (r.u0 * a.x + a.z) := rfl

/-- on a unit frame decomposition `edgeReal = 2 − 2√(1 − s²/D)` -/
theorem edgeReal_unit (s u y w : ℝ) (h : s ^ 2 / (1 + u ^ 2) + y ^ 2 + w ^ 2 / (1 + u ^ 2) = 1) :
    edgeReal s u y w = 2 - 2 * Real.sqrt (1 - s ^ 2 / (1 + u ^ 2)) := by
  rw [edgeReal_eq, h]
  have e : y ^ 2 + w ^ 2 / (1 + u ^ 2) = 1 - s ^ 2 / (1 + u ^ 2) := by linarith
  rw [e]; ring

/-- `edgeVal` is the squared chord distance to the closest point of the great circle of edge `k` -/
theorem edgeVal_eq (r : RRect) (a : R3) (ha : a.norm2 = 1) (k : Nat) (hk : k < 4) :
    edgeVal r a k = 2 - 2 * Real.sqrt (1 - (R3.dot a (nrm r k)) ^ 2 / (nrm r k).norm2) := by
  obtain rfl | rfl | rfl | rfl : k = 0 ∨ k = 1 ∨ k = 2 ∨ k = 3 := by omega
  · rw [edgeVal_0, dot_nrm_0, norm2_nrm_0]
    have h := frame_norm_v r.v0 a
    rw [ha] at h
    rw [edgeReal_unit _ _ _ _ (by rw [neg_sq]; unfold sB; exact h), neg_sq]
  · rw [edgeVal_1, dot_nrm_1, norm2_nrm_1]
    have h := frame_norm_u r.u1 a
    rw [ha] at h
    rw [edgeReal_unit _ _ _ _ (by unfold sR; exact h), neg_sq]
  · rw [edgeVal_2, dot_nrm_2, norm2_nrm_2]
    have h := frame_norm_v r.v1 a
    rw [ha] at h
    rw [edgeReal_unit _ _ _ _ (by unfold sT; exact h), neg_sq]
  · rw [edgeVal_3, dot_nrm_3, norm2_nrm_3]
    have h := frame_norm_u r.u0 a
    rw [ha] at h
    rw [edgeReal_unit _ _ _ _ (by rw [neg_sq]; unfold sL; exact h), neg_sq]

/-- the threshold: `2 − 2√(1 − α²) ≤ ρ ↔ α² ≤ ρ(1 − ρ/4)` for `ρ ≤ 2`, `α² ≤ 1` -/
theorem thr_iff (α2 ρ : ℝ) (hα : α2 ≤ 1) (hρ : ρ ≤ 2) :
    2 - 2 * Real.sqrt (1 - α2) ≤ ρ ↔ α2 ≤ sin2R ρ := by
  have hb0 : 0 ≤ Real.sqrt (1 - α2) := Real.sqrt_nonneg _
  have hb2 : Real.sqrt (1 - α2) ^ 2 = 1 - α2 := Real.sq_sqrt (by linarith)
  unfold sin2R
  constructor
  · intro h
    have h1 : 0 ≤ 1 - ρ / 2 := by linarith
    have h2 : 1 - ρ / 2 ≤ Real.sqrt (1 - α2) := by linarith
    have h3 : (1 - ρ / 2) ^ 2 ≤ Real.sqrt (1 - α2) ^ 2 := pow_le_pow_left₀ h1 h2 2
    rw [hb2] at h3
    nlinarith
  · intro h
    by_contra hc
    have hc : Real.sqrt (1 - α2) < 1 - ρ / 2 := by linarith [not_le.1 hc]
    have h3 : Real.sqrt (1 - α2) ^ 2 < (1 - ρ / 2) ^ 2 := pow_lt_pow_left₀ hc hb0 (by norm_num)
    rw [hb2] at h3
    nlinarith

/-- **the radius test of the loop** is the comparison of `edgeVal` with the cap radius (for `ρ ≤ 2`) -/
theorem edgeVal_le_iff (r : RRect) (a : R3) (ha : a.norm2 = 1) (k : Nat) (hk : k < 4) (ρ : ℝ) (hρ : ρ ≤ 2) :
    edgeVal r a k ≤ ρ ↔ (R3.dot a (nrm r k)) ^ 2 ≤ sin2R ρ * (nrm r k).norm2 := by
  have hN := nrm_norm2_pos r k
  have hcs := R3.dot_sq_le a (nrm r k)
  rw [ha, one_mul] at hcs
  have hα : (R3.dot a (nrm r k)) ^ 2 / (nrm r k).norm2 ≤ 1 := by
    rw [div_le_one hN]; exact hcs
  rw [edgeVal_eq r a ha k hk, thr_iff _ _ hα hρ, div_le_iff₀ hN]

/-- every cell point is at squared distance at least `edgeVal − 2·max(a·n, 0)` -/
theorem edgeVal_lower (r : RRect) (a q : R3) (hq : InCell r q) (k : Nat) (hk : k < 4) :
    edgeVal r a k - 2 * max (R3.dot a (nrm r k)) 0 ≤ dist2 a q := by
  obtain rfl | rfl | rfl | rfl : k = 0 ∨ k = 1 ∨ k = 2 ∨ k = 3 := by omega
  · rw [edgeVal_0, dot_nrm_0]; exact edge_lower_B r a q hq
  · rw [edgeVal_1, dot_nrm_1]; exact edge_lower_R r a q hq
  · rw [edgeVal_2, dot_nrm_2]; exact edge_lower_T r a q hq
  · rw [edgeVal_3, dot_nrm_3]; exact edge_lower_L r a q hq

/-! ### the slab tests -/

theorem dot_vhat_pos (t : R3) (x y : ℝ) : 0 < R3.dot t (vhat x y) ↔ 0 < t.x * x + t.y * y + t.z := by
  rw [dot_raw t x y]
  have h := sqrt_nn_pos x y
  constructor
  · intro h'; exact mul_pos h h'
  · intro h'
    by_contra hc
    have := mul_nonpos_of_nonneg_of_nonpos h.le (not_lt.1 hc)
    linarith

theorem dot_vhat_neg (t : R3) (x y : ℝ) : R3.dot t (vhat x y) < 0 ↔ t.x * x + t.y * y + t.z < 0 := by
  rw [dot_raw t x y]
  have h := sqrt_nn_pos x y
  constructor
  · intro h'; exact mul_neg_of_pos_of_neg h h'
  · intro h'
    by_contra hc
    have := mul_nonneg h.le (not_lt.1 hc)
    linarith

/-- the two `dir.Dot(vertex)` tests of the loop for edge `k` -/
def Slab (r : RRect) (a : R3) (k : Nat) : Prop :=
  R3.dot (R3.cross (nrm r k) a) (vtx r k) < 0 ∧ 0 < R3.dot (R3.cross (nrm r k) a) (vtx r ((k + 1) % 4))

theorem slab_iff_0 (r : RRect) (a : R3) : Slab r a 0 ↔ 0 < uTan r.v0 r.u0 a ∧ uTan r.v0 r.u1 a < 0 := by
  unfold Slab
  rw [show (0 + 1) % 4 = 1 from rfl, vtx_0, vtx_1, nrm_0, dot_vhat_neg, dot_vhat_pos]
  unfold R3.cross uTan; simp only
  constructor <;> (rintro ⟨h1, h2⟩; constructor <;> nlinarith)

theorem slab_iff_1 (r : RRect) (a : R3) : Slab r a 1 ↔ 0 < vTan r.u1 r.v0 a ∧ vTan r.u1 r.v1 a < 0 := by
  unfold Slab
  rw [show (1 + 1) % 4 = 2 from rfl, vtx_1, vtx_2, nrm_1, dot_vhat_neg, dot_vhat_pos]
  unfold R3.cross vTan; simp only
  constructor <;> (rintro ⟨h1, h2⟩; constructor <;> nlinarith)

theorem slab_iff_2 (r : RRect) (a : R3) : Slab r a 2 ↔ 0 < uTan r.v1 r.u0 a ∧ uTan r.v1 r.u1 a < 0 := by
  unfold Slab
  rw [show (2 + 1) % 4 = 3 from rfl, vtx_2, vtx_3, nrm_2, dot_vhat_neg, dot_vhat_pos]
  unfold R3.cross uTan; simp only
  constructor <;> (rintro ⟨h1, h2⟩; constructor <;> nlinarith)

theorem slab_iff_3 (r : RRect) (a : R3) : Slab r a 3 ↔ 0 < vTan r.u0 r.v0 a ∧ vTan r.u0 r.v1 a < 0 := by
  unfold Slab
  rw [show (3 + 1) % 4 = 0 from rfl, vtx_3, vtx_0, nrm_3, dot_vhat_neg, dot_vhat_pos]
  unfold R3.cross vTan; simp only
  constructor <;> (rintro ⟨h1, h2⟩; constructor <;> nlinarith)

/-- if the slab tests of edge `k` hold, `edgeVal` is the squared distance to a point of the cell (on edge `k`) -/
theorem edgeVal_attained (r : RRect) (hr : r.OK) (a : R3) (k : Nat) (hk : k < 4) (hs : Slab r a k) :
    ∃ q, InCell r q ∧ dist2 a q = edgeVal r a k := by
  obtain rfl | rfl | rfl | rfl : k = 0 ∨ k = 1 ∨ k = 2 ∨ k = 3 := by omega
  · obtain ⟨h0, h1⟩ := (slab_iff_0 r a).1 hs
    obtain ⟨q, hb, e⟩ := edge_attained_B r hr a h0 h1
    exact ⟨q, hb.1, e⟩
  · obtain ⟨h0, h1⟩ := (slab_iff_1 r a).1 hs
    obtain ⟨q, hb, e⟩ := edge_attained_R r hr a h0 h1
    exact ⟨q, hb.1, e⟩
  · obtain ⟨h0, h1⟩ := (slab_iff_2 r a).1 hs
    obtain ⟨q, hb, e⟩ := edge_attained_T r hr a h0 h1
    exact ⟨q, hb.1, e⟩
  · obtain ⟨h0, h1⟩ := (slab_iff_3 r a).1 hs
    obtain ⟨q, hb, e⟩ := edge_attained_L r hr a h0 h1
    exact ⟨q, hb.1, e⟩

/-! ### convexity of the cell -/

/-- all four `a·V̂_k` below `m ≤ 0` ⇒ `a·q < m` on the whole cell -/
theorem hemi_lt (r : RRect) (hr : r.OK) (a q : R3) (hq : InCell r q) (m : ℝ) (hm : m ≤ 0)
    (hv : ∀ k, k < 4 → R3.dot a (vtx r k) < m) : R3.dot a q < m := by
  obtain ⟨c00, c10, c01, c11, p00, p10, p01, p11, hs, -, hdec⟩ := cell_combination r hr q hq
  have h0 := hv 0 (by norm_num)
  have h1 := hv 1 (by norm_num)
  have h2 := hv 2 (by norm_num)
  have h3 := hv 3 (by norm_num)
  rw [vtx_0] at h0; rw [vtx_1] at h1; rw [vtx_2] at h2; rw [vtx_3] at h3
  have hM : maxVertexDot r a < m := by
    unfold maxVertexDot
    exact max_lt (max_lt h0 h1) (max_lt h3 h2)
  have d00 : R3.dot a (vhat r.u0 r.v0) ≤ maxVertexDot r a := le_max_of_le_left (le_max_left _ _)
  have d10 : R3.dot a (vhat r.u1 r.v0) ≤ maxVertexDot r a := le_max_of_le_left (le_max_right _ _)
  have d01 : R3.dot a (vhat r.u0 r.v1) ≤ maxVertexDot r a := le_max_of_le_right (le_max_left _ _)
  have d11 : R3.dot a (vhat r.u1 r.v1) ≤ maxVertexDot r a := le_max_of_le_right (le_max_right _ _)
  rw [hdec a]
  have e00 := mul_le_mul_of_nonneg_left d00 p00
  have e10 := mul_le_mul_of_nonneg_left d10 p10
  have e01 := mul_le_mul_of_nonneg_left d01 p01
  have e11 := mul_le_mul_of_nonneg_left d11 p11
  have e : (c00 + c10 + c01 + c11 - 1) * maxVertexDot r a ≤ 0 :=
    mul_nonpos_of_nonneg_of_nonpos (by linarith) (by linarith)
  nlinarith

/-- all four `a·V̂_k` at least `m ≥ 0` ⇒ `a·q ≥ m` on the whole cell -/
theorem hemi_ge (r : RRect) (hr : r.OK) (a q : R3) (hq : InCell r q) (m : ℝ) (hm : 0 ≤ m)
    (hv : ∀ k, k < 4 → m ≤ R3.dot a (vtx r k)) : m ≤ R3.dot a q := by
  obtain ⟨c00, c10, c01, c11, p00, p10, p01, p11, hs, -, hdec⟩ := cell_combination r hr q hq
  have h0 := hv 0 (by norm_num)
  have h1 := hv 1 (by norm_num)
  have h2 := hv 2 (by norm_num)
  have h3 := hv 3 (by norm_num)
  rw [vtx_0] at h0; rw [vtx_1] at h1; rw [vtx_2] at h2; rw [vtx_3] at h3
  rw [hdec a]
  have e00 := mul_le_mul_of_nonneg_left h0 p00
  have e10 := mul_le_mul_of_nonneg_left h1 p10
  have e01 := mul_le_mul_of_nonneg_left h3 p01
  have e11 := mul_le_mul_of_nonneg_left h2 p11
  have e : 0 ≤ (c00 + c10 + c01 + c11 - 1) * m := mul_nonneg (by linarith) hm
  nlinarith

/-- chord distance between unit vectors -/
theorem dist2_unit (a q : R3) (ha : a.norm2 = 1) (hq : q.norm2 = 1) : dist2 a q = 2 - 2 * R3.dot a q := by
  rw [dist2_eq, ha, hq]; ring

theorem dist2_nonneg (a q : R3) : 0 ≤ dist2 a q := by unfold dist2; exact R3.norm2_nonneg _

/-- the exact `inside` flag of C12 on a unit vector is membership in the cell -/
theorem inCell_of_exInside (r : RRect) (hr : r.OK) (a : R3) (ha : a.norm2 = 1) (hI : ExInside r a) : InCell r a := by
  obtain ⟨h1, h2, h3, h4⟩ := hI
  unfold sL at h1; unfold sR at h2; unfold sB at h3; unfold sT at h4
  have hu := hr.u_lt
  have hz0 : 0 ≤ a.z := by
    by_contra hneg
    have hneg' : a.z < 0 := not_le.1 hneg
    nlinarith
  have hz : 0 < a.z := by
    rcases lt_or_eq_of_le hz0 with h | h
    · exact h
    · exfalso
      rw [← h] at h1 h2 h3 h4
      have hx : a.x = 0 := by linarith
      have hy : a.y = 0 := by linarith
      unfold R3.norm2 at ha; rw [hx, hy, ← h] at ha; simp at ha
  exact ⟨ha, hz, by linarith, by linarith, by linarith, by linarith⟩

end S2Proofs.C05Cap
