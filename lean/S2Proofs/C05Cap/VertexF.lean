/-
  C05Cap.VertexF — the float vertex tests of `Cap.IntersectsCell` / `Cap.ContainsCell`:

      c.ContainsPoint(cell.Vertex(k))   =   ChordAngleBetweenPoints(c.center, Normalize(faceUVToXYZ(face, x, y))) ≤ c.radius

  against the exact unit vertex `vtx (rectOf cell) k = vhat x y` in the face frame, `A' = uvwR face (ofV a)`.

  `Chord.between` is definitionally C12's `chordAngleBetweenPoints`; the vertex here is the normalisation of
  `faceUVToXYZ face x y` (a signed permutation of `(x, y, 1)`) instead of C12's `pointFromCoords x y 1`, so the
  float squared norm is summed in another order — the error argument of `C12Dist.VertexErr` (`scaleSpec` for Normalize,
  three subtractions, one float squared norm: 57u) goes through verbatim for ANY finite vector `w` with coordinates in
  `[-1, 1]` and `|w|² ≥ 1` (`normChord_full`).  The frame: `uvwR f (ofV (faceUVToXYZ f x y)) = (val x, val y, 1)`.

  Main results: `vertex_between` (two-sided, `min 4`), `vertex_in`, `vertex_out` (one-sided, no clamp), slack `2^-47 = 64u`
  (the analysis gives 57u).
-/
import S2Proofs.C05Cap.Defs
import S2Proofs.C12Dist.VertexErr
import S2Proofs.CapF64.Defs
import S2Proofs.CapF64.Model

namespace S2Proofs.C05Cap
open S2 S2.CellM S2.STUV S2Proofs.FloatErr S2Proofs.F64Order S2Proofs.C12Dist S2Proofs.C16Acc
open S2Proofs.C12Dist.VertexErr
open scoped S2.CapF64

namespace VertexF

theorem val_neg' (x : F64) : val (-x) = - val x := val_neg x
theorem fin_neg {x : F64} (h : Fin x) : Fin (-x) := (S2Proofs.F64Sym.isFinite_neg x).2 h

theorem between_eq (a b : V3) : Chord.between a b = chordAngleBetweenPoints a b := rfl

/-- everything about `ChordAngleBetweenPoints(t, Normalize(w))` for a finite `w` with coordinates in `[-1,1]`, `|w|² ≥ 1`:
    the value is `min 4 n` for an unclamped `n ≥ 0` within `57u` of `|t − w/|w||²` -/
theorem normChord_full (t w : V3) (ht : Fin3 t) (hw : Fin3 w)
    (b1 : |val w.x| ≤ 1) (b2 : |val w.y| ≤ 1) (b3 : |val w.z| ≤ 1) (hS1 : 1 ≤ (ofV w).norm2)
    (bt : (ofV t).norm2 ≤ 1 + 1 / 2 ^ 20) :
    Fin (chordAngleBetweenPoints t w.normalize) ∧
    (R3.smul (1 / (ofV w).norm) (ofV w)).norm = 1 ∧
    ∃ n : ℝ, val (chordAngleBetweenPoints t w.normalize) = min 4 n ∧ 0 ≤ n ∧
      |n - dist2 (ofV t) (R3.smul (1 / (ofV w).norm) (ofV w))| ≤ 57 * uR := by
  have H := stdModel
  have hu0 := uR_nonneg
  have p14 : (1 : ℝ) ≤ 2 ^ 14 := by norm_num
  have m1 : |val w.x| ≤ 2 ^ 14 := le_trans b1 p14
  have m2 : |val w.y| ≤ 2 ^ 14 := le_trans b2 p14
  have m3 : |val w.z| ≤ 2 ^ 14 := le_trans b3 p14
  obtain ⟨fn, herr⟩ := norm2_wide _ hw ⟨m1, m2, m3⟩
  have hn2 : 1 / 4 ≤ val w.norm2 := by
    have hρ := rhoU_le3
    have hρ2 : rhoU uR ≤ 1 / 2 := le_trans hρ (by unfold uR; norm_num)
    have h1 := mul_le_mul_of_nonneg_right hρ2 (le_trans (by norm_num) hS1 : (0 : ℝ) ≤ _)
    have h2 := four_eR_le_u
    have h3 : uR / 1000 ≤ 1 / 4 := by unfold uR; norm_num
    have hb := abs_le.mp herr
    linarith
  have hlo : 1 / 2 ^ 1022 ≤ val w.norm2 :=
    le_trans (one_div_le_one_div_of_le (by norm_num)
      (le_trans (by norm_num : (4 : ℝ) ≤ 2 ^ 2) (pow_le_pow_right₀ (by norm_num) (by norm_num)))) hn2
  have hfeq : F64.feq w.norm2 (F64.zero false) = false := by
    cases h : F64.feq w.norm2 (F64.zero false)
    · rfl
    · exfalso
      have h1 := (feq_iff fn (zero_val false).1).1 h
      have h2 := (val_eq_iff _ _).2 h1
      rw [VertexErr.val_zero] at h2
      linarith
  rw [normalize_eq w hfeq]
  obtain ⟨_, _, fq, hn512, _, s, ν, hs0, hsn, heq, hν⟩ := scaleSpec _ hw m1 m2 m3 hlo
  have hVpos : 0 < (ofV w).norm := lt_of_lt_of_le (by positivity) hn512
  obtain ⟨hVh, hQ⟩ := unit_close hVpos hs0 hsn hν
  rw [← heq] at hQ
  refine ⟨?_, hVh, ?_⟩ <;>
  generalize w.mul (F64.one / F64.sqrt w.norm2) = q at fq hQ ⊢ <;>
  generalize R3.smul (1 / (ofV w).norm) (ofV w) = Vh at hVh hQ ⊢ <;>
  clear heq hν hsn hs0 hlo hfeq hn2 herr hn512 hVpos
  all_goals
    have hε : (9 + 1 / 1000) * uR ≤ 1 / 2 := by unfold uR; norm_num
    have hQn : (ofV q).norm ≤ 2 := by
      have := R3.norm_le_add_sub (ofV q) Vh
      linarith
    have hTn : (ofV t).norm ≤ 2 := by
      apply R3.norm_le_of_sq (by norm_num)
      have : (1 : ℝ) + 1 / 2 ^ 20 ≤ 2 ^ 2 := by norm_num
      linarith
    obtain ⟨q1, q2, q3⟩ := R3.abs_comp_le_norm (ofV q)
    obtain ⟨t1, t2, t3⟩ := R3.abs_comp_le_norm (ofV t)
    obtain ⟨ft1, ft2, ft3⟩ := ht
    obtain ⟨fq1, fq2, fq3⟩ := fq
    have d1 : |val t.x - val q.x| ≤ 4 := by
      have := abs_sub (val t.x) (val q.x)
      have a1 : |val t.x| ≤ 2 := le_trans t1 hTn
      have a2 : |val q.x| ≤ 2 := le_trans q1 hQn
      linarith
    have d2 : |val t.y - val q.y| ≤ 4 := by
      have := abs_sub (val t.y) (val q.y)
      have a1 : |val t.y| ≤ 2 := le_trans t2 hTn
      have a2 : |val q.y| ≤ 2 := le_trans q2 hQn
      linarith
    have d3 : |val t.z - val q.z| ≤ 4 := by
      have := abs_sub (val t.z) (val q.z)
      have a1 : |val t.z| ≤ 2 := le_trans t3 hTn
      have a2 : |val q.z| ≤ 2 := le_trans q3 hQn
      linarith
    obtain ⟨fd1, rd1, gd1⟩ := sub_step H ft1 fq1 d1 (by norm_num)
    obtain ⟨fd2, rd2, gd2⟩ := sub_step H ft2 fq2 d2 (by norm_num)
    obtain ⟨fd3, rd3, gd3⟩ := sub_step H ft3 fq3 d3 (by norm_num)
    have fD : Fin3 (t.sub q) := ⟨fd1, fd2, fd3⟩
    have p9 : (2 : ℝ) * 4 + 1 ≤ 2 ^ 14 := by norm_num
    have mD : |val (t.sub q).x| ≤ 2 ^ 14 ∧ |val (t.sub q).y| ≤ 2 ^ 14 ∧ |val (t.sub q).z| ≤ 2 ^ 14 :=
      ⟨le_trans gd1 p9, le_trans gd2 p9, le_trans gd3 p9⟩
    obtain ⟨fN, hN⟩ := norm2_wide _ fD mD
    have hN0 := norm2_val_nonneg _ fD mD
    obtain ⟨fR, vR⟩ := fmin_fin fin_four fN
  · exact fR
  · have hD : (R3.sub (ofV (t.sub q)) (R3.sub (ofV t) (ofV q))).norm
        ≤ uR * (R3.sub (ofV t) (ofV q)).norm := by
      have h := R3.norm_le_of_comp (v := R3.sub (ofV (t.sub q)) (R3.sub (ofV t) (ofV q)))
        (p := R3.sub (ofV t) (ofV q)) (q := R3.zero) (α := uR) (β := 0) (γ := 0) hu0 (le_refl _) (le_refl _)
        (by have := rd1; unfold Rnd at this; simpa [R3.sub, ofV, V3.sub, R3.zero] using this)
        (by have := rd2; unfold Rnd at this; simpa [R3.sub, ofV, V3.sub, R3.zero] using this)
        (by have := rd3; unfold Rnd at this; simpa [R3.sub, ofV, V3.sub, R3.zero] using this)
      linarith
    have hcore := vec_core hVh bt hQ hD hN
    refine ⟨val (t.sub q).norm2, ?_, hN0, hcore⟩
    unfold chordAngleBetweenPoints
    rw [vR, val_four]

/-! ### the face frame -/

/-- `faceUVToXYZ` in the face frame is `(x, y, 1)` (all faces; both matches have face 5 as default) -/
theorem frame_vertex (f : Nat) (x y : F64) : uvwR f (ofV (faceUVToXYZ f x y)) = ⟨val x, val y, 1⟩ := by
  rcases f with _ | _ | _ | _ | _ | _ | f <;>
    simp [faceUVToXYZ, uvwR, ofV, val_neg', VertexErr.val_one]

theorem fin3_vertex (f : Nat) {x y : F64} (hx : Fin x) (hy : Fin y) : Fin3 (faceUVToXYZ f x y) := by
  have h1 := fin_one
  rcases f with _ | _ | _ | _ | _ | _ | f <;> simp only [faceUVToXYZ, Fin3] <;>
    refine ⟨?_, ?_, ?_⟩ <;> first | assumption | (apply fin_neg; assumption)

theorem coords_vertex (f : Nat) {x y : F64} (bx : |val x| ≤ 1) (by' : |val y| ≤ 1) :
    |val (faceUVToXYZ f x y).x| ≤ 1 ∧ |val (faceUVToXYZ f x y).y| ≤ 1 ∧ |val (faceUVToXYZ f x y).z| ≤ 1 := by
  have h1 : |val F64.one| ≤ 1 := by rw [VertexErr.val_one, abs_one]
  rcases f with _ | _ | _ | _ | _ | _ | f <;> simp only [faceUVToXYZ] <;>
    refine ⟨?_, ?_, ?_⟩ <;> (try simp only [val_neg', abs_neg]) <;> first | exact h1 | exact bx | exact by'

theorem uvwR_smul (f : Nat) (c : ℝ) (p : R3) : uvwR f (R3.smul c p) = R3.smul c (uvwR f p) := by
  unfold uvwR R3.smul; split <;> (ext <;> simp)

theorem norm_uvwR (f : Nat) (p : R3) : (uvwR f p).norm = p.norm := by
  unfold R3.norm; rw [uvwR_norm2]

/-- the exact normalised vertex, moved to the face frame, is `vhat x y` -/
theorem frame_unit (f : Nat) (x y : F64) :
    uvwR f (R3.smul (1 / (ofV (faceUVToXYZ f x y)).norm) (ofV (faceUVToXYZ f x y))) = vhat (val x) (val y) := by
  rw [uvwR_smul, ← norm_uvwR f (ofV (faceUVToXYZ f x y)), frame_vertex]
  unfold vhat R3.norm R3.norm2
  simp only
  have e : (1 : ℝ) + val x ^ 2 + val y ^ 2 = val x ^ 2 + val y ^ 2 + 1 ^ 2 := by ring
  rw [e]

theorem norm2_vertex_ge (f : Nat) (x y : F64) : 1 ≤ (ofV (faceUVToXYZ f x y)).norm2 := by
  rw [← uvwR_norm2 f, frame_vertex]
  unfold R3.norm2
  simp only
  nlinarith [sq_nonneg (val x), sq_nonneg (val y)]

/-- a Normalize-grade unit vector has `|a|² ≤ 1 + 2^-20` -/
theorem nunit_norm2 {a : V3} (ha : S2Proofs.CapF64.NUnit a) :
    (ofV a).norm2 ≤ 1 + S2Proofs.CapF64.NU * S2Proofs.CapF64.eps := by
  obtain ⟨_, h⟩ := ha
  have e : S2Proofs.CapF64.nrm2 a = (ofV a).norm2 := by
    unfold S2Proofs.CapF64.nrm2 R3.norm2 ofV; rfl
  rw [e] at h
  have := (abs_le.mp h).2
  linarith

theorem nu_eps_le : S2Proofs.CapF64.NU * S2Proofs.CapF64.eps ≤ 10 * uR := by
  unfold S2Proofs.CapF64.NU S2Proofs.CapF64.eps uR; norm_num

/-- the float vertex test in the face frame, for one pair of bounds `(x, y)` -/
theorem vertex_xy (f : Nat) (a : V3) (x y : F64) (ha : S2Proofs.CapF64.NUnit a) (hx : Fin x) (hy : Fin y)
    (bx : |val x| ≤ 1) (by' : |val y| ≤ 1) :
    Fin (Chord.between a (faceUVToXYZ f x y).normalize) ∧
    ∃ n : ℝ, val (Chord.between a (faceUVToXYZ f x y).normalize) = min 4 n ∧ 0 ≤ n ∧
      |n - dist2 (uvwR f (ofV a)) (vhat (val x) (val y))| ≤ 57 * uR := by
  obtain ⟨c1, c2, c3⟩ := coords_vertex f bx by'
  have hn := nunit_norm2 ha
  have hne := nu_eps_le
  have bt : (ofV a).norm2 ≤ 1 + 1 / 2 ^ 20 := by
    have : 10 * uR ≤ 1 / 2 ^ 20 := by unfold uR; norm_num
    linarith
  obtain ⟨h1, _, n, h2, h3, h4⟩ :=
    normChord_full a (faceUVToXYZ f x y) ha.1 (fin3_vertex f hx hy) c1 c2 c3 (norm2_vertex_ge f x y) bt
  rw [← uvwR_dist2 f, frame_unit] at h4
  rw [between_eq]
  exact ⟨h1, n, h2, h3, h4⟩

/-- a point of norm² ≤ 1 + δ is within squared distance `4 + 2δ` of any unit vector (`δ ≤ 1`) -/
theorem dist2_le_four {p q : R3} {δ : ℝ} (hδ0 : 0 ≤ δ) (hp : p.norm2 ≤ 1 + δ) (hq : q.norm = 1) :
    dist2 p q ≤ 4 + 2 * δ + δ ^ 2 / 4 := by
  have hpn : p.norm ≤ 1 + δ / 2 := by
    apply R3.norm_le_of_sq (by linarith)
    nlinarith [sq_nonneg δ]
  have h := R3.norm_sub_le p q
  have e : dist2 p q = (R3.sub p q).norm ^ 2 := by unfold dist2; rw [R3.norm_sq]
  rw [e]
  have h0 := R3.norm_nonneg (R3.sub p q)
  have hle : (R3.sub p q).norm ≤ 2 + δ / 2 := by linarith
  have := pow_le_pow_left₀ h0 hle 2
  nlinarith

theorem vhat_norm (x y : ℝ) : (vhat x y).norm = 1 := by
  unfold vhat
  have hpos : (0 : ℝ) < 1 + x ^ 2 + y ^ 2 := by positivity
  have hs : 0 < Real.sqrt (1 + x ^ 2 + y ^ 2) := Real.sqrt_pos.2 hpos
  rw [R3.norm_smul, abs_of_pos (by positivity)]
  have e : (⟨x, y, 1⟩ : R3).norm = Real.sqrt (1 + x ^ 2 + y ^ 2) := by
    unfold R3.norm R3.norm2; congr 1; simp only; ring
  rw [e]; field_simp

/-- the vertex `k` of the model and of `Defs.vtx`, as a pair of bounds -/
theorem vertex_cases (cell : Cell) (k : Nat) (hk : k < 4) :
    ∃ x y : F64, (x = cell.uv.1.1 ∨ x = cell.uv.1.2) ∧ (y = cell.uv.2.1 ∨ y = cell.uv.2.2) ∧
      CellM.vertex cell k = (faceUVToXYZ cell.face x y).normalize ∧ vtx (rectOf cell) k = vhat (val x) (val y) := by
  have hk' : k = 0 ∨ k = 1 ∨ k = 2 ∨ k = 3 := by omega
  rcases hk' with rfl | rfl | rfl | rfl
  · exact ⟨cell.uv.1.1, cell.uv.2.1, Or.inl rfl, Or.inl rfl, rfl, rfl⟩
  · exact ⟨cell.uv.1.2, cell.uv.2.1, Or.inr rfl, Or.inl rfl, rfl, rfl⟩
  · exact ⟨cell.uv.1.2, cell.uv.2.2, Or.inr rfl, Or.inr rfl, rfl, rfl⟩
  · exact ⟨cell.uv.1.1, cell.uv.2.2, Or.inl rfl, Or.inr rfl, rfl, rfl⟩

end VertexF

open VertexF

/-- slack of the float vertex tests: `2^-47 = 64u` (the analysis gives `57u`) -/
noncomputable def vertSlack : ℝ := 1 / 2 ^ 47

theorem vertSlack_ge : 57 * uR ≤ vertSlack := by unfold vertSlack uR; norm_num

/-- **unclamped form**: `Chord.between a (cell.Vertex k)` is finite and equals `min 4 n` for some `n ≥ 0` within `57u` of the
    exact squared distance from the centre (face frame) to the exact unit vertex -/
theorem vertex_between_raw (cell : Cell) (fu0 : Fin cell.uv.1.1) (fu1 : Fin cell.uv.1.2) (fv0 : Fin cell.uv.2.1) (fv1 : Fin cell.uv.2.2)
    (hr : (rectOf cell).OK) (a : V3) (ha : S2Proofs.CapF64.NUnit a) (k : Nat) (hk : k < 4) :
    Fin (Chord.between a (CellM.vertex cell k)) ∧
    ∃ n : ℝ, val (Chord.between a (CellM.vertex cell k)) = min 4 n ∧ 0 ≤ n ∧
      |n - dist2 (uvwR cell.face (ofV a)) (vtx (rectOf cell) k)| ≤ 57 * uR := by
  obtain ⟨x, y, hx, hy, e1, e2⟩ := vertex_cases cell k hk
  obtain ⟨a0, a1, a2, b0, b1, b2⟩ := hr
  unfold rectOf at a0 a1 a2 b0 b1 b2
  simp only at a0 a1 a2 b0 b1 b2
  have fx : Fin x := by rcases hx with rfl | rfl <;> assumption
  have fy : Fin y := by rcases hy with rfl | rfl <;> assumption
  have bx : |val x| ≤ 1 := by rcases hx with rfl | rfl <;> (rw [abs_le]; constructor <;> linarith)
  have by' : |val y| ≤ 1 := by rcases hy with rfl | rfl <;> (rw [abs_le]; constructor <;> linarith)
  rw [e1, e2]
  exact vertex_xy cell.face a x y ha fx fy bx by'

set_option linter.unusedVariables false in
/-- **the float chord between the cap centre and `cell.Vertex(k)` against the exact one** (two-sided, clamped at 4) -/
theorem vertex_between (cell : Cell) (fu0 : Fin cell.uv.1.1) (fu1 : Fin cell.uv.1.2) (fv0 : Fin cell.uv.2.1) (fv1 : Fin cell.uv.2.2)
    (hr : (rectOf cell).OK) (hface : cell.face < 6) (a : V3) (ha : S2Proofs.CapF64.NUnit a) (k : Nat) (hk : k < 4) :
    Fin (Chord.between a (CellM.vertex cell k)) ∧
    |val (Chord.between a (CellM.vertex cell k)) - min 4 (dist2 (uvwR cell.face (ofV a)) (vtx (rectOf cell) k))| ≤ vertSlack := by
  obtain ⟨h1, n, h2, _, h4⟩ := vertex_between_raw cell fu0 fu1 fv0 fv1 hr a ha k hk
  refine ⟨h1, ?_⟩
  rw [h2]
  exact le_trans (le_trans (min_lip 4 _ _) h4) vertSlack_ge

set_option linter.unusedVariables false in
/-- **`ContainsPoint(vertex) = true` ⇒ the exact vertex is in the cap up to the slack** (no clamp) -/
theorem vertex_in (cell : Cell) (fu0 : Fin cell.uv.1.1) (fu1 : Fin cell.uv.1.2) (fv0 : Fin cell.uv.2.1) (fv1 : Fin cell.uv.2.2)
    (hr : (rectOf cell).OK) (hface : cell.face < 6) (a : V3) (ha : S2Proofs.CapF64.NUnit a) (k : Nat) (hk : k < 4)
    (rad : F64) (hfin : Fin rad) (h : (⟨a, rad⟩ : CapF64.Cap).containsPoint (CellM.vertex cell k) = true) :
    dist2 (uvwR cell.face (ofV a)) (vtx (rectOf cell) k) ≤ val rad + vertSlack := by
  obtain ⟨h1, n, h2, _, h4⟩ := vertex_between_raw cell fu0 fu1 fv0 fv1 hr a ha k hk
  rw [S2Proofs.CapF64.containsPoint_eq] at h
  have hle : val (Chord.between a (CellM.vertex cell k)) ≤ val rad :=
    (val_le_iff _ _).2 ((le_iff h1 hfin).1 h)
  rw [h2] at hle
  have hs := vertSlack_ge
  have hb := abs_le.mp h4
  rcases le_total 4 n with h4n | hn4
  · -- clamped: rad ≥ 4, and the exact distance is at most 4 + 21u
    rw [min_eq_left h4n] at hle
    have hδ := nu_eps_le
    have hδ0 : 0 ≤ S2Proofs.CapF64.NU * S2Proofs.CapF64.eps := by
      unfold S2Proofs.CapF64.NU S2Proofs.CapF64.eps; positivity
    have hp : (uvwR cell.face (ofV a)).norm2 ≤ 1 + S2Proofs.CapF64.NU * S2Proofs.CapF64.eps := by
      rw [uvwR_norm2]; exact nunit_norm2 ha
    have hq : (vtx (rectOf cell) k).norm = 1 := by
      obtain ⟨x, y, _, _, _, e2⟩ := vertex_cases cell k hk
      rw [e2]; exact vhat_norm _ _
    have hd := dist2_le_four hδ0 hp hq
    have hu : uR ≤ 1 / 2 ^ 53 := le_of_eq rfl
    have hu0 := uR_nonneg
    generalize S2Proofs.CapF64.NU * S2Proofs.CapF64.eps = δ at hδ hδ0 hd
    have hδ1 : δ ≤ 1 := by
      have : 10 * uR ≤ 1 := by unfold uR; norm_num
      linarith
    have hsq : δ ^ 2 / 4 ≤ δ := by nlinarith
    have : 2 * δ + δ ≤ 57 * uR := by linarith
    linarith
  · rw [min_eq_right hn4] at hle
    linarith

set_option linter.unusedVariables false in
/-- **`ContainsPoint(vertex) = false` ⇒ the exact vertex is outside the cap up to the slack** -/
theorem vertex_out (cell : Cell) (fu0 : Fin cell.uv.1.1) (fu1 : Fin cell.uv.1.2) (fv0 : Fin cell.uv.2.1) (fv1 : Fin cell.uv.2.2)
    (hr : (rectOf cell).OK) (hface : cell.face < 6) (a : V3) (ha : S2Proofs.CapF64.NUnit a) (k : Nat) (hk : k < 4)
    (rad : F64) (hfin : Fin rad) (h : (⟨a, rad⟩ : CapF64.Cap).containsPoint (CellM.vertex cell k) = false) :
    val rad - vertSlack < dist2 (uvwR cell.face (ofV a)) (vtx (rectOf cell) k) := by
  obtain ⟨h1, n, h2, _, h4⟩ := vertex_between_raw cell fu0 fu1 fv0 fv1 hr a ha k hk
  rw [S2Proofs.CapF64.containsPoint_eq] at h
  have hlt : val rad < val (Chord.between a (CellM.vertex cell k)) := by
    by_contra hc
    have hc' := not_lt.1 hc
    have := (le_iff h1 hfin).2 ((val_le_iff _ _).1 hc')
    rw [this] at h
    exact Bool.noConfusion h
  rw [h2] at hlt
  have hs := vertSlack_ge
  have hb := abs_le.mp h4
  have := min_le_right 4 n
  linarith

/-! ### non-vacuity: the face-0 cell `[-1,1]²`, centre `(−1,0,0)`, radius `1/2` (vertex 0 is NOT in the cap),
    radius 4 (it is) -/

namespace VertexF
def exCell : Cell := ⟨0, 0, 0, 0x1000000000000000, ((negOne, F64.one), (negOne, F64.one))⟩
def exA : V3 := ⟨⟨0xBFF0000000000000⟩, F64.zero false, F64.zero false⟩
def exRad : F64 := ⟨0x3FE0000000000000⟩

theorem val_negOne : val negOne = -1 := by
  have e : negOne = -F64.one := by decide
  rw [e, val_neg', VertexErr.val_one]

theorem exCell_ok : (rectOf exCell).OK := by
  constructor <;> simp only [rectOf, exCell] <;> (try rw [val_negOne]) <;> (try rw [VertexErr.val_one]) <;> norm_num
end VertexF

example : Fin exCell.uv.1.1 ∧ Fin exCell.uv.1.2 ∧ Fin exCell.uv.2.1 ∧ Fin exCell.uv.2.2 ∧ (rectOf exCell).OK ∧ exCell.face < 6 ∧
    S2Proofs.CapF64.NUnit exA ∧ Fin exRad ∧ Fin F64.four ∧
    (⟨exA, exRad⟩ : CapF64.Cap).containsPoint (CellM.vertex exCell 0) = false ∧
    (⟨exA, F64.four⟩ : CapF64.Cap).containsPoint (CellM.vertex exCell 0) = true := by
  refine ⟨by decide, by decide, by decide, by decide, exCell_ok, by decide,
    (S2Proofs.CapF64.nunitB_iff exA).1 (by decide +kernel), by decide, by decide, ?_, ?_⟩
  · rw [S2Proofs.CapF64.containsPoint_eq]; decide +kernel
  · rw [S2Proofs.CapF64.containsPoint_eq]; decide +kernel

end S2Proofs.C05Cap
