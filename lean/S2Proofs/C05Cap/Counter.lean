/-
  C05Cap.Counter — REGRESSION WITNESS for defect D59 (repaired): before the repair `Cap.intersects` rejected an edge
  with the bare test `dot*dot > sin2Angle*edge.Norm2()`.  Near a hemisphere both sides are `1 − O(1e-16)` and rounding
  decides.  For the face cell `0x7000000000000000` (face 3, level 0, uv = [-1,1]²) and the cap `capD59` (centre unit to
  2.1e-16, chord² radius `1.9999999007…`) the OLD code answers `IntersectsCell = false` (the top edge `k = 2` says
  `return false`) although the exact cell point `uvwR 3 (vhat 0 1)` (the midpoint of that edge) lies inside the cap by
  `7.9e-9 > 1e-9` in chord² (reproduced against the unrepaired Go code).  With the allowance `capEdgeDotError = 2^-48`
  (current model `S2.CapCell`) the same step answers `return true`.
-/
import S2Proofs.C05Cap.OldModel
import S2Proofs.C12Dist.Branches
import S2Proofs.C12Dist.CoverBasics
import S2Proofs.C12.Children
import S2Proofs.CapF64.Defs
import Mathlib.Tactic.NormNum

namespace S2Proofs.C05Cap
open S2 S2.CellM S2.CapF64 S2.CapCell S2.Exact S2Proofs.FloatErr S2Proofs.F64Order S2Proofs.C16Acc S2Proofs.C12Dist

def cellD59 : Cell := cellFromCellID 0x7000000000000000
def capD59 : Cap :=
  ⟨⟨⟨0x3fe6a09e5224924d⟩, ⟨0xbfe6a09e7ad9e53b⟩, ⟨0xbe34973f9d755374⟩⟩, ⟨0x3fffffffe55a0ce7⟩⟩

namespace Counter

/-- the cell as a literal record: face 3, uv = [-1,1]² -/
def cellLit : Cell :=
  { face := 3, level := 0, orientation := 1, id := 0x7000000000000000,
    uv := ((⟨0xBFF0000000000000⟩, ⟨0x3FF0000000000000⟩), (⟨0xBFF0000000000000⟩, ⟨0x3FF0000000000000⟩)) }

theorem cell_eq : cellD59 = cellLit := by
  have h : S2Proofs.IsCell (0x7000000000000000 : CellID) 0 := ⟨by decide, by decide, by decide⟩
  unfold cellD59 cellLit
  rw [S2Proofs.C12C.cellFromCellID_eq h]
  decide +kernel

theorem val_neg1 : val ⟨0xBFF0000000000000⟩ = -1 := by
  have h : toInt ⟨0xBFF0000000000000⟩ = -1 * 2 ^ 1074 := by decide +kernel
  rw [val_of_toInt (j := 0) h (by norm_num)]; push_cast; ring
theorem val_pos1 : val ⟨0x3FF0000000000000⟩ = 1 := by
  have h : toInt ⟨0x3FF0000000000000⟩ = 1 * 2 ^ 1074 := by decide +kernel
  rw [val_of_toInt (j := 0) h (by norm_num)]; push_cast; ring
theorem val_ax : val ⟨0x3fe6a09e5224924d⟩ = 6369051331039821 / 2 ^ 53 := by
  have h : toInt ⟨0x3fe6a09e5224924d⟩ = 6369051331039821 * 2 ^ 1021 := by decide +kernel
  rw [val_of_toInt (j := 53) h (by norm_num)]; push_cast; ring
theorem val_ay : val ⟨0xbfe6a09e7ad9e53b⟩ = -6369052014011707 / 2 ^ 53 := by
  have h : toInt ⟨0xbfe6a09e7ad9e53b⟩ = -6369052014011707 * 2 ^ 1021 := by decide +kernel
  rw [val_of_toInt (j := 53) h (by norm_num)]; push_cast; ring
theorem val_az : val ⟨0xbe34973f9d755374⟩ = -1448949753664733 / 2 ^ 78 := by
  have h : toInt ⟨0xbe34973f9d755374⟩ = -1448949753664733 * 2 ^ 996 := by decide +kernel
  rw [val_of_toInt (j := 78) h (by norm_num)]; push_cast; ring
theorem val_rad : val ⟨0x3fffffffe55a0ce7⟩ = 9007198807657703 / 2 ^ 52 := by
  have h : toInt ⟨0x3fffffffe55a0ce7⟩ = 9007198807657703 * 2 ^ 1022 := by decide +kernel
  rw [val_of_toInt (j := 52) h (by norm_num)]; push_cast; ring

/-- the rectangle of the cell and the cap centre in the face frame, as rational literals -/
noncomputable def RD : RRect := ⟨-1, 1, -1, 1⟩
noncomputable def AD : R3 := ⟨1448949753664733 / 2 ^ 78, 6369052014011707 / 2 ^ 53, -6369051331039821 / 2 ^ 53⟩

theorem rect_eq : rectOf cellLit = RD := by
  show (⟨val ⟨0xBFF0000000000000⟩, val ⟨0x3FF0000000000000⟩, val ⟨0xBFF0000000000000⟩, val ⟨0x3FF0000000000000⟩⟩ : RRect) = _
  rw [val_neg1, val_pos1]; rfl

theorem A_eq : uvwR 3 (ofV capD59.center) = AD := by
  show (⟨-val ⟨0xbe34973f9d755374⟩, -val ⟨0xbfe6a09e7ad9e53b⟩, -val ⟨0x3fe6a09e5224924d⟩⟩ : R3) = _
  rw [val_az, val_ay, val_ax]; unfold AD; ext <;> simp only <;> ring

theorem RD_ok : RD.OK := by
  constructor <;> simp only [RD] <;> norm_num

/-- `t·V̂(x,y) ≥ a/s` when the numerator is `≥ a ≥ 0` and `1+x²+y² ≤ s²` -/
theorem dot_vhat_ge (t : R3) (x y a s : ℝ) (ha : 0 ≤ a) (hs : 0 < s) (hnum : a ≤ t.x * x + t.y * y + t.z)
    (hnn : Cover.nn x y ≤ s ^ 2) : a / s ≤ R3.dot t (vhat x y) := by
  rw [Cover.dot_vhat]
  have hS := Cover.sqrt_nn_pos x y
  have hSs : Real.sqrt (Cover.nn x y) ≤ s := by
    rw [show s = Real.sqrt (s ^ 2) from (Real.sqrt_sq hs.le).symm]
    exact Real.sqrt_le_sqrt hnn
  rw [le_div_iff₀ hS]
  have h1 : a / s * Real.sqrt (Cover.nn x y) ≤ a / s * s :=
    mul_le_mul_of_nonneg_left hSs (div_nonneg ha hs.le)
  have h2 : a / s * s = a := by field_simp
  linarith

/-- the midpoint `V̂(0,1)` of the top edge (face frame) is inside the cap by `> 1e-9` (chord²) -/
theorem near_AD : dist2 AD (vhat 0 1) ≤ 9007198807657703 / 2 ^ 52 - 1 / 10 ^ 9 := by
  rw [dist2_eq, Cover.vhat_norm2]
  have hd := dot_vhat_ge AD 0 1 (758251 / 10 ^ 13) (14143 / 10 ^ 4) (by norm_num) (by norm_num)
    (by simp only [AD]; norm_num) (by unfold Cover.nn; norm_num)
  have hn : AD.norm2 ≤ 1 + 1 / 10 ^ 15 := by unfold R3.norm2; simp only [AD]; norm_num
  have e : (758251 / 10 ^ 13 : ℝ) / (14143 / 10 ^ 4) = 758251 / (14143 * 10 ^ 9) := by norm_num
  rw [e] at hd
  have : (1 : ℝ) + 1 / 10 ^ 15 + 1 - 2 * (758251 / (14143 * 10 ^ 9)) ≤ 9007198807657703 / 2 ^ 52 - 1 / 10 ^ 9 := by
    norm_num
  linarith

/-- the OLD loop: the top edge (`k = 2`) says `return false`, the other three fall through -/
theorem steps_old : (List.range 4).map (fun k => edgeStepOld capD59 (Chord.sin2 capD59.radius) cellLit k)
    = [none, none, some false, none] := by decide +kernel

/-- the REPAIRED loop: the top edge says `return true` -/
theorem steps_new : (List.range 4).map (fun k => edgeStep capD59 (Chord.sin2 capD59.radius) cellLit k)
    = [none, none, some true, none] := by decide +kernel

end Counter

open Counter

/-- what `Cap.IntersectsCell` answered BEFORE repair D59 (bit-exact; the unrepaired Go code answers the same) -/
theorem counter_old : intersectsCellOld capD59 cellD59 = false := by
  rw [cell_eq]
  decide +kernel

/-- what `Cap.IntersectsCell` answers AFTER the repair (bit-exact; the repaired Go code answers the same) -/
theorem counter_new : CapCell.intersectsCell capD59 cellD59 = true := by
  rw [cell_eq]
  decide +kernel

/-- the input is in contract: the centre is a Normalize-grade unit vector, the radius a finite chord angle in `[0, 2)`,
    the cell's rectangle is `[-1,1]²` (non-degenerate) -/
theorem counter_contract : S2Proofs.CapF64.nunitB capD59.center = true ∧ Fin capD59.radius ∧
    0 ≤ val capD59.radius ∧ val capD59.radius < 2 ∧ (rectOf cellD59).OK := by
  refine ⟨by decide +kernel, by decide +kernel, ?_, ?_, ?_⟩
  · show 0 ≤ val ⟨0x3fffffffe55a0ce7⟩; rw [val_rad]; norm_num
  · show val ⟨0x3fffffffe55a0ce7⟩ < 2; rw [val_rad]; norm_num
  · rw [cell_eq, rect_eq]; exact RD_ok

/-- **an exact cell point lies inside the cap by more than `1e-9` (chord²)**: the midpoint of the top edge -/
theorem counter_point : ∃ q : R3, InCellXYZ cellD59 q ∧ dist2 (ofV capD59.center) q ≤ val capD59.radius - 1 / 10 ^ 9 := by
  have hinv : uvwR 3 (uvwR 3 (vhat 0 1)) = vhat 0 1 := by unfold uvwR; ext <;> simp
  refine ⟨uvwR 3 (vhat 0 1), ?_, ?_⟩
  · unfold InCellXYZ
    rw [cell_eq, rect_eq]
    show InCell RD (uvwR 3 (uvwR 3 (vhat 0 1)))
    rw [hinv]
    exact vhat_inCell RD RD_ok 0 1 (by simp only [RD]; norm_num) (by simp only [RD]; norm_num)
  · rw [← uvwR_dist2 3, hinv, A_eq]
    show dist2 AD (vhat 0 1) ≤ val ⟨0x3fffffffe55a0ce7⟩ - 1 / 10 ^ 9
    rw [val_rad]
    exact near_AD

/-- **the pre-repair code violated soundness with any slack up to `1e-9`**: it answers `false`, yet it is NOT true that
    every exact cell point is at chord² distance `≥ radius − 1e-9` from the centre. -/
theorem old_unsound : intersectsCellOld capD59 cellD59 = false ∧
    ¬ (∀ q, InCellXYZ cellD59 q → val capD59.radius - 1 / 10 ^ 9 ≤ dist2 (ofV capD59.center) q) := by
  refine ⟨counter_old, fun h => ?_⟩
  -- strictly inside: the sharper bound 7e-9 > 1e-9
  have hinv : uvwR 3 (uvwR 3 (vhat 0 1)) = vhat 0 1 := by unfold uvwR; ext <;> simp
  have hq0 : InCellXYZ cellD59 (uvwR 3 (vhat 0 1)) := by
    unfold InCellXYZ
    rw [cell_eq, rect_eq]
    show InCell RD (uvwR 3 (uvwR 3 (vhat 0 1)))
    rw [hinv]
    exact vhat_inCell RD RD_ok 0 1 (by simp only [RD]; norm_num) (by simp only [RD]; norm_num)
  have h1 := h _ hq0
  rw [← uvwR_dist2 3, hinv, A_eq] at h1
  have h2 : dist2 AD (vhat 0 1) ≤ 9007198807657703 / 2 ^ 52 - 7 / 10 ^ 9 := by
    rw [dist2_eq, Cover.vhat_norm2]
    have hd := dot_vhat_ge AD 0 1 (758251 / 10 ^ 13) (14143 / 10 ^ 4) (by norm_num) (by norm_num)
      (by simp only [AD]; norm_num) (by unfold Cover.nn; norm_num)
    have hn : AD.norm2 ≤ 1 + 1 / 10 ^ 15 := by unfold R3.norm2; simp only [AD]; norm_num
    have e : (758251 / 10 ^ 13 : ℝ) / (14143 / 10 ^ 4) = 758251 / (14143 * 10 ^ 9) := by norm_num
    rw [e] at hd
    have : (1 : ℝ) + 1 / 10 ^ 15 + 1 - 2 * (758251 / (14143 * 10 ^ 9)) ≤ 9007198807657703 / 2 ^ 52 - 7 / 10 ^ 9 := by
      norm_num
    linarith
  have h3 : val capD59.radius = 9007198807657703 / 2 ^ 52 := val_rad
  rw [h3] at h1
  linarith

end S2Proofs.C05Cap
