/-
  C05Cap.FloatEdgeFrame — the frame fact of the edge loop: `Cell.EdgeRaw(k)` is EXACT in floating point (components `0, ±1, ±bound`),
  in the face frame it is the inward normal `nrm (rectOf cell) k` of edge `k`, and every point of the exact cell is on its inner side.
-/
import S2Proofs.C05Cap.Defs
import S2Proofs.C12Dist.Upper

namespace S2Proofs.C05Cap
open S2 S2.CellM S2Proofs.FloatErr S2Proofs.F64Order S2Proofs.C12Dist S2Proofs.C16Acc

namespace FloatEdge

theorem uvwR_dot (f : Nat) (p q : R3) : R3.dot (uvwR f p) (uvwR f q) = R3.dot p q := by
  unfold uvwR R3.dot; split <;> ring

theorem fin_fzero : Fin fzero := by decide
theorem val_fzero : val fzero = 0 := (zero_val false).2
theorem fin_one : Fin F64.one := by decide
theorem val_one : val F64.one = 1 := by
  have h : S2.Exact.toInt F64.one = 2 ^ 1074 := by decide +kernel
  unfold val; rw [h]; push_cast; field_simp
theorem fin_negOne : Fin negOne := by decide
theorem val_negOne : val negOne = -1 := by
  have h : S2.Exact.toInt negOne = -(2 ^ 1074) := by decide +kernel
  unfold val; rw [h]; push_cast; field_simp

theorem fin_neg {x : F64} (hx : Fin x) : Fin (-x) := (S2Proofs.F64Sym.isFinite_neg x).2 hx
theorem val_neg' (x : F64) : val (-x) = - val x := val_neg x

/-- a float vector whose components are finite with `|·| ≤ 1`, negated by the exact product with `−1` -/
theorem mul_negOne (v : V3) (hv : Fin3 v) (b1 : |val v.x| ≤ 1) (b2 : |val v.y| ≤ 1) (b3 : |val v.z| ≤ 1) :
    Fin3 (v.mul negOne) ∧ ofV (v.mul negOne) = R3.neg (ofV v) := by
  obtain ⟨h1, h2, h3⟩ := hv
  obtain ⟨f1, e1⟩ := negOne_mul v.x h1 (by linarith)
  obtain ⟨f2, e2⟩ := negOne_mul v.y h2 (by linarith)
  obtain ⟨f3, e3⟩ := negOne_mul v.z h3 (by linarith)
  refine ⟨⟨f1, f2, f3⟩, ?_⟩
  unfold ofV R3.neg V3.mul
  simp only [e1, e2, e3]

/-- `vNorm face v`: finite, in the face frame it is `(0, 1, −v)` -/
theorem vNorm_frame (face : Nat) (hface : face < 6) (v : F64) (hv : Fin v) (bv : |val v| ≤ 1) :
    Fin3 (vNorm face v) ∧ uvwR face (ofV (vNorm face v)) = ⟨0, 1, -val v⟩ ∧
    |val (vNorm face v).x| ≤ 1 ∧ |val (vNorm face v).y| ≤ 1 ∧ |val (vNorm face v).z| ≤ 1 := by
  have hnv := fin_neg hv
  have bnv : |val (-v)| ≤ 1 := by rw [val_neg', abs_neg]; exact bv
  have b0 : |val fzero| ≤ 1 := by rw [val_fzero]; norm_num
  have b1 : |val F64.one| ≤ 1 := by rw [val_one]; norm_num
  have bm : |val negOne| ≤ 1 := by rw [val_negOne]; norm_num
  have hf : face = 0 ∨ face = 1 ∨ face = 2 ∨ face = 3 ∨ face = 4 ∨ face = 5 := by omega
  have k0 := fin_fzero
  have k1 := fin_one
  have km := fin_negOne
  rcases hf with h | h | h | h | h | h
  all_goals subst h
  all_goals simp only [vNorm, uvwR, ofV]
  all_goals refine ⟨⟨?_, ?_, ?_⟩, ?_, ?_, ?_, ?_⟩
  all_goals first
    | (with_reducible assumption)
    | (simp [val_neg', val_fzero, val_one, val_negOne])

/-- `uNorm face u`: finite, in the face frame it is `(−1, 0, u)` -/
theorem uNorm_frame (face : Nat) (hface : face < 6) (u : F64) (hu : Fin u) (bu : |val u| ≤ 1) :
    Fin3 (uNorm face u) ∧ uvwR face (ofV (uNorm face u)) = ⟨-1, 0, val u⟩ ∧
    |val (uNorm face u).x| ≤ 1 ∧ |val (uNorm face u).y| ≤ 1 ∧ |val (uNorm face u).z| ≤ 1 := by
  have hnu := fin_neg hu
  have bnu : |val (-u)| ≤ 1 := by rw [val_neg', abs_neg]; exact bu
  have b0 : |val fzero| ≤ 1 := by rw [val_fzero]; norm_num
  have b1 : |val F64.one| ≤ 1 := by rw [val_one]; norm_num
  have bm : |val negOne| ≤ 1 := by rw [val_negOne]; norm_num
  have hf : face = 0 ∨ face = 1 ∨ face = 2 ∨ face = 3 ∨ face = 4 ∨ face = 5 := by omega
  have k0 := fin_fzero
  have k1 := fin_one
  have km := fin_negOne
  rcases hf with h | h | h | h | h | h
  all_goals subst h
  all_goals simp only [uNorm, uvwR, ofV]
  all_goals refine ⟨⟨?_, ?_, ?_⟩, ?_, ?_, ?_, ?_⟩
  all_goals first
    | (with_reducible assumption)
    | (simp [val_neg', val_fzero, val_one, val_negOne])

theorem uvwR_neg (f : Nat) (p : R3) : uvwR f (R3.neg p) = R3.neg (uvwR f p) := by
  unfold uvwR R3.neg; split <;> (ext <;> simp)

end FloatEdge

open FloatEdge in
/-- **`Cell.EdgeRaw(k)` is exact**: its float components are finite, at most 1 in absolute value, and in the face frame the vector is
    the inward edge normal `nrm (rectOf cell) k` (`(0,1,−v0)`, `(−1,0,u1)`, `(0,−1,v1)`, `(1,0,−u0)`) -/
theorem edgeRaw_frame (cell : Cell) (fu0 : Fin cell.uv.1.1) (fu1 : Fin cell.uv.1.2) (fv0 : Fin cell.uv.2.1) (fv1 : Fin cell.uv.2.2)
    (hr : (rectOf cell).OK) (hface : cell.face < 6) (k : Nat) (hk : k < 4) :
    Fin3 (edgeRaw cell k) ∧ uvwR cell.face (ofV (edgeRaw cell k)) = nrm (rectOf cell) k ∧
    |val (edgeRaw cell k).x| ≤ 1 ∧ |val (edgeRaw cell k).y| ≤ 1 ∧ |val (edgeRaw cell k).z| ≤ 1 := by
  obtain ⟨h1, h2, h3, h4, h5, h6⟩ := hr
  simp only [rectOf] at h1 h2 h3 h4 h5 h6
  have bu0 : |val cell.uv.1.1| ≤ 1 := abs_le.mpr ⟨h1, by linarith⟩
  have bu1 : |val cell.uv.1.2| ≤ 1 := abs_le.mpr ⟨by linarith, h3⟩
  have bv0 : |val cell.uv.2.1| ≤ 1 := abs_le.mpr ⟨h4, by linarith⟩
  have bv1 : |val cell.uv.2.2| ≤ 1 := abs_le.mpr ⟨by linarith, h6⟩
  have hk' : k = 0 ∨ k = 1 ∨ k = 2 ∨ k = 3 := by omega
  rcases hk' with h | h | h | h <;> subst h
  · obtain ⟨f, e, b⟩ := vNorm_frame cell.face hface _ fv0 bv0
    exact ⟨f, by rw [show edgeRaw cell 0 = vNorm cell.face cell.uv.2.1 from rfl, e]; rfl, b⟩
  · obtain ⟨f, e, b⟩ := uNorm_frame cell.face hface _ fu1 bu1
    exact ⟨f, by rw [show edgeRaw cell 1 = uNorm cell.face cell.uv.1.2 from rfl, e]; rfl, b⟩
  · obtain ⟨f, e, b1, b2, b3⟩ := vNorm_frame cell.face hface _ fv1 bv1
    obtain ⟨f', e'⟩ := mul_negOne _ f b1 b2 b3
    have hE : edgeRaw cell 2 = (vNorm cell.face cell.uv.2.2).mul negOne := rfl
    rw [hE]
    refine ⟨f', ?_, ?_, ?_, ?_⟩
    · rw [e', uvwR_neg, e]; unfold R3.neg nrm rectOf; ext <;> simp
    · have := congrArg R3.x e'; simp only [ofV, R3.neg] at this; rw [this, abs_neg]; exact b1
    · have := congrArg R3.y e'; simp only [ofV, R3.neg] at this; rw [this, abs_neg]; exact b2
    · have := congrArg R3.z e'; simp only [ofV, R3.neg] at this; rw [this, abs_neg]; exact b3
  · obtain ⟨f, e, b1, b2, b3⟩ := uNorm_frame cell.face hface _ fu0 bu0
    obtain ⟨f', e'⟩ := mul_negOne _ f b1 b2 b3
    have hE : edgeRaw cell 3 = (uNorm cell.face cell.uv.1.1).mul negOne := rfl
    rw [hE]
    refine ⟨f', ?_, ?_, ?_, ?_⟩
    · rw [e', uvwR_neg, e]; unfold R3.neg nrm rectOf; ext <;> simp
    · have := congrArg R3.x e'; simp only [ofV, R3.neg] at this; rw [this, abs_neg]; exact b1
    · have := congrArg R3.y e'; simp only [ofV, R3.neg] at this; rw [this, abs_neg]; exact b2
    · have := congrArg R3.z e'; simp only [ofV, R3.neg] at this; rw [this, abs_neg]; exact b3

/-- every point of the rectangle cell is on the inner side of each of the four edge planes (face frame) -/
theorem inCell_dot_nrm (r : RRect) (q : R3) (h : InCell r q) (k : Nat) : 0 ≤ R3.dot q (nrm r k) := by
  obtain ⟨_, _, h1, h2, h3, h4⟩ := h
  unfold nrm R3.dot
  split <;> simp only <;> linarith

/-- the squared length of the raw normal is `1 + bound²`, between 1 and 2 -/
theorem nrm_norm2 (r : RRect) (hr : r.OK) (k : Nat) : 1 ≤ (nrm r k).norm2 ∧ (nrm r k).norm2 ≤ 2 := by
  obtain ⟨h1, h2, h3, h4, h5, h6⟩ := hr
  unfold nrm R3.norm2
  split <;> simp only <;> constructor <;> nlinarith

open FloatEdge in
/-- **the frame fact**: a point `q` of the exact cell (XYZ frame) is a unit vector on the inner side of the plane of the raw float
    normal `Cell.EdgeRaw(k)` (read as an exact real vector), whose squared length is in `[1,2]` -/
theorem edge_frame (cell : Cell) (fu0 : Fin cell.uv.1.1) (fu1 : Fin cell.uv.1.2) (fv0 : Fin cell.uv.2.1) (fv1 : Fin cell.uv.2.2)
    (hr : (rectOf cell).OK) (hface : cell.face < 6) (k : Nat) (hk : k < 4) (q : R3) (hq : InCellXYZ cell q) :
    q.norm2 = 1 ∧ 0 ≤ R3.dot q (ofV (edgeRaw cell k)) ∧
    1 ≤ (ofV (edgeRaw cell k)).norm2 ∧ (ofV (edgeRaw cell k)).norm2 ≤ 2 := by
  obtain ⟨_, e, _⟩ := edgeRaw_frame cell fu0 fu1 fv0 fv1 hr hface k hk
  have hn := nrm_norm2 (rectOf cell) hr k
  rw [← e, uvwR_norm2] at hn
  refine ⟨?_, ?_, hn.1, hn.2⟩
  · have := hq.1; rwa [uvwR_norm2] at this
  · have := inCell_dot_nrm (rectOf cell) _ hq k
    rwa [← e, uvwR_dot] at this

end S2Proofs.C05Cap
