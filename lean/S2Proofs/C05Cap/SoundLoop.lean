/-
  C05Cap.SoundLoop — the Boolean skeleton of the model `S2.CapCell` (no arithmetic): which tests were taken
  when `IntersectsCell` answers `false` / `ContainsCell` answers `true`.
-/
import S2.CapCell
namespace S2Proofs.C05Cap
open S2 S2.CellM S2.CapF64 S2.CapCell

/-- the float slab test of the loop body for edge `k` -/
def slabF (c : Cap) (cell : Cell) (k : Nat) : Bool :=
  let dir := (CellM.edge cell k).cross c.center
  F64.lt (dir.dot (CellM.vertex cell k)) (F64.zero false) &&
    F64.gt (dir.dot (CellM.vertex cell ((k + 1) % 4))) (F64.zero false)

/-- the float skip test (`dot > 0`) -/
def skipF (c : Cap) (cell : Cell) (k : Nat) : Bool :=
  F64.gt (c.center.dot (CellM.edge cell k)) (F64.zero false)

/-- the float rejection test (after repair D59) -/
def farF (c : Cap) (s : F64) (cell : Cell) (k : Nat) : Bool :=
  F64.gt ((c.center.dot (CellM.edge cell k)) * ((c.center.dot (CellM.edge cell k)) + capEdgeDotError))
    (s * (CellM.edge cell k).norm2)

theorem edgeStep_eq (c : Cap) (s : F64) (cell : Cell) (k : Nat) :
    edgeStep c s cell k =
      if skipF c cell k then none else if farF c s cell k then some false
      else if slabF c cell k then some true else none := rfl

/-- a fall-through of the loop body: skipped, or neither rejected nor in the slab -/
theorem edgeStep_none {c : Cap} {s : F64} {cell : Cell} {k : Nat} (h : edgeStep c s cell k = none) :
    skipF c cell k = true ∨ (skipF c cell k = false ∧ farF c s cell k = false ∧ slabF c cell k = false) := by
  rw [edgeStep_eq] at h
  cases h1 : skipF c cell k
  · right
    cases h2 : farF c s cell k
    · cases h3 : slabF c cell k
      · exact ⟨rfl, rfl, rfl⟩
      · simp [h1, h2, h3] at h
    · simp [h1, h2] at h
  · exact Or.inl rfl

theorem edgeStep_false_tests {c : Cap} {s : F64} {cell : Cell} {k : Nat} (h : edgeStep c s cell k = some false) :
    skipF c cell k = false ∧ farF c s cell k = true := by
  rw [edgeStep_eq] at h
  cases h1 : skipF c cell k
  · cases h2 : farF c s cell k
    · cases h3 : slabF c cell k <;> simp [h1, h2, h3] at h
    · exact ⟨rfl, rfl⟩
  · simp [h1] at h

/-- the loop answered `false`: some iteration rejected, or all four fell through -/
theorem edgeLoop_false {c : Cap} {s : F64} {cell : Cell} (h : edgeLoop c s cell 0 4 = false) :
    (∃ k, k < 4 ∧ edgeStep c s cell k = some false) ∨ (∀ k, k < 4 → edgeStep c s cell k = none) := by
  unfold edgeLoop at h
  cases h0 : edgeStep c s cell 0 with
  | some b =>
    rw [h0] at h; simp only at h; subst h
    exact Or.inl ⟨0, by omega, h0⟩
  | none =>
    rw [h0] at h; simp only at h
    unfold edgeLoop at h
    cases h1 : edgeStep c s cell 1 with
    | some b =>
      rw [show (0 + 1 : Nat) = 1 from rfl, h1] at h; simp only at h; subst h
      exact Or.inl ⟨1, by omega, h1⟩
    | none =>
      rw [show (0 + 1 : Nat) = 1 from rfl, h1] at h; simp only at h
      unfold edgeLoop at h
      cases h2 : edgeStep c s cell 2 with
      | some b =>
        rw [show (1 + 1 : Nat) = 2 from rfl, h2] at h; simp only at h; subst h
        exact Or.inl ⟨2, by omega, h2⟩
      | none =>
        rw [show (1 + 1 : Nat) = 2 from rfl, h2] at h; simp only at h
        unfold edgeLoop at h
        cases h3 : edgeStep c s cell 3 with
        | some b =>
          rw [show (2 + 1 : Nat) = 3 from rfl, h3] at h; simp only at h; subst h
          exact Or.inl ⟨3, by omega, h3⟩
        | none =>
          right
          intro k hk
          obtain rfl | rfl | rfl | rfl : k = 0 ∨ k = 1 ∨ k = 2 ∨ k = 3 := by omega
          · exact h0
          · exact h1
          · exact h2
          · exact h3

/-- the four ways `Cap.intersects` answers `false` -/
theorem intersects_false {c : Cap} {cell : Cell} (h : intersects c cell = false) :
    F64.ge c.radius rightChordAngle = true ∨
    (F64.ge c.radius rightChordAngle = false ∧ c.isEmpty = true) ∨
    (F64.ge c.radius rightChordAngle = false ∧ c.isEmpty = false ∧ CellM.containsPoint cell c.center = false ∧
      edgeLoop c (Chord.sin2 c.radius) cell 0 4 = false) := by
  unfold intersects at h
  cases h1 : F64.ge c.radius rightChordAngle
  · right
    cases h2 : c.isEmpty
    · right
      cases h3 : CellM.containsPoint cell c.center
      · simp [h1, h2, h3] at h
        exact ⟨rfl, rfl, rfl, h⟩
      · simp [h1, h2, h3] at h
    · exact Or.inl ⟨rfl, rfl⟩
  · exact Or.inl rfl

/-- `IntersectsCell = false`: no vertex accepted, and `intersects` answered `false` -/
theorem intersectsCell_false {c : Cap} {cell : Cell} (h : CapCell.intersectsCell c cell = false) :
    (∀ k, k < 4 → c.containsPoint (CellM.vertex cell k) = false) ∧ intersects c cell = false := by
  unfold CapCell.intersectsCell at h
  cases h0 : c.containsPoint (CellM.vertex cell 0)
  · cases h1 : c.containsPoint (CellM.vertex cell 1)
    · cases h2 : c.containsPoint (CellM.vertex cell 2)
      · cases h3 : c.containsPoint (CellM.vertex cell 3)
        · simp [h0, h1, h2, h3] at h
          refine ⟨?_, h⟩
          intro k hk
          obtain rfl | rfl | rfl | rfl : k = 0 ∨ k = 1 ∨ k = 2 ∨ k = 3 := by omega
          · exact h0
          · exact h1
          · exact h2
          · exact h3
        · simp [h0, h1, h2, h3] at h
      · simp [h0, h1, h2] at h
    · simp [h0, h1] at h
  · simp [h0] at h

/-- `ContainsCell = true`: all four vertices accepted, and the complement's `intersects` answered `false` -/
theorem containsCell_true {c : Cap} {cell : Cell} (h : CapCell.containsCell c cell = true) :
    (∀ k, k < 4 → c.containsPoint (CellM.vertex cell k) = true) ∧ intersects c.complement cell = false := by
  unfold CapCell.containsCell at h
  cases h0 : c.containsPoint (CellM.vertex cell 0)
  · simp [h0] at h
  · cases h1 : c.containsPoint (CellM.vertex cell 1)
    · simp [h0, h1] at h
    · cases h2 : c.containsPoint (CellM.vertex cell 2)
      · simp [h0, h1, h2] at h
      · cases h3 : c.containsPoint (CellM.vertex cell 3)
        · simp [h0, h1, h2, h3] at h
        · simp [h0, h1, h2, h3] at h
          refine ⟨?_, h⟩
          intro k hk
          obtain rfl | rfl | rfl | rfl : k = 0 ∨ k = 1 ∨ k = 2 ∨ k = 3 := by omega
          · exact h0
          · exact h1
          · exact h2
          · exact h3

end S2Proofs.C05Cap
