/-
  C05Cap.Defs — shared vocabulary of the work package c05cap (soundness of `Cap.IntersectsCell` / `Cap.ContainsCell`).

  The exact cell is C12's `InCell r q` (face frame, `r : RRect` the uv rectangle) / `InCellXYZ c q` (XYZ frame).
  Here: the four unit vertices `vtx r k` and the four inward edge normals `nrm r k` of the rectangle in the face
  frame, numbered as the code numbers them (`Cell.Vertex(k)`: lower left, lower right, upper right, upper left;
  `Cell.EdgeRaw(k)`: bottom, right, top, left; edge `k` runs from vertex `k` to vertex `k+1`), and the exact
  ("real") form of the tests of `Cap.intersects`.

  A cap is (centre `a`, squared chord radius `ρ`); a unit vector `q` is in it iff `dist2 a q = |a − q|² ≤ ρ`.
-/
import S2Proofs.C12Dist.Spec
import Mathlib.Analysis.Real.Sqrt

namespace S2Proofs.C05Cap
open S2Proofs.C12Dist S2Proofs.C16Acc

/-- unit vertex `k` of the rectangle (face frame), CCW from the lower left corner -/
noncomputable def vtx (r : RRect) : Nat → R3
  | 0 => vhat r.u0 r.v0
  | 1 => vhat r.u1 r.v0
  | 2 => vhat r.u1 r.v1
  | _ => vhat r.u0 r.v1

/-- inward normal (not normalised, exactly `Cell.EdgeRaw(k)` in the face frame) of edge `k`:
    bottom `(0,1,−v0)`, right `(−1,0,u1)`, top `(0,−1,v1)`, left `(1,0,−u0)` -/
def nrm (r : RRect) : Nat → R3
  | 0 => ⟨0, 1, -r.v0⟩
  | 1 => ⟨-1, 0, r.u1⟩
  | 2 => ⟨0, -1, r.v1⟩
  | _ => ⟨1, 0, -r.u0⟩

/-- the cap (centre `a`, squared chord radius `ρ`) has a point in common with the cell -/
def Meets (r : RRect) (a : R3) (ρ : ℝ) : Prop := ∃ q, InCell r q ∧ dist2 a q ≤ ρ

/-- the cell lies in the cap -/
def Inside (r : RRect) (a : R3) (ρ : ℝ) : Prop := ∀ q, InCell r q → dist2 a q ≤ ρ

/-- `sin²` of the angle whose squared chord is `ρ` (`ChordAngle.Sin2` over ℝ) -/
noncomputable def sin2R (ρ : ℝ) : ℝ := ρ * (1 - ρ / 4)

/-- outcome of one iteration of the edge loop of `Cap.intersects` in exact arithmetic -/
inductive Step where
  | skip      -- `continue` / fall through
  | retFalse  -- `return false`
  | retTrue   -- `return true`
deriving DecidableEq

open Classical in
/-- the loop body for edge `k` over ℝ -/
noncomputable def stepR (r : RRect) (a : R3) (ρ : ℝ) (k : Nat) : Step :=
  let n := nrm r k
  let d := R3.dot a n
  if 0 < d then .skip
  else if sin2R ρ * n.norm2 < d ^ 2 then .retFalse
  else
    let dir := R3.cross n a
    if R3.dot dir (vtx r k) < 0 ∧ 0 < R3.dot dir (vtx r ((k + 1) % 4)) then .retTrue else .skip

/-- the loop `for k := k; k < k + n; k++ {…}; return false` over ℝ -/
noncomputable def loopR (r : RRect) (a : R3) (ρ : ℝ) : Nat → Nat → Bool
  | _, 0 => false
  | k, n + 1 =>
    match stepR r a ρ k with
    | .retTrue => true
    | .retFalse => false
    | .skip => loopR r a ρ (k + 1) n

open Classical in
/-- `Cap.intersects` over ℝ (centre test = exact membership) -/
noncomputable def intersectsR (r : RRect) (a : R3) (ρ : ℝ) : Bool :=
  if 2 ≤ ρ then false
  else if ρ < 0 then false
  else if InCell r a then true
  else loopR r a ρ 0 4

open Classical in
/-- `Cap.IntersectsCell` over ℝ -/
noncomputable def intersectsCellR (r : RRect) (a : R3) (ρ : ℝ) : Bool :=
  if ∃ k, k < 4 ∧ dist2 a (vtx r k) ≤ ρ then true else intersectsR r a ρ

open Classical in
/-- `Cap.ContainsCell` over ℝ; the complement of (a, ρ) is (−a, 4 − ρ), full ↦ empty, empty ↦ full -/
noncomputable def containsCellR (r : RRect) (a : R3) (ρ : ℝ) : Bool :=
  if ∃ k, k < 4 ∧ ρ < dist2 a (vtx r k) then false
  else if ρ = 4 then true            -- complement of the full cap is empty: `intersects` says false
  else if ρ < 0 then false           -- (not reached: an empty cap contains no vertex)
  else !intersectsR r (R3.neg a) (4 - ρ)

end S2Proofs.C05Cap
