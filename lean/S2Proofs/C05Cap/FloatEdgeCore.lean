/-
  C05Cap.FloatEdgeCore — the parts of the float error analysis of the edge rejection of `Cap.intersects` shared by the analysis of the
  REPAIRED test (`FloatEdge.lean`, `dot*(dot+capEdgeDotError) > sin2Angle*edge.Norm2()`) and of the PRE-repair test
  (`FloatEdgeOld.lean`, `dot*dot > …`):  numeric constants, the float dot product `dot_err`, the normalised edge normal `edge_scale`,
  the radius guard `radius_lt_two`, and the concrete instance `exCell / exA / exRad` used by the non-vacuity examples.
-/
import S2Proofs.C05Cap.FloatEdgeReal
import S2Proofs.C05Cap.FloatEdgeFrame
import S2Proofs.C05Cap.FloatEdgeErr
import S2Proofs.C16Acc.Norm
import S2Proofs.FloatErr.DotProd
import S2Proofs.CapF64.Between
import S2Proofs.C12Dist.CellOK
import S2.CapCell

namespace S2Proofs.C05Cap
open S2 S2.CellM S2Proofs.FloatErr S2Proofs.F64Order S2Proofs.C12Dist S2Proofs.C16Acc

namespace FloatEdge
open S2Proofs.CapF64 (NUnit NU eps nrm2)

/-! ### numeric constants -/

/-- bound of `|a||E|` -/
noncomputable def Mdot : ℝ := 1 + 32 * uR
/-- absolute error of the float dot product `a·edge` -/
noncomputable def edR : ℝ := fU uR * Mdot + gU uR * Mdot + hU uR * eR

set_option exponentiation.threshold 1100 in
theorem edR_le : edR ≤ 25 / 8 * uR := by
  unfold edR Mdot fU gU hU uR eR
  norm_num

theorem edR_nonneg : 0 ≤ edR := by
  unfold edR
  have hM : 0 ≤ Mdot := by unfold Mdot; have := uR_nonneg; linarith
  exact add_nonneg (add_nonneg (mul_nonneg fU_nn hM) (mul_nonneg gU_nn hM)) (mul_nonneg hU_nn eR_nonneg)

theorem gamma_le : NU * eps ≤ 10 * uR := by unfold NU eps uR; norm_num
theorem gamma_nonneg : 0 ≤ NU * eps := by unfold NU eps; positivity

theorem w500_le : (1 : ℝ) / 2 ^ 500 ≤ 1 / 2 ^ 100 :=
  one_div_le_one_div_of_le (by positivity) (pow_le_pow_right₀ (by norm_num) (by norm_num))
theorem w500_nonneg : (0 : ℝ) ≤ 1 / 2 ^ 500 := by positivity

/-! ### the float dot product of a unit-ish centre and a unit-ish edge normal -/

theorem dot_err (a e : V3) (ha : NUnit a) (fe : Fin3 e) (he2 : |(ofV e).norm2 - 1| ≤ 20 * uR) :
    Fin (a.dot e) ∧ |val (a.dot e) - R3.dot (ofV a) (ofV e)| ≤ edR ∧ |R3.dot (ofV a) (ofV e)| ≤ Mdot := by
  have hu0 := uR_nonneg
  have hu : uR ≤ 1 / 2 ^ 53 := le_of_eq rfl
  have hE2 : val e.x ^ 2 + val e.y ^ 2 + val e.z ^ 2 ≤ 1 + 20 * uR := by
    have := (abs_le.mp he2).2
    unfold R3.norm2 ofV at this
    linarith
  have h4 : 1 + 20 * uR ≤ 4 := by linarith
  have me : |val e.x| ≤ 2 ∧ |val e.y| ≤ 2 ∧ |val e.z| ≤ 2 := by
    refine ⟨abs_le_of_sq_sum_le hE2 h4, ?_, ?_⟩
    · exact abs_le_of_sq_sum_le (by linarith : val e.y ^ 2 + val e.x ^ 2 + val e.z ^ 2 ≤ 1 + 20 * uR) h4
    · exact abs_le_of_sq_sum_le (by linarith : val e.z ^ 2 + val e.x ^ 2 + val e.y ^ 2 ≤ 1 + 20 * uR) h4
  obtain ⟨fd, hd⟩ := dotChain_of_stdModel stdModel a e ha.1 fe (S2Proofs.CapF64.nunit_coord_le ha) me
  have hA2 : val a.x ^ 2 + val a.y ^ 2 + val a.z ^ 2 ≤ 1 + 10 * uR := by
    have := (abs_le.mp ha.2).2
    unfold nrm2 at this
    have := gamma_le
    linarith
  -- T ≤ Mdot
  set T := |val a.x * val e.x| + |val a.y * val e.y| + |val a.z * val e.z| with hT
  have hT0 : 0 ≤ T := by positivity
  have hTM : T ≤ Mdot := by
    have hcs := cs3 (val a.x) (val a.y) (val a.z) (val e.x) (val e.y) (val e.z)
    have e1 : |val a.x| * |val e.x| + |val a.y| * |val e.y| + |val a.z| * |val e.z| = T := by
      rw [hT]; simp only [abs_mul]
    rw [e1] at hcs
    have hM0 : 0 ≤ Mdot := by unfold Mdot; linarith
    apply le_of_sq_le hT0 hM0
    have hprod : (val a.x ^ 2 + val a.y ^ 2 + val a.z ^ 2) * (val e.x ^ 2 + val e.y ^ 2 + val e.z ^ 2)
        ≤ (1 + 10 * uR) * (1 + 20 * uR) :=
      mul_le_mul hA2 hE2 (by positivity) (by linarith)
    have : (1 + 10 * uR) * (1 + 20 * uR) ≤ Mdot ^ 2 := by unfold Mdot; nlinarith
    linarith
  have hDT : |val a.x * val e.x + val a.y * val e.y + val a.z * val e.z| ≤ T := abs_add_three _ _ _
  have eD : R3.dot (ofV a) (ofV e) = val a.x * val e.x + val a.y * val e.y + val a.z * val e.z := rfl
  rw [eD]
  refine ⟨fd, le_trans hd ?_, le_trans hDT hTM⟩
  unfold edR
  have h1 : fU uR * |val a.x * val e.x + val a.y * val e.y + val a.z * val e.z| ≤ fU uR * Mdot :=
    mul_le_mul_of_nonneg_left (le_trans hDT hTM) fU_nn
  have h2 : gU uR * T ≤ gU uR * Mdot := mul_le_mul_of_nonneg_left hTM gU_nn
  linarith

/-! ### the normalised float edge normal -/

/-- `edge = Normalize(edgeRaw)`: finite, `E = s(N + ν)`, `s > 0`, `|ν| ≤ (u + 2^-500)|N|`, `|‖E‖² − 1| ≤ 20u` -/
theorem edge_scale (cell : Cell) (fu0 : Fin cell.uv.1.1) (fu1 : Fin cell.uv.1.2) (fv0 : Fin cell.uv.2.1) (fv1 : Fin cell.uv.2.2)
    (hr : (rectOf cell).OK) (hface : cell.face < 6) (k : Nat) (hk : k < 4) :
    Fin3 (CellM.edge cell k) ∧ |(ofV (CellM.edge cell k)).norm2 - 1| ≤ 20 * uR ∧
    ∃ (s : ℝ) (ν : R3), 0 < s ∧
      ofV (CellM.edge cell k) = R3.smul s (R3.add (ofV (edgeRaw cell k)) ν) ∧
      ν.norm ≤ (uR + 1 / 2 ^ 500) * (ofV (edgeRaw cell k)).norm := by
  obtain ⟨fN, eN, bx, by', bz⟩ := edgeRaw_frame cell fu0 fu1 fv0 fv1 hr hface k hk
  have hn := nrm_norm2 (rectOf cell) hr k
  rw [← eN, uvwR_norm2] at hn
  have p14 : (1 : ℝ) ≤ 2 ^ 14 := by norm_num
  have m1 : |val (edgeRaw cell k).x| ≤ 2 ^ 14 := le_trans bx p14
  have m2 : |val (edgeRaw cell k).y| ≤ 2 ^ 14 := le_trans by' p14
  have m3 : |val (edgeRaw cell k).z| ≤ 2 ^ 14 := le_trans bz p14
  obtain ⟨fn2, herr⟩ := norm2_wide (edgeRaw cell k) fN ⟨m1, m2, m3⟩
  have hρ := rhoU_le3
  have hρ0 := rhoU_nn
  have hu0 := uR_nonneg
  have hu : uR ≤ 1 / 2 ^ 53 := le_of_eq rfl
  have he4 := four_eR_le
  have hw := w500_le
  have he0 := eR_nonneg
  -- fl(|N|²) ≥ 1/2
  have hhalf : 1 / 2 ≤ val (edgeRaw cell k).norm2 := by
    have hb := (abs_le.mp herr).1
    have h1 : rhoU uR * (ofV (edgeRaw cell k)).norm2 ≤ (3 + 1 / 1000) * uR * 2 :=
      mul_le_mul hρ hn.2 (by linarith) (by linarith)
    have : (1 : ℝ) / 2 ^ 100 ≤ 1 / 8 := by norm_num
    have h500 : (4 : ℝ) * eR ≤ 1 / 2 ^ 100 := le_trans he4 hw
    linarith
  have hlo : 1 / 2 ^ 1022 ≤ val (edgeRaw cell k).norm2 := by
    have : (1 : ℝ) / 2 ^ 1022 ≤ 1 / 2 ^ 1 :=
      one_div_le_one_div_of_le (by positivity) (pow_le_pow_right₀ (by norm_num) (by norm_num))
    linarith
  have hfeq : F64.feq (edgeRaw cell k).norm2 (F64.zero false) = false := by
    cases h : F64.feq (edgeRaw cell k).norm2 (F64.zero false)
    · rfl
    · exfalso
      rw [S2Proofs.CapF64.feq_iff_val fn2 (zero_val false).1, (zero_val false).2] at h
      linarith
  have hedge : CellM.edge cell k = (edgeRaw cell k).mul (F64.one / F64.sqrt (edgeRaw cell k).norm2) := by
    unfold CellM.edge
    exact normalize_eq _ hfeq
  rw [hedge]
  obtain ⟨_, _, fE, _, _, s, ν, hs0, _, heq, hν⟩ := scaleSpec (edgeRaw cell k) fN m1 m2 m3 hlo
  exact ⟨fE, scale_unit (edgeRaw cell k) fN m1 m2 m3 hlo, s, ν, hs0, heq, hν⟩

end FloatEdge

/-- the first guard of `Cap.intersects` (`c.radius >= s1.RightChordAngle` is false) gives `rad < 2` for a finite radius -/
theorem radius_lt_two (rad : F64) (hfin : Fin rad) (h : F64.ge rad CapCell.rightChordAngle = false) : val rad < 2 := by
  have f2 : Fin CapCell.rightChordAngle := by decide
  have v2 : val CapCell.rightChordAngle = 2 := by
    have e : CapCell.rightChordAngle = F64.two := by decide
    rw [e]; exact val_two
  by_contra hc
  have : F64.le CapCell.rightChordAngle rad = true := by
    rw [S2Proofs.CapF64.le_iff_val f2 hfin, v2]; exact not_lt.mp hc
  unfold F64.ge at h
  rw [this] at h
  exact Bool.noConfusion h

/-! ### non-vacuity: the face cell 0 (`x > 0`, uv rectangle `[-1,1]²`), centre `(−1,0,0)`, `rad = 0.5`, edge 0: the exit fires -/

namespace FloatEdge
def exCell : Cell := ⟨0, 0, 0, 0x1000000000000000, ((negOne, F64.one), (negOne, F64.one))⟩
def exA : V3 := ⟨⟨0xBFF0000000000000⟩, F64.zero false, F64.zero false⟩
def exRad : F64 := ⟨0x3FE0000000000000⟩

set_option exponentiation.threshold 1100 in
theorem val_exRad : val exRad = 1 / 2 := by
  have h : S2.Exact.toInt exRad = 2 ^ 1073 := by decide +kernel
  unfold val; rw [h]; push_cast; norm_num

theorem exCell_ok : (rectOf exCell).OK := by
  constructor <;> simp only [rectOf, exCell] <;> (try rw [val_negOne]) <;> (try rw [val_one]) <;> norm_num
end FloatEdge

end S2Proofs.C05Cap
