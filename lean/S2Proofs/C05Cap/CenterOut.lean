/-
  C05Cap.CenterOut — the float centre test of `Cap.intersects` is one-sidedly exact:

      `CellM.containsPoint cell a = false`  ⇒  no positive multiple of `a` (face frame) is a point of the exact cell.

  `Cell.ContainsPoint` computes `u = fl(a_u / a_w)`, `v = fl(a_v / a_w)` (one division each) and tests them against the
  uv rectangle expanded by `2·dblEpsilon = 2^-51` (`lo ⊖ m`, `hi ⊕ m`, one rounding each).  For a point of the exact cell
  the real quotient lies in `[lo, hi] ⊂ [-1, 1]`; the division errs by at most `2^-53 + 2^-1075`, the expanded bounds by
  at most `2^-53·(1 + 2^-51) + 2^-1075`, so `2^-51` of margin is enough (`coord_in`).
-/
import S2Proofs.C12Dist.EdgeErr
import S2Proofs.C12Dist.Branches
import S2Proofs.CapF64.Between
import Mathlib.Tactic.NormNum

namespace S2Proofs.C05Cap
open S2 S2.CellM S2.Exact S2Proofs.FloatErr S2Proofs.F64Order S2Proofs.C16Acc S2Proofs.C12Dist
open S2Proofs.CapF64 (le_iff_val lt_iff_val)

namespace CenterOut

/-- general division step: finite operands, non-zero divisor, moderate quotient -/
theorem divG {x y : F64} (hx : Fin x) (hy : Fin y) (hy0 : val y ≠ 0) (hq : |val x / val y| ≤ 2 ^ 30) :
    Fin (x / y) ∧ Rnd uR eR (val x / val y) (val (x / y)) := by
  have hz : y.isZero = false := FE2.isZero_false_of_val_ne hy0
  have e : ((F64Round.val x / F64Round.val y : ℚ) : ℝ) = val x / val y := by
    push_cast; rw [← FE2.val_cast, ← FE2.val_cast]
  have := EdgeErr.round_step (F64Round.isRound_div hx hy hz) (by rw [e]; exact hq)
  rw [e] at this
  exact ⟨this.1, this.2.1⟩

theorem margin_facts : Fin containsMargin ∧ val containsMargin = 1 / 2 ^ 51 := by
  have hf : Fin containsMargin := by decide +kernel
  have h : toInt containsMargin = 1 * 2 ^ 1023 := by decide +kernel
  refine ⟨hf, ?_⟩
  rw [val_of_toInt (j := 51) h (by norm_num)]; push_cast; ring

theorem eR_small : eR ≤ 1 / 2 ^ 110 := by
  unfold eR
  exact one_div_le_one_div_of_le (by positivity) (pow_le_pow_right₀ (by norm_num) (by norm_num))

/-- **one coordinate**: bounds `lo < hi` in `[-1,1]`, the real quotient in `[lo, hi]` ⇒ the float quotient is in the
    float interval expanded by `containsMargin`, and that interval is not empty. -/
theorem coord_in (lo hi n d : F64) (flo : Fin lo) (fhi : Fin hi) (fn : Fin n) (fd : Fin d) (hd : val d ≠ 0)
    (hlt : val lo < val hi) (h1 : -1 ≤ val lo) (h2 : val hi ≤ 1)
    (hin : val lo ≤ val n / val d ∧ val n / val d ≤ val hi) :
    Ivl.contains (Ivl.expanded (lo, hi) containsMargin) (n / d) = true ∧
      Ivl.isEmpty (Ivl.expanded (lo, hi) containsMargin) = false := by
  obtain ⟨fm, vm⟩ := margin_facts
  set t := val n / val d with ht
  have htabs : |t| ≤ 1 := abs_le.2 ⟨by linarith [hin.1], by linarith [hin.2]⟩
  obtain ⟨fU, rU⟩ := divG fn fd hd (le_trans htabs (by norm_num))
  unfold Rnd at rU
  have he := eR_small
  have he0 := eR_nonneg
  have hu : uR = 1 / 2 ^ 53 := rfl
  have hUerr : |val (n / d) - t| ≤ uR + eR := by
    have : uR * |t| ≤ uR * 1 := mul_le_mul_of_nonneg_left htabs uR_nonneg
    linarith
  -- the interval is not empty, so `expanded` expands
  have hne : Ivl.isEmpty (lo, hi) = false := by
    unfold Ivl.isEmpty F64.gt
    cases hc : F64.lt hi lo with
    | false => rfl
    | true => exact absurd ((lt_iff_val fhi flo).1 hc) (not_lt.2 hlt.le)
  have hexp : Ivl.expanded (lo, hi) containsMargin = (lo - containsMargin, hi + containsMargin) := by
    unfold Ivl.expanded; rw [hne]; rfl
  -- the two expanded bounds
  have hloabs : |val lo - val containsMargin| ≤ 1 + 1 / 2 ^ 51 := by
    rw [vm, abs_le]; constructor <;> linarith
  have hhiabs : |val hi + val containsMargin| ≤ 1 + 1 / 2 ^ 51 := by
    rw [vm, abs_le]; constructor <;> linarith
  obtain ⟨fL, rL, -⟩ := EdgeErr.subS flo fm (le_trans hloabs (by norm_num))
  obtain ⟨fH, rH, -⟩ := EdgeErr.addS fhi fm (le_trans hhiabs (by norm_num))
  unfold Rnd at rL rH
  rw [vm] at hloabs hhiabs rL rH
  have hL : val (lo - containsMargin) ≤ val lo - 1 / 2 ^ 51 + (uR * (1 + 1 / 2 ^ 51) + eR) := by
    have h3 : uR * |val lo - 1 / 2 ^ 51| ≤ uR * (1 + 1 / 2 ^ 51) :=
      mul_le_mul_of_nonneg_left hloabs uR_nonneg
    have h4 := (abs_le.1 rL).2
    linarith
  have hH : val hi + 1 / 2 ^ 51 - (uR * (1 + 1 / 2 ^ 51) + eR) ≤ val (hi + containsMargin) := by
    have h3 : uR * |val hi + 1 / 2 ^ 51| ≤ uR * (1 + 1 / 2 ^ 51) :=
      mul_le_mul_of_nonneg_left hhiabs uR_nonneg
    have h4 := (abs_le.1 rH).1
    linarith
  have hU1 := (abs_le.1 hUerr).1
  have hU2 := (abs_le.1 hUerr).2
  -- 2^-51 = 4·uR dominates  uR(1 + 2^-51) + uR + 2·eR
  have hbudget : uR * (1 + 1 / 2 ^ 51) + eR + (uR + eR) ≤ 1 / 2 ^ 51 := by
    rw [hu]
    have : (1 : ℝ) / 2 ^ 53 * (1 + 1 / 2 ^ 51) + 1 / 2 ^ 110 + (1 / 2 ^ 53 + 1 / 2 ^ 110) ≤ 1 / 2 ^ 51 := by norm_num
    linarith
  have c1 : val (lo - containsMargin) ≤ val (n / d) := by linarith [hin.1]
  have c2 : val (n / d) ≤ val (hi + containsMargin) := by linarith [hin.2]
  rw [hexp]
  constructor
  · unfold Ivl.contains
    simp only
    rw [(le_iff_val fL fU).2 c1, (le_iff_val fU fH).2 c2]; rfl
  · unfold Ivl.isEmpty F64.gt
    simp only
    cases hc : F64.lt (hi + containsMargin) (lo - containsMargin) with
    | false => rfl
    | true => exact absurd ((lt_iff_val fH fL).1 hc) (not_lt.2 (le_trans c1 c2))

theorem fin_neg {x : F64} (h : Fin x) : Fin (-x) := (S2Proofs.F64Sym.isFinite_neg x).2 h
theorem val_neg' (x : F64) : val (-x) = - val x := val_neg x

theorem le_zero_false {x : F64} (hx : Fin x) (h : 0 < val x) : F64.le x fzero = false := by
  obtain ⟨fz, vz⟩ := zero_val false
  cases hc : F64.le x fzero with
  | false => rfl
  | true =>
    have := (le_iff_val hx fz).1 hc
    rw [vz] at this; linarith

theorem ge_zero_false {x : F64} (hx : Fin x) (h : val x < 0) : F64.ge x fzero = false := by
  obtain ⟨fz, vz⟩ := zero_val false
  unfold F64.ge
  cases hc : F64.le fzero x with
  | false => rfl
  | true =>
    have := (le_iff_val fz hx).1 hc
    rw [vz] at this; linarith

/-- the face projection in terms of the face frame `T = uvwR f (ofV a)`: for `T.z > 0` the face test passes and the two
    coordinates are float quotients whose real quotients are `T.x/T.z`, `T.y/T.z`. -/
theorem face_uv (f : Nat) (hf : f < 6) (a : V3) (ha : Fin3 a) (hz : 0 < (uvwR f (ofV a)).z) :
    ∃ nx ny d : F64, Fin nx ∧ Fin ny ∧ Fin d ∧ val d ≠ 0 ∧
      val nx / val d = (uvwR f (ofV a)).x / (uvwR f (ofV a)).z ∧
      val ny / val d = (uvwR f (ofV a)).y / (uvwR f (ofV a)).z ∧
      faceXYZToUV f a = some (nx / d, ny / d) := by
  obtain ⟨fx, fy, fz⟩ := ha
  obtain rfl | rfl | rfl | rfl | rfl | rfl : f = 0 ∨ f = 1 ∨ f = 2 ∨ f = 3 ∨ f = 4 ∨ f = 5 := by omega
  · have hz' : 0 < val a.x := hz
    refine ⟨a.y, a.z, a.x, fy, fz, fx, hz'.ne', rfl, rfl, ?_⟩
    unfold faceXYZToUV; simp only [le_zero_false fx hz']; rfl
  · have hz' : 0 < val a.y := hz
    refine ⟨-a.x, a.z, a.y, fin_neg fx, fz, fy, hz'.ne', ?_, rfl, ?_⟩
    · rw [val_neg']; rfl
    · unfold faceXYZToUV; simp only [le_zero_false fy hz']; rfl
  · have hz' : 0 < val a.z := hz
    refine ⟨-a.x, -a.y, a.z, fin_neg fx, fin_neg fy, fz, hz'.ne', ?_, ?_, ?_⟩
    · rw [val_neg']; rfl
    · rw [val_neg']; rfl
    · unfold faceXYZToUV; simp only [le_zero_false fz hz']; rfl
  · have hz' : 0 < -val a.x := hz
    have hx0 : val a.x < 0 := by linarith
    refine ⟨a.z, a.y, a.x, fz, fy, fx, hx0.ne, ?_, ?_, ?_⟩
    · show val a.z / val a.x = -val a.z / -val a.x
      rw [neg_div_neg_eq]
    · show val a.y / val a.x = -val a.y / -val a.x
      rw [neg_div_neg_eq]
    · unfold faceXYZToUV; simp only [ge_zero_false fx hx0]; rfl
  · have hz' : 0 < -val a.y := hz
    have hy0 : val a.y < 0 := by linarith
    refine ⟨a.z, -a.x, a.y, fz, fin_neg fx, fy, hy0.ne, ?_, ?_, ?_⟩
    · show val a.z / val a.y = -val a.z / -val a.y
      rw [neg_div_neg_eq]
    · show val (-a.x) / val a.y = val a.x / -val a.y
      rw [val_neg', div_neg, neg_div]
    · unfold faceXYZToUV; simp only [ge_zero_false fy hy0]; rfl
  · have hz' : 0 < -val a.z := hz
    have hz0 : val a.z < 0 := by linarith
    refine ⟨-a.y, -a.x, a.z, fin_neg fy, fin_neg fx, fz, hz0.ne, ?_, ?_, ?_⟩
    · show val (-a.y) / val a.z = val a.y / -val a.z
      rw [val_neg', div_neg, neg_div]
    · show val (-a.x) / val a.z = val a.x / -val a.z
      rw [val_neg', div_neg, neg_div]
    · unfold faceXYZToUV; simp only [ge_zero_false fz hz0]; rfl

end CenterOut

open CenterOut

/-- **every positive multiple of `a` that is a point of the exact cell is accepted by the float `Cell.ContainsPoint`** -/
theorem containsPoint_of_inCell (cell : Cell) (fu0 : Fin cell.uv.1.1) (fu1 : Fin cell.uv.1.2) (fv0 : Fin cell.uv.2.1)
    (fv1 : Fin cell.uv.2.2) (hr : (rectOf cell).OK) (hface : cell.face < 6) (a : V3) (ha : Fin3 a) (s : ℝ) (hs : 0 < s)
    (hin : InCell (rectOf cell) (R3.smul s (uvwR cell.face (ofV a)))) : CellM.containsPoint cell a = true := by
  obtain ⟨-, hz, h1, h2, h3, h4⟩ := hin
  set T := uvwR cell.face (ofV a) with hT
  have hz' : 0 < T.z := by
    have : 0 < s * T.z := hz
    exact (mul_pos_iff_of_pos_left hs).1 this
  -- the real quotients are in the rectangle
  have qx : (rectOf cell).u0 ≤ T.x / T.z ∧ T.x / T.z ≤ (rectOf cell).u1 := by
    have a1 : (rectOf cell).u0 * (s * T.z) ≤ s * T.x := h1
    have a2 : s * T.x ≤ (rectOf cell).u1 * (s * T.z) := h2
    rw [le_div_iff₀ hz', div_le_iff₀ hz']
    constructor <;> nlinarith
  have qy : (rectOf cell).v0 ≤ T.y / T.z ∧ T.y / T.z ≤ (rectOf cell).v1 := by
    have a1 : (rectOf cell).v0 * (s * T.z) ≤ s * T.y := h3
    have a2 : s * T.y ≤ (rectOf cell).v1 * (s * T.z) := h4
    rw [le_div_iff₀ hz', div_le_iff₀ hz']
    constructor <;> nlinarith
  obtain ⟨nx, ny, d, fnx, fny, fd, hd, ex, ey, hface_uv⟩ := face_uv cell.face hface a ha hz'
  rw [← hT] at ex ey
  obtain ⟨cx, nex⟩ := coord_in cell.uv.1.1 cell.uv.1.2 nx d fu0 fu1 fnx fd hd hr.u_lt hr.u0_ge hr.u1_le
    (by rw [ex]; exact qx)
  obtain ⟨cy, ney⟩ := coord_in cell.uv.2.1 cell.uv.2.2 ny d fv0 fv1 fny fd hd hr.v_lt hr.v0_ge hr.v1_le
    (by rw [ey]; exact qy)
  unfold CellM.containsPoint
  rw [hface_uv]
  simp only
  unfold Rect2.expandedByMargin Rect2.expanded
  simp only [nex, ney, Bool.or_self, Bool.false_eq_true, if_false]
  unfold Rect2.containsPoint
  simp only [cx, cy, Bool.and_self]

/-- **(A5) the centre test of `Cap.intersects`**: if the float `Cell.ContainsPoint(centre)` says `false`, no positive
    multiple of the centre (face frame) is a point of the exact cell — in particular the centre direction is outside. -/
theorem center_outside (cell : Cell) (fu0 : Fin cell.uv.1.1) (fu1 : Fin cell.uv.1.2) (fv0 : Fin cell.uv.2.1)
    (fv1 : Fin cell.uv.2.2) (hr : (rectOf cell).OK) (hface : cell.face < 6) (a : V3) (ha : Fin3 a)
    (h : CellM.containsPoint cell a = false) :
    ∀ s : ℝ, 0 < s → ¬ InCell (rectOf cell) (R3.smul s (uvwR cell.face (ofV a))) := by
  intro s hs hin
  rw [containsPoint_of_inCell cell fu0 fu1 fv0 fv1 hr hface a ha s hs hin] at h
  cases h

/-- the face-3 cell `[-1,1]²` as a literal -/
def CenterOut.exCell : Cell :=
  { face := 3, level := 0, orientation := 1, id := 0x7000000000000000,
    uv := ((⟨0xBFF0000000000000⟩, ⟨0x3FF0000000000000⟩), (⟨0xBFF0000000000000⟩, ⟨0x3FF0000000000000⟩)) }

/-- non-vacuity of `center_outside`: the face-3 cell `[-1,1]²` and the centre of the D59 witness (on the far side of the
    face plane: the face test fails). -/
example : ∃ (cell : Cell) (a : V3), Fin cell.uv.1.1 ∧ Fin cell.uv.1.2 ∧ Fin cell.uv.2.1 ∧ Fin cell.uv.2.2 ∧
    (rectOf cell).OK ∧ cell.face < 6 ∧ Fin3 a ∧ CellM.containsPoint cell a = false := by
  have vneg : val ⟨0xBFF0000000000000⟩ = -1 := by
    have h : toInt ⟨0xBFF0000000000000⟩ = -1 * 2 ^ 1074 := by decide +kernel
    rw [val_of_toInt (j := 0) h (by norm_num)]; push_cast; ring
  have vpos : val ⟨0x3FF0000000000000⟩ = 1 := by
    have h : toInt ⟨0x3FF0000000000000⟩ = 1 * 2 ^ 1074 := by decide +kernel
    rw [val_of_toInt (j := 0) h (by norm_num)]; push_cast; ring
  refine ⟨CenterOut.exCell, ⟨⟨0x3fe6a09e5224924d⟩, ⟨0xbfe6a09e7ad9e53b⟩, ⟨0xbe34973f9d755374⟩⟩,
    by decide +kernel, by decide +kernel, by decide +kernel, by decide +kernel, ?_, by decide,
    ⟨by decide +kernel, by decide +kernel, by decide +kernel⟩, by decide +kernel⟩
  have e : rectOf CenterOut.exCell = ⟨-1, 1, -1, 1⟩ := by
    show (⟨val ⟨0xBFF0000000000000⟩, val ⟨0x3FF0000000000000⟩, val ⟨0xBFF0000000000000⟩, val ⟨0x3FF0000000000000⟩⟩ : RRect) = _
    rw [vneg, vpos]
  rw [e]
  constructor <;> norm_num

/-- … and an instance where the face test passes and a coordinate is outside: the direction `(−1, −1, −3)` (face frame
    `(3, 1, 1)`, `u = 3 > 1 + 2^-51`) against the same cell. -/
example : CellM.containsPoint CenterOut.exCell ⟨⟨0xBFF0000000000000⟩, ⟨0xBFF0000000000000⟩, ⟨0xC008000000000000⟩⟩ = false := by
  decide +kernel

end S2Proofs.C05Cap
