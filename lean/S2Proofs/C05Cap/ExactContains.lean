/-
  C05Cap.ExactContains — the EXACT characterisation of `Cap.ContainsCell` in real arithmetic for caps larger than a
  hemisphere (`2 < ρ < 4`; the other ranges are `containsCellR_iff_small` in `ExactAlg.lean`):

      containsCellR r a ρ = true  ↔  the cell lies in the closed cap  ∧  every cell point ON the boundary circle is a vertex.

  Ingredients: the closest point of the cell to a centre is unique for radius `< 2` (`closest_unique`, convexity of the
  cell under normalised midpoints), a touching version of `meets_edge` (`touch_edge`), and a strict version of C12's
  `edge_point_u/v` (the closest point of the great circle lies STRICTLY between the end points when the slab tests hold
  strictly, hence is not a vertex).
-/
import S2Proofs.C05Cap.ExactAlg

namespace S2Proofs.C05Cap
open S2Proofs.C12Dist S2Proofs.C16Acc S2Proofs.C12Dist.Cover

/-! ### strict edge points -/

/-- strict version of C12's `edge_point_u` -/
theorem edge_point_u_strict (u v0 v1 : ℝ) (t : R3) (hv : v0 < v1) (h0 : 0 < vTan u v0 t) (h1 : vTan u v1 t < 0) :
    ∃ q : R3, q.norm2 = 1 ∧ 0 < q.z ∧ q.x = u * q.z ∧ v0 * q.z < q.y ∧ q.y < v1 * q.z ∧
      R3.dot t q = Real.sqrt (t.y ^ 2 + (u * t.x + t.z) ^ 2 / (1 + u ^ 2)) := by
  set D := 1 + u ^ 2 with hD
  set w := u * t.x + t.z with hw
  have hD0 : 0 < D := by positivity
  have e0 : vTan u v0 t = D * t.y - v0 * w := by unfold vTan; rw [hD, hw]; ring
  have e1 : vTan u v1 t = D * t.y - v1 * w := by unfold vTan; rw [hD, hw]; ring
  rw [e0] at h0; rw [e1] at h1
  have hwpos : 0 < w := by
    have h : 0 < (v1 - v0) * w := by nlinarith
    by_contra hc
    have : (v1 - v0) * w ≤ 0 := mul_nonpos_of_nonneg_of_nonpos (by linarith) (not_lt.1 hc)
    linarith
  set ρ := Real.sqrt (t.y ^ 2 + w ^ 2 / D) with hρ
  have hρ2 : ρ ^ 2 = t.y ^ 2 + w ^ 2 / D := Real.sq_sqrt (by positivity)
  have hρpos : 0 < ρ := by
    apply Real.sqrt_pos.2
    have : 0 < w ^ 2 / D := by positivity
    nlinarith [sq_nonneg t.y]
  refine ⟨⟨u * w / D / ρ, t.y / ρ, w / D / ρ⟩, ?_, ?_, ?_, ?_, ?_, ?_⟩
  · unfold R3.norm2
    simp only
    have : (u * w / D / ρ) ^ 2 + (t.y / ρ) ^ 2 + (w / D / ρ) ^ 2 = (t.y ^ 2 + w ^ 2 / D) / ρ ^ 2 := by
      rw [hD]; field_simp; ring
    rw [this, hρ2]; exact div_self (by rw [← hρ2]; positivity)
  · simp only; positivity
  · simp only; field_simp
  · simp only
    rw [show v0 * (w / D / ρ) = (v0 * w / D) / ρ by ring]
    apply div_lt_div_of_pos_right _ hρpos
    rw [div_lt_iff₀ hD0]; linarith
  · simp only
    rw [show v1 * (w / D / ρ) = (v1 * w / D) / ρ by ring]
    apply div_lt_div_of_pos_right _ hρpos
    rw [lt_div_iff₀ hD0]; linarith
  · unfold R3.dot
    simp only
    have : t.x * (u * w / D / ρ) + t.y * (t.y / ρ) + t.z * (w / D / ρ) = (t.y ^ 2 + w ^ 2 / D) / ρ := by
      rw [hw]; field_simp; ring
    rw [this, ← hρ2, pow_two, mul_div_assoc, div_self (ne_of_gt hρpos), mul_one]

theorem edge_point_v_strict (v u0 u1 : ℝ) (t : R3) (hu : u0 < u1) (h0 : 0 < uTan v u0 t) (h1 : uTan v u1 t < 0) :
    ∃ q : R3, q.norm2 = 1 ∧ 0 < q.z ∧ q.y = v * q.z ∧ u0 * q.z < q.x ∧ q.x < u1 * q.z ∧
      R3.dot t q = Real.sqrt (t.x ^ 2 + (v * t.y + t.z) ^ 2 / (1 + v ^ 2)) := by
  have h0' : 0 < vTan v u0 ⟨t.y, t.x, t.z⟩ := by unfold vTan; unfold uTan at h0; simp only; linarith
  have h1' : vTan v u1 ⟨t.y, t.x, t.z⟩ < 0 := by unfold vTan; unfold uTan at h1; simp only; linarith
  obtain ⟨q, a1, a2, a3, a4, a5, a6⟩ := edge_point_u_strict v u0 u1 ⟨t.y, t.x, t.z⟩ hu h0' h1'
  refine ⟨⟨q.y, q.x, q.z⟩, ?_, a2, a3, a4, a5, ?_⟩
  · unfold R3.norm2 at a1 ⊢; simp only; linarith
  · unfold R3.dot at a6 ⊢; simp only at a6 ⊢; rw [← a6]; ring

/-- a cell point strictly inside one coordinate range (e.g. a relative interior point of an edge) -/
def NonVertex (r : RRect) (q : R3) : Prop :=
  (r.v0 * q.z < q.y ∧ q.y < r.v1 * q.z) ∨ (r.u0 * q.z < q.x ∧ q.x < r.u1 * q.z)

theorem vhat_x (x y : ℝ) : (vhat x y).x = x * (vhat x y).z := by unfold vhat R3.smul; simp only; ring
theorem vhat_y (x y : ℝ) : (vhat x y).y = y * (vhat x y).z := by unfold vhat R3.smul; simp only; ring

theorem nonVertex_ne (r : RRect) (q : R3) (h : NonVertex r q) (j : Nat) : q ≠ vtx r j := by
  rintro rfl
  unfold NonVertex at h
  unfold vtx at h
  split at h
  all_goals
    rcases h with ⟨h1, h2⟩ | ⟨h1, h2⟩
    · rw [vhat_y] at h1 h2
      first | exact lt_irrefl _ h1 | exact lt_irrefl _ h2
    · rw [vhat_x] at h1 h2
      first | exact lt_irrefl _ h1 | exact lt_irrefl _ h2

/-- strict version of `edgeVal_attained`: under the (strict) slab tests the closest point is not a vertex -/
theorem edgeVal_attained_strict (r : RRect) (hr : r.OK) (a : R3) (k : Nat) (hk : k < 4) (hs : Slab r a k) :
    ∃ q, InCell r q ∧ NonVertex r q ∧ dist2 a q = edgeVal r a k := by
  have hu := hr.u_lt
  have hv := hr.v_lt
  obtain rfl | rfl | rfl | rfl : k = 0 ∨ k = 1 ∨ k = 2 ∨ k = 3 := by omega
  · obtain ⟨h0, h1⟩ := (slab_iff_0 r a).1 hs
    obtain ⟨q, a1, a2, a3, a4, a5, a6⟩ := edge_point_v_strict r.v0 r.u0 r.u1 a hu h0 h1
    refine ⟨q, ⟨a1, a2, a4.le, a5.le, by rw [a3], ?_⟩, Or.inr ⟨a4, a5⟩, ?_⟩
    · rw [a3]; exact mul_le_mul_of_nonneg_right hv.le a2.le
    · rw [edgeVal_0, edgeReal_eq, dist2_eq, a1, a6, neg_sq]
      unfold sB
      have := frame_norm_v r.v0 a
      linarith
  · obtain ⟨h0, h1⟩ := (slab_iff_1 r a).1 hs
    obtain ⟨q, a1, a2, a3, a4, a5, a6⟩ := edge_point_u_strict r.u1 r.v0 r.v1 a hv h0 h1
    refine ⟨q, ⟨a1, a2, ?_, by rw [a3], a4.le, a5.le⟩, Or.inl ⟨a4, a5⟩, ?_⟩
    · rw [a3]; exact mul_le_mul_of_nonneg_right hu.le a2.le
    · rw [edgeVal_1, edgeReal_eq, dist2_eq, a1, a6]
      unfold sR
      have := frame_norm_u r.u1 a
      linarith
  · obtain ⟨h0, h1⟩ := (slab_iff_2 r a).1 hs
    obtain ⟨q, a1, a2, a3, a4, a5, a6⟩ := edge_point_v_strict r.v1 r.u0 r.u1 a hu h0 h1
    refine ⟨q, ⟨a1, a2, a4.le, a5.le, ?_, by rw [a3]⟩, Or.inr ⟨a4, a5⟩, ?_⟩
    · rw [a3]; exact mul_le_mul_of_nonneg_right hv.le a2.le
    · rw [edgeVal_2, edgeReal_eq, dist2_eq, a1, a6]
      unfold sT
      have := frame_norm_v r.v1 a
      linarith
  · obtain ⟨h0, h1⟩ := (slab_iff_3 r a).1 hs
    obtain ⟨q, a1, a2, a3, a4, a5, a6⟩ := edge_point_u_strict r.u0 r.v0 r.v1 a hv h0 h1
    refine ⟨q, ⟨a1, a2, by rw [a3], ?_, a4.le, a5.le⟩, Or.inl ⟨a4, a5⟩, ?_⟩
    · rw [a3]; exact mul_le_mul_of_nonneg_right hu.le a2.le
    · rw [edgeVal_3, edgeReal_eq, dist2_eq, a1, a6, neg_sq]
      unfold sL
      have := frame_norm_u r.u0 a
      linarith

/-! ### uniqueness of the closest point -/

/-- the normalised midpoint of two cell points is a cell point -/
theorem midpoint_inCell (r : RRect) (q q' : R3) (hq : InCell r q) (hq' : InCell r q') (L : ℝ) (hL : 0 < L)
    (hL2 : L ^ 2 = (R3.add q q').norm2) : InCell r (R3.smul (1 / L) (R3.add q q')) := by
  obtain ⟨_, hz, h1, h2, h3, h4⟩ := hq
  obtain ⟨_, hz', h1', h2', h3', h4'⟩ := hq'
  have hp : 0 < 1 / L := by positivity
  refine ⟨?_, ?_, ?_, ?_, ?_, ?_⟩
  · have e : (R3.smul (1 / L) (R3.add q q')).norm2 = (1 / L) ^ 2 * (R3.add q q').norm2 := by
      unfold R3.norm2 R3.smul; simp only; ring
    rw [e, ← hL2]; field_simp
  · unfold R3.smul R3.add; simp only; exact mul_pos hp (by linarith)
  · unfold R3.smul R3.add; simp only
    rw [show r.u0 * (1 / L * (q.z + q'.z)) = 1 / L * (r.u0 * q.z + r.u0 * q'.z) by ring]
    exact mul_le_mul_of_nonneg_left (by linarith) hp.le
  · unfold R3.smul R3.add; simp only
    rw [show r.u1 * (1 / L * (q.z + q'.z)) = 1 / L * (r.u1 * q.z + r.u1 * q'.z) by ring]
    exact mul_le_mul_of_nonneg_left (by linarith) hp.le
  · unfold R3.smul R3.add; simp only
    rw [show r.v0 * (1 / L * (q.z + q'.z)) = 1 / L * (r.v0 * q.z + r.v0 * q'.z) by ring]
    exact mul_le_mul_of_nonneg_left (by linarith) hp.le
  · unfold R3.smul R3.add; simp only
    rw [show r.v1 * (1 / L * (q.z + q'.z)) = 1 / L * (r.v1 * q.z + r.v1 * q'.z) by ring]
    exact mul_le_mul_of_nonneg_left (by linarith) hp.le

/-- **the closest point of the cell is unique** when it is closer than 90° (`σ < 2`): two cell points at the minimal
    distance coincide. -/
theorem closest_unique (r : RRect) (b : R3) (hb : b.norm2 = 1) (σ : ℝ) (h2 : σ < 2)
    (hall : ∀ q, InCell r q → σ ≤ dist2 b q) (q q' : R3) (hq : InCell r q) (hq' : InCell r q')
    (e : dist2 b q = σ) (e' : dist2 b q' = σ) : q = q' := by
  by_contra hne
  rw [dist2_unit b q hb hq.1] at e
  rw [dist2_unit b q' hb hq'.1] at e'
  -- c = q·q' < 1
  have hc : R3.dot q q' < 1 := by
    by_contra hc
    have hc : 1 ≤ R3.dot q q' := not_lt.1 hc
    have hd := dist2_unit q q' hq.1 hq'.1
    have hd0 := dist2_nonneg q q'
    have h0 : dist2 q q' = 0 := by linarith
    unfold dist2 R3.sub R3.norm2 at h0
    simp only at h0
    have hx : (q.x - q'.x) ^ 2 = 0 := by nlinarith [sq_nonneg (q.x - q'.x), sq_nonneg (q.y - q'.y), sq_nonneg (q.z - q'.z)]
    have hy : (q.y - q'.y) ^ 2 = 0 := by nlinarith [sq_nonneg (q.x - q'.x), sq_nonneg (q.y - q'.y), sq_nonneg (q.z - q'.z)]
    have hz : (q.z - q'.z) ^ 2 = 0 := by nlinarith [sq_nonneg (q.x - q'.x), sq_nonneg (q.y - q'.y), sq_nonneg (q.z - q'.z)]
    apply hne
    ext
    · have := pow_eq_zero_iff (n := 2) (by norm_num) |>.1 hx; linarith
    · have := pow_eq_zero_iff (n := 2) (by norm_num) |>.1 hy; linarith
    · have := pow_eq_zero_iff (n := 2) (by norm_num) |>.1 hz; linarith
  have hN : (R3.add q q').norm2 = 2 + 2 * R3.dot q q' := by
    rw [R3.norm2_add, hq.1, hq'.1]; ring
  have hNpos : 0 < (R3.add q q').norm2 := by
    have hz : 0 < (R3.add q q').z := by unfold R3.add; simp only; linarith [hq.2.1, hq'.2.1]
    unfold R3.norm2; nlinarith [sq_nonneg (R3.add q q').x, sq_nonneg (R3.add q q').y]
  set L := Real.sqrt (R3.add q q').norm2 with hLdef
  have hL : 0 < L := Real.sqrt_pos.2 hNpos
  have hL2 : L ^ 2 = (R3.add q q').norm2 := Real.sq_sqrt hNpos.le
  have hLlt : L < 2 := by
    have : L ^ 2 < 2 ^ 2 := by rw [hL2, hN]; linarith
    exact lt_of_pow_lt_pow_left₀ 2 (by norm_num) this
  have hp := midpoint_inCell r q q' hq hq' L hL hL2
  have hd := hall _ hp
  rw [dist2_unit b _ hb hp.1] at hd
  have hdot : R3.dot b (R3.smul (1 / L) (R3.add q q')) = (R3.dot b q + R3.dot b q') / L := by
    unfold R3.dot R3.smul R3.add; simp only; field_simp; ring
  rw [hdot] at hd
  -- b·q = b·q' = m := 1 − σ/2 > 0, and 2m/L ≤ m
  have hm : 0 < R3.dot b q := by linarith
  have h3 : (R3.dot b q + R3.dot b q') / L ≤ R3.dot b q := by linarith
  rw [div_le_iff₀ hL] at h3
  nlinarith

/-! ### the touching version of `meets_edge` -/

/-- the cap `(b, σ)`, `σ < 2`, has no cell point strictly inside, its centre is not in the cell, and it touches the cell
    at a point that is not a vertex ⇒ some edge passes the three tests of the loop. -/
theorem touch_edge (r : RRect) (hr : r.OK) (b : R3) (hb : b.norm2 = 1) (σ : ℝ) (h2 : σ < 2)
    (hall : ∀ q, InCell r q → σ ≤ dist2 b q) (q : R3) (hq : InCell r q) (e : dist2 b q = σ)
    (hnv : ∀ k, k < 4 → q ≠ vtx r k) (hin : ¬ InCell r b) :
    ∃ k, k < 4 ∧ R3.dot b (nrm r k) ≤ 0 ∧ (R3.dot b (nrm r k)) ^ 2 ≤ sin2R σ * (nrm r k).norm2 ∧
      R3.dot (R3.cross (nrm r k) b) (vtx r k) < 0 ∧ 0 < R3.dot (R3.cross (nrm r k) b) (vtx r ((k + 1) % 4)) := by
  obtain ⟨hlow, -⟩ := distExact_correct r hr b hb
  have hd : distExact r b ≤ σ := le_trans (hlow q hq) e.le
  have fin : ∀ k, k < 4 → edgeVal r b k ≤ σ → R3.dot b (nrm r k) ≤ 0 → Slab r b k →
      ∃ k, k < 4 ∧ R3.dot b (nrm r k) ≤ 0 ∧ (R3.dot b (nrm r k)) ^ 2 ≤ sin2R σ * (nrm r k).norm2 ∧
        R3.dot (R3.cross (nrm r k) b) (vtx r k) < 0 ∧ 0 < R3.dot (R3.cross (nrm r k) b) (vtx r ((k + 1) % 4)) :=
    fun k hk he hdot hs => ⟨k, hk, hdot, (edgeVal_le_iff r b hb k hk σ h2.le).1 he, hs.1, hs.2⟩
  unfold distExact at hd
  by_cases hL : ExL r b
  · rw [if_pos hL] at hd
    exact fin 3 (by norm_num) hd (by rw [dot_nrm_3]; exact hL.1.le) ((slab_iff_3 r b).2 hL.2)
  rw [if_neg hL] at hd
  by_cases hR : ExR r b
  · rw [if_pos hR] at hd
    exact fin 1 (by norm_num) hd (by rw [dot_nrm_1]; linarith [hR.1]) ((slab_iff_1 r b).2 hR.2)
  rw [if_neg hR] at hd
  by_cases hB : ExB r b
  · rw [if_pos hB] at hd
    exact fin 0 (by norm_num) hd (by rw [dot_nrm_0]; exact hB.1.le) ((slab_iff_0 r b).2 hB.2)
  rw [if_neg hB] at hd
  by_cases hT : ExT r b
  · rw [if_pos hT] at hd
    exact fin 2 (by norm_num) hd (by rw [dot_nrm_2]; linarith [hT.1]) ((slab_iff_2 r b).2 hT.2)
  rw [if_neg hT] at hd
  by_cases hI : ExInside r b
  · exact absurd (inCell_of_exInside r hr b hb hI) hin
  rw [if_neg hI, hb] at hd
  exfalso
  -- some vertex is at distance ≤ σ, hence = σ, hence equal to q
  have key : ∀ k, k < 4 → maxVertexDot r b = R3.dot b (vtx r k) → False := by
    intro k hk hmax
    have hk' : dist2 b (vtx r k) ≤ σ := by
      rw [dist2_unit b _ hb (vtx_norm2 r k), ← hmax]; linarith
    have hk'' : dist2 b (vtx r k) = σ := le_antisymm hk' (hall _ (vtx_inCell r hr k))
    exact hnv k hk (closest_unique r b hb σ h2 hall q (vtx r k) hq (vtx_inCell r hr k) e hk'')
  unfold maxVertexDot at key
  rcases max_cases (max (R3.dot b (vhat r.u0 r.v0)) (R3.dot b (vhat r.u1 r.v0)))
      (max (R3.dot b (vhat r.u0 r.v1)) (R3.dot b (vhat r.u1 r.v1))) with ⟨h, _⟩ | ⟨h, _⟩
  · rcases max_cases (R3.dot b (vhat r.u0 r.v0)) (R3.dot b (vhat r.u1 r.v0)) with ⟨h', _⟩ | ⟨h', _⟩
    · exact key 0 (by norm_num) (by rw [h, h', vtx_0])
    · exact key 1 (by norm_num) (by rw [h, h', vtx_1])
  · rcases max_cases (R3.dot b (vhat r.u0 r.v1)) (R3.dot b (vhat r.u1 r.v1)) with ⟨h', _⟩ | ⟨h', _⟩
    · exact key 3 (by norm_num) (by rw [h, h', vtx_3])
    · exact key 2 (by norm_num) (by rw [h, h', vtx_2])

/-! ### the exact characterisation of `ContainsCell` for `2 < ρ < 4` -/

/-- what `intersectsR = true` means, step by step -/
theorem intersectsR_true_cases (r : RRect) (a : R3) (ρ : ℝ) (h : intersectsR r a ρ = true) :
    ρ < 2 ∧ 0 ≤ ρ ∧ (InCell r a ∨ ∃ j, j < 4 ∧ stepR r a ρ j = .retTrue) := by
  unfold intersectsR at h
  by_cases h2 : 2 ≤ ρ
  · rw [if_pos h2] at h; cases h
  rw [if_neg h2] at h
  by_cases h0 : ρ < 0
  · rw [if_pos h0] at h; cases h
  rw [if_neg h0] at h
  refine ⟨not_le.1 h2, not_lt.1 h0, ?_⟩
  by_cases hin : InCell r a
  · exact Or.inl hin
  rw [if_neg hin] at h
  obtain ⟨j, -, hj, hs⟩ := loopR_true_exists r a ρ 4 0 h
  exact Or.inr ⟨j, by omega, hs⟩

/-- `ContainsCell` once the four vertex tests have passed -/
theorem containsCellR_eq (r : RRect) (a : R3) (ρ : ℝ) (h0 : 0 ≤ ρ) (h4 : ρ ≠ 4)
    (hv : ∀ k, k < 4 → dist2 a (vtx r k) ≤ ρ) :
    containsCellR r a ρ = !intersectsR r (R3.neg a) (4 - ρ) := by
  unfold containsCellR
  have : ¬ ∃ k, k < 4 ∧ ρ < dist2 a (vtx r k) := by
    rintro ⟨k, hk, h⟩; exact absurd (hv k hk) (not_le.2 h)
  rw [if_neg this, if_neg h4, if_neg (not_lt.2 h0)]

/-- **`Cap.ContainsCell` for caps larger than a hemisphere, exactly** (real arithmetic): it answers `true` iff the cell
    lies in the closed cap and touches the boundary circle at most in vertices. -/
theorem containsCellR_iff_large (r : RRect) (hr : r.OK) (a : R3) (ha : a.norm2 = 1) (ρ : ℝ) (h2 : 2 < ρ) (h4 : ρ < 4) :
    containsCellR r a ρ = true ↔
      Inside r a ρ ∧ ∀ q, InCell r q → dist2 a q = ρ → ∃ k, k < 4 ∧ q = vtx r k := by
  have hb : (R3.neg a).norm2 = 1 := by rw [neg_norm2]; exact ha
  have hσ2 : 4 - ρ < 2 := by linarith
  have hσ0 : 0 < 4 - ρ := by linarith
  -- facts that only need `Inside`
  have facts : Inside r a ρ →
      (∀ k, k < 4 → dist2 a (vtx r k) ≤ ρ) ∧ (∀ q, InCell r q → 4 - ρ ≤ dist2 (R3.neg a) q) ∧ ¬ InCell r (R3.neg a) := by
    intro hI
    have hall : ∀ q, InCell r q → 4 - ρ ≤ dist2 (R3.neg a) q := fun q hq => by
      rw [dist2_neg a q ha hq.1]; linarith [hI q hq]
    refine ⟨fun k _ => hI _ (vtx_inCell r hr k), hall, fun hin => ?_⟩
    have := hall _ hin
    have e : dist2 (R3.neg a) (R3.neg a) = 0 := by unfold dist2 R3.sub R3.norm2; simp
    rw [e] at this; linarith
  constructor
  · intro h
    have hI := containsCellR_sound r hr a ha ρ h
    obtain ⟨hv, hall, hin⟩ := facts hI
    refine ⟨hI, fun q hq e => ?_⟩
    by_contra hnv
    have hnv' : ∀ k, k < 4 → q ≠ vtx r k := fun k hk e' => hnv ⟨k, hk, e'⟩
    have eσ : dist2 (R3.neg a) q = 4 - ρ := by rw [dist2_neg a q ha hq.1, e]
    have hedge := touch_edge r hr (R3.neg a) hb (4 - ρ) hσ2 hall q hq eσ hnv' hin
    have ht := intersectsR_true_of r (R3.neg a) hb (4 - ρ) hσ0.le hσ2 ⟨q, hq, eσ.le⟩ (Or.inr hedge)
    rw [containsCellR_eq r a ρ (by linarith) (ne_of_lt h4) hv, ht] at h
    cases h
  · rintro ⟨hI, htouch⟩
    obtain ⟨hv, hall, hin⟩ := facts hI
    rw [containsCellR_eq r a ρ (by linarith) (ne_of_lt h4) hv]
    cases hb' : intersectsR r (R3.neg a) (4 - ρ) with
    | false => rfl
    | true =>
      exfalso
      obtain ⟨-, -, hc | ⟨j, hj, hs⟩⟩ := intersectsR_true_cases r (R3.neg a) (4 - ρ) hb'
      · exact hin hc
      · obtain ⟨_, hn, hsl⟩ := (stepR_retTrue_iff r (R3.neg a) (4 - ρ) j).1 hs
        obtain ⟨q, hq, hnv, e⟩ := edgeVal_attained_strict r hr (R3.neg a) j hj hsl
        have hle : dist2 (R3.neg a) q ≤ 4 - ρ := by
          rw [e]; exact (edgeVal_le_iff r (R3.neg a) hb j hj (4 - ρ) hσ2.le).2 hn
        have heq : dist2 (R3.neg a) q = 4 - ρ := le_antisymm hle (hall q hq)
        rw [dist2_neg a q ha hq.1] at heq
        obtain ⟨k, -, ek⟩ := htouch q hq (by linarith)
        exact nonVertex_ne r q hnv k ek

/-- every point of `exRect` has `x ≤ 3/5` -/
theorem exRect_x_le (q : R3) (hq : InCell exRect q) : q.x ≤ 3 / 5 := by
  obtain ⟨hn, hz, h1, h2, h3, h4⟩ := hq
  unfold exRect at h1 h2 h3 h4; simp only at h1 h2 h3 h4
  unfold R3.norm2 at hn
  by_contra hc
  have hc : 3 / 5 < q.x := not_le.1 hc
  have hz' : 4 / 5 < q.z := by linarith
  nlinarith [sq_nonneg q.y]

/-- non-vacuity of `touch_edge` (and of `closest_unique`): `exRect`, centre `(1,0,0)`, `σ = 4/5`, touching point `(3,0,4)/5`
    in the interior of the right edge. -/
example : ∃ (r : RRect) (b : R3) (σ : ℝ) (q : R3), r.OK ∧ b.norm2 = 1 ∧ σ < 2 ∧ (∀ q, InCell r q → σ ≤ dist2 b q) ∧
    InCell r q ∧ dist2 b q = σ ∧ (∀ k, k < 4 → q ≠ vtx r k) ∧ ¬ InCell r b := by
  have hb : (⟨1, 0, 0⟩ : R3).norm2 = 1 := by unfold R3.norm2; norm_num
  refine ⟨exRect, ⟨1, 0, 0⟩, 4 / 5, ⟨3 / 5, 0, 4 / 5⟩, exRect_ok, hb, by norm_num, ?_, ?_, ?_, ?_, ?_⟩
  · intro q hq
    have hd : R3.dot ⟨1, 0, 0⟩ q = q.x := by unfold R3.dot; simp
    rw [dist2_unit _ q hb hq.1, hd]
    linarith [exRect_x_le q hq]
  · unfold InCell exRect R3.norm2; norm_num
  · unfold dist2 R3.sub R3.norm2; norm_num
  · intro k hk e
    rw [exRect_vtx k hk] at e
    have := congrArg R3.y e
    simp only at this
    split_ifs at this <;> norm_num at this
  · rintro ⟨-, hz, -⟩; simp at hz

/-- instances of `containsCellR_iff_large`: `exRect` in the cap with centre `(0,0,1)`, `ρ = 3` → `true`; centre `(−1,0,0)`,
    `ρ = 16/5` → the cell is `Inside` but touches the circle in the interior of an edge → `false` (`containsCellR_gap`). -/
example : containsCellR exRect ⟨0, 0, 1⟩ 3 = true ∧
    ¬ (∀ q, InCell exRect q → dist2 ⟨-1, 0, 0⟩ q = 16 / 5 → ∃ k, k < 4 ∧ q = vtx exRect k) := by
  constructor
  · have ha : (⟨0, 0, 1⟩ : R3).norm2 = 1 := by unfold R3.norm2; norm_num
    apply containsCellR_complete exRect exRect_ok _ ha
    intro q hq
    have := dist2_nonneg (R3.neg ⟨0, 0, 1⟩) q
    have hd : R3.dot ⟨0, 0, 1⟩ q = q.z := by unfold R3.dot; simp
    rw [dist2_unit _ q ha hq.1, hd]
    linarith [hq.2.1]
  · intro h
    have ha : (⟨-1, 0, 0⟩ : R3).norm2 = 1 := by unfold R3.norm2; norm_num
    have h' := (containsCellR_iff_large exRect exRect_ok _ ha (16 / 5) (by norm_num) (by norm_num)).2
      ⟨containsCellR_gap.1, h⟩
    rw [containsCellR_gap.2] at h'
    cases h'

end S2Proofs.C05Cap
