/-
  S2Proofs.C05Cap.Sub4 — the UPPER bound of `s1.StraightChordAngle.Sub(r)` (`Chord.sub Chord.f4 r`) on the bit-exact
  soft-float, complementing the lower bound `CapF64.sub4_spec`.

  For `0 < r < 4` the function computes `x = 4 ⊗ (1 ⊖ 0.25 ⊗ r)`, `y = r ⊗ (1 ⊖ 0.25 ⊗ 4) = 0` and returns
  `fmax 0 (x ⊕ y ⊖ 2 ⊗ sqrt (x ⊗ y)) = x`.  `0.25 ⊗ r` is exact unless `r` is tiny (`< 2^-1020`), `4 ⊗ w` is exact for
  `0 ≤ w ≤ 1`, so there is ONE rounding (the subtraction):  `val (4 ⊖ r) ≤ (4 − r)(1 + u) + 2^-1000`.

  * `sub4_val`     : the result is `4 · val (1 ⊖ 0.25 ⊗ r)` in the main branch;
  * `sub4_upper`   : the upper bound (all three branches);
  * `sub4_ge_two`, `sub4_lt_two` : what the float test `4 ⊖ r ≥ 2.0` says about `r`.
-/
import Mathlib.Tactic.Ring
import Mathlib.Tactic.Linarith
import Mathlib.Tactic.Positivity
import Mathlib.Tactic.NormNum
import S2Proofs.CapF64.Complement
import S2Proofs.C12.MarginRound

namespace S2Proofs.C05Cap
open S2 S2.Exact S2Proofs.F64Order S2Proofs.FloatErr S2Proofs.CapF64

set_option exponentiation.threshold 3000

/-! ### `4 ⊗ w` is exact for `0 ≤ w ≤ 1` -/

theorem four_mul_exact {w : F64} (hw : Fin w) (h0 : 0 ≤ val w) (h1 : val w ≤ 1) :
    Fin (Chord.f4 * w) ∧ val (Chord.f4 * w) = 4 * val w := by
  have t1 : toInt w ≤ 2 ^ 1074 := by
    have := (le_iff hw CA.val_one.1).mp ((le_iff_val hw CA.val_one.1).mpr (by rw [CA.val_one.2]; exact h1))
    rwa [F64Round.toInt_one] at this
  have t0 : 0 ≤ toInt w := by
    have hz : Fin (F64.zero false) ∧ val (F64.zero false) = 0 := zero_val false
    have := (le_iff hz.1 hw).mp ((le_iff_val hz.1 hw).mpr (by rw [hz.2]; exact h0))
    have e : toInt (F64.zero false) = 0 := by decide
    rwa [e] at this
  have hab : (4 * toInt w).natAbs = 4 * F64Inj.mag w := by
    rw [Int.natAbs_mul, F64Round.natAbs_toInt]; rfl
  have hmag : (F64Inj.mag w : Int) ≤ 2 ^ 1074 := by
    have := F64Round.natAbs_toInt w
    omega
  have hrep : F64Round.Rep (4 * toInt w).natAbs := by
    rw [hab]
    obtain ⟨m, k, hm, hk⟩ := F64Round.rep_mag w
    exact ⟨m, k + 2, hm, by rw [hk, Nat.pow_add]; ring⟩
  have hlt : (4 * toInt w).natAbs < 2 ^ 2098 := by
    rw [hab]
    have : (2 : Int) ^ 1074 * 4 < 2 ^ 2098 := by norm_num
    omega
  have h4 : F64Round.val Chord.f4 = 4 := by
    have := CA.val_cast Chord.f4
    rw [CA.val_f4.2] at this
    exact_mod_cast this
  have hr := F64Round.isRound_mul CA.val_f4.1 hw
  obtain ⟨f, e⟩ := hr.exact_of_rep (4 * toInt w) hrep hlt (by
    rw [mul_assoc, F64Round.val_mul_U, h4]; push_cast; ring)
  refine ⟨f, ?_⟩
  show val (F64.mul Chord.f4 w) = 4 * val w
  unfold val
  rw [e]; push_cast; ring

/-! ### the quarter from below -/

/-- `0.25 ⊗ r` is at least `r/4` up to the underflow tolerance `tau = 2^-1020` (it is EXACT unless `r < tau`) -/
theorem quarter_ge {r : F64} (hr : Fin r) (hr0 : 0 ≤ val r) (hr4 : val r ≤ 4) :
    Fin (Chord.fQuarter * r) ∧ 0 ≤ val (Chord.fQuarter * r) ∧ val (Chord.fQuarter * r) ≤ 1 ∧
      val r / 4 - CA.tau ≤ val (Chord.fQuarter * r) := by
  have hτ := CA.tau_pos
  by_cases h3 : 3 ≤ r.expField
  · obtain ⟨f, e⟩ := CA.quarter_exact hr h3
    refine ⟨f, ?_, ?_, ?_⟩ <;> rw [e] <;> linarith
  · have hb := CA.tiny_of_expField (t := r) (by omega)
    obtain ⟨f, q0, _, qu⟩ := CA.mul_nn CA.val_quarter.1 hr (by rw [CA.val_quarter.2]; norm_num) hr0
      (by
        rw [CA.val_quarter.2]
        exact le_trans (by linarith : 1 / 4 * val r ≤ 1) CA.one_le_big)
    rw [CA.val_quarter.2] at qu
    have h1 : 1 / 4 * val r * (1 + uR) ≤ 1 / 4 * val r * 2 :=
      mul_le_mul_of_nonneg_left (by have := uR_le_one; linarith) (by linarith)
    have h2 := CA.eR_le_tau
    have h5 := CA.tau_le_quarter
    have e0 := eR_nonneg
    exact ⟨f, q0, by linarith, by linarith⟩

/-- `1 ⊖ 0.25 ⊗ r` from above: one rounding -/
theorem one_sub_upper {r : F64} (hr : Fin r) (hr0 : 0 ≤ val r) (hr4 : val r ≤ 4) :
    Fin (F64.one - Chord.fQuarter * r) ∧ 0 ≤ val (F64.one - Chord.fQuarter * r) ∧
      val (F64.one - Chord.fQuarter * r) ≤ 1 ∧
      val (F64.one - Chord.fQuarter * r) ≤ (1 - val r / 4 + CA.tau) * (1 + uR) := by
  obtain ⟨fq, q0, q1, ql⟩ := quarter_ge hr hr0 hr4
  have qw := CA.Q_one_sub hr hr0 hr4
  have fw : Fin (F64.one - Chord.fQuarter * r) := qw.1
  have w0 : 0 ≤ val (F64.one - Chord.fQuarter * r) := qw.2.1
  have w1 : val (F64.one - Chord.fQuarter * r) ≤ 1 := by
    have := le_of_round (F64Round.isRound_sub CA.val_one.1 fq) (F64Round.isRound_self CA.val_one.1) fw CA.val_one.1
      (by have := valQ_nonneg q0; linarith)
    rwa [CA.val_one.2] at this
  refine ⟨fw, w0, w1, ?_⟩
  have hlt : |val F64.one - val (Chord.fQuarter * r)| < 2 ^ 1000 := by
    rw [CA.val_one.2, abs_of_nonneg (by linarith)]
    have : (2 : ℝ) ^ 999 < 2 ^ 1000 := pow_lt_pow_right₀ (by norm_num) (by norm_num)
    exact lt_of_le_of_lt (le_trans (by linarith : 1 - val (Chord.fQuarter * r) ≤ 1) CA.one_le_big) this
  obtain ⟨δ, hδ, hv, _⟩ := sub_std F64.one (Chord.fQuarter * r) CA.val_one.1 fq hlt
  change val (F64.one - Chord.fQuarter * r) = _ at hv
  rw [CA.val_one.2] at hv
  obtain ⟨_, d2⟩ := abs_le.mp hδ
  have hu0 := uR_nonneg
  rw [hv]
  have l1 : (1 - val (Chord.fQuarter * r)) * (1 + δ) ≤ (1 - val (Chord.fQuarter * r)) * (1 + uR) :=
    mul_le_mul_of_nonneg_left (by linarith) (by linarith)
  have l2 : (1 - val (Chord.fQuarter * r)) * (1 + uR) ≤ (1 - val r / 4 + CA.tau) * (1 + uR) :=
    mul_le_mul_of_nonneg_right (by linarith) (by linarith)
  linarith

/-! ### the main branch -/

/-- the main branch of `StraightChordAngle.Sub(r)` is EXACTLY `4 · val (1 ⊖ 0.25 ⊗ r)` -/
theorem sub4_val (r : F64) (hr : Fin r) (hr0 : 0 ≤ val r) (hr4 : val r ≤ 4) :
    let x := Chord.f4 * (F64.one - Chord.fQuarter * r)
    let y := r * (F64.one - Chord.fQuarter * Chord.f4)
    let s := F64.fmax Chord.f0 (x + y - F64.two * F64.sqrt (x * y))
    Fin s ∧ val s = 4 * val (F64.one - Chord.fQuarter * r) := by
  intro x y s
  have hw0 : Fin (F64.one - Chord.fQuarter * Chord.f4) ∧ val (F64.one - Chord.fQuarter * Chord.f4) = 0 := by
    have h : Fin (F64.one - Chord.fQuarter * Chord.f4) ∧ toInt (F64.one - Chord.fQuarter * Chord.f4) = 0 := by
      decide +kernel
    exact ⟨h.1, CA.val_of_toInt h.2 (by simp)⟩
  obtain ⟨fw, w0, w1, _⟩ := one_sub_upper hr hr0 hr4
  obtain ⟨fx, vx⟩ := four_mul_exact fw w0 w1
  change Fin x at fx
  change val x = _ at vx
  have x0 : 0 ≤ val x := by rw [vx]; linarith
  have fy : Fin y ∧ val y = 0 := mul_zero_right hr hw0.1 hw0.2
  have fxy : Fin (x * y) ∧ val (x * y) = 0 := mul_zero_right fx fy.1 fy.2
  have ft : Fin (F64.two * (x * y)) ∧ val (F64.two * (x * y)) = 0 := mul_zero_right CA.val_two.1 fxy.1 fxy.2
  have f1 : Fin (x + y) ∧ val (x + y) = val x := add_zero_exact fx fy.1 fy.2
  have f2 : Fin (x + y - F64.two * (x * y)) ∧ val (x + y - F64.two * (x * y)) = val x := by
    have := sub_zero_exact f1.1 ft.1 ft.2
    exact ⟨this.1, by rw [this.2, f1.2]⟩
  have es : s = F64.fmax Chord.f0 (x + y - F64.two * (x * y)) := by
    show F64.fmax Chord.f0 (x + y - F64.two * F64.sqrt (x * y)) = _
    rw [CA.sqrt_of_zero fxy.1 fxy.2]
  obtain ⟨fs, vs⟩ := val_fmax val_f0.1 f2.1
  rw [← es, val_f0.2, f2.2, max_eq_right x0] at vs
  rw [← es] at fs
  exact ⟨fs, by rw [vs, vx]⟩

theorem tau_small : 4 * CA.tau * (1 + uR) ≤ 1 / 2 ^ 1000 := by
  have h1 : (1 + uR) ≤ 2 := by have := uR_le_one; linarith
  have h2 : 4 * CA.tau * (1 + uR) ≤ 4 * CA.tau * 2 :=
    mul_le_mul_of_nonneg_left h1 (by have := CA.tau_pos; linarith)
  have h3 : 4 * CA.tau * 2 = 1 / 2 ^ 1017 := by unfold CA.tau; norm_num
  have h4 : (1 : ℝ) / 2 ^ 1017 ≤ 1 / 2 ^ 1000 := CA.inv_pow_le (by norm_num)
  linarith

/-- UPPER bound of `StraightChordAngle.Sub(r)` for a finite `r ∈ [0,4]`: at most `4 − r` up to ONE rounding -/
theorem sub4_upper (r : F64) (hr : Fin r) (hr0 : 0 ≤ val r) (hr4 : val r ≤ 4) :
    val (Chord.sub Chord.f4 r) ≤ (4 - val r) * (1 + uR) + 1 / 2 ^ 1000 := by
  have ht : (0 : ℝ) < 1 / 2 ^ 1000 := by positivity
  have hu0 := uR_nonneg
  unfold Chord.sub
  by_cases h1 : F64.feq r Chord.f0 = true
  · rw [if_pos h1]
    have hb : val r = 0 := by rw [(feq_iff_val hr val_f0.1).mp h1, val_f0.2]
    rw [val_f4.2, hb]; linarith
  · rw [if_neg h1]
    by_cases h2 : F64.le Chord.f4 r = true
    · rw [if_pos h2]
      have h4 : 4 ≤ val r := by
        have := (le_iff_val val_f4.1 hr).mp h2
        rwa [val_f4.2] at this
      have e4 : val r = 4 := le_antisymm hr4 h4
      rw [val_f0.2, e4]; linarith
    · rw [if_neg h2]
      obtain ⟨_, vs⟩ := sub4_val r hr hr0 hr4
      obtain ⟨_, _, _, wu⟩ := one_sub_upper hr hr0 hr4
      rw [vs]
      have := tau_small
      have e : 4 * ((1 - val r / 4 + CA.tau) * (1 + uR)) = (4 - val r) * (1 + uR) + 4 * CA.tau * (1 + uR) := by ring
      linarith

/-! ### the float test `4 ⊖ r ≥ 2.0` -/

theorem val_c2 : Fin (⟨0x4000000000000000⟩ : F64) ∧ val (⟨0x4000000000000000⟩ : F64) = 2 := CA.val_two

theorem sub4_ge_two (r : F64) (hr : Fin r) (hr0 : 0 ≤ val r) (hr4 : val r ≤ 4)
    (h : F64.ge (Chord.sub Chord.f4 r) (⟨0x4000000000000000⟩ : F64) = true) : val r ≤ 2 + 1 / 2 ^ 50 := by
  obtain ⟨fs, _, _, _⟩ := sub4_spec r hr hr0 hr4
  have hu := sub4_upper r hr hr0 hr4
  have h2 : 2 ≤ val (Chord.sub Chord.f4 r) := by
    have := (le_iff_val val_c2.1 fs).mp h
    rwa [val_c2.2] at this
  have l1 : (4 - val r) * uR ≤ 4 * uR := mul_le_mul_of_nonneg_right (by linarith) uR_nonneg
  have e : (4 - val r) * (1 + uR) = (4 - val r) + (4 - val r) * uR := by ring
  have n : 4 * uR + 1 / 2 ^ 1000 ≤ 1 / 2 ^ 50 := by unfold uR; norm_num
  linarith

theorem sub4_lt_two (r : F64) (hr : Fin r) (hr0 : 0 ≤ val r) (hr4 : val r ≤ 4)
    (h : F64.ge (Chord.sub Chord.f4 r) (⟨0x4000000000000000⟩ : F64) = false) :
    2 - 1 / 2 ^ 50 ≤ val r ∧ val (Chord.sub Chord.f4 r) < 2 := by
  obtain ⟨fs, _, _, ls⟩ := sub4_spec r hr hr0 hr4
  have h2 : val (Chord.sub Chord.f4 r) < 2 := by
    by_contra hc
    have := (le_iff_val val_c2.1 fs).mpr (by rw [val_c2.2]; exact not_lt.mp hc)
    have h' : F64.le (⟨0x4000000000000000⟩ : F64) (Chord.sub Chord.f4 r) = false := h
    rw [h'] at this; cases this
  refine ⟨?_, h2⟩
  by_contra hc
  have hc := not_le.mp hc
  have hρ : 1 - 1 / 2 ^ 52 ≤ (1 - uR) ^ 2 := by unfold uR; norm_num
  have l1 : (2 + 1 / 2 ^ 50) * (1 - 1 / 2 ^ 52) ≤ (4 - val r) * (1 - uR) ^ 2 :=
    mul_le_mul (by linarith) hρ (by norm_num) (by linarith)
  have n : (2 : ℝ) + 1 / 2 ^ 1000 < (2 + 1 / 2 ^ 50) * (1 - 1 / 2 ^ 52) := by norm_num
  linarith

/-! ### non-vacuity: `r = 1.0` (main branch; `4 ⊖ 1 = 3 ≥ 2`) and `r = 3.0` (`4 ⊖ 3 = 1 < 2`) -/

example : Fin F64.one ∧ 0 ≤ val F64.one ∧ val F64.one ≤ 4 ∧
    F64.ge (Chord.sub Chord.f4 F64.one) (⟨0x4000000000000000⟩ : F64) = true := by
  refine ⟨CA.val_one.1, ?_, ?_, by decide +kernel⟩ <;> rw [CA.val_one.2] <;> norm_num

example : val F64.one ≤ 2 + 1 / 2 ^ 50 :=
  sub4_ge_two F64.one CA.val_one.1 (by rw [CA.val_one.2]; norm_num) (by rw [CA.val_one.2]; norm_num)
    (by decide +kernel)

example : 2 - 1 / 2 ^ 50 ≤ val (⟨0x4008000000000000⟩ : F64) ∧
    val (Chord.sub Chord.f4 (⟨0x4008000000000000⟩ : F64)) < 2 := by
  have h : Fin (⟨0x4008000000000000⟩ : F64) ∧ toInt (⟨0x4008000000000000⟩ : F64) = 3 * 2 ^ 1074 := by decide +kernel
  have v : val (⟨0x4008000000000000⟩ : F64) = 3 := CA.val_of_toInt h.2 (by push_cast; ring)
  exact sub4_lt_two _ h.1 (by rw [v]; norm_num) (by rw [v]; norm_num) (by decide +kernel)

end S2Proofs.C05Cap
