/-
  C05Cap.SoundF — FLOAT soundness of `Cap.intersects` / `IntersectsCell` / `ContainsCell` (model `S2.CapCell`, the
  code after repair D59), assembled from
    * the float vertex tests (`VertexF.lean`: `vertex_in`, `vertex_out`, slack `vertSlack = 2^-47`),
    * convexity (`SoundReal.lean`: `conv_out`), the exact edge analysis (`fall_through_real` ← `meets_edge`),
    * three named specifications that are THEOREMS of other files (discharged in `Properties/C05_Cap.lean`):
        `EdgeFarSpec es`  — the "edge too far" exit is sound with slack `es` (`FloatEdge.lean`),
        `Sub4Upper`       — `StraightChordAngle.Sub(r) ≤ (4 − r)(1 + u) + 2^-1000` (`Sub4.lean`),
        `CenterSpec`      — `cell.ContainsPoint(center) = false` ⇒ the centre is outside the exact cell (`CenterOut.lean`).
  The only hypothesis that is NOT discharged is the proviso `DecisionsExact` for the final `return false` of the edge
  loop (all four edges fell through): the float sign decisions that made the loop fall through are exactly right.
-/
import S2Proofs.C05Cap.SoundReal
import S2Proofs.C05Cap.SoundLoop
import S2Proofs.C05Cap.VertexF
import S2Proofs.CapF64.Complement

namespace S2Proofs.C05Cap
open S2 S2.CellM S2.CapF64 S2.CapCell S2Proofs.C12Dist S2Proofs.C16Acc S2Proofs.FloatErr S2Proofs.F64Order
open S2Proofs.CapF64 (NUnit NU eps)
open scoped S2.CapF64

/-- the standing facts about a cell (true for `cellFromCellID id`, `isValid id`: `cellOK`) -/
structure CellCtx (cell : Cell) : Prop where
  fu0 : Fin cell.uv.1.1
  fu1 : Fin cell.uv.1.2
  fv0 : Fin cell.uv.2.1
  fv1 : Fin cell.uv.2.2
  hr : (rectOf cell).OK
  hface : cell.face < 6

/-- the centre in the frame of the cell's face -/
noncomputable def fA (cell : Cell) (a : V3) : R3 := uvwR cell.face (ofV a)

/-- `γ0 = NU·2^-52 ≈ 9.03u`: how far `‖centre‖²` may be from 1 -/
noncomputable def γ0 : ℝ := NU * eps

theorem γ0_le : γ0 ≤ 10 * uR := VertexF.nu_eps_le
theorem γ0_nonneg : 0 ≤ γ0 := by unfold γ0 NU eps; positivity

theorem fA_norm2 (cell : Cell) {a : V3} (ha : NUnit a) : |(fA cell a).norm2 - 1| ≤ γ0 := by
  unfold fA; rw [uvwR_norm2]
  obtain ⟨-, h⟩ := ha
  have e : (ofV a).norm2 = S2Proofs.CapF64.nrm2 a := by unfold ofV R3.norm2 S2Proofs.CapF64.nrm2; rfl
  rw [e]; exact h

theorem fA_dist2 (cell : Cell) (a : V3) (q : R3) : dist2 (fA cell a) (uvwR cell.face q) = dist2 (ofV a) q := by
  unfold fA; exact uvwR_dist2 _ _ _

/-! ### the three imported specifications -/

/-- the "edge too far" exit (`return false` inside the loop) is sound with slack `es` -/
def EdgeFarSpec (es : ℝ) : Prop :=
  ∀ (cell : Cell), CellCtx cell → ∀ (c : Cap), NUnit c.center → Fin c.radius → 0 ≤ val c.radius → val c.radius < 2 →
    ∀ k, k < 4 → skipF c cell k = false → farF c (Chord.sin2 c.radius) cell k = true →
      ∀ q : R3, InCellXYZ cell q → val c.radius - es ≤ dist2 (ofV c.center) q

/-- upper bound of `StraightChordAngle.Sub(r)` -/
def Sub4Upper : Prop :=
  ∀ r : F64, Fin r → 0 ≤ val r → val r ≤ 4 → val (Chord.sub Chord.f4 r) ≤ (4 - val r) * (1 + uR) + 1 / 2 ^ 1000

/-- the float centre test is one-sidedly safe -/
def CenterSpec : Prop :=
  ∀ (cell : Cell), CellCtx cell → ∀ a : V3, Fin3 a → CellM.containsPoint cell a = false →
    ∀ s : ℝ, 0 < s → ¬ InCell (rectOf cell) (R3.smul s (uvwR cell.face (ofV a)))

/-! ### the proviso of the final `return false` -/

/-- the loop ran through all four edges without returning -/
def FellThrough (c : Cap) (cell : Cell) : Prop :=
  F64.ge c.radius rightChordAngle = false ∧ c.isEmpty = false ∧ CellM.containsPoint cell c.center = false ∧
    ∀ k, k < 4 → edgeStep c (Chord.sin2 c.radius) cell k = none

/-- the float sign decisions of the loop body are exactly right: `dot > 0` in floats ⇒ the centre is strictly on the inner
    side of the edge's great circle; float slab test false ⇒ the exact slab test is false.  (Exact quantities: raw edge
    normal `nrm`, unit vertices `vtx` of the real uv rectangle, centre in the face frame; all signs are invariant under
    positive scaling, so this is a statement in rational arithmetic.) -/
def DecisionsExact (c : Cap) (cell : Cell) : Prop :=
  ∀ k, k < 4 →
    (skipF c cell k = true → SkipExact (rectOf cell) (fA cell c.center) k) ∧
    (skipF c cell k = false → slabF c cell k = false → ¬ SlabExact (rectOf cell) (fA cell c.center) k)

/-! ### small float facts -/

theorem val_right : Fin rightChordAngle ∧ val rightChordAngle = 2 := by
  have h : Fin rightChordAngle ∧ S2.Exact.toInt rightChordAngle = 2 * 2 ^ 1074 := by decide +kernel
  refine ⟨h.1, ?_⟩
  unfold val; rw [h.2]; push_cast
  field_simp

theorem radius_ge_two {rad : F64} (hfin : Fin rad) (h : F64.ge rad rightChordAngle = true) : 2 ≤ val rad := by
  unfold F64.ge at h
  have := (S2Proofs.CapF64.le_iff_val val_right.1 hfin).mp h
  rwa [val_right.2] at this

theorem radius_lt_two' {rad : F64} (hfin : Fin rad) (h : F64.ge rad rightChordAngle = false) : val rad < 2 := by
  by_contra hc
  have : F64.le rightChordAngle rad = true := by
    rw [S2Proofs.CapF64.le_iff_val val_right.1 hfin, val_right.2]; exact not_lt.mp hc
  unfold F64.ge at h
  rw [this] at h
  exact Bool.noConfusion h

theorem isEmpty_true {c : Cap} (hfin : Fin c.radius) (h : c.isEmpty = true) : val c.radius < 0 := by
  rw [S2Proofs.CapF64.isEmpty_eq] at h
  have := (S2Proofs.CapF64.lt_iff_val hfin S2Proofs.CapF64.val_f0.1).mp h
  rwa [S2Proofs.CapF64.val_f0.2] at this

theorem isEmpty_false {c : Cap} (hfin : Fin c.radius) (h : c.isEmpty = false) : 0 ≤ val c.radius := by
  by_contra hc
  have : F64.lt c.radius Chord.f0 = true := by
    rw [S2Proofs.CapF64.lt_iff_val hfin S2Proofs.CapF64.val_f0.1, S2Proofs.CapF64.val_f0.2]; exact not_le.mp hc
  rw [S2Proofs.CapF64.isEmpty_eq, this] at h
  exact Bool.noConfusion h

/-! ### `Cap.intersects = false` -/

/-- CORE: `intersects c cell = false`, and no vertex is within `ρ − vs` of the centre ⇒ no cell point is within
    `ρ − (2·vs + 11·γ0 + es)` (`ρ` = the radius).  The proviso is only used when the loop fell through. -/
theorem intersects_false_core {es : ℝ} (hE : EdgeFarSpec es) (hC : CenterSpec) (hes : 0 ≤ es)
    (cell : Cell) (ctx : CellCtx cell) (c : Cap) (hc : NUnit c.center) (hfin : Fin c.radius) (hr4 : val c.radius ≤ 4)
    (vs : ℝ) (hvs : 0 ≤ vs)
    (hvout : ∀ k, k < 4 → val c.radius - vs < dist2 (fA cell c.center) (vtx (rectOf cell) k))
    (hdec : FellThrough c cell → DecisionsExact c cell)
    (h : intersects c cell = false) :
    ∀ q : R3, InCellXYZ cell q → val c.radius - (2 * vs + 11 * γ0 + es) ≤ dist2 (ofV c.center) q := by
  intro q hq
  have hγ := γ0_nonneg
  have hq' : InCell (rectOf cell) (uvwR cell.face q) := hq
  have hA := fA_norm2 cell hc
  rw [← fA_dist2 cell c.center q]
  have hd0 : 0 ≤ dist2 (fA cell c.center) (uvwR cell.face q) := by unfold dist2; exact R3.norm2_nonneg _
  rcases intersects_false h with h1 | ⟨_, h2⟩ | ⟨h1, h2, h3, h4⟩
  · -- hemisphere or larger: convexity of the complement
    have h2' := radius_ge_two hfin h1
    have := conv_out (rectOf cell) ctx.hr (fA cell c.center) (val c.radius - vs) hvout _ hq'
    have hn : (fA cell c.center).norm2 ≤ 1 + γ0 := by have := (abs_le.mp hA).2; linarith
    have hm : max 0 ((fA cell c.center).norm2 + 1 - (val c.radius - vs)) ≤ γ0 + vs :=
      max_le (by linarith) (by linarith)
    linarith
  · -- empty cap
    have := isEmpty_true hfin h2
    linarith
  · have hlt := radius_lt_two' hfin h1
    have h0 := isEmpty_false hfin h2
    rcases edgeLoop_false h4 with ⟨k, hk, hk'⟩ | hall
    · -- an edge rejected
      obtain ⟨hs, hf⟩ := edgeStep_false_tests hk'
      have := hE cell ctx c hc hfin h0 hlt k hk hs hf q hq
      rw [← fA_dist2 cell c.center q] at this
      linarith
    · -- fell through
      have hD := hdec ⟨h1, h2, h3, hall⟩
      have hγ1 : γ0 ≤ 1 / 10 := le_trans γ0_le (by unfold uR; norm_num)
      obtain ⟨hpos, -, -⟩ := norm_near_one (fA cell c.center) γ0 (by linarith) hA
      have hn : 0 < (fA cell c.center).norm := Real.sqrt_pos.mpr hpos
      have hout : ¬ InCell (rectOf cell) (unitOf (fA cell c.center)) := by
        unfold unitOf fA
        exact hC cell ctx c.center hc.1 h3 _ (by positivity)
      have hdec' : ∀ k, k < 4 → SkipExact (rectOf cell) (fA cell c.center) k ∨ ¬ SlabExact (rectOf cell) (fA cell c.center) k := by
        intro k hk
        obtain ⟨d1, d2⟩ := hD k hk
        rcases edgeStep_none (hall k hk) with hs | ⟨hs, -, hsl⟩
        · exact Or.inl (d1 hs)
        · exact Or.inr (d2 hs hsl)
      have := fall_through_real (rectOf cell) ctx.hr (fA cell c.center) γ0 hγ1 hA (val c.radius - vs) (by linarith)
        hvout hout hdec' _ hq'
      linarith

/-- slack of `IntersectsCell = false` (squared chord): `2·vertSlack + 11·γ0 + es` -/
noncomputable def slackI (es : ℝ) : ℝ := 2 * vertSlack + 11 * γ0 + es

theorem vertSlack_nonneg : 0 ≤ vertSlack := by unfold vertSlack; positivity

/-- **`IntersectsCell = false` is sound**: no point of the exact cell is within `radius − slackI` of the centre -/
theorem intersectsCell_false_sound {es : ℝ} (hE : EdgeFarSpec es) (hC : CenterSpec) (hes : 0 ≤ es)
    (cell : Cell) (ctx : CellCtx cell) (c : Cap) (hc : NUnit c.center) (hfin : Fin c.radius) (hr4 : val c.radius ≤ 4)
    (hdec : FellThrough c cell → DecisionsExact c cell)
    (h : CapCell.intersectsCell c cell = false) :
    ∀ q : R3, InCellXYZ cell q → val c.radius - slackI es ≤ dist2 (ofV c.center) q := by
  obtain ⟨hv, hi⟩ := intersectsCell_false h
  have hvout : ∀ k, k < 4 → val c.radius - vertSlack < dist2 (fA cell c.center) (vtx (rectOf cell) k) := by
    intro k hk
    exact vertex_out cell ctx.fu0 ctx.fu1 ctx.fv0 ctx.fv1 ctx.hr ctx.hface c.center hc k hk c.radius hfin (hv k hk)
  exact intersects_false_core hE hC hes cell ctx c hc hfin hr4 vertSlack vertSlack_nonneg hvout hdec hi

/-! ### `Cap.ContainsCell = true` -/

theorem dist2_neg_left (A q : R3) (hq : q.norm2 = 1) : dist2 (R3.neg A) q = 2 * A.norm2 + 2 - dist2 A q := by
  rw [dist2_unit_right _ q hq, dist2_unit_right A q hq]
  unfold R3.neg R3.norm2 R3.dot; simp only; ring

theorem fA_neg (cell : Cell) {a : V3} (ha : Fin3 a) : fA cell (a.mul Chord.fNeg1) = R3.neg (fA cell a) := by
  obtain ⟨-, ex, ey, ez⟩ := S2Proofs.CapF64.neg_center_spec a ha
  unfold fA ofV uvwR R3.neg
  rw [ex, ey, ez]
  split <;> simp

/-- slack of `ContainsCell = true` (squared chord) -/
noncomputable def slackC (es : ℝ) : ℝ := 2 * vertSlack + 17 * γ0 + 20 * uR + es

/-- every point of the sphere is within `4 + 5γ` of a nearly unit centre -/
theorem dist2_le_full (A q : R3) (γ : ℝ) (hγ1 : γ ≤ 1 / 10) (hA : |A.norm2 - 1| ≤ γ) (hq : q.norm2 = 1) :
    dist2 A q ≤ 4 + 5 * γ := by
  obtain ⟨hpos, hlo, hhi⟩ := norm_near_one A γ (by linarith) hA
  have hγ0 : 0 ≤ γ := le_trans (abs_nonneg _) hA
  rw [dist2_unit_right A q hq]
  have hc := R3.dot_le (R3.neg A) q
  have hqn : q.norm = 1 := by unfold R3.norm; rw [hq]; simp
  rw [hqn, mul_one, R3.norm_neg] at hc
  have e : R3.dot (R3.neg A) q = - R3.dot A q := by unfold R3.dot R3.neg; simp only; ring
  rw [e] at hc
  have h2 := (abs_le.mp hA).2
  nlinarith

/-- **`ContainsCell = true` is sound**: every point of the exact cell is within `radius + slackC` of the centre -/
theorem containsCell_true_sound {es : ℝ} (hE : EdgeFarSpec es) (hC : CenterSpec) (hS : Sub4Upper) (hes : 0 ≤ es)
    (cell : Cell) (ctx : CellCtx cell) (c : Cap) (hc : NUnit c.center) (hfin : Fin c.radius) (hr4 : val c.radius ≤ 4)
    (hdec : FellThrough c.complement cell → DecisionsExact c.complement cell)
    (h : CapCell.containsCell c cell = true) :
    ∀ q : R3, InCellXYZ cell q → dist2 (ofV c.center) q ≤ val c.radius + slackC es := by
  intro q hq
  obtain ⟨hv, hi⟩ := containsCell_true h
  have hγ := γ0_nonneg
  have hγ1 : γ0 ≤ 1 / 10 := le_trans γ0_le (by unfold uR; norm_num)
  have hu : (0 : ℝ) < uR := by unfold uR; positivity
  have hvs := vertSlack_nonneg
  have hq' : InCell (rectOf cell) (uvwR cell.face q) := hq
  have hA := fA_norm2 cell hc
  have hvin : ∀ k, k < 4 → dist2 (fA cell c.center) (vtx (rectOf cell) k) ≤ val c.radius + vertSlack := by
    intro k hk
    exact vertex_in cell ctx.fu0 ctx.fu1 ctx.fv0 ctx.fv1 ctx.hr ctx.hface c.center hc k hk c.radius hfin (hv k hk)
  -- the radius is non-negative: a vertex is accepted
  have hr0 : 0 ≤ val c.radius := by
    obtain ⟨fb, n, hn, hn0, -⟩ := vertex_between_raw cell ctx.fu0 ctx.fu1 ctx.fv0 ctx.fv1 ctx.hr c.center hc 0 (by norm_num)
    have h0 := hv 0 (by norm_num)
    rw [S2Proofs.CapF64.containsPoint_eq] at h0
    have hle := (S2Proofs.CapF64.le_iff_val fb hfin).mp h0
    have hb0 : 0 ≤ val (Chord.between c.center (CellM.vertex cell 0)) := by
      rw [hn]; exact le_min (by norm_num) hn0
    linarith
  rw [← fA_dist2 cell c.center q]
  rw [S2Proofs.CapF64.complement_eq] at hi hdec
  by_cases hfull : c.isFull = true
  · -- full cap: every point is within 4 + 5γ0
    rw [S2Proofs.CapF64.isFull_eq] at hfull
    have e4 : val c.radius = 4 := by
      have := (S2Proofs.CapF64.feq_iff_val hfin S2Proofs.CapF64.val_f4.1).mp hfull
      rwa [S2Proofs.CapF64.val_f4.2] at this
    have := dist2_le_full (fA cell c.center) (uvwR cell.face q) γ0 hγ1 hA hq'.1
    unfold slackC
    linarith
  · rw [if_neg hfull] at hi hdec
    have hne : c.isEmpty = false := by
      cases he : c.isEmpty
      · rfl
      · have := isEmpty_true hfin he; linarith
    rw [hne] at hi hdec
    simp only [Bool.false_eq_true, if_false] at hi hdec
    -- the complement cap
    set c' : Cap := ⟨c.center.mul Chord.fNeg1, Chord.sub Chord.f4 c.radius⟩ with hc'
    have hcn : NUnit c'.center := S2Proofs.CapF64.nunit_neg hc
    obtain ⟨fs, s0, s4, slo⟩ := S2Proofs.CapF64.sub4_spec c.radius hfin hr0 hr4
    have sup := hS c.radius hfin hr0 hr4
    have hfA : fA cell c'.center = R3.neg (fA cell c.center) := fA_neg cell hc.1
    have hn2 : (fA cell c.center).norm2 ≤ 1 + γ0 := by have := (abs_le.mp hA).2; linarith
    have hn1 : 1 - γ0 ≤ (fA cell c.center).norm2 := by have := (abs_le.mp hA).1; linarith
    have hvout : ∀ k, k < 4 → val c'.radius - (vertSlack + 2 * γ0 + 5 * uR) <
        dist2 (fA cell c'.center) (vtx (rectOf cell) k) := by
      intro k hk
      rw [hfA, dist2_neg_left _ _ (vtx_norm2 _ k)]
      have := hvin k hk
      have ht : (1 : ℝ) / 2 ^ 1000 ≤ uR := by
        unfold uR
        exact one_div_le_one_div_of_le (by positivity) (pow_le_pow_right₀ (by norm_num) (by norm_num))
      show val (Chord.sub Chord.f4 c.radius) - _ < _
      nlinarith
    have hcore := intersects_false_core hE hC hes cell ctx c' hcn fs s4 (vertSlack + 2 * γ0 + 5 * uR)
      (by linarith) hvout hdec hi q hq
    rw [← fA_dist2 cell c'.center q, hfA, dist2_neg_left _ _ hq'.1] at hcore
    have hlow : 4 - val c.radius - 9 * uR ≤ val c'.radius := by
      show _ ≤ val (Chord.sub Chord.f4 c.radius)
      have ht : (1 : ℝ) / 2 ^ 1000 ≤ uR := by
        unfold uR
        exact one_div_le_one_div_of_le (by positivity) (pow_le_pow_right₀ (by norm_num) (by norm_num))
      have h1 : (1 - uR) ^ 2 ≥ 1 - 2 * uR := by nlinarith [sq_nonneg uR]
      nlinarith
    unfold slackC
    linarith

end S2Proofs.C05Cap
