/-
  C05Cap.ExactAlg — the case analysis of `Cap.intersects` / `Cap.IntersectsCell` / `Cap.ContainsCell` is geometrically
  right IN EXACT ARITHMETIC (sub-package A of c05cap).

  (A1) `meets_edge`   : no vertex in the cap, centre outside the cell, yet cap ∩ cell ≠ ∅  ⇒  some edge `k` passes the
                        three tests of the loop (`a·n ≤ 0`, `(a·n)² ≤ sin²·|n|²`, slab test).
  (A2) `step_far`     : `a·n ≤ 0` and `(a·n)² > sin²·|n|²`  ⇒  cap ∩ cell = ∅   (the `return false` of the loop);
       `step_hit`     : the three tests hold ⇒ cap ∩ cell ≠ ∅                     (the `return true` of the loop).
  (A3) `intersectsCellR_iff` : `intersectsCellR r a ρ = true ↔ Meets r a ρ`  (ALL real ρ);
       `containsCellR_sound` : `containsCellR r a ρ = true → Inside r a ρ`    (all ρ);
       `containsCellR_complete` : `(∀ q ∈ cell, dist2 a q < ρ) → containsCellR r a ρ = true` (all ρ);
       `containsCellR_iff_small` : for `ρ ≤ 2` or `4 ≤ ρ`: `containsCellR r a ρ = true ↔ Inside r a ρ`;
       `containsCellR_gap`       : for `2 < ρ < 4` the gap between the two is real (cell touching the circle from inside in
                                   the interior of an edge is reported "not contained");  the exact iff for `2 < ρ < 4` is
                                   `containsCellR_iff_large` in `ExactContains.lean`.
  All hypotheses: `r.OK` (non-degenerate rectangle in [-1,1]²) and `a.norm2 = 1`.
-/
import S2Proofs.C05Cap.ExactEdge

namespace S2Proofs.C05Cap
open S2Proofs.C12Dist S2Proofs.C16Acc S2Proofs.C12Dist.Cover

/-- a cap that contains no vertex but meets the cell has radius `< 2` (for `ρ ≥ 2` the complement of the open… cap
    is a convex cone containing the four vertices, hence the cell) -/
theorem rho_lt_two (r : RRect) (hr : r.OK) (a : R3) (ha : a.norm2 = 1) (ρ : ℝ) (hM : Meets r a ρ)
    (hv : ∀ k, k < 4 → ρ < dist2 a (vtx r k)) : ρ < 2 := by
  by_contra hc
  have hc : 2 ≤ ρ := not_lt.1 hc
  obtain ⟨q, hq, hqd⟩ := hM
  have h := hemi_lt r hr a q hq (1 - ρ / 2) (by linarith) (fun k hk => by
    have := hv k hk
    rw [dist2_unit a _ ha (vtx_norm2 r k)] at this
    linarith)
  rw [dist2_unit a q ha hq.1] at hqd
  linarith

/-- **(A1) the key lemma.**  The cap `(a, ρ)` contains no vertex of the cell and its centre is not in the cell, yet it
    meets the cell.  Then for some edge `k` the centre is on the outer side of (or on) the edge's great circle, within the
    radius of that great circle, and the closest point of the great circle lies strictly between the two end points. -/
theorem meets_edge (r : RRect) (hr : r.OK) (a : R3) (ha : a.norm2 = 1) (ρ : ℝ) (hM : Meets r a ρ)
    (hv : ∀ k, k < 4 → ρ < dist2 a (vtx r k)) (hin : ¬ InCell r a) :
    ∃ k, k < 4 ∧ R3.dot a (nrm r k) ≤ 0 ∧ (R3.dot a (nrm r k)) ^ 2 ≤ sin2R ρ * (nrm r k).norm2 ∧
      R3.dot (R3.cross (nrm r k) a) (vtx r k) < 0 ∧ 0 < R3.dot (R3.cross (nrm r k) a) (vtx r ((k + 1) % 4)) := by
  have h2 : ρ < 2 := rho_lt_two r hr a ha ρ hM hv
  obtain ⟨q, hq, hqd⟩ := hM
  obtain ⟨hlow, -⟩ := distExact_correct r hr a ha
  have hd : distExact r a ≤ ρ := le_trans (hlow q hq) hqd
  have fin : ∀ k, k < 4 → edgeVal r a k ≤ ρ → R3.dot a (nrm r k) ≤ 0 → Slab r a k →
      ∃ k, k < 4 ∧ R3.dot a (nrm r k) ≤ 0 ∧ (R3.dot a (nrm r k)) ^ 2 ≤ sin2R ρ * (nrm r k).norm2 ∧
        R3.dot (R3.cross (nrm r k) a) (vtx r k) < 0 ∧ 0 < R3.dot (R3.cross (nrm r k) a) (vtx r ((k + 1) % 4)) :=
    fun k hk he hdot hs => ⟨k, hk, hdot, (edgeVal_le_iff r a ha k hk ρ h2.le).1 he, hs.1, hs.2⟩
  unfold distExact at hd
  by_cases hL : ExL r a
  · rw [if_pos hL] at hd
    exact fin 3 (by norm_num) hd (by rw [dot_nrm_3]; exact hL.1.le) ((slab_iff_3 r a).2 hL.2)
  rw [if_neg hL] at hd
  by_cases hR : ExR r a
  · rw [if_pos hR] at hd
    exact fin 1 (by norm_num) hd (by rw [dot_nrm_1]; linarith [hR.1]) ((slab_iff_1 r a).2 hR.2)
  rw [if_neg hR] at hd
  by_cases hB : ExB r a
  · rw [if_pos hB] at hd
    exact fin 0 (by norm_num) hd (by rw [dot_nrm_0]; exact hB.1.le) ((slab_iff_0 r a).2 hB.2)
  rw [if_neg hB] at hd
  by_cases hT : ExT r a
  · rw [if_pos hT] at hd
    exact fin 2 (by norm_num) hd (by rw [dot_nrm_2]; linarith [hT.1]) ((slab_iff_2 r a).2 hT.2)
  rw [if_neg hT] at hd
  by_cases hI : ExInside r a
  · exact absurd (inCell_of_exInside r hr a ha hI) hin
  rw [if_neg hI, ha] at hd
  exfalso
  have h0 := hv 0 (by norm_num)
  have h1 := hv 1 (by norm_num)
  have h2' := hv 2 (by norm_num)
  have h3 := hv 3 (by norm_num)
  rw [dist2_unit a _ ha (vtx_norm2 r _)] at h0 h1 h2' h3
  rw [vtx_0] at h0; rw [vtx_1] at h1; rw [vtx_2] at h2'; rw [vtx_3] at h3
  have hM : maxVertexDot r a < 1 - ρ / 2 := by
    unfold maxVertexDot
    exact max_lt (max_lt (by linarith) (by linarith)) (max_lt (by linarith) (by linarith))
  linarith

/-- a vertex with rational norm -/
theorem vhat_of_sq (x y c : ℝ) (hc : 0 < c) (h : 1 + x ^ 2 + y ^ 2 = c ^ 2) : vhat x y = ⟨x / c, y / c, 1 / c⟩ := by
  unfold vhat
  rw [h, Real.sqrt_sq hc.le]
  unfold R3.smul
  ext <;> simp only <;> ring

/-- the rectangle `[-3/4, 3/4] × [-2/3, 2/3]` (its vertices `(±9, ±8, 12)/17` are rational) -/
noncomputable def exRect : RRect := ⟨-3/4, 3/4, -2/3, 2/3⟩

theorem exRect_ok : exRect.OK := by
  unfold exRect
  exact ⟨by norm_num, by norm_num, by norm_num, by norm_num, by norm_num, by norm_num⟩

theorem exRect_vtx (k : Nat) (hk : k < 4) :
    vtx exRect k = ⟨(if k = 0 ∨ k = 3 then -9 else 9) / 17, (if k = 0 ∨ k = 1 then -8 else 8) / 17, 12 / 17⟩ := by
  obtain rfl | rfl | rfl | rfl : k = 0 ∨ k = 1 ∨ k = 2 ∨ k = 3 := by omega
  · rw [vtx_0]; unfold exRect; simp only
    rw [vhat_of_sq _ _ (17 / 12) (by norm_num) (by norm_num)]; ext <;> norm_num
  · rw [vtx_1]; unfold exRect; simp only
    rw [vhat_of_sq _ _ (17 / 12) (by norm_num) (by norm_num)]; ext <;> norm_num
  · rw [vtx_2]; unfold exRect; simp only
    rw [vhat_of_sq _ _ (17 / 12) (by norm_num) (by norm_num)]; ext <;> norm_num
  · rw [vtx_3]; unfold exRect; simp only
    rw [vhat_of_sq _ _ (17 / 12) (by norm_num) (by norm_num)]; ext <;> norm_num

/-- non-vacuity of `meets_edge`: the cell `exRect`, the centre `(1,0,0)` and `ρ = 9/10`: the cap reaches over the right
    edge (the point `(3,0,4)/5` is at squared distance `4/5`) but contains no vertex (`16/17`, `52/17`). -/
example : ∃ (r : RRect) (a : R3) (ρ : ℝ), r.OK ∧ a.norm2 = 1 ∧ Meets r a ρ ∧
    (∀ k, k < 4 → ρ < dist2 a (vtx r k)) ∧ ¬ InCell r a := by
  refine ⟨exRect, ⟨1, 0, 0⟩, 9 / 10, exRect_ok, by unfold R3.norm2; norm_num, ?_, ?_, ?_⟩
  · refine ⟨⟨3 / 5, 0, 4 / 5⟩, ?_, ?_⟩
    · unfold InCell exRect R3.norm2; norm_num
    · unfold dist2 R3.sub R3.norm2; norm_num
  · intro k hk
    rw [exRect_vtx k hk]
    obtain rfl | rfl | rfl | rfl : k = 0 ∨ k = 1 ∨ k = 2 ∨ k = 3 := by omega
    all_goals (unfold dist2 R3.sub R3.norm2; norm_num)
  · rintro ⟨-, hz, -⟩; simp at hz

/-! ### (A2) the two definite answers of one loop step -/

/-- `step_far` with the weakest hypotheses (`ρ ≤ 2` suffices, `r.OK` is not needed) -/
theorem step_far' (r : RRect) (a : R3) (ha : a.norm2 = 1) (ρ : ℝ) (h2 : ρ ≤ 2) (k : Nat) (hk : k < 4)
    (hd : R3.dot a (nrm r k) ≤ 0) (hf : sin2R ρ * (nrm r k).norm2 < (R3.dot a (nrm r k)) ^ 2) : ¬ Meets r a ρ := by
  rintro ⟨q, hq, hqd⟩
  have h := edgeVal_lower r a q hq k hk
  rw [max_eq_right hd] at h
  have h' : edgeVal r a k ≤ ρ := by linarith
  exact absurd ((edgeVal_le_iff r a ha k hk ρ h2).1 h') (not_le.2 hf)

/-- **(A2) `return false` of the loop is sound**: the centre is on the outer side of the great circle of edge `k` and
    farther from it than the cap radius ⇒ the cap does not meet the cell (the cell is on the inner side). -/
theorem step_far (r : RRect) (_hr : r.OK) (a : R3) (ha : a.norm2 = 1) (ρ : ℝ) (_h0 : 0 ≤ ρ) (h2 : ρ < 2) (k : Nat)
    (hk : k < 4) (hd : R3.dot a (nrm r k) ≤ 0) (hf : sin2R ρ * (nrm r k).norm2 < (R3.dot a (nrm r k)) ^ 2) :
    ¬ Meets r a ρ := step_far' r a ha ρ h2.le k hk hd hf

/-- **(A2) `return true` of the loop is sound**: within the radius of the great circle of edge `k` and the closest point
    of the great circle strictly between the end points ⇒ that closest point is a cell point in the cap. -/
theorem step_hit (r : RRect) (hr : r.OK) (a : R3) (ha : a.norm2 = 1) (ρ : ℝ) (_h0 : 0 ≤ ρ) (h2 : ρ < 2) (k : Nat)
    (hk : k < 4) (_hd : R3.dot a (nrm r k) ≤ 0) (hn : (R3.dot a (nrm r k)) ^ 2 ≤ sin2R ρ * (nrm r k).norm2)
    (hs : R3.dot (R3.cross (nrm r k) a) (vtx r k) < 0 ∧ 0 < R3.dot (R3.cross (nrm r k) a) (vtx r ((k + 1) % 4))) :
    Meets r a ρ := by
  obtain ⟨q, hq, e⟩ := edgeVal_attained r hr a k hk hs
  exact ⟨q, hq, by rw [e]; exact (edgeVal_le_iff r a ha k hk ρ h2.le).2 hn⟩

/-- the right edge of `exRect` seen from `(1,0,0)`: `a·n = −1`, `|n|² = 25/16`, `dir = (0, 3/4, 0)` -/
theorem exRect_edge1 : R3.dot ⟨1, 0, 0⟩ (nrm exRect 1) = -1 ∧ (nrm exRect 1).norm2 = 25 / 16 ∧
    R3.cross (nrm exRect 1) ⟨1, 0, 0⟩ = ⟨0, 3 / 4, 0⟩ := by
  rw [nrm_1]
  refine ⟨by unfold R3.dot exRect; norm_num, by unfold R3.norm2 exRect; norm_num, ?_⟩
  unfold R3.cross exRect; ext <;> norm_num

/-- non-vacuity of `step_far`: `exRect`, centre `(1,0,0)`, `ρ = 1/2`, right edge -/
example : ∃ (r : RRect) (a : R3) (ρ : ℝ) (k : Nat), r.OK ∧ a.norm2 = 1 ∧ 0 ≤ ρ ∧ ρ < 2 ∧ k < 4 ∧
    R3.dot a (nrm r k) ≤ 0 ∧ sin2R ρ * (nrm r k).norm2 < (R3.dot a (nrm r k)) ^ 2 := by
  obtain ⟨e1, e2, -⟩ := exRect_edge1
  refine ⟨exRect, ⟨1, 0, 0⟩, 1 / 2, 1, exRect_ok, by unfold R3.norm2; norm_num, by norm_num, by norm_num,
    by norm_num, ?_, ?_⟩
  · rw [e1]; norm_num
  · rw [e1, e2]; unfold sin2R; norm_num

/-- non-vacuity of `step_hit`: `exRect`, centre `(1,0,0)`, `ρ = 9/10`, right edge -/
example : ∃ (r : RRect) (a : R3) (ρ : ℝ) (k : Nat), r.OK ∧ a.norm2 = 1 ∧ 0 ≤ ρ ∧ ρ < 2 ∧ k < 4 ∧
    R3.dot a (nrm r k) ≤ 0 ∧ (R3.dot a (nrm r k)) ^ 2 ≤ sin2R ρ * (nrm r k).norm2 ∧
    R3.dot (R3.cross (nrm r k) a) (vtx r k) < 0 ∧ 0 < R3.dot (R3.cross (nrm r k) a) (vtx r ((k + 1) % 4)) := by
  obtain ⟨e1, e2, e3⟩ := exRect_edge1
  refine ⟨exRect, ⟨1, 0, 0⟩, 9 / 10, 1, exRect_ok, by unfold R3.norm2; norm_num, by norm_num, by norm_num,
    by norm_num, ?_, ?_, ?_, ?_⟩
  · rw [e1]; norm_num
  · rw [e1, e2]; unfold sin2R; norm_num
  · rw [e3, exRect_vtx 1 (by norm_num)]; unfold R3.dot; norm_num
  · rw [e3, show (1 + 1) % 4 = 2 from rfl, exRect_vtx 2 (by norm_num)]; unfold R3.dot; norm_num

/-! ### (A3) the loop and the three entry points -/

theorem stepR_retTrue_iff (r : RRect) (a : R3) (ρ : ℝ) (k : Nat) :
    stepR r a ρ k = .retTrue ↔
      R3.dot a (nrm r k) ≤ 0 ∧ (R3.dot a (nrm r k)) ^ 2 ≤ sin2R ρ * (nrm r k).norm2 ∧ Slab r a k := by
  unfold stepR Slab
  simp only
  by_cases h1 : 0 < R3.dot a (nrm r k)
  · rw [if_pos h1]; simp [not_le.2 h1]
  rw [if_neg h1]
  by_cases h2 : sin2R ρ * (nrm r k).norm2 < (R3.dot a (nrm r k)) ^ 2
  · rw [if_pos h2]; simp [not_le.2 h2]
  rw [if_neg h2]
  by_cases h3 : R3.dot (R3.cross (nrm r k) a) (vtx r k) < 0 ∧
      0 < R3.dot (R3.cross (nrm r k) a) (vtx r ((k + 1) % 4))
  · rw [if_pos h3]; simp [not_lt.1 h1, not_lt.1 h2, h3]
  · rw [if_neg h3]; simp [h3]

theorem stepR_retFalse_iff (r : RRect) (a : R3) (ρ : ℝ) (k : Nat) :
    stepR r a ρ k = .retFalse ↔
      R3.dot a (nrm r k) ≤ 0 ∧ sin2R ρ * (nrm r k).norm2 < (R3.dot a (nrm r k)) ^ 2 := by
  unfold stepR
  simp only
  by_cases h1 : 0 < R3.dot a (nrm r k)
  · rw [if_pos h1]; simp [not_le.2 h1]
  rw [if_neg h1]
  by_cases h2 : sin2R ρ * (nrm r k).norm2 < (R3.dot a (nrm r k)) ^ 2
  · rw [if_pos h2]; simp [not_lt.1 h1, h2]
  rw [if_neg h2]
  by_cases h3 : R3.dot (R3.cross (nrm r k) a) (vtx r k) < 0 ∧
      0 < R3.dot (R3.cross (nrm r k) a) (vtx r ((k + 1) % 4))
  · rw [if_pos h3]; simp [h2]
  · rw [if_neg h3]; simp [h2]

/-- the loop answers `true` only through a `return true` step -/
theorem loopR_true_exists (r : RRect) (a : R3) (ρ : ℝ) :
    ∀ n k, loopR r a ρ k n = true → ∃ j, k ≤ j ∧ j < k + n ∧ stepR r a ρ j = .retTrue := by
  intro n
  induction n with
  | zero => intro k h; simp [loopR] at h
  | succ n ih =>
    intro k h
    unfold loopR at h
    cases hs : stepR r a ρ k with
    | retTrue => exact ⟨k, le_refl _, by omega, hs⟩
    | retFalse => rw [hs] at h; simp at h
    | skip =>
      rw [hs] at h
      obtain ⟨j, h1, h2, h3⟩ := ih (k + 1) h
      exact ⟨j, by omega, by omega, h3⟩

/-- if no step of the range says `return false` and some step says `return true`, the loop answers `true` -/
theorem loopR_true_of (r : RRect) (a : R3) (ρ : ℝ) :
    ∀ n k, (∀ i, k ≤ i → i < k + n → stepR r a ρ i ≠ .retFalse) →
      (∃ j, k ≤ j ∧ j < k + n ∧ stepR r a ρ j = .retTrue) → loopR r a ρ k n = true := by
  intro n
  induction n with
  | zero => rintro k - ⟨j, h1, h2, -⟩; omega
  | succ n ih =>
    rintro k hnf ⟨j, h1, h2, h3⟩
    unfold loopR
    cases hs : stepR r a ρ k with
    | retTrue => rfl
    | retFalse => exact absurd hs (hnf k (le_refl _) (by omega))
    | skip =>
      simp only
      have hjk : j ≠ k := by rintro rfl; rw [hs] at h3; cases h3
      exact ih (k + 1) (fun i hi hi' => hnf i (by omega) (by omega)) ⟨j, by omega, by omega, h3⟩

/-- **`Cap.intersects` answering `true` is sound** (exact arithmetic): the cap meets the cell. -/
theorem intersectsR_sound (r : RRect) (hr : r.OK) (a : R3) (ha : a.norm2 = 1) (ρ : ℝ)
    (h : intersectsR r a ρ = true) : Meets r a ρ := by
  unfold intersectsR at h
  by_cases h2 : 2 ≤ ρ
  · rw [if_pos h2] at h; cases h
  rw [if_neg h2] at h
  by_cases h0 : ρ < 0
  · rw [if_pos h0] at h; cases h
  rw [if_neg h0] at h
  by_cases hin : InCell r a
  · refine ⟨a, hin, ?_⟩
    have : dist2 a a = 0 := by unfold dist2 R3.sub R3.norm2; simp
    rw [this]; exact not_lt.1 h0
  rw [if_neg hin] at h
  obtain ⟨j, -, hj, hs⟩ := loopR_true_exists r a ρ 4 0 h
  obtain ⟨hd, hn, hsl⟩ := (stepR_retTrue_iff r a ρ j).1 hs
  exact step_hit r hr a ha ρ (not_lt.1 h0) (not_le.1 h2) j (by omega) hd hn hsl

/-- the common core of the two completeness statements: `0 ≤ ρ < 2`, the cap meets the cell, and either the centre is
    in the cell or some edge passes the three tests ⇒ `Cap.intersects` answers `true`. -/
theorem intersectsR_true_of (r : RRect) (a : R3) (ha : a.norm2 = 1) (ρ : ℝ) (h0 : 0 ≤ ρ) (h2 : ρ < 2)
    (hM : Meets r a ρ)
    (he : InCell r a ∨ ∃ k, k < 4 ∧ R3.dot a (nrm r k) ≤ 0 ∧ (R3.dot a (nrm r k)) ^ 2 ≤ sin2R ρ * (nrm r k).norm2 ∧
      R3.dot (R3.cross (nrm r k) a) (vtx r k) < 0 ∧ 0 < R3.dot (R3.cross (nrm r k) a) (vtx r ((k + 1) % 4))) :
    intersectsR r a ρ = true := by
  unfold intersectsR
  rw [if_neg (not_le.2 h2), if_neg (not_lt.2 h0)]
  by_cases hin : InCell r a
  · rw [if_pos hin]
  rw [if_neg hin]
  rcases he with he | ⟨k, hk, hd, hn, hs⟩
  · exact absurd he hin
  apply loopR_true_of r a ρ 4 0
  · intro i _ hi hf
    obtain ⟨hd', hf'⟩ := (stepR_retFalse_iff r a ρ i).1 hf
    exact step_far' r a ha ρ h2.le i (by omega) hd' hf' hM
  · exact ⟨k, Nat.zero_le _, by omega, (stepR_retTrue_iff r a ρ k).2 ⟨hd, hn, hs⟩⟩

/-- **`Cap.intersects` is complete when no vertex is in the cap**: if the cap meets the cell it answers `true`. -/
theorem intersectsR_complete (r : RRect) (hr : r.OK) (a : R3) (ha : a.norm2 = 1) (ρ : ℝ) (hM : Meets r a ρ)
    (hv : ∀ k, k < 4 → ρ < dist2 a (vtx r k)) : intersectsR r a ρ = true := by
  have h2 := rho_lt_two r hr a ha ρ hM hv
  have h0 : 0 ≤ ρ := by
    obtain ⟨q, _, hqd⟩ := hM
    exact le_trans (dist2_nonneg a q) hqd
  by_cases hin : InCell r a
  · exact intersectsR_true_of r a ha ρ h0 h2 hM (Or.inl hin)
  · exact intersectsR_true_of r a ha ρ h0 h2 hM (Or.inr (meets_edge r hr a ha ρ hM hv hin))

/-- `sin2R` is monotone on `(-∞, 2]` -/
theorem sin2R_mono {x y : ℝ} (hxy : x ≤ y) (hy : y ≤ 2) : sin2R x ≤ sin2R y := by
  unfold sin2R
  nlinarith [mul_nonneg (sub_nonneg.2 hxy) (by linarith : (0 : ℝ) ≤ 1 - (x + y) / 4)]

/-- **the OPEN cap**: `0 ≤ ρ < 2`, no vertex strictly inside the cap, and some cell point strictly inside the cap
    ⇒ `Cap.intersects` answers `true`.  (This is what `ContainsCell` needs for the complement cap.) -/
theorem intersectsR_complete_open (r : RRect) (hr : r.OK) (a : R3) (ha : a.norm2 = 1) (ρ : ℝ) (h2 : ρ < 2)
    (hv : ∀ k, k < 4 → ρ ≤ dist2 a (vtx r k)) (q : R3) (hq : InCell r q) (hqd : dist2 a q < ρ) :
    intersectsR r a ρ = true := by
  have h0 : 0 ≤ ρ := le_trans (dist2_nonneg a q) hqd.le
  have hM : Meets r a ρ := ⟨q, hq, hqd.le⟩
  by_cases hin : InCell r a
  · exact intersectsR_true_of r a ha ρ h0 h2 hM (Or.inl hin)
  -- shrink the cap a little: it still meets the cell and now contains no vertex
  set ρ' := (dist2 a q + ρ) / 2 with hρ'
  have h1 : ρ' < ρ := by rw [hρ']; linarith
  have hM' : Meets r a ρ' := ⟨q, hq, by rw [hρ']; linarith⟩
  obtain ⟨k, hk, hd, hn, hs⟩ := meets_edge r hr a ha ρ' hM' (fun k hk => lt_of_lt_of_le h1 (hv k hk)) hin
  refine intersectsR_true_of r a ha ρ h0 h2 hM (Or.inr ⟨k, hk, hd, ?_, hs⟩)
  have hm := sin2R_mono h1.le h2.le
  have hN := (nrm_norm2_pos r k).le
  exact le_trans hn (mul_le_mul_of_nonneg_right hm hN)

/-- **(A3) `Cap.IntersectsCell` is exact in real arithmetic, for EVERY real `ρ`** (negative = empty cap, `ρ ≥ 2`
    included): it answers `true` iff the cap has a point in common with the cell. -/
theorem intersectsCellR_iff (r : RRect) (hr : r.OK) (a : R3) (ha : a.norm2 = 1) (ρ : ℝ) :
    intersectsCellR r a ρ = true ↔ Meets r a ρ := by
  unfold intersectsCellR
  by_cases hv : ∃ k, k < 4 ∧ dist2 a (vtx r k) ≤ ρ
  · rw [if_pos hv]
    obtain ⟨k, -, hkd⟩ := hv
    exact ⟨fun _ => ⟨vtx r k, vtx_inCell r hr k, hkd⟩, fun _ => rfl⟩
  · rw [if_neg hv]
    have hv' : ∀ k, k < 4 → ρ < dist2 a (vtx r k) := fun k hk => not_le.1 (fun h => hv ⟨k, hk, h⟩)
    exact ⟨intersectsR_sound r hr a ha ρ, fun hM => intersectsR_complete r hr a ha ρ hM hv'⟩

/-- instance of `intersectsCellR_iff`: on `exRect` with centre `(1,0,0)` the answer is `true` for `ρ = 9/10` (edge hit,
    no vertex in the cap) and `false` for `ρ = 1/2`. -/
example : intersectsCellR exRect ⟨1, 0, 0⟩ (9 / 10) = true ∧ intersectsCellR exRect ⟨1, 0, 0⟩ (1 / 2) = false := by
  have ha : (⟨1, 0, 0⟩ : R3).norm2 = 1 := by unfold R3.norm2; norm_num
  obtain ⟨e1, e2, -⟩ := exRect_edge1
  constructor
  · rw [intersectsCellR_iff exRect exRect_ok _ ha]
    refine ⟨⟨3 / 5, 0, 4 / 5⟩, ?_, ?_⟩
    · unfold InCell exRect R3.norm2; norm_num
    · unfold dist2 R3.sub R3.norm2; norm_num
  · rw [Bool.eq_false_iff, Ne, intersectsCellR_iff exRect exRect_ok _ ha]
    exact step_far exRect exRect_ok _ ha (1 / 2) (by norm_num) (by norm_num) 1 (by norm_num)
      (by rw [e1]; norm_num) (by rw [e1, e2]; unfold sin2R; norm_num)

/-! ### `Cap.ContainsCell` -/

theorem neg_norm2 (a : R3) : (R3.neg a).norm2 = a.norm2 := by unfold R3.neg R3.norm2; ring

/-- the complement cap: `|−a − q|² = 4 − |a − q|²` for unit vectors -/
theorem dist2_neg (a q : R3) (ha : a.norm2 = 1) (hq : q.norm2 = 1) : dist2 (R3.neg a) q = 4 - dist2 a q := by
  rw [dist2_eq, dist2_eq, neg_norm2, ha, hq]
  unfold R3.dot R3.neg; simp only; ring

theorem dist2_le_four (a q : R3) (ha : a.norm2 = 1) (hq : q.norm2 = 1) : dist2 a q ≤ 4 := by
  have := dist2_nonneg (R3.neg a) q
  rw [dist2_neg a q ha hq] at this
  linarith

/-- **(A3) `Cap.ContainsCell` answering `true` is sound** (exact arithmetic, every real `ρ`): the whole cell lies in the
    (closed) cap. -/
theorem containsCellR_sound (r : RRect) (hr : r.OK) (a : R3) (ha : a.norm2 = 1) (ρ : ℝ)
    (h : containsCellR r a ρ = true) : Inside r a ρ := by
  unfold containsCellR at h
  by_cases hv : ∃ k, k < 4 ∧ ρ < dist2 a (vtx r k)
  · rw [if_pos hv] at h; cases h
  rw [if_neg hv] at h
  have hv' : ∀ k, k < 4 → dist2 a (vtx r k) ≤ ρ := fun k hk => not_lt.1 (fun h => hv ⟨k, hk, h⟩)
  intro q hq
  by_cases h4 : 4 ≤ ρ
  · exact le_trans (dist2_le_four a q ha hq.1) h4
  have h4' : ρ ≠ 4 := fun e => h4 e.ge
  rw [if_neg h4'] at h
  by_cases h0 : ρ < 0
  · rw [if_pos h0] at h; cases h
  rw [if_neg h0] at h
  have hI : intersectsR r (R3.neg a) (4 - ρ) = false := by
    cases hb : intersectsR r (R3.neg a) (4 - ρ) with
    | false => rfl
    | true => rw [hb] at h; cases h
  by_cases h2 : ρ ≤ 2
  · -- the cap is at most a hemisphere: convexity
    have := hemi_ge r hr a q hq (1 - ρ / 2) (by linarith) (fun k hk => by
      have := hv' k hk
      rw [dist2_unit a _ ha (vtx_norm2 r k)] at this
      linarith)
    rw [dist2_unit a q ha hq.1]; linarith
  · -- the complement cap `(−a, 4 − ρ)` has radius in `(0, 2)`, no vertex strictly inside, and `intersects` says no
    by_contra hc
    have hc : ρ < dist2 a q := not_le.1 hc
    have := intersectsR_complete_open r hr (R3.neg a) (by rw [neg_norm2]; exact ha) (4 - ρ) (by linarith)
      (fun k hk => by rw [dist2_neg a _ ha (vtx_norm2 r k)]; linarith [hv' k hk]) q hq
      (by rw [dist2_neg a q ha hq.1]; linarith)
    rw [hI] at this; cases this

/-- **(A3) `Cap.ContainsCell` is complete for the OPEN cap** (every real `ρ`): if every cell point is strictly inside the
    cap the answer is `true`.  (The code tests the CLOSED complement cap, so a cell that touches the boundary circle from
    inside at a non-vertex point is reported "not contained"; between `Inside` and "strictly inside" the answer depends on
    where the cell touches the circle.) -/
theorem containsCellR_complete (r : RRect) (hr : r.OK) (a : R3) (ha : a.norm2 = 1) (ρ : ℝ)
    (hin : ∀ q, InCell r q → dist2 a q < ρ) : containsCellR r a ρ = true := by
  unfold containsCellR
  have hv : ¬ ∃ k, k < 4 ∧ ρ < dist2 a (vtx r k) := by
    rintro ⟨k, -, hk⟩
    exact absurd (hin _ (vtx_inCell r hr k)) (not_lt.2 hk.le)
  rw [if_neg hv]
  by_cases h4 : ρ = 4
  · rw [if_pos h4]
  rw [if_neg h4]
  have h0 : ¬ ρ < 0 := by
    intro h0
    have := hin _ (vtx_inCell r hr 0)
    linarith [dist2_nonneg a (vtx r 0)]
  rw [if_neg h0]
  cases hb : intersectsR r (R3.neg a) (4 - ρ) with
  | false => rfl
  | true =>
    exfalso
    obtain ⟨q, hq, hqd⟩ := intersectsR_sound r hr (R3.neg a) (by rw [neg_norm2]; exact ha) (4 - ρ) hb
    rw [dist2_neg a q ha hq.1] at hqd
    linarith [hin q hq]

/-- instance of `containsCellR_complete` / `containsCellR_sound`: every point of `exRect` has `z ≥ 12/17`, so the cell is
    strictly inside the cap with centre `(0,0,1)` and `ρ = 1` (`dist² = 2 − 2z ≤ 10/17`), and `ContainsCell` says `true`. -/
example : containsCellR exRect ⟨0, 0, 1⟩ 1 = true ∧ Inside exRect ⟨0, 0, 1⟩ 1 := by
  have ha : (⟨0, 0, 1⟩ : R3).norm2 = 1 := by unfold R3.norm2; norm_num
  have h : containsCellR exRect ⟨0, 0, 1⟩ 1 = true := by
    apply containsCellR_complete exRect exRect_ok _ ha
    intro q hq
    have hd : R3.dot ⟨0, 0, 1⟩ q = q.z := by unfold R3.dot; simp
    rw [dist2_unit _ q ha hq.1, hd]
    obtain ⟨hn, hz, h1, h2, h3, h4⟩ := hq
    unfold exRect at h1 h2 h3 h4; simp only at h1 h2 h3 h4
    unfold R3.norm2 at hn
    -- x² ≤ (9/16) z², y² ≤ (4/9) z²  ⇒  1 ≤ (289/144) z²
    have hx : q.x ^ 2 ≤ (3 / 4 * q.z) ^ 2 := by
      apply sq_le_sq'
      · linarith
      · linarith
    have hy : q.y ^ 2 ≤ (2 / 3 * q.z) ^ 2 := by
      apply sq_le_sq'
      · linarith
      · linarith
    nlinarith
  exact ⟨h, containsCellR_sound exRect exRect_ok _ ha 1 h⟩

/-- **`Cap.ContainsCell` is exact for caps up to a hemisphere and for (over)full caps**: for `ρ ≤ 2` or `4 ≤ ρ` it answers
    `true` iff the cell lies in the closed cap.  (For `ρ ≤ 2` the complement cap has radius `≥ 2` and `intersects` gives up
    with `false`: the four vertex tests decide, which is right by convexity.) -/
theorem containsCellR_iff_small (r : RRect) (hr : r.OK) (a : R3) (ha : a.norm2 = 1) (ρ : ℝ) (hρ : ρ ≤ 2 ∨ 4 ≤ ρ) :
    containsCellR r a ρ = true ↔ Inside r a ρ := by
  refine ⟨containsCellR_sound r hr a ha ρ, fun hI => ?_⟩
  unfold containsCellR
  have hv : ¬ ∃ k, k < 4 ∧ ρ < dist2 a (vtx r k) := by
    rintro ⟨k, -, hk⟩
    exact absurd (hI _ (vtx_inCell r hr k)) (not_le.2 hk)
  rw [if_neg hv]
  by_cases h4 : ρ = 4
  · rw [if_pos h4]
  rw [if_neg h4]
  have h0 : ¬ ρ < 0 := by
    intro h0
    have := hI _ (vtx_inCell r hr 0)
    linarith [dist2_nonneg a (vtx r 0)]
  rw [if_neg h0]
  unfold intersectsR
  rcases hρ with h | h
  · rw [if_pos (by linarith)]; rfl
  · have h4' : 4 < ρ := lt_of_le_of_ne h (Ne.symm h4)
    rw [if_neg (by linarith), if_pos (by linarith)]; rfl

/-- **the gap between `containsCellR_sound` and `containsCellR_complete` is real**: on `exRect` with centre `(−1,0,0)` and
    `ρ = 16/5` the cell lies in the closed cap (every cell point has `x ≤ 3/5`), it touches the boundary circle from inside
    at the point `(3,0,4)/5` of the right edge, and `ContainsCell` (exact arithmetic) answers `false`: the code tests the
    CLOSED complement cap `((1,0,0), 4/5)`. -/
theorem containsCellR_gap : Inside exRect ⟨-1, 0, 0⟩ (16 / 5) ∧ containsCellR exRect ⟨-1, 0, 0⟩ (16 / 5) = false := by
  have ha : (⟨-1, 0, 0⟩ : R3).norm2 = 1 := by unfold R3.norm2; norm_num
  have hb : (⟨1, 0, 0⟩ : R3).norm2 = 1 := by unfold R3.norm2; norm_num
  have hneg : R3.neg ⟨-1, 0, 0⟩ = ⟨1, 0, 0⟩ := by unfold R3.neg; ext <;> simp
  have hI : Inside exRect ⟨-1, 0, 0⟩ (16 / 5) := by
    intro q hq
    have hd : R3.dot ⟨-1, 0, 0⟩ q = -q.x := by unfold R3.dot; simp
    rw [dist2_unit _ q ha hq.1, hd]
    obtain ⟨hn, hz, h1, h2, h3, h4⟩ := hq
    unfold exRect at h1 h2 h3 h4; simp only at h1 h2 h3 h4
    unfold R3.norm2 at hn
    -- x ≤ (3/4) z and x² + z² ≤ 1  ⇒  x ≤ 3/5
    by_contra hc
    have hc : 3 / 5 < q.x := by linarith [not_le.1 hc]
    have hz' : 4 / 5 < q.z := by linarith
    nlinarith [sq_nonneg q.y]
  refine ⟨hI, ?_⟩
  unfold containsCellR
  have hv : ¬ ∃ k, k < 4 ∧ (16 / 5 : ℝ) < dist2 ⟨-1, 0, 0⟩ (vtx exRect k) := by
    rintro ⟨k, -, hk⟩
    exact absurd (hI _ (vtx_inCell exRect exRect_ok k)) (not_le.2 hk)
  rw [if_neg hv, if_neg (by norm_num), if_neg (by norm_num), hneg]
  obtain ⟨e1, e2, e3⟩ := exRect_edge1
  have hM : Meets exRect ⟨1, 0, 0⟩ (4 - 16 / 5) := by
    refine ⟨⟨3 / 5, 0, 4 / 5⟩, ?_, ?_⟩
    · unfold InCell exRect R3.norm2; norm_num
    · unfold dist2 R3.sub R3.norm2; norm_num
  have := intersectsR_true_of exRect ⟨1, 0, 0⟩ hb (4 - 16 / 5) (by norm_num) (by norm_num) hM
    (Or.inr ⟨1, by norm_num, by rw [e1]; norm_num, by rw [e1, e2]; unfold sin2R; norm_num,
      by rw [e3, exRect_vtx 1 (by norm_num)]; unfold R3.dot; norm_num,
      by rw [e3, show (1 + 1) % 4 = 2 from rfl, exRect_vtx 2 (by norm_num)]; unfold R3.dot; norm_num⟩)
  rw [this]; rfl

end S2Proofs.C05Cap
