/-
  C05Cap.InstancesClear — the general-position hypothesis `CenterClear` is satisfiable on an input that reaches the final
  `return false` of the edge loop: the cap `capFT` (centre `Normalize(−1,3,3)`, squared chord 1/8) and the face cell 3.
-/
import S2Proofs.C05Cap.Instances
import S2Proofs.C05Cap.SoundClear

namespace S2Proofs.C05Cap
open S2 S2.CellM S2Proofs.C12Dist S2Proofs.C16Acc

theorem capFT_clear : CenterClear capFT cellD59 := by
  rw [Counter.cell_eq]
  intro k hk
  rw [Counter.rect_eq, Instances.fA_eq]
  have hnorm : ∀ j, j < 4 → (nrm Counter.RD j).norm2 = 2 := by
    intro j hj
    obtain rfl | rfl | rfl | rfl : j = 0 ∨ j = 1 ∨ j = 2 ∨ j = 3 := by omega
    · rw [norm2_nrm_0]; simp only [Counter.RD]; norm_num
    · rw [norm2_nrm_1]; simp only [Counter.RD]; norm_num
    · rw [norm2_nrm_2]; simp only [Counter.RD]; norm_num
    · rw [norm2_nrm_3]; simp only [Counter.RD]; norm_num
  have hn2 := hnorm k hk
  have hpos : 0 < (nrm Counter.RD k).norm := Real.sqrt_pos.mpr (by rw [hn2]; norm_num)
  have hle : (nrm Counter.RD k).norm ≤ 2 := by
    apply R3.norm_le_of_sq (by norm_num)
    rw [hn2]; norm_num
  rw [le_div_iff₀ hpos]
  have hbig : (1 : ℝ) / 4 ≤ |R3.dot Instances.AFT (nrm Counter.RD k)| := by
    obtain rfl | rfl | rfl | rfl : k = 0 ∨ k = 1 ∨ k = 2 ∨ k = 3 := by omega
    · rw [dot_nrm_0]; unfold sB; simp only [Instances.AFT, Counter.RD]; rw [le_abs]; right; norm_num
    · rw [dot_nrm_1]; unfold sR; simp only [Instances.AFT, Counter.RD]; rw [le_abs]; left; norm_num
    · rw [dot_nrm_2]; unfold sT; simp only [Instances.AFT, Counter.RD]; rw [le_abs]; left; norm_num
    · rw [dot_nrm_3]; unfold sL; simp only [Instances.AFT, Counter.RD]; rw [le_abs]; right; norm_num
  have h50 : (1 : ℝ) / 2 ^ 50 * (nrm Counter.RD k).norm ≤ 1 / 4 := by
    have : (1 : ℝ) / 2 ^ 50 * (nrm Counter.RD k).norm ≤ 1 / 2 ^ 50 * 2 :=
      mul_le_mul_of_nonneg_left hle (by positivity)
    have e : (1 : ℝ) / 2 ^ 50 * 2 ≤ 1 / 4 := by norm_num
    linarith
  linarith

/-- the instance of the general-position theorems: valid cell, contract of the cap, the loop falls through, the centre is in
    general position, `IntersectsCell = false` -/
theorem capFT_clear_instance : CellID.isValid 0x7000000000000000 = true ∧ S2Proofs.CapF64.nunitB capFT.center = true ∧
    S2Proofs.F64Order.Fin capFT.radius ∧ S2Proofs.FloatErr.val capFT.radius ≤ 4 ∧ FellThrough capFT cellD59 ∧
    CenterClear capFT cellD59 ∧ CapCell.intersectsCell capFT cellD59 = false :=
  ⟨capFT_instance.1, capFT_instance.2.1, capFT_instance.2.2.1, capFT_instance.2.2.2.1, capFT_instance.2.2.2.2.1,
   capFT_clear, capFT_instance.2.2.2.2.2.2⟩

end S2Proofs.C05Cap
