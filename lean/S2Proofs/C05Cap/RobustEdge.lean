/-
  C05Cap.RobustEdge — quantitative strengthening of `meets_edge` (sub-package F of c05cap, round 3).

  `robust_edge`: if the cap `(a, ρ1)` meets the cell, the centre is outside the cell and every vertex is at squared
  distance `≥ ρ1 + Δ` (`Δ > 0`), then for some edge `k` with `a·N_k ≤ 0` the two slab quantities
  `T0 = (N_k × a)·V_k < 0 < T1 = (N_k × a)·V_{k+1}` are not only of the right sign but LARGE:
  `T0², T1² ≥ |N_k|²·(1 − ρ1/2)·(Δ/2)`.

  Ingredients (all exact, polynomial):
    * `slab_identity` : `|N|²(a·V)² + ((N×a)·V)² = |N|² − (a·N)²` for unit `a`, `V` with `N·V = 0`;
    * `foot_between`  : for `P`, `Q` with `P·Q ≥ 0`, `P×Q ≠ 0`: `((P×Q)×a)·P < 0 < ((P×Q)×a)·Q  ⇒  a·P > 0 ∧ a·Q > 0`
                        (the foot of `a` on the great circle through `P`, `Q` lies on the short arc `PQ`, which is at most a
                        quarter circle);
    * `robust_core`   : the two combined.
-/
import S2Proofs.C05Cap.ExactAlg
import Mathlib.Tactic.LinearCombination

namespace S2Proofs.C05Cap
open S2Proofs.C12Dist S2Proofs.C16Acc S2Proofs.C12Dist.Cover

/-! ### generic vector lemmas -/

/-- Pythagoras in the orthonormal frame `V, N̂ × V, N̂`, denominators cleared -/
theorem slab_identity (N a V : R3) (ha : a.norm2 = 1) (hV : V.norm2 = 1) (hNV : R3.dot N V = 0) :
    N.norm2 * (R3.dot a V) ^ 2 + (R3.dot (R3.cross N a) V) ^ 2 = N.norm2 - (R3.dot a N) ^ 2 := by
  obtain ⟨n1, n2, n3⟩ := N
  obtain ⟨a1, a2, a3⟩ := a
  obtain ⟨v1, v2, v3⟩ := V
  simp only [R3.norm2, R3.dot, R3.cross] at *
  linear_combination ((n1 ^ 2 + n2 ^ 2 + n3 ^ 2) * (v1 ^ 2 + v2 ^ 2 + v3 ^ 2)) * ha +
    ((n1 ^ 2 + n2 ^ 2 + n3 ^ 2) - (a1 * n1 + a2 * n2 + a3 * n3) ^ 2) * hV -
    ((a1 ^ 2 + a2 ^ 2 + a3 ^ 2) * (n1 * v1 + n2 * v2 + n3 * v3) -
      2 * (a1 * n1 + a2 * n2 + a3 * n3) * (a1 * v1 + a2 * v2 + a3 * v3)) * hNV

/-- the foot of `a` on the great circle through `P`, `Q` lies strictly inside the arc from `P` to `Q` (in the direction
    given by `P × Q`) and the arc is at most a quarter circle ⇒ `a` makes an acute angle with both end points -/
theorem foot_between (P Q a : R3) (hc : 0 ≤ R3.dot P Q) (hM : 0 < (R3.cross P Q).norm2)
    (h0 : R3.dot (R3.cross (R3.cross P Q) a) P < 0) (h1 : 0 < R3.dot (R3.cross (R3.cross P Q) a) Q) :
    0 < R3.dot a P ∧ 0 < R3.dot a Q := by
  have e0 : R3.dot (R3.cross (R3.cross P Q) a) P = R3.dot P Q * R3.dot a P - P.norm2 * R3.dot a Q := by
    unfold R3.dot R3.cross R3.norm2; simp only; ring
  have e1 : R3.dot (R3.cross (R3.cross P Q) a) Q = Q.norm2 * R3.dot a P - R3.dot P Q * R3.dot a Q := by
    unfold R3.dot R3.cross R3.norm2; simp only; ring
  rw [e0] at h0
  rw [e1] at h1
  rw [R3.lagrange] at hM
  have hP0 := R3.norm2_nonneg P
  have hQ0 := R3.norm2_nonneg Q
  have hPQ : 0 < P.norm2 * Q.norm2 := by nlinarith [sq_nonneg (R3.dot P Q)]
  have hP : 0 < P.norm2 := by
    rcases lt_or_eq_of_le hP0 with h | h
    · exact h
    · rw [← h] at hPQ; simp at hPQ
  have hQ : 0 < Q.norm2 := by
    rcases lt_or_eq_of_le hQ0 with h | h
    · exact h
    · rw [← h] at hPQ; simp at hPQ
  set c := R3.dot P Q
  set x := R3.dot a P
  set y := R3.dot a Q
  -- h0 : c x < |P|² y,  h1 : c y < |Q|² x
  constructor
  · have a1 : P.norm2 * (c * y) < P.norm2 * (Q.norm2 * x) := mul_lt_mul_of_pos_left (by linarith) hP
    have a2 : c * (c * x) ≤ c * (P.norm2 * y) := mul_le_mul_of_nonneg_left (by linarith) hc
    have a3 : 0 < (P.norm2 * Q.norm2 - c ^ 2) * x := by nlinarith
    exact (mul_pos_iff_of_pos_left hM).1 a3
  · have a1 : Q.norm2 * (c * x) < Q.norm2 * (P.norm2 * y) := mul_lt_mul_of_pos_left (by linarith) hQ
    have a2 : c * (c * y) ≤ c * (Q.norm2 * x) := mul_le_mul_of_nonneg_left (by linarith) hc
    have a3 : 0 < (P.norm2 * Q.norm2 - c ^ 2) * y := by nlinarith
    exact (mul_pos_iff_of_pos_left hM).1 a3

/-- the quantitative core: unit `a`, `V`, `V` on the great circle of `N`, `a` within `s = cos` of the circle,
    `0 ≤ a·V ≤ s − Δ/2`  ⇒  `((N × a)·V)² ≥ |N|²·s·Δ/2` -/
theorem robust_core (N a V : R3) (ha : a.norm2 = 1) (hV : V.norm2 = 1) (hNV : R3.dot N V = 0) (s Δ : ℝ)
    (hs : 0 ≤ s) (hΔ : 0 ≤ Δ) (hn : (R3.dot a N) ^ 2 ≤ (1 - s ^ 2) * N.norm2) (hx0 : 0 ≤ R3.dot a V)
    (hx1 : R3.dot a V ≤ s - Δ / 2) :
    N.norm2 * (s * (Δ / 2)) ≤ (R3.dot (R3.cross N a) V) ^ 2 := by
  have hid := slab_identity N a V ha hV hNV
  have hN := R3.norm2_nonneg N
  set x := R3.dot a V
  have h1 : s * (Δ / 2) ≤ (s + x) * (s - x) :=
    mul_le_mul (by linarith) (by linarith) (by linarith) (by linarith)
  have h2 : N.norm2 * (s * (Δ / 2)) ≤ N.norm2 * ((s + x) * (s - x)) := mul_le_mul_of_nonneg_left h1 hN
  nlinarith

/-! ### the raw (unnormalised) vertices `(u, v, 1)` -/

/-- raw vertex `k`: `vtx r k` is its unit vector -/
def rawv (r : RRect) : Nat → R3
  | 0 => ⟨r.u0, r.v0, 1⟩
  | 1 => ⟨r.u1, r.v0, 1⟩
  | 2 => ⟨r.u1, r.v1, 1⟩
  | _ => ⟨r.u0, r.v1, 1⟩

/-- length of edge `k` in the uv plane -/
def elen (r : RRect) : Nat → ℝ
  | 0 => r.u1 - r.u0
  | 1 => r.v1 - r.v0
  | 2 => r.u1 - r.u0
  | _ => r.v1 - r.v0

theorem vtx_eq_rawv (r : RRect) (k : Nat) (hk : k < 4) : vtx r k = vhat (rawv r k).x (rawv r k).y := by
  obtain rfl | rfl | rfl | rfl : k = 0 ∨ k = 1 ∨ k = 2 ∨ k = 3 := by omega
  all_goals rfl

theorem rawv_z (r : RRect) (k : Nat) : (rawv r k).z = 1 := by
  unfold rawv; split <;> rfl

theorem dot_rawv (r : RRect) (t : R3) (k : Nat) :
    R3.dot t (rawv r k) = t.x * (rawv r k).x + t.y * (rawv r k).y + t.z := by
  unfold R3.dot; rw [rawv_z]; ring

theorem dot_vtx_pos (r : RRect) (t : R3) (k : Nat) (hk : k < 4) :
    0 < R3.dot t (vtx r k) ↔ 0 < R3.dot t (rawv r k) := by
  rw [vtx_eq_rawv r k hk, dot_vhat_pos, dot_rawv]

theorem dot_vtx_neg (r : RRect) (t : R3) (k : Nat) (hk : k < 4) :
    R3.dot t (vtx r k) < 0 ↔ R3.dot t (rawv r k) < 0 := by
  rw [vtx_eq_rawv r k hk, dot_vhat_neg, dot_rawv]

theorem dot_vtx_zero (r : RRect) (t : R3) (k : Nat) (hk : k < 4) (h : R3.dot t (rawv r k) = 0) :
    R3.dot t (vtx r k) = 0 := by
  rw [dot_rawv, dot_raw] at h
  rw [vtx_eq_rawv r k hk]
  rcases mul_eq_zero.1 h with h' | h'
  · exact absurd h' (sqrt_nn_pos _ _).ne'
  · exact h'

theorem elen_pos (r : RRect) (hr : r.OK) (k : Nat) : 0 < elen r k := by
  have := hr.u_lt
  have := hr.v_lt
  unfold elen; split <;> linarith

/-- the inward normal of edge `k` is `V_k × V_{k+1}` up to the positive factor `elen` (raw vertices) -/
theorem cross_rawv (r : RRect) (k : Nat) (hk : k < 4) :
    R3.cross (rawv r k) (rawv r ((k + 1) % 4)) = R3.smul (elen r k) (nrm r k) := by
  obtain rfl | rfl | rfl | rfl : k = 0 ∨ k = 1 ∨ k = 2 ∨ k = 3 := by omega
  all_goals (simp only [rawv, elen, nrm, R3.cross, R3.smul]; ext <;> simp only <;> ring)

/-- the end points of an edge make an angle of at most 90° (the rectangle is in `[-1,1]²`) -/
theorem dot_rawv_nonneg (r : RRect) (hr : r.OK) (k : Nat) (hk : k < 4) :
    0 ≤ R3.dot (rawv r k) (rawv r ((k + 1) % 4)) := by
  obtain ⟨h1, h2, h3, h4, h5, h6⟩ := hr
  have hu : 0 ≤ r.u0 * r.u1 + 1 := by nlinarith
  have hv : 0 ≤ r.v0 * r.v1 + 1 := by nlinarith
  obtain rfl | rfl | rfl | rfl : k = 0 ∨ k = 1 ∨ k = 2 ∨ k = 3 := by omega
  all_goals (simp only [rawv, R3.dot]; nlinarith [sq_nonneg r.u0, sq_nonneg r.u1, sq_nonneg r.v0, sq_nonneg r.v1])

/-- both end vertices of edge `k` lie on its great circle -/
theorem nrm_dot_rawv (r : RRect) (k : Nat) (hk : k < 4) :
    R3.dot (nrm r k) (rawv r k) = 0 ∧ R3.dot (nrm r k) (rawv r ((k + 1) % 4)) = 0 := by
  obtain rfl | rfl | rfl | rfl : k = 0 ∨ k = 1 ∨ k = 2 ∨ k = 3 := by omega
  all_goals (simp only [rawv, nrm, R3.dot]; constructor <;> ring)

theorem nrm_dot_vtx (r : RRect) (k : Nat) (hk : k < 4) :
    R3.dot (nrm r k) (vtx r k) = 0 ∧ R3.dot (nrm r k) (vtx r ((k + 1) % 4)) = 0 :=
  ⟨dot_vtx_zero r _ k hk (nrm_dot_rawv r k hk).1,
   dot_vtx_zero r _ _ (Nat.mod_lt _ (by norm_num)) (nrm_dot_rawv r k hk).2⟩

/-- **strict slab ⇒ the centre makes an acute angle with both end vertices of the edge** -/
theorem slab_dot_pos (r : RRect) (hr : r.OK) (a : R3) (k : Nat) (hk : k < 4) (hs : Slab r a k) :
    0 < R3.dot a (vtx r k) ∧ 0 < R3.dot a (vtx r ((k + 1) % 4)) := by
  have hk1 : (k + 1) % 4 < 4 := Nat.mod_lt _ (by norm_num)
  obtain ⟨h0, h1⟩ := hs
  rw [dot_vtx_neg r _ k hk] at h0
  rw [dot_vtx_pos r _ _ hk1] at h1
  have hl := elen_pos r hr k
  have hc := cross_rawv r k hk
  have hsm : ∀ W : R3, R3.dot (R3.cross (R3.smul (elen r k) (nrm r k)) a) W =
      elen r k * R3.dot (R3.cross (nrm r k) a) W := by
    intro W; unfold R3.dot R3.cross R3.smul; simp only; ring
  have hM : 0 < (R3.cross (rawv r k) (rawv r ((k + 1) % 4))).norm2 := by
    rw [hc]
    have : (R3.smul (elen r k) (nrm r k)).norm2 = elen r k ^ 2 * (nrm r k).norm2 := by
      unfold R3.smul R3.norm2; simp only; ring
    rw [this]
    exact mul_pos (pow_pos hl 2) (nrm_norm2_pos r k)
  have := foot_between (rawv r k) (rawv r ((k + 1) % 4)) a (dot_rawv_nonneg r hr k hk) hM
    (by rw [hc, hsm]; exact mul_neg_of_pos_of_neg hl h0) (by rw [hc, hsm]; exact mul_pos hl h1)
  rw [dot_vtx_pos r _ k hk, dot_vtx_pos r _ _ hk1]
  exact this

/-! ### the robust edge lemma -/

/-- `robust_edge` with the remaining facts about the chosen edge: the radius test of the loop and the acute angles
    `0 < a·V_k`, `0 < a·V_{k+1}`. -/
theorem robust_edge_full (r : RRect) (hr : r.OK) (a : R3) (ha : a.norm2 = 1) (ρ1 Δ : ℝ) (hΔ : 0 < Δ)
    (hM : Meets r a ρ1) (hv : ∀ k, k < 4 → ρ1 + Δ ≤ dist2 a (vtx r k)) (hin : ¬ InCell r a) :
    ∃ k, k < 4 ∧ R3.dot a (nrm r k) ≤ 0 ∧ (R3.dot a (nrm r k)) ^ 2 ≤ sin2R ρ1 * (nrm r k).norm2 ∧
      0 < R3.dot a (vtx r k) ∧ 0 < R3.dot a (vtx r ((k + 1) % 4)) ∧
      R3.dot (R3.cross (nrm r k) a) (vtx r k) < 0 ∧ 0 < R3.dot (R3.cross (nrm r k) a) (vtx r ((k + 1) % 4)) ∧
      (nrm r k).norm2 * ((1 - ρ1 / 2) * (Δ / 2)) ≤ (R3.dot (R3.cross (nrm r k) a) (vtx r k)) ^ 2 ∧
      (nrm r k).norm2 * ((1 - ρ1 / 2) * (Δ / 2)) ≤ (R3.dot (R3.cross (nrm r k) a) (vtx r ((k + 1) % 4))) ^ 2 := by
  have hv' : ∀ k, k < 4 → ρ1 < dist2 a (vtx r k) := fun k hk => by linarith [hv k hk]
  have h2 : ρ1 < 2 := rho_lt_two r hr a ha ρ1 hM hv'
  obtain ⟨k, hk, hd, hn, hs0, hs1⟩ := meets_edge r hr a ha ρ1 hM hv' hin
  have hk1 : (k + 1) % 4 < 4 := Nat.mod_lt _ (by norm_num)
  obtain ⟨hx0, hx1⟩ := slab_dot_pos r hr a k hk ⟨hs0, hs1⟩
  obtain ⟨hz0, hz1⟩ := nrm_dot_vtx r k hk
  have hn' : (R3.dot a (nrm r k)) ^ 2 ≤ (1 - (1 - ρ1 / 2) ^ 2) * (nrm r k).norm2 := by
    have : sin2R ρ1 = 1 - (1 - ρ1 / 2) ^ 2 := by unfold sin2R; ring
    rw [← this]; exact hn
  have hd0 := hv k hk
  have hd1 := hv _ hk1
  rw [dist2_unit a _ ha (vtx_norm2 r _)] at hd0 hd1
  refine ⟨k, hk, hd, hn, hx0, hx1, hs0, hs1, ?_, ?_⟩
  · exact robust_core (nrm r k) a (vtx r k) ha (vtx_norm2 r k) hz0 (1 - ρ1 / 2) Δ (by linarith) hΔ.le hn' hx0.le
      (by linarith)
  · exact robust_core (nrm r k) a (vtx r ((k + 1) % 4)) ha (vtx_norm2 r _) hz1 (1 - ρ1 / 2) Δ (by linarith) hΔ.le hn'
      hx1.le (by linarith)

/-- **robust form of `meets_edge`.**  The cap `(a, ρ1)` meets the cell, the centre is outside the cell and every vertex
    is at squared distance at least `ρ1 + Δ`.  Then for some edge `k` with the centre on the outer side of its great circle
    both slab quantities have the right sign and are at least `|N_k|·√((1 − ρ1/2)·Δ/2)` in size. -/
theorem robust_edge (r : RRect) (hr : r.OK) (a : R3) (ha : a.norm2 = 1) (ρ1 Δ : ℝ) (hΔ : 0 < Δ)
    (hM : Meets r a ρ1) (hv : ∀ k, k < 4 → ρ1 + Δ ≤ dist2 a (vtx r k)) (hin : ¬ InCell r a) :
    ∃ k, k < 4 ∧ R3.dot a (nrm r k) ≤ 0 ∧
      R3.dot (R3.cross (nrm r k) a) (vtx r k) < 0 ∧ 0 < R3.dot (R3.cross (nrm r k) a) (vtx r ((k + 1) % 4)) ∧
      (nrm r k).norm2 * ((1 - ρ1 / 2) * (Δ / 2)) ≤ (R3.dot (R3.cross (nrm r k) a) (vtx r k)) ^ 2 ∧
      (nrm r k).norm2 * ((1 - ρ1 / 2) * (Δ / 2)) ≤ (R3.dot (R3.cross (nrm r k) a) (vtx r ((k + 1) % 4))) ^ 2 := by
  obtain ⟨k, hk, hd, -, -, -, hs0, hs1, hb0, hb1⟩ := robust_edge_full r hr a ha ρ1 Δ hΔ hM hv hin
  exact ⟨k, hk, hd, hs0, hs1, hb0, hb1⟩

/-- non-vacuity of `robust_edge`: `exRect`, centre `(1,0,0)`, `ρ1 = 9/10`, `Δ = 1/34` (the nearest vertices are at squared
    distance `16/17 ≥ 9/10 + 1/34`; the point `(3,0,4)/5` of the right edge is at squared distance `4/5`). -/
example : ∃ (r : RRect) (a : R3) (ρ1 Δ : ℝ), r.OK ∧ a.norm2 = 1 ∧ 0 < Δ ∧ Meets r a ρ1 ∧
    (∀ k, k < 4 → ρ1 + Δ ≤ dist2 a (vtx r k)) ∧ ¬ InCell r a := by
  refine ⟨exRect, ⟨1, 0, 0⟩, 9 / 10, 1 / 34, exRect_ok, by unfold R3.norm2; norm_num, by norm_num, ?_, ?_, ?_⟩
  · refine ⟨⟨3 / 5, 0, 4 / 5⟩, ?_, ?_⟩
    · unfold InCell exRect R3.norm2; norm_num
    · unfold dist2 R3.sub R3.norm2; norm_num
  · intro k hk
    rw [exRect_vtx k hk]
    obtain rfl | rfl | rfl | rfl : k = 0 ∨ k = 1 ∨ k = 2 ∨ k = 3 := by omega
    all_goals (unfold dist2 R3.sub R3.norm2; norm_num)
  · rintro ⟨-, hz, -⟩; simp at hz

end S2Proofs.C05Cap
