/-
  C05Cap.Instances — kernel-checked NON-VACUITY instances for the float soundness theorems of `Properties/C05_Cap.lean`
  (all on the face cell `cellD59 = cellFromCellID 0x7000000000000000`, face 3, uv = [-1,1]²):

  (I1) `capHemi`  = ⟨(1,0,0), 2.0⟩  : hemisphere exit of `Cap.intersects` (`radius ≥ 2` ⇒ `false` without any edge test);
  (I2) `capBig90` = ⟨(−1,0,0), 1.9⟩ : `ContainsCell = true` for a cap below a hemisphere (`radius ≤ 2 − 2^-50`);
  (I3) `capFT`    = ⟨Normalize((−1,3,3)), 1/8⟩ : the edge loop FALLS THROUGH all four edges (right and top edge skipped,
       `dot > 0`; bottom and left edge neither too far nor in the slab: the closest point of their great circles is beyond
       the lower-left corner), `IntersectsCell = false`, and the proviso `DecisionsExact` HOLDS: the float sign decisions
       agree with the exact (rational) ones.  So the proviso of `cap_intersectsCell_sound_partial` is satisfiable on an
       input that actually reaches the final `return false`.
-/
import S2Proofs.C05Cap.SoundF
import S2Proofs.C05Cap.Counter

namespace S2Proofs.C05Cap
open S2 S2.CellM S2.CapF64 S2.CapCell S2.Exact S2Proofs.FloatErr S2Proofs.F64Order S2Proofs.C16Acc S2Proofs.C12Dist
open S2Proofs.CapF64 (nunitB)

/-- the cell id of all instances is valid -/
theorem cellD59_valid : CellID.isValid 0x7000000000000000 = true := by decide +kernel

/-! ### (I1) hemisphere exit -/

def capHemi : Cap := ⟨⟨⟨0x3ff0000000000000⟩, ⟨0x0000000000000000⟩, ⟨0x0000000000000000⟩⟩, ⟨0x4000000000000000⟩⟩

theorem capHemi_val : val capHemi.radius = 2 := by
  have h : toInt capHemi.radius = 2 * 2 ^ 1074 := by decide +kernel
  rw [val_of_toInt (j := 0) h (by norm_num)]; push_cast; ring

/-- `IntersectsCell` answers `false` (no vertex is in the cap — the face is on the far side — and `intersects` gives up
    at `radius ≥ RightChordAngle`) -/
theorem capHemi_intersectsCell : CapCell.intersectsCell capHemi cellD59 = false := by
  rw [Counter.cell_eq]; decide +kernel

theorem capHemi_contract : nunitB capHemi.center = true ∧ Fin capHemi.radius ∧ 2 ≤ val capHemi.radius ∧
    val capHemi.radius ≤ 4 := by
  refine ⟨by decide +kernel, by decide +kernel, ?_, ?_⟩ <;> rw [capHemi_val] <;> norm_num

/-- the loop is not reached: not a fall-through -/
theorem capHemi_not_fellThrough : ¬ FellThrough capHemi cellD59 := by
  rintro ⟨h, -⟩
  have : F64.ge capHemi.radius rightChordAngle = true := by decide +kernel
  rw [this] at h; cases h

/-! ### (I2) a cap below a hemisphere contains the cell -/

def capBig90 : Cap := ⟨⟨⟨0xbff0000000000000⟩, ⟨0x0000000000000000⟩, ⟨0x0000000000000000⟩⟩, ⟨0x3ffe666666666666⟩⟩

theorem capBig90_val : val capBig90.radius = 4278419646001971 / 2 ^ 51 := by
  have h : toInt capBig90.radius = 4278419646001971 * 2 ^ 1023 := by decide +kernel
  rw [val_of_toInt (j := 51) h (by norm_num)]; push_cast; ring

theorem capBig90_containsCell : CapCell.containsCell capBig90 cellD59 = true := by
  rw [Counter.cell_eq]; decide +kernel

theorem capBig90_contract : nunitB capBig90.center = true ∧ Fin capBig90.radius ∧
    val capBig90.radius ≤ 2 - 1 / 2 ^ 50 := by
  refine ⟨by decide +kernel, by decide +kernel, ?_⟩
  rw [capBig90_val]; norm_num

/-! ### (I3) the loop falls through and the proviso holds -/

/-- centre `Normalize((−1, 3, 3))` (bits of the model's `V3.normalize`, `capFT_center_eq`), radius chord² = 1/8 -/
def capFT : Cap := ⟨⟨⟨0xbfcd5d7ea914b936⟩, ⟨0x3fe6061efecf8ae8⟩, ⟨0x3fe6061efecf8ae8⟩⟩, ⟨0x3fc0000000000000⟩⟩

theorem capFT_center_eq :
    capFT.center = (V3.mk ⟨0xBFF0000000000000⟩ ⟨0x4008000000000000⟩ ⟨0x4008000000000000⟩).normalize := by
  decide +kernel

theorem capFT_val : val capFT.radius = 1 / 8 := by
  have h : toInt capFT.radius = 1 * 2 ^ 1071 := by decide +kernel
  rw [val_of_toInt (j := 3) h (by norm_num)]; push_cast; ring

theorem capFT_contract : nunitB capFT.center = true ∧ Fin capFT.radius ∧ 0 ≤ val capFT.radius ∧
    val capFT.radius < 2 ∧ val capFT.radius ≤ 4 := by
  refine ⟨by decide +kernel, by decide +kernel, ?_, ?_, ?_⟩ <;> rw [capFT_val] <;> norm_num

namespace Instances

theorem val_cx : val ⟨0xbfcd5d7ea914b936⟩ = -4132786454289563 / 2 ^ 54 := by
  have h : toInt ⟨0xbfcd5d7ea914b936⟩ = -4132786454289563 * 2 ^ 1020 := by decide +kernel
  rw [val_of_toInt (j := 54) h (by norm_num)]; push_cast; ring
theorem val_cy : val ⟨0x3fe6061efecf8ae8⟩ = 774897460179293 / 2 ^ 50 := by
  have h : toInt ⟨0x3fe6061efecf8ae8⟩ = 774897460179293 * 2 ^ 1024 := by decide +kernel
  rw [val_of_toInt (j := 50) h (by norm_num)]; push_cast; ring

/-- the centre in the face frame of face 3: `(−c.z, −c.y, −c.x) ≈ (−0.688, −0.688, 0.229)` -/
noncomputable def AFT : R3 := ⟨-774897460179293 / 2 ^ 50, -774897460179293 / 2 ^ 50, 4132786454289563 / 2 ^ 54⟩

theorem fA_eq : fA Counter.cellLit capFT.center = AFT := by
  show (⟨-val ⟨0x3fe6061efecf8ae8⟩, -val ⟨0x3fe6061efecf8ae8⟩, -val ⟨0xbfcd5d7ea914b936⟩⟩ : R3) = _
  rw [val_cx, val_cy]; unfold AFT; ext <;> simp only <;> ring

/-- the float outcomes of the four iterations -/
theorem steps : (List.range 4).map (fun k => edgeStep capFT (Chord.sin2 capFT.radius) Counter.cellLit k)
    = [none, none, none, none] := by decide +kernel

theorem skips : (List.range 4).map (fun k => skipF capFT Counter.cellLit k) = [false, true, true, false] := by
  decide +kernel

theorem slabs : (List.range 4).map (fun k => slabF capFT Counter.cellLit k) = [false, false, false, false] := by
  decide +kernel

/-- the exact decisions: the centre is strictly inside the right and the top edge … -/
theorem skip1 : SkipExact Counter.RD AFT 1 := by
  unfold SkipExact; rw [dot_nrm_1]; unfold sR; simp only [AFT, Counter.RD]; norm_num
theorem skip2 : SkipExact Counter.RD AFT 2 := by
  unfold SkipExact; rw [dot_nrm_2]; unfold sT; simp only [AFT, Counter.RD]; norm_num
/-- … and for the bottom and the left edge the closest point of the great circle is beyond the lower-left corner -/
theorem noslab0 : ¬ SlabExact Counter.RD AFT 0 := by
  intro h
  have h' : Slab Counter.RD AFT 0 := h
  have := ((slab_iff_0 Counter.RD AFT).1 h').1
  unfold uTan at this; simp only [AFT, Counter.RD] at this; norm_num at this
theorem noslab3 : ¬ SlabExact Counter.RD AFT 3 := by
  intro h
  have h' : Slab Counter.RD AFT 3 := h
  have := ((slab_iff_3 Counter.RD AFT).1 h').1
  unfold vTan at this; simp only [AFT, Counter.RD] at this; norm_num at this

end Instances

open Instances

/-- the loop of `Cap.intersects` ran through all four edges without returning -/
theorem capFT_fellThrough : FellThrough capFT cellD59 := by
  rw [Counter.cell_eq]
  refine ⟨by decide +kernel, by decide +kernel, by decide +kernel, ?_⟩
  intro k hk
  have h := steps
  obtain rfl | rfl | rfl | rfl : k = 0 ∨ k = 1 ∨ k = 2 ∨ k = 3 := by omega
  · exact (List.cons.inj h).1
  · exact (List.cons.inj (List.cons.inj h).2).1
  · exact (List.cons.inj (List.cons.inj (List.cons.inj h).2).2).1
  · exact (List.cons.inj (List.cons.inj (List.cons.inj (List.cons.inj h).2).2).2).1

theorem capFT_intersectsCell : CapCell.intersectsCell capFT cellD59 = false := by
  rw [Counter.cell_eq]; decide +kernel

/-- **the proviso is satisfiable on an input that reaches the final `return false`**: the float sign decisions of all four
    iterations are exactly right. -/
theorem capFT_decisionsExact : DecisionsExact capFT cellD59 := by
  rw [Counter.cell_eq]
  intro k hk
  rw [Counter.rect_eq, fA_eq]
  have hs := skips
  obtain rfl | rfl | rfl | rfl : k = 0 ∨ k = 1 ∨ k = 2 ∨ k = 3 := by omega
  · have e : skipF capFT Counter.cellLit 0 = false := (List.cons.inj hs).1
    exact ⟨fun h => (by rw [e] at h; cases h), fun _ _ => noslab0⟩
  · exact ⟨fun _ => skip1, fun h => by
      have e : skipF capFT Counter.cellLit 1 = true := (List.cons.inj (List.cons.inj hs).2).1
      rw [e] at h; cases h⟩
  · exact ⟨fun _ => skip2, fun h => by
      have e : skipF capFT Counter.cellLit 2 = true := (List.cons.inj (List.cons.inj (List.cons.inj hs).2).2).1
      rw [e] at h; cases h⟩
  · have e : skipF capFT Counter.cellLit 3 = false :=
      (List.cons.inj (List.cons.inj (List.cons.inj (List.cons.inj hs).2).2).2).1
    exact ⟨fun h => (by rw [e] at h; cases h), fun _ _ => noslab3⟩

/-- everything `cap_intersectsCell_sound_partial` asks for, in one statement -/
theorem capFT_instance : CellID.isValid 0x7000000000000000 = true ∧ nunitB capFT.center = true ∧ Fin capFT.radius ∧
    val capFT.radius ≤ 4 ∧ FellThrough capFT cellD59 ∧ DecisionsExact capFT cellD59 ∧
    CapCell.intersectsCell capFT cellD59 = false :=
  ⟨cellD59_valid, capFT_contract.1, capFT_contract.2.1, capFT_contract.2.2.2.2, capFT_fellThrough,
    capFT_decisionsExact, capFT_intersectsCell⟩

end S2Proofs.C05Cap
