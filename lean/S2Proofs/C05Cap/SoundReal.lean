/-
  C05Cap.SoundReal — the real-arithmetic cores of the float soundness theorems of `Cap.IntersectsCell` /
  `Cap.ContainsCell` (face frame; the centre `A` is NOT assumed to be exactly unit: `|‖A‖² − 1| ≤ γ`).

  * `conv_out` : all four vertices farther than `ρ` from `A` ⇒ every cell point is farther than `ρ − 2·max(m,0)`,
                 `m = (‖A‖² + 1 − ρ)/2` (the complement of a cap of at least 90° is convex; `m ≤ 0` there up to slack).
  * `conv_in`  : all four vertices within `ρ` of `A` ⇒ every cell point is within `ρ + 2·max(−m,0)` (a cap of at
                 at most 90° is convex).
  * `unit_dist2_le/ge` : passing from `A` to the unit vector `A/|A|` changes squared chords by at most `5γ`.
  * `fall_through_real` : the final `return false` of the edge loop, under exactness of the sign decisions
                 (from `meets_edge`).
-/
import S2Proofs.C05Cap.ExactAlg
import Mathlib.Tactic.Linarith
import Mathlib.Tactic.Positivity
import Mathlib.Tactic.FieldSimp

namespace S2Proofs.C05Cap
open S2Proofs.C12Dist S2Proofs.C16Acc S2Proofs.C12Dist.Cover

/-- `‖A − q‖² = ‖A‖² + 1 − 2 A·q` for a unit `q` -/
theorem dist2_unit_right (A q : R3) (hq : q.norm2 = 1) : dist2 A q = A.norm2 + 1 - 2 * R3.dot A q := by
  rw [dist2_eq, hq]

theorem inCell_norm2 {r : RRect} {q : R3} (hq : InCell r q) : q.norm2 = 1 := hq.1

/-- all four `A·V̂_k` below `m` ⇒ `A·q ≤ max(m, 2m)` on the whole cell (coefficient sum in `[1, √3] ⊂ [1, 2]`) -/
theorem comb_lt (r : RRect) (hr : r.OK) (A q : R3) (hq : InCell r q) (m : ℝ)
    (hv : ∀ k, k < 4 → R3.dot A (vtx r k) < m) : R3.dot A q ≤ max m (2 * m) := by
  obtain ⟨c00, c10, c01, c11, p00, p10, p01, p11, hs, hs3, hdec⟩ := cell_combination r hr q hq
  have h0 := hv 0 (by norm_num)
  have h1 := hv 1 (by norm_num)
  have h2 := hv 2 (by norm_num)
  have h3 := hv 3 (by norm_num)
  rw [vtx_0] at h0; rw [vtx_1] at h1; rw [vtx_2] at h2; rw [vtx_3] at h3
  set S := c00 + c10 + c01 + c11 with hS
  have hS2 : S ≤ 2 := by nlinarith
  have e00 := mul_le_mul_of_nonneg_left h0.le p00
  have e10 := mul_le_mul_of_nonneg_left h1.le p10
  have e01 := mul_le_mul_of_nonneg_left h3.le p01
  have e11 := mul_le_mul_of_nonneg_left h2.le p11
  have hle : R3.dot A q ≤ S * m := by rw [hdec A]; nlinarith
  by_cases hm : m ≤ 0
  · have : S * m ≤ m := by nlinarith
    exact le_trans hle (le_trans this (le_max_left _ _))
  · have hm' : 0 < m := lt_of_not_ge hm
    have : S * m ≤ 2 * m := by nlinarith
    exact le_trans hle (le_trans this (le_max_right _ _))

/-- all four `A·V̂_k` at least `m` ⇒ `A·q ≥ min(m, 2m)` on the whole cell -/
theorem comb_ge (r : RRect) (hr : r.OK) (A q : R3) (hq : InCell r q) (m : ℝ)
    (hv : ∀ k, k < 4 → m ≤ R3.dot A (vtx r k)) : min m (2 * m) ≤ R3.dot A q := by
  obtain ⟨c00, c10, c01, c11, p00, p10, p01, p11, hs, hs3, hdec⟩ := cell_combination r hr q hq
  have h0 := hv 0 (by norm_num)
  have h1 := hv 1 (by norm_num)
  have h2 := hv 2 (by norm_num)
  have h3 := hv 3 (by norm_num)
  rw [vtx_0] at h0; rw [vtx_1] at h1; rw [vtx_2] at h2; rw [vtx_3] at h3
  set S := c00 + c10 + c01 + c11 with hS
  have hS2 : S ≤ 2 := by nlinarith
  have e00 := mul_le_mul_of_nonneg_left h0 p00
  have e10 := mul_le_mul_of_nonneg_left h1 p10
  have e01 := mul_le_mul_of_nonneg_left h3 p01
  have e11 := mul_le_mul_of_nonneg_left h2 p11
  have hge : S * m ≤ R3.dot A q := by rw [hdec A]; nlinarith
  by_cases hm : 0 ≤ m
  · have : m ≤ S * m := by nlinarith
    exact le_trans (min_le_left _ _) (le_trans this hge)
  · have hm' : m < 0 := lt_of_not_ge hm
    have : 2 * m ≤ S * m := by nlinarith
    exact le_trans (min_le_right _ _) (le_trans this hge)

/-- CONVEXITY, outside: every vertex farther than `ρ` from `A` ⇒ every cell point is farther than
    `ρ − max(0, ‖A‖² + 1 − ρ)` (for `ρ ≥ ‖A‖² + 1`, i.e. a cap of at least 90°, nothing is lost) -/
theorem conv_out (r : RRect) (hr : r.OK) (A : R3) (ρ : ℝ) (hv : ∀ k, k < 4 → ρ < dist2 A (vtx r k))
    (q : R3) (hq : InCell r q) : ρ - max 0 (A.norm2 + 1 - ρ) ≤ dist2 A q := by
  have hv' : ∀ k, k < 4 → R3.dot A (vtx r k) < (A.norm2 + 1 - ρ) / 2 := by
    intro k hk
    have := hv k hk
    rw [dist2_unit_right A _ (vtx_norm2 r k)] at this
    linarith
  have h := comb_lt r hr A q hq _ hv'
  rw [dist2_unit_right A q hq.1]
  rcases le_total ((A.norm2 + 1 - ρ) / 2) 0 with hm | hm
  · have : max ((A.norm2 + 1 - ρ) / 2) (2 * ((A.norm2 + 1 - ρ) / 2)) = (A.norm2 + 1 - ρ) / 2 := by
      apply max_eq_left; linarith
    rw [this] at h
    have : max 0 (A.norm2 + 1 - ρ) = 0 := max_eq_left (by linarith)
    rw [this]; linarith
  · have : max ((A.norm2 + 1 - ρ) / 2) (2 * ((A.norm2 + 1 - ρ) / 2)) = 2 * ((A.norm2 + 1 - ρ) / 2) := by
      apply max_eq_right; linarith
    rw [this] at h
    have : max 0 (A.norm2 + 1 - ρ) = A.norm2 + 1 - ρ := max_eq_right (by linarith)
    rw [this]; linarith

/-- CONVEXITY, inside: every vertex within `ρ` of `A` ⇒ every cell point is within `ρ + max(0, ρ − ‖A‖² − 1)`
    (for `ρ ≤ ‖A‖² + 1`, i.e. a cap of at most 90°, nothing is lost) -/
theorem conv_in (r : RRect) (hr : r.OK) (A : R3) (ρ : ℝ) (hv : ∀ k, k < 4 → dist2 A (vtx r k) ≤ ρ)
    (q : R3) (hq : InCell r q) : dist2 A q ≤ ρ + max 0 (ρ - A.norm2 - 1) := by
  have hv' : ∀ k, k < 4 → (A.norm2 + 1 - ρ) / 2 ≤ R3.dot A (vtx r k) := by
    intro k hk
    have := hv k hk
    rw [dist2_unit_right A _ (vtx_norm2 r k)] at this
    linarith
  have h := comb_ge r hr A q hq _ hv'
  rw [dist2_unit_right A q hq.1]
  rcases le_total 0 ((A.norm2 + 1 - ρ) / 2) with hm | hm
  · have : min ((A.norm2 + 1 - ρ) / 2) (2 * ((A.norm2 + 1 - ρ) / 2)) = (A.norm2 + 1 - ρ) / 2 := by
      apply min_eq_left; linarith
    rw [this] at h
    have : max 0 (ρ - A.norm2 - 1) = 0 := max_eq_left (by linarith)
    rw [this]; linarith
  · have : min ((A.norm2 + 1 - ρ) / 2) (2 * ((A.norm2 + 1 - ρ) / 2)) = 2 * ((A.norm2 + 1 - ρ) / 2) := by
      apply min_eq_right; linarith
    rw [this] at h
    have : max 0 (ρ - A.norm2 - 1) = ρ - A.norm2 - 1 := max_eq_right (by linarith)
    rw [this]; linarith

/-! ### from a nearly unit centre to the unit centre -/

/-- the unit vector of `A` -/
noncomputable def unitOf (A : R3) : R3 := R3.smul (1 / A.norm) A

theorem unitOf_norm2 (A : R3) (hA : 0 < A.norm2) : (unitOf A).norm2 = 1 := by
  unfold unitOf
  rw [R3.norm2_smul, div_pow, one_pow, R3.norm_sq]
  exact one_div_mul_cancel hA.ne'

theorem dot_smul_left (s : ℝ) (A q : R3) : R3.dot (R3.smul s A) q = s * R3.dot A q := by
  unfold R3.dot R3.smul; simp only; ring

/-- `‖Â − q‖² = (‖A − q‖² − (|A| − 1)²)/|A|` for unit `q` -/
theorem dist2_unitOf (A q : R3) (hA : 0 < A.norm2) (hq : q.norm2 = 1) :
    dist2 (unitOf A) q = (dist2 A q - (A.norm - 1) ^ 2) / A.norm := by
  have hn : 0 < A.norm := Real.sqrt_pos.mpr hA
  rw [dist2_unit_right _ q hq, unitOf_norm2 A hA, dist2_unit_right A q hq]
  unfold unitOf
  rw [dot_smul_left, ← R3.norm_sq A]
  field_simp
  ring

/-- `|A|` is within `γ` of 1 when `‖A‖²` is -/
theorem norm_near_one (A : R3) (γ : ℝ) (hγ1 : γ ≤ 1 / 2) (hA : |A.norm2 - 1| ≤ γ) :
    0 < A.norm2 ∧ 1 - γ ≤ A.norm ∧ A.norm ≤ 1 + γ := by
  obtain ⟨h1, h2⟩ := abs_le.mp hA
  have hpos : 0 < A.norm2 := by linarith
  have hn : 0 < A.norm := Real.sqrt_pos.mpr hpos
  have hsq := R3.norm_sq A
  refine ⟨hpos, ?_, ?_⟩
  · by_contra h
    have h := not_le.mp h
    have : A.norm ^ 2 < (1 - γ) ^ 2 := by
      have h0 : 0 ≤ 1 - γ := by linarith
      nlinarith
    nlinarith [sq_nonneg γ]
  · by_contra h
    have h := not_le.mp h
    have hγ0 : 0 ≤ γ := le_trans (abs_nonneg _) hA
    have : (1 + γ) ^ 2 < A.norm ^ 2 := by nlinarith
    nlinarith [sq_nonneg γ]

/-- squared chords from the unit centre are at most `5γ` larger … -/
theorem unit_dist2_le (A q : R3) (γ : ℝ) (hγ1 : γ ≤ 1 / 10) (hA : |A.norm2 - 1| ≤ γ) (hq : q.norm2 = 1)
    (D : ℝ) (hD : dist2 A q ≤ D) (hD4 : D ≤ 4) : dist2 (unitOf A) q ≤ D + 5 * γ := by
  obtain ⟨hpos, hlo, hhi⟩ := norm_near_one A γ (by linarith) hA
  have hγ0 : 0 ≤ γ := le_trans (abs_nonneg _) hA
  have hn : 0 < A.norm := Real.sqrt_pos.mpr hpos
  rw [dist2_unitOf A q hpos hq, div_le_iff₀ hn]
  have h0 : 0 ≤ dist2 A q := by unfold dist2; exact R3.norm2_nonneg _
  nlinarith [sq_nonneg (A.norm - 1)]

/-- … and at most `5γ` smaller -/
theorem unit_dist2_ge (A q : R3) (γ : ℝ) (hγ1 : γ ≤ 1 / 10) (hA : |A.norm2 - 1| ≤ γ) (hq : q.norm2 = 1)
    (D : ℝ) (hD : D < dist2 A q) (hD4 : D ≤ 4) : D - 5 * γ < dist2 (unitOf A) q := by
  obtain ⟨hpos, hlo, hhi⟩ := norm_near_one A γ (by linarith) hA
  have hγ0 : 0 ≤ γ := le_trans (abs_nonneg _) hA
  have hn : 0 < A.norm := Real.sqrt_pos.mpr hpos
  rw [dist2_unitOf A q hpos hq, lt_div_iff₀ hn]
  have hsq : (A.norm - 1) ^ 2 ≤ γ ^ 2 := by
    have : |A.norm - 1| ≤ γ := abs_le.mpr ⟨by linarith, by linarith⟩
    calc (A.norm - 1) ^ 2 = |A.norm - 1| ^ 2 := (sq_abs _).symm
      _ ≤ γ ^ 2 := pow_le_pow_left₀ (abs_nonneg _) this 2
  have hX0 : (A.norm - 1) ^ 2 ≤ dist2 A q := by
    rw [dist2_unit_right A q hq, ← R3.norm_sq A]
    have hc := R3.dot_le A q
    have hqn : q.norm = 1 := by unfold R3.norm; rw [hq]; simp
    rw [hqn, mul_one] at hc
    nlinarith
  rcases lt_or_ge D 0 with hD0 | hD0
  · have : (D - 5 * γ) * A.norm < 0 := mul_neg_of_neg_of_pos (by linarith) hn
    linarith
  · have h1 : (D - 5 * γ) * A.norm ≤ D - γ / 2 := by nlinarith
    have h2 : γ ^ 2 ≤ γ / 2 := by nlinarith
    linarith

/-! ### the final `return false` of the edge loop -/

/-- the exact sign decisions of the loop body for edge `k` (scale-invariant in the centre) -/
def SkipExact (r : RRect) (A : R3) (k : Nat) : Prop := 0 < R3.dot A (nrm r k)
def SlabExact (r : RRect) (A : R3) (k : Nat) : Prop :=
  R3.dot (R3.cross (nrm r k) A) (vtx r k) < 0 ∧ 0 < R3.dot (R3.cross (nrm r k) A) (vtx r ((k + 1) % 4))

theorem cross_smul_right' (s : ℝ) (N A : R3) : R3.cross N (R3.smul s A) = R3.smul s (R3.cross N A) := by
  unfold R3.cross R3.smul; ext <;> simp only <;> ring

theorem dot_smul_right (s : ℝ) (A q : R3) : R3.dot A (R3.smul s q) = s * R3.dot A q := by
  unfold R3.dot R3.smul; simp only; ring

/-- FALL THROUGH: every vertex is farther than `ρv` from `A`, the unit centre is outside the cell, and at every edge
    the loop fell through for a reason that is exactly true (`A·N_k > 0`, or the closest point of the great circle is
    not strictly between the end points) ⇒ no cell point is within `ρv − 10γ` of `A`. -/
theorem fall_through_real (r : RRect) (hr : r.OK) (A : R3) (γ : ℝ) (hγ1 : γ ≤ 1 / 10) (hA : |A.norm2 - 1| ≤ γ)
    (ρv : ℝ) (hρ4 : ρv ≤ 4) (hv : ∀ k, k < 4 → ρv < dist2 A (vtx r k))
    (hout : ¬ InCell r (unitOf A))
    (hdec : ∀ k, k < 4 → SkipExact r A k ∨ ¬ SlabExact r A k)
    (q : R3) (hq : InCell r q) : ρv - 10 * γ < dist2 A q := by
  by_contra hcon
  have hcon := not_lt.mp hcon
  obtain ⟨hpos, hlo, hhi⟩ := norm_near_one A γ (by linarith) hA
  have hγ0 : 0 ≤ γ := le_trans (abs_nonneg _) hA
  have hn : 0 < A.norm := Real.sqrt_pos.mpr hpos
  have hs : 0 < 1 / A.norm := by positivity
  -- the unit centre meets the cell within ρ̂ = ρv − 5γ
  have hM : Meets r (unitOf A) (ρv - 5 * γ) := by
    refine ⟨q, hq, ?_⟩
    have := unit_dist2_le A q γ hγ1 hA hq.1 (ρv - 10 * γ) hcon (by linarith)
    linarith
  have hv' : ∀ k, k < 4 → ρv - 5 * γ < dist2 (unitOf A) (vtx r k) := fun k hk =>
    unit_dist2_ge A _ γ hγ1 hA (vtx_norm2 r k) ρv (hv k hk) hρ4
  obtain ⟨k, hk, hd, -, hs1, hs2⟩ := meets_edge r hr (unitOf A) (unitOf_norm2 A hpos) _ hM hv' hout
  unfold unitOf at hd hs1 hs2
  rw [dot_smul_left] at hd
  rw [cross_smul_right', dot_smul_left] at hs1 hs2
  rcases hdec k hk with h | h
  · unfold SkipExact at h
    have : 0 < 1 / A.norm * R3.dot A (nrm r k) := mul_pos hs h
    linarith
  · apply h
    constructor
    · by_contra h'
      have h' := not_lt.mp h'
      have : 0 ≤ 1 / A.norm * R3.dot (R3.cross (nrm r k) A) (vtx r k) := mul_nonneg hs.le h'
      linarith
    · by_contra h'
      have h' := not_lt.mp h'
      have : 1 / A.norm * R3.dot (R3.cross (nrm r k) A) (vtx r ((k + 1) % 4)) ≤ 0 :=
        mul_nonpos_of_nonneg_of_nonpos hs.le h'
      linarith

end S2Proofs.C05Cap
