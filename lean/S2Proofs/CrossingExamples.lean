/-
  S2Proofs.CrossingExamples — concrete point sets on which the hypothesis bundles of property C03
  (`Dom`, `SignLaws`, `FloatSound`, `RSLaws`) are CHECKED by kernel evaluation of the soft-float /
  exact-integer model.  Used by the non-vacuity examples of `S2Proofs.Properties.C03`.
-/
import S2Proofs.CrossingLemmas
namespace S2Proofs.C03
open S2 S2.Pred S2.Crossing S2.Crosser

/-! ## concrete point sets for the non-vacuity examples -/

def pX : V3 := ⟨⟨0x3FF0000000000000⟩, ⟨0⟩, ⟨0⟩⟩                                        -- (1,0,0)
def pY : V3 := ⟨⟨0⟩, ⟨0x3FF0000000000000⟩, ⟨0⟩⟩                                        -- (0,1,0)
def pM : V3 := ⟨⟨0x3FE3333333333333⟩, ⟨0x3FE999999999999A⟩, ⟨0⟩⟩                      -- (0.6,0.8,0): exactly coplanar with pX,pY
def pC : V3 := ⟨⟨0x3FDEB851EB851EB8⟩, ⟨0x3FE47AE147AE147B⟩, ⟨0x3FE3333333333333⟩⟩     -- (0.48,0.64,0.6)
def pD : V3 := ⟨⟨0x3FDEB851EB851EB8⟩, ⟨0x3FE47AE147AE147B⟩, ⟨0xBFE3333333333333⟩⟩     -- (0.48,0.64,-0.6)
/-- four points: the edge pC-pD crosses the edge pX-pY (at (0.6,0.8,0)) -/
def L0 : List V3 := [pX, pY, pC, pD]
/-- with a point exactly on the great circle of pX,pY (exact determinant 0: the symbolic perturbation
    decides) and the reference directions of pX and pY (used by VertexCrossing) -/
def L1 : List V3 := L0 ++ [pM, referenceDir pX, referenceDir pY]

/-- membership in the concrete lists -/
macro "mem" : tactic => `(tactic| simp [L0, L1])

theorem L0_dom : Dom (· ∈ L0) := dom_of_check (by decide +kernel)
theorem L0_signLaws : SignLaws (· ∈ L0) := signLaws_of_check (by decide +kernel)
theorem L0_triSound : triSoundB L0 = true := by decide +kernel
theorem L0_tanSound_X : tanSoundB L0 pX = true := by decide +kernel
theorem L0_tanSound_Y : tanSoundB L0 pY = true := by decide +kernel
theorem L0_tanSound_C : tanSoundB L0 pC = true := by decide +kernel
theorem L0_tanSound_D : tanSoundB L0 pD = true := by decide +kernel
theorem L0_floatSound : FloatSound (· ∈ L0) :=
  floatSound_of_parts L0_triSound (by
    intro a ha
    simp only [L0, List.mem_cons, List.not_mem_nil, or_false] at ha
    rcases ha with h | h | h | h <;> subst h
    · exact L0_tanSound_X
    · exact L0_tanSound_Y
    · exact L0_tanSound_C
    · exact L0_tanSound_D)
theorem L1_dom : Dom (· ∈ L1) := dom_of_check (by decide +kernel)
theorem L1_signLaws : SignLaws (· ∈ L1) := signLaws_of_check (by decide +kernel)
theorem L1_rsLaws : RSLaws (· ∈ L1) robustSign := rsLaws_of_check (by decide +kernel)


end S2Proofs.C03
