/-
  S2Proofs.CapF64.Complement — `Cap.Complement` on the bit-exact soft-float.
-/
import Mathlib.Tactic.Ring
import Mathlib.Tactic.Linarith
import Mathlib.Tactic.Positivity
import Mathlib.Tactic.NormNum
import Mathlib.Tactic.FieldSimp
import S2Proofs.CapF64.Between
import S2Proofs.CapF64.ChordAdd
import S2Proofs.F64Round
import S2Proofs.F64Sym
import S2Proofs.F64Sym2

namespace S2Proofs.CapF64
open S2 S2.Exact S2Proofs.F64Order S2Proofs.FloatErr

/-! ### multiplication by `-1.0` is the (bit-exact) negation -/

theorem one_mul_fin {x : F64} (hx : Fin x) : F64.mul F64.one x = x := by
  have h1 : F64.one.isNaN = false ∧ F64.one.isInf = false ∧ F64.one.isZero = false ∧ F64.one.signBit = false ∧
      Fin F64.one := by decide
  by_cases hz : x.isZero = true
  · have hs : (false != x.signBit) = x.signBit := by cases x.signBit <;> rfl
    unfold F64.mul
    simp only [h1.1, h1.2.1, h1.2.2.1, h1.2.2.2.1, isNaN_false hx, isInf_false hx, hz, Bool.or_self, Bool.false_or,
      Bool.false_eq_true, if_false, if_true, hs]
    exact (F64Sym2.eq_zero_of_isZero hz).symm
  · have hz' : x.isZero = false := by simpa using hz
    have h0 : toInt x ≠ 0 := fun h => by
      rw [S2Proofs.EdgeNumLemmas.isZero_of_toInt h] at hz'; cases hz'
    have hr := F64Round.isRound_mul h1.2.2.2.2 hx
    rw [F64Round.val_one, one_mul] at hr
    exact F64Round.IsRound.fix_eq hx h0 hr

theorem negOne_mul {x : F64} (hx : Fin x) : F64.mul Chord.fNeg1 x = F64.neg x := by
  have e : Chord.fNeg1 = F64.neg F64.one := by decide
  have h1 : F64.one.isNaN = false ∧ F64.one.isInf = false ∧ F64.one.isZero = false := by decide
  rw [e, F64Sym.mul_neg_left F64.one x h1.1 (isNaN_false hx) (by rw [h1.2.2]; simp) (by rw [h1.2.1]; simp),
    one_mul_fin hx]

theorem v3_negOne {v : V3} (hv : Fin3 v) : v.mul Chord.fNeg1 = ⟨F64.neg v.x, F64.neg v.y, F64.neg v.z⟩ := by
  obtain ⟨h1, h2, h3⟩ := hv
  show V3.mk (F64.mul Chord.fNeg1 v.x) (F64.mul Chord.fNeg1 v.y) (F64.mul Chord.fNeg1 v.z) = _
  rw [negOne_mul h1, negOne_mul h2, negOne_mul h3]

/-- the negated centre: finite, coordinates negated EXACTLY -/
theorem neg_center_spec (v : V3) (hv : Fin3 v) :
    Fin3 (v.mul Chord.fNeg1) ∧ val (v.mul Chord.fNeg1).x = - val v.x ∧ val (v.mul Chord.fNeg1).y = - val v.y ∧ val (v.mul Chord.fNeg1).z = - val v.z := by
  rw [v3_negOne hv]
  obtain ⟨h1, h2, h3⟩ := hv
  exact ⟨⟨(F64Sym.isFinite_neg _).mpr h1, (F64Sym.isFinite_neg _).mpr h2, (F64Sym.isFinite_neg _).mpr h3⟩,
    val_neg _, val_neg _, val_neg _⟩

theorem nunit_neg {v : V3} (h : NUnit v) : NUnit (v.mul Chord.fNeg1) := by
  obtain ⟨hf, hn⟩ := h
  obtain ⟨f, ex, ey, ez⟩ := neg_center_spec v hf
  refine ⟨f, ?_⟩
  have : nrm2 (v.mul Chord.fNeg1) = nrm2 v := by
    unfold nrm2; rw [ex, ey, ez]; ring
  rw [this]; exact hn

/-- Go's `IsUnit` is invariant (bit-exactly: `(−x)⊗(−x) = x⊗x`) -/
theorem isUnit_neg (v : V3) (hv : Fin3 v) : Chord.isUnit (v.mul Chord.fNeg1) = Chord.isUnit v := by
  have : (v.mul Chord.fNeg1).norm2 = v.norm2 := by
    rw [v3_negOne hv]
    unfold V3.norm2 V3.dot
    show F64.add (F64.add (F64.mul (F64.neg v.x) (F64.neg v.x)) (F64.mul (F64.neg v.y) (F64.neg v.y)))
        (F64.mul (F64.neg v.z) (F64.neg v.z)) =
      F64.add (F64.add (F64.mul v.x v.x) (F64.mul v.y v.y)) (F64.mul v.z v.z)
    rw [F64Sym.mul_self_neg, F64Sym.mul_self_neg, F64Sym.mul_self_neg]
  unfold Chord.isUnit
  rw [this]


/-! ### exact operations (rounding of a representable value) -/

set_option exponentiation.threshold 3000

theorem valQ_zero {y : F64} (h : val y = 0) : F64Round.val y = 0 := by
  have := CA.toInt_of_val_zero h
  unfold F64Round.val; rw [this]; simp

/-- a correctly rounded result whose exact value is a float has that value -/
theorem round_fix_val {r x : F64} {q : ℚ} (hx : Fin x) (h : F64Round.IsRound r q) (hq : q = F64Round.val x) :
    Fin r ∧ val r = val x := by
  rw [hq] at h
  obtain ⟨f, e⟩ := F64Round.IsRound.fix hx h
  exact ⟨f, by unfold val; rw [e]⟩

/-- rounding is monotone (value form) -/
theorem le_of_round {r1 r2 : F64} {q1 q2 : ℚ} (h1 : F64Round.IsRound r1 q1) (h2 : F64Round.IsRound r2 q2)
    (f1 : Fin r1) (f2 : Fin r2) (hle : q1 ≤ q2) : val r1 ≤ val r2 :=
  (le_iff_val f1 f2).mp (F64Round.IsRound.mono h1 h2 hle)

theorem valQ_le {x y : F64} (h : val x ≤ val y) : F64Round.val x ≤ F64Round.val y := by
  rw [← CA.val_cast, ← CA.val_cast] at h
  exact_mod_cast h

theorem valQ_nonneg {x : F64} (h : 0 ≤ val x) : 0 ≤ F64Round.val x := by
  rw [← CA.val_cast] at h
  exact_mod_cast h

theorem mul_zero_right {x y : F64} (hx : Fin x) (hy : Fin y) (h : val y = 0) : Fin (x * y) ∧ val (x * y) = 0 := by
  have hr := F64Round.isRound_mul hx hy
  have hz : Fin (F64.zero false) ∧ val (F64.zero false) = 0 := zero_val false
  have := round_fix_val hz.1 hr (by rw [valQ_zero h, valQ_zero hz.2, mul_zero])
  exact ⟨this.1, by rw [← hz.2]; exact this.2⟩

theorem add_zero_exact {x y : F64} (hx : Fin x) (hy : Fin y) (h : val y = 0) : Fin (x + y) ∧ val (x + y) = val x :=
  round_fix_val hx (F64Round.isRound_add hx hy) (by rw [valQ_zero h, add_zero])

theorem sub_zero_exact {x y : F64} (hx : Fin x) (hy : Fin y) (h : val y = 0) : Fin (x - y) ∧ val (x - y) = val x :=
  round_fix_val hx (F64Round.isRound_sub hx hy) (by rw [valQ_zero h, sub_zero])

theorem tiny_small : 0 * (2 : ℝ) + CA.tau * 4 + eR ≤ 1 / 2 ^ 1000 := by
  unfold CA.tau eR
  have h1 : (1 : ℝ) / 2 ^ 1075 ≤ 1 / 2 ^ 1002 := by norm_num
  have h2 : (1 : ℝ) / 2 ^ 1020 * 4 = 1 / 2 ^ 1018 := by norm_num
  have h3 : (1 : ℝ) / 2 ^ 1018 ≤ 1 / 2 ^ 1002 := by norm_num
  have h4 : (2 : ℝ) * (1 / 2 ^ 1002) ≤ 1 / 2 ^ 1000 := by norm_num
  linarith

/-- the main branch of `StraightChordAngle.Sub(r)` -/
theorem sub4_main (r : F64) (hr : Fin r) (hr0 : 0 ≤ val r) (hr4 : val r ≤ 4) :
    let x := Chord.f4 * (F64.one - Chord.fQuarter * r)
    let y := r * (F64.one - Chord.fQuarter * Chord.f4)
    let s := F64.fmax Chord.f0 (x + y - F64.two * F64.sqrt (x * y))
    Fin s ∧ 0 ≤ val s ∧ val s ≤ 4 ∧ (4 - val r) * (1 - uR) ^ 2 - 1 / 2 ^ 1000 ≤ val s := by
  intro x y s
  have hw0 : Fin (F64.one - Chord.fQuarter * Chord.f4) ∧ val (F64.one - Chord.fQuarter * Chord.f4) = 0 := by
    have h : Fin (F64.one - Chord.fQuarter * Chord.f4) ∧ toInt (F64.one - Chord.fQuarter * Chord.f4) = 0 := by
      decide +kernel
    exact ⟨h.1, CA.val_of_toInt h.2 (by simp)⟩
  -- the quarter
  obtain ⟨fq, q0, _, _⟩ := CA.mul_nn CA.val_quarter.1 hr (by rw [CA.val_quarter.2]; norm_num) hr0
    (by rw [CA.val_quarter.2]; exact le_trans (by linarith : 1 / 4 * val r ≤ 1) CA.one_le_big)
  -- `1 − r/4`
  have qw := CA.Q_one_sub hr hr0 hr4
  have fw : Fin (F64.one - Chord.fQuarter * r) := qw.1
  have w1 : val (F64.one - Chord.fQuarter * r) ≤ 1 := by
    have := le_of_round (F64Round.isRound_sub CA.val_one.1 fq) (F64Round.isRound_self CA.val_one.1) fw CA.val_one.1
      (by have := valQ_nonneg q0; linarith)
    rwa [CA.val_one.2] at this
  -- x
  have qx : CA.Q x (4 * (1 - val r / 4)) 2 (1 / 2 ^ 1000) 9 :=
    CA.Q.mul (CA.Q.const CA.val_f4 (by norm_num)) qw (by norm_num) tiny_small (by unfold uR; norm_num)
      (CA.small_big (by norm_num))
  obtain ⟨fx, x0, _, _, _, _, lx⟩ := qx
  have x4 : val x ≤ 4 := by
    have := le_of_round (F64Round.isRound_mul CA.val_f4.1 fw) (F64Round.isRound_self CA.val_f4.1) fx CA.val_f4.1
      (by
        have h4 : F64Round.val Chord.f4 = 4 := by
          have := CA.val_cast Chord.f4
          rw [CA.val_f4.2] at this
          exact_mod_cast this
        have h1 : F64Round.val (F64.one - Chord.fQuarter * r) ≤ 1 := by
          have h := w1
          rw [← CA.val_cast] at h
          exact_mod_cast h
        rw [h4]; linarith)
    rwa [CA.val_f4.2] at this
  -- the zero terms
  have fy : Fin y ∧ val y = 0 := mul_zero_right hr hw0.1 hw0.2
  have fxy : Fin (x * y) ∧ val (x * y) = 0 := mul_zero_right fx fy.1 fy.2
  have ft : Fin (F64.two * (x * y)) ∧ val (F64.two * (x * y)) = 0 := mul_zero_right CA.val_two.1 fxy.1 fxy.2
  have f1 : Fin (x + y) ∧ val (x + y) = val x := add_zero_exact fx fy.1 fy.2
  have f2 : Fin (x + y - F64.two * (x * y)) ∧ val (x + y - F64.two * (x * y)) = val x := by
    have := sub_zero_exact f1.1 ft.1 ft.2
    exact ⟨this.1, by rw [this.2, f1.2]⟩
  have es : s = F64.fmax Chord.f0 (x + y - F64.two * (x * y)) := by
    show F64.fmax Chord.f0 (x + y - F64.two * F64.sqrt (x * y)) = _
    rw [CA.sqrt_of_zero fxy.1 fxy.2]
  obtain ⟨fs, vs⟩ := val_fmax val_f0.1 f2.1
  rw [← es, val_f0.2, f2.2, max_eq_right x0] at vs
  rw [← es] at fs
  refine ⟨fs, by rw [vs]; exact x0, by rw [vs]; exact x4, ?_⟩
  rw [vs]
  have : 4 * (1 - val r / 4) = 4 - val r := by ring
  rw [this] at lx
  exact lx

/-- `StraightChordAngle.Sub(r)` for a finite r ∈ [0,4]: finite, in [0,4], and at least (4 − r) up to two roundings -/
theorem sub4_spec (r : F64) (hr : Fin r) (hr0 : 0 ≤ val r) (hr4 : val r ≤ 4) :
    Fin (Chord.sub Chord.f4 r) ∧ 0 ≤ val (Chord.sub Chord.f4 r) ∧ val (Chord.sub Chord.f4 r) ≤ 4 ∧
    (4 - val r) * (1 - uR) ^ 2 - 1 / 2 ^ 1000 ≤ val (Chord.sub Chord.f4 r) := by
  have hρ1 : (1 - uR) ^ 2 ≤ 1 := CA.rpow_le_one 2
  have ht : (0 : ℝ) < 1 / 2 ^ 1000 := by positivity
  unfold Chord.sub
  by_cases h1 : F64.feq r Chord.f0 = true
  · rw [if_pos h1]
    have hb : val r = 0 := by rw [(feq_iff_val hr val_f0.1).mp h1, val_f0.2]
    refine ⟨val_f4.1, by rw [val_f4.2]; norm_num, by rw [val_f4.2], ?_⟩
    rw [val_f4.2, hb]; linarith
  · rw [if_neg h1]
    by_cases h2 : F64.le Chord.f4 r = true
    · rw [if_pos h2]
      have h4 : 4 ≤ val r := by
        have := (le_iff_val val_f4.1 hr).mp h2
        rwa [val_f4.2] at this
      have e4 : val r = 4 := le_antisymm hr4 h4
      refine ⟨val_f0.1, by rw [val_f0.2], by rw [val_f0.2]; norm_num, ?_⟩
      rw [val_f0.2, e4]; linarith
    · rw [if_neg h2]
      exact sub4_main r hr hr0 hr4

/-! ### the complement covers the outside -/

/-- the real-number core -/
theorem compl_core {C1 C2 E1 E2 r S : ℝ} (h1 : C2 ≤ E2 * (1 + uR) ^ 5 + 4 * eR) (h2 : C1 ≤ E1 * (1 + uR) ^ 5 + 4 * eR)
    (h3 : r < C1) (h4 : E1 + E2 ≤ 4 + 4 * NU * eps) (h5 : (4 - r) * (1 - uR) ^ 2 - 1 / 2 ^ 1000 ≤ S)
    (hr0 : 0 ≤ r) (hr4 : r ≤ 4) : C2 ≤ S + 44 * eps := by
  have hK : (1 + uR) ^ 5 ≤ 1 + 3 * eps := by unfold uR eps; norm_num
  have hK0 : 0 ≤ (1 + uR) ^ 5 := by have := uR_nonneg; positivity
  have hρ : 1 - eps ≤ (1 - uR) ^ 2 := by unfold uR eps; norm_num
  have he := eps_pos
  have a1 : (E1 + E2) * (1 + uR) ^ 5 ≤ (4 + 4 * NU * eps) * (1 + uR) ^ 5 := mul_le_mul_of_nonneg_right h4 hK0
  have hNU : NU = 289 / 64 := rfl
  have a2 : (4 + 4 * NU * eps) * (1 + uR) ^ 5 ≤ (4 + 4 * NU * eps) * (1 + 3 * eps) :=
    mul_le_mul_of_nonneg_left hK (by rw [hNU]; linarith)
  have a3 : (4 - r) * (1 - eps) ≤ (4 - r) * (1 - uR) ^ 2 := mul_le_mul_of_nonneg_left hρ (by linarith)
  have a4 : 0 ≤ r * eps := mul_nonneg hr0 he.le
  have num : 55 * eps ^ 2 + 8 * eR + 1 / 2 ^ 1000 ≤ 9 * eps := by unfold eps eR; norm_num
  rw [hNU] at a1 a2 h4
  generalize (1 + uR) ^ 5 = K at *
  generalize (1 - uR) ^ 2 = ρ at *
  nlinarith

theorem nrm2_le {v : V3} (h : NUnit v) : nrm2 v ≤ 1 + NU * eps := by
  have := (abs_le.mp h.2).2
  linarith

/-- MAIN: a Normalize-grade point that the float test of (a, r) REJECTS is accepted by the complement (−a, 4 ⊖ r) up to the
    absolute allowance 44·2^-52 on the squared chord. -/
theorem complement_covers_core (a p : V3) (r : F64) (ha : NUnit a) (hp : NUnit p) (hr : Fin r) (hr0 : 0 ≤ val r) (hr4 : val r ≤ 4)
    (hout : F64.le (Chord.between a p) r = false) :
    val (Chord.between (a.mul Chord.fNeg1) p) ≤ val (Chord.sub Chord.f4 r) + 44 * eps := by
  have hn := nunit_neg ha
  obtain ⟨_, ex, ey, ez⟩ := neg_center_spec a ha.1
  obtain ⟨ax, ay, az⟩ := nunit_coord_le ha
  obtain ⟨nx, ny, nz⟩ := nunit_coord_le hn
  obtain ⟨px, py, pz⟩ := nunit_coord_le hp
  obtain ⟨fC1, _, _, u1, _⟩ := between_spec a p ha.1 hp.1 ax ay az px py pz
  obtain ⟨fC2, _, _, u2, _⟩ := between_spec (a.mul Chord.fNeg1) p hn.1 hp.1 nx ny nz px py pz
  obtain ⟨_, _, _, ls⟩ := sub4_spec r hr hr0 hr4
  have h3 : val r < val (Chord.between a p) := by
    by_contra hc
    have := (le_iff_val fC1 hr).mpr (not_lt.mp hc)
    rw [hout] at this; cases this
  have h4 : dist2 a p + dist2 (a.mul Chord.fNeg1) p ≤ 4 + 4 * NU * eps := by
    have e : dist2 a p + dist2 (a.mul Chord.fNeg1) p = 2 * nrm2 a + 2 * nrm2 p := by
      unfold dist2 nrm2; rw [ex, ey, ez]; ring
    rw [e]
    have := nrm2_le ha
    have := nrm2_le hp
    linarith
  exact compl_core u2 u1 h3 h4 ls hr0 hr4

end S2Proofs.CapF64
