/-
  S2Proofs.CapF64.Between — value semantics of the comparisons / `fmin` / `fmax` of the soft-float on finite
  values, and the two-sided rounding error bound of `S2.Chord.between` (= `ChordAngleBetweenPoints`):

      between a b = fmin 4 (((a.x ⊖ b.x) ⊗ (a.x ⊖ b.x) ⊕ (a.y ⊖ b.y) ⊗ (a.y ⊖ b.y)) ⊕ (a.z ⊖ b.z) ⊗ (a.z ⊖ b.z))

  Every term carries at most `(1 ± u)^5`, the absolute (underflow) part is at most `3·eR·(1+u)² ≤ 4·eR`.
-/
import Mathlib.Tactic.Ring
import Mathlib.Tactic.Linarith
import Mathlib.Tactic.Positivity
import Mathlib.Tactic.NormNum
import Mathlib.Tactic.FieldSimp
import S2Proofs.CapF64.Defs

namespace S2Proofs.CapF64
open S2 S2.Exact S2Proofs.F64Order S2Proofs.FloatErr

/-! ### comparisons -/

/-- value semantics of comparisons / min / max for finite floats -/
theorem le_iff_val {x y : F64} (hx : Fin x) (hy : Fin y) : F64.le x y = true ↔ val x ≤ val y := by
  rw [le_iff hx hy]
  unfold val
  rw [div_le_div_iff_of_pos_right (by positivity)]
  exact Int.cast_le.symm

theorem lt_iff_val {x y : F64} (hx : Fin x) (hy : Fin y) : F64.lt x y = true ↔ val x < val y := by
  rw [lt_iff hx hy]
  unfold val
  rw [div_lt_div_iff_of_pos_right (by positivity)]
  exact Int.cast_lt.symm

theorem feq_iff_val {x y : F64} (hx : Fin x) (hy : Fin y) : F64.feq x y = true ↔ val x = val y := by
  rw [feq_iff hx hy]
  unfold val
  have h : (2 : ℝ) ^ 1074 ≠ 0 := by positivity
  rw [div_left_inj' h]
  exact Int.cast_inj.symm

theorem val_fmin {x y : F64} (hx : Fin x) (hy : Fin y) :
    Fin (F64.fmin x y) ∧ val (F64.fmin x y) = min (val x) (val y) := by
  unfold F64.fmin
  simp only [isNaN_false hx, isNaN_false hy, isInf_false hx, isInf_false hy, Bool.false_and, Bool.or_self,
    Bool.false_eq_true, if_false]
  by_cases hz : (x.isZero && y.isZero) = true
  · rw [if_pos hz]
    rw [Bool.and_eq_true] at hz
    have vx := val_of_isZero hz.1
    have vy := val_of_isZero hz.2
    by_cases hs : x.signBit = true
    · rw [if_pos hs]; exact ⟨hx, by rw [vx, vy]; simp⟩
    · rw [if_neg hs]; exact ⟨hy, by rw [vx, vy]; simp⟩
  · rw [if_neg hz]
    by_cases hl : F64.lt x y = true
    · rw [if_pos hl]
      have := (lt_iff_val hx hy).mp hl
      exact ⟨hx, (min_eq_left this.le).symm⟩
    · rw [if_neg hl]
      have := not_lt.mp (fun h => hl ((lt_iff_val hx hy).mpr h))
      exact ⟨hy, (min_eq_right this).symm⟩

theorem val_fmax {x y : F64} (hx : Fin x) (hy : Fin y) :
    Fin (F64.fmax x y) ∧ val (F64.fmax x y) = max (val x) (val y) := by
  unfold F64.fmax
  simp only [isNaN_false hx, isNaN_false hy, isInf_false hx, isInf_false hy, Bool.false_and, Bool.or_self,
    Bool.false_eq_true, if_false]
  by_cases hz : (x.isZero && y.isZero) = true
  · rw [if_pos hz]
    rw [Bool.and_eq_true] at hz
    have vx := val_of_isZero hz.1
    have vy := val_of_isZero hz.2
    by_cases hs : x.signBit = true
    · rw [if_pos hs]; exact ⟨hy, by rw [vx, vy]; simp⟩
    · rw [if_neg hs]; exact ⟨hx, by rw [vx, vy]; simp⟩
  · rw [if_neg hz]
    by_cases hl : F64.gt x y = true
    · rw [if_pos hl]
      have := (lt_iff_val hy hx).mp hl
      exact ⟨hx, (max_eq_left this.le).symm⟩
    · rw [if_neg hl]
      have := not_lt.mp (fun h => hl ((lt_iff_val hy hx).mpr h))
      exact ⟨hy, (max_eq_right this).symm⟩

/-! ### constants -/

theorem val_f4 : Fin Chord.f4 ∧ val Chord.f4 = 4 := by
  have h : Fin Chord.f4 ∧ toInt Chord.f4 = 4 * 2 ^ 1074 := by decide +kernel
  refine ⟨h.1, ?_⟩
  unfold val; rw [h.2]; push_cast
  field_simp

theorem val_f0 : Fin Chord.f0 ∧ val Chord.f0 = 0 := zero_val false

theorem val_fNeg1 : Fin Chord.fNeg1 ∧ val Chord.fNeg1 = -1 := by
  have h : Fin Chord.fNeg1 ∧ toInt Chord.fNeg1 = -(2 ^ 1074) := by decide +kernel
  refine ⟨h.1, ?_⟩
  unfold val; rw [h.2]; push_cast
  field_simp

/-! ### Normalize-grade vectors -/

/-- coordinates of a Normalize-grade vector -/
theorem nunit_coord_le {v : V3} (h : NUnit v) : |val v.x| ≤ 2 ∧ |val v.y| ≤ 2 ∧ |val v.z| ≤ 2 := by
  obtain ⟨_, h⟩ := h
  have h4 : NU * eps ≤ 1 := by unfold eps NU; norm_num
  have hn : nrm2 v ≤ 2 := by
    have := (abs_le.mp h).2
    linarith
  unfold nrm2 at hn
  have hx := sq_nonneg (val v.x)
  have hy := sq_nonneg (val v.y)
  have hz := sq_nonneg (val v.z)
  refine ⟨abs_le.mpr ⟨?_, ?_⟩, abs_le.mpr ⟨?_, ?_⟩, abs_le.mpr ⟨?_, ?_⟩⟩ <;> nlinarith

/-! ### integrality of the values: multiples of `2^-1074` -/

theorem eR_eq : eR = 1 / (2 ^ 1074 : ℝ) / 2 := by
  unfold eR
  rw [show (1075 : ℕ) = 1074 + 1 from rfl, pow_succ]
  field_simp

/-- a value that is at least `-eR` (half the smallest subnormal) is nonnegative -/
theorem val_nonneg_of_ge {x : F64} (h : -eR ≤ val x) : 0 ≤ val x := by
  by_contra hneg
  have hneg := not_le.mp hneg
  have hK : (0 : ℝ) < 2 ^ 1074 := by positivity
  have hKi : (0 : ℝ) < 1 / 2 ^ 1074 := by positivity
  have ht : toInt x < 0 := by
    by_contra hn
    have hn := not_lt.mp hn
    have : (0 : ℝ) ≤ (toInt x : ℝ) := by exact_mod_cast hn
    have : 0 ≤ val x := by unfold val; positivity
    linarith
  have ht' : (toInt x : ℝ) ≤ -1 := by
    have : toInt x ≤ -1 := by omega
    exact_mod_cast this
  have hv : val x ≤ (-1) / 2 ^ 1074 := by
    unfold val
    exact div_le_div_of_nonneg_right ht' hK.le
  rw [eR_eq] at h
  have : (-1 : ℝ) / 2 ^ 1074 = -(1 / 2 ^ 1074) := by ring
  linarith

/-- a value within `eR` of zero is zero -/
theorem val_eq_zero_of_abs_le {x : F64} (h : |val x| ≤ eR) : val x = 0 := by
  obtain ⟨h1, h2⟩ := abs_le.mp h
  have p1 := val_nonneg_of_ge h1
  have hn : -eR ≤ val (F64.neg x) := by rw [val_neg]; linarith
  have p2 := val_nonneg_of_ge hn
  rw [val_neg] at p2
  linarith

/-! ### relative error bookkeeping -/

/-- `X` is `P` up to `k` relative roundings -/
def Bnd (k : ℕ) (P X : ℝ) : Prop := P * (1 - uR) ^ k ≤ X ∧ X ≤ P * (1 + uR) ^ k

theorem one_sub_uR_nonneg : 0 ≤ 1 - uR := by have := uR_le_one; linarith

theorem Bnd.zero (P : ℝ) : Bnd 0 P P := by unfold Bnd; simp

theorem Bnd.step {k : ℕ} {P X δ : ℝ} (hP : 0 ≤ P) (h : Bnd k P X) (hδ : |δ| ≤ uR) :
    Bnd (k + 1) P (X * (1 + δ)) := by
  obtain ⟨h1, h2⟩ := h
  obtain ⟨d1, d2⟩ := abs_le.mp hδ
  have hu := one_sub_uR_nonneg
  have hL : 0 ≤ P * (1 - uR) ^ k := mul_nonneg hP (pow_nonneg hu _)
  have hX : 0 ≤ X := le_trans hL h1
  constructor
  · calc P * (1 - uR) ^ (k + 1) = P * (1 - uR) ^ k * (1 - uR) := by ring
      _ ≤ X * (1 - uR) := mul_le_mul_of_nonneg_right h1 hu
      _ ≤ X * (1 + δ) := mul_le_mul_of_nonneg_left (by linarith) hX
  · calc X * (1 + δ) ≤ X * (1 + uR) := mul_le_mul_of_nonneg_left (by linarith) hX
      _ ≤ P * (1 + uR) ^ k * (1 + uR) := mul_le_mul_of_nonneg_right h2 (by linarith [uR_nonneg])
      _ = P * (1 + uR) ^ (k + 1) := by ring

theorem Bnd.weaken {k : ℕ} {P X : ℝ} (hP : 0 ≤ P) (h : Bnd k P X) : Bnd (k + 1) P X := by
  have := h.step hP (δ := 0) (by simp [uR_nonneg])
  simpa using this

theorem Bnd.add {k : ℕ} {P Q X Y : ℝ} (h : Bnd k P X) (h' : Bnd k Q Y) : Bnd k (P + Q) (X + Y) := by
  obtain ⟨h1, h2⟩ := h
  obtain ⟨h3, h4⟩ := h'
  constructor
  · rw [add_mul]; linarith
  · rw [add_mul]; linarith

theorem abs_one_add_le {δ : ℝ} (hδ : |δ| ≤ uR) : |1 + δ| ≤ 1 + uR := by
  obtain ⟨d1, d2⟩ := abs_le.mp hδ
  rw [abs_le]; constructor <;> linarith [uR_nonneg]

theorem one_add_uR_le : 1 + uR ≤ 11 / 10 := by unfold uR; norm_num

/-- the real-number core of `between_spec` -/
theorem between_core {e1 e2 e3 δ1 δ2 δ3 δ1' δ2' δ3' η1 η2 η3 δ4 δ5 d1 d2 d3 q1 q2 q3 s1 s : ℝ}
    (b1 : |δ1| ≤ uR) (b2 : |δ2| ≤ uR) (b3 : |δ3| ≤ uR)
    (b1' : |δ1'| ≤ uR) (b2' : |δ2'| ≤ uR) (b3' : |δ3'| ≤ uR)
    (c1 : |η1| ≤ eR) (c2 : |η2| ≤ eR) (c3 : |η3| ≤ eR) (b4 : |δ4| ≤ uR) (b5 : |δ5| ≤ uR)
    (hd1 : d1 = e1 * (1 + δ1)) (hd2 : d2 = e2 * (1 + δ2)) (hd3 : d3 = e3 * (1 + δ3))
    (hq1 : q1 = d1 * d1 * (1 + δ1') + η1) (hq2 : q2 = d2 * d2 * (1 + δ2') + η2)
    (hq3 : q3 = d3 * d3 * (1 + δ3') + η3)
    (hs1 : s1 = (q1 + q2) * (1 + δ4)) (hs : s = (s1 + q3) * (1 + δ5)) :
    s ≤ (e1 ^ 2 + e2 ^ 2 + e3 ^ 2) * (1 + uR) ^ 5 + 4 * eR ∧
    (e1 ^ 2 + e2 ^ 2 + e3 ^ 2) * (1 - uR) ^ 5 ≤ s + 4 * eR := by
  subst hd1 hd2 hd3 hq1 hq2 hq3 hs1 hs
  have p1 : 0 ≤ e1 ^ 2 := sq_nonneg _
  have p2 : 0 ≤ e2 ^ 2 := sq_nonneg _
  have p3 : 0 ≤ e3 ^ 2 := sq_nonneg _
  have B1 : Bnd 5 (e1 ^ 2) (e1 ^ 2 * (1 + δ1) * (1 + δ1) * (1 + δ1') * (1 + δ4) * (1 + δ5)) :=
    (((((Bnd.zero _).step p1 b1).step p1 b1).step p1 b1').step p1 b4).step p1 b5
  have B2 : Bnd 5 (e2 ^ 2) (e2 ^ 2 * (1 + δ2) * (1 + δ2) * (1 + δ2') * (1 + δ4) * (1 + δ5)) :=
    (((((Bnd.zero _).step p2 b2).step p2 b2).step p2 b2').step p2 b4).step p2 b5
  have B3 : Bnd 5 (e3 ^ 2) (e3 ^ 2 * (1 + δ3) * (1 + δ3) * (1 + δ3') * (1 + δ5)) :=
    (((((Bnd.zero _).step p3 b3).step p3 b3).step p3 b3').step p3 b5).weaken p3
  obtain ⟨L, U⟩ := (B1.add B2).add B3
  -- the absolute part
  have hc := one_add_uR_le
  have hc0 : 0 ≤ 1 + uR := by linarith [uR_nonneg]
  have k4 := abs_one_add_le b4
  have k5 := abs_one_add_le b5
  have t1 : ∀ η : ℝ, |η| ≤ eR → |η * (1 + δ4) * (1 + δ5)| ≤ eR * (11 / 10) * (11 / 10) := by
    intro η hη
    rw [abs_mul, abs_mul]
    have : |η| * |1 + δ4| ≤ eR * (11 / 10) :=
      mul_le_mul hη (le_trans k4 hc) (abs_nonneg _) eR_nonneg
    exact mul_le_mul this (le_trans k5 hc) (abs_nonneg _) (by linarith [eR_nonneg])
  have t2 : |η3 * (1 + δ5)| ≤ eR * (11 / 10) := by
    rw [abs_mul]
    exact mul_le_mul c3 (le_trans k5 hc) (abs_nonneg _) eR_nonneg
  have a1 := abs_le.mp (t1 η1 c1)
  have a2 := abs_le.mp (t1 η2 c2)
  have a3 := abs_le.mp t2
  have he := eR_nonneg
  have key : ((e1 * (1 + δ1) * (e1 * (1 + δ1)) * (1 + δ1') + η1 +
        (e2 * (1 + δ2) * (e2 * (1 + δ2)) * (1 + δ2') + η2)) * (1 + δ4) +
        (e3 * (1 + δ3) * (e3 * (1 + δ3)) * (1 + δ3') + η3)) * (1 + δ5)
      = e1 ^ 2 * (1 + δ1) * (1 + δ1) * (1 + δ1') * (1 + δ4) * (1 + δ5) +
        e2 ^ 2 * (1 + δ2) * (1 + δ2) * (1 + δ2') * (1 + δ4) * (1 + δ5) +
        e3 ^ 2 * (1 + δ3) * (1 + δ3) * (1 + δ3') * (1 + δ5) +
        (η1 * (1 + δ4) * (1 + δ5) + η2 * (1 + δ4) * (1 + δ5) + η3 * (1 + δ5)) := by ring
  rw [key]
  constructor <;> linarith [a1.1, a1.2, a2.1, a2.2, a3.1, a3.2]

/-! ### the float operations with magnitude bookkeeping -/

theorem sub_op {x y : F64} {M : ℝ} (hx : Fin x) (hy : Fin y) (hM : |val x - val y| ≤ M) (hM' : M ≤ 2 ^ 30) :
    ∃ δ : ℝ, |δ| ≤ uR ∧ val (x - y) = (val x - val y) * (1 + δ) ∧ Fin (x - y) ∧ |val (x - y)| ≤ 2 * M := by
  obtain ⟨δ, hδ, hv, hf⟩ := stdModel.sub x y hx hy (lt_big (le_trans hM hM'))
  refine ⟨δ, hδ, hv, hf, ?_⟩
  show |val (F64.sub x y)| ≤ 2 * M
  rw [hv, abs_mul]
  have h1 := abs_one_add_le hδ
  have h2 := one_add_uR_le
  have := mul_le_mul hM (show |1 + δ| ≤ 2 by linarith) (abs_nonneg _) (le_trans (abs_nonneg _) hM)
  linarith

theorem add_op {x y : F64} {M : ℝ} (hx : Fin x) (hy : Fin y) (hM : |val x + val y| ≤ M) (hM' : M ≤ 2 ^ 30) :
    ∃ δ : ℝ, |δ| ≤ uR ∧ val (x + y) = (val x + val y) * (1 + δ) ∧ Fin (x + y) ∧ |val (x + y)| ≤ 2 * M := by
  obtain ⟨δ, hδ, hv, hf⟩ := stdModel.add x y hx hy (lt_big (le_trans hM hM'))
  refine ⟨δ, hδ, hv, hf, ?_⟩
  show |val (F64.add x y)| ≤ 2 * M
  rw [hv, abs_mul]
  have h1 := abs_one_add_le hδ
  have h2 := one_add_uR_le
  have := mul_le_mul hM (show |1 + δ| ≤ 2 by linarith) (abs_nonneg _) (le_trans (abs_nonneg _) hM)
  linarith

theorem mul_op {x y : F64} {M : ℝ} (hx : Fin x) (hy : Fin y) (hM : |val x * val y| ≤ M) (hM' : M ≤ 2 ^ 30) :
    ∃ δ η : ℝ, |δ| ≤ uR ∧ |η| ≤ eR ∧ val (x * y) = val x * val y * (1 + δ) + η ∧ Fin (x * y) ∧
      |val (x * y)| ≤ 2 * M + 1 := by
  obtain ⟨δ, η, hδ, hη, hv, hf⟩ := stdModel.mul x y hx hy (lt_big (le_trans hM hM'))
  refine ⟨δ, η, hδ, hη, hv, hf, ?_⟩
  show |val (F64.mul x y)| ≤ 2 * M + 1
  rw [hv]
  have h0 := abs_add_le (val x * val y * (1 + δ)) η
  rw [abs_mul] at h0
  have h1 := abs_one_add_le hδ
  have h2 := one_add_uR_le
  have := mul_le_mul hM (show |1 + δ| ≤ 2 by linarith) (abs_nonneg _) (le_trans (abs_nonneg _) hM)
  have := eR_le_one
  linarith

/-- one squared coordinate difference -/
theorem sqdiff_op {x y : F64} (hx : Fin x) (hy : Fin y) (mx : |val x| ≤ 2) (my : |val y| ≤ 2) :
    ∃ δ δ' η d : ℝ, |δ| ≤ uR ∧ |δ'| ≤ uR ∧ |η| ≤ eR ∧ d = (val x - val y) * (1 + δ) ∧
      val ((x - y) * (x - y)) = d * d * (1 + δ') + η ∧ Fin ((x - y) * (x - y)) ∧
      |val ((x - y) * (x - y))| ≤ 129 ∧ 0 ≤ val ((x - y) * (x - y)) := by
  have m0 : |val x - val y| ≤ 4 := by
    have := abs_sub (val x) (val y); linarith
  obtain ⟨δ, hδ, hv, hf, hm⟩ := sub_op hx hy m0 (by norm_num)
  have m1 : |val (x - y) * val (x - y)| ≤ 64 := by
    rw [abs_mul]
    have := mul_le_mul hm hm (abs_nonneg _) (by norm_num)
    linarith
  obtain ⟨δ', η, hδ', hη, hv', hf', hm'⟩ := mul_op hf hf m1 (by norm_num)
  refine ⟨δ, δ', η, _, hδ, hδ', hη, rfl, by rw [hv', hv], hf', by linarith, ?_⟩
  apply val_nonneg_of_ge
  rw [hv']
  have h1 : 0 ≤ val (x - y) * val (x - y) := mul_self_nonneg _
  have h2 : 0 ≤ 1 + δ' := by
    have := (abs_le.mp hδ').1
    have := uR_le_one
    linarith
  have := mul_nonneg h1 h2
  have := (abs_le.mp hη).1
  linarith

/-! ### MAIN -/

/-- MAIN: two-sided error bound of the computed squared chord -/
theorem between_spec (a b : V3) (ha : Fin3 a) (hb : Fin3 b)
    (hax : |val a.x| ≤ 2) (hay : |val a.y| ≤ 2) (haz : |val a.z| ≤ 2)
    (hbx : |val b.x| ≤ 2) (hby : |val b.y| ≤ 2) (hbz : |val b.z| ≤ 2) :
    Fin (Chord.between a b) ∧ 0 ≤ val (Chord.between a b) ∧ val (Chord.between a b) ≤ 4 ∧
    val (Chord.between a b) ≤ dist2 a b * (1 + uR) ^ 5 + 4 * eR ∧
    (val (Chord.between a b) = 4 ∨ dist2 a b * (1 - uR) ^ 5 ≤ val (Chord.between a b) + 4 * eR) := by
  obtain ⟨ha1, ha2, ha3⟩ := ha
  obtain ⟨hb1, hb2, hb3⟩ := hb
  obtain ⟨δ1, δ1', η1, d1, b1, b1', c1, hd1, hq1, f1, m1, n1⟩ := sqdiff_op ha1 hb1 hax hbx
  obtain ⟨δ2, δ2', η2, d2, b2, b2', c2, hd2, hq2, f2, m2, n2⟩ := sqdiff_op ha2 hb2 hay hby
  obtain ⟨δ3, δ3', η3, d3, b3, b3', c3, hd3, hq3, f3, m3, n3⟩ := sqdiff_op ha3 hb3 haz hbz
  set q1 := (a.x - b.x) * (a.x - b.x) with hQ1
  set q2 := (a.y - b.y) * (a.y - b.y) with hQ2
  set q3 := (a.z - b.z) * (a.z - b.z) with hQ3
  have m12 : |val q1 + val q2| ≤ 258 := by
    have := abs_add_le (val q1) (val q2); linarith
  obtain ⟨δ4, b4, hs1, f4, m4⟩ := add_op f1 f2 m12 (by norm_num)
  have m123 : |val (q1 + q2) + val q3| ≤ 645 := by
    have := abs_add_le (val (q1 + q2)) (val q3); linarith
  obtain ⟨δ5, b5, hs, f5, m5⟩ := add_op f4 f3 m123 (by norm_num)
  have hn : Chord.between a b = F64.fmin Chord.f4 (q1 + q2 + q3) := rfl
  have hpos : ∀ δ : ℝ, |δ| ≤ uR → 0 ≤ 1 + δ := by
    intro δ hδ
    have := (abs_le.mp hδ).1
    have := uR_le_one
    linarith
  have n12 : 0 ≤ val (q1 + q2) := by
    rw [hs1]; exact mul_nonneg (by linarith) (hpos _ b4)
  have n123 : 0 ≤ val (q1 + q2 + q3) := by
    rw [hs]; exact mul_nonneg (by linarith) (hpos _ b5)
  obtain ⟨U, L⟩ := between_core b1 b2 b3 b1' b2' b3' c1 c2 c3 b4 b5 hd1 hd2 hd3 hq1 hq2 hq3 hs1 hs
  obtain ⟨ff, fv⟩ := val_fmin val_f4.1 f5
  rw [val_f4.2] at fv
  rw [hn, fv]
  have hD : dist2 a b = (val a.x - val b.x) ^ 2 + (val a.y - val b.y) ^ 2 + (val a.z - val b.z) ^ 2 := rfl
  rw [hD]
  refine ⟨ff, le_min (by norm_num) n123, min_le_left _ _, le_trans (min_le_right _ _) U, ?_⟩
  by_cases h4 : 4 ≤ val (q1 + q2 + q3)
  · left; exact min_eq_left h4
  · right; rw [min_eq_right (not_le.mp h4).le]; exact L

/-! ### the chord of a point with itself -/

theorem sub_self_val {x : F64} (hx : Fin x) : Fin (x - x) ∧ val (x - x) = 0 := by
  obtain ⟨δ, _, hv, hf⟩ := stdModel.sub x x hx hx (by rw [sub_self, abs_zero]; positivity)
  exact ⟨hf, by show val (F64.sub x x) = 0; rw [hv, sub_self, zero_mul]⟩

theorem mul_zero_val {x : F64} (hx : Fin x) (h : val x = 0) : Fin (x * x) ∧ val (x * x) = 0 := by
  obtain ⟨δ, η, _, hη, hv, hf⟩ := stdModel.mul x x hx hx (by rw [h, mul_zero, abs_zero]; positivity)
  refine ⟨hf, ?_⟩
  show val (F64.mul x x) = 0
  apply val_eq_zero_of_abs_le
  rw [hv, h]; simpa using hη

theorem add_zero_val {x y : F64} (hx : Fin x) (hy : Fin y) (h : val x = 0) (h' : val y = 0) :
    Fin (x + y) ∧ val (x + y) = 0 := by
  obtain ⟨δ, _, hv, hf⟩ := stdModel.add x y hx hy (by rw [h, h', add_zero, abs_zero]; positivity)
  exact ⟨hf, by show val (F64.add x y) = 0; rw [hv, h, h', add_zero, zero_mul]⟩

/-- the computed chord of a point with itself is (plus) zero -/
theorem between_self (a : V3) (ha : Fin3 a) : Fin (Chord.between a a) ∧ val (Chord.between a a) = 0 := by
  obtain ⟨ha1, ha2, ha3⟩ := ha
  obtain ⟨f1, v1⟩ := sub_self_val ha1
  obtain ⟨f2, v2⟩ := sub_self_val ha2
  obtain ⟨f3, v3⟩ := sub_self_val ha3
  obtain ⟨g1, w1⟩ := mul_zero_val f1 v1
  obtain ⟨g2, w2⟩ := mul_zero_val f2 v2
  obtain ⟨g3, w3⟩ := mul_zero_val f3 v3
  obtain ⟨k1, u1⟩ := add_zero_val g1 g2 w1 w2
  obtain ⟨k2, u2⟩ := add_zero_val k1 g3 u1 w3
  have hn : Chord.between a a = F64.fmin Chord.f4
      ((a.x - a.x) * (a.x - a.x) + (a.y - a.y) * (a.y - a.y) + (a.z - a.z) * (a.z - a.z)) := rfl
  obtain ⟨ff, fv⟩ := val_fmin val_f4.1 k2
  rw [hn]
  refine ⟨ff, ?_⟩
  rw [fv, val_f4.2, u2]
  norm_num

end S2Proofs.CapF64
