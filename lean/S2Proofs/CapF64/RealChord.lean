/-
  S2Proofs.CapF64.RealChord — real geometry of the exact chord-angle addition `caddR` (pure real analysis, no floats).

  With lengths `l = √s`, `m = √t ∈ [0,2]`, `cH l = √(1 − l²/4)` and `gF l m = l·cH m + m·cH l` one has
  `caddR s t = (gF √s √t)²` inside the region `s + t < 4` and `caddR s t = 4` outside (`sqrt_caddR`).
  Delivered: bounds, commutativity, monotonicity (`caddR_mono`), the Lipschitz bound of `√caddR` in the chord
  lengths (`sqrt_caddR_lipschitz`), the spherical triangle inequality for unit vectors via the Gram determinant
  (`unit_triangle`) and the main theorem `real_triangle_core` for Normalize-grade vectors and rounded distances.
-/
import S2Proofs.CapF64.Defs
import Mathlib.Tactic.Ring
import Mathlib.Tactic.Linarith
import Mathlib.Tactic.Positivity
import Mathlib.Tactic.NormNum
import Mathlib.Tactic.FieldSimp
import Mathlib.Tactic.LinearCombination

namespace S2Proofs.CapF64
open S2Proofs.FloatErr

/-! ## elementary bounds -/

theorem caddR_le_four (s t : ℝ) : caddR s t ≤ 4 := by
  unfold caddR
  split_ifs
  · exact le_refl _
  · exact min_le_left _ _

theorem caddR_nonneg {s t : ℝ} (hs0 : 0 ≤ s) (hs4 : s ≤ 4) (ht0 : 0 ≤ t) (ht4 : t ≤ 4) : 0 ≤ caddR s t := by
  unfold caddR
  split_ifs
  · norm_num
  · apply le_min (by norm_num)
    have h1 : 0 ≤ s * (1 - t / 4) := mul_nonneg hs0 (by linarith)
    have h2 : 0 ≤ t * (1 - s / 4) := mul_nonneg ht0 (by linarith)
    have h3 := Real.sqrt_nonneg (s * (1 - t / 4) * (t * (1 - s / 4)))
    linarith

theorem caddR_comm (s t : ℝ) : caddR s t = caddR t s := by
  unfold caddR
  rw [add_comm s t, add_comm (s * (1 - t / 4)) (t * (1 - s / 4)),
    mul_comm (s * (1 - t / 4)) (t * (1 - s / 4))]

/-! ## the half-angle cosine `cH` and the length form `gF` of the addition -/

/-- `cos` of the half angle, from the chord length `l` -/
noncomputable def cH (l : ℝ) : ℝ := Real.sqrt (1 - l ^ 2 / 4)

/-- chord length of the sum, from the chord lengths -/
noncomputable def gF (l m : ℝ) : ℝ := l * cH m + m * cH l

theorem cH_nonneg (l : ℝ) : 0 ≤ cH l := Real.sqrt_nonneg _

theorem cH_sq {l : ℝ} (h : l ^ 2 ≤ 4) : cH l ^ 2 = 1 - l ^ 2 / 4 := by
  unfold cH; exact Real.sq_sqrt (by linarith)

theorem cH_le_one (l : ℝ) : cH l ≤ 1 := by
  unfold cH; exact Real.sqrt_le_one.mpr (by nlinarith [sq_nonneg l])

theorem cH_anti {l l' : ℝ} (h0 : 0 ≤ l) (h : l ≤ l') : cH l' ≤ cH l := by
  unfold cH; exact Real.sqrt_le_sqrt (by nlinarith)

theorem gF_comm (l m : ℝ) : gF l m = gF m l := by unfold gF; ring

theorem gF_nonneg {l m : ℝ} (hl : 0 ≤ l) (hm : 0 ≤ m) : 0 ≤ gF l m := by
  unfold gF
  have := mul_nonneg hl (cH_nonneg m)
  have := mul_nonneg hm (cH_nonneg l)
  linarith

theorem gF_le_two {l m : ℝ} (hl : l ^ 2 ≤ 4) (hm : m ^ 2 ≤ 4) : gF l m ≤ 2 := by
  unfold gF
  have h1 := cH_sq hl
  have h2 := cH_sq hm
  nlinarith [sq_nonneg (l / 2 - cH m), sq_nonneg (m / 2 - cH l)]

theorem cH_boundary {l m : ℝ} (hm : 0 ≤ m) (h : l ^ 2 + m ^ 2 = 4) : cH l = m / 2 := by
  unfold cH
  rw [show 1 - l ^ 2 / 4 = (m / 2) ^ 2 by linarith [show (m / 2) ^ 2 = m ^ 2 / 4 by ring]]
  exact Real.sqrt_sq (by linarith)

theorem gF_boundary {l m : ℝ} (hl : 0 ≤ l) (hm : 0 ≤ m) (h : l ^ 2 + m ^ 2 = 4) : gF l m = 2 := by
  unfold gF
  rw [cH_boundary hm h, cH_boundary hl (by linarith : m ^ 2 + l ^ 2 = 4)]
  linarith [show l * (l / 2) + m * (m / 2) = (l ^ 2 + m ^ 2) / 2 by ring]

/-- product bound: inside the region the cosines dominate the sines crosswise -/
theorem cH_mul_ge {l m : ℝ} (hl : 0 ≤ l) (hm : 0 ≤ m) (h : l ^ 2 + m ^ 2 ≤ 4) : m * l / 4 ≤ cH m * cH l := by
  have hl4 : l ^ 2 ≤ 4 := by nlinarith [sq_nonneg m]
  have hm4 : m ^ 2 ≤ 4 := by nlinarith [sq_nonneg l]
  have h1 := cH_sq hl4
  have h2 := cH_sq hm4
  have h3 : 0 ≤ cH m * cH l := mul_nonneg (cH_nonneg _) (cH_nonneg _)
  have h4 : 0 ≤ m * l / 4 := by positivity
  rw [← sq_le_sq₀ h4 h3]
  have : (cH m * cH l) ^ 2 = (1 - m ^ 2 / 4) * (1 - l ^ 2 / 4) := by rw [mul_pow, h1, h2]
  rw [this]
  nlinarith

theorem gF_mono_left {l l' m : ℝ} (hl : 0 ≤ l) (hll : l ≤ l') (hm : 0 ≤ m) (h : l' ^ 2 + m ^ 2 ≤ 4) :
    gF l m ≤ gF l' m := by
  have hl' : 0 ≤ l' := le_trans hl hll
  have hl'4 : l' ^ 2 ≤ 4 := by nlinarith [sq_nonneg m]
  have hl4 : l ^ 2 ≤ 4 := by nlinarith
  have hm4 : m ^ 2 ≤ 4 := by nlinarith [sq_nonneg l']
  have e1 := cH_sq hl4
  have e2 := cH_sq hl'4
  have ha := cH_nonneg l
  have ha' := cH_nonneg l'
  have hb := cH_nonneg m
  have haa : cH l' ≤ cH l := cH_anti hl hll
  have p1 : m * l' / 4 ≤ cH m * cH l' := cH_mul_ge hl' hm h
  have p2 : m * l / 4 ≤ cH m * cH l := cH_mul_ge hl hm (by nlinarith)
  unfold gF
  suffices hs : m * (cH l - cH l') ≤ (l' - l) * cH m by linarith
  rcases (add_nonneg ha ha').eq_or_lt with h0 | hpos
  · have a0 : cH l = 0 := by linarith
    have a0' : cH l' = 0 := by linarith
    have : 0 ≤ (l' - l) * cH m := mul_nonneg (by linarith) hb
    rw [a0, a0', sub_zero, mul_zero]; exact this
  · have key : m * (cH l - cH l') * (cH l + cH l') ≤ (l' - l) * cH m * (cH l + cH l') := by
      have e3 : m * (cH l - cH l') * (cH l + cH l') = (l' - l) * (m * (l' + l) / 4) := by
        have : (cH l - cH l') * (cH l + cH l') = cH l ^ 2 - cH l' ^ 2 := by ring
        rw [mul_assoc, this, e1, e2]; ring
      have e4 : (l' - l) * cH m * (cH l + cH l') = (l' - l) * (cH m * cH l + cH m * cH l') := by ring
      rw [e3, e4]
      apply mul_le_mul_of_nonneg_left _ (by linarith)
      linarith
    exact le_of_mul_le_mul_right key hpos

theorem gF_mono {l l' m m' : ℝ} (hl : 0 ≤ l) (hll : l ≤ l') (hm : 0 ≤ m) (hmm : m ≤ m') (h : l' ^ 2 + m' ^ 2 ≤ 4) :
    gF l m ≤ gF l' m' := by
  have hl' : 0 ≤ l' := le_trans hl hll
  have h1 : gF l m ≤ gF l' m := gF_mono_left hl hll hm (by nlinarith)
  have h2 : gF m l' ≤ gF m' l' := gF_mono_left hm hmm hl' (by linarith)
  rw [gF_comm m l', gF_comm m' l'] at h2
  exact le_trans h1 h2

/-- upper Lipschitz bound of `gF`, on all of `[0,2]²` -/
theorem gF_lip {l l' m m' : ℝ} (hl : 0 ≤ l) (hll : l ≤ l') (hm : 0 ≤ m) (hmm : m ≤ m') :
    gF l' m' ≤ gF l m + (l' - l) + (m' - m) := by
  have hl' : 0 ≤ l' := le_trans hl hll
  have hm' : 0 ≤ m' := le_trans hm hmm
  unfold gF
  have h1 : l' * cH m' ≤ l' * cH m := mul_le_mul_of_nonneg_left (cH_anti hm hmm) hl'
  have h2 : m' * cH l' ≤ m' * cH l := mul_le_mul_of_nonneg_left (cH_anti hl hll) hm'
  have h3 : (l' - l) * cH m ≤ (l' - l) * 1 := mul_le_mul_of_nonneg_left (cH_le_one m) (by linarith)
  have h4 : (m' - m) * cH l ≤ (m' - m) * 1 := mul_le_mul_of_nonneg_left (cH_le_one l) (by linarith)
  nlinarith

/-! ## `caddR` in terms of `gF` -/

theorem caddR_inside {s t : ℝ} (hs0 : 0 ≤ s) (ht0 : 0 ≤ t) (h : ¬ 4 ≤ s + t) :
    caddR s t = gF (Real.sqrt s) (Real.sqrt t) ^ 2 := by
  have hs4 : s ≤ 4 := by linarith
  have ht4 : t ≤ 4 := by linarith
  have el : Real.sqrt s ^ 2 = s := Real.sq_sqrt hs0
  have em : Real.sqrt t ^ 2 = t := Real.sq_sqrt ht0
  have hl := Real.sqrt_nonneg s
  have hm := Real.sqrt_nonneg t
  have hle : gF (Real.sqrt s) (Real.sqrt t) ≤ 2 := gF_le_two (by linarith) (by linarith)
  have h0 : 0 ≤ gF (Real.sqrt s) (Real.sqrt t) := gF_nonneg hl hm
  have ea : cH (Real.sqrt s) ^ 2 = 1 - s / 4 := by rw [cH_sq (by linarith), el]
  have eb : cH (Real.sqrt t) ^ 2 = 1 - t / 4 := by rw [cH_sq (by linarith), em]
  have eX : Real.sqrt (s * (1 - t / 4)) = Real.sqrt s * cH (Real.sqrt t) := by
    rw [Real.sqrt_mul hs0]; unfold cH; rw [em]
  have eY : Real.sqrt (t * (1 - s / 4)) = Real.sqrt t * cH (Real.sqrt s) := by
    rw [Real.sqrt_mul ht0]; unfold cH; rw [el]
  have eXY : Real.sqrt (s * (1 - t / 4) * (t * (1 - s / 4)))
      = Real.sqrt s * cH (Real.sqrt t) * (Real.sqrt t * cH (Real.sqrt s)) := by
    rw [Real.sqrt_mul (mul_nonneg hs0 (by linarith)), eX, eY]
  have eG : s * (1 - t / 4) + t * (1 - s / 4) + 2 * Real.sqrt (s * (1 - t / 4) * (t * (1 - s / 4)))
      = gF (Real.sqrt s) (Real.sqrt t) ^ 2 := by
    rw [eXY]; unfold gF
    have : (Real.sqrt s * cH (Real.sqrt t) + Real.sqrt t * cH (Real.sqrt s)) ^ 2
        = Real.sqrt s ^ 2 * cH (Real.sqrt t) ^ 2 + Real.sqrt t ^ 2 * cH (Real.sqrt s) ^ 2
          + 2 * (Real.sqrt s * cH (Real.sqrt t) * (Real.sqrt t * cH (Real.sqrt s))) := by ring
    rw [this, el, em, ea, eb]
  unfold caddR
  rw [if_neg h, eG]
  apply min_eq_right
  nlinarith

theorem sqrt_caddR {s t : ℝ} (hs0 : 0 ≤ s) (ht0 : 0 ≤ t) :
    Real.sqrt (caddR s t) = if 4 ≤ s + t then 2 else gF (Real.sqrt s) (Real.sqrt t) := by
  split_ifs with h
  · unfold caddR; rw [if_pos h]
    rw [show (4 : ℝ) = 2 ^ 2 by norm_num]; exact Real.sqrt_sq (by norm_num)
  · rw [caddR_inside hs0 ht0 h]
    exact Real.sqrt_sq (gF_nonneg (Real.sqrt_nonneg _) (Real.sqrt_nonneg _))

/-! ## monotonicity -/

theorem caddR_mono {s s' t t' : ℝ} (hs0 : 0 ≤ s) (hss : s ≤ s') (hs4 : s' ≤ 4) (ht0 : 0 ≤ t) (htt : t ≤ t') (ht4 : t' ≤ 4) :
    caddR s t ≤ caddR s' t' := by
  by_cases h' : 4 ≤ s' + t'
  · have : caddR s' t' = 4 := by unfold caddR; rw [if_pos h']
    rw [this]; exact caddR_le_four s t
  · have h : ¬ 4 ≤ s + t := by intro hc; apply h'; linarith
    have hs'0 : 0 ≤ s' := le_trans hs0 hss
    have ht'0 : 0 ≤ t' := le_trans ht0 htt
    rw [caddR_inside hs0 ht0 h, caddR_inside hs'0 ht'0 h']
    have hG : gF (Real.sqrt s) (Real.sqrt t) ≤ gF (Real.sqrt s') (Real.sqrt t') :=
      gF_mono (Real.sqrt_nonneg _) (Real.sqrt_le_sqrt hss) (Real.sqrt_nonneg _) (Real.sqrt_le_sqrt htt)
        (by rw [Real.sq_sqrt hs'0, Real.sq_sqrt ht'0]; linarith)
    exact pow_le_pow_left₀ (gF_nonneg (Real.sqrt_nonneg _) (Real.sqrt_nonneg _)) hG 2

theorem caddR_zero_right {s : ℝ} (hs0 : 0 ≤ s) (hs4 : s ≤ 4) : caddR s 0 = s := by
  unfold caddR
  split_ifs with h
  · linarith
  · have : s * (1 - 0 / 4) * (0 * (1 - s / 4)) = 0 := by ring
    rw [this, Real.sqrt_zero]
    rw [min_eq_right] <;> linarith

theorem le_caddR_left {s t : ℝ} (hs0 : 0 ≤ s) (hs4 : s ≤ 4) (ht0 : 0 ≤ t) (ht4 : t ≤ 4) : s ≤ caddR s t := by
  have := caddR_mono hs0 (le_refl s) hs4 (le_refl (0 : ℝ)) ht0 ht4
  rwa [caddR_zero_right hs0 hs4] at this

theorem le_caddR_right {s t : ℝ} (hs0 : 0 ≤ s) (hs4 : s ≤ 4) (ht0 : 0 ≤ t) (ht4 : t ≤ 4) : t ≤ caddR s t := by
  rw [caddR_comm]; exact le_caddR_left ht0 ht4 hs0 hs4

/-! ## Lipschitz bound of the square root -/

theorem sqrt_caddR_lipschitz {s s' t t' : ℝ} (hs0 : 0 ≤ s) (hss : s ≤ s') (hs4 : s' ≤ 4) (ht0 : 0 ≤ t) (htt : t ≤ t') (ht4 : t' ≤ 4) :
    Real.sqrt (caddR s' t') ≤ Real.sqrt (caddR s t) + (Real.sqrt s' - Real.sqrt s) + (Real.sqrt t' - Real.sqrt t) := by
  have hs'0 : 0 ≤ s' := le_trans hs0 hss
  have ht'0 : 0 ≤ t' := le_trans ht0 htt
  have el : Real.sqrt s ^ 2 = s := Real.sq_sqrt hs0
  have em : Real.sqrt t ^ 2 = t := Real.sq_sqrt ht0
  have el' : Real.sqrt s' ^ 2 = s' := Real.sq_sqrt hs'0
  have em' : Real.sqrt t' ^ 2 = t' := Real.sq_sqrt ht'0
  have hl := Real.sqrt_nonneg s
  have hm := Real.sqrt_nonneg t
  have hll : Real.sqrt s ≤ Real.sqrt s' := Real.sqrt_le_sqrt hss
  have hmm : Real.sqrt t ≤ Real.sqrt t' := Real.sqrt_le_sqrt htt
  rw [sqrt_caddR hs0 ht0, sqrt_caddR hs'0 ht'0]
  generalize Real.sqrt s = l at *
  generalize Real.sqrt t = m at *
  generalize Real.sqrt s' = l' at *
  generalize Real.sqrt t' = m' at *
  have hl' : 0 ≤ l' := le_trans hl hll
  have hm' : 0 ≤ m' := le_trans hm hmm
  split_ifs with h' h h
  · linarith
  · -- (l,m) inside, (l',m') outside: pass through a boundary point
    by_cases hc : 4 ≤ l' ^ 2 + m ^ 2
    · have hq : 0 ≤ 4 - m ^ 2 := by nlinarith
      have eq2 : Real.sqrt (4 - m ^ 2) ^ 2 = 4 - m ^ 2 := Real.sq_sqrt hq
      have h1 : l ≤ Real.sqrt (4 - m ^ 2) := Real.le_sqrt_of_sq_le (by linarith)
      have h2 : Real.sqrt (4 - m ^ 2) ≤ l' := by
        rw [Real.sqrt_le_iff]; exact ⟨hl', by linarith⟩
      have hb : gF (Real.sqrt (4 - m ^ 2)) m = 2 := gF_boundary (Real.sqrt_nonneg _) hm (by linarith)
      have := gF_lip hl h1 hm (le_refl m)
      linarith
    · have hq : 0 ≤ 4 - l' ^ 2 := by nlinarith [sq_nonneg m]
      have eq2 : Real.sqrt (4 - l' ^ 2) ^ 2 = 4 - l' ^ 2 := Real.sq_sqrt hq
      have h1 : m ≤ Real.sqrt (4 - l' ^ 2) := Real.le_sqrt_of_sq_le (by linarith)
      have h2 : Real.sqrt (4 - l' ^ 2) ≤ m' := by
        rw [Real.sqrt_le_iff]; exact ⟨hm', by linarith⟩
      have hb : gF l' (Real.sqrt (4 - l' ^ 2)) = 2 := gF_boundary hl' (Real.sqrt_nonneg _) (by linarith)
      have := gF_lip hl hll hm h1
      linarith
  · exfalso; apply h'; linarith
  · exact gF_lip hl hll hm hmm

/-! ## the spherical triangle inequality (Gram determinant) -/

theorem gram_identity (x1 x2 x3 y1 y2 y3 z1 z2 z3 : ℝ) :
    (x1 * (y2 * z3 - y3 * z2) - x2 * (y1 * z3 - y3 * z1) + x3 * (y1 * z2 - y2 * z1)) ^ 2
      = (x1 ^ 2 + x2 ^ 2 + x3 ^ 2) * (y1 ^ 2 + y2 ^ 2 + y3 ^ 2) * (z1 ^ 2 + z2 ^ 2 + z3 ^ 2)
        + 2 * (x1 * y1 + x2 * y2 + x3 * y3) * (y1 * z1 + y2 * z2 + y3 * z3) * (x1 * z1 + x2 * z2 + x3 * z3)
        - (x1 ^ 2 + x2 ^ 2 + x3 ^ 2) * (y1 * z1 + y2 * z2 + y3 * z3) ^ 2
        - (y1 ^ 2 + y2 ^ 2 + y3 ^ 2) * (x1 * z1 + x2 * z2 + x3 * z3) ^ 2
        - (z1 ^ 2 + z2 ^ 2 + z3 ^ 2) * (x1 * y1 + x2 * y2 + x3 * y3) ^ 2 := by
  ring

theorem unit_dist2_le_four (x1 x2 x3 y1 y2 y3 : ℝ)
    (hx : x1 ^ 2 + x2 ^ 2 + x3 ^ 2 = 1) (hy : y1 ^ 2 + y2 ^ 2 + y3 ^ 2 = 1) :
    (x1 - y1) ^ 2 + (x2 - y2) ^ 2 + (x3 - y3) ^ 2 ≤ 4 := by
  nlinarith [sq_nonneg (x1 + y1), sq_nonneg (x2 + y2), sq_nonneg (x3 + y3)]

/-- spherical triangle inequality in chord-angle form, unit vectors -/
theorem unit_triangle (x1 x2 x3 y1 y2 y3 z1 z2 z3 : ℝ)
    (hx : x1^2 + x2^2 + x3^2 = 1) (hy : y1^2 + y2^2 + y3^2 = 1) (hz : z1^2 + z2^2 + z3^2 = 1) :
    (x1-z1)^2 + (x2-z2)^2 + (x3-z3)^2 ≤ caddR ((x1-y1)^2 + (x2-y2)^2 + (x3-y3)^2) ((y1-z1)^2 + (y2-z2)^2 + (y3-z3)^2) := by
  have hr4 := unit_dist2_le_four x1 x2 x3 z1 z2 z3 hx hz
  have hgram := gram_identity x1 x2 x3 y1 y2 y3 z1 z2 z3
  rw [hx, hy, hz] at hgram
  set u := x1 * y1 + x2 * y2 + x3 * y3 with hu
  set v := y1 * z1 + y2 * z2 + y3 * z3 with hv
  set w := x1 * z1 + x2 * z2 + x3 * z3 with hw
  have es : (x1-y1)^2 + (x2-y2)^2 + (x3-y3)^2 = 2 - 2 * u := by rw [hu]; linear_combination hx + hy
  have et : (y1-z1)^2 + (y2-z2)^2 + (y3-z3)^2 = 2 - 2 * v := by rw [hv]; linear_combination hy + hz
  have er : (x1-z1)^2 + (x2-z2)^2 + (x3-z3)^2 = 2 - 2 * w := by rw [hw]; linear_combination hx + hz
  rw [es, et]
  rw [er] at hr4 ⊢
  have hdet := sq_nonneg (x1 * (y2 * z3 - y3 * z2) - x2 * (y1 * z3 - y3 * z1) + x3 * (y1 * z2 - y2 * z1))
  rw [hgram] at hdet
  unfold caddR
  split_ifs with h
  · exact hr4
  · apply le_min hr4
    have eXY : (2 - 2 * u) * (1 - (2 - 2 * v) / 4) * ((2 - 2 * v) * (1 - (2 - 2 * u) / 4))
        = (1 - u ^ 2) * (1 - v ^ 2) := by ring
    rw [eXY]
    have hsq : (u * v - w) ^ 2 ≤ (1 - u ^ 2) * (1 - v ^ 2) := by linarith
    have h1 := Real.abs_le_sqrt hsq
    have h2 := le_abs_self (u * v - w)
    linarith

/-! ## the main theorem: Normalize-grade vectors, rounded distances -/

theorem sqrt_add_le_add_sqrt {x y : ℝ} (hx : 0 ≤ x) (hy : 0 ≤ y) :
    Real.sqrt (x + y) ≤ Real.sqrt x + Real.sqrt y := by
  rw [Real.sqrt_le_iff]
  refine ⟨add_nonneg (Real.sqrt_nonneg _) (Real.sqrt_nonneg _), ?_⟩
  have h1 := Real.sq_sqrt hx
  have h2 := Real.sq_sqrt hy
  nlinarith [mul_nonneg (Real.sqrt_nonneg x) (Real.sqrt_nonneg y)]

/-- `|n x − m y|² = n m |x − y|² + (n − m)²` for unit `x`, `y` -/
theorem scaled_dist (n m x1 x2 x3 y1 y2 y3 : ℝ)
    (hx : x1 ^ 2 + x2 ^ 2 + x3 ^ 2 = 1) (hy : y1 ^ 2 + y2 ^ 2 + y3 ^ 2 = 1) :
    (n * x1 - m * y1) ^ 2 + (n * x2 - m * y2) ^ 2 + (n * x3 - m * y3) ^ 2
      = n * m * ((x1 - y1) ^ 2 + (x2 - y2) ^ 2 + (x3 - y3) ^ 2) + (n - m) ^ 2 := by
  linear_combination (n ^ 2 - n * m) * hx + (m ^ 2 - n * m) * hy

theorem NU_eq : NU = 289 / 64 := rfl

theorem eps_le_small : eps ≤ 1 / 1000000 := by unfold eps; norm_num

/-- the growth factor `1/((1−u)^5 (1−4ε))` of the rounded, un-normalised squared distance -/
noncomputable def gK : ℝ := 1 / ((1 - uR) ^ 5 * (1 - NU * eps))

theorem gK_den_pos : 0 < (1 - uR) ^ 5 * (1 - NU * eps) := by unfold uR eps NU; norm_num

theorem gK_spec : gK * ((1 - uR) ^ 5 * (1 - NU * eps)) = 1 := by
  unfold gK; exact one_div_mul_cancel (ne_of_gt gK_den_pos)

theorem one_le_gK : 1 ≤ gK := by
  unfold gK
  rw [le_div_iff₀ gK_den_pos]
  unfold uR eps NU; norm_num

theorem gK_le : gK ≤ 1 + 2 * ((7 / 2 + 1 / 50) * eps) := by
  unfold gK
  rw [div_le_iff₀ gK_den_pos]
  unfold uR eps NU; norm_num

theorem sqrt_gK_le : Real.sqrt gK ≤ 1 + (7 / 2 + 1 / 50) * eps := by
  rw [Real.sqrt_le_iff]
  have := eps_pos
  have := gK_le
  constructor
  · positivity
  · nlinarith [sq_nonneg ((7 / 2 + 1 / 50) * eps)]

theorem sqrt_gK_le_two : Real.sqrt gK ≤ 2 := by
  have := sqrt_gK_le
  have := eps_le_small
  linarith

/-- enlarging `S` to an upper bound `S'` of the normalised squared distance `c`, at a controlled cost in `√` -/
theorem bump {c S α P d : ℝ} (hc0 : 0 ≤ c) (hc4 : c ≤ 4) (hS0 : 0 ≤ S) (hS4 : S ≤ 4) (hα0 : 0 ≤ α)
    (hP : 1 - NU * eps ≤ P) (hd : 0 ≤ d)
    (h : S = 4 ∨ (P * c + d) * (1 - uR) ^ 5 ≤ S + α) :
    ∃ S', S ≤ S' ∧ S' ≤ 4 ∧ c ≤ S' ∧
      Real.sqrt S' - Real.sqrt S ≤ (7 / 2 + 1 / 50) * eps * Real.sqrt S + 2 * Real.sqrt α := by
  rw [NU_eq] at hP
  have he := eps_pos
  have hsS := Real.sqrt_nonneg S
  have hsα := Real.sqrt_nonneg α
  have hC : 0 ≤ (7 / 2 + 1 / 50) * eps * Real.sqrt S := by positivity
  rcases h with h | h
  · refine ⟨4, hS4, le_refl _, hc4, ?_⟩
    rw [h] at hC ⊢
    linarith
  · have hg1 := one_le_gK
    have hg0 : 0 ≤ gK := by linarith
    have hk : 0 < (1 - uR) ^ 5 := by unfold uR; norm_num
    have hX : S ≤ (S + α) * gK := by nlinarith
    have hcX : c ≤ (S + α) * gK := by
      have h1 : c * ((1 - uR) ^ 5 * (1 - NU * eps)) ≤ S + α := by
        rw [NU_eq]
        have h2 : (1 - 289 / 64 * eps) * c ≤ P * c + d := by nlinarith
        have h3 := mul_le_mul_of_nonneg_right h2 hk.le
        nlinarith
      have h4 := mul_le_mul_of_nonneg_right h1 hg0
      have h5 : c = c * ((1 - uR) ^ 5 * (1 - NU * eps)) * gK := by linear_combination (-c) * gK_spec
      linarith
    refine ⟨min 4 ((S + α) * gK), le_min hS4 hX, min_le_left _ _, le_min hc4 hcX, ?_⟩
    have s1 : Real.sqrt (min 4 ((S + α) * gK)) ≤ Real.sqrt ((S + α) * gK) :=
      Real.sqrt_le_sqrt (min_le_right _ _)
    have s2 : Real.sqrt ((S + α) * gK) ≤ Real.sqrt (S * gK) + Real.sqrt (α * gK) := by
      rw [add_mul]; exact sqrt_add_le_add_sqrt (mul_nonneg hS0 hg0) (mul_nonneg hα0 hg0)
    rw [Real.sqrt_mul hS0, Real.sqrt_mul hα0] at s2
    have s3 := mul_le_mul_of_nonneg_left sqrt_gK_le hsS
    have s4 := mul_le_mul_of_nonneg_left sqrt_gK_le_two hsα
    nlinarith

theorem nroot_le {n : ℝ} (hn : 0 < n) (h : 1 - NU * eps ≤ n ^ 2) : Real.sqrt (1 - NU * eps) ≤ n := by
  rw [Real.sqrt_le_iff]; exact ⟨hn.le, h⟩

theorem nprod_ge {n m : ℝ} (hn : 0 < n) (hm : 0 < m) (h1 : 1 - NU * eps ≤ n ^ 2) (h2 : 1 - NU * eps ≤ m ^ 2) :
    1 - NU * eps ≤ n * m := by
  have hNU := NU_eq
  have hq : 0 ≤ 1 - NU * eps := by have := eps_le_small; have := eps_pos; rw [hNU]; linarith
  have e := Real.mul_self_sqrt hq
  have := mul_le_mul (nroot_le hn h1) (nroot_le hm h2) (Real.sqrt_nonneg _) hn.le
  linarith

theorem ndiff_sq_le {n m : ℝ} (hn : 0 < n) (hm : 0 < m) (h1 : |n ^ 2 - 1| ≤ NU * eps) (h2 : |m ^ 2 - 1| ≤ NU * eps) :
    (n - m) ^ 2 ≤ 21 * eps ^ 2 := by
  have he := eps_pos
  have hes := eps_le_small
  have hn' := nroot_le hn (by linarith [(abs_le.mp h1).1])
  have hm' := nroot_le hm (by linarith [(abs_le.mp h2).1])
  rw [NU_eq] at h1 h2 hn' hm'
  have hq : 0 ≤ 1 - 289 / 64 * eps := by linarith
  have e := Real.sq_sqrt hq
  have hq0 := Real.sqrt_nonneg (1 - 289 / 64 * eps)
  obtain ⟨a1, a2⟩ := abs_le.mp h1
  obtain ⟨b1, b2⟩ := abs_le.mp h2
  have hsum : 4 * (1 - 289 / 64 * eps) ≤ (n + m) ^ 2 := by nlinarith
  have hK : 0 < 4 * (1 - 289 / 64 * eps) := by linarith
  have hdiff : (n ^ 2 - m ^ 2) ^ 2 ≤ (2 * (289 / 64) * eps) ^ 2 := by
    apply sq_le_sq'
    · linarith
    · linarith
  have h3 : (n - m) ^ 2 * (4 * (1 - 289 / 64 * eps)) ≤ (n - m) ^ 2 * (n + m) ^ 2 :=
    mul_le_mul_of_nonneg_left hsum (sq_nonneg _)
  have h4 : (n - m) ^ 2 * (n + m) ^ 2 = (n ^ 2 - m ^ 2) ^ 2 := by ring
  have h5 : (2 * (289 / 64) * eps) ^ 2 ≤ 21 * eps ^ 2 * (4 * (1 - 289 / 64 * eps)) := by
    have : 0 ≤ eps ^ 2 * (1 / 100 - eps) := mul_nonneg (sq_nonneg _) (by linarith)
    nlinarith
  have h6 : (n - m) ^ 2 * (4 * (1 - 289 / 64 * eps)) ≤ 21 * eps ^ 2 * (4 * (1 - 289 / 64 * eps)) := by
    linarith
  exact le_of_mul_le_mul_right h6 hK

/-- the scalar part of `real_triangle_core` -/
theorem scalar_core {cab cbp cap na nb np S T α : ℝ}
    (hab0 : 0 ≤ cab) (hab4 : cab ≤ 4) (hbp0 : 0 ≤ cbp) (hbp4 : cbp ≤ 4) (hap0 : 0 ≤ cap)
    (htri : cap ≤ caddR cab cbp)
    (hna : 0 < na) (hnb : 0 < nb) (hnp : 0 < np)
    (ha : |na ^ 2 - 1| ≤ NU * eps) (hb : |nb ^ 2 - 1| ≤ NU * eps) (hp : |np ^ 2 - 1| ≤ NU * eps)
    (hS0 : 0 ≤ S) (hS4 : S ≤ 4) (hT0 : 0 ≤ T) (hT4 : T ≤ 4) (hα0 : 0 ≤ α)
    (hab : S = 4 ∨ (na * nb * cab + (na - nb) ^ 2) * (1 - uR) ^ 5 ≤ S + α)
    (hbp : T = 4 ∨ (nb * np * cbp + (nb - np) ^ 2) * (1 - uR) ^ 5 ≤ T + α) :
    na * np * cap + (na - np) ^ 2 ≤
      (1 + NU * eps) * (Real.sqrt (caddR S T) + (7/2 + 1/50) * eps * (Real.sqrt S + Real.sqrt T) + 4 * Real.sqrt α) ^ 2
        + 21 * eps ^ 2 := by
  have he := eps_pos
  obtain ⟨a1, a2⟩ := abs_le.mp ha
  obtain ⟨b1, b2⟩ := abs_le.mp hb
  obtain ⟨p1, p2⟩ := abs_le.mp hp
  obtain ⟨S', hSS', hS'4, hcS', hsq1⟩ := bump hab0 hab4 hS0 hS4 hα0
    (nprod_ge hna hnb (by linarith) (by linarith)) (sq_nonneg _) hab
  obtain ⟨T', hTT', hT'4, hcT', hsq2⟩ := bump hbp0 hbp4 hT0 hT4 hα0
    (nprod_ge hnb hnp (by linarith) (by linarith)) (sq_nonneg _) hbp
  have m1 : caddR cab cbp ≤ caddR S' T' := caddR_mono hab0 hcS' hS'4 hbp0 hcT' hT'4
  have l1 := sqrt_caddR_lipschitz hS0 hSS' hS'4 hT0 hTT' hT'4
  have l2 : Real.sqrt cap ≤ Real.sqrt (caddR S' T') := Real.sqrt_le_sqrt (le_trans htri m1)
  have hR : Real.sqrt cap ≤
      Real.sqrt (caddR S T) + (7/2 + 1/50) * eps * (Real.sqrt S + Real.sqrt T) + 4 * Real.sqrt α := by
    linarith
  obtain ⟨hR0, hcapR⟩ := Real.sqrt_le_iff.mp hR
  have hP : na * np ≤ 1 + NU * eps := by nlinarith [sq_nonneg (na - np)]
  have hd := ndiff_sq_le hna hnp ha hp
  have h1 := mul_le_mul_of_nonneg_right hP hap0
  have h2 := mul_le_mul_of_nonneg_left hcapR
    (by rw [NU_eq]; linarith : (0 : ℝ) ≤ 1 + NU * eps)
  linarith

/-- `real_triangle_core` for scaled unit vectors `a = na·x`, `b = nb·y`, `p = np·z` -/
theorem core_unit (x1 x2 x3 y1 y2 y3 z1 z2 z3 na nb np S T α : ℝ)
    (hx : x1^2 + x2^2 + x3^2 = 1) (hy : y1^2 + y2^2 + y3^2 = 1) (hz : z1^2 + z2^2 + z3^2 = 1)
    (hna : 0 < na) (hnb : 0 < nb) (hnp : 0 < np)
    (ha : |na ^ 2 - 1| ≤ NU * eps) (hb : |nb ^ 2 - 1| ≤ NU * eps) (hp : |np ^ 2 - 1| ≤ NU * eps)
    (hS0 : 0 ≤ S) (hS4 : S ≤ 4) (hT0 : 0 ≤ T) (hT4 : T ≤ 4) (hα0 : 0 ≤ α)
    (hab : S = 4 ∨ ((na*x1-nb*y1)^2 + (na*x2-nb*y2)^2 + (na*x3-nb*y3)^2) * (1 - uR)^5 ≤ S + α)
    (hbp : T = 4 ∨ ((nb*y1-np*z1)^2 + (nb*y2-np*z2)^2 + (nb*y3-np*z3)^2) * (1 - uR)^5 ≤ T + α) :
    (na*x1-np*z1)^2 + (na*x2-np*z2)^2 + (na*x3-np*z3)^2 ≤
      (1 + NU * eps) * (Real.sqrt (caddR S T) + (7/2 + 1/50) * eps * (Real.sqrt S + Real.sqrt T) + 4 * Real.sqrt α) ^ 2
        + 21 * eps ^ 2 := by
  rw [scaled_dist na nb _ _ _ _ _ _ hx hy] at hab
  rw [scaled_dist nb np _ _ _ _ _ _ hy hz] at hbp
  rw [scaled_dist na np _ _ _ _ _ _ hx hz]
  exact scalar_core (by positivity) (unit_dist2_le_four _ _ _ _ _ _ hx hy) (by positivity)
    (unit_dist2_le_four _ _ _ _ _ _ hy hz) (by positivity)
    (unit_triangle x1 x2 x3 y1 y2 y3 z1 z2 z3 hx hy hz) hna hnb hnp ha hb hp hS0 hS4 hT0 hT4 hα0 hab hbp

/-- normalisation of a Normalize-grade vector -/
theorem exists_unit (a1 a2 a3 : ℝ) (ha : |a1^2 + a2^2 + a3^2 - 1| ≤ NU * eps) :
    ∃ n x1 x2 x3 : ℝ, 0 < n ∧ |n ^ 2 - 1| ≤ NU * eps ∧ x1^2 + x2^2 + x3^2 = 1 ∧
      a1 = n * x1 ∧ a2 = n * x2 ∧ a3 = n * x3 := by
  have hes := eps_le_small
  have hep := eps_pos
  obtain ⟨h1, h2⟩ := abs_le.mp ha
  have hN : 0 < a1^2 + a2^2 + a3^2 := by rw [NU_eq] at h1; linarith
  have hn : 0 < Real.sqrt (a1^2 + a2^2 + a3^2) := Real.sqrt_pos.mpr hN
  have hn2 : Real.sqrt (a1^2 + a2^2 + a3^2) ^ 2 = a1^2 + a2^2 + a3^2 := Real.sq_sqrt hN.le
  refine ⟨Real.sqrt (a1^2 + a2^2 + a3^2), a1 / Real.sqrt (a1^2 + a2^2 + a3^2),
    a2 / Real.sqrt (a1^2 + a2^2 + a3^2), a3 / Real.sqrt (a1^2 + a2^2 + a3^2), hn, ?_, ?_, ?_, ?_, ?_⟩
  · rw [hn2]; exact ha
  · generalize Real.sqrt (a1^2 + a2^2 + a3^2) = n at *
    have : (a1 / n) ^ 2 + (a2 / n) ^ 2 + (a3 / n) ^ 2 = (a1^2 + a2^2 + a3^2) / n ^ 2 := by ring
    rw [this, hn2]; exact div_self (ne_of_gt hN)
  · field_simp
  · field_simp
  · field_simp

/-- THE MAIN DELIVERABLE: the triangle inequality for three Normalize-grade vectors (|‖v‖²−1| ≤ NU·2^-52) whose squared distances
    |a−b|², |b−p|² are only known up to the rounding of `ChordAngleBetweenPoints` (relative (1−u)^5, absolute α) from above by S, T ∈ [0,4]. -/
theorem real_triangle_core (a1 a2 a3 b1 b2 b3 p1 p2 p3 S T α : ℝ)
    (ha : |a1^2 + a2^2 + a3^2 - 1| ≤ NU * eps) (hb : |b1^2 + b2^2 + b3^2 - 1| ≤ NU * eps) (hp : |p1^2 + p2^2 + p3^2 - 1| ≤ NU * eps)
    (hS0 : 0 ≤ S) (hS4 : S ≤ 4) (hT0 : 0 ≤ T) (hT4 : T ≤ 4) (hα0 : 0 ≤ α) (hα : α ≤ 1 / 2 ^ 1000)
    (hab : S = 4 ∨ ((a1-b1)^2 + (a2-b2)^2 + (a3-b3)^2) * (1 - uR)^5 ≤ S + α)
    (hbp : T = 4 ∨ ((b1-p1)^2 + (b2-p2)^2 + (b3-p3)^2) * (1 - uR)^5 ≤ T + α) :
    (a1-p1)^2 + (a2-p2)^2 + (a3-p3)^2 ≤
      (1 + NU * eps) * (Real.sqrt (caddR S T) + (7/2 + 1/50) * eps * (Real.sqrt S + Real.sqrt T) + 4 * Real.sqrt α) ^ 2
        + 21 * eps ^ 2 := by
  obtain ⟨na, x1, x2, x3, hna, hna2, hx, rfl, rfl, rfl⟩ := exists_unit a1 a2 a3 ha
  obtain ⟨nb, y1, y2, y3, hnb, hnb2, hy, rfl, rfl, rfl⟩ := exists_unit b1 b2 b3 hb
  obtain ⟨np, z1, z2, z3, hnp, hnp2, hz, rfl, rfl, rfl⟩ := exists_unit p1 p2 p3 hp
  exact core_unit x1 x2 x3 y1 y2 y3 z1 z2 z3 na nb np S T α hx hy hz hna hnb hnp hna2 hnb2 hnp2
    hS0 hS4 hT0 hT4 hα0 hab hbp

end S2Proofs.CapF64
