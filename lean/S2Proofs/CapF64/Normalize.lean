/-
  S2Proofs.CapF64.Normalize — the output of the soft-float `V3.normalize` (= Go's `r3.Vector.Normalize`) is a
  Normalize-grade unit vector: `|‖v'‖² − 1| ≤ (289/64)·2^-52` (`NUnit`), for every finite input whose exact squared
  norm lies in `[2^-400, 2^400]`.
-/
import Mathlib.Tactic.Ring
import Mathlib.Tactic.Linarith
import Mathlib.Tactic.Positivity
import Mathlib.Tactic.NormNum
import Mathlib.Tactic.FieldSimp
import Mathlib.Analysis.Real.Sqrt
import S2Proofs.CapF64.Between
import S2Proofs.CapF64.ChordAdd
import S2Proofs.F64Round

namespace S2Proofs.CapF64
open S2 S2.Exact S2Proofs.F64Order S2Proofs.FloatErr

namespace NZ

/-! ### two-sided bound for the float square root -/

/-- `F64.sqrt` is within `(1 ± 2^-61)(1 ± u)²` of the exact square (two-sided) -/
theorem sqrt_two_sided (x : F64) (hx : Fin x) (hpos : 0 < val x) :
    Fin (F64.sqrt x) ∧ 0 ≤ val (F64.sqrt x) ∧
      val x * ((1 - 1 / 2 ^ 61) * (1 - uR) ^ 2) ≤ val (F64.sqrt x) ^ 2 ∧
      val (F64.sqrt x) ^ 2 ≤ val x * ((1 + 1 / 2 ^ 61) * (1 + uR) ^ 2) := by
  have hz : x.isZero = false := by
    cases h : x.isZero
    · rfl
    · rw [val_of_isZero h] at hpos; exact absurd hpos (lt_irrefl _)
  have hsb : x.signBit = false := by
    cases h : x.signBit
    · rfl
    · rw [val_mant, h] at hpos
      have : (0 : ℝ) ≤ (x.mant : ℝ) * tw x.expo := mul_nonneg (by positivity) (tw_pos _).le
      unfold sg at hpos
      simp only [if_true] at hpos
      linarith
  have hm1 : 0 < x.mant := mant_pos hz
  have hm2 := FloatErr.mant_lt x
  have he1 := expo_ge x
  have he2 := FloatErr.expo_le hx
  unfold F64.sqrt
  simp only [isNaN_false hx, isInf_false hx, hz, hsb, Bool.false_eq_true, if_false]
  set t : ℤ := (x.expo - 120) / 2 - 1 with ht
  obtain ⟨k, hk⟩ : ∃ k : ℕ, (x.expo - 2 * t).toNat = k := ⟨_, rfl⟩
  rw [hk]
  have hk1 : 122 ≤ k := by omega
  have hk2 : k ≤ 123 := by omega
  have hke : x.expo = (k : ℤ) + 2 * t := by omega
  set M := x.mant * 2 ^ k with hM
  have hMlo : 2 ^ 122 ≤ M := by
    calc 2 ^ 122 ≤ 2 ^ k := Nat.pow_le_pow_right (by norm_num) hk1
      _ ≤ x.mant * 2 ^ k := Nat.le_mul_of_pos_left _ hm1
  have hMhi : M < 2 ^ 176 := by
    calc M < 2 ^ 53 * 2 ^ k := Nat.mul_lt_mul_of_pos_right hm2 (Nat.two_pow_pos _)
      _ ≤ 2 ^ 53 * 2 ^ 123 := Nat.mul_le_mul_left _ (Nat.pow_le_pow_right (by norm_num) hk2)
      _ = 2 ^ 176 := by norm_num
  rw [F64Round.isqrt_spec M (Nat.lt_trans hMhi (by decide))]
  set r := Nat.sqrt M with hr
  have hr1 : r * r ≤ M := Nat.sqrt_le M
  have hr2 : M < (r + 1) * (r + 1) := Nat.lt_succ_sqrt M
  have hr61 : 2 ^ 61 ≤ r := by
    rw [hr, Nat.le_sqrt]
    calc 2 ^ 61 * 2 ^ 61 = 2 ^ 122 := by rw [← Nat.pow_add]
      _ ≤ M := hMlo
  have hr88 : r ≤ 2 ^ 88 := by
    by_contra hc
    have : 2 ^ 88 * 2 ^ 88 ≤ r * r := Nat.mul_le_mul (by omega) (by omega)
    have e : (2 : Nat) ^ 88 * 2 ^ 88 = 2 ^ 176 := by rw [← Nat.pow_add]
    omega
  set V := 2 * r + (if (r * r == M) = true then 0 else 1) with hV
  have hV1 : 2 * r ≤ V := by rw [hV]; omega
  have hV2 : V ≤ 2 * r + 1 := by rw [hV]; split <;> omega
  have hVpos : 0 < V := by omega
  -- the real inequalities about V² and 4M
  have hR61 : (2 : ℝ) ^ 61 ≤ (r : ℝ) := by exact_mod_cast hr61
  have hR1 : (r : ℝ) * r ≤ (M : ℝ) := by exact_mod_cast hr1
  have hR2 : (M : ℝ) ≤ (r : ℝ) * r + 2 * r := by
    have : M ≤ r * r + 2 * r := by nlinarith
    exact_mod_cast this
  have hVM : 4 * (M : ℝ) * (1 - 1 / 2 ^ 61) ≤ (V : ℝ) ^ 2 ∧ (V : ℝ) ^ 2 ≤ 4 * (M : ℝ) * (1 + 1 / 2 ^ 61) := by
    have hr0 : (0 : ℝ) ≤ (r : ℝ) := by positivity
    have hMr : (r : ℝ) ≤ (M : ℝ) * (1 / 2 ^ 61) := by
      have h1 : (r : ℝ) * 2 ^ 61 ≤ (r : ℝ) * r := mul_le_mul_of_nonneg_left hR61 hr0
      have h2 : (r : ℝ) * 2 ^ 61 ≤ (M : ℝ) := le_trans h1 hR1
      rw [mul_one_div, le_div_iff₀ (by positivity)]
      exact h2
    by_cases hsq : r * r = M
    · have hV0 : V = 2 * r := by rw [hV]; simp [hsq]
      have hMe : (M : ℝ) = (r : ℝ) * r := by exact_mod_cast hsq.symm
      have hVe : (V : ℝ) = 2 * (r : ℝ) := by rw [hV0]; push_cast; ring
      have hM0 : (0 : ℝ) ≤ (M : ℝ) := by positivity
      rw [hVe]
      constructor <;> nlinarith
    · have hV0 : V = 2 * r + 1 := by rw [hV]; simp [hsq]
      have hVe : (V : ℝ) = 2 * (r : ℝ) + 1 := by rw [hV0]; push_cast; ring
      have hR3 : (r : ℝ) * r + 1 ≤ (M : ℝ) := by
        have : r * r + 1 ≤ M := by omega
        exact_mod_cast this
      rw [hVe]
      constructor <;> nlinarith
  have hVt : (V : ℝ) * tw (t - 1) ≤ 2 ^ 514 := by
    have h1 : (V : ℝ) ≤ 2 ^ 90 := by
      have : V ≤ 2 ^ 90 := by omega
      exact_mod_cast this
    have h2 : tw (t - 1) ≤ tw 424 := tw_mono (by omega)
    have h3 : tw 424 = 2 ^ 424 := by rw [show (424 : ℤ) = ((424 : ℕ) : ℤ) from rfl, tw_nat]
    have h4 : (V : ℝ) * tw (t - 1) ≤ 2 ^ 90 * 2 ^ 424 := by
      rw [← h3]; exact mul_le_mul h1 h2 (tw_pos _).le (by positivity)
    rw [← pow_add] at h4
    exact h4
  have hmag : (V : ℝ) * tw (t - 1) < 2 ^ 1000 :=
    lt_of_le_of_lt hVt (pow_lt_pow_right₀ (by norm_num) (by norm_num))
  obtain ⟨hf, δ, η, hδ, _, hval, hη⟩ := FloatErr.roundDyadic_spec false V (t - 1) hVpos hmag
  have hη0 := hη (by omega)
  have hu1 : uR ≤ 1 := uR_le_one
  have hu0 : 0 ≤ uR := uR_nonneg
  have hδ' := abs_le.mp hδ
  have hvalR : val (F64.roundDyadic false V (t - 1)) = (V : ℝ) * tw (t - 1) * (1 + δ) := by
    rw [hval, hη0]; unfold sg; simp
  have hvx : val x = (M : ℝ) * tw (2 * t) := by
    rw [val_mant, hsb, hke, tw_add, tw_nat, hM]
    unfold sg; push_cast; simp; ring
  have htt : tw t = 2 * tw (t - 1) := by
    have : t = (t - 1) + 1 := by ring
    conv_lhs => rw [this]
    rw [tw_succ]
  have ht1 := tw_pos (t - 1)
  have hsqv : ((V : ℝ) * tw (t - 1) * (1 + δ)) ^ 2 = (V : ℝ) ^ 2 * (tw (t - 1) ^ 2 * (1 + δ) ^ 2) := by ring
  have hvx' : val x = 4 * (M : ℝ) * tw (t - 1) ^ 2 := by
    rw [hvx, tw_two_mul, htt]; ring
  have hsq2 : (1 - uR) ^ 2 ≤ (1 + δ) ^ 2 := pow_le_pow_left₀ (by linarith) (by linarith) 2
  have hsq3 : (1 + δ) ^ 2 ≤ (1 + uR) ^ 2 := pow_le_pow_left₀ (by linarith) (by linarith) 2
  have hM0 : (0 : ℝ) ≤ (M : ℝ) := by positivity
  refine ⟨hf, ?_, ?_, ?_⟩
  · rw [hvalR]
    exact mul_nonneg (mul_nonneg (by positivity) (tw_pos _).le) (by linarith)
  · rw [hvalR, hsqv, hvx']
    calc 4 * (M : ℝ) * tw (t - 1) ^ 2 * ((1 - 1 / 2 ^ 61) * (1 - uR) ^ 2)
        = (4 * (M : ℝ) * (1 - 1 / 2 ^ 61)) * (tw (t - 1) ^ 2 * (1 - uR) ^ 2) := by ring
      _ ≤ (V : ℝ) ^ 2 * (tw (t - 1) ^ 2 * (1 - uR) ^ 2) :=
          mul_le_mul_of_nonneg_right hVM.1 (by positivity)
      _ ≤ (V : ℝ) ^ 2 * (tw (t - 1) ^ 2 * (1 + δ) ^ 2) :=
          mul_le_mul_of_nonneg_left (mul_le_mul_of_nonneg_left hsq2 (by positivity)) (by positivity)
  · rw [hvalR, hsqv, hvx']
    calc (V : ℝ) ^ 2 * (tw (t - 1) ^ 2 * (1 + δ) ^ 2)
        ≤ (V : ℝ) ^ 2 * (tw (t - 1) ^ 2 * (1 + uR) ^ 2) :=
          mul_le_mul_of_nonneg_left (mul_le_mul_of_nonneg_left hsq3 (by positivity)) (by positivity)
      _ ≤ (4 * (M : ℝ) * (1 + 1 / 2 ^ 61)) * (tw (t - 1) ^ 2 * (1 + uR) ^ 2) :=
          mul_le_mul_of_nonneg_right hVM.2 (mul_nonneg (sq_nonneg _) (sq_nonneg _))
      _ = 4 * (M : ℝ) * tw (t - 1) ^ 2 * ((1 + 1 / 2 ^ 61) * (1 + uR) ^ 2) := by ring

/-! ### the real-number core -/

/-- a common small bound for the negligible terms (`2^-100`) -/
noncomputable def T : ℝ := 1 / 2 ^ 100
/-- lower / upper factor of `ŝ²` against `N` -/
noncomputable def Lc : ℝ := ((1 - uR) ^ 3 - T) * ((1 - 1 / 2 ^ 61) * (1 - uR) ^ 2)
noncomputable def Hc : ℝ := ((1 + uR) ^ 3 + T) * ((1 + 1 / 2 ^ 61) * (1 + uR) ^ 2)

theorem num_facts : 1 / 2 ≤ Lc ∧ Hc ≤ 2 ∧ (1 + uR) ^ 4 ≤ (1 + NU * eps - 27 * T) * Lc ∧
    (1 - NU * eps + 24 * T) * Hc ≤ (1 - uR) ^ 4 := by
  unfold Lc Hc T uR NU eps
  refine ⟨?_, ?_, ?_, ?_⟩ <;> norm_num

theorem T_pos : 0 < T := by unfold T; positivity
theorem T_le_one : T ≤ 1 := by unfold T; norm_num
theorem uR_le_quarter : uR ≤ 1 / 4 := by unfold uR; norm_num

/-- one coordinate: `x' = w(1+δ) + η` with `w² ≤ 4` -/
theorem coord {w δ η x' : ℝ} (hw : w ^ 2 ≤ 4) (hδ : |δ| ≤ uR) (hη : |η| ≤ T) (hx' : x' = w * (1 + δ) + η) :
    w ^ 2 * (1 - uR) ^ 2 - 8 * T ≤ x' ^ 2 ∧ x' ^ 2 ≤ w ^ 2 * (1 + uR) ^ 2 + 9 * T := by
  have hu0 := uR_nonneg
  have hu4 := uR_le_quarter
  have hT0 := T_pos
  have hT1 := T_le_one
  have hδ' := abs_le.mp hδ
  have hw2 : |w| ≤ 2 := abs_le_of_sq_le_sq (by linarith) (by norm_num)
  have h1δ : |1 + δ| ≤ 2 := by rw [abs_le]; constructor <;> linarith
  have hc : |w * (1 + δ) * η| ≤ 4 * T := by
    rw [abs_mul, abs_mul]
    have h1 : |w| * |1 + δ| ≤ 2 * 2 := mul_le_mul hw2 h1δ (abs_nonneg _) (by norm_num)
    have h2 : |w| * |1 + δ| * |η| ≤ 2 * 2 * T := mul_le_mul h1 hη (abs_nonneg _) (by norm_num)
    linarith
  have hc' := abs_le.mp hc
  have hη2 : η ^ 2 ≤ T := by
    have h1 : η ^ 2 ≤ T ^ 2 := by
      rw [← sq_abs η]; exact pow_le_pow_left₀ (abs_nonneg _) hη 2
    have h2 : T ^ 2 ≤ T := by nlinarith
    linarith
  have hsq2 : (1 - uR) ^ 2 ≤ (1 + δ) ^ 2 := pow_le_pow_left₀ (by linarith) (by linarith) 2
  have hsq3 : (1 + δ) ^ 2 ≤ (1 + uR) ^ 2 := pow_le_pow_left₀ (by linarith) (by linarith) 2
  have hw0 : 0 ≤ w ^ 2 := sq_nonneg _
  have e : x' ^ 2 = w ^ 2 * (1 + δ) ^ 2 + 2 * (w * (1 + δ) * η) + η ^ 2 := by rw [hx']; ring
  have l1 : w ^ 2 * (1 - uR) ^ 2 ≤ w ^ 2 * (1 + δ) ^ 2 := mul_le_mul_of_nonneg_left hsq2 hw0
  have l2 : w ^ 2 * (1 + δ) ^ 2 ≤ w ^ 2 * (1 + uR) ^ 2 := mul_le_mul_of_nonneg_left hsq3 hw0
  have hη0 : 0 ≤ η ^ 2 := sq_nonneg _
  rw [e]
  constructor <;> linarith

theorem core {N n2 s r x y z x' y' z' δx δy δz ηx ηy ηz : ℝ}
    (hN : N = x ^ 2 + y ^ 2 + z ^ 2) (hNpos : 0 < N)
    (hn2lo : N * ((1 - uR) ^ 3 - T) ≤ n2) (hn2hi : n2 ≤ N * ((1 + uR) ^ 3 + T))
    (hs0 : 0 < s)
    (hslo : n2 * ((1 - 1 / 2 ^ 61) * (1 - uR) ^ 2) ≤ s ^ 2)
    (hshi : s ^ 2 ≤ n2 * ((1 + 1 / 2 ^ 61) * (1 + uR) ^ 2))
    (hr : |r - 1 / s| ≤ (1 / s) * uR)
    (hδx : |δx| ≤ uR) (hδy : |δy| ≤ uR) (hδz : |δz| ≤ uR)
    (hηx : |ηx| ≤ T) (hηy : |ηy| ≤ T) (hηz : |ηz| ≤ T)
    (hx' : x' = r * x * (1 + δx) + ηx) (hy' : y' = r * y * (1 + δy) + ηy)
    (hz' : z' = r * z * (1 + δz) + ηz) :
    |x' ^ 2 + y' ^ 2 + z' ^ 2 - 1| ≤ NU * eps := by
  obtain ⟨hL, hH, hnum1, hnum2⟩ := num_facts
  have hu0 := uR_nonneg
  have hu4 := uR_le_quarter
  have hT0 := T_pos
  have hK1 : 0 ≤ (1 - 1 / 2 ^ 61) * (1 - uR) ^ 2 := mul_nonneg (by norm_num) (sq_nonneg _)
  have hK2 : 0 ≤ (1 + 1 / 2 ^ 61) * (1 + uR) ^ 2 := mul_nonneg (by norm_num) (sq_nonneg _)
  -- step 1
  have hsL : N * Lc ≤ s ^ 2 := by
    calc N * Lc = (N * ((1 - uR) ^ 3 - T)) * ((1 - 1 / 2 ^ 61) * (1 - uR) ^ 2) := by unfold Lc; ring
      _ ≤ n2 * ((1 - 1 / 2 ^ 61) * (1 - uR) ^ 2) := mul_le_mul_of_nonneg_right hn2lo hK1
      _ ≤ s ^ 2 := hslo
  have hsH : s ^ 2 ≤ N * Hc := by
    calc s ^ 2 ≤ n2 * ((1 + 1 / 2 ^ 61) * (1 + uR) ^ 2) := hshi
      _ ≤ (N * ((1 + uR) ^ 3 + T)) * ((1 + 1 / 2 ^ 61) * (1 + uR) ^ 2) := mul_le_mul_of_nonneg_right hn2hi hK2
      _ = N * Hc := by unfold Hc; ring
  -- step 2
  have hq : |r * s - 1| ≤ uR := by
    have e : r * s - 1 = (r - 1 / s) * s := by field_simp
    rw [e, abs_mul, abs_of_pos hs0]
    calc |r - 1 / s| * s ≤ (1 / s * uR) * s := mul_le_mul_of_nonneg_right hr hs0.le
      _ = uR := by field_simp
  have hq' := abs_le.mp hq
  have hq2lo : (1 - uR) ^ 2 ≤ (r * s) ^ 2 := pow_le_pow_left₀ (by linarith) (by linarith) 2
  have hq2hi : (r * s) ^ 2 ≤ (1 + uR) ^ 2 := pow_le_pow_left₀ (by linarith) (by linarith) 2
  -- step 3
  set P := r ^ 2 * N with hP
  have hP0 : 0 ≤ P := mul_nonneg (sq_nonneg _) hNpos.le
  have hPs : P * s ^ 2 = (r * s) ^ 2 * N := by rw [hP]; ring
  have hPL : P * Lc ≤ (1 + uR) ^ 2 := by
    have h1 : P * (N * Lc) ≤ (1 + uR) ^ 2 * N :=
      calc P * (N * Lc) ≤ P * s ^ 2 := mul_le_mul_of_nonneg_left hsL hP0
        _ = (r * s) ^ 2 * N := hPs
        _ ≤ (1 + uR) ^ 2 * N := mul_le_mul_of_nonneg_right hq2hi hNpos.le
    have h2 : (P * Lc) * N ≤ (1 + uR) ^ 2 * N := by linarith [h1, (by ring : P * (N * Lc) = (P * Lc) * N)]
    exact le_of_mul_le_mul_right h2 hNpos
  have hPH : (1 - uR) ^ 2 ≤ P * Hc := by
    have h1 : (1 - uR) ^ 2 * N ≤ P * (N * Hc) :=
      calc (1 - uR) ^ 2 * N ≤ (r * s) ^ 2 * N := mul_le_mul_of_nonneg_right hq2lo hNpos.le
        _ = P * s ^ 2 := hPs.symm
        _ ≤ P * (N * Hc) := mul_le_mul_of_nonneg_left hsH hP0
    have h2 : (1 - uR) ^ 2 * N ≤ (P * Hc) * N := by linarith [h1, (by ring : P * (N * Hc) = (P * Hc) * N)]
    exact le_of_mul_le_mul_right h2 hNpos
  -- step 4
  have hP4 : P ≤ 4 := by
    have h1 : (1 + uR) ^ 2 ≤ 2 := by nlinarith
    have h2 : P * (1 / 2) ≤ P * Lc := mul_le_mul_of_nonneg_left hL hP0
    linarith
  have hPe : P = (r * x) ^ 2 + (r * y) ^ 2 + (r * z) ^ 2 := by rw [hP, hN]; ring
  have hwx : (r * x) ^ 2 ≤ 4 := by linarith [sq_nonneg (r * y), sq_nonneg (r * z)]
  have hwy : (r * y) ^ 2 ≤ 4 := by linarith [sq_nonneg (r * x), sq_nonneg (r * z)]
  have hwz : (r * z) ^ 2 ≤ 4 := by linarith [sq_nonneg (r * y), sq_nonneg (r * x)]
  obtain ⟨cx1, cx2⟩ := coord hwx hδx hηx hx'
  obtain ⟨cy1, cy2⟩ := coord hwy hδy hηy hy'
  obtain ⟨cz1, cz2⟩ := coord hwz hδz hηz hz'
  set N' := x' ^ 2 + y' ^ 2 + z' ^ 2 with hN'
  have hup : N' ≤ P * (1 + uR) ^ 2 + 27 * T := by rw [hPe]; linarith
  have hdn : P * (1 - uR) ^ 2 - 24 * T ≤ N' := by rw [hPe]; linarith
  -- step 5
  have hLpos : 0 < Lc := by linarith
  have hHpos : 0 < Hc := by
    have : (1 - uR) ^ 2 ≤ P * Hc := hPH
    have h3 : 0 < (1 - uR) ^ 2 := by
      have : 0 < 1 - uR := by linarith
      positivity
    by_contra hc
    have hc' : Hc ≤ 0 := not_lt.mp hc
    have : P * Hc ≤ 0 := mul_nonpos_of_nonneg_of_nonpos hP0 hc'
    linarith
  have hfin1 : N' ≤ 1 + NU * eps := by
    have h1 : N' * Lc ≤ (1 + NU * eps) * Lc := by
      calc N' * Lc ≤ (P * (1 + uR) ^ 2 + 27 * T) * Lc := mul_le_mul_of_nonneg_right hup hLpos.le
        _ = (P * Lc) * (1 + uR) ^ 2 + 27 * T * Lc := by ring
        _ ≤ (1 + uR) ^ 2 * (1 + uR) ^ 2 + 27 * T * Lc := by
            have := mul_le_mul_of_nonneg_right hPL (sq_nonneg (1 + uR))
            linarith
        _ = (1 + uR) ^ 4 + 27 * T * Lc := by ring
        _ ≤ (1 + NU * eps - 27 * T) * Lc + 27 * T * Lc := by linarith
        _ = (1 + NU * eps) * Lc := by ring
    exact le_of_mul_le_mul_right h1 hLpos
  have hfin2 : 1 - NU * eps ≤ N' := by
    have h1 : (1 - NU * eps) * Hc ≤ N' * Hc := by
      calc (1 - NU * eps) * Hc = (1 - NU * eps + 24 * T) * Hc - 24 * T * Hc := by ring
        _ ≤ (1 - uR) ^ 4 - 24 * T * Hc := by linarith
        _ = (1 - uR) ^ 2 * (1 - uR) ^ 2 - 24 * T * Hc := by ring
        _ ≤ (P * Hc) * (1 - uR) ^ 2 - 24 * T * Hc := by
            have := mul_le_mul_of_nonneg_right hPH (sq_nonneg (1 - uR))
            linarith
        _ = (P * (1 - uR) ^ 2 - 24 * T) * Hc := by ring
        _ ≤ N' * Hc := mul_le_mul_of_nonneg_right hdn hHpos.le
    exact le_of_mul_le_mul_right h1 hHpos
  rw [abs_le]
  constructor <;> linarith

theorem s_bounds {N n2 s : ℝ}
    (hn2lo : N * ((1 - uR) ^ 3 - T) ≤ n2) (hn2hi : n2 ≤ N * ((1 + uR) ^ 3 + T))
    (hslo : n2 * ((1 - 1 / 2 ^ 61) * (1 - uR) ^ 2) ≤ s ^ 2)
    (hshi : s ^ 2 ≤ n2 * ((1 + 1 / 2 ^ 61) * (1 + uR) ^ 2)) : N * Lc ≤ s ^ 2 ∧ s ^ 2 ≤ N * Hc := by
  have hK1 : 0 ≤ (1 - 1 / 2 ^ 61) * (1 - uR) ^ 2 := mul_nonneg (by norm_num) (sq_nonneg _)
  have hK2 : 0 ≤ (1 + 1 / 2 ^ 61) * (1 + uR) ^ 2 := mul_nonneg (by norm_num) (sq_nonneg _)
  constructor
  · calc N * Lc = (N * ((1 - uR) ^ 3 - T)) * ((1 - 1 / 2 ^ 61) * (1 - uR) ^ 2) := by unfold Lc; ring
      _ ≤ n2 * ((1 - 1 / 2 ^ 61) * (1 - uR) ^ 2) := mul_le_mul_of_nonneg_right hn2lo hK1
      _ ≤ s ^ 2 := hslo
  · calc s ^ 2 ≤ n2 * ((1 + 1 / 2 ^ 61) * (1 + uR) ^ 2) := hshi
      _ ≤ (N * ((1 + uR) ^ 3 + T)) * ((1 + 1 / 2 ^ 61) * (1 + uR) ^ 2) := mul_le_mul_of_nonneg_right hn2hi hK2
      _ = N * Hc := by unfold Hc; ring

/-! ### the squared norm `x⊗x ⊕ y⊗y ⊕ z⊗z` -/

theorem norm2_core {A B C a b c δa δb δc ηa ηb ηc δ1 δ2 : ℝ} (hA : 0 ≤ A) (hB : 0 ≤ B) (hC : 0 ≤ C)
    (ha : a = A * (1 + δa) + ηa) (hb : b = B * (1 + δb) + ηb) (hc : c = C * (1 + δc) + ηc)
    (ha0 : 0 ≤ a) (hb0 : 0 ≤ b) (hc0 : 0 ≤ c)
    (hδa : |δa| ≤ uR) (hδb : |δb| ≤ uR) (hδc : |δc| ≤ uR)
    (hηa : |ηa| ≤ eR) (hηb : |ηb| ≤ eR) (hηc : |ηc| ≤ eR)
    (h1 : |δ1| ≤ uR) (h2 : |δ2| ≤ uR) :
    (A + B + C) * (1 - uR) ^ 3 - 3 * eR ≤ ((a + b) * (1 + δ1) + c) * (1 + δ2) ∧
    ((a + b) * (1 + δ1) + c) * (1 + δ2) ≤ (A + B + C) * (1 + uR) ^ 3 + 5 * eR := by
  have hu0 := uR_nonneg
  have hu4 := uR_le_quarter
  have he0 := eR_nonneg
  have da := abs_le.mp hδa
  have db := abs_le.mp hδb
  have dc := abs_le.mp hδc
  have ea := abs_le.mp hηa
  have eb := abs_le.mp hηb
  have ec := abs_le.mp hηc
  have d1 := abs_le.mp h1
  have d2 := abs_le.mp h2
  have a1 : A * (1 - uR) ≤ A * (1 + δa) := mul_le_mul_of_nonneg_left (by linarith) hA
  have a2 : A * (1 + δa) ≤ A * (1 + uR) := mul_le_mul_of_nonneg_left (by linarith) hA
  have b1 : B * (1 - uR) ≤ B * (1 + δb) := mul_le_mul_of_nonneg_left (by linarith) hB
  have b2 : B * (1 + δb) ≤ B * (1 + uR) := mul_le_mul_of_nonneg_left (by linarith) hB
  have c1 : C * (1 - uR) ≤ C * (1 + δc) := mul_le_mul_of_nonneg_left (by linarith) hC
  have c2 : C * (1 + δc) ≤ C * (1 + uR) := mul_le_mul_of_nonneg_left (by linarith) hC
  set S := a + b + c with hS
  have hSlo : (A + B + C) * (1 - uR) - 3 * eR ≤ S := by rw [hS, ha, hb, hc]; linarith
  have hShi : S ≤ (A + B + C) * (1 + uR) + 3 * eR := by rw [hS, ha, hb, hc]; linarith
  have hab : 0 ≤ a + b := by linarith
  have s1lo : (a + b) * (1 - uR) ≤ (a + b) * (1 + δ1) := mul_le_mul_of_nonneg_left (by linarith) hab
  have s1hi : (a + b) * (1 + δ1) ≤ (a + b) * (1 + uR) := mul_le_mul_of_nonneg_left (by linarith) hab
  have cu : c * uR ≥ 0 := mul_nonneg hc0 hu0
  have tlo : S * (1 - uR) ≤ (a + b) * (1 + δ1) + c := by rw [hS]; linarith
  have thi : (a + b) * (1 + δ1) + c ≤ S * (1 + uR) := by rw [hS]; linarith
  have t0 : 0 ≤ (a + b) * (1 + δ1) + c := by
    have : 0 ≤ (a + b) * (1 - uR) := mul_nonneg hab (by linarith)
    linarith
  have nlo : ((a + b) * (1 + δ1) + c) * (1 - uR) ≤ ((a + b) * (1 + δ1) + c) * (1 + δ2) :=
    mul_le_mul_of_nonneg_left (by linarith) t0
  have nhi : ((a + b) * (1 + δ1) + c) * (1 + δ2) ≤ ((a + b) * (1 + δ1) + c) * (1 + uR) :=
    mul_le_mul_of_nonneg_left (by linarith) t0
  have nlo2 : S * (1 - uR) * (1 - uR) ≤ ((a + b) * (1 + δ1) + c) * (1 - uR) :=
    mul_le_mul_of_nonneg_right tlo (by linarith)
  have nhi2 : ((a + b) * (1 + δ1) + c) * (1 + uR) ≤ S * (1 + uR) * (1 + uR) :=
    mul_le_mul_of_nonneg_right thi (by linarith)
  have q1 : 0 ≤ (1 - uR) * (1 - uR) := mul_nonneg (by linarith) (by linarith)
  have q2 : 0 ≤ (1 + uR) * (1 + uR) := mul_nonneg (by linarith) (by linarith)
  have q1' : (1 - uR) * (1 - uR) ≤ 1 := by
    have : (1 - uR) * (1 - uR) ≤ 1 * 1 := mul_le_mul (by linarith) (by linarith) (by linarith) (by norm_num)
    linarith
  have q2' : (1 + uR) * (1 + uR) ≤ 5 / 3 := by
    have : (1 + uR) * (1 + uR) ≤ (5 / 4) * (5 / 4) :=
      mul_le_mul (by linarith) (by linarith) (by linarith) (by norm_num)
    linarith
  have f1 : ((A + B + C) * (1 - uR) - 3 * eR) * ((1 - uR) * (1 - uR)) ≤ S * ((1 - uR) * (1 - uR)) :=
    mul_le_mul_of_nonneg_right hSlo q1
  have f2 : S * ((1 + uR) * (1 + uR)) ≤ ((A + B + C) * (1 + uR) + 3 * eR) * ((1 + uR) * (1 + uR)) :=
    mul_le_mul_of_nonneg_right hShi q2
  have g1 : 3 * eR * ((1 - uR) * (1 - uR)) ≤ 3 * eR * 1 := mul_le_mul_of_nonneg_left q1' (by linarith)
  have g2 : 3 * eR * ((1 + uR) * (1 + uR)) ≤ 3 * eR * (5 / 3) := mul_le_mul_of_nonneg_left q2' (by linarith)
  constructor
  · have e : (A + B + C) * (1 - uR) ^ 3 - 3 * eR * ((1 - uR) * (1 - uR))
        = ((A + B + C) * (1 - uR) - 3 * eR) * ((1 - uR) * (1 - uR)) := by ring
    have e2 : S * (1 - uR) * (1 - uR) = S * ((1 - uR) * (1 - uR)) := by ring
    linarith
  · have e : (A + B + C) * (1 + uR) ^ 3 + 3 * eR * ((1 + uR) * (1 + uR))
        = ((A + B + C) * (1 + uR) + 3 * eR) * ((1 + uR) * (1 + uR)) := by ring
    have e2 : S * (1 + uR) * (1 + uR) = S * ((1 + uR) * (1 + uR)) := by ring
    linarith

theorem eR_le_T : eR ≤ T := by
  unfold eR T
  exact one_div_le_one_div_of_le (by positivity) (pow_le_pow_right₀ (by norm_num) (by norm_num))

theorem five_eR_le : 5 * eR ≤ 1 / 2 ^ 400 * T := by
  unfold eR T
  have h : (2 : ℝ) ^ 1075 = 2 ^ 400 * 2 ^ 100 * 2 ^ 575 := by rw [← pow_add, ← pow_add]
  have h5 : (5 : ℝ) ≤ 2 ^ 575 :=
    calc (5 : ℝ) ≤ 2 ^ 3 := by norm_num
      _ ≤ 2 ^ 575 := pow_le_pow_right₀ (by norm_num) (by norm_num)
  rw [h]
  generalize (2 : ℝ) ^ 575 = c at h5
  have ha : (0 : ℝ) < 2 ^ 400 := by positivity
  have hb : (0 : ℝ) < 2 ^ 100 := by positivity
  generalize (2 : ℝ) ^ 400 = a at ha
  generalize (2 : ℝ) ^ 100 = b at hb
  have hc : 0 < c := by linarith
  rw [mul_one_div, one_div_mul_one_div, div_le_div_iff₀ (by positivity) (by positivity)]
  have : 0 < a * b := mul_pos ha hb
  nlinarith

theorem coord_le {x N : ℝ} (h : x ^ 2 ≤ N) (hN : N ≤ 2 ^ 400) : |x| ≤ 2 ^ 200 := by
  apply abs_le_of_sq_le_sq _ (by positivity)
  have : ((2 : ℝ) ^ 200) ^ 2 = 2 ^ 400 := by rw [← pow_mul]
  rw [this]; linarith

theorem norm2_spec (v : V3) (hv : Fin3 v) (hlo : 1 / 2 ^ 400 ≤ nrm2 v) (hhi : nrm2 v ≤ 2 ^ 400) :
    Fin v.norm2 ∧ nrm2 v * ((1 - uR) ^ 3 - T) ≤ val v.norm2 ∧
      val v.norm2 ≤ nrm2 v * ((1 + uR) ^ 3 + T) := by
  obtain ⟨fx, fy, fz⟩ := hv
  have hx0 := sq_nonneg (val v.x)
  have hy0 := sq_nonneg (val v.y)
  have hz0 := sq_nonneg (val v.z)
  have hN : nrm2 v = val v.x ^ 2 + val v.y ^ 2 + val v.z ^ 2 := rfl
  have hu0 := uR_nonneg
  have hu4 := uR_le_quarter
  have he1 := eR_le_one
  have he0 := eR_nonneg
  have h5 : 5 * eR ≤ nrm2 v * T := le_trans five_eR_le (mul_le_mul_of_nonneg_right hlo T_pos.le)
  clear hlo
  obtain ⟨K, hK⟩ : ∃ K : ℝ, K = 2 ^ 400 := ⟨_, rfl⟩
  have hbig : ∀ x : ℝ, x ≤ K * 1024 → x < 2 ^ 1000 := by
    intro x h
    have e410 : (2 : ℝ) ^ 410 = 2 ^ 400 * 2 ^ 10 := by rw [← pow_add]
    have e10 : (2 : ℝ) ^ 10 = 1024 := by norm_num
    rw [hK, ← e10, ← e410] at h
    exact lt_of_le_of_lt h (pow_lt_pow_right₀ (by norm_num) (by norm_num))
  have o400 : (1 : ℝ) ≤ K := by rw [hK]; exact one_le_pow₀ (by norm_num)
  rw [← hK] at hhi
  clear hK
  have mulb : ∀ x : F64, Fin x → val x ^ 2 ≤ K →
      ∃ δ η : ℝ, |δ| ≤ uR ∧ |η| ≤ eR ∧ val (F64.mul x x) = val x ^ 2 * (1 + δ) + η ∧ Fin (F64.mul x x) ∧
        0 ≤ val (F64.mul x x) ∧ val (F64.mul x x) ≤ K * 2 + 1 := by
    intro x hx hb
    have hsq : val x * val x = val x ^ 2 := by ring
    obtain ⟨δ, η, hδ, hη, hval, hf⟩ := mul_std x x hx hx (by
      rw [hsq, abs_of_nonneg (sq_nonneg _)]
      exact hbig _ (by linarith))
    rw [hsq] at hval
    have dd := abs_le.mp hδ
    have ee := abs_le.mp hη
    have h1 : 0 ≤ val x ^ 2 * (1 + δ) := mul_nonneg (sq_nonneg _) (by linarith)
    have h2 : val x ^ 2 * (1 + δ) ≤ K * 2 := mul_le_mul hb (by linarith) (by linarith) (by linarith)
    refine ⟨δ, η, hδ, hη, hval, hf, ?_, ?_⟩
    · apply val_nonneg_of_ge; rw [hval]; linarith
    · rw [hval]; linarith
  obtain ⟨δa, ηa, hδa, hηa, va, fa, a0, ab⟩ := mulb v.x fx (by linarith)
  obtain ⟨δb, ηb, hδb, hηb, vb, fb, b0, bb⟩ := mulb v.y fy (by linarith)
  obtain ⟨δc, ηc, hδc, hηc, vc, fc, c0, cb⟩ := mulb v.z fz (by linarith)
  obtain ⟨δ1, hδ1, v1, f1⟩ := add_std _ _ fa fb (by
    rw [abs_of_nonneg (by linarith)]
    exact hbig _ (by linarith))
  have d1 := abs_le.mp hδ1
  have s0 : 0 ≤ val (F64.add (F64.mul v.x v.x) (F64.mul v.y v.y)) := by
    rw [v1]; exact mul_nonneg (by linarith) (by linarith)
  have sb : val (F64.add (F64.mul v.x v.x) (F64.mul v.y v.y)) ≤ (K * 4 + 2) * 2 := by
    rw [v1]; exact mul_le_mul (by linarith) (by linarith) (by linarith) (by linarith)
  obtain ⟨δ2, hδ2, v2, f2⟩ := add_std _ _ f1 fc (by
    rw [abs_of_nonneg (by linarith)]
    exact hbig _ (by linarith))
  have hn : v.norm2 = F64.add (F64.add (F64.mul v.x v.x) (F64.mul v.y v.y)) (F64.mul v.z v.z) := rfl
  rw [hn]
  refine ⟨f2, ?_⟩
  rw [v2, v1]
  obtain ⟨l, h⟩ := norm2_core hx0 hy0 hz0 va vb vc a0 b0 c0 hδa hδb hδc hηa hηb hηc hδ1 hδ2
  rw [← hN] at l h
  constructor
  · have : nrm2 v * ((1 - uR) ^ 3 - T) = nrm2 v * (1 - uR) ^ 3 - nrm2 v * T := by ring
    rw [this]; linarith
  · have : nrm2 v * ((1 + uR) ^ 3 + T) = nrm2 v * (1 + uR) ^ 3 + nrm2 v * T := by ring
    rw [this]; linarith

/-! ### the reciprocal `1 ⊘ ŝ` -/

theorem valQ_cast (x : F64) : ((F64Round.val x : ℚ) : ℝ) = val x := by
  unfold F64Round.val F64Round.U val; push_cast; rfl

/-- `1 ⊘ s` for a finite `s` with `2^-201 ≤ s ≤ 2^201`: finite, relative error `u` -/
theorem recip_spec {s : F64} (fs : Fin s) (hlo : 1 / 2 ^ 201 ≤ val s) (hhi : val s ≤ 2 ^ 201) :
    Fin (F64.div F64.one s) ∧ |val (F64.div F64.one s) - 1 / val s| ≤ (1 / val s) * uR := by
  have hspos : 0 < val s := lt_of_lt_of_le (by positivity) hlo
  have hz : s.isZero = false := by
    cases h : s.isZero
    · rfl
    · rw [val_of_isZero h] at hspos; exact absurd hspos (lt_irrefl _)
  obtain ⟨f1, v1⟩ := CA.val_one
  have hq : (((F64Round.val F64.one / F64Round.val s : ℚ)) : ℝ) = 1 / val s := by
    push_cast; rw [valQ_cast, valQ_cast, v1]
  have hinv_hi : 1 / val s ≤ 2 ^ 201 := by
    rw [div_le_iff₀ hspos]
    have : (1 : ℝ) = 2 ^ 201 * (1 / 2 ^ 201) := by field_simp
    calc (1 : ℝ) = 2 ^ 201 * (1 / 2 ^ 201) := this
      _ ≤ 2 ^ 201 * val s := mul_le_mul_of_nonneg_left hlo (by positivity)
  have hinv_lo : 1 / 2 ^ 201 ≤ 1 / val s := one_div_le_one_div_of_le hspos hhi
  have hinv_pos : 0 < 1 / val s := by positivity
  have fr : Fin (F64.div F64.one s) := by
    apply F64Round.div_fin_of_lt f1 fs hz
    have h : ((|F64Round.val F64.one / F64Round.val s| : ℚ) : ℝ) < ((2 ^ 1024 - 2 ^ 970 : ℚ) : ℝ) := by
      rw [Rat.cast_abs, hq, abs_of_pos hinv_pos]
      push_cast
      have e1 : (2 : ℝ) ^ 1024 = 2 ^ 970 * 2 ^ 54 := by rw [← pow_add]
      have e2 : (2 : ℝ) ^ 201 ≤ 2 ^ 970 := pow_le_pow_right₀ (by norm_num) (by norm_num)
      have e3 : (2 : ℝ) ^ 54 = 18014398509481984 := by norm_num
      rw [e1, e3]
      have p : (0 : ℝ) < 2 ^ 970 := by positivity
      generalize (2 : ℝ) ^ 970 = A at *
      generalize (2 : ℝ) ^ 201 = B at *
      linarith
    exact_mod_cast h
  refine ⟨fr, ?_⟩
  have hlow : (1 : ℚ) / 2 ^ 1022 ≤ |F64Round.val F64.one / F64Round.val s| := by
    have h : (((1 : ℚ) / 2 ^ 1022 : ℚ) : ℝ) ≤ ((|F64Round.val F64.one / F64Round.val s| : ℚ) : ℝ) := by
      rw [Rat.cast_abs, hq, abs_of_pos hinv_pos]
      push_cast
      have e2 : (1 : ℝ) / 2 ^ 1022 ≤ 1 / 2 ^ 201 :=
        one_div_le_one_div_of_le (by positivity) (pow_le_pow_right₀ (by norm_num) (by norm_num))
      exact le_trans e2 hinv_lo
    exact_mod_cast h
  have hrel := F64Round.div_rel_err f1 fs hz fr hlow
  have hrel' : ((|F64Round.val (F64.div F64.one s) - F64Round.val F64.one / F64Round.val s| : ℚ) : ℝ)
      ≤ ((|F64Round.val F64.one / F64Round.val s| / 2 ^ 53 : ℚ) : ℝ) := Rat.cast_le.mpr hrel
  rw [Rat.cast_abs, Rat.cast_sub, hq, valQ_cast, Rat.cast_div, Rat.cast_abs, hq, abs_of_pos hinv_pos] at hrel'
  push_cast at hrel'
  have : 1 / val s * uR = 1 / val s / 2 ^ 53 := by unfold uR; ring
  rw [this]
  exact hrel'

end NZ

/-- `Normalize` of a finite vector whose squared norm neither under- nor overflows is Normalize-grade: |‖v'‖² − 1| ≤ (289/64)·2^-52 -/
theorem normalize_nunit (v : V3) (hv : Fin3 v) (hlo : 1 / 2 ^ 400 ≤ nrm2 v) (hhi : nrm2 v ≤ 2 ^ 400) : NUnit v.normalize := by
  obtain ⟨fn2, n2lo, n2hi⟩ := NZ.norm2_spec v hv hlo hhi
  obtain ⟨fx, fy, fz⟩ := hv
  obtain ⟨hL, hH, -, -⟩ := NZ.num_facts
  have hN : nrm2 v = val v.x ^ 2 + val v.y ^ 2 + val v.z ^ 2 := rfl
  have hNpos : 0 < nrm2 v := lt_of_lt_of_le (by positivity) hlo
  have hu0 := uR_nonneg
  have hu4 := NZ.uR_le_quarter
  have hc3 : 0 < (1 - uR) ^ 3 - NZ.T := by unfold NZ.T uR; norm_num
  have hn2pos : 0 < val v.norm2 := lt_of_lt_of_le (mul_pos hNpos hc3) n2lo
  -- the zero branch is not taken
  have hbr : F64.feq v.norm2 (F64.zero false) = false := by
    cases h : F64.feq v.norm2 (F64.zero false)
    · rfl
    · have := (feq_iff_val fn2 (zero_val false).1).mp h
      rw [(zero_val false).2] at this; linarith
  have hnorm : v.normalize = ⟨F64.mul (F64.div F64.one (F64.sqrt v.norm2)) v.x,
      F64.mul (F64.div F64.one (F64.sqrt v.norm2)) v.y, F64.mul (F64.div F64.one (F64.sqrt v.norm2)) v.z⟩ := by
    unfold V3.normalize
    simp only [hbr, Bool.false_eq_true, if_false]
    rfl
  -- the square root
  obtain ⟨fs, s0, slo, shi⟩ := NZ.sqrt_two_sided v.norm2 fn2 hn2pos
  obtain ⟨sL, sH⟩ := NZ.s_bounds n2lo n2hi slo shi
  have hs401lo : 1 / 2 ^ 401 ≤ val (F64.sqrt v.norm2) ^ 2 := by
    have e : (1 : ℝ) / 2 ^ 401 = 1 / 2 ^ 400 * (1 / 2) := by
      rw [show (401 : ℕ) = 400 + 1 from rfl, pow_succ]; field_simp
    rw [e]
    exact le_trans (mul_le_mul hlo hL (by norm_num) hNpos.le) sL
  have hs401hi : val (F64.sqrt v.norm2) ^ 2 ≤ 2 ^ 401 := by
    have e : (2 : ℝ) ^ 401 = 2 ^ 400 * 2 := by rw [show (401 : ℕ) = 400 + 1 from rfl, pow_succ]
    rw [e]
    have hH0 : 0 ≤ NZ.Hc := by
      by_contra hc
      have h1 : nrm2 v * NZ.Hc < 0 := mul_neg_of_pos_of_neg hNpos (not_le.mp hc)
      have := sq_nonneg (val (F64.sqrt v.norm2))
      linarith
    exact le_trans sH (mul_le_mul hhi hH hH0 (by positivity))
  have hslo : 1 / 2 ^ 201 ≤ val (F64.sqrt v.norm2) := by
    have h : ((1 : ℝ) / 2 ^ 201) ^ 2 ≤ val (F64.sqrt v.norm2) ^ 2 := by
      have e : ((1 : ℝ) / 2 ^ 201) ^ 2 = 1 / 2 ^ 402 := by rw [div_pow, one_pow, ← pow_mul]
      have e2 : (1 : ℝ) / 2 ^ 402 ≤ 1 / 2 ^ 401 :=
        one_div_le_one_div_of_le (by positivity) (pow_le_pow_right₀ (by norm_num) (by norm_num))
      rw [e]; exact le_trans e2 hs401lo
    have := abs_le_of_sq_le_sq h s0
    exact le_trans (le_abs_self _) this
  have hshi : val (F64.sqrt v.norm2) ≤ 2 ^ 201 := by
    have h : val (F64.sqrt v.norm2) ^ 2 ≤ ((2 : ℝ) ^ 201) ^ 2 := by
      have e : ((2 : ℝ) ^ 201) ^ 2 = 2 ^ 402 := by rw [← pow_mul]
      have e2 : (2 : ℝ) ^ 401 ≤ 2 ^ 402 := pow_le_pow_right₀ (by norm_num) (by norm_num)
      rw [e]; exact le_trans hs401hi e2
    have := abs_le_of_sq_le_sq h (by positivity)
    exact le_trans (le_abs_self _) this
  have hspos : 0 < val (F64.sqrt v.norm2) := lt_of_lt_of_le (by positivity) hslo
  -- the reciprocal
  obtain ⟨fr, hr⟩ := NZ.recip_spec fs hslo hshi
  have hrb : |val (F64.div F64.one (F64.sqrt v.norm2))| ≤ 2 ^ 202 := by
    have hinv_hi : 1 / val (F64.sqrt v.norm2) ≤ 2 ^ 201 := by
      rw [div_le_iff₀ hspos]
      calc (1 : ℝ) = 2 ^ 201 * (1 / 2 ^ 201) := by field_simp
        _ ≤ 2 ^ 201 * val (F64.sqrt v.norm2) := mul_le_mul_of_nonneg_left hslo (by positivity)
    have hinv_pos : 0 < 1 / val (F64.sqrt v.norm2) := by positivity
    have h1 : 1 / val (F64.sqrt v.norm2) * uR ≤ 1 / val (F64.sqrt v.norm2) * 1 :=
      mul_le_mul_of_nonneg_left (by linarith) hinv_pos.le
    have e : (2 : ℝ) ^ 202 = 2 ^ 201 * 2 := by rw [show (202 : ℕ) = 201 + 1 from rfl, pow_succ]
    rw [e]
    have hr' := abs_le.mp hr
    rw [abs_le]
    generalize (2 : ℝ) ^ 201 = B at *
    constructor <;> linarith
  -- the components
  have hcx := NZ.coord_le (show val v.x ^ 2 ≤ nrm2 v by rw [hN]; nlinarith [sq_nonneg (val v.y), sq_nonneg (val v.z)]) hhi
  have hcy := NZ.coord_le (show val v.y ^ 2 ≤ nrm2 v by rw [hN]; nlinarith [sq_nonneg (val v.x), sq_nonneg (val v.z)]) hhi
  have hcz := NZ.coord_le (show val v.z ^ 2 ≤ nrm2 v by rw [hN]; nlinarith [sq_nonneg (val v.x), sq_nonneg (val v.y)]) hhi
  have hprod : ∀ c : ℝ, |c| ≤ 2 ^ 200 → |val (F64.div F64.one (F64.sqrt v.norm2)) * c| < 2 ^ 1000 := by
    intro c hc
    rw [abs_mul]
    have h1 : |val (F64.div F64.one (F64.sqrt v.norm2))| * |c| ≤ 2 ^ 202 * 2 ^ 200 :=
      mul_le_mul hrb hc (abs_nonneg _) (by positivity)
    rw [← pow_add] at h1
    exact lt_of_le_of_lt h1 (pow_lt_pow_right₀ (by norm_num) (by norm_num))
  obtain ⟨δx, ηx, hδx, hηx, vx, fx'⟩ := mul_std _ _ fr fx (hprod _ hcx)
  obtain ⟨δy, ηy, hδy, hηy, vy, fy'⟩ := mul_std _ _ fr fy (hprod _ hcy)
  obtain ⟨δz, ηz, hδz, hηz, vz, fz'⟩ := mul_std _ _ fr fz (hprod _ hcz)
  rw [hnorm]
  refine ⟨⟨fx', fy', fz'⟩, ?_⟩
  have hET := NZ.eR_le_T
  exact NZ.core hN hNpos n2lo n2hi hspos slo shi hr hδx hδy hδz (le_trans hηx hET) (le_trans hηy hET)
    (le_trans hηz hET) vx vy vz

end S2Proofs.CapF64
