/-
  S2Proofs.CapF64.AddMono — the soft-float `S2.Chord.add s t` (= `s1.ChordAngle.Add`) is never below its first argument:

      chordAdd_ge_left          val s ≤ val (Chord.add s t)        for finite s, t ∈ [0, 4]   (no allowance)
      chordAdd_ge_left_partial  the same under `t ≤ 2^-52 ∨ 2^-47 ≤ t ∨ s ≤ 7/2` (standard model + monotone rounding only)

  Regimes (u = 2^-53; x = s⊗(1⊖t/4), y = t⊗(1⊖s/4), result min 4 ((x⊕y) ⊕ 2·sqrt(x⊗y))):
    R0  t = 0 / clamp branch;   R1  t ≤ 2u: 1⊖t/4 = 1 exactly (grid below 1; the tie t = 2u by kernel evaluation), x = s;
    R3  `r3_core` (real inequality from the `Q` bookkeeping of `ChordAdd`);
    R4  2u < t < 2^-47, s > 7/2: half-ulp bounds (`IsRound.ulp_err`) give s − x ≤ t + 4u; the clamp test leaves
        s + t ≤ 4 − 2u (`sum_le_of_not_ge`, nearest + grid), hence 1 − s/4 ≥ 2u (`b_ge`, grid); `r4_core`.
  In all cases the last step is monotonicity of the final rounded addition (`le_add_of_le`).
-/
import S2Proofs.CapF64.AddCap
import S2Proofs.C12.MarginRound

namespace S2Proofs.CapF64
open S2 S2.Exact S2Proofs.F64Order S2Proofs.FloatErr
open CA

set_option exponentiation.threshold 3000

namespace AM

/-! ### monotone rounding -/

theorem le_add_of_le {f g h : F64} (hf : Fin f) (hg : Fin g) (hh : Fin h) (hgh : Fin (g + h))
    (hle : val f ≤ val g + val h) : val f ≤ val (g + h) := by
  have h1 := F64Round.isRound_self hf
  have h2 := F64Round.isRound_add hg hh
  have hq : F64Round.val f ≤ F64Round.val g + F64Round.val h := by
    have : ((F64Round.val f : ℚ) : ℝ) ≤ ((F64Round.val g + F64Round.val h : ℚ) : ℝ) := by
      push_cast; rw [val_cast, val_cast, val_cast]; exact hle
    exact_mod_cast this
  have := F64Round.IsRound.mono h1 h2 hq
  exact (le_iff_val hf hgh).1 this

/-! ### the grid -/

theorem val_eq_toInt (x : F64) : val x * 2 ^ 1074 = (toInt x : ℝ) := by
  unfold val; field_simp

/-- a float at or above `2^52·2^k` units is a multiple of `2^k` units -/
theorem grid {x : F64} (k : ℕ) (h : (2 : ℝ) ^ 52 * 2 ^ k / 2 ^ 1074 ≤ val x) :
    ∃ z : ℤ, val x = (z : ℝ) * 2 ^ k / 2 ^ 1074 := by
  have hK : (0 : ℝ) < 2 ^ 1074 := by positivity
  have h1 : (2 : ℝ) ^ 52 * 2 ^ k ≤ (toInt x : ℝ) := by
    rw [← val_eq_toInt]
    rwa [div_le_iff₀ hK] at h
  have h2 : ((2 ^ 52 * 2 ^ k : ℕ) : ℤ) ≤ toInt x := by
    have : (((2 ^ 52 * 2 ^ k : ℕ) : ℤ) : ℝ) ≤ (toInt x : ℝ) := by
      have := h1; push_cast; norm_num at this ⊢; exact this
    exact_mod_cast this
  have hpos : 0 < val x := lt_of_lt_of_le (by positivity) h
  have hsb := signBit_of_pos hpos
  have hm : toInt x = (F64Inj.mag x : ℤ) := by rw [F64Inj.toInt_eq_mag, hsb]; simp
  rw [hm] at h2
  have h3 : 2 ^ 52 * 2 ^ k ≤ F64Inj.mag x := by exact_mod_cast h2
  obtain ⟨z, hz⟩ := F64Round.rep_dvd (F64Round.rep_mag x) (Or.inr h3)
  refine ⟨(z : ℤ), ?_⟩
  rw [eq_div_iff hK.ne', val_eq_toInt, hm, hz]
  push_cast; ring

theorem grid53 {x : F64} (h : 1 / 2 ≤ val x) : ∃ z : ℤ, val x = (z : ℝ) / 2 ^ 53 := by
  obtain ⟨z, hz⟩ := grid (x := x) 1021 (by
    have : (2 : ℝ) ^ 52 * 2 ^ 1021 / 2 ^ 1074 = 1 / 2 := by
      rw [show (1074 : ℕ) = 52 + 1021 + 1 from rfl, pow_add, pow_add]; field_simp
    rw [this]; exact h)
  refine ⟨z, ?_⟩
  rw [hz, show (1074 : ℕ) = 1021 + 53 from rfl, pow_add]; field_simp

theorem grid51 {x : F64} (h : 2 ≤ val x) : ∃ z : ℤ, val x = (z : ℝ) / 2 ^ 51 := by
  obtain ⟨z, hz⟩ := grid (x := x) 1023 (by
    have : (2 : ℝ) ^ 52 * 2 ^ 1023 / 2 ^ 1074 = 2 := by
      rw [show (1074 : ℕ) = 52 + 1023 - 1 from rfl, show (52 + 1023 - 1 : ℕ) = 1074 from rfl,
        show (2 : ℝ) ^ 52 * 2 ^ 1023 = 2 * 2 ^ 1074 by rw [show (1074 : ℕ) = 52 + 1022 from rfl, pow_add,
          show (1023 : ℕ) = 1022 + 1 from rfl, pow_succ]; ring]
      field_simp
    rw [this]; exact h)
  refine ⟨z, ?_⟩
  rw [hz, show (1074 : ℕ) = 1023 + 51 from rfl, pow_add]; field_simp

/-! ### R1: `1 − t/4` rounds to 1 for `t ≤ 2^-52` -/

theorem quarter_small {t : F64} (ht : Fin t) (h0 : 0 ≤ val t) (h : val t < 1 / 2 ^ 52) :
    Fin (Chord.fQuarter * t) ∧ 0 ≤ val (Chord.fQuarter * t) ∧ val (Chord.fQuarter * t) < 1 / 2 ^ 54 := by
  have h54 : (1 : ℝ) / 2 ^ 52 / 4 = 1 / 2 ^ 54 := by norm_num
  by_cases h3 : 3 ≤ t.expField
  · obtain ⟨f, e⟩ := quarter_exact ht h3
    refine ⟨f, ?_, ?_⟩ <;> rw [e] <;> linarith
  · have hb := tiny_of_expField (t := t) (by omega)
    have h1' : val t ≤ 1 := le_trans h.le (by norm_num)
    obtain ⟨f, q0, _, qu⟩ := mul_nn val_quarter.1 ht (by rw [val_quarter.2]; norm_num) h0
      (by
        rw [val_quarter.2]
        exact le_trans (by linarith : 1 / 4 * val t ≤ 1) one_le_big)
    rw [val_quarter.2] at qu
    have h1 : 1 / 4 * val t * (1 + uR) ≤ 1 / 4 * val t * 2 :=
      mul_le_mul_of_nonneg_left (by have := uR_le_one; linarith) (by linarith)
    have h2 := eR_le_tau
    have h5 : tau ≤ 1 / 2 ^ 55 := inv_pow_le (by norm_num)
    have h6 : (1 : ℝ) / 2 ^ 55 < 1 / 2 ^ 54 := by norm_num
    have e0 := eR_nonneg
    exact ⟨f, q0, by linarith⟩

theorem ratval_eq {x : F64} {q : ℚ} (h : val x = (q : ℝ)) : F64Round.val x = q := by
  have : ((F64Round.val x : ℚ) : ℝ) = (q : ℝ) := by rw [val_cast]; exact h
  exact_mod_cast this

theorem one_sub_eq_one_lt {t : F64} (ht : Fin t) (h0 : 0 ≤ val t) (h : val t < 1 / 2 ^ 52) :
    val (F64.one - Chord.fQuarter * t) = 1 := by
  obtain ⟨fq, q0, q1⟩ := quarter_small ht h0 h
  obtain ⟨fw, w0, _⟩ := Q_one_sub ht h0 (le_trans h.le (by norm_num))
  have hr := F64Round.isRound_sub val_one.1 fq
  change F64Round.IsRound (F64.one - Chord.fQuarter * t) _ at hr
  have hone : F64Round.val F64.one = 1 := F64Round.val_one
  have hq0 : (0 : ℚ) ≤ F64Round.val (Chord.fQuarter * t) := by
    have : ((0 : ℚ) : ℝ) ≤ ((F64Round.val (Chord.fQuarter * t) : ℚ) : ℝ) := by rw [val_cast]; simpa using q0
    exact_mod_cast this
  have hup : val (F64.one - Chord.fQuarter * t) ≤ 1 := by
    have := F64Round.IsRound.mono hr (F64Round.isRound_self val_one.1) (by linarith)
    have := (le_iff_val fw val_one.1).1 this
    rwa [val_one.2] at this
  have hn := hr.nearest fw F64.one
  have hn' := (Rat.cast_le (K := ℝ)).mpr hn
  push_cast at hn'
  rw [val_cast, val_cast, val_cast, val_one.2] at hn'
  have e1 : (1 : ℝ) - (1 - val (Chord.fQuarter * t)) = val (Chord.fQuarter * t) := by ring
  rw [e1, abs_of_nonneg q0] at hn'
  have hlow := (abs_le.mp hn').1
  have hlo : 1 - 1 / 2 ^ 53 < val (F64.one - Chord.fQuarter * t) := by
    have : (1 : ℝ) / 2 ^ 54 + 1 / 2 ^ 54 = 1 / 2 ^ 53 := by norm_num
    linarith
  obtain ⟨z, hz⟩ := grid53 (x := F64.one - Chord.fQuarter * t) (by
    have : (1 : ℝ) / 2 ≤ 1 - 1 / 2 ^ 53 := by norm_num
    linarith)
  rw [hz] at hlo hup ⊢
  have hp : (0 : ℝ) < 2 ^ 53 := by positivity
  rw [div_le_iff₀ hp] at hup
  rw [lt_div_iff₀ hp] at hlo
  have h1 : (z : ℝ) ≤ ((2 ^ 53 : ℤ) : ℝ) := by push_cast; linarith
  have h2 : (((2 ^ 53 - 1 : ℤ)) : ℝ) < (z : ℝ) := by
    push_cast
    have : ((1 : ℝ) - 1 / 2 ^ 53) * 2 ^ 53 = 2 ^ 53 - 1 := by field_simp
    linarith
  have h1' : z ≤ 2 ^ 53 := by exact_mod_cast h1
  have h2' : (2 ^ 53 - 1 : ℤ) < z := by exact_mod_cast h2
  have : z = 2 ^ 53 := by omega
  rw [this]; norm_num

theorem one_sub_eq_one_tie : val (F64.one - Chord.fQuarter * (⟨0x3CB0000000000000⟩ : F64)) = 1 := by
  have h : toInt (F64.one - Chord.fQuarter * (⟨0x3CB0000000000000⟩ : F64)) = 2 ^ 1074 := by decide +kernel
  exact val_of_toInt h (by push_cast; ring)

theorem one_sub_eq_one {t : F64} (ht : Fin t) (h0 : 0 ≤ val t) (h : val t ≤ 1 / 2 ^ 52) :
    val (F64.one - Chord.fQuarter * t) = 1 := by
  rcases h.lt_or_eq with hlt | heq
  · exact one_sub_eq_one_lt ht h0 hlt
  · have hti : toInt t = 2 ^ 1022 := by
      have h1 := val_eq_toInt t
      rw [heq] at h1
      have : ((toInt t : ℤ) : ℝ) = ((2 ^ 1022 : ℤ) : ℝ) := by
        rw [← h1]; norm_num
      exact_mod_cast this
    have hc : toInt (⟨0x3CB0000000000000⟩ : F64) = 2 ^ 1022 := by decide +kernel
    have : t = (⟨0x3CB0000000000000⟩ : F64) := by
      apply F64Inj.toInt_inj (by rw [hti, hc])
      · rintro rfl
        have : toInt (F64.zero true) = 0 := by decide
        rw [this] at hti
        exact absurd hti (by positivity)
      · decide
    rw [this]; exact one_sub_eq_one_tie

/-! ### R3: the real inequality of the standard model -/

theorem r3_core {s t G A B u δ : ℝ} (hu : u = 1 / 2 ^ 53) (hs0 : 0 ≤ s) (hs4 : s ≤ 4) (ht2 : 2 * u < t)
    (hsum : s + t < 4) (hG0 : 0 ≤ G) (hG : G ^ 2 = s * (1 - t / 4) * (t * (1 - s / 4)))
    (hδ : δ ≤ 1 / 2 ^ 400)
    (hA : (s * (1 - t / 4) + t * (1 - s / 4)) * (1 - 3 * u) - δ ≤ A)
    (hB : 2 * G * (1 - 5 * u) - δ ≤ B)
    (hc : 64 * u ≤ t ∨ s ≤ 7 / 2) : s ≤ A + B := by
  subst hu
  have ht0 : 0 < t := by
    have : (0 : ℝ) < 2 * (1 / 2 ^ 53) := by positivity
    linarith
  have ha : s / 4 ≤ 1 - t / 4 := by linarith
  have hb : t / 4 ≤ 1 - s / 4 := by linarith
  have ha0 : 0 ≤ 1 - t / 4 := by linarith
  have hb0 : 0 ≤ 1 - s / 4 := by linarith
  have hsa0 : 0 ≤ s * (1 - t / 4) := mul_nonneg hs0 ha0
  have htb0 : 0 ≤ t * (1 - s / 4) := mul_nonneg ht0.le hb0
  -- 3u·s·a ≤ 3u·s
  have h6 : s * (1 - t / 4) ≤ s := by
    have := mul_le_mul_of_nonneg_left (by linarith : 1 - t / 4 ≤ 1) hs0
    linarith
  have hδ' : (1 : ℝ) / 2 ^ 400 ≤ 1 / 2 ^ 120 := inv_pow_le (by norm_num)
  by_cases h64 : 64 * (1 / 2 ^ 53) ≤ t
  · -- t ≥ 2^-47
    have hGst : s * t / 4 ≤ G := by
      by_contra hlt
      have hlt := not_le.mp hlt
      have h1 : G ^ 2 < (s * t / 4) ^ 2 := pow_lt_pow_left₀ hlt hG0 two_ne_zero
      have h2 : (s * (s / 4)) * (t * (t / 4)) ≤ s * (1 - t / 4) * (t * (1 - s / 4)) :=
        mul_le_mul (mul_le_mul_of_nonneg_left ha hs0) (mul_le_mul_of_nonneg_left hb ht0.le) (by positivity) hsa0
      have e : (s * t / 4) ^ 2 = (s * (s / 4)) * (t * (t / 4)) := by ring
      linarith
    have h3 : t * (t / 4) ≤ t * (1 - s / 4) := mul_le_mul_of_nonneg_left hb ht0.le
    have h4 : (64 * (1 / 2 ^ 53)) * (16 * (1 / 2 ^ 53)) ≤ t * (t / 4) :=
      mul_le_mul h64 (by linarith) (by positivity) ht0.le
    have h5 : t * (1 - s / 4) * (1 / 2) ≤ t * (1 - s / 4) * (1 - 3 * (1 / 2 ^ 53)) :=
      mul_le_mul_of_nonneg_left (by norm_num) htb0
    have h7 : 2 * (s * t / 4) * (1 - 5 * (1 / 2 ^ 53)) ≤ 2 * G * (1 - 5 * (1 / 2 ^ 53)) :=
      mul_le_mul_of_nonneg_right (by linarith) (by norm_num)
    have h8 : s * (16 * (1 / 2 ^ 53)) ≤ s * (t / 4) := mul_le_mul_of_nonneg_left (by linarith) hs0
    have h9 : s * (t / 4) * (1 / 2) ≤ s * (t / 4) * (1 - 10 * (1 / 2 ^ 53)) :=
      mul_le_mul_of_nonneg_left (by norm_num) (mul_nonneg hs0 (by linarith))
    have h10 : (s * (1 - t / 4) + t * (1 - s / 4)) * (1 - 3 * (1 / 2 ^ 53))
        = s - s * (t / 4) + t * (1 - s / 4) * (1 - 3 * (1 / 2 ^ 53)) - 3 * (1 / 2 ^ 53) * (s * (1 - t / 4)) := by ring
    have h11 : 2 * (s * t / 4) * (1 - 5 * (1 / 2 ^ 53)) = s * (t / 4) + s * (t / 4) * (1 - 10 * (1 / 2 ^ 53)) := by ring
    have h12 : (64 * (1 / 2 ^ 53)) * (16 * (1 / 2 ^ 53)) * (1 / 2) ≥ 2 * (1 / 2 ^ 120 : ℝ) := by norm_num
    rw [h10] at hA
    rw [h11] at h7
    linarith
  · have h64 := not_le.mp h64
    have hs72 : s ≤ 7 / 2 := by
      rcases hc with hc | hc
      · linarith
      · exact hc
    have hb8 : 1 / 8 ≤ 1 - s / 4 := by linarith
    have ha2 : 1 / 2 ≤ 1 - t / 4 := by linarith
    have h1 : (2 * (1 / 2 ^ 53)) * (1 / 8) ≤ t * (1 - s / 4) := mul_le_mul ht2.le hb8 (by norm_num) ht0.le
    have hG19 : 19 * (1 / 2 ^ 53) * s ≤ G := by
      by_contra hlt
      have hlt := not_le.mp hlt
      have h1' : G ^ 2 < (19 * (1 / 2 ^ 53) * s) ^ 2 := pow_lt_pow_left₀ hlt hG0 two_ne_zero
      have h2 : (s * (1 / 2)) * ((2 * (1 / 2 ^ 53)) * (1 / 8)) ≤ s * (1 - t / 4) * (t * (1 - s / 4)) :=
        mul_le_mul (mul_le_mul_of_nonneg_left ha2 hs0) h1 (by norm_num) hsa0
      have h3 : s * s ≤ 4 * s := mul_le_mul_of_nonneg_right hs4 hs0
      have e : (19 * (1 / 2 ^ 53) * s) ^ 2 = (361 * (1 / 2 ^ 106)) * (s * s) := by ring
      have h4 : (361 * (1 / 2 ^ 106)) * (s * s) ≤ (361 * (1 / 2 ^ 106)) * (4 * s) :=
        mul_le_mul_of_nonneg_left h3 (by norm_num)
      have h5 : (361 * (1 / 2 ^ 106)) * (4 * s) ≤ (s * (1 / 2)) * ((2 * (1 / 2 ^ 53)) * (1 / 8)) := by
        have : (361 * (1 / 2 ^ 106 : ℝ)) * 4 ≤ (1 / 2) * ((2 * (1 / 2 ^ 53)) * (1 / 8)) := by norm_num
        have := mul_le_mul_of_nonneg_right this hs0
        linarith
      linarith
    have h5 : t * (1 - s / 4) * (1 / 2) ≤ t * (1 - s / 4) * (1 - 3 * (1 / 2 ^ 53)) :=
      mul_le_mul_of_nonneg_left (by norm_num) htb0
    have h7 : G * 1 ≤ G * (2 * (1 - 5 * (1 / 2 ^ 53))) := mul_le_mul_of_nonneg_left (by norm_num) hG0
    have h8 : s * (t / 4) ≤ s * (16 * (1 / 2 ^ 53)) := mul_le_mul_of_nonneg_left (by linarith) hs0
    have h10 : (s * (1 - t / 4) + t * (1 - s / 4)) * (1 - 3 * (1 / 2 ^ 53))
        = s - s * (t / 4) + t * (1 - s / 4) * (1 - 3 * (1 / 2 ^ 53)) - 3 * (1 / 2 ^ 53) * (s * (1 - t / 4)) := by ring
    have h12 : (2 * (1 / 2 ^ 53)) * (1 / 8) * (1 / 2) ≥ 2 * (1 / 2 ^ 120 : ℝ) := by norm_num
    rw [h10] at hA
    linarith

/-! ### the main branch -/

theorem rho3 : 1 - 3 * uR ≤ (1 - uR) ^ 3 := by unfold uR; norm_num
theorem rho5 : 1 - 5 * uR ≤ (1 - uR) ^ 5 := by unfold uR; norm_num

/-- everything the `Q` bookkeeping of `ChordAdd.add_main` yields about the intermediate floats -/
theorem chain (s t : F64) (hs : Fin s) (ht : Fin t)
    (hs0 : 0 ≤ val s) (hs4 : val s ≤ 4) (ht0 : 0 ≤ val t) (ht4 : val t ≤ 4) :
    let x := s * (F64.one - Chord.fQuarter * t)
    let y := t * (F64.one - Chord.fQuarter * s)
    (Fin x ∧ 0 ≤ val x) ∧ (Fin y ∧ 0 ≤ val y) ∧ (Fin (x * y) ∧ 0 ≤ val (x * y)) ∧
    (Fin (F64.sqrt (x * y)) ∧ 0 ≤ val (F64.sqrt (x * y))) ∧
    (Fin (x + y) ∧ 0 ≤ val (x + y)) ∧ (Fin (F64.two * F64.sqrt (x * y)) ∧ 0 ≤ val (F64.two * F64.sqrt (x * y))) ∧
    Fin (x + y + F64.two * F64.sqrt (x * y)) ∧
    (val s * (1 - val t / 4) + val t * (1 - val s / 4)) * (1 - uR) ^ 3 - 10 * tau ≤ val (x + y) ∧
    2 * Real.sqrt (val s * (1 - val t / 4) * (val t * (1 - val s / 4))) * (1 - uR) ^ 5 - 3 * e3
      ≤ val (F64.two * F64.sqrt (x * y)) := by
  intro x y
  have hτ := tau_pos
  have hτe := eR_le_tau
  have he3 := e3_pos
  have hte := tau_le_e3
  have e0 := eR_nonneg
  have qs := Q.exact hs hs0 hs4
  have qt := Q.exact ht ht0 ht4
  have qwt := Q_one_sub ht ht0 ht4
  have qws := Q_one_sub hs hs0 hs4
  have q2 := Q.const val_two (by norm_num)
  have qx : Q x (val s * (1 - val t / 4)) 2 (5 * tau) 9 :=
    Q.mul qs qwt (by norm_num) (by linarith) (by unfold uR; norm_num) (small_big (by norm_num))
  have qy : Q y (val t * (1 - val s / 4)) 2 (5 * tau) 9 :=
    Q.mul qt qws (by norm_num) (by linarith) (by unfold uR; norm_num) (small_big (by norm_num))
  have qp : Q (x * y) (val s * (1 - val t / 4) * (val t * (1 - val s / 4))) 5 (91 * tau) 82 :=
    Q.mul qx qy (by norm_num) (by linarith) (by unfold uR; norm_num) (small_big (by norm_num))
  have qr : Q (F64.sqrt (x * y)) (Real.sqrt (val s * (1 - val t / 4) * (val t * (1 - val s / 4)))) 4 e3 (2 ^ 515) :=
    Q.sqrt qp (by norm_num) he3.le (by rw [e3_sq]; linarith)
      (le_trans (by norm_num : (82 : ℝ) ≤ 2 ^ 7) (pow_le_pow_right₀ (by norm_num) (by norm_num)))
  have q2r : Q (F64.two * F64.sqrt (x * y))
      (2 * Real.sqrt (val s * (1 - val t / 4) * (val t * (1 - val s / 4)))) 5 (3 * e3) (4 * 2 ^ 515) :=
    Q.mul q2 qr (by norm_num) (by linarith) (big_mul big_515)
      (le_trans (mul_le_mul_of_nonneg_right (by norm_num : (4 : ℝ) ≤ 64) (by positivity)) big_le)
  have qxy : Q (x + y) (val s * (1 - val t / 4) + val t * (1 - val s / 4)) 3 (10 * tau) 19 :=
    Q.add qx qy (by norm_num) (by norm_num) (by linarith) (by unfold uR; norm_num) (small_big (by norm_num))
  have qS : Q (x + y + F64.two * F64.sqrt (x * y))
      (val s * (1 - val t / 4) + val t * (1 - val s / 4)
        + 2 * Real.sqrt (val s * (1 - val t / 4) * (val t * (1 - val s / 4)))) 6 (10 * tau + 3 * e3) (64 * 2 ^ 515) :=
    Q.add qxy q2r (by norm_num) (by norm_num) (le_refl _) (big_add big_515) big_le
  exact ⟨⟨qx.1, qx.2.1⟩, ⟨qy.1, qy.2.1⟩, ⟨qp.1, qp.2.1⟩, ⟨qr.1, qr.2.1⟩, ⟨qxy.1, qxy.2.1⟩, ⟨q2r.1, q2r.2.1⟩, qS.1,
    qxy.2.2.2.2.2.2, q2r.2.2.2.2.2.2⟩

theorem main_partial (s t : F64) (hs : Fin s) (ht : Fin t)
    (hs0 : 0 ≤ val s) (hs4 : val s ≤ 4) (ht0 : 0 ≤ val t) (ht4 : val t ≤ 4) (hsum : val s + val t < 4)
    (h : val t ≤ 1 / 2 ^ 52 ∨ 1 / 2 ^ 47 ≤ val t ∨ val s ≤ 7 / 2) :
    val s ≤ val (s * (F64.one - Chord.fQuarter * t) + t * (F64.one - Chord.fQuarter * s)
      + F64.two * F64.sqrt (s * (F64.one - Chord.fQuarter * t) * (t * (F64.one - Chord.fQuarter * s)))) := by
  obtain ⟨⟨fx, x0⟩, ⟨fy, y0⟩, _, _, ⟨fxy, xy0⟩, ⟨f2r, r0⟩, fS, lxy, l2r⟩ := chain s t hs ht hs0 hs4 ht0 ht4
  have qwt := Q_one_sub ht ht0 ht4
  have hτ := tau_pos
  have he3 := e3_pos
  have hte := tau_le_e3
  have X0 : 0 ≤ val s * (1 - val t / 4) + val t * (1 - val s / 4) :=
    add_nonneg (mul_nonneg hs0 (by linarith)) (mul_nonneg ht0 (by linarith))
  have R0 : 0 ≤ 2 * Real.sqrt (val s * (1 - val t / 4) * (val t * (1 - val s / 4))) :=
    mul_nonneg (by norm_num) (Real.sqrt_nonneg _)
  set x := s * (F64.one - Chord.fQuarter * t) with hx
  set y := t * (F64.one - Chord.fQuarter * s) with hy
  -- it suffices to have the exact inequality before the last rounding
  suffices hsuff : val s ≤ val (x + y) + val (F64.two * F64.sqrt (x * y)) from
    le_add_of_le hs fxy f2r fS hsuff
  by_cases ht52 : val t ≤ 1 / 2 ^ 52
  · -- R1: the first factor is exactly 1
    have hw := one_sub_eq_one ht ht0 ht52
    have hwq : F64Round.val (F64.one - Chord.fQuarter * t) = 1 := by
      have := ratval_eq (x := F64.one - Chord.fQuarter * t) (q := 1) (by rw [hw]; norm_num)
      exact this
    have hr := F64Round.isRound_mul hs qwt.1
    rw [hwq, mul_one] at hr
    change F64Round.IsRound x _ at hr
    obtain ⟨_, hti⟩ := F64Round.IsRound.fix hs hr
    have hvx : val x = val s := by unfold val; rw [hti]
    have : val s ≤ val (x + y) := le_add_of_le hs fx fy fxy (by rw [hvx]; linarith)
    linarith
  · -- R3
    have ht52 := not_le.mp ht52
    have hc : 64 * uR ≤ val t ∨ val s ≤ 7 / 2 := by
      rcases h with h | h | h
      · linarith
      · left
        have : 64 * uR = 1 / 2 ^ 47 := by unfold uR; norm_num
        linarith
      · right; exact h
    have hP0 : 0 ≤ val s * (1 - val t / 4) * (val t * (1 - val s / 4)) := by
      apply mul_nonneg (mul_nonneg hs0 (by linarith)) (mul_nonneg ht0 (by linarith))
    have hδ : 10 * tau + 3 * e3 ≤ 1 / 2 ^ 400 := by
      have h6 : 10 * tau + 3 * e3 ≤ 1 / 2 ^ 500 := by rw [← e3_64]; linarith
      exact le_trans h6 (inv_pow_le (by norm_num))
    refine r3_core (u := uR) (δ := 10 * tau + 3 * e3) (G := Real.sqrt (val s * (1 - val t / 4) * (val t * (1 - val s / 4))))
      rfl hs0 hs4 (by unfold uR; norm_num at ht52 ⊢; linarith) hsum (Real.sqrt_nonneg _) (Real.sq_sqrt hP0) hδ ?_ ?_ hc
    · have := mul_le_mul_of_nonneg_left rho3 X0
      linarith
    · have := mul_le_mul_of_nonneg_left rho5 R0
      linarith

/-! ### R4: `2u < t < 2^-47`, `s > 7/2` — half-ulp bounds and the grid near 4 -/

theorem ulp_err_real {r : F64} {Q : ℚ} (h : F64Round.IsRound r Q) (k : ℕ) (hk : k ≤ 1100)
    (hhi : |(Q : ℝ)| * 2 ^ 1074 ≤ 2 ^ (k + 53)) : Fin r ∧ |val r - (Q : ℝ)| * (2 * 2 ^ 1074) ≤ 2 ^ k := by
  have hhi' : |Q| * F64Round.U ≤ 2 ^ (k + 53) := by
    unfold F64Round.U
    have : ((|Q| * 2 ^ 1074 : ℚ) : ℝ) ≤ ((2 ^ (k + 53) : ℚ) : ℝ) := by push_cast; exact hhi
    exact_mod_cast this
  obtain ⟨hf, he⟩ := h.ulp_err k hk hhi'
  refine ⟨hf, ?_⟩
  have := (Rat.cast_le (K := ℝ)).mpr he
  unfold F64Round.U at this
  push_cast at this
  rw [val_cast] at this
  exact this

theorem abs_bound {e : ℝ} {k j : ℕ} (h : |e| * (2 * 2 ^ 1074) ≤ 2 ^ k) (hj : j + k = 1075) : |e| ≤ 1 / 2 ^ j := by
  rw [le_div_iff₀ (by positivity)]
  have e1 : (2 : ℝ) * 2 ^ 1074 = 2 ^ j * 2 ^ k := by
    rw [← pow_succ', ← pow_add, hj]
  rw [e1] at h
  have hk : (0 : ℝ) < 2 ^ k := by positivity
  have : (|e| * 2 ^ j) * 2 ^ k ≤ 1 * 2 ^ k := by
    calc (|e| * 2 ^ j) * 2 ^ k = |e| * (2 ^ j * 2 ^ k) := by ring
      _ ≤ 2 ^ k := h
      _ = 1 * 2 ^ k := by ring
  exact le_of_mul_le_mul_right this hk

/-- the clamp test `s ⊕ t ≥ 4` already fires at `s + t > 4 − 2u` -/
theorem sum_le_of_not_ge {s t : F64} (hs : Fin s) (ht : Fin t) (hs0 : 0 ≤ val s) (ht0 : 0 ≤ val t)
    (_hs4 : val s ≤ 4) (_ht4 : val t ≤ 4) (h : ¬ F64.ge (s + t) Chord.f4 = true) :
    val s + val t ≤ 4 - 1 / 2 ^ 52 := by
  have hlt := sum_lt_four hs ht h
  by_contra hc
  have hc := not_le.mp hc
  apply h
  show F64.le Chord.f4 (F64.add s t) = true
  obtain ⟨fr, r0, _, _⟩ := add_nn hs ht hs0 ht0 (le_trans (by linarith : val s + val t ≤ 1024) (small_big le_rfl))
  change Fin (F64.add s t) at fr
  rw [le_iff_val val_f4.1 fr, val_f4.2]
  have hn := (F64Round.isRound_add hs ht).nearest fr Chord.f4
  have hn' := (Rat.cast_le (K := ℝ)).mpr hn
  push_cast at hn'
  simp only [val_cast] at hn'
  rw [val_f4.2, abs_of_nonneg (by linarith : 0 ≤ 4 - (val s + val t))] at hn'
  have hlow := (abs_le.mp hn').1
  have h51 : (1 : ℝ) / 2 ^ 52 + 1 / 2 ^ 52 = 1 / 2 ^ 51 := by norm_num
  have hlo : 4 - 1 / 2 ^ 51 < val (F64.add s t) := by linarith
  obtain ⟨z, hz⟩ := grid51 (x := F64.add s t) (by
    have : (2 : ℝ) ≤ 4 - 1 / 2 ^ 51 := by norm_num
    linarith)
  rw [hz] at hlo ⊢
  have hp : (0 : ℝ) < 2 ^ 51 := by positivity
  rw [lt_div_iff₀ hp] at hlo
  rw [le_div_iff₀ hp]
  have h2 : (((2 ^ 53 - 1 : ℤ)) : ℝ) < (z : ℝ) := by
    push_cast
    have : ((4 : ℝ) - 1 / 2 ^ 51) * 2 ^ 51 = 2 ^ 53 - 1 := by norm_num
    linarith
  have h2' : (2 ^ 53 - 1 : ℤ) < z := by exact_mod_cast h2
  have h3 : (2 ^ 53 : ℤ) ≤ z := by omega
  have h4 : ((2 ^ 53 : ℤ) : ℝ) ≤ (z : ℝ) := by exact_mod_cast h3
  push_cast at h4
  have : (4 : ℝ) * 2 ^ 51 = 2 ^ 53 := by norm_num
  linarith

/-- a float in `[2, 4 − 4u)` is at most `4 − 8u` -/
theorem b_ge {s : F64} (hs2 : 2 ≤ val s) (h : val s < 4 - 1 / 2 ^ 51) : 1 / 2 ^ 52 ≤ 1 - val s / 4 := by
  obtain ⟨z, hz⟩ := grid51 hs2
  rw [hz] at h ⊢
  have hp : (0 : ℝ) < 2 ^ 51 := by positivity
  rw [div_lt_iff₀ hp] at h
  have h2 : (z : ℝ) < (((2 ^ 53 - 1 : ℤ)) : ℝ) := by
    push_cast
    have : ((4 : ℝ) - 1 / 2 ^ 51) * 2 ^ 51 = 2 ^ 53 - 1 := by norm_num
    linarith
  have h2' : z < (2 ^ 53 - 1 : ℤ) := by exact_mod_cast h2
  have h3 : z ≤ (2 ^ 53 - 2 : ℤ) := by omega
  have h4 : (z : ℝ) ≤ (((2 ^ 53 - 2 : ℤ)) : ℝ) := by exact_mod_cast h3
  push_cast at h4
  have h5 : (z : ℝ) / 2 ^ 51 ≤ (2 ^ 53 - 2) / 2 ^ 51 := div_le_div_of_nonneg_right (by norm_num; exact h4) hp.le
  have h6 : ((2 : ℝ) ^ 53 - 2) / 2 ^ 51 = 4 - 1 / 2 ^ 50 := by norm_num
  have h7 : (1 : ℝ) / 2 ^ 50 / 4 = 1 / 2 ^ 52 := by norm_num
  linarith

theorem r4_core {s t G A B u δ : ℝ} (hu : u = 1 / 2 ^ 53) (hs : 7 / 2 < s) (ht2 : 2 * u < t) (ht64 : t < 64 * u)
    (hsum : s + t ≤ 4 - 2 * u) (hb : 2 * u ≤ 1 - s / 4)
    (hG0 : 0 ≤ G) (hG : G ^ 2 = s * (1 - t / 4) * (t * (1 - s / 4)))
    (hδ0 : 0 ≤ δ) (hδ : δ ≤ 1 / 2 ^ 400)
    (hA : s - t - 4 * u - δ ≤ A) (hB : 2 * G * (1 - 5 * u) - δ ≤ B) : s ≤ A + B := by
  subst hu
  have ht0 : 0 < t := by
    have : (0 : ℝ) < 2 * (1 / 2 ^ 53) := by positivity
    linarith
  have hb4 : (t + 2 * (1 / 2 ^ 53)) / 4 ≤ 1 - s / 4 := by linarith
  have hb0 : 0 ≤ 1 - s / 4 := le_trans (by positivity) hb
  have htb0 : 0 ≤ t * (1 - s / 4) := mul_nonneg ht0.le hb0
  have hc1 : (7 / 2) * (1 - 16 * (1 / 2 ^ 53)) ≤ s * (1 - t / 4) :=
    mul_le_mul hs.le (by linarith) (by norm_num) (by linarith)
  have hsa0 : 0 ≤ s * (1 - t / 4) := le_trans (by norm_num) hc1
  have hc2 : (1 - 10 * (1 / 2 ^ 53) : ℝ) ≤ (1 - 5 * (1 / 2 ^ 53)) ^ 2 := by norm_num
  have hc : (349 / 100 : ℝ) ≤ s * (1 - t / 4) * (1 - 5 * (1 / 2 ^ 53)) ^ 2 := by
    calc (349 / 100 : ℝ) ≤ (7 / 2) * (1 - 16 * (1 / 2 ^ 53)) * (1 - 10 * (1 / 2 ^ 53)) := by norm_num
      _ ≤ s * (1 - t / 4) * (1 - 5 * (1 / 2 ^ 53)) ^ 2 := mul_le_mul hc1 hc2 (by norm_num) hsa0
  have hkey0 : (349 / 100) * (t * (1 - s / 4)) ≤ s * (1 - t / 4) * (1 - 5 * (1 / 2 ^ 53)) ^ 2 * (t * (1 - s / 4)) :=
    mul_le_mul_of_nonneg_right hc htb0
  have hsq : (2 * G * (1 - 5 * (1 / 2 ^ 53))) ^ 2
      = 4 * (s * (1 - t / 4) * (1 - 5 * (1 / 2 ^ 53)) ^ 2 * (t * (1 - s / 4))) := by
    calc (2 * G * (1 - 5 * (1 / 2 ^ 53))) ^ 2 = 4 * (G ^ 2 * (1 - 5 * (1 / 2 ^ 53)) ^ 2) := by ring
      _ = _ := by rw [hG]; ring
  have hδu : 2 * δ ≤ (1 / 100) * (1 / 2 ^ 53) := by
    have : (2 : ℝ) * (1 / 2 ^ 400) ≤ (1 / 100) * (1 / 2 ^ 53) := by norm_num
    linarith
  have hT0 : 0 ≤ t + 4 * (1 / 2 ^ 53) + 2 * δ := by positivity
  have hT1 : t + 4 * (1 / 2 ^ 53) + 2 * δ ≤ t + (401 / 100) * (1 / 2 ^ 53) := by linarith
  have hT2 : (t + 4 * (1 / 2 ^ 53) + 2 * δ) ^ 2 ≤ (t + (401 / 100) * (1 / 2 ^ 53)) ^ 2 :=
    pow_le_pow_left₀ hT0 hT1 2
  have hT : (t + (401 / 100) * (1 / 2 ^ 53)) ^ 2 ≤ (1396 / 100) * (t * (1 - s / 4)) := by
    by_cases h6 : t ≤ 6 * (1 / 2 ^ 53)
    · have h1 : 0 ≤ (t - 2 * (1 / 2 ^ 53)) * (6 * (1 / 2 ^ 53) - t) := mul_nonneg (by linarith) (by linarith)
      have h2 : t * (2 * (1 / 2 ^ 53)) ≤ t * (1 - s / 4) := mul_le_mul_of_nonneg_left hb ht0.le
      nlinarith
    · have h6 := not_le.mp h6
      have h1 : 6 * (1 / 2 ^ 53) * t ≤ t * t := mul_le_mul_of_nonneg_right h6.le ht0.le
      have h2 : t * ((t + 2 * (1 / 2 ^ 53)) / 4) ≤ t * (1 - s / 4) := mul_le_mul_of_nonneg_left hb4 ht0.le
      nlinarith
  have hfin : t + 4 * (1 / 2 ^ 53) + 2 * δ ≤ 2 * G * (1 - 5 * (1 / 2 ^ 53)) := by
    by_contra hlt
    have hlt := not_le.mp hlt
    have h0 : 0 ≤ 2 * G * (1 - 5 * (1 / 2 ^ 53)) := mul_nonneg (mul_nonneg (by norm_num) hG0) (by norm_num)
    have := pow_lt_pow_left₀ hlt h0 two_ne_zero
    linarith
  linarith

theorem main_r4 (s t : F64) (hs : Fin s) (ht : Fin t)
    (hs0 : 0 ≤ val s) (hs4 : val s ≤ 4) (ht0 : 0 ≤ val t) (ht4 : val t ≤ 4)
    (hsum : val s + val t ≤ 4 - 1 / 2 ^ 52)
    (ht52 : 1 / 2 ^ 52 < val t) (ht47 : val t < 1 / 2 ^ 47) (hs72 : 7 / 2 < val s) :
    val s ≤ val (s * (F64.one - Chord.fQuarter * t) + t * (F64.one - Chord.fQuarter * s)
      + F64.two * F64.sqrt (s * (F64.one - Chord.fQuarter * t) * (t * (F64.one - Chord.fQuarter * s)))) := by
  obtain ⟨⟨fx, x0⟩, ⟨fy, y0⟩, _, _, ⟨fxy, xy0⟩, ⟨f2r, r0⟩, fS, lxy, l2r⟩ := chain s t hs ht hs0 hs4 ht0 ht4
  have qwt := Q_one_sub ht ht0 ht4
  have he3 := e3_pos
  have R0 : 0 ≤ 2 * Real.sqrt (val s * (1 - val t / 4) * (val t * (1 - val s / 4))) :=
    mul_nonneg (by norm_num) (Real.sqrt_nonneg _)
  -- the quarter is exact
  have h3 : 3 ≤ t.expField := by
    by_contra hc
    have := tiny_of_expField (t := t) (by omega)
    have h5 : tau ≤ 1 / 2 ^ 52 := inv_pow_le (by norm_num)
    linarith
  obtain ⟨fq, eq⟩ := quarter_exact ht h3
  -- half-ulp bound of `1 − t/4`
  have hr := F64Round.isRound_sub val_one.1 fq
  change F64Round.IsRound (F64.one - Chord.fQuarter * t) _ at hr
  have e47 : (1 : ℝ) / 2 ^ 47 / 4 = 1 / 2 ^ 49 := by norm_num
  have e52 : (1 : ℝ) / 2 ^ 52 / 4 = 1 / 2 ^ 54 := by norm_num
  obtain ⟨_, hw⟩ := ulp_err_real hr 1021 (by norm_num) (by
    push_cast
    simp only [val_cast]
    rw [val_one.2, eq, abs_of_nonneg (by linarith)]
    norm_num
    linarith)
  have hw := abs_bound hw (j := 54) (by norm_num)
  push_cast at hw
  simp only [val_cast] at hw
  rw [val_one.2, eq] at hw
  obtain ⟨hw1, hw2⟩ := abs_le.mp hw
  set wt := F64.one - Chord.fQuarter * t with hwt
  have hwt1 : val wt ≤ 1 := by linarith
  have hwt0 : 0 ≤ val wt := qwt.2.1
  -- half-ulp bound of `x`
  have hrx := F64Round.isRound_mul hs qwt.1
  change F64Round.IsRound (s * wt) _ at hrx
  have hsw0 : 0 ≤ val s * val wt := mul_nonneg hs0 hwt0
  have hsw4 : val s * val wt ≤ 4 * 1 := mul_le_mul hs4 hwt1 hwt0 (by norm_num)
  obtain ⟨_, hxe⟩ := ulp_err_real hrx 1023 (by norm_num) (by
    push_cast
    simp only [val_cast]
    rw [abs_of_nonneg hsw0]
    have : (4 : ℝ) * 1 * 2 ^ 1074 = 2 ^ (1023 + 53) := by norm_num
    rw [← this]
    exact mul_le_mul_of_nonneg_right hsw4 (by positivity))
  have hxe := abs_bound hxe (j := 52) (by norm_num)
  push_cast at hxe
  simp only [val_cast] at hxe
  obtain ⟨hx1, _⟩ := abs_le.mp hxe
  -- the deficit
  have h1 : val s * (1 - val t / 4 - 1 / 2 ^ 54) ≤ val s * val wt := mul_le_mul_of_nonneg_left (by linarith) hs0
  have h2 : val s * (val t / 4) ≤ 4 * (val t / 4) := mul_le_mul_of_nonneg_right hs4 (by linarith)
  have h3' : val s * (1 / 2 ^ 54) ≤ 4 * (1 / 2 ^ 54) := mul_le_mul_of_nonneg_right hs4 (by positivity)
  have e1 : (4 : ℝ) * (1 / 2 ^ 54) + 1 / 2 ^ 52 = 1 / 2 ^ 51 := by norm_num
  have hxl : val s - val t - 1 / 2 ^ 51 ≤ val (s * wt) := by
    have e2 : val s * (1 - val t / 4 - 1 / 2 ^ 54) = val s - val s * (val t / 4) - val s * (1 / 2 ^ 54) := by ring
    rw [e2] at h1
    linarith
  have hA : val s - val t - 1 / 2 ^ 51 ≤ val (s * wt + t * (F64.one - Chord.fQuarter * s)) :=
    le_trans hxl (le_add_of_le fx fx fy fxy (by linarith))
  -- the grid
  have h51 : (1 : ℝ) / 2 ^ 52 + 1 / 2 ^ 52 = 1 / 2 ^ 51 := by norm_num
  have hb := b_ge (s := s) (by linarith) (by linarith)
  have hP0 : 0 ≤ val s * (1 - val t / 4) * (val t * (1 - val s / 4)) := by
    apply mul_nonneg (mul_nonneg hs0 (by linarith)) (mul_nonneg ht0 (by linarith))
  have hδ : 3 * e3 ≤ 1 / 2 ^ 400 := by
    have h6 : 64 * e3 = 1 / 2 ^ 500 := e3_64
    have : (1 : ℝ) / 2 ^ 500 ≤ 1 / 2 ^ 400 := inv_pow_le (by norm_num)
    linarith
  have hu : uR = 1 / 2 ^ 53 := rfl
  have hsuff : val s ≤ val (s * wt + t * (F64.one - Chord.fQuarter * s))
      + val (F64.two * F64.sqrt (s * wt * (t * (F64.one - Chord.fQuarter * s)))) := by
    refine r4_core (u := uR) (δ := 3 * e3)
      (G := Real.sqrt (val s * (1 - val t / 4) * (val t * (1 - val s / 4))))
      rfl hs72 (by rw [hu]; linarith) (by rw [hu]; linarith) (by rw [hu]; linarith) (by rw [hu]; linarith)
      (Real.sqrt_nonneg _) (Real.sq_sqrt hP0) (by linarith) hδ ?_ ?_
    · rw [hu]; linarith
    · have := mul_le_mul_of_nonneg_left rho5 R0
      linarith
  exact le_add_of_le hs fxy f2r fS hsuff

end AM

open AM

/-- the skeleton of `Chord.add`: zero operand, clamp branch, main branch -/
theorem chordAdd_ge_left_of_main (s t : F64) (hs : Fin s) (ht : Fin t)
    (hs0 : 0 ≤ val s) (hs4 : val s ≤ 4) (_ht0 : 0 ≤ val t) (_ht4 : val t ≤ 4)
    (hmain : val s + val t < 4 → val s + val t ≤ 4 - 1 / 2 ^ 52 →
      val s ≤ val (s * (F64.one - Chord.fQuarter * t) + t * (F64.one - Chord.fQuarter * s)
        + F64.two * F64.sqrt (s * (F64.one - Chord.fQuarter * t) * (t * (F64.one - Chord.fQuarter * s))))) :
    val s ≤ val (Chord.add s t) := by
  unfold Chord.add
  by_cases h1 : F64.feq t Chord.f0 = true
  · rw [if_pos h1]
  · rw [if_neg h1]
    by_cases h2 : F64.ge (s + t) Chord.f4 = true
    · rw [if_pos h2, val_f4.2]; exact hs4
    · rw [if_neg h2]
      have hsum := sum_lt_four hs ht h2
      have hm := hmain hsum (sum_le_of_not_ge hs ht hs0 _ht0 hs4 _ht4 h2)
      obtain ⟨_, _, _, _, _, _, hfin, _⟩ := chain s t hs ht hs0 hs4 _ht0 _ht4
      show val s ≤ val (F64.fmin Chord.f4 _)
      obtain ⟨_, vr⟩ := val_fmin val_f4.1 hfin
      rw [vr, val_f4.2]
      exact le_min hs4 hm

/-- **partial result** (regimes R0–R3: standard model + monotone rounding only) -/
theorem chordAdd_ge_left_partial (s t : F64) (hs : Fin s) (ht : Fin t)
    (hs0 : 0 ≤ val s) (hs4 : val s ≤ 4) (ht0 : 0 ≤ val t) (ht4 : val t ≤ 4)
    (h : val t ≤ 1 / 2 ^ 52 ∨ 1 / 2 ^ 47 ≤ val t ∨ val s ≤ 7 / 2) :
    val s ≤ val (Chord.add s t) :=
  chordAdd_ge_left_of_main s t hs ht hs0 hs4 ht0 ht4
    (fun hsum _ => main_partial s t hs ht hs0 hs4 ht0 ht4 hsum h)

/-- **`ChordAngle.Add` never decreases its first argument** (exact law, no allowance) -/
theorem chordAdd_ge_left (s t : F64) (hs : Fin s) (ht : Fin t)
    (hs0 : 0 ≤ val s) (hs4 : val s ≤ 4) (ht0 : 0 ≤ val t) (ht4 : val t ≤ 4) :
    val s ≤ val (Chord.add s t) := by
  apply chordAdd_ge_left_of_main s t hs ht hs0 hs4 ht0 ht4
  intro hsum hsum2
  by_cases h : val t ≤ 1 / 2 ^ 52 ∨ 1 / 2 ^ 47 ≤ val t ∨ val s ≤ 7 / 2
  · exact main_partial s t hs ht hs0 hs4 ht0 ht4 hsum h
  · rw [not_or, not_or] at h
    obtain ⟨h1, h2, h3⟩ := h
    exact main_r4 s t hs ht hs0 hs4 ht0 ht4 hsum2 (not_le.mp h1) (not_le.mp h2) (not_le.mp h3)

end S2Proofs.CapF64
