/-
  S2Proofs.CapF64.Model — the generic cap model `S2.CapM` unfolded at the bit-exact float instance `S2.CapF64.Cap`
  (pure unfolding lemmas), order facts on possibly non-finite radii, and finiteness of the quantities `AddCap` computes.
-/
import S2Proofs.CapF64.AddCap

namespace S2Proofs.CapF64
open S2 S2.Exact S2Proofs.F64Order S2Proofs.FloatErr
open S2.CapF64

theorem containsPoint_eq (c : Cap) (p : V3) : c.containsPoint p = F64.le (Chord.between c.center p) c.radius := by
  unfold CapM.containsPoint
  exact Bool.decide_eq_true

theorem isEmpty_eq (c : Cap) : c.isEmpty = F64.lt c.radius Chord.f0 := by
  unfold CapM.isEmpty
  exact Bool.decide_eq_true

theorem isValid_eq (c : Cap) : c.isValid = (Chord.isUnit c.center && F64.le c.radius Chord.f4) := by
  unfold CapM.isValid
  congr 1
  exact Bool.decide_eq_true

theorem isFull_eq (c : Cap) : c.isFull = F64.feq c.radius Chord.f4 := rfl

/-- the radius `AddCap` proposes: `dist.Expanded(1.5·maxErr)` with `dist = ChordAngleBetweenPoints(c.center, o.center).Add(o.radius)` -/
def newRad (c o : Cap) : F64 :=
  Chord.expanded (Chord.add (Chord.between c.center o.center) o.radius)
    (Chord.addCapSlack (Chord.between c.center o.center) o.radius (Chord.add (Chord.between c.center o.center) o.radius))

theorem addCap_eq (c o : Cap) : c.addCap o =
    if F64.lt c.radius Chord.f0 then o else if F64.lt o.radius Chord.f0 then c else
      if F64.lt c.radius (newRad c o) then ⟨c.center, newRad c o⟩ else c := by
  unfold CapM.addCap newRad
  rw [isEmpty_eq, isEmpty_eq]
  rfl

theorem addPoint_eq (c : Cap) (p : V3) : c.addPoint p =
    if F64.lt c.radius Chord.f0 then ⟨p, Chord.f0⟩ else
      if F64.lt c.radius (Chord.between c.center p) then ⟨c.center, Chord.between c.center p⟩ else c := by
  unfold CapM.addPoint
  rw [isEmpty_eq]
  rfl

theorem le_of_not_lt {x y : F64} (hx : F64Carrier.NN x) (hy : F64Carrier.NN y) (h : F64.lt x y = false) : F64.le y x = true := by
  rw [F64Carrier.le_iff_key hy hx]
  have : ¬ F64Carrier.key x < F64Carrier.key y := by rw [← F64Carrier.lt_iff_key hx hy, h]; simp
  omega

theorem le_trans' {x y z : F64} (h1 : F64.le x y = true) (h2 : F64.le y z = true) : F64.le x z = true := by
  have nx := F64Carrier.nn_of_le_left h1
  have ny := F64Carrier.nn_of_le_right h1
  have nz := F64Carrier.nn_of_le_right h2
  rw [F64Carrier.le_iff_key nx nz]
  have a := (F64Carrier.le_iff_key nx ny).1 h1
  have b := (F64Carrier.le_iff_key ny nz).1 h2
  omega

theorem le_of_lt' {x y : F64} (h : F64.lt x y = true) : F64.le x y = true := by
  have nx := F64Carrier.nn_of_lt_left h
  have ny := F64Carrier.nn_of_lt_right h
  rw [F64Carrier.le_iff_key nx ny]
  have := (F64Carrier.lt_iff_key nx ny).1 h
  omega

theorem le_refl' {x : F64} (h : Fin x) : F64.le x x = true := (le_iff_val h h).2 le_rfl

/-- a float that is `≥` a finite non-negative float is not `< 0` -/
theorem not_lt_zero_of_le {x r : F64} (hx : Fin x) (hx0 : 0 ≤ val x) (h : F64.le x r = true) : F64.lt r Chord.f0 = false := by
  rw [Bool.eq_false_iff]
  intro hlt
  have h2 := le_trans' h (le_of_lt' hlt)
  have := (le_iff_val hx val_f0.1).1 h2
  have h3 := (lt_iff_key_false hx hx0 h hlt)
  exact h3
where
  lt_iff_key_false {x r : F64} (hx : Fin x) (hx0 : 0 ≤ val x) (h : F64.le x r = true) (hlt : F64.lt r Chord.f0 = true) : False := by
    have nx := F64Carrier.nn_of_le_left h
    have nr := F64Carrier.nn_of_le_right h
    have n0 := F64Carrier.nn_of_lt_right hlt
    have a := (F64Carrier.le_iff_key nx nr).1 h
    have b := (F64Carrier.lt_iff_key nr n0).1 hlt
    have c : F64.lt x Chord.f0 = true := by rw [F64Carrier.lt_iff_key nx n0]; omega
    have := (lt_iff_val hx val_f0.1).1 c
    rw [val_f0.2] at this
    linarith

theorem valid_radius {c : Cap} (hv : c.isValid = true) : F64.le c.radius Chord.f4 = true := by
  rw [isValid_eq, Bool.and_eq_true] at hv; exact hv.2

theorem valid_unit {c : Cap} (hv : c.isValid = true) : Chord.isUnit c.center = true := by
  rw [isValid_eq, Bool.and_eq_true] at hv; exact hv.1

/-- the chord from a Normalize-grade centre to a Normalize-grade point: finite, in [0, 4] -/
theorem between_fin {a p : V3} (ha : nunitB a = true) (hp : nunitB p = true) :
    Fin (Chord.between a p) ∧ 0 ≤ val (Chord.between a p) ∧ val (Chord.between a p) ≤ 4 := by
  have ha' := (nunitB_iff a).1 ha
  have hp' := (nunitB_iff p).1 hp
  obtain ⟨a1, a2, a3⟩ := nunit_coord_le ha'
  obtain ⟨p1, p2, p3⟩ := nunit_coord_le hp'
  obtain ⟨f, h0, h4, _, _⟩ := between_spec a p ha'.1 hp'.1 a1 a2 a3 p1 p2 p3
  exact ⟨f, h0, h4⟩

/-- the proposed radius is a finite float in [0, 4] -/
theorem newRad_fin {c o : Cap} (hcc : nunitB c.center = true) (hoc : nunitB o.center = true)
    (ho : o.isValid = true) (hne : o.isEmpty = false) :
    Fin (newRad c o) ∧ 0 ≤ val (newRad c o) ∧ val (newRad c o) ≤ 4 := by
  obtain ⟨fcd, cd0, cd4⟩ := between_fin hcc hoc
  rw [isEmpty_eq] at hne
  obtain ⟨fr, r0, r4⟩ := radius_fin (valid_radius ho) hne
  obtain ⟨fd, d0, d4, _⟩ := chordAdd_spec _ _ fcd fr cd0 cd4 r0 r4
  obtain ⟨fs, s0, s1, _⟩ := addCapSlack_spec _ _ _ fcd fr fd cd0 cd4 r0 r4 d0 d4
  obtain ⟨fe, e0, e4, _, _⟩ := expanded_spec fd d0 d4 fs s0 s1
  exact ⟨fe, e0, e4⟩

theorem contains_eq (c o : Cap) : c.contains o =
    if c.isFull || o.isEmpty then true else F64.le (Chord.add (Chord.between c.center o.center) o.radius) c.radius := by
  unfold CapM.contains
  split_ifs
  · rfl
  · exact Bool.decide_eq_true

theorem intersects_eq (c o : Cap) : c.intersects o =
    if c.isEmpty || o.isEmpty then false else F64.le (Chord.between c.center o.center) (Chord.add c.radius o.radius) := by
  unfold CapM.intersects
  split_ifs
  · rfl
  · exact Bool.decide_eq_true

theorem expanded_eq (c : Cap) (dc : F64) : c.expanded dc =
    if F64.lt c.radius Chord.f0 then CapM.empty else ⟨c.center, Chord.add c.radius dc⟩ := by
  unfold CapM.expanded
  rw [isEmpty_eq]
  rfl

theorem complement_eq (c : Cap) : c.complement =
    if c.isFull then CapM.empty else if c.isEmpty then CapM.full else ⟨c.center.mul Chord.fNeg1, Chord.sub Chord.f4 c.radius⟩ := rfl

end S2Proofs.CapF64
