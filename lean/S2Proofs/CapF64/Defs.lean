/-
  S2Proofs.CapF64.Defs — shared definitions of the work package c19capf64 (cap laws of C19 for binary64).

  * `val` (real value of a finite float), `uR = 2^-53`, `eR = 2^-1075` come from `S2Proofs.FloatErr`.
  * `eps = 2^-52` (`dblEpsilon`), `nrm2 v = ‖v‖²`, `dist2 a b = ‖a − b‖²` (exact reals of float vectors).
  * `caddR s t` : the EXACT chord-angle addition on squared chord lengths (`s1.ChordAngle.Add` over ℝ).
  * `NUnit v` : the point is a finite vector of Normalize grade, `|‖v‖² − 1| ≤ NU·2^-52`, `NU = 289/64` (the documented precondition of
    `ChordAngle.MaxPointError`); `nunitB` is its Boolean (exact integer) form, `nunitB_iff`.
-/
import Mathlib.Analysis.Real.Sqrt
import S2.CapM
import S2Proofs.FloatErr.Ops

namespace S2Proofs.CapF64
open S2 S2.Exact S2Proofs.F64Order S2Proofs.FloatErr

/-- `dblEpsilon = 2^-52` -/
noncomputable def eps : ℝ := 1 / 2 ^ 52

theorem eps_pos : 0 < eps := by unfold eps; positivity
theorem eps_eq_two_uR : eps = 2 * uR := by unfold eps uR; norm_num

/-- squared Euclidean norm of the exact vector -/
noncomputable def nrm2 (v : V3) : ℝ := val v.x ^ 2 + val v.y ^ 2 + val v.z ^ 2

/-- squared Euclidean distance of the exact vectors -/
noncomputable def dist2 (a b : V3) : ℝ := (val a.x - val b.x) ^ 2 + (val a.y - val b.y) ^ 2 + (val a.z - val b.z) ^ 2

theorem dist2_comm (a b : V3) : dist2 a b = dist2 b a := by unfold dist2; ring
theorem dist2_nonneg (a b : V3) : 0 ≤ dist2 a b := by unfold dist2; positivity

/-- exact chord-angle addition (squared chord lengths of the unit sphere): `4 sin²(A+B)` from `4 sin² A`, `4 sin² B`,
    clamped to the straight angle exactly as `s1.ChordAngle.Add` does -/
noncomputable def caddR (s t : ℝ) : ℝ :=
  if 4 ≤ s + t then 4
  else min 4 (s * (1 - t / 4) + t * (1 - s / 4) + 2 * Real.sqrt (s * (1 - t / 4) * (t * (1 - s / 4))))

/-- the grade of a Normalize-grade unit vector in units of `dblEpsilon`: `289/64 = 4.515625`.  The standard model of binary64 gives
    `|‖Normalize(v)‖² − 1| ≤ 9u + O(u²) = 4.5·2^-52 + O(2^-104)` for the output of `r3.Vector.Normalize` (`normalize_nunit`); the allowance of
    `Cap.AddCap` is provably sufficient up to about 4.6. -/
noncomputable def NU : ℝ := 289 / 64

/-- Normalize-grade unit vector: finite coordinates, `|‖v‖² − 1| ≤ NU·dblEpsilon` (`NU = 289/64`) -/
def NUnit (v : V3) : Prop := Fin3 v ∧ |nrm2 v - 1| ≤ NU * eps

/-- Boolean form of `NUnit` (exact integer arithmetic at scale 2^1074) -/
def nunitB (v : V3) : Bool :=
  decide (Fin3 v) &&
  decide ((toInt v.x ^ 2 + toInt v.y ^ 2 + toInt v.z ^ 2 - 2 ^ 2148).natAbs ≤ 289 * 2 ^ 2090)

theorem nunitB_iff (v : V3) : nunitB v = true ↔ NUnit v := by
  unfold nunitB NUnit
  simp only [Bool.and_eq_true, decide_eq_true_eq]
  apply and_congr_right
  intro _
  have hS : (0 : ℝ) < 2 ^ 2148 := by positivity
  have key : nrm2 v - 1 = ((toInt v.x ^ 2 + toInt v.y ^ 2 + toInt v.z ^ 2 - 2 ^ 2148 : ℤ) : ℝ) / 2 ^ 2148 := by
    unfold nrm2 val
    push_cast
    have h2 : (2 : ℝ) ^ 2148 = 2 ^ 1074 * 2 ^ 1074 := by rw [← pow_add]
    rw [h2]
    field_simp
  rw [key, abs_div, abs_of_pos hS, div_le_iff₀ hS]
  have h3 : NU * eps * 2 ^ 2148 = ((289 * 2 ^ 2090 : ℕ) : ℝ) := by
    unfold eps NU
    have : (2 : ℝ) ^ 2148 = 2 ^ 2090 * 2 ^ 6 * 2 ^ 52 := by rw [← pow_add, ← pow_add]
    rw [this]; push_cast
    field_simp
    norm_num
  rw [h3, ← Int.cast_abs, Int.abs_eq_natAbs]
  constructor
  · intro h; exact_mod_cast h
  · intro h; exact_mod_cast h

instance (v : V3) : Decidable (NUnit v) := decidable_of_iff _ (nunitB_iff v)

end S2Proofs.CapF64
