/-
  S2Proofs.CapF64.ChordAdd — LOWER bounds of the soft-float `S2.Chord.add` (= `s1.ChordAngle.Add`) against the exact
  real chord addition `caddR`, and of the allowance `S2.Chord.addCapSlack` of the repaired `s2.Cap.AddCap`.

  Bookkeeping: for a non-negative finite float `x`, an exact non-negative real `X`, a number of roundings `k` and an
  absolute (underflow) loss `c`:   `LB x X k c  :=  X · (1 − u)^k − c ≤ val x`.
-/
import Mathlib.Tactic.Ring
import Mathlib.Tactic.Linarith
import Mathlib.Tactic.Positivity
import Mathlib.Tactic.NormNum
import Mathlib.Tactic.FieldSimp
import Mathlib.Analysis.Real.Sqrt
import S2Proofs.CapF64.Defs
import S2Proofs.FloatErr.Sqrt
import S2Proofs.F64Round
import S2Proofs.Properties.C19_F64

namespace S2Proofs.CapF64
open S2 S2.Exact S2Proofs.F64Order S2Proofs.FloatErr

namespace CA

/-! ### value semantics of comparisons and `fmin` (finite arguments) -/

theorem val_cast (x : F64) : ((F64Round.val x : ℚ) : ℝ) = val x := by
  unfold F64Round.val F64Round.U val; push_cast; rfl

theorem le_iff_val {x y : F64} (hx : Fin x) (hy : Fin y) : F64.le x y = true ↔ val x ≤ val y := by
  rw [le_iff hx hy]
  unfold val
  rw [div_le_div_iff_of_pos_right (by positivity)]
  exact Int.cast_le.symm

theorem lt_iff_val {x y : F64} (hx : Fin x) (hy : Fin y) : F64.lt x y = true ↔ val x < val y := by
  rw [lt_iff hx hy]
  unfold val
  rw [div_lt_div_iff_of_pos_right (by positivity)]
  exact Int.cast_lt.symm

theorem feq_iff_val {x y : F64} (hx : Fin x) (hy : Fin y) : F64.feq x y = true ↔ val x = val y := by
  rw [feq_iff hx hy]
  unfold val
  have h : (2 : ℝ) ^ 1074 ≠ 0 := by positivity
  rw [div_left_inj' h]
  exact Int.cast_inj.symm

theorem val_fmin {x y : F64} (hx : Fin x) (hy : Fin y) :
    Fin (F64.fmin x y) ∧ val (F64.fmin x y) = min (val x) (val y) := by
  unfold F64.fmin
  simp only [isNaN_false hx, isNaN_false hy, isInf_false hx, isInf_false hy, Bool.false_and, Bool.or_self,
    Bool.false_eq_true, if_false]
  by_cases hz : (x.isZero && y.isZero) = true
  · rw [if_pos hz]
    rw [Bool.and_eq_true] at hz
    have vx := val_of_isZero hz.1
    have vy := val_of_isZero hz.2
    by_cases hs : x.signBit = true
    · rw [if_pos hs]; exact ⟨hx, by rw [vx, vy]; simp⟩
    · rw [if_neg hs]; exact ⟨hy, by rw [vx, vy]; simp⟩
  · rw [if_neg hz]
    by_cases hl : F64.lt x y = true
    · rw [if_pos hl]
      have := (lt_iff_val hx hy).mp hl
      exact ⟨hx, (min_eq_left this.le).symm⟩
    · rw [if_neg hl]
      have := not_lt.mp (fun h => hl ((lt_iff_val hx hy).mpr h))
      exact ⟨hy, (min_eq_right this).symm⟩

/-! ### constants -/

theorem val_of_toInt {x : F64} {n : ℤ} {q : ℝ} (h : toInt x = n) (hq : (n : ℝ) = q * 2 ^ 1074) : val x = q := by
  unfold val; rw [h, hq]; field_simp

theorem val_f4 : Fin Chord.f4 ∧ val Chord.f4 = 4 := by
  have h : Fin Chord.f4 ∧ toInt Chord.f4 = 4 * 2 ^ 1074 := by decide +kernel
  exact ⟨h.1, val_of_toInt h.2 (by push_cast; ring)⟩

theorem val_f0 : Fin Chord.f0 ∧ val Chord.f0 = 0 := zero_val false

theorem val_one : Fin F64.one ∧ val F64.one = 1 := by
  have h : Fin F64.one ∧ toInt F64.one = 2 ^ 1074 := by decide +kernel
  exact ⟨h.1, val_of_toInt h.2 (by push_cast; ring)⟩

theorem val_two : Fin F64.two ∧ val F64.two = 2 := by
  have h : Fin F64.two ∧ toInt F64.two = 2 * 2 ^ 1074 := by decide +kernel
  exact ⟨h.1, val_of_toInt h.2 (by push_cast; ring)⟩

theorem val_quarter : Fin Chord.fQuarter ∧ val Chord.fQuarter = 1 / 4 := by
  have h : Fin Chord.fQuarter ∧ toInt Chord.fQuarter = 2 ^ 1072 := by decide +kernel
  refine ⟨h.1, val_of_toInt h.2 ?_⟩
  push_cast
  rw [show (1074 : ℕ) = 1072 + 2 from rfl, pow_add]; ring

/-! ### `1 − u` -/

theorem rho_pos : 0 < 1 - uR := by unfold uR; norm_num
theorem rho_nonneg : 0 ≤ 1 - uR := rho_pos.le
theorem rho_le_one : 1 - uR ≤ 1 := by have := uR_nonneg; linarith
theorem rpow_pos (k : ℕ) : 0 < (1 - uR) ^ k := pow_pos rho_pos k
theorem rpow_le_one (k : ℕ) : (1 - uR) ^ k ≤ 1 := pow_le_one₀ rho_nonneg rho_le_one
theorem rpow_anti {k m : ℕ} (h : k ≤ m) : (1 - uR) ^ m ≤ (1 - uR) ^ k :=
  pow_le_pow_of_le_one rho_nonneg rho_le_one h

theorem eR_eq : eR = 1 / (2 ^ 1074 : ℝ) / 2 := by
  unfold eR
  rw [show (1075 : ℕ) = 1074 + 1 from rfl, pow_succ]
  field_simp

/-- a value that is at least `-eR` (half the smallest subnormal) is nonnegative -/
theorem val_nonneg_of_ge {x : F64} (h : -eR ≤ val x) : 0 ≤ val x := by
  by_contra hneg
  have hneg := not_le.mp hneg
  have hK : (0 : ℝ) < 2 ^ 1074 := by positivity
  have hKi : (0 : ℝ) < 1 / 2 ^ 1074 := by positivity
  have ht : toInt x < 0 := by
    by_contra hn
    have hn := not_lt.mp hn
    have : (0 : ℝ) ≤ (toInt x : ℝ) := by exact_mod_cast hn
    have : 0 ≤ val x := by unfold val; positivity
    linarith
  have ht' : (toInt x : ℝ) ≤ -1 := by
    have : toInt x ≤ -1 := by omega
    exact_mod_cast this
  have hv : val x ≤ (-1) / 2 ^ 1074 := by
    unfold val
    exact div_le_div_of_nonneg_right ht' hK.le
  rw [eR_eq] at h
  have : (-1 : ℝ) / 2 ^ 1074 = -(1 / 2 ^ 1074) := by ring
  linarith

/-! ### one operation on non-negative finite operands -/

theorem mul_nn {a b : F64} (ha : Fin a) (hb : Fin b) (ha0 : 0 ≤ val a) (hb0 : 0 ≤ val b)
    (hM : val a * val b ≤ 2 ^ 999) :
    Fin (a * b) ∧ 0 ≤ val (a * b) ∧ val a * val b * (1 - uR) - eR ≤ val (a * b) ∧
      val (a * b) ≤ val a * val b * (1 + uR) + eR := by
  have hp : 0 ≤ val a * val b := mul_nonneg ha0 hb0
  have hlt : |val a * val b| < 2 ^ 1000 := by
    rw [abs_of_nonneg hp]
    have : (2 : ℝ) ^ 999 < 2 ^ 1000 := pow_lt_pow_right₀ (by norm_num) (by norm_num)
    exact lt_of_le_of_lt hM this
  obtain ⟨δ, η, hδ, hη, hv, hf⟩ := mul_std a b ha hb hlt
  change val (a * b) = _ at hv
  change Fin (a * b) at hf
  obtain ⟨d1, d2⟩ := abs_le.mp hδ
  obtain ⟨e1, e2⟩ := abs_le.mp hη
  have l1 : val a * val b * (1 - uR) ≤ val a * val b * (1 + δ) :=
    mul_le_mul_of_nonneg_left (by linarith) hp
  have l2 : val a * val b * (1 + δ) ≤ val a * val b * (1 + uR) :=
    mul_le_mul_of_nonneg_left (by linarith) hp
  have hlow : val a * val b * (1 - uR) - eR ≤ val (a * b) := by rw [hv]; linarith
  refine ⟨hf, ?_, hlow, by rw [hv]; linarith⟩
  apply val_nonneg_of_ge
  have : 0 ≤ val a * val b * (1 - uR) := mul_nonneg hp rho_nonneg
  linarith

theorem add_nn {a b : F64} (ha : Fin a) (hb : Fin b) (ha0 : 0 ≤ val a) (hb0 : 0 ≤ val b)
    (hM : val a + val b ≤ 2 ^ 999) :
    Fin (a + b) ∧ 0 ≤ val (a + b) ∧ (val a + val b) * (1 - uR) ≤ val (a + b) ∧
      val (a + b) ≤ (val a + val b) * (1 + uR) := by
  have hp : 0 ≤ val a + val b := add_nonneg ha0 hb0
  have hlt : |val a + val b| < 2 ^ 1000 := by
    rw [abs_of_nonneg hp]
    have : (2 : ℝ) ^ 999 < 2 ^ 1000 := pow_lt_pow_right₀ (by norm_num) (by norm_num)
    exact lt_of_le_of_lt hM this
  obtain ⟨δ, hδ, hv, hf⟩ := add_std a b ha hb hlt
  change val (a + b) = _ at hv
  change Fin (a + b) at hf
  obtain ⟨d1, d2⟩ := abs_le.mp hδ
  have l1 : (val a + val b) * (1 - uR) ≤ (val a + val b) * (1 + δ) :=
    mul_le_mul_of_nonneg_left (by linarith) hp
  have l2 : (val a + val b) * (1 + δ) ≤ (val a + val b) * (1 + uR) :=
    mul_le_mul_of_nonneg_left (by linarith) hp
  refine ⟨hf, ?_, by rw [hv]; exact l1, by rw [hv]; exact l2⟩
  rw [hv]
  exact le_trans (mul_nonneg hp rho_nonneg) l1

/-! ### the bookkeeping predicate -/

/-- `x` is a finite non-negative float, at most `M`, that under-estimates the exact non-negative `X ≤ M` by at most
    `k` roundings and the absolute amount `c` -/
def Q (x : F64) (X : ℝ) (k : ℕ) (c M : ℝ) : Prop :=
  Fin x ∧ 0 ≤ val x ∧ val x ≤ M ∧ 0 ≤ X ∧ X ≤ M ∧ 0 ≤ c ∧ X * (1 - uR) ^ k - c ≤ val x

theorem Q.exact {x : F64} {M : ℝ} (hf : Fin x) (h0 : 0 ≤ val x) (hM : val x ≤ M) : Q x (val x) 0 0 M :=
  ⟨hf, h0, hM, h0, hM, le_refl _, by simp⟩

theorem Q.const {x : F64} {v : ℝ} (h : Fin x ∧ val x = v) (h0 : 0 ≤ v) : Q x v 0 0 v := by
  obtain ⟨hf, hv⟩ := h
  have := Q.exact hf (by rw [hv]; exact h0) (le_of_eq hv)
  rwa [hv] at this

theorem Q.weaken {x : F64} {X c M c' M' : ℝ} {k k' : ℕ} (h : Q x X k c M) (hk : k ≤ k') (hc : c ≤ c') (hM : M ≤ M') :
    Q x X k' c' M' := by
  obtain ⟨hf, h0, h1, hX0, hX1, hc0, hl⟩ := h
  refine ⟨hf, h0, le_trans h1 hM, hX0, le_trans hX1 hM, le_trans hc0 hc, ?_⟩
  have : X * (1 - uR) ^ k' ≤ X * (1 - uR) ^ k := mul_le_mul_of_nonneg_left (rpow_anti hk) hX0
  linarith

/-- real core of the product rule -/
theorem mul_core {a b A B c c' MA MB r r' : ℝ} (ha0 : 0 ≤ a) (hb0 : 0 ≤ b) (hA : 0 ≤ A) (hB : 0 ≤ B)
    (hAM : A ≤ MA) (hBM : B ≤ MB) (hc : 0 ≤ c) (hc' : 0 ≤ c') (hr0 : 0 ≤ r) (hr1 : r ≤ 1) (hr0' : 0 ≤ r')
    (hr1' : r' ≤ 1) (ha : A * r - c ≤ a) (hb : B * r' - c' ≤ b) :
    A * B * (r * r') - (c * MB + c' * MA) ≤ a * b := by
  have hMA : 0 ≤ MA := le_trans hA hAM
  have hMB : 0 ≤ MB := le_trans hB hBM
  have a'0 : 0 ≤ A * r := mul_nonneg hA hr0
  have b'0 : 0 ≤ B * r' := mul_nonneg hB hr0'
  have a'M : A * r ≤ MA := le_trans (mul_le_of_le_one_right hA hr1) hAM
  have b'M : B * r' ≤ MB := le_trans (mul_le_of_le_one_right hB hr1') hBM
  have e : A * B * (r * r') = (A * r) * (B * r') := by ring
  rw [e]
  set a' := A * r
  set b' := B * r'
  have h1 : c * b' ≤ c * MB := mul_le_mul_of_nonneg_left b'M hc
  have h2 : c' * a' ≤ c' * MA := mul_le_mul_of_nonneg_left a'M hc'
  have h3 : 0 ≤ c * MB := mul_nonneg hc hMB
  rcases le_total a a' with hle | hle
  · -- ab − a'b' = a(b − b') + b'(a − a')
    have h4 : a * (b' - c') ≤ a * b := mul_le_mul_of_nonneg_left hb ha0
    have h5 : b' * (a' - c) ≤ b' * a := mul_le_mul_of_nonneg_left ha b'0
    have h6 : c' * a ≤ c' * a' := mul_le_mul_of_nonneg_left hle hc'
    nlinarith
  · have h4 : a' * (b' - c') ≤ a' * b := mul_le_mul_of_nonneg_left hb a'0
    have h5 : a' * b ≤ a * b := mul_le_mul_of_nonneg_right hle hb0
    nlinarith

theorem eR_small : eR ≤ 1 / 2 ^ 100 := by
  unfold eR
  exact one_div_le_one_div_of_le (by positivity) (pow_le_pow_right₀ (by norm_num) (by norm_num))

theorem Q.mul {a b : F64} {A B c c' Ma Mb c'' M : ℝ} {k l n : ℕ} (ha : Q a A k c Ma) (hb : Q b B l c' Mb)
    (hn : k + l + 1 ≤ n) (hc : c * Mb + c' * Ma + eR ≤ c'') (hM : Ma * Mb * (1 + uR) + 1 / 2 ^ 100 ≤ M)
    (hbig : M ≤ 2 ^ 999) :
    Q (a * b) (A * B) n c'' M := by
  have hM : Ma * Mb * (1 + uR) + eR ≤ M := by have := eR_small; linarith
  obtain ⟨fa, a0, a1, A0, A1, c0, la⟩ := ha
  obtain ⟨fb, b0, b1, B0, B1, c0', lb⟩ := hb
  have hMa : 0 ≤ Ma := le_trans a0 a1
  have hMb : 0 ≤ Mb := le_trans b0 b1
  have hab : val a * val b ≤ Ma * Mb := mul_le_mul a1 b1 b0 hMa
  have hAB : A * B ≤ Ma * Mb := mul_le_mul A1 B1 B0 hMa
  have hMM : 0 ≤ Ma * Mb := mul_nonneg hMa hMb
  have hMM' : Ma * Mb ≤ M := by
    have : 0 ≤ Ma * Mb * uR := mul_nonneg hMM uR_nonneg
    have := eR_nonneg
    linarith
  obtain ⟨hf, h0, hlow, hup⟩ := mul_nn fa fb a0 b0 (le_trans hab (le_trans hMM' hbig))
  have hcore := mul_core a0 b0 A0 B0 A1 B1 c0 c0' (rpow_pos k).le (rpow_le_one k) (rpow_pos l).le (rpow_le_one l) la lb
  have hcc : 0 ≤ c * Mb + c' * Ma := add_nonneg (mul_nonneg c0 hMb) (mul_nonneg c0' hMa)
  refine ⟨hf, h0, ?_, mul_nonneg A0 B0, le_trans hAB hMM', le_trans (add_nonneg hcc eR_nonneg) hc, ?_⟩
  · have : val a * val b * (1 + uR) ≤ Ma * Mb * (1 + uR) :=
      mul_le_mul_of_nonneg_right hab (by have := uR_nonneg; linarith)
    linarith
  · have h1 : (A * B * ((1 - uR) ^ k * (1 - uR) ^ l) - (c * Mb + c' * Ma)) * (1 - uR) ≤ val a * val b * (1 - uR) :=
      mul_le_mul_of_nonneg_right hcore rho_nonneg
    have h2 : A * B * (1 - uR) ^ n ≤ A * B * ((1 - uR) ^ k * (1 - uR) ^ l * (1 - uR)) := by
      apply mul_le_mul_of_nonneg_left _ (mul_nonneg A0 B0)
      rw [← pow_add, ← pow_succ]
      exact rpow_anti hn
    have h3 : (c * Mb + c' * Ma) * (1 - uR) ≤ c * Mb + c' * Ma := mul_le_of_le_one_right hcc rho_le_one
    nlinarith

theorem Q.add {a b : F64} {A B c c' Ma Mb c'' M : ℝ} {k l n : ℕ} (ha : Q a A k c Ma) (hb : Q b B l c' Mb)
    (hk : k + 1 ≤ n) (hl : l + 1 ≤ n) (hc : c + c' ≤ c'') (hM : (Ma + Mb) * (1 + uR) ≤ M) (hbig : M ≤ 2 ^ 999) :
    Q (a + b) (A + B) n c'' M := by
  obtain ⟨fa, a0, a1, A0, A1, c0, la⟩ := ha
  obtain ⟨fb, b0, b1, B0, B1, c0', lb⟩ := hb
  have hMa : 0 ≤ Ma := le_trans a0 a1
  have hMb : 0 ≤ Mb := le_trans b0 b1
  have hMM : Ma + Mb ≤ M := by
    have : 0 ≤ (Ma + Mb) * uR := mul_nonneg (add_nonneg hMa hMb) uR_nonneg
    linarith
  obtain ⟨hf, h0, hlow, hup⟩ := add_nn fa fb a0 b0 (le_trans (add_le_add a1 b1) (le_trans hMM hbig))
  refine ⟨hf, h0, ?_, add_nonneg A0 B0, le_trans (add_le_add A1 B1) hMM, le_trans (add_nonneg c0 c0') hc, ?_⟩
  · have : (val a + val b) * (1 + uR) ≤ (Ma + Mb) * (1 + uR) :=
      mul_le_mul_of_nonneg_right (add_le_add a1 b1) (by have := uR_nonneg; linarith)
    linarith
  · have hA : A * (1 - uR) ^ n ≤ A * (1 - uR) ^ k * (1 - uR) := by
      rw [mul_assoc, ← pow_succ]; exact mul_le_mul_of_nonneg_left (rpow_anti hk) A0
    have hB : B * (1 - uR) ^ n ≤ B * (1 - uR) ^ l * (1 - uR) := by
      rw [mul_assoc, ← pow_succ]; exact mul_le_mul_of_nonneg_left (rpow_anti hl) B0
    have h1 : (A * (1 - uR) ^ k - c + (B * (1 - uR) ^ l - c')) * (1 - uR) ≤ (val a + val b) * (1 - uR) :=
      mul_le_mul_of_nonneg_right (add_le_add la lb) rho_nonneg
    have h3 : (c + c') * (1 - uR) ≤ c + c' := mul_le_of_le_one_right (add_nonneg c0 c0') rho_le_one
    nlinarith

/-! ### square root -/

theorem toInt_of_val_zero {x : F64} (h : val x = 0) : toInt x = 0 := by
  unfold val at h
  rcases div_eq_zero_iff.mp h with h | h
  · exact_mod_cast h
  · exact absurd h (by positivity)

theorem isZero_of_val {x : F64} (h : val x = 0) : x.isZero = true := by
  cases hz : x.isZero
  · have h1 := F64Round.mag_pos_of_not_zero hz
    have h2 := F64Round.natAbs_toInt x
    rw [toInt_of_val_zero h] at h2
    simp at h2
    omega
  · rfl

theorem sqrt_of_zero {x : F64} (hx : Fin x) (h : val x = 0) : F64.sqrt x = x := by
  unfold F64.sqrt
  simp [isNaN_false hx, isZero_of_val h]

theorem signBit_of_pos {x : F64} (h : 0 < val x) : x.signBit = false := by
  have ht : 0 < toInt x := by
    unfold val at h
    have h' : (0 : ℝ) < (toInt x : ℝ) := by
      by_contra hc
      have hc := not_lt.mp hc
      have : (toInt x : ℝ) / 2 ^ 1074 ≤ 0 := div_nonpos_of_nonpos_of_nonneg hc (by positivity)
      linarith
    exact_mod_cast h'
  cases hs : x.signBit
  · rfl
  · rw [F64Inj.toInt_eq_mag, hs] at ht
    simp at ht
    omega

theorem isZero_of_pos {x : F64} (h : 0 < val x) : x.isZero = false := by
  cases hz : x.isZero
  · rfl
  · rw [val_of_isZero hz] at h; exact absurd h (lt_irrefl _)

/-- the square root of a non-negative float: finite, non-negative, and `val x · (1−u)³ ≤ val (sqrt x)²` -/
theorem sqrt_nn {x : F64} (hx : Fin x) (h0 : 0 ≤ val x) :
    Fin (F64.sqrt x) ∧ 0 ≤ val (F64.sqrt x) ∧ val (F64.sqrt x) ≤ 2 ^ 515 ∧
      val x * (1 - uR) ^ 3 ≤ val (F64.sqrt x) ^ 2 := by
  rcases h0.lt_or_eq with hpos | hz
  · obtain ⟨hf, h1, h2, h3⟩ := sqrt_lower x hx hpos
    refine ⟨hf, h1, h2, le_trans ?_ h3⟩
    apply mul_le_mul_of_nonneg_left _ h0
    have : (1 - uR) ≤ 1 - 1 / 2 ^ 58 := by unfold uR; norm_num
    calc (1 - uR) ^ 3 = (1 - uR) * (1 - uR) ^ 2 := by ring
      _ ≤ (1 - 1 / 2 ^ 58) * (1 - uR) ^ 2 := mul_le_mul_of_nonneg_right this (sq_nonneg _)
  · rw [sqrt_of_zero hx hz.symm, ← hz]
    refine ⟨hx, le_refl _, by positivity, by simp⟩

/-- real core of the square-root rule -/
theorem sqrt_core {v r P c e ρ : ℝ} {k m : ℕ} (hv : P * ρ ^ k - c ≤ v) (hr0 : 0 ≤ r) (hr : v * ρ ^ 3 ≤ r ^ 2)
    (P0 : 0 ≤ P) (c0 : 0 ≤ c) (he : 0 ≤ e) (hc : c ≤ e ^ 2) (hk : k + 3 ≤ 2 * m) (ρ0 : 0 ≤ ρ) (ρ1 : ρ ≤ 1) :
    Real.sqrt P * ρ ^ m - e ≤ r := by
  by_contra h
  have h := not_le.mp h
  set s := Real.sqrt P
  set g := ρ ^ m
  have hs : s * s = P := Real.mul_self_sqrt P0
  have hg : g * g ≤ ρ ^ (k + 3) := by
    show ρ ^ m * ρ ^ m ≤ ρ ^ (k + 3)
    rw [← pow_add]
    exact pow_le_pow_of_le_one ρ0 ρ1 (by omega)
  have h1 : e ≤ s * g := by linarith
  have h2 : r ^ 2 < (s * g - e) ^ 2 := pow_lt_pow_left₀ h hr0 two_ne_zero
  have h3 : e * e ≤ e * (s * g) := mul_le_mul_of_nonneg_left h1 he
  have h4 : (s * g) ^ 2 ≤ P * ρ ^ (k + 3) := by
    calc (s * g) ^ 2 = (s * s) * (g * g) := by ring
      _ = P * (g * g) := by rw [hs]
      _ ≤ P * ρ ^ (k + 3) := mul_le_mul_of_nonneg_left hg P0
  have h5 : (P * ρ ^ k - c) * ρ ^ 3 ≤ v * ρ ^ 3 := mul_le_mul_of_nonneg_right hv (pow_nonneg ρ0 3)
  have h6 : c * ρ ^ 3 ≤ c := mul_le_of_le_one_right c0 (pow_le_one₀ ρ0 ρ1)
  have h7 : P * ρ ^ (k + 3) = P * ρ ^ k * ρ ^ 3 := by rw [pow_add]; ring
  nlinarith

theorem Q.sqrt {p : F64} {P c M e : ℝ} {k m : ℕ} (hp : Q p P k c M) (hk : k + 3 ≤ 2 * m) (he : 0 ≤ e)
    (hc : c ≤ e ^ 2) (hM : M ≤ 2 ^ 1030) : Q (F64.sqrt p) (Real.sqrt P) m e (2 ^ 515) := by
  obtain ⟨fp, p0, p1, P0, P1, c0, lp⟩ := hp
  obtain ⟨hf, r0, r1, r2⟩ := sqrt_nn fp p0
  refine ⟨hf, r0, r1, Real.sqrt_nonneg _, ?_, he, sqrt_core lp r0 r2 P0 c0 he hc hk rho_nonneg rho_le_one⟩
  rw [Real.sqrt_le_iff]
  refine ⟨by positivity, le_trans P1 (le_trans hM (le_of_eq ?_))⟩
  rw [← pow_mul]

/-- upper bound: the root of a float in `[0, 4]` is at most 2 -/
theorem sqrt_le_two {x : F64} (hx : Fin x) (h0 : 0 ≤ val x) (h4 : val x ≤ 4) : val (F64.sqrt x) ≤ 2 := by
  rcases h0.lt_or_eq with hpos | hz
  · obtain ⟨hf, hr0, hall⟩ := F64Round.sqrt_spec hx (signBit_of_pos hpos) (isZero_of_pos hpos)
    by_contra hc
    have hc := not_le.mp hc
    have h2 : F64Round.val F64.two = 2 := by
      have := val_cast F64.two
      rw [val_two.2] at this
      exact_mod_cast this
    have hlt : F64Round.val F64.two < F64Round.val (F64.sqrt x) := by
      rw [h2]
      rw [← val_cast] at hc
      exact_mod_cast hc
    have := (hall F64.two (by rw [h2]; norm_num)).1 hlt
    have hR := (Rat.cast_le (K := ℝ)).mpr this
    push_cast at hR
    rw [val_cast, val_cast, val_cast, val_two.2] at hR
    nlinarith
  · rw [sqrt_of_zero hx hz.symm, ← hz]; norm_num

theorem Q.improve {x : F64} {X c M M' : ℝ} {k : ℕ} (h : Q x X k c M) (h1 : val x ≤ M') (h2 : X ≤ M') :
    Q x X k c M' := by
  obtain ⟨hf, h0, _, hX0, _, hc0, hl⟩ := h
  exact ⟨hf, h0, h1, hX0, h2, hc0, hl⟩

theorem small_big {M : ℝ} (h : M ≤ 1024) : M ≤ 2 ^ 999 :=
  le_trans h (by
    have : (2 : ℝ) ^ 10 ≤ 2 ^ 999 := pow_le_pow_right₀ (by norm_num) (by norm_num)
    calc (1024 : ℝ) = 2 ^ 10 := by norm_num
      _ ≤ _ := this)

/-- the root of an input in `[0, 4]` -/
theorem Q_sqrt_in {x : F64} (hx : Fin x) (h0 : 0 ≤ val x) (h4 : val x ≤ 4) :
    Q (F64.sqrt x) (Real.sqrt (val x)) 2 0 2 := by
  have h := Q.sqrt (Q.exact hx h0 h4) (m := 2) (e := 0) (by norm_num) (le_refl _) (by norm_num)
    (by
      have : (2 : ℝ) ^ 2 ≤ 2 ^ 1030 := pow_le_pow_right₀ (by norm_num) (by norm_num)
      calc (4 : ℝ) = 2 ^ 2 := by norm_num
        _ ≤ _ := this)
  refine h.improve (sqrt_le_two hx h0 h4) ?_
  rw [Real.sqrt_le_iff]
  exact ⟨by norm_num, by norm_num; exact h4⟩

/-! ### constants of `addCapSlack` -/

theorem val_c1 : Fin (⟨0x3cc2000000000000⟩ : F64) ∧ val (⟨0x3cc2000000000000⟩ : F64) = 9 / 4 * eps := by
  have h : Fin (⟨0x3cc2000000000000⟩ : F64) ∧ toInt (⟨0x3cc2000000000000⟩ : F64) = 9 * 2 ^ 1020 := by decide +kernel
  refine ⟨h.1, val_of_toInt h.2 ?_⟩
  unfold eps; push_cast
  rw [show (1074 : ℕ) = 1020 + 54 from rfl, pow_add]; ring

theorem val_c3 : Fin (⟨0x3cc8000000000000⟩ : F64) ∧ val (⟨0x3cc8000000000000⟩ : F64) = 3 * eps := by
  have h : Fin (⟨0x3cc8000000000000⟩ : F64) ∧ toInt (⟨0x3cc8000000000000⟩ : F64) = 3 * 2 ^ 1022 := by decide +kernel
  refine ⟨h.1, val_of_toInt h.2 ?_⟩
  unfold eps; push_cast
  rw [show (1074 : ℕ) = 1022 + 52 from rfl, pow_add]; ring

theorem val_c15 : Fin (⟨0x3ff8000000000000⟩ : F64) ∧ val (⟨0x3ff8000000000000⟩ : F64) = 3 / 2 := by
  have h : Fin (⟨0x3ff8000000000000⟩ : F64) ∧ toInt (⟨0x3ff8000000000000⟩ : F64) = 3 * 2 ^ 1073 := by decide +kernel
  refine ⟨h.1, val_of_toInt h.2 ?_⟩
  push_cast
  rw [show (1074 : ℕ) = 1073 + 1 from rfl, pow_add]; ring

theorem val_c45 : Fin (⟨0x4012000000000000⟩ : F64) ∧ val (⟨0x4012000000000000⟩ : F64) = 9 / 2 := by
  have h : Fin (⟨0x4012000000000000⟩ : F64) ∧ toInt (⟨0x4012000000000000⟩ : F64) = 9 * 2 ^ 1073 := by decide +kernel
  refine ⟨h.1, val_of_toInt h.2 ?_⟩
  push_cast
  rw [show (1074 : ℕ) = 1073 + 1 from rfl, pow_add]; ring

theorem val_c16 : Fin (⟨0x4030000000000000⟩ : F64) ∧ val (⟨0x4030000000000000⟩ : F64) = 16 := by
  have h : Fin (⟨0x4030000000000000⟩ : F64) ∧ toInt (⟨0x4030000000000000⟩ : F64) = 2 ^ 1078 := by decide +kernel
  refine ⟨h.1, val_of_toInt h.2 ?_⟩
  push_cast
  rw [show (1078 : ℕ) = 1074 + 4 from rfl, pow_add]; ring

theorem val_epsS1 : Fin Chord.dblEpsilonS1 ∧ val Chord.dblEpsilonS1 = 0x1ffffffff081a2 / 2 ^ 105 := by
  have h : Fin Chord.dblEpsilonS1 ∧ toInt Chord.dblEpsilonS1 = 0x1ffffffff081a2 * 2 ^ 969 := by decide +kernel
  refine ⟨h.1, val_of_toInt h.2 ?_⟩
  push_cast
  rw [show (1074 : ℕ) = 969 + 105 from rfl, pow_add]; field_simp

/-! ### `1 − o/4` -/

/-- the tolerance absorbing the underflow of `0.25 * o` -/
noncomputable def tau : ℝ := 1 / 2 ^ 1020
/-- the absolute loss after the square root -/
noncomputable def e3 : ℝ := 1 / 2 ^ 506

theorem tau_pos : 0 < tau := by unfold tau; positivity
theorem e3_pos : 0 < e3 := by unfold e3; positivity

theorem inv_pow_le {m n : ℕ} (h : m ≤ n) : (1 : ℝ) / 2 ^ n ≤ 1 / 2 ^ m :=
  one_div_le_one_div_of_le (by positivity) (pow_le_pow_right₀ (by norm_num) h)

theorem inv_pow_split (m n : ℕ) : (1 : ℝ) / 2 ^ (m + n) = 1 / 2 ^ m * (1 / 2 ^ n) := by
  rw [pow_add]; field_simp

theorem eR_le_tau : 2 * eR ≤ tau := by
  unfold eR tau
  rw [show (1075 : ℕ) = 1020 + 55 from rfl, inv_pow_split]
  have h1 : (1 : ℝ) / 2 ^ 55 ≤ 1 / 2 := by norm_num
  have h0 : (0 : ℝ) < 1 / 2 ^ 1020 := by positivity
  nlinarith

theorem tau_le_e3 : tau ≤ e3 := inv_pow_le (by norm_num)

theorem e3_sq : e3 ^ 2 = 256 * tau := by
  unfold e3 tau
  rw [show (1020 : ℕ) = 506 + 506 + 8 from rfl, pow_add, pow_add]
  field_simp
  norm_num

theorem e3_64 : 64 * e3 = 1 / 2 ^ 500 := by
  unfold e3
  rw [show (506 : ℕ) = 500 + 6 from rfl, pow_add]
  field_simp
  norm_num

theorem tau_le_quarter : tau ≤ 1 / 4 := by
  have : (1 : ℝ) / 2 ^ 1020 ≤ 1 / 2 ^ 2 := inv_pow_le (by norm_num)
  unfold tau; linarith

theorem one_le_big : (1 : ℝ) ≤ 2 ^ 999 := one_le_pow₀ (by norm_num)

/-- `0.25 * t` is exact unless `t` is tiny -/
theorem quarter_exact {t : F64} (ht : Fin t) (h3 : 3 ≤ t.expField) :
    Fin (Chord.fQuarter * t) ∧ val (Chord.fQuarter * t) = val t / 4 := by
  obtain ⟨f1, e1⟩ := F64Round.half_exact ht (F64Round.mag_even_of_expField (by omega))
  have hm : F64Inj.mag (F64.mul F64.half t) % 2 = 0 := by
    have h3' := F64Round.natAbs_toInt t
    have h2 := F64Round.natAbs_toInt (F64.mul F64.half t)
    have h4 : F64Inj.mag t % 4 = 0 := by
      unfold F64Inj.mag
      have : 2 ^ (t.expField - 1) = 4 * 2 ^ (t.expField - 3) := by
        rw [show (4 : ℕ) = 2 ^ 2 from rfl, ← Nat.pow_add]; congr 1; omega
      rw [this, ← Nat.mul_assoc, Nat.mul_comm _ 4, Nat.mul_assoc]; exact Nat.mul_mod_right _ _
    rw [← e1, Int.natAbs_mul] at h3'
    have h22 : (2 : ℤ).natAbs = 2 := rfl
    rw [h22] at h3'
    omega
  obtain ⟨f2, e2⟩ := F64Round.half_exact f1 hm
  have hq : toInt Chord.fQuarter = 2 ^ 1072 := by decide +kernel
  have hr := F64Round.isRound_mul val_quarter.1 ht
  have e4 : toInt t = 4 * toInt (F64.mul F64.half (F64.mul F64.half t)) := by omega
  have hv : F64Round.val Chord.fQuarter * F64Round.val t
      = F64Round.val (F64.mul F64.half (F64.mul F64.half t)) := by
    unfold F64Round.val F64Round.U
    rw [hq, e4]
    push_cast
    rw [show (1074 : ℕ) = 1072 + 2 from rfl, pow_add]
    field_simp
    ring
  rw [hv] at hr
  obtain ⟨f, e⟩ := F64Round.IsRound.fix f2 hr
  refine ⟨f, ?_⟩
  show val (F64.mul Chord.fQuarter t) = val t / 4
  unfold val
  rw [e, e4]
  push_cast
  field_simp

theorem tiny_of_expField {t : F64} (h : t.expField ≤ 2) : val t < tau := by
  have hm := F64Round.mant_lt t
  have hmag : F64Inj.mag t < 2 ^ 54 := by
    unfold F64Inj.mag
    have h2 : 2 ^ (t.expField - 1) ≤ 2 ^ 1 := Nat.pow_le_pow_right (by norm_num) (by omega)
    calc t.mant * 2 ^ (t.expField - 1) ≤ t.mant * 2 ^ 1 := Nat.mul_le_mul_left _ h2
      _ < 2 ^ 53 * 2 ^ 1 := Nat.mul_lt_mul_of_pos_right hm (by norm_num)
      _ = 2 ^ 54 := by norm_num
  have hle : toInt t < 2 ^ 54 := by
    rw [F64Inj.toInt_eq_mag]; split <;> omega
  have hR : (toInt t : ℝ) < 2 ^ 54 := by exact_mod_cast hle
  unfold val tau
  rw [div_lt_div_iff₀ (by positivity) (by positivity), one_mul]
  rw [show (1074 : ℕ) = 54 + 1020 from rfl, pow_add]
  exact mul_lt_mul_of_pos_right hR (by positivity)

theorem Q_one_sub {t : F64} (ht : Fin t) (h0 : 0 ≤ val t) (h4 : val t ≤ 4) :
    Q (F64.one - Chord.fQuarter * t) (1 - val t / 4) 1 tau 2 := by
  have hτ := tau_pos
  -- the quarter
  have hq : Fin (Chord.fQuarter * t) ∧ 0 ≤ val (Chord.fQuarter * t) ∧ val (Chord.fQuarter * t) ≤ 1 ∧
      val (Chord.fQuarter * t) ≤ val t / 4 + tau := by
    by_cases h3 : 3 ≤ t.expField
    · obtain ⟨f, e⟩ := quarter_exact ht h3
      refine ⟨f, ?_, ?_, ?_⟩ <;> rw [e] <;> linarith
    · have hb := tiny_of_expField (t := t) (by omega)
      obtain ⟨f, q0, _, qu⟩ := mul_nn val_quarter.1 ht (by rw [val_quarter.2]; norm_num) h0
        (by
          rw [val_quarter.2]
          exact le_trans (by linarith : 1 / 4 * val t ≤ 1) one_le_big)
      rw [val_quarter.2] at qu
      have h1 : 1 / 4 * val t * (1 + uR) ≤ 1 / 4 * val t * 2 :=
        mul_le_mul_of_nonneg_left (by have := uR_le_one; linarith) (by linarith)
      have h2 := eR_le_tau
      have h5 := tau_le_quarter
      have : val (Chord.fQuarter * t) ≤ tau := by linarith
      exact ⟨f, q0, by linarith, by linarith⟩
  obtain ⟨fq, q0, q1, qu⟩ := hq
  have hlt : |val F64.one - val (Chord.fQuarter * t)| < 2 ^ 1000 := by
    rw [val_one.2, abs_of_nonneg (by linarith)]
    have : (2 : ℝ) ^ 999 < 2 ^ 1000 := pow_lt_pow_right₀ (by norm_num) (by norm_num)
    exact lt_of_le_of_lt (le_trans (by linarith : 1 - val (Chord.fQuarter * t) ≤ 1) one_le_big) this
  obtain ⟨δ, hδ, hv, hf⟩ := sub_std F64.one (Chord.fQuarter * t) val_one.1 fq hlt
  change val (F64.one - Chord.fQuarter * t) = _ at hv
  change Fin (F64.one - Chord.fQuarter * t) at hf
  rw [val_one.2] at hv
  obtain ⟨d1, d2⟩ := abs_le.mp hδ
  have hu := uR_le_one
  have hu0 := uR_nonneg
  set q := val (Chord.fQuarter * t)
  have hq1 : 0 ≤ 1 - q := by linarith
  have l1 : (1 - q) * (1 - uR) ≤ (1 - q) * (1 + δ) := mul_le_mul_of_nonneg_left (by linarith) hq1
  have l2 : (1 - q) * (1 + δ) ≤ (1 - q) * (1 + uR) := mul_le_mul_of_nonneg_left (by linarith) hq1
  have l3 : (1 - q) * (1 + uR) ≤ 1 * (1 + uR) := mul_le_mul_of_nonneg_right (by linarith) (by linarith)
  have l4 : (1 - val t / 4 - tau) * (1 - uR) ≤ (1 - q) * (1 - uR) :=
    mul_le_mul_of_nonneg_right (by linarith) rho_nonneg
  have l5 : tau * (1 - uR) ≤ tau := mul_le_of_le_one_right hτ.le rho_le_one
  refine ⟨hf, ?_, ?_, by linarith, by linarith, hτ.le, ?_⟩
  · rw [hv]; exact le_trans (mul_nonneg hq1 rho_nonneg) l1
  · rw [hv]; linarith
  · rw [hv, pow_one]; nlinarith

/-! ### the main branch of `ChordAngle.Add` -/

theorem sum_lt_four {s t : F64} (hs : Fin s) (ht : Fin t) (h : ¬ F64.ge (s + t) Chord.f4 = true) :
    val s + val t < 4 := by
  by_contra hc
  have hc := not_lt.mp hc
  apply h
  show F64.le Chord.f4 (F64.add s t) = true
  have h4 : F64Round.val Chord.f4 = 4 := by
    have := val_cast Chord.f4
    rw [val_f4.2] at this
    exact_mod_cast this
  refine F64Round.IsRound.mono (F64Round.isRound_self val_f4.1) (F64Round.isRound_add hs ht) ?_
  rw [h4]
  have : ((4 : ℚ) : ℝ) ≤ ((F64Round.val s + F64Round.val t : ℚ) : ℝ) := by
    push_cast; rw [val_cast, val_cast]; exact hc
  exact_mod_cast this

theorem lower_of_le {C v : ℝ} (hv : 0 ≤ v) (h : C ≤ v) : C * (1 - uR) ^ 6 - 1 / 2 ^ 500 ≤ v := by
  have hp : (0 : ℝ) ≤ 1 / 2 ^ 500 := by positivity
  rcases le_total 0 C with h0 | h0
  · have : C * (1 - uR) ^ 6 ≤ C := mul_le_of_le_one_right h0 (rpow_le_one 6)
    linarith
  · have : C * (1 - uR) ^ 6 ≤ 0 := mul_nonpos_of_nonpos_of_nonneg h0 (rpow_pos 6).le
    linarith

theorem big_mul {B : ℝ} (hB : 1 ≤ B) : 2 * B * (1 + uR) + 1 / 2 ^ 100 ≤ 4 * B := by
  have h1 : 2 * B * (1 + uR) ≤ 2 * B * (1 + 1 / 2) :=
    mul_le_mul_of_nonneg_left (by unfold uR; norm_num) (by linarith)
  have h2 : (1 : ℝ) / 2 ^ 100 ≤ 1 := by
    rw [div_le_one (by positivity)]; exact one_le_pow₀ (by norm_num)
  linarith

theorem big_add {B : ℝ} (hB : 1 ≤ B) : (19 + 4 * B) * (1 + uR) ≤ 64 * B := by
  have h1 : (19 + 4 * B) * (1 + uR) ≤ (19 + 4 * B) * 2 :=
    mul_le_mul_of_nonneg_left (by have := uR_le_one; linarith) (by linarith)
  linarith

theorem big_515 : (1 : ℝ) ≤ 2 ^ 515 := one_le_pow₀ (by norm_num)

theorem big_le : (64 : ℝ) * 2 ^ 515 ≤ 2 ^ 999 := by
  have : (64 : ℝ) * 2 ^ 515 = 2 ^ 521 := by
    rw [show (521 : ℕ) = 6 + 515 from rfl, pow_add]; norm_num
  rw [this]
  exact pow_le_pow_right₀ (by norm_num) (by norm_num)

theorem add_main (s t : F64) (hs : Fin s) (ht : Fin t)
    (hs0 : 0 ≤ val s) (hs4 : val s ≤ 4) (ht0 : 0 ≤ val t) (ht4 : val t ≤ 4) (hsum : val s + val t < 4) :
    let x := s * (F64.one - Chord.fQuarter * t)
    let y := t * (F64.one - Chord.fQuarter * s)
    let r := F64.fmin Chord.f4 (x + y + F64.two * F64.sqrt (x * y))
    Fin r ∧ 0 ≤ val r ∧ val r ≤ 4 ∧ (val r = 4 ∨ caddR (val s) (val t) * (1 - uR) ^ 6 - 1 / 2 ^ 500 ≤ val r) := by
  intro x y r
  have hτ := tau_pos
  have hτe := eR_le_tau
  have he3 := e3_pos
  have hte := tau_le_e3
  have e0 := eR_nonneg
  have qs := Q.exact hs hs0 hs4
  have qt := Q.exact ht ht0 ht4
  have qwt := Q_one_sub ht ht0 ht4
  have qws := Q_one_sub hs hs0 hs4
  have q2 := Q.const val_two (by norm_num)
  have qx : Q x (val s * (1 - val t / 4)) 2 (5 * tau) 9 :=
    Q.mul qs qwt (by norm_num) (by linarith) (by unfold uR; norm_num) (small_big (by norm_num))
  have qy : Q y (val t * (1 - val s / 4)) 2 (5 * tau) 9 :=
    Q.mul qt qws (by norm_num) (by linarith) (by unfold uR; norm_num) (small_big (by norm_num))
  have qp : Q (x * y) (val s * (1 - val t / 4) * (val t * (1 - val s / 4))) 5 (91 * tau) 82 :=
    Q.mul qx qy (by norm_num) (by linarith) (by unfold uR; norm_num) (small_big (by norm_num))
  have qr : Q (F64.sqrt (x * y)) (Real.sqrt (val s * (1 - val t / 4) * (val t * (1 - val s / 4)))) 4 e3 (2 ^ 515) :=
    Q.sqrt qp (by norm_num) he3.le (by rw [e3_sq]; linarith)
      (le_trans (by norm_num : (82 : ℝ) ≤ 2 ^ 7) (pow_le_pow_right₀ (by norm_num) (by norm_num)))
  have q2r : Q (F64.two * F64.sqrt (x * y))
      (2 * Real.sqrt (val s * (1 - val t / 4) * (val t * (1 - val s / 4)))) 5 (3 * e3) (4 * 2 ^ 515) :=
    Q.mul q2 qr (by norm_num) (by linarith) (big_mul big_515)
      (le_trans (mul_le_mul_of_nonneg_right (by norm_num : (4 : ℝ) ≤ 64) (by positivity)) big_le)
  have qxy : Q (x + y) (val s * (1 - val t / 4) + val t * (1 - val s / 4)) 3 (10 * tau) 19 :=
    Q.add qx qy (by norm_num) (by norm_num) (by linarith) (by unfold uR; norm_num) (small_big (by norm_num))
  have qS : Q (x + y + F64.two * F64.sqrt (x * y))
      (val s * (1 - val t / 4) + val t * (1 - val s / 4)
        + 2 * Real.sqrt (val s * (1 - val t / 4) * (val t * (1 - val s / 4)))) 6 (10 * tau + 3 * e3) (64 * 2 ^ 515) :=
    Q.add qxy q2r (by norm_num) (by norm_num) (le_refl _) (big_add big_515) big_le
  obtain ⟨fS, S0, _, _, _, _, lS⟩ := qS
  obtain ⟨fr, vr⟩ := val_fmin val_f4.1 fS
  rw [val_f4.2] at vr
  change val r = _ at vr
  refine ⟨fr, by rw [vr]; exact le_min (by norm_num) S0, by rw [vr]; exact min_le_left _ _, ?_⟩
  by_cases h4 : 4 ≤ val (x + y + F64.two * F64.sqrt (x * y))
  · left; rw [vr]; exact min_eq_left h4
  · right
    rw [vr, min_eq_right (not_le.mp h4).le]
    have hc : caddR (val s) (val t) = min 4 (val s * (1 - val t / 4) + val t * (1 - val s / 4)
        + 2 * Real.sqrt (val s * (1 - val t / 4) * (val t * (1 - val s / 4)))) := by
      unfold caddR; rw [if_neg (not_le.mpr hsum)]
    rw [hc]
    have h5 := mul_le_mul_of_nonneg_right (min_le_right 4 (val s * (1 - val t / 4) + val t * (1 - val s / 4)
        + 2 * Real.sqrt (val s * (1 - val t / 4) * (val t * (1 - val s / 4))))) (rpow_pos 6).le
    have h6 : 10 * tau + 3 * e3 ≤ 1 / 2 ^ 500 := by rw [← e3_64]; linarith
    linarith

end CA

open CA

/-- package s1's dblEpsilon as a real -/
noncomputable def epsS : ℝ := val Chord.dblEpsilonS1

theorem epsS_bounds : eps * (1 - 1 / 2 ^ 30) ≤ epsS ∧ epsS ≤ eps := by
  unfold epsS eps
  rw [val_epsS1.2]
  constructor <;> norm_num


/-- `ChordAngle.Add` never under-estimates the exact sum by more than 6 roundings (and an underflow term) -/
theorem chordAdd_spec (s t : F64) (hs : Fin s) (ht : Fin t)
    (hs0 : 0 ≤ val s) (hs4 : val s ≤ 4) (ht0 : 0 ≤ val t) (ht4 : val t ≤ 4) :
    Fin (Chord.add s t) ∧ 0 ≤ val (Chord.add s t) ∧ val (Chord.add s t) ≤ 4 ∧
    (val (Chord.add s t) = 4 ∨ caddR (val s) (val t) * (1 - uR) ^ 6 - 1 / 2 ^ 500 ≤ val (Chord.add s t)) := by
  unfold Chord.add
  by_cases h1 : F64.feq t Chord.f0 = true
  · rw [if_pos h1]
    have hb : val t = 0 := by rw [(feq_iff_val ht val_f0.1).mp h1, val_f0.2]
    refine ⟨hs, hs0, hs4, Or.inr (lower_of_le hs0 ?_)⟩
    rw [hb]; unfold caddR
    split
    · linarith
    · simp
  · rw [if_neg h1]
    by_cases h2 : F64.ge (s + t) Chord.f4 = true
    · rw [if_pos h2]
      exact ⟨val_f4.1, by rw [val_f4.2]; norm_num, by rw [val_f4.2], Or.inl val_f4.2⟩
    · rw [if_neg h2]
      exact add_main s t hs ht hs0 hs4 ht0 ht4 (sum_lt_four hs ht h2)

/-- the allowance of `AddCap` is finite, small, and at least (1−u)^16 of its exact formula (minus an underflow term) -/
theorem addCapSlack_spec (cd ro d : F64) (hcd : Fin cd) (hro : Fin ro) (hd : Fin d)
    (hcd0 : 0 ≤ val cd) (hcd4 : val cd ≤ 4) (hro0 : 0 ≤ val ro) (hro4 : val ro ≤ 4) (hd0 : 0 ≤ val d) (hd4 : val d ≤ 4) :
    Fin (Chord.addCapSlack cd ro d) ∧ 0 ≤ val (Chord.addCapSlack cd ro d) ∧ val (Chord.addCapSlack cd ro d) ≤ 1 ∧
    (3 / 2) * (1 - uR) ^ 16 *
        (2 * Real.sqrt (val d) * (9 / 4 * eps * (Real.sqrt (val cd) + Real.sqrt (val ro)))
          + (9 / 4 * eps * (Real.sqrt (val cd) + Real.sqrt (val ro))) ^ 2
          + (9 / 2 * epsS + 3 * eps) * val d + 16 * epsS ^ 2)
      - 1 / 2 ^ 500 ≤ val (Chord.addCapSlack cd ro d) := by
  have e0 := eR_nonneg
  have hE52 : epsS ≤ 1 / 2 ^ 52 := epsS_bounds.2
  have hE0 : 0 ≤ epsS := le_trans (by unfold eps; norm_num) epsS_bounds.1
  have heps : eps = 1 / 2 ^ 52 := rfl
  -- the operands
  have qd : Q d (val d) 0 0 4 := Q.exact hd hd0 hd4
  have qe : Q Chord.dblEpsilonS1 epsS 0 0 (1 / 2 ^ 52) := Q.exact val_epsS1.1 hE0 hE52
  have q1 := Q.const val_c1 (by unfold eps; norm_num)
  have q3 := Q.const val_c3 (by unfold eps; norm_num)
  have q15 := Q.const val_c15 (by norm_num)
  have q45 := Q.const val_c45 (by norm_num)
  have q16 := Q.const val_c16 (by norm_num)
  have q2 := Q.const val_two (by norm_num)
  have qA := Q_sqrt_in hcd hcd0 hcd4
  have qB := Q_sqrt_in hro hro0 hro4
  have qD := Q_sqrt_in hd hd0 hd4
  -- delta
  have qS : Q (F64.sqrt cd + F64.sqrt ro) (Real.sqrt (val cd) + Real.sqrt (val ro)) 3 0 5 :=
    Q.add qA qB (by norm_num) (by norm_num) (by norm_num) (by unfold uR; norm_num) (small_big (by norm_num))
  have qΔ : Q ((⟨0x3cc2000000000000⟩ : F64) * (F64.sqrt cd + F64.sqrt ro))
      (9 / 4 * eps * (Real.sqrt (val cd) + Real.sqrt (val ro))) 4 eR (1 / 2 ^ 48) :=
    Q.mul q1 qS (by norm_num) (by linarith) (by unfold eps uR; norm_num) (small_big (by norm_num))
  set sA := Real.sqrt (val cd)
  set sB := Real.sqrt (val ro)
  set sD := Real.sqrt (val d)
  set δf : F64 := (⟨0x3cc2000000000000⟩ : F64) * (F64.sqrt cd + F64.sqrt ro) with hδf
  -- 2·sqrt(d)·delta
  have q2D : Q (F64.two * F64.sqrt d) (2 * sD) 3 eR 5 :=
    Q.mul q2 qD (by norm_num) (by linarith) (by unfold uR; norm_num) (small_big (by norm_num))
  have qT1 : Q (F64.two * F64.sqrt d * δf) (2 * sD * (9 / 4 * eps * (sA + sB))) 8 (7 * eR) (1 / 2 ^ 45) :=
    Q.mul q2D qΔ (by norm_num) (by linarith) (by unfold uR; norm_num) (small_big (by norm_num))
  have qT2 : Q (δf * δf) (9 / 4 * eps * (sA + sB) * (9 / 4 * eps * (sA + sB))) 9 (2 * eR) (1 / 2 ^ 95) :=
    Q.mul qΔ qΔ (by norm_num) (by linarith) (by unfold uR; norm_num) (small_big (by norm_num))
  have qT12 : Q (F64.two * F64.sqrt d * δf + δf * δf)
      (2 * sD * (9 / 4 * eps * (sA + sB)) + 9 / 4 * eps * (sA + sB) * (9 / 4 * eps * (sA + sB))) 10 (9 * eR)
      (1 / 2 ^ 44) :=
    Q.add qT1 qT2 (by norm_num) (by norm_num) (by linarith) (by unfold uR; norm_num) (small_big (by norm_num))
  -- maxPointError
  have qk1 : Q ((⟨0x4012000000000000⟩ : F64) * Chord.dblEpsilonS1) (9 / 2 * epsS) 1 eR (1 / 2 ^ 49) :=
    Q.mul q45 qe (by norm_num) (by linarith) (by unfold uR; norm_num) (small_big (by norm_num))
  have qk1d : Q ((⟨0x4012000000000000⟩ : F64) * Chord.dblEpsilonS1 * d) (9 / 2 * epsS * val d) 2 (5 * eR) (1 / 2 ^ 46) :=
    Q.mul qk1 qd (by norm_num) (by linarith) (by unfold uR; norm_num) (small_big (by norm_num))
  have qk16 : Q ((⟨0x4030000000000000⟩ : F64) * Chord.dblEpsilonS1) (16 * epsS) 1 eR (1 / 2 ^ 47) :=
    Q.mul q16 qe (by norm_num) (by linarith) (by unfold uR; norm_num) (small_big (by norm_num))
  have qk2 : Q ((⟨0x4030000000000000⟩ : F64) * Chord.dblEpsilonS1 * Chord.dblEpsilonS1) (16 * epsS * epsS) 2 (2 * eR)
      (1 / 2 ^ 98) :=
    Q.mul qk16 qe (by norm_num) (by linarith) (by unfold uR; norm_num) (small_big (by norm_num))
  have qmpe : Q (Chord.maxPointError d) (9 / 2 * epsS * val d + 16 * epsS * epsS) 3 (7 * eR) (1 / 2 ^ 45) :=
    Q.add qk1d qk2 (by norm_num) (by norm_num) (by linarith) (by unfold uR; norm_num) (small_big (by norm_num))
  have qS2 : Q (F64.two * F64.sqrt d * δf + δf * δf + Chord.maxPointError d)
      (2 * sD * (9 / 4 * eps * (sA + sB)) + 9 / 4 * eps * (sA + sB) * (9 / 4 * eps * (sA + sB))
        + (9 / 2 * epsS * val d + 16 * epsS * epsS)) 11 (16 * eR) (1 / 2 ^ 43) :=
    Q.add qT12 qmpe (by norm_num) (by norm_num) (by linarith) (by unfold uR; norm_num) (small_big (by norm_num))
  have q3d : Q ((⟨0x3cc8000000000000⟩ : F64) * d) (3 * eps * val d) 1 eR (1 / 2 ^ 48) :=
    Q.mul q3 qd (by norm_num) (by linarith) (by unfold eps uR; norm_num) (small_big (by norm_num))
  have qmax : Q (F64.two * F64.sqrt d * δf + δf * δf + Chord.maxPointError d + (⟨0x3cc8000000000000⟩ : F64) * d)
      (2 * sD * (9 / 4 * eps * (sA + sB)) + 9 / 4 * eps * (sA + sB) * (9 / 4 * eps * (sA + sB))
        + (9 / 2 * epsS * val d + 16 * epsS * epsS) + 3 * eps * val d) 12 (17 * eR) (1 / 2 ^ 42) :=
    Q.add qS2 q3d (by norm_num) (by norm_num) (by linarith) (by unfold uR; norm_num) (small_big (by norm_num))
  have qfin : Q (Chord.addCapSlack cd ro d)
      (3 / 2 * (2 * sD * (9 / 4 * eps * (sA + sB)) + 9 / 4 * eps * (sA + sB) * (9 / 4 * eps * (sA + sB))
        + (9 / 2 * epsS * val d + 16 * epsS * epsS) + 3 * eps * val d)) 16 (27 * eR) 1 :=
    Q.mul q15 qmax (by norm_num) (by linarith) (by unfold uR; norm_num) (small_big (by norm_num))
  obtain ⟨hf, h0, h1, _, _, _, hl⟩ := qfin
  have h27 : 27 * eR ≤ 1 / 2 ^ 500 := by
    unfold eR
    rw [show (27 : ℝ) * (1 / 2 ^ 1075) = 27 / 2 ^ 1075 by ring, div_le_div_iff₀ (by positivity) (by positivity)]
    rw [show (1075 : ℕ) = 500 + 575 from rfl, pow_add]
    have h5 : (27 : ℝ) ≤ 2 ^ 575 :=
      le_trans (by norm_num : (27 : ℝ) ≤ 2 ^ 5) (pow_le_pow_right₀ (by norm_num) (by norm_num))
    have hp : (0 : ℝ) < 2 ^ 500 := by positivity
    calc (27 : ℝ) * 2 ^ 500 ≤ 2 ^ 575 * 2 ^ 500 := mul_le_mul_of_nonneg_right h5 hp.le
      _ = 1 * (2 ^ 500 * 2 ^ 575) := by ring
  refine ⟨hf, h0, h1, ?_⟩
  have e : 3 / 2 * (1 - uR) ^ 16 *
        (2 * sD * (9 / 4 * eps * (sA + sB)) + (9 / 4 * eps * (sA + sB)) ^ 2 + (9 / 2 * epsS + 3 * eps) * val d
          + 16 * epsS ^ 2)
      = 3 / 2 * (2 * sD * (9 / 4 * eps * (sA + sB)) + 9 / 4 * eps * (sA + sB) * (9 / 4 * eps * (sA + sB))
        + (9 / 2 * epsS * val d + 16 * epsS * epsS) + 3 * eps * val d) * (1 - uR) ^ 16 := by ring
  rw [e]
  linarith

end S2Proofs.CapF64
