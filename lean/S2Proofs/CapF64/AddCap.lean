/-
  S2Proofs.CapF64.AddCap — the float glue: from the rounding specs of `between`, `ChordAngle.Add`, the allowance, and the real
  triangle inequality to `addCap_core`:

      every Normalize-grade point `p` that the float test `chord(b,p) ≤ ro` accepts satisfies
      chord(a,p) ≤ Expanded(Add(chord(a,b), ro), 1.5·maxErr)      (all computed in binary64)
-/
import S2Proofs.CapF64.Between
import S2Proofs.CapF64.ChordAdd
import S2Proofs.CapF64.RealChord
import S2Proofs.CapF64.Budget
import S2Proofs.F64Round
import S2Proofs.F64Carrier

namespace S2Proofs.CapF64
open S2 S2.Exact S2Proofs.F64Order S2Proofs.FloatErr

set_option exponentiation.threshold 3000

/-! ### small float facts -/

/-- the two value semantics agree -/
theorem valQ_cast (x : F64) : ((F64Round.val x : ℚ) : ℝ) = val x := by
  unfold F64Round.val F64Round.U val; push_cast; rfl

/-- adding a non-negative finite float never decreases a float (rounding is monotone) -/
theorem le_add_right {x y : F64} (hx : Fin x) (hy : Fin y) (h0 : 0 ≤ val y) : F64.le x (F64.add x y) = true := by
  have h1 := F64Round.isRound_self hx
  have h2 := F64Round.isRound_add hx hy
  apply F64Round.IsRound.mono h1 h2
  have : (0 : ℝ) ≤ ((F64Round.val y : ℚ) : ℝ) := by rw [valQ_cast]; exact h0
  have : (0 : ℚ) ≤ F64Round.val y := by exact_mod_cast this
  linarith

/-- a radius that passes `r ≤ 4` and is not `< 0` is a finite float in [0, 4] -/
theorem radius_fin {r : F64} (hv : F64.le r Chord.f4 = true) (hne : F64.lt r Chord.f0 = false) :
    Fin r ∧ 0 ≤ val r ∧ val r ≤ 4 := by
  have nr : F64Carrier.NN r := F64Carrier.nn_of_le_left hv
  have n0 : F64Carrier.NN Chord.f0 := F64Carrier.nn_of_fin val_f0.1
  have h0 : F64.le Chord.f0 r = true := by
    rw [F64Carrier.le_iff_key n0 nr]
    have : ¬ F64Carrier.key r < F64Carrier.key Chord.f0 := by
      rw [← F64Carrier.lt_iff_key nr n0, hne]; simp
    omega
  have hf : Fin r := F64Carrier.fin_of_between val_f0.1 val_f4.1 h0 hv
  refine ⟨hf, ?_, ?_⟩
  · have := (le_iff_val val_f0.1 hf).1 h0; rw [val_f0.2] at this; exact this
  · have := (le_iff_val hf val_f4.1).1 hv; rw [val_f4.2] at this; exact this

theorem sqrt_le_two {x : ℝ} (h : x ≤ 4) : Real.sqrt x ≤ 2 := by
  have : Real.sqrt x ≤ Real.sqrt 4 := Real.sqrt_le_sqrt h
  have h4 : Real.sqrt 4 = 2 := by
    rw [show (4 : ℝ) = 2 ^ 2 by norm_num, Real.sqrt_sq (by norm_num)]
  linarith

theorem alpha_small : 4 * eR ≤ 1 / 2 ^ 1000 := by
  unfold eR
  have h1 : (1 : ℝ) / 2 ^ 1075 ≤ 1 / 2 ^ 1002 := by norm_num
  have h2 : (4 : ℝ) * (1 / 2 ^ 1002) = 1 / 2 ^ 1000 := by norm_num
  linarith

theorem omega_small : 4 * Real.sqrt (4 * eR) ≤ 1 / 2 ^ 530 := by
  have h1 : Real.sqrt (4 * eR) ≤ Real.sqrt ((1 / 2 ^ 536) ^ 2) := by
    apply Real.sqrt_le_sqrt
    unfold eR; norm_num
  rw [Real.sqrt_sq (by positivity)] at h1
  have : (4 : ℝ) * (1 / 2 ^ 536) ≤ 1 / 2 ^ 530 := by norm_num
  linarith

/-- `ChordAngle.Expanded` on a non-special angle and a finite non-negative small allowance -/
theorem expanded_spec {d e : F64} (hd : Fin d) (hd0 : 0 ≤ val d) (hd4 : val d ≤ 4) (he : Fin e) (he0 : 0 ≤ val e) (he1 : val e ≤ 1) :
    Fin (Chord.expanded d e) ∧ 0 ≤ val (Chord.expanded d e) ∧ val (Chord.expanded d e) ≤ 4 ∧
    min 4 ((val d + val e) * (1 - uR)) ≤ val (Chord.expanded d e) ∧
    min 4 (val d) ≤ val (Chord.expanded d e) := by
  have hsp : Chord.isSpecial d = false := by
    unfold Chord.isSpecial Chord.isInfinity
    have h1 : F64.lt d Chord.f0 = false := by
      rw [Bool.eq_false_iff]; intro h
      have := (lt_iff_val hd val_f0.1).1 h
      rw [val_f0.2] at this; linarith
    rw [h1, isInf_false hd]; rfl
  unfold Chord.expanded
  rw [hsp]
  simp only [Bool.false_eq_true, if_false]
  have hb : |val d + val e| < 2 ^ 1000 := by
    rw [abs_of_nonneg (by linarith)]
    have : (5 : ℝ) < 2 ^ 1000 := by norm_num
    linarith
  obtain ⟨δ, hδ, hv, hf⟩ := add_std d e hd he hb
  have hδ' := abs_le.mp hδ
  have hsum0 : 0 ≤ val d + val e := by linarith
  have hlow : (val d + val e) * (1 - uR) ≤ val (F64.add d e) := by
    rw [hv]; apply mul_le_mul_of_nonneg_left _ hsum0; linarith
  have hmono : val d ≤ val (F64.add d e) := (le_iff_val hd hf).1 (le_add_right hd he he0)
  obtain ⟨f1, v1⟩ := val_fmin val_f4.1 hf
  obtain ⟨f2, v2⟩ := val_fmax val_f0.1 f1
  have e1 : val (F64.fmax Chord.f0 (F64.fmin Chord.f4 (d + e))) = max 0 (min 4 (val (F64.add d e))) := by
    show val (F64.fmax Chord.f0 (F64.fmin Chord.f4 (F64.add d e))) = _
    rw [v2, v1, val_f0.2, val_f4.2]
  refine ⟨f2, ?_, ?_, ?_, ?_⟩
  · rw [e1]; exact le_max_left _ _
  · rw [e1]; apply max_le (by norm_num) (min_le_left _ _)
  · rw [e1]; exact le_trans (min_le_min le_rfl hlow) (le_max_right _ _)
  · rw [e1]; exact le_trans (min_le_min le_rfl hmono) (le_max_right _ _)

/-! ### the core -/

/-- **core of `AddCap`**: for Normalize-grade `a` (this centre), `b` (other centre), `p` (probe) and a valid non-empty other radius `ro`,
    if the float test accepts `p` for `(b, ro)`, then the float chord from `a` to `p` is at most the expanded radius the code computes. -/
theorem addCap_core (a b p : V3) (ro : F64) (ha : NUnit a) (hb : NUnit b) (hp : NUnit p)
    (hro : Fin ro) (hro0 : 0 ≤ val ro) (hro4 : val ro ≤ 4)
    (hin : F64.le (Chord.between b p) ro = true) :
    Fin (Chord.expanded (Chord.add (Chord.between a b) ro) (Chord.addCapSlack (Chord.between a b) ro (Chord.add (Chord.between a b) ro))) ∧
    val (Chord.expanded (Chord.add (Chord.between a b) ro) (Chord.addCapSlack (Chord.between a b) ro (Chord.add (Chord.between a b) ro))) ≤ 4 ∧
    val (Chord.between a p) ≤
      val (Chord.expanded (Chord.add (Chord.between a b) ro) (Chord.addCapSlack (Chord.between a b) ro (Chord.add (Chord.between a b) ro))) := by
  obtain ⟨ca1, ca2, ca3⟩ := nunit_coord_le ha
  obtain ⟨cb1, cb2, cb3⟩ := nunit_coord_le hb
  obtain ⟨cp1, cp2, cp3⟩ := nunit_coord_le hp
  obtain ⟨fcd, cd0, cd4, _, cdL⟩ := between_spec a b ha.1 hb.1 ca1 ca2 ca3 cb1 cb2 cb3
  obtain ⟨fbp, bp0, bp4, _, bpL⟩ := between_spec b p hb.1 hp.1 cb1 cb2 cb3 cp1 cp2 cp3
  obtain ⟨fap, ap0, ap4, apU, _⟩ := between_spec a p ha.1 hp.1 ca1 ca2 ca3 cp1 cp2 cp3
  set cd := Chord.between a b with hcd
  have hinv : val (Chord.between b p) ≤ val ro := (le_iff_val fbp hro).1 hin
  obtain ⟨fd, d0, d4, dL⟩ := chordAdd_spec cd ro fcd hro cd0 cd4 hro0 hro4
  set d := Chord.add cd ro with hd
  obtain ⟨fs, s0, s1, sL⟩ := addCapSlack_spec cd ro d fcd hro fd cd0 cd4 hro0 hro4 d0 d4
  set sl := Chord.addCapSlack cd ro d with hsl
  obtain ⟨fe, e0, e4, eL, eM⟩ := expanded_spec fd d0 d4 fs s0 s1
  refine ⟨fe, e4, ?_⟩
  rcases dL with dL | dL
  · -- the computed sum is the straight angle
    rw [dL, min_self] at eM
    linarith
  · -- the general case: triangle inequality + budget
    have hα0 : (0 : ℝ) ≤ 4 * eR := by have := eR_nonneg; linarith
    have hα : 4 * eR ≤ 1 / 2 ^ 1000 := alpha_small
    have hab : val cd = 4 ∨ dist2 a b * (1 - uR) ^ 5 ≤ val cd + 4 * eR := cdL
    have hbp : val ro = 4 ∨ dist2 b p * (1 - uR) ^ 5 ≤ val ro + 4 * eR := by
      rcases bpL with h | h
      · left; linarith
      · right; linarith
    have tri := real_triangle_core (val a.x) (val a.y) (val a.z) (val b.x) (val b.y) (val b.z) (val p.x) (val p.y) (val p.z)
      (val cd) (val ro) (4 * eR) ha.2 hb.2 hp.2 cd0 cd4 hro0 hro4 hα0 hα hab hbp
    have hc0 := caddR_nonneg cd0 cd4 hro0 hro4
    have hc4 := caddR_le_four (val cd) (val ro)
    have hL2 : Real.sqrt (caddR (val cd) (val ro)) ^ 2 = caddR (val cd) (val ro) := Real.sq_sqrt hc0
    have hd2 : Real.sqrt (val d) ^ 2 = val d := Real.sq_sqrt d0
    have hC : val (Chord.between a p) ≤
        ((1 + NU * eps) * (Real.sqrt (caddR (val cd) (val ro)) + (7 / 2 + 1 / 50) * eps * (Real.sqrt (val cd) + Real.sqrt (val ro))
          + 4 * Real.sqrt (4 * eR)) ^ 2 + 21 * eps ^ 2) * (1 + uR) ^ 5 + 4 * eR := by
      have hp5 : (0 : ℝ) ≤ (1 + uR) ^ 5 := pow_nonneg (by linarith [uR_nonneg]) 5
      have := mul_le_mul_of_nonneg_right tri hp5
      unfold dist2 at apU
      linarith
    have key := budget (L := Real.sqrt (caddR (val cd) (val ro))) (l := Real.sqrt (val cd)) (m := Real.sqrt (val ro))
      (d := Real.sqrt (val d)) (C := val (Chord.between a p)) (sl := val sl) (eS := epsS) (ω := 4 * Real.sqrt (4 * eR))
      (Real.sqrt_nonneg _) (Real.sqrt_nonneg _)
      (Real.sqrt_le_sqrt (le_caddR_left cd0 cd4 hro0 hro4)) (Real.sqrt_le_sqrt (le_caddR_right cd0 cd4 hro0 hro4))
      (sqrt_le_two hc4) (Real.sqrt_nonneg _) (sqrt_le_two d4)
      (by rw [hL2, hd2]; exact dL) epsS_bounds.1
      (by have := Real.sqrt_nonneg (4 * eR); linarith) omega_small hC
      (by rw [hd2]; exact sL)
    rw [hd2] at key
    have : val (Chord.between a p) ≤ min 4 ((val d + val sl) * (1 - uR)) := le_min ap4 key
    linarith

/-! ### the triangle inequality of computed chords with an explicit allowance (for the tests WITHOUT slack) -/

/-- one leg: a point accepted by the float test `chord(b,p) ≤ T` is, in exact arithmetic, within `T` up to the rounding of the chord -/
theorem leg_of_le {b p : V3} {T : F64} (hb : NUnit b) (hp : NUnit p) (fT : Fin T) (hT4 : val T ≤ 4)
    (hin : F64.le (Chord.between b p) T = true) :
    val T = 4 ∨ dist2 b p * (1 - uR) ^ 5 ≤ val T + 4 * eR := by
  obtain ⟨cb1, cb2, cb3⟩ := nunit_coord_le hb
  obtain ⟨cp1, cp2, cp3⟩ := nunit_coord_le hp
  obtain ⟨fbp, _, _, _, bpL⟩ := between_spec b p hb.1 hp.1 cb1 cb2 cb3 cp1 cp2 cp3
  have hinv : val (Chord.between b p) ≤ val T := (le_iff_val fbp fT).1 hin
  rcases bpL with h | h
  · left; linarith
  · right; linarith

/-- the rounding-aware triangle inequality: the computed chord `a–p` against the EXACT chord sum of two upper bounds `S ≥ chord(a,b)`,
    `T ≥ chord(b,p)` (the legs are given in exact arithmetic, see `leg_of_le`) -/
theorem triangle_hC (a b p : V3) (S T : ℝ) (ha : NUnit a) (hb : NUnit b) (hp : NUnit p)
    (hS0 : 0 ≤ S) (hS4 : S ≤ 4) (hT0 : 0 ≤ T) (hT4 : T ≤ 4)
    (hab : S = 4 ∨ dist2 a b * (1 - uR) ^ 5 ≤ S + 4 * eR)
    (hbp : T = 4 ∨ dist2 b p * (1 - uR) ^ 5 ≤ T + 4 * eR) :
    val (Chord.between a p) ≤
        ((1 + NU * eps) * (Real.sqrt (caddR S T) + (7 / 2 + 1 / 50) * eps * (Real.sqrt S + Real.sqrt T)
          + 4 * Real.sqrt (4 * eR)) ^ 2 + 21 * eps ^ 2) * (1 + uR) ^ 5 + 4 * eR := by
  obtain ⟨ca1, ca2, ca3⟩ := nunit_coord_le ha
  obtain ⟨cp1, cp2, cp3⟩ := nunit_coord_le hp
  obtain ⟨_, _, _, apU, _⟩ := between_spec a p ha.1 hp.1 ca1 ca2 ca3 cp1 cp2 cp3
  have hα0 : (0 : ℝ) ≤ 4 * eR := by have := eR_nonneg; linarith
  have tri := real_triangle_core (val a.x) (val a.y) (val a.z) (val b.x) (val b.y) (val b.z) (val p.x) (val p.y) (val p.z)
    S T (4 * eR) ha.2 hb.2 hp.2 hS0 hS4 hT0 hT4 hα0 alpha_small hab hbp
  have hp5 : (0 : ℝ) ≤ (1 + uR) ^ 5 := pow_nonneg (by linarith [uR_nonneg]) 5
  have := mul_le_mul_of_nonneg_right tri hp5
  unfold dist2 at apU
  linarith

/-- **triangle inequality of the float chords up to an explicit allowance**: for Normalize-grade `a, b, p` and float bounds `S, T ∈ [0,4]`
    of the two legs, `chord(a,p) ≤ S.Add(T)·(1 + 25·2^-52) + 22·2^-104` (everything computed in binary64 except the final comparison). -/
theorem triangle_f64 (a b p : V3) (S T : F64) (ha : NUnit a) (hb : NUnit b) (hp : NUnit p)
    (fS : Fin S) (hS0 : 0 ≤ val S) (hS4 : val S ≤ 4) (fT : Fin T) (hT0 : 0 ≤ val T) (hT4 : val T ≤ 4)
    (hab : val S = 4 ∨ dist2 a b * (1 - uR) ^ 5 ≤ val S + 4 * eR)
    (hbp : val T = 4 ∨ dist2 b p * (1 - uR) ^ 5 ≤ val T + 4 * eR) :
    val (Chord.between a p) ≤ val (Chord.add S T) * (1 + 25 * eps) + 22 * eps ^ 2 := by
  obtain ⟨ca1, ca2, ca3⟩ := nunit_coord_le ha
  obtain ⟨cp1, cp2, cp3⟩ := nunit_coord_le hp
  obtain ⟨_, _, ap4, _, _⟩ := between_spec a p ha.1 hp.1 ca1 ca2 ca3 cp1 cp2 cp3
  obtain ⟨fd, d0, d4, dL⟩ := chordAdd_spec S T fS fT hS0 hS4 hT0 hT4
  have he0 := eps_pos
  rcases dL with dL | dL
  · rw [dL]
    have : (0 : ℝ) ≤ 4 * (25 * eps) + 22 * eps ^ 2 := by positivity
    linarith
  · have hC := triangle_hC a b p (val S) (val T) ha hb hp hS0 hS4 hT0 hT4 hab hbp
    have hc0 := caddR_nonneg hS0 hS4 hT0 hT4
    have hc4 := caddR_le_four (val S) (val T)
    have hL2 : Real.sqrt (caddR (val S) (val T)) ^ 2 = caddR (val S) (val T) := Real.sq_sqrt hc0
    have hd2 : Real.sqrt (val (Chord.add S T)) ^ 2 = val (Chord.add S T) := Real.sq_sqrt d0
    have key := allowance (L := Real.sqrt (caddR (val S) (val T))) (l := Real.sqrt (val S)) (m := Real.sqrt (val T))
      (d := Real.sqrt (val (Chord.add S T))) (C := val (Chord.between a p)) (ω := 4 * Real.sqrt (4 * eR))
      (Real.sqrt_nonneg _) (Real.sqrt_nonneg _)
      (Real.sqrt_le_sqrt (le_caddR_left hS0 hS4 hT0 hT4)) (Real.sqrt_le_sqrt (le_caddR_right hS0 hS4 hT0 hT4))
      (sqrt_le_two hc4) (Real.sqrt_nonneg _) (sqrt_le_two d4)
      (by rw [hL2, hd2]; exact dL)
      (by have := Real.sqrt_nonneg (4 * eR); linarith) omega_small hC
    rw [hd2] at key
    exact key

end S2Proofs.CapF64
