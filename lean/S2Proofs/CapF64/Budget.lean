/-
  S2Proofs.CapF64.Budget — the error budget of `Cap.AddCap` as ONE inequality between real numbers.

  `L = √(exact chord sum)`, `l = √centerDist`, `m = √other.radius`, `d = √(computed chord sum)`;
  `C` = computed chord from the centre to the probe, `sl` = the computed allowance.  With
      C  ≤ [(1+NU·ε)(L + 3.52ε(l+m) + ω)² + 21ε²](1+u)^5 + 4·2^-1075,  NU = 289/64   (triangle inequality + roundings)
      sl ≥ 1.5(1−u)^16 [2dδ + δ² + (4.5ε_s + 3ε)d² + 16ε_s²] − 2^-500,  δ = 2.25ε(l+m)    (the code's allowance)
      L²(1−u)^6 − 2^-500 ≤ d²                                                       (rounding of `ChordAngle.Add`)
  the expanded radius `(d² + sl)(1−u)` (one more rounding for the final addition) is at least `C`.
  First-order count (units of ε·d², ε·d(l+m), ε²): needed 10.02 / 7.04 / 21, available 10.75 / 6.75 / 24; the excess 0.29 of the cross
  term is paid by the d² term through d(l+m) ≤ 2d² (+0.58), total 10.6 ≤ 10.75.  (For the grade 4 instead of NU: 9.5 / 6.52 / 16.)
-/
import Mathlib.Tactic.Ring
import Mathlib.Tactic.Linarith
import Mathlib.Tactic.Positivity
import Mathlib.Tactic.NormNum
import S2Proofs.CapF64.Defs

namespace S2Proofs.CapF64
open S2Proofs.FloatErr

set_option exponentiation.threshold 3000

/-- first half of the budget: an upper bound of the computed chord `C` in terms of `d = √(computed sum)` alone
    (all constants abstract) -/
theorem upper_aux {u e θ w ρ γ t530 t1075 t500 P5 K3 K6 nu ab : ℝ}
    (hnu : 0 ≤ nu) (hP5 : 0 ≤ P5) (hK36 : K3 ^ 2 = K6)
    (hu0 : 0 < u) (hu1 : u < 1 / 100) (he0 : 0 < e) (hθ0 : 0 < θ) (hw0 : 0 < w)
    (hρ0 : 0 < ρ) (hρ1 : ρ ≤ 1 / 100) (hww : w ^ 2 = t500)
    (hθk : 1 ≤ K3 * θ) (hγ : γ = (1 + nu * e) * P5)
    {L l m d C ω : ℝ}
    (hl0 : 0 ≤ l) (hm0 : 0 ≤ m) (hlL : l ≤ L) (hmL : m ≤ L) (hL2 : L ≤ 2) (hd0 : 0 ≤ d) (hd2 : d ≤ 2)
    (hLd : L ^ 2 * K6 - t500 ≤ d ^ 2)
    (hω0 : 0 ≤ ω) (hω : ω ≤ t530) (hω1 : t530 ≤ 1)
    (hC : C ≤ ((1 + nu * e) * (L + ρ * (l + m) + ω) ^ 2 + ab) * P5 + 4 * t1075) :
    L ≤ (d + w) * θ ∧
    C ≤ γ * (θ ^ 2 * d ^ 2 + θ ^ 2 * (4 * w + w ^ 2)
        + (2 * ρ + 2 * ρ ^ 2) * (θ * (d * (l + m)) + 4 * θ * w) + 6 * t530)
      + ab * P5 + 4 * t1075 := by
  have hL0 : 0 ≤ L := le_trans hl0 hlL
  have hs0 : 0 ≤ l + m := by linarith
  have hs2L : l + m ≤ 2 * L := by linarith
  have h1u : 0 ≤ 1 - u := by linarith
  -- L (1-u)^3 ≤ d + w
  have h1 : L * K3 ≤ d + w := by
    by_contra hc
    have hc' : d + w < L * K3 := not_le.mp hc
    have hdw : 0 ≤ d + w := by linarith
    have h3 : (d + w) ^ 2 < (L * K3) ^ 2 := pow_lt_pow_left₀ hc' hdw (by norm_num)
    have e1 : (L * K3) ^ 2 = L ^ 2 * K6 := by rw [← hK36]; ring
    have h2dw : 0 ≤ 2 * d * w := by positivity
    have e3 : (d + w) ^ 2 = d ^ 2 + 2 * d * w + w ^ 2 := by ring
    rw [e1, e3, hww] at h3
    linarith
  have h2 : L ≤ (d + w) * θ := by
    have a1 : L * (K3 * θ) ≤ (d + w) * θ := by
      have := mul_le_mul_of_nonneg_right h1 hθ0.le
      linarith [this, mul_assoc L (K3) θ]
    have a2 : L * 1 ≤ L * (K3 * θ) := mul_le_mul_of_nonneg_left hθk hL0
    linarith
  -- atoms
  have hX0 : 0 ≤ d ^ 2 := by positivity
  have hY0 : 0 ≤ d * (l + m) := by positivity
  have hθsq : 0 ≤ θ ^ 2 := by positivity
  -- L² ≤ θ² d² + θ² (4w + w²)
  have hLL : L ^ 2 ≤ θ ^ 2 * d ^ 2 + θ ^ 2 * (4 * w + w ^ 2) := by
    have a1 : L ^ 2 ≤ ((d + w) * θ) ^ 2 := pow_le_pow_left₀ hL0 h2 2
    have e2 : ((d + w) * θ) ^ 2 = θ ^ 2 * d ^ 2 + θ ^ 2 * (2 * d * w + w ^ 2) := by ring
    have a2 : 2 * d * w + w ^ 2 ≤ 4 * w + w ^ 2 := by
      have := mul_le_mul_of_nonneg_right (show 2 * d ≤ 4 by linarith) hw0.le
      linarith
    have a3 := mul_le_mul_of_nonneg_left a2 hθsq
    linarith
  -- L (l+m) ≤ θ d (l+m) + 4 θ w
  have hLs : L * (l + m) ≤ θ * (d * (l + m)) + 4 * θ * w := by
    have a1 : L * (l + m) ≤ (d + w) * θ * (l + m) := mul_le_mul_of_nonneg_right h2 hs0
    have a2 : w * (l + m) ≤ w * 4 := mul_le_mul_of_nonneg_left (by linarith) hw0.le
    have a3 := mul_le_mul_of_nonneg_left a2 hθ0.le
    have e4 : (d + w) * θ * (l + m) = θ * (d * (l + m)) + θ * (w * (l + m)) := by ring
    linarith
  -- the square
  have hsq : (L + ρ * (l + m) + ω) ^ 2 ≤ L ^ 2 + (2 * ρ + 2 * ρ ^ 2) * (L * (l + m)) + 6 * ω := by
    have a1 : (l + m) ^ 2 ≤ 2 * (L * (l + m)) := by
      have := mul_le_mul_of_nonneg_right hs2L hs0
      have e0 : (l + m) ^ 2 = (l + m) * (l + m) := by ring
      rw [e0]; linarith
    have hω1' : ω ≤ 1 := by linarith
    have a2 : ω ^ 2 ≤ ω := by
      have := mul_le_mul_of_nonneg_left hω1' hω0
      have e0 : ω ^ 2 = ω * ω := by ring
      rw [e0]; linarith
    have a3 : L + ρ * (l + m) ≤ 5 / 2 := by
      have := mul_le_mul hρ1 (show l + m ≤ 4 by linarith) hs0 (by norm_num : (0:ℝ) ≤ 1 / 100)
      linarith
    have a4 : 2 * ω * (L + ρ * (l + m)) ≤ 5 * ω := by
      have := mul_le_mul_of_nonneg_left a3 (show 0 ≤ 2 * ω by linarith)
      linarith
    have a5 : 0 ≤ ρ ^ 2 := by positivity
    have a6 := mul_le_mul_of_nonneg_left a1 a5
    have e5 : (L + ρ * (l + m) + ω) ^ 2
        = L ^ 2 + 2 * ρ * (L * (l + m)) + ρ ^ 2 * (l + m) ^ 2 + 2 * ω * (L + ρ * (l + m)) + ω ^ 2 := by ring
    rw [e5]
    linarith
  -- combine
  have hγ0 : 0 ≤ γ := by rw [hγ]; positivity
  have hp5 : 0 ≤ P5 := hP5
  have h4e : 0 ≤ 1 + nu * e := by positivity
  have hC2 : C ≤ γ * (L ^ 2 + (2 * ρ + 2 * ρ ^ 2) * (L * (l + m)) + 6 * ω) + ab * P5
      + 4 * t1075 := by
    have a1 := mul_le_mul_of_nonneg_left hsq h4e
    have a2 := mul_le_mul_of_nonneg_right a1 hp5
    have e6 : ((1 + nu * e) * (L + ρ * (l + m) + ω) ^ 2 + ab) * P5
        = (1 + nu * e) * (L + ρ * (l + m) + ω) ^ 2 * P5 + ab * P5 := by ring
    have e7 : γ * (L ^ 2 + (2 * ρ + 2 * ρ ^ 2) * (L * (l + m)) + 6 * ω)
        = (1 + nu * e) * (L ^ 2 + (2 * ρ + 2 * ρ ^ 2) * (L * (l + m)) + 6 * ω) * P5 := by rw [hγ]; ring
    rw [e6] at hC
    rw [e7]
    linarith
  have hcoef : 0 ≤ 2 * ρ + 2 * ρ ^ 2 := by positivity
  have hC3 : C ≤ γ * (θ ^ 2 * d ^ 2 + θ ^ 2 * (4 * w + w ^ 2)
        + (2 * ρ + 2 * ρ ^ 2) * (θ * (d * (l + m)) + 4 * θ * w) + 6 * t530)
      + ab * P5 + 4 * t1075 := by
    have a1 := mul_le_mul_of_nonneg_left hLs hcoef
    have a2 : L ^ 2 + (2 * ρ + 2 * ρ ^ 2) * (L * (l + m)) + 6 * ω ≤
        θ ^ 2 * d ^ 2 + θ ^ 2 * (4 * w + w ^ 2) + (2 * ρ + 2 * ρ ^ 2) * (θ * (d * (l + m)) + 4 * θ * w) + 6 * t530 := by
      linarith
    have := mul_le_mul_of_nonneg_left a2 hγ0
    linarith
  exact ⟨h2, hC3⟩

/-- the budget with all constants abstract: the three coefficient comparisons `cX`, `cY`, `c0` are hypotheses -/
theorem budget_aux {u e θ w ρ e' γ t530 t1075 t500 K16 P5 K3 K6 nu ab : ℝ}
    (hnu : 0 ≤ nu) (hab : 0 ≤ ab) (hK16 : 0 ≤ K16) (hP5 : 0 ≤ P5) (hK3 : 0 ≤ K3) (hK36 : K3 ^ 2 = K6)
    (hu0 : 0 < u) (hu1 : u < 1 / 100) (he0 : 0 < e) (hθ0 : 0 < θ) (hθ2 : θ ≤ 11 / 10) (hw0 : 0 < w) (hw1 : w ≤ 1)
    (hρ0 : 0 < ρ) (hρ1 : ρ ≤ 1 / 100) (he'0 : 0 ≤ e') (hww : w ^ 2 = t500) (h530 : t530 ≤ w) (h1075 : t1075 ≤ w)
    (h500 : t500 ≤ w) (h530' : 0 ≤ t530)
    (hθk : 1 ≤ K3 * θ) (hγ : γ = (1 + nu * e) * P5) (hγ2 : γ ≤ 11 / 10)
    (cX : γ * θ ^ 2 + (γ * (2 * ρ + 2 * ρ ^ 2) * θ - (1 - u) * (3 / 2 * K16 * (2 * (9 / 4 * e)))) * (2 * θ)
            ≤ (1 - u) * (1 + 3 / 2 * K16 * (9 / 2 * e' + 3 * e)))
    (cY0 : (1 - u) * (3 / 2 * K16 * (2 * (9 / 4 * e))) ≤ γ * (2 * ρ + 2 * ρ ^ 2) * θ)
    (cY1 : γ * (2 * ρ + 2 * ρ ^ 2) * θ - (1 - u) * (3 / 2 * K16 * (2 * (9 / 4 * e))) ≤ 1)
    (c0 : 200 * w + ab * P5 ≤ (1 - u) * (3 / 2 * K16 * (16 * e' ^ 2) - w))
    {L l m d C sl eS ω : ℝ}
    (hl0 : 0 ≤ l) (hm0 : 0 ≤ m) (hlL : l ≤ L) (hmL : m ≤ L) (hL2 : L ≤ 2) (hd0 : 0 ≤ d) (hd2 : d ≤ 2)
    (hLd : L ^ 2 * K6 - t500 ≤ d ^ 2)
    (heS : e' ≤ eS)
    (hω0 : 0 ≤ ω) (hω : ω ≤ t530)
    (hC : C ≤ ((1 + nu * e) * (L + ρ * (l + m) + ω) ^ 2 + ab) * P5 + 4 * t1075)
    (hsl : 3 / 2 * K16 *
        (2 * d * (9 / 4 * e * (l + m)) + (9 / 4 * e * (l + m)) ^ 2 + (9 / 2 * eS + 3 * e) * d ^ 2 + 16 * eS ^ 2)
          - t500 ≤ sl) :
    C ≤ (d ^ 2 + sl) * (1 - u) := by
  obtain ⟨h2, hC3⟩ := upper_aux hnu hP5 hK36 hu0 hu1 he0 hθ0 hw0 hρ0 hρ1 hww hθk hγ hl0 hm0 hlL hmL hL2 hd0 hd2 hLd hω0 hω
    (by linarith) hC
  have hL0 : 0 ≤ L := le_trans hl0 hlL
  have hs0 : 0 ≤ l + m := by linarith
  have h1u : 0 ≤ 1 - u := by linarith
  have hX0 : 0 ≤ d ^ 2 := by positivity
  have hY0 : 0 ≤ d * (l + m) := by positivity
  have hγ0 : 0 ≤ γ := by rw [hγ]; positivity
  -- lower bound of the allowance with eS replaced by e'
  have hk16 : 0 ≤ 3 / 2 * K16 := by positivity
  have hsl' : 3 / 2 * K16 * (2 * (9 / 4 * e) * (d * (l + m)) + (9 / 2 * e' + 3 * e) * d ^ 2 + 16 * e' ^ 2)
      - t500 ≤ sl := by
    have b1 : 16 * e' ^ 2 ≤ 16 * eS ^ 2 := by
      have : e' ^ 2 ≤ eS ^ 2 := pow_le_pow_left₀ he'0 heS 2
      linarith
    have b2 : (9 / 2 * e' + 3 * e) * d ^ 2 ≤ (9 / 2 * eS + 3 * e) * d ^ 2 :=
      mul_le_mul_of_nonneg_right (by linarith) hX0
    have b3 : 0 ≤ (9 / 4 * e * (l + m)) ^ 2 := by positivity
    have b4 : 2 * (9 / 4 * e) * (d * (l + m)) = 2 * d * (9 / 4 * e * (l + m)) := by ring
    have b5 : 2 * (9 / 4 * e) * (d * (l + m)) + (9 / 2 * e' + 3 * e) * d ^ 2 + 16 * e' ^ 2 ≤
        2 * d * (9 / 4 * e * (l + m)) + (9 / 4 * e * (l + m)) ^ 2 + (9 / 2 * eS + 3 * e) * d ^ 2 + 16 * eS ^ 2 := by
      linarith
    have := mul_le_mul_of_nonneg_left b5 hk16
    linarith
  -- the junk
  have hjunk : γ * (θ ^ 2 * (4 * w + w ^ 2) + (2 * ρ + 2 * ρ ^ 2) * (4 * θ * w) + 6 * t530) + 4 * t1075 ≤ 100 * w := by
    have j1 : θ ^ 2 ≤ 2 := by
      have := mul_le_mul hθ2 hθ2 hθ0.le (by norm_num : (0:ℝ) ≤ 11 / 10)
      have e0 : θ ^ 2 = θ * θ := by ring
      rw [e0]; linarith
    have j2 : w ^ 2 ≤ w := by
      have := mul_le_mul_of_nonneg_left hw1 hw0.le
      have e0 : w ^ 2 = w * w := by ring
      rw [e0]; linarith
    have j3 : θ ^ 2 * (4 * w + w ^ 2) ≤ 2 * (5 * w) := by
      have a1 : 4 * w + w ^ 2 ≤ 5 * w := by linarith
      have := mul_le_mul j1 a1 (by positivity) (by norm_num : (0:ℝ) ≤ 2)
      linarith
    have j4 : (2 * ρ + 2 * ρ ^ 2) * (4 * θ * w) ≤ 1 * (5 * w) := by
      have a1 : 2 * ρ + 2 * ρ ^ 2 ≤ 1 := by
        have := mul_le_mul hρ1 hρ1 hρ0.le (by norm_num : (0:ℝ) ≤ 1 / 100)
        have e0 : ρ ^ 2 = ρ * ρ := by ring
        rw [e0]; linarith
      have a2 : 4 * θ * w ≤ 5 * w := by
        have := mul_le_mul_of_nonneg_right (show 4 * θ ≤ 5 by linarith) hw0.le
        linarith
      exact mul_le_mul a1 a2 (by positivity) (by norm_num)
    have j5 : θ ^ 2 * (4 * w + w ^ 2) + (2 * ρ + 2 * ρ ^ 2) * (4 * θ * w) + 6 * t530 ≤ 21 * w := by linarith
    have j6 : 0 ≤ θ ^ 2 * (4 * w + w ^ 2) + (2 * ρ + 2 * ρ ^ 2) * (4 * θ * w) + 6 * t530 := by positivity
    have := mul_le_mul hγ2 j5 j6 (by norm_num : (0:ℝ) ≤ 11 / 10)
    linarith
  -- the excess of the cross coefficient is paid by the d² coefficient: d (l+m) ≤ 2θ d² + 4θ w
  have hdl : d * (l + m) ≤ 2 * θ * d ^ 2 + 4 * θ * w := by
    have a1 : l + m ≤ 2 * ((d + w) * θ) := by linarith
    have a2 := mul_le_mul_of_nonneg_left a1 hd0
    have a3 : d * w ≤ 2 * w := mul_le_mul_of_nonneg_right hd2 hw0.le
    have a4 := mul_le_mul_of_nonneg_left a3 (show 0 ≤ 2 * θ by linarith)
    have e1 : d * (2 * ((d + w) * θ)) = 2 * θ * d ^ 2 + 2 * θ * (d * w) := by ring
    linarith
  have hex0 : 0 ≤ γ * (2 * ρ + 2 * ρ ^ 2) * θ - (1 - u) * (3 / 2 * K16 * (2 * (9 / 4 * e))) := by linarith
  have m1 := mul_le_mul_of_nonneg_left hdl hex0
  have m2 : (γ * (2 * ρ + 2 * ρ ^ 2) * θ - (1 - u) * (3 / 2 * K16 * (2 * (9 / 4 * e)))) * (4 * θ * w) ≤ 1 * (5 * w) := by
    have a2 : 4 * θ * w ≤ 5 * w := by
      have := mul_le_mul_of_nonneg_right (show 4 * θ ≤ 5 by linarith) hw0.le
      linarith
    exact mul_le_mul cY1 a2 (by positivity) (by norm_num)
  have tX := mul_le_mul_of_nonneg_right cX hX0
  have hR : (d ^ 2 + (3 / 2 * K16 * (2 * (9 / 4 * e) * (d * (l + m)) + (9 / 2 * e' + 3 * e) * d ^ 2 + 16 * e' ^ 2)
      - t500)) * (1 - u) ≤ (d ^ 2 + sl) * (1 - u) := by
    apply mul_le_mul_of_nonneg_right _ h1u
    linarith
  -- everything is linear in the atoms d², d(l+m)
  have e5 : γ * (θ ^ 2 * d ^ 2 + θ ^ 2 * (4 * w + w ^ 2)
        + (2 * ρ + 2 * ρ ^ 2) * (θ * (d * (l + m)) + 4 * θ * w) + 6 * t530)
      = γ * θ ^ 2 * d ^ 2 + γ * (2 * ρ + 2 * ρ ^ 2) * θ * (d * (l + m))
        + γ * (θ ^ 2 * (4 * w + w ^ 2) + (2 * ρ + 2 * ρ ^ 2) * (4 * θ * w) + 6 * t530) := by ring
  have e6 : (d ^ 2 + (3 / 2 * K16 * (2 * (9 / 4 * e) * (d * (l + m)) + (9 / 2 * e' + 3 * e) * d ^ 2 + 16 * e' ^ 2)
      - t500)) * (1 - u)
      = (1 - u) * (1 + 3 / 2 * K16 * (9 / 2 * e' + 3 * e)) * d ^ 2
        + (1 - u) * (3 / 2 * K16 * (2 * (9 / 4 * e))) * (d * (l + m))
        + (1 - u) * (3 / 2 * K16 * (16 * e' ^ 2) - t500) := by ring
  have e7 : (1 - u) * (3 / 2 * K16 * (16 * e' ^ 2) - w) ≤
      (1 - u) * (3 / 2 * K16 * (16 * e' ^ 2) - t500) := by
    apply mul_le_mul_of_nonneg_left _ h1u
    linarith
  have e8 : (γ * (2 * ρ + 2 * ρ ^ 2) * θ - (1 - u) * (3 / 2 * K16 * (2 * (9 / 4 * e)))) * (d * (l + m))
      = γ * (2 * ρ + 2 * ρ ^ 2) * θ * (d * (l + m)) - (1 - u) * (3 / 2 * K16 * (2 * (9 / 4 * e))) * (d * (l + m)) := by ring
  have e9 : (γ * (2 * ρ + 2 * ρ ^ 2) * θ - (1 - u) * (3 / 2 * K16 * (2 * (9 / 4 * e)))) * (2 * θ * d ^ 2 + 4 * θ * w)
      = (γ * (2 * ρ + 2 * ρ ^ 2) * θ - (1 - u) * (3 / 2 * K16 * (2 * (9 / 4 * e)))) * (2 * θ) * d ^ 2
        + (γ * (2 * ρ + 2 * ρ ^ 2) * θ - (1 - u) * (3 / 2 * K16 * (2 * (9 / 4 * e)))) * (4 * θ * w) := by ring
  have e10 : (γ * θ ^ 2 + (γ * (2 * ρ + 2 * ρ ^ 2) * θ - (1 - u) * (3 / 2 * K16 * (2 * (9 / 4 * e)))) * (2 * θ)) * d ^ 2
      = γ * θ ^ 2 * d ^ 2
        + (γ * (2 * ρ + 2 * ρ ^ 2) * θ - (1 - u) * (3 / 2 * K16 * (2 * (9 / 4 * e)))) * (2 * θ) * d ^ 2 := by ring
  rw [e5] at hC3
  rw [e6] at hR
  rw [e8, e9] at m1
  rw [e10] at tX
  linarith [hC3, hR, tX, m1, m2, c0, hjunk, e7]

/-- the needed allowance in closed form: `C ≤ d²(1 + 25ε) + 22ε²` (all constants abstract) -/
theorem allowance_aux {u e θ w ρ γ t530 t1075 t500 P5 K3 K6 nu ab : ℝ}
    (hnu : 0 ≤ nu) (hab : 0 ≤ ab) (hP5 : 0 ≤ P5) (hK36 : K3 ^ 2 = K6)
    (hu0 : 0 < u) (hu1 : u < 1 / 100) (he0 : 0 < e) (hθ0 : 0 < θ) (hθ2 : θ ≤ 11 / 10) (hw0 : 0 < w) (hw1 : w ≤ 1)
    (hρ0 : 0 < ρ) (hρ1 : ρ ≤ 1 / 100) (hww : w ^ 2 = t500) (h530 : t530 ≤ w) (h1075 : t1075 ≤ w) (h530' : 0 ≤ t530)
    (hθk : 1 ≤ K3 * θ) (hγ : γ = (1 + nu * e) * P5) (hγ2 : γ ≤ 11 / 10)
    (cA : γ * θ ^ 2 * (1 + 2 * (2 * ρ + 2 * ρ ^ 2)) ≤ 1 + 25 * e)
    (cB : 200 * w + ab * P5 ≤ 22 * e ^ 2)
    {L l m d C ω : ℝ}
    (hl0 : 0 ≤ l) (hm0 : 0 ≤ m) (hlL : l ≤ L) (hmL : m ≤ L) (hL2 : L ≤ 2) (hd0 : 0 ≤ d) (hd2 : d ≤ 2)
    (hLd : L ^ 2 * K6 - t500 ≤ d ^ 2)
    (hω0 : 0 ≤ ω) (hω : ω ≤ t530)
    (hC : C ≤ ((1 + nu * e) * (L + ρ * (l + m) + ω) ^ 2 + ab) * P5 + 4 * t1075) :
    C ≤ d ^ 2 * (1 + 25 * e) + 22 * e ^ 2 := by
  obtain ⟨h2, hC3⟩ := upper_aux hnu hP5 hK36 hu0 hu1 he0 hθ0 hw0 hρ0 hρ1 hww hθk hγ hl0 hm0 hlL hmL hL2 hd0 hd2 hLd hω0 hω
    (by linarith) hC
  have hL0 : 0 ≤ L := le_trans hl0 hlL
  have hs0 : 0 ≤ l + m := by linarith
  have hX0 : 0 ≤ d ^ 2 := by positivity
  have hγ0 : 0 ≤ γ := by rw [hγ]; positivity
  have hcoef : 0 ≤ 2 * ρ + 2 * ρ ^ 2 := by positivity
  -- d (l+m) ≤ 2θ d² + 4θ w
  have hdl : d * (l + m) ≤ 2 * θ * d ^ 2 + 4 * θ * w := by
    have a1 : l + m ≤ 2 * ((d + w) * θ) := by linarith
    have a2 := mul_le_mul_of_nonneg_left a1 hd0
    have a3 : d * w ≤ 2 * w := mul_le_mul_of_nonneg_right hd2 hw0.le
    have a4 := mul_le_mul_of_nonneg_left a3 (show 0 ≤ 2 * θ by linarith)
    have e1 : d * (2 * ((d + w) * θ)) = 2 * θ * d ^ 2 + 2 * θ * (d * w) := by ring
    linarith
  -- small facts
  have j1 : θ ^ 2 ≤ 2 := by
    have := mul_le_mul hθ2 hθ2 hθ0.le (by norm_num : (0:ℝ) ≤ 11 / 10)
    have e0 : θ ^ 2 = θ * θ := by ring
    rw [e0]; linarith
  have j2 : w ^ 2 ≤ w := by
    have := mul_le_mul_of_nonneg_left hw1 hw0.le
    have e0 : w ^ 2 = w * w := by ring
    rw [e0]; linarith
  have j3 : 2 * ρ + 2 * ρ ^ 2 ≤ 1 := by
    have := mul_le_mul hρ1 hρ1 hρ0.le (by norm_num : (0:ℝ) ≤ 1 / 100)
    have e0 : ρ ^ 2 = ρ * ρ := by ring
    rw [e0]; linarith
  -- the junk: everything that carries a factor w
  have hjunk : γ * (θ ^ 2 * (4 * w + w ^ 2) + (2 * ρ + 2 * ρ ^ 2) * (θ * (4 * θ * w) + 4 * θ * w) + 6 * t530) + 4 * t1075
      ≤ 200 * w := by
    have k1 : θ ^ 2 * (4 * w + w ^ 2) ≤ 2 * (5 * w) := by
      have a1 : 4 * w + w ^ 2 ≤ 5 * w := by linarith
      have := mul_le_mul j1 a1 (by positivity) (by norm_num : (0:ℝ) ≤ 2)
      linarith
    have k2 : θ * (4 * θ * w) + 4 * θ * w ≤ 13 * w := by
      have b1 : θ * (4 * θ * w) = 4 * θ ^ 2 * w := by ring
      have b2 : 4 * θ ^ 2 * w ≤ 8 * w := by
        have := mul_le_mul_of_nonneg_right (show 4 * θ ^ 2 ≤ 8 by linarith) hw0.le
        linarith
      have b3 : 4 * θ * w ≤ 5 * w := by
        have := mul_le_mul_of_nonneg_right (show 4 * θ ≤ 5 by linarith) hw0.le
        linarith
      linarith
    have k3 : (2 * ρ + 2 * ρ ^ 2) * (θ * (4 * θ * w) + 4 * θ * w) ≤ 1 * (13 * w) :=
      mul_le_mul j3 k2 (by positivity) (by norm_num)
    have k5 : θ ^ 2 * (4 * w + w ^ 2) + (2 * ρ + 2 * ρ ^ 2) * (θ * (4 * θ * w) + 4 * θ * w) + 6 * t530 ≤ 29 * w := by linarith
    have k6 : 0 ≤ θ ^ 2 * (4 * w + w ^ 2) + (2 * ρ + 2 * ρ ^ 2) * (θ * (4 * θ * w) + 4 * θ * w) + 6 * t530 := by positivity
    have := mul_le_mul hγ2 k5 k6 (by norm_num : (0:ℝ) ≤ 11 / 10)
    linarith
  -- replace d(l+m)
  have hg : 0 ≤ γ * (2 * ρ + 2 * ρ ^ 2) * θ := by positivity
  have m1 := mul_le_mul_of_nonneg_left hdl hg
  have tA := mul_le_mul_of_nonneg_right cA hX0
  have e5 : γ * (θ ^ 2 * d ^ 2 + θ ^ 2 * (4 * w + w ^ 2)
        + (2 * ρ + 2 * ρ ^ 2) * (θ * (d * (l + m)) + 4 * θ * w) + 6 * t530)
      = γ * θ ^ 2 * d ^ 2 + γ * (2 * ρ + 2 * ρ ^ 2) * θ * (d * (l + m))
        + γ * (θ ^ 2 * (4 * w + w ^ 2) + (2 * ρ + 2 * ρ ^ 2) * (4 * θ * w) + 6 * t530) := by ring
  have e6 : γ * (2 * ρ + 2 * ρ ^ 2) * θ * (2 * θ * d ^ 2 + 4 * θ * w)
      = γ * θ ^ 2 * (2 * (2 * ρ + 2 * ρ ^ 2)) * d ^ 2 + γ * ((2 * ρ + 2 * ρ ^ 2) * (θ * (4 * θ * w))) := by ring
  have e7 : γ * (θ ^ 2 * (4 * w + w ^ 2) + (2 * ρ + 2 * ρ ^ 2) * (θ * (4 * θ * w) + 4 * θ * w) + 6 * t530)
      = γ * (θ ^ 2 * (4 * w + w ^ 2) + (2 * ρ + 2 * ρ ^ 2) * (4 * θ * w) + 6 * t530)
        + γ * ((2 * ρ + 2 * ρ ^ 2) * (θ * (4 * θ * w))) := by ring
  have e8 : γ * θ ^ 2 * (1 + 2 * (2 * ρ + 2 * ρ ^ 2)) * d ^ 2
      = γ * θ ^ 2 * d ^ 2 + γ * θ ^ 2 * (2 * (2 * ρ + 2 * ρ ^ 2)) * d ^ 2 := by ring
  rw [e5] at hC3
  rw [e6] at m1
  rw [e7] at hjunk
  rw [e8] at tA
  have e9 : (1 + 25 * e) * d ^ 2 = d ^ 2 * (1 + 25 * e) := by ring
  linarith [hC3, m1, hjunk, tA, cB]

/-! ### the numerals (`u = 2^-53`, `e = 2^-52`, `nu = 289/64`, `ρ = (7/2+1/50)e`, `θ = 1+3u+10u²`, `w = 2^-250`, `ab = 21e²`) -/

theorem budget_cX :
    (1 + 289 / 64 * (1 / 2 ^ 52 : ℝ)) * (1 + 1 / 2 ^ 53) ^ 5 * (1 + 3 / 2 ^ 53 + 10 / 2 ^ 106) ^ 2
      + ((1 + 289 / 64 * (1 / 2 ^ 52 : ℝ)) * (1 + 1 / 2 ^ 53) ^ 5 *
          (2 * ((7 / 2 + 1 / 50) * (1 / 2 ^ 52)) + 2 * ((7 / 2 + 1 / 50) * (1 / 2 ^ 52)) ^ 2) * (1 + 3 / 2 ^ 53 + 10 / 2 ^ 106)
          - (1 - 1 / 2 ^ 53) * (3 / 2 * (1 - 1 / 2 ^ 53) ^ 16 * (2 * (9 / 4 * (1 / 2 ^ 52))))) * (2 * (1 + 3 / 2 ^ 53 + 10 / 2 ^ 106)) ≤
      (1 - 1 / 2 ^ 53) * (1 + 3 / 2 * (1 - 1 / 2 ^ 53) ^ 16 * (9 / 2 * (1 / 2 ^ 52 * (1 - 1 / 2 ^ 30)) + 3 * (1 / 2 ^ 52))) := by
  norm_num

theorem budget_cY0 :
    (1 - 1 / 2 ^ 53) * (3 / 2 * (1 - 1 / 2 ^ 53) ^ 16 * (2 * (9 / 4 * (1 / 2 ^ 52)))) ≤
    (1 + 289 / 64 * (1 / 2 ^ 52 : ℝ)) * (1 + 1 / 2 ^ 53) ^ 5 *
        (2 * ((7 / 2 + 1 / 50) * (1 / 2 ^ 52)) + 2 * ((7 / 2 + 1 / 50) * (1 / 2 ^ 52)) ^ 2) * (1 + 3 / 2 ^ 53 + 10 / 2 ^ 106) := by
  norm_num

theorem budget_cY1 :
    (1 + 289 / 64 * (1 / 2 ^ 52 : ℝ)) * (1 + 1 / 2 ^ 53) ^ 5 *
        (2 * ((7 / 2 + 1 / 50) * (1 / 2 ^ 52)) + 2 * ((7 / 2 + 1 / 50) * (1 / 2 ^ 52)) ^ 2) * (1 + 3 / 2 ^ 53 + 10 / 2 ^ 106)
      - (1 - 1 / 2 ^ 53) * (3 / 2 * (1 - 1 / 2 ^ 53) ^ 16 * (2 * (9 / 4 * (1 / 2 ^ 52)))) ≤ 1 := by
  norm_num

theorem budget_c0 :
    200 * (1 / 2 ^ 250 : ℝ) + 21 * (1 / 2 ^ 52) ^ 2 * (1 + 1 / 2 ^ 53) ^ 5 ≤
      (1 - 1 / 2 ^ 53) * (3 / 2 * (1 - 1 / 2 ^ 53) ^ 16 * (16 * (1 / 2 ^ 52 * (1 - 1 / 2 ^ 30)) ^ 2) - 1 / 2 ^ 250) := by
  norm_num

theorem theta_ok : 1 ≤ (1 - 1 / 2 ^ 53 : ℝ) ^ 3 * (1 + 3 / 2 ^ 53 + 10 / 2 ^ 106) := by norm_num

/-- **the budget of `AddCap`** with the concrete constants of binary64 and the Normalize grade `NU = 289/64` -/
theorem budget {L l m d C sl eS ω : ℝ}
    (hl0 : 0 ≤ l) (hm0 : 0 ≤ m) (hlL : l ≤ L) (hmL : m ≤ L) (hL2 : L ≤ 2) (hd0 : 0 ≤ d) (hd2 : d ≤ 2)
    (hLd : L ^ 2 * (1 - uR) ^ 6 - 1 / 2 ^ 500 ≤ d ^ 2)
    (heS : eps * (1 - 1 / 2 ^ 30) ≤ eS)
    (hω0 : 0 ≤ ω) (hω : ω ≤ 1 / 2 ^ 530)
    (hC : C ≤ ((1 + NU * eps) * (L + (7 / 2 + 1 / 50) * eps * (l + m) + ω) ^ 2 + 21 * eps ^ 2) * (1 + uR) ^ 5 + 4 * eR)
    (hsl : 3 / 2 * (1 - uR) ^ 16 *
        (2 * d * (9 / 4 * eps * (l + m)) + (9 / 4 * eps * (l + m)) ^ 2 + (9 / 2 * eS + 3 * eps) * d ^ 2 + 16 * eS ^ 2)
          - 1 / 2 ^ 500 ≤ sl) :
    C ≤ (d ^ 2 + sl) * (1 - uR) := by
  unfold uR eps eR NU at *
  exact budget_aux (u := 1 / 2 ^ 53) (e := 1 / 2 ^ 52) (θ := 1 + 3 / 2 ^ 53 + 10 / 2 ^ 106) (w := 1 / 2 ^ 250)
    (ρ := (7 / 2 + 1 / 50) * (1 / 2 ^ 52)) (e' := 1 / 2 ^ 52 * (1 - 1 / 2 ^ 30))
    (γ := (1 + 289 / 64 * (1 / 2 ^ 52)) * (1 + 1 / 2 ^ 53) ^ 5) (t530 := 1 / 2 ^ 530) (t1075 := 1 / 2 ^ 1075) (t500 := 1 / 2 ^ 500)
    (K16 := (1 - 1 / 2 ^ 53) ^ 16) (P5 := (1 + 1 / 2 ^ 53) ^ 5) (K3 := (1 - 1 / 2 ^ 53) ^ 3) (K6 := (1 - 1 / 2 ^ 53) ^ 6)
    (nu := 289 / 64) (ab := 21 * (1 / 2 ^ 52) ^ 2)
    (by norm_num) (by positivity)
    (by positivity) (by positivity) (by norm_num) (by ring)
    (by positivity) (by norm_num) (by positivity) (by positivity) (by norm_num) (by positivity) (by norm_num)
    (by positivity) (by norm_num) (by norm_num) (by norm_num) (by norm_num) (by norm_num)
    (by norm_num) (by positivity)
    theta_ok rfl (by norm_num) budget_cX budget_cY0 budget_cY1 budget_c0
    hl0 hm0 hlL hmL hL2 hd0 hd2 hLd heS hω0 hω hC hsl

theorem allowance_cA :
    (1 + 289 / 64 * (1 / 2 ^ 52 : ℝ)) * (1 + 1 / 2 ^ 53) ^ 5 * (1 + 3 / 2 ^ 53 + 10 / 2 ^ 106) ^ 2 *
        (1 + 2 * (2 * ((7 / 2 + 1 / 50) * (1 / 2 ^ 52)) + 2 * ((7 / 2 + 1 / 50) * (1 / 2 ^ 52)) ^ 2)) ≤ 1 + 25 * (1 / 2 ^ 52) := by
  norm_num

theorem allowance_cB :
    200 * (1 / 2 ^ 250 : ℝ) + 21 * (1 / 2 ^ 52) ^ 2 * (1 + 1 / 2 ^ 53) ^ 5 ≤ 22 * (1 / 2 ^ 52) ^ 2 := by
  norm_num

/-- **the allowance a cap test without slack would need**, closed form: `C ≤ d²(1 + 25·2^-52) + 22·2^-104` -/
theorem allowance {L l m d C ω : ℝ}
    (hl0 : 0 ≤ l) (hm0 : 0 ≤ m) (hlL : l ≤ L) (hmL : m ≤ L) (hL2 : L ≤ 2) (hd0 : 0 ≤ d) (hd2 : d ≤ 2)
    (hLd : L ^ 2 * (1 - uR) ^ 6 - 1 / 2 ^ 500 ≤ d ^ 2)
    (hω0 : 0 ≤ ω) (hω : ω ≤ 1 / 2 ^ 530)
    (hC : C ≤ ((1 + NU * eps) * (L + (7 / 2 + 1 / 50) * eps * (l + m) + ω) ^ 2 + 21 * eps ^ 2) * (1 + uR) ^ 5 + 4 * eR) :
    C ≤ d ^ 2 * (1 + 25 * eps) + 22 * eps ^ 2 := by
  unfold uR eps eR NU at *
  exact allowance_aux (u := 1 / 2 ^ 53) (e := 1 / 2 ^ 52) (θ := 1 + 3 / 2 ^ 53 + 10 / 2 ^ 106) (w := 1 / 2 ^ 250)
    (ρ := (7 / 2 + 1 / 50) * (1 / 2 ^ 52))
    (γ := (1 + 289 / 64 * (1 / 2 ^ 52)) * (1 + 1 / 2 ^ 53) ^ 5) (t530 := 1 / 2 ^ 530) (t1075 := 1 / 2 ^ 1075) (t500 := 1 / 2 ^ 500)
    (P5 := (1 + 1 / 2 ^ 53) ^ 5) (K3 := (1 - 1 / 2 ^ 53) ^ 3) (K6 := (1 - 1 / 2 ^ 53) ^ 6)
    (nu := 289 / 64) (ab := 21 * (1 / 2 ^ 52) ^ 2)
    (by norm_num) (by positivity)
    (by positivity) (by ring)
    (by positivity) (by norm_num) (by positivity) (by positivity) (by norm_num) (by positivity) (by norm_num)
    (by positivity) (by norm_num) (by norm_num) (by norm_num) (by norm_num) (by positivity)
    theta_ok rfl (by norm_num) allowance_cA allowance_cB
    hl0 hm0 hlL hmL hL2 hd0 hd2 hLd hω0 hω hC

end S2Proofs.CapF64
