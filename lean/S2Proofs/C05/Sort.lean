/-
  S2Proofs.C05.Sort — `sortIDs` (core `List.mergeSort`, defined by well-founded recursion and
  therefore opaque to kernel evaluation) equals a structurally recursive insertion sort.  Used only
  to let `decide +kernel` evaluate the executable model in the concrete examples.
-/
import S2.Coverer
open S2 S2.CellID S2.CellUnion
namespace S2Proofs.C05

def insertID (x : CellID) : List CellID → List CellID
  | [] => [x]
  | y :: ys => if x ≤ y then x :: y :: ys else y :: insertID x ys

def isort : List CellID → List CellID
  | [] => []
  | x :: xs => insertID x (isort xs)

theorem insertID_perm (x : CellID) : ∀ l, (insertID x l).Perm (x :: l) := by
  intro l
  induction l with
  | nil => exact List.Perm.refl _
  | cons y ys ih =>
    unfold insertID
    split
    · exact List.Perm.refl _
    · exact (List.Perm.cons y ih).trans (List.Perm.swap x y ys)

theorem isort_perm : ∀ l, (isort l).Perm l := by
  intro l
  induction l with
  | nil => exact List.Perm.refl _
  | cons x xs ih => exact (insertID_perm x _).trans (List.Perm.cons x ih)

theorem insertID_sorted (x : CellID) : ∀ l, l.Pairwise (fun a b : CellID => a ≤ b) →
    (insertID x l).Pairwise (fun a b : CellID => a ≤ b) := by
  intro l
  induction l with
  | nil => intro _; simp [insertID]
  | cons y ys ih =>
    intro h
    unfold insertID
    split
    · rename_i hxy
      refine List.Pairwise.cons ?_ h
      intro z hz
      simp only [List.mem_cons] at hz
      rcases hz with rfl | hz
      · exact hxy
      · exact UInt64.le_trans hxy ((List.pairwise_cons.mp h).1 z hz)
    · rename_i hxy
      have hyx : y ≤ x := UInt64.le_of_lt (UInt64.not_le.mp hxy)
      refine List.Pairwise.cons ?_ (ih (List.pairwise_cons.mp h).2)
      intro z hz
      have := (insertID_perm x ys).mem_iff.mp hz
      simp only [List.mem_cons] at this
      rcases this with rfl | hz
      · exact hyx
      · exact (List.pairwise_cons.mp h).1 z hz

theorem isort_sorted : ∀ l, (isort l).Pairwise (fun a b : CellID => a ≤ b) := by
  intro l
  induction l with
  | nil => simp [isort]
  | cons x xs ih => exact insertID_sorted x _ ih

theorem sortIDs_eq_isort (cu : CU) : sortIDs cu = isort cu := by
  unfold sortIDs
  have hs : (cu.mergeSort (fun a b : CellID => decide (a ≤ b))).Pairwise (fun a b : CellID => a ≤ b) := by
    have := List.pairwise_mergeSort (le := fun a b : CellID => decide (a ≤ b))
      (by intro a b c hab hbc; simp only [decide_eq_true_eq] at *; exact UInt64.le_trans hab hbc)
      (by intro a b; simp only [Bool.or_eq_true, decide_eq_true_eq]; exact UInt64.le_total a b) cu
    simpa using this
  apply List.Perm.eq_of_pairwise (le := fun a b : CellID => a ≤ b) _ hs (isort_sorted cu)
    ((List.mergeSort_perm _ _).trans (isort_perm cu).symm)
  intro a b _ _ hab hba
  exact UInt64.le_antisymm hab hba

end S2Proofs.C05
