/-
  S2Proofs.C05.FastSize — how many cells `FastCovering` (`normalizeCovering`) returns when `minLevel = 0`:
  at most `max(maxCells, 6)` — either the covering fits, or its cells lie on pairwise different faces
  (canonical-and-too-many, or the merge loop found no pair left to merge).
-/
import S2Proofs.C05.Size
import S2Proofs.C05.CanonicalIff
open S2 S2.CellID S2.CellUnion S2.Coverer
namespace S2Proofs.C05

theorem xor_lt_of_div_eq (a b n : Nat) (h : a / 2^n = b / 2^n) : a ^^^ b < 2^n := by
  have : (a ^^^ b) / 2^n = 0 := by
    rw [← Nat.shiftRight_eq_div_pow, Nat.shiftRight_xor_distrib, Nat.shiftRight_eq_div_pow, Nat.shiftRight_eq_div_pow, h]
    simp
  exact (Nat.div_eq_zero_iff.mp this).resolve_left (by have := Nat.two_pow_pos n; omega)

/-- no common ancestor = different faces -/
theorem commonAncestorLevel_none {x y : CellID} {kx ky : Nat} (hx : IsCell x kx) (hy : IsCell y ky)
    (h : commonAncestorLevel x y = none) : x.toNat / 2^61 ≠ y.toNat / 2^61 := by
  intro heq
  have hxor := xor_lt_of_div_eq _ _ 61 heq
  unfold commonAncestorLevel at h
  simp only [] at h
  generalize hb : (if (if x ^^^ y < lsb x then lsb x else x ^^^ y) < lsb y then lsb y
      else (if x ^^^ y < lsb x then lsb x else x ^^^ y)) = bits at h
  have hle : bits.toNat < 2^61 := by
    rw [← hb]
    have h1 := hx.lsb_eq
    have h2 := hy.lsb_eq
    have p1 : 2^(60 - 2*kx) ≤ 2^60 := Nat.pow_le_pow_right (by omega) (by omega)
    have p2 : 2^(60 - 2*ky) ≤ 2^60 := Nat.pow_le_pow_right (by omega) (by omega)
    have hx' : (x ^^^ y).toNat < 2^61 := by rw [UInt64.toNat_xor]; exact hxor
    split <;> split <;> omega
  split at h
  · rename_i hm
    unfold msbPos at hm
    by_cases h0 : bits.toNat = 0
    · rw [h0] at hm; simp at hm
    · have := (Nat.le_log2 h0).mp (by omega : 61 ≤ bits.toNat.log2)
      omega
  · cases h

/-- a valid sorted covering whose consecutive cells never share an ancestor has its cells on pairwise
    different faces: at most 6 cells -/
theorem distinct_faces_le_six {cov : CU} (hv : AllValid cov) (hs : Sorted cov)
    (hnone : ∀ i, i + 1 < cov.length →
      commonAncestorLevel cov[i]! cov[i+1]! = none ∨ commonAncestorLevel cov[i+1]! cov[i]! = none) :
    cov.length ≤ 6 := by
  obtain ⟨hval, hdis⟩ := cov_idx_facts hv hs
  have hmono := sorted_mono hv hs
  have hstep : ∀ i, i + 1 < cov.length → cov[i]!.toNat / 2^61 < cov[i+1]!.toNat / 2^61 := by
    intro i hi
    obtain ⟨kx, hx⟩ := (isValid_iff _).mp (hval i (by omega))
    obtain ⟨ky, hy⟩ := (isValid_iff _).mp (hval (i+1) hi)
    have hle := Nat.div_le_div_right (c := 2^61) (hmono i (i+1) (by omega) hi)
    have hne : cov[i]!.toNat / 2^61 ≠ cov[i+1]!.toNat / 2^61 := by
      rcases hnone i hi with h | h
      · exact commonAncestorLevel_none hx hy h
      · exact fun e => commonAncestorLevel_none hy hx h e.symm
    omega
  have hge : ∀ i, i < cov.length → i ≤ cov[i]!.toNat / 2^61 := by
    intro i
    induction i with
    | zero => intro _; omega
    | succ i ih =>
      intro hi
      have := ih (by omega)
      have := hstep i hi
      omega
  by_cases h0 : cov.length = 0
  · omega
  · have h1 := hge (cov.length - 1) (by omega)
    obtain ⟨k, hk⟩ := (isValid_iff _).mp (hval (cov.length - 1) (by omega))
    have := hk.face_lt
    omega

/-- `bestPair` is at least the (adjusted) common ancestor level of every adjacent pair -/
theorem bestPair_ge (cfg : Config) (cov : CU) : ∀ i, i + 1 < cov.length → ∀ l,
    commonAncestorLevel cov[i]! cov[i+1]! = some l → (adjustLevel cfg l : Int) ≤ (bestPair cfg cov).2 := by
  unfold bestPair
  simp only [List.size_toArray, List.getElem!_toArray]
  have : ∀ (is : List Nat) (best : Int × Int),
      let r := is.foldl (fun (best : Int × Int) i =>
        match commonAncestorLevel cov[i]! cov[i+1]! with
        | none => best
        | some lev =>
          if (adjustLevel cfg lev : Int) > best.2 then ((i : Int), (adjustLevel cfg lev : Int)) else best) best
      best.2 ≤ r.2 ∧ ∀ i ∈ is, ∀ l, commonAncestorLevel cov[i]! cov[i+1]! = some l → (adjustLevel cfg l : Int) ≤ r.2 := by
    intro is
    induction is with
    | nil => intro best; exact ⟨Int.le_refl _, fun i hi => by simp at hi⟩
    | cons j t ih =>
      intro best
      simp only [List.foldl_cons]
      cases hca : commonAncestorLevel cov[j]! cov[j+1]! with
      | none =>
        simp only []
        obtain ⟨a1, a2⟩ := ih best
        refine ⟨a1, fun i hi l hl => ?_⟩
        simp only [List.mem_cons] at hi
        rcases hi with rfl | hi
        · rw [hca] at hl; cases hl
        · exact a2 i hi l hl
      | some lev =>
        simp only []
        split
        · rename_i hgt
          obtain ⟨a1, a2⟩ := ih ((j : Int), (adjustLevel cfg lev : Int))
          simp only [] at a1
          refine ⟨by omega, fun i hi l hl => ?_⟩
          simp only [List.mem_cons] at hi
          rcases hi with rfl | hi
          · rw [hca] at hl; cases hl; exact a1
          · exact a2 i hi l hl
        · rename_i hgt
          obtain ⟨a1, a2⟩ := ih best
          refine ⟨a1, fun i hi l hl => ?_⟩
          simp only [List.mem_cons] at hi
          rcases hi with rfl | hi
          · rw [hca] at hl; cases hl; omega
          · exact a2 i hi l hl
  intro i hi l hl
  exact (this (List.range (cov.length - 1)) (-1, -1)).2 i (by simp; omega) l hl

theorem adjAll_idx {R : CellID → CellID → Prop} : ∀ {l : List CellID}, AdjAll R l →
    ∀ i, i + 1 < l.length → R l[i]! l[i+1]!
  | [], _, i, hi => by simp at hi
  | [_], _, i, hi => by simp at hi
  | a :: b :: t, h, i, hi => by
    cases i with
    | zero => exact h.1
    | succ i =>
      have := adjAll_idx h.2 i (by simpa using hi)
      simpa using this

/-- SIZE of `normalizeCovering` with `minLevel = 0`: at most `max(maxCells, 6)` cells, for ANY `recover`
    that keeps this bound -/
theorem normalizeCovering_size {cfg : Config} (h : CfgOK cfg) (hmin : cfg.minLevel = 0) (recover : CU → CU) (bound : CU)
    (hb : ∀ c ∈ bound, isValid c = true)
    (hrec : takesRecover cfg bound = true → ((recover (preNormalize cfg bound)).length : Int) ≤ max cfg.maxCells 6) :
    ((normalizeCovering cfg recover bound).length : Int) ≤ max cfg.maxCells 6 := by
  have hcl : AllValid (clampLevels cfg bound) := fun c hc => by
    obtain ⟨k, hk, _⟩ := clampLevels_top h bound hb c hc; exact isCell_valid hk
  have hvalid : isValidCU (preNormalize cfg bound) = true := by
    have hn := S2Proofs.C11.normalize_isValidCU _ hcl
    unfold preNormalize
    simp only []
    split
    · exact S2Proofs.C11.denormalize_valid _ _ _ hn h.min_le ⟨h.mod_ge, h.mod_le⟩
    · exact hn
  obtain ⟨hv, hs⟩ := (isValidCU_iff _).mp hvalid
  unfold takesRecover at hrec
  unfold normalizeCovering
  simp only [] at hrec ⊢
  generalize preNormalize cfg bound = cov at *
  split
  · rename_i hc
    simp only [Bool.or_eq_true, decide_eq_true_eq] at hc
    rcases hc with hc | hc
    · omega
    · by_cases hex : (cov.length : Int) - cfg.maxCells ≤ 0
      · omega
      · have hsp := (isCanonical_iff h cov).mp hc
        have hadj := adjAll_idx (hsp.sparse (by omega))
        have : cov.length ≤ 6 := distinct_faces_le_six hv hs (fun i hi => by
          right
          cases hca : commonAncestorLevel cov[i+1]! cov[i]! with
          | none => rfl
          | some l => have := hadj i hi l hca; omega)
        omega
  · split
    · rename_i hc hex
      exact hrec (by simp only [hc, hex, Bool.not_false, Bool.true_and, decide_true])
    · obtain ⟨hd, hv', hs', _⟩ := mergeLoop_done cfg cov.length cov hv hs (Nat.le_refl _)
      rcases hd with hd | hd
      · omega
      · have : (mergeLoop cfg cov.length cov).length ≤ 6 := distinct_faces_le_six hv' hs' (fun i hi => by
          left
          cases hca : commonAncestorLevel (mergeLoop cfg cov.length cov)[i]! (mergeLoop cfg cov.length cov)[i+1]! with
          | none => rfl
          | some l =>
            have := bestPair_ge cfg _ i hi l hca
            omega)
        omega

/-- does the re-cover recursion of `normalizeCovering` bottom out within `fuel` nested re-coverings?
    (a computable side condition: the model stops after `fuel` levels, the code does not) -/
def recDepthOK : Nat → (CU → CU) → Config → CU → Bool
  | 0, _, cfg, cov => !takesRecover cfg cov
  | fuel+1, geo, cfg, cov =>
    !takesRecover cfg cov || recDepthOK fuel geo (newCoverer (tempOptions cfg)) (geo (preNormalize cfg cov))

theorem tempOptions_maxCells (cfg : Config) : (newCoverer (tempOptions cfg)).maxCells = min 4 cfg.maxCells := rfl

/-- SIZE of `FastCovering` with `MinLevel = 0, LevelMod = 1`, re-cover recursion included: at most
    `max(maxCells, 6)` cells -/
theorem normalizeCoveringRec_size (geo : CU → CU) (hgeo : ∀ cu, ∀ c ∈ geo cu, isValid c = true) :
    ∀ (fuel : Nat) (cfg : Config), CfgOK cfg → cfg.minLevel = 0 → cfg.levelMod = 1 →
      ∀ (cov : CU), (∀ c ∈ cov, isValid c = true) → recDepthOK fuel geo cfg cov = true →
      ((normalizeCoveringRec fuel geo cfg cov).length : Int) ≤ max cfg.maxCells 6 := by
  intro fuel
  induction fuel with
  | zero =>
    intro cfg h hmin _ cov hb hd
    unfold normalizeCoveringRec
    apply normalizeCovering_size h hmin _ cov hb
    intro ht
    simp [recDepthOK, ht] at hd
  | succ fuel ih =>
    intro cfg h hmin hmod cov hb hd
    unfold normalizeCoveringRec
    apply normalizeCovering_size h hmin _ cov hb
    intro ht
    simp only [recDepthOK, ht, Bool.not_true, Bool.false_or] at hd
    obtain ⟨t0, tM, t1⟩ := newCoverer_tempOptions h
    have hin := ih _ (newCoverer_ok _) t0 t1 _ (hgeo _) hd
    unfold recoverOwn covering
    have hcs := (coveringWith_size heapLawful (optionsOf cfg) false (cellUnionRegion (preNormalize cfg cov))
      (normalizeCoveringRec fuel geo (newCoverer (tempOptions cfg)) (geo (preNormalize cfg cov)))
      (by rw [newCoverer_optionsOf h]; exact hmin) (by rw [newCoverer_optionsOf h]; exact hmod)).1
    rw [tempOptions_maxCells] at hin
    have : (optionsOf cfg).maxCells = cfg.maxCells := rfl
    rw [this] at hcs
    beta_reduce
    omega

end S2Proofs.C05
