/-
  S2Proofs.C05.Heap — Go's container/heap (model `Coverer.Heap`) is a lawful queue: push and pop
  only permute the stored candidates.
-/
import S2Proofs.C05.Basic
open S2 S2.Coverer
namespace S2Proofs.C05

theorem heap_swap_perm (a : Array Cand) (i j : Nat) : (Heap.swap a i j).Perm a := by
  unfold Heap.swap
  split
  · exact Array.swap_perm _ _
  · exact Array.Perm.refl _

theorem heap_up_perm : ∀ (fuel : Nat) (a : Array Cand) (j : Nat), (Heap.up fuel a j).Perm a := by
  intro fuel
  induction fuel with
  | zero => intro a j; exact Array.Perm.refl _
  | succ fuel ih =>
    intro a j
    unfold Heap.up
    split
    · exact Array.Perm.refl _
    · simp only []
      split
      · exact Array.Perm.refl _
      · exact (ih _ _).trans (heap_swap_perm _ _ _)

theorem heap_down_perm : ∀ (fuel : Nat) (a : Array Cand) (i n : Nat), (Heap.down fuel a i n).Perm a := by
  intro fuel
  induction fuel with
  | zero => intro a i n; exact Array.Perm.refl _
  | succ fuel ih =>
    intro a i n
    unfold Heap.down
    simp only []
    split
    · exact Array.Perm.refl _
    · generalize (if (2 * i + 1 + 1 < n && Heap.less a (2 * i + 1 + 1) (2 * i + 1)) = true then 2 * i + 1 + 1 else 2 * i + 1) = j
      split
      · exact Array.Perm.refl _
      · exact (ih _ _ _).trans (heap_swap_perm _ _ _)

def heapLawful : LawfulPQ heapOps where
  toList := Array.toList
  empty_toList := rfl
  push_perm := by
    intro q c
    show (Heap.push q c).toList.Perm (c :: q.toList)
    unfold Heap.push
    simp only []
    have h1 := Array.perm_iff_toList_perm.mp (heap_up_perm (q.push c).size (q.push c) ((q.push c).size - 1))
    refine h1.trans ?_
    rw [Array.toList_push]
    exact List.perm_append_comm
  pop_perm := by
    intro q c q' h
    change Heap.pop? q = some (c, q') at h
    unfold Heap.pop? at h
    split at h
    · cases h
    · rename_i hne
      simp only [Option.some.injEq, Prod.mk.injEq] at h
      obtain ⟨hc, hq'⟩ := h
      generalize hb : Heap.down (Heap.swap q 0 (q.size - 1)).size (Heap.swap q 0 (q.size - 1)) 0 (q.size - 1) = b at hc hq'
      have hperm : b.Perm q := by
        rw [← hb]; exact (heap_down_perm _ _ _ _).trans (heap_swap_perm _ _ _)
      have hsz : b.size = q.size := hperm.size_eq
      have hl := Array.perm_iff_toList_perm.mp hperm
      refine hl.symm.trans ?_
      subst hc hq'
      have hpos : 0 < b.size := by omega
      have hne' : b.toList ≠ [] := by
        intro h0; have h1 := congrArg List.length h0; rw [Array.length_toList, hsz, List.length_nil] at h1; omega
      have e : b.toList = b.pop.toList ++ [b[q.size - 1]!] := by
        rw [Array.toList_pop]
        conv_lhs => rw [← List.dropLast_concat_getLast hne']
        congr 2
        rw [List.getLast_eq_getElem]
        have hidx : q.size - 1 < b.size := by omega
        rw [getElem!_pos b (q.size - 1) hidx]
        simp [hsz]
      rw [e]
      exact List.perm_append_comm
  pop_none := by
    intro q h
    change Heap.pop? q = none at h
    unfold Heap.pop? at h
    split at h
    · rename_i h0
      exact Array.toList_eq_nil_iff.mpr (Array.eq_empty_of_size_eq_zero h0)
    · cases h
  size_eq := fun q => by simp [heapOps]

end S2Proofs.C05
