/-
  S2Proofs.C05.Size — how many cells the search of `coveringInternal` can return, for every lawful
  queue (every pop order).

  exterior, `minLevel = 0`:   |result| + |pq|  ≤  max(maxCells, number of start cells)   at all times
  interior (any minLevel):    |result|         ≤  max(maxCells, number of start cells)   at all times
-/
import S2Proofs.Properties.C05
import S2Proofs.CU.Minimal
open S2 S2.CellID S2.CellUnion S2.Coverer
namespace S2Proofs.C05

variable {Q : Type}

/-- cells already returned plus candidates still queued -/
def tot {ops : PQOps Q} (law : LawfulPQ ops) (st : St Q) : Nat := st.result.length + (law.toList st.pq).length

/-- every queued candidate has `numChildren = len(children)` -/
def PQWf {ops : PQOps Q} (law : LawfulPQ ops) (st : St Q) : Prop :=
  ∀ cand ∈ law.toList st.pq, cand.numChildren = cand.children.length

section
variable {ops : PQOps Q} (law : LawfulPQ ops) (cfg : Config) (interior : Bool) (R : Region)

/-- `addCandidate` adds at most one cell to `result` and at most one to `result + pq` -/
theorem addCandidate_size (st : St Q) (ch : Child) (hwf : PQWf law st) :
    PQWf law (addCandidate ops cfg interior R st ch) ∧
    tot law (addCandidate ops cfg interior R st ch) ≤ tot law st + 1 ∧
    (addCandidate ops cfg interior R st ch).result.length ≤ st.result.length + 1 := by
  unfold addCandidate
  split
  · exact ⟨hwf, by simp [tot]; omega, by simp⟩
  · simp only []
    generalize expandChildren cfg interior R (if level ch.id < cfg.minLevel then 1 else cfg.levelMod) ch.id = children
    split
    · exact ⟨hwf, by omega, by omega⟩
    · split
      · exact ⟨hwf, by simp [tot]; omega, by simp⟩
      · have hp := law.push_perm st.pq ⟨ch.id, children.length, children, priorityOf cfg (level ch.id) children.length (numTerminals children)⟩
        refine ⟨?_, ?_, by simp⟩
        · intro cand hc
          have := hp.mem_iff.mp hc
          simp only [List.mem_cons] at this
          rcases this with rfl | h
          · rfl
          · exact hwf cand h
        · have := hp.length_eq
          simp only [tot, List.length_cons] at this ⊢
          omega

/-- the loop over `cand.children` -/
theorem foldl_children_size : ∀ (chs : List Child) (st : St Q), PQWf law st →
    let st' := chs.foldl (fun st ch =>
        if !interior || (st.result.length : Int) < cfg.maxCells then addCandidate ops cfg interior R st ch else st) st
    PQWf law st' ∧ tot law st' ≤ tot law st + chs.length ∧
      (interior = true → ∀ B : Int, cfg.maxCells ≤ B → (st.result.length : Int) ≤ B → (st'.result.length : Int) ≤ B) := by
  intro chs
  induction chs with
  | nil => intro st h; exact ⟨h, by simp, fun _ _ _ hB => hB⟩
  | cons ch t ih =>
    intro st h
    simp only [List.foldl_cons, List.length_cons]
    by_cases hc : (!interior || decide ((st.result.length : Int) < cfg.maxCells)) = true
    · simp only [hc, if_true]
      obtain ⟨a1, a2, a3⟩ := addCandidate_size law cfg interior R st ch h
      obtain ⟨b1, b2, b3⟩ := ih _ a1
      refine ⟨b1, by omega, fun hi B hB hst => b3 hi B hB ?_⟩
      subst hi
      simp only [Bool.not_true, Bool.false_or, decide_eq_true_eq] at hc
      omega
    · simp only [hc, if_false, Bool.false_eq_true]
      obtain ⟨b1, b2, b3⟩ := ih _ h
      exact ⟨b1, by omega, b3⟩

/-- EXTERIOR search with `minLevel = 0`: `|result| + |pq|` never exceeds `max(maxCells, its initial value)` -/
theorem coverLoop_ext_size (hmin : cfg.minLevel = 0) (B : Int) (hB : cfg.maxCells ≤ B) :
    ∀ (fuel : Nat) (st : St Q), PQWf law st → (tot law st : Int) ≤ B →
      (tot law (coverLoop ops cfg false R fuel st) : Int) ≤ B := by
  intro fuel
  induction fuel with
  | zero => intro st _ h; exact h
  | succ fuel ih =>
    intro st hwf hb
    unfold coverLoop
    split
    · split
      · exact hb
      · rename_i cand q hpop
        have hperm := law.pop_perm _ _ _ hpop
        have hlen := hperm.length_eq
        simp only [List.length_cons] at hlen
        have hcand : cand.numChildren = cand.children.length := hwf cand (hperm.mem_iff.mpr (by simp))
        have hwf' : PQWf law { st with pq := q } := fun c hc => hwf c (hperm.mem_iff.mpr (by simp [hc]))
        have htot' : tot law { st with pq := q } + 1 = tot law st := by simp only [tot]; omega
        simp only []
        split
        · rename_i hcond
          obtain ⟨f1, f2, _⟩ := foldl_children_size law cfg false R cand.children { st with pq := q } hwf'
          apply ih _ f1
          simp only [Bool.false_or, Bool.or_eq_true, decide_eq_true_eq, beq_iff_eq, hmin, Nat.not_lt_zero, false_or] at hcond
          rcases hcond with h1 | hle
          · omega
          · have hsz := law.size_eq q
            simp only [tot] at f2 ⊢
            push_cast at hle
            omega
        · apply ih _ (show PQWf law { result := cand.id :: st.result, pq := q } from hwf')
          simp only [tot, List.length_cons] at htot' hb ⊢
          omega
    · exact hb

/-- INTERIOR search (any `minLevel`): `|result|` never exceeds `max(maxCells, its initial value)` -/
theorem coverLoop_int_size (B : Int) (hB : cfg.maxCells ≤ B) :
    ∀ (fuel : Nat) (st : St Q), PQWf law st → (st.result.length : Int) ≤ B →
      ((coverLoop ops cfg true R fuel st).result.length : Int) ≤ B := by
  intro fuel
  induction fuel with
  | zero => intro st _ h; exact h
  | succ fuel ih =>
    intro st hwf hb
    unfold coverLoop
    split
    · split
      · exact hb
      · rename_i cand q hpop
        have hperm := law.pop_perm _ _ _ hpop
        have hwf' : PQWf law { st with pq := q } := fun c hc => hwf c (hperm.mem_iff.mpr (by simp [hc]))
        simp only [Bool.true_or, if_true]
        obtain ⟨f1, _, f3⟩ := foldl_children_size law cfg true R cand.children { st with pq := q } hwf'
        exact ih _ f1 (f3 rfl B hB hb)
    · exact hb

/-- the state after `initialCandidates`: at most one cell (returned or queued) per start cell -/
theorem initState_size (start : CU) :
    PQWf law (initState ops cfg interior R start) ∧ tot law (initState ops cfg interior R start) ≤ start.length := by
  unfold initState
  have : ∀ (l : List CellID) (st : St Q), PQWf law st →
      PQWf law (l.foldl (addStart ops cfg interior R) st) ∧
        tot law (l.foldl (addStart ops cfg interior R) st) ≤ tot law st + l.length := by
    intro l
    induction l with
    | nil => intro st h; exact ⟨h, by simp⟩
    | cons ci t ih =>
      intro st h
      simp only [List.foldl_cons, List.length_cons]
      have h1 : PQWf law (addStart ops cfg interior R st ci) ∧ tot law (addStart ops cfg interior R st ci) ≤ tot law st + 1 := by
        unfold addStart
        split
        · exact ⟨h, by omega⟩
        · obtain ⟨a1, a2, _⟩ := addCandidate_size law cfg interior R st _ h
          exact ⟨a1, a2⟩
      obtain ⟨b1, b2⟩ := ih _ h1.1
      exact ⟨b1, by omega⟩
  have h0 : PQWf law (⟨[], ops.empty⟩ : St Q) := by
    intro c hc; simp only [law.empty_toList] at hc; cases hc
  obtain ⟨r1, r2⟩ := this (adjustCellLevels cfg start) ⟨[], ops.empty⟩ h0
  refine ⟨r1, ?_⟩
  have := adjustCellLevels_length cfg start
  simp only [tot, law.empty_toList, List.length_nil] at r2 ⊢
  omega

include law in
/-- (S1) EXTERIOR, `minLevel = 0`: the raw search result has at most `max(maxCells, #start cells)` cells —
    every `levelMod`, every region, every pop order. -/
theorem rawResult_size_ext (hmin : cfg.minLevel = 0) (start : CU) :
    ((rawResult ops cfg false R start).length : Int) ≤ max cfg.maxCells start.length := by
  obtain ⟨i1, i2⟩ := initState_size law cfg false R start
  have := coverLoop_ext_size law cfg R hmin (max cfg.maxCells start.length) (Int.le_max_left _ _)
    (loopFuel start) _ i1 (by have := Int.le_max_right cfg.maxCells start.length; omega)
  unfold rawResult
  rw [List.length_reverse]
  simp only [tot] at this
  omega

include law in
/-- (S2) INTERIOR, any `minLevel`, any `levelMod`: the raw search result has at most
    `max(maxCells, #start cells)` cells. -/
theorem rawResult_size_int (start : CU) :
    ((rawResult ops cfg true R start).length : Int) ≤ max cfg.maxCells start.length := by
  obtain ⟨i1, i2⟩ := initState_size law cfg true R start
  have := coverLoop_int_size law cfg R (max cfg.maxCells start.length) (Int.le_max_left _ _)
    (loopFuel start) _ i1 (by
      have := Int.le_max_right cfg.maxCells start.length; simp only [tot] at i2; omega)
  unfold rawResult
  rw [List.length_reverse]
  exact this
end

theorem denormalize_zero_one (cu : CU) : denormalize cu 0 1 = cu := by
  unfold denormalize
  induction cu with
  | nil => rfl
  | cons a t ih => simp only [List.flatMap_cons] at ih ⊢; rw [ih]; simp

/-- with `MinLevel = 0, LevelMod = 1` the final `Covering` / `CellUnion` is no longer than the raw result -/
theorem coveringWith_length_le_raw {ops : PQOps Q} (o : Options) (interior : Bool) (R : Region) (start : CU)
    (hmin : (newCoverer o).minLevel = 0) (hmod : (newCoverer o).levelMod = 1) :
    (coveringWith ops o interior R start).length ≤ (rawResult ops (newCoverer o) interior R start).length ∧
    (cellUnionWith ops o interior R start).length ≤ (rawResult ops (newCoverer o) interior R start).length := by
  have h1 : cellUnionWith ops o interior R start
      = normalize (normalize (rawResult ops (newCoverer o) interior R start)) := by
    unfold cellUnionWith coveringInternal
    simp [hmin, hmod]
  have h2 : (cellUnionWith ops o interior R start).length ≤ (rawResult ops (newCoverer o) interior R start).length := by
    rw [h1]
    exact Nat.le_trans (normalize_length _) (normalize_length _)
  refine ⟨?_, h2⟩
  unfold coveringWith
  simp only [hmin, hmod, denormalize_zero_one]
  exact h2

/-- OUTPUT SIZE with `MinLevel = 0`, `LevelMod = 1`: at most `max(MaxCells, number of start cells)` cells -/
theorem coveringWith_size {ops : PQOps Q} (law : LawfulPQ ops) (o : Options) (interior : Bool) (R : Region)
    (start : CU) (hmin : (newCoverer o).minLevel = 0) (hmod : (newCoverer o).levelMod = 1) :
    ((coveringWith ops o interior R start).length : Int) ≤ max o.maxCells start.length ∧
    ((cellUnionWith ops o interior R start).length : Int) ≤ max o.maxCells start.length := by
  obtain ⟨h1, h2⟩ := coveringWith_length_le_raw (ops := ops) o interior R start hmin hmod
  have hraw : ((rawResult ops (newCoverer o) interior R start).length : Int) ≤ max o.maxCells start.length := by
    cases interior
    · exact rawResult_size_ext law (newCoverer o) R hmin start
    · exact rawResult_size_int law (newCoverer o) R start
  constructor <;> omega

end S2Proofs.C05
