/-
  S2Proofs.C05.CanonicalIff — `isCanonical` characterised exactly (both directions): the converse of
  `isCanonical_sound`, including the too-many-cells clause and the sibling-run counter.
-/
import S2Proofs.C05.Canonical
open S2 S2.CellID S2.CellUnion S2.Coverer
namespace S2Proofs.C05

/-- `id` continues the sibling run of `prev` -/
def Linked (cfg : Config) (a b : CellID) : Prop :=
  cfg.minLevel + cfg.levelMod ≤ level b ∧ level b = level a ∧
    parent b (level b - cfg.levelMod) = parent a (level b - cfg.levelMod)

instance (cfg : Config) (a b : CellID) : Decidable (Linked cfg a b) := by unfold Linked; infer_instance

def AdjOK (cfg : Config) (tm : Bool) (a b : CellID) : Prop :=
  rangeMax a < rangeMin b ∧ (tm = true → ∀ lev, commonAncestorLevel b a = some lev → lev < cfg.minLevel)

open Classical in
theorem canonStep_spec {cfg : Config} (h : CfgOK cfg) (tm : Bool) {prev : CellID} (hp : prev ≠ 0) (cnt : Nat) (id : CellID) :
    canonStep cfg tm (some (prev, cnt)) id =
      if CanonLevel cfg id ∧ AdjOK cfg tm prev id then
        if Linked cfg prev id then
          (if cnt + 1 = 1 <<< (2 * cfg.levelMod) then none else some (id, cnt + 1))
        else some (id, 1)
      else none := by
  have hm := h.mod_ge
  unfold canonStep
  simp only []
  split
  · -- invalid
    rename_i hv
    rw [if_neg]
    rintro ⟨⟨hv', _⟩, _⟩
    simp [hv'] at hv
  · rename_i hv
    have hv' : isValid id = true := by simpa using hv
    split
    · rename_i hl
      rw [if_neg]
      rintro ⟨⟨_, h1, h2, _⟩, _⟩
      simp only [Bool.or_eq_true, decide_eq_true_eq] at hl
      omega
    · rename_i hl
      simp only [Bool.or_eq_true, decide_eq_true_eq, not_or, Int.not_lt, gt_iff_lt] at hl
      split
      · rename_i hmd
        rw [if_neg]
        rintro ⟨⟨_, _, _, h3⟩, _⟩
        simp [h3] at hmd
      · rename_i hmd
        have hmd' : (level id - cfg.minLevel) % cfg.levelMod = 0 := by
          by_cases h1 : cfg.levelMod > 1
          · simpa [h1] using hmd
          · have : cfg.levelMod = 1 := by omega
            rw [this, Nat.mod_one]
        have hCL : CanonLevel cfg id := ⟨hv', by omega, by omega, hmd'⟩
        rw [if_pos (by simpa using hp)]
        split
        · rename_i hr
          rw [if_neg]
          rintro ⟨_, hr', _⟩
          have := UInt64.not_le.mpr hr'
          exact this hr
        · rename_i hr
          have hr' : rangeMax prev < rangeMin id := by simpa [UInt64.not_le] using hr
          have tail : AdjOK cfg tm prev id →
              (if (decide (id.level < cfg.minLevel + cfg.levelMod) || id.level != prev.level ||
                    id.parent (id.level - cfg.levelMod) != prev.parent (id.level - cfg.levelMod)) = true then
                  some (id, 1)
                else if (cnt + 1 == 1 <<< (2 * cfg.levelMod)) = true then none else some (id, cnt + 1)) =
              if CanonLevel cfg id ∧ AdjOK cfg tm prev id then
                if Linked cfg prev id then if cnt + 1 = 1 <<< (2 * cfg.levelMod) then none else some (id, cnt + 1)
                else some (id, 1)
              else none := by
            intro hA
            rw [if_pos (And.intro hCL hA)]
            split
            · rename_i hreset
              rw [if_neg]
              intro hL
              obtain ⟨l1, l2, l3⟩ : cfg.minLevel + cfg.levelMod ≤ level id ∧ level id = level prev ∧
                parent id (level id - cfg.levelMod) = parent prev (level id - cfg.levelMod) := hL
              simp only [Bool.or_eq_true, decide_eq_true_eq, bne_iff_ne, ne_eq] at hreset
              rcases hreset with (hh | hh) | hh
              · omega
              · exact hh l2
              · exact hh l3
            · rename_i hreset
              simp only [Bool.or_eq_true, decide_eq_true_eq, bne_iff_ne, ne_eq, not_or, Nat.not_lt, Decidable.not_not] at hreset
              rw [if_pos (show Linked cfg prev id from ⟨hreset.1.1, hreset.1.2, hreset.2⟩)]
              simp only [beq_iff_eq]
          cases hca : commonAncestorLevel id prev with
          | none =>
            dsimp only
            rw [if_neg (by simp)]
            exact tail ⟨hr', fun _ lev hh => by rw [hca] at hh; cases hh⟩
          | some lev =>
            by_cases hb : (tm && decide (lev ≥ cfg.minLevel)) = true
            · rw [if_pos hb, if_neg]
              rintro ⟨_, _, htm⟩
              simp only [Bool.and_eq_true, decide_eq_true_eq] at hb
              have := htm hb.1 lev hca
              omega
            · rw [if_neg hb]
              refine tail ⟨hr', fun htm lev' hh => ?_⟩
              rw [hca] at hh
              cases hh
              simp only [htm, Bool.true_and, decide_eq_true_eq] at hb
              omega
open Classical in
/-- the first cell (`prevID = 0`): only the level clauses are checked -/
theorem canonStep_first {cfg : Config} (h : CfgOK cfg) (tm : Bool) (cnt : Nat) (id : CellID) :
    canonStep cfg tm (some (0, cnt)) id = if CanonLevel cfg id then some (id, cnt) else none := by
  have hm := h.mod_ge
  unfold canonStep
  simp only []
  split
  · rename_i hv
    rw [if_neg]
    rintro ⟨hv', _⟩
    simp [hv'] at hv
  · rename_i hv
    have hv' : isValid id = true := by simpa using hv
    split
    · rename_i hl
      rw [if_neg]
      rintro ⟨_, h1, h2, _⟩
      simp only [Bool.or_eq_true, decide_eq_true_eq] at hl
      omega
    · rename_i hl
      simp only [Bool.or_eq_true, decide_eq_true_eq, not_or, Int.not_lt, gt_iff_lt] at hl
      split
      · rename_i hmd
        rw [if_neg]
        rintro ⟨_, _, _, h3⟩
        simp [h3] at hmd
      · rename_i hmd
        have hmd' : (level id - cfg.minLevel) % cfg.levelMod = 0 := by
          by_cases h1 : cfg.levelMod > 1
          · simpa [h1] using hmd
          · have : cfg.levelMod = 1 := by omega
            rw [this, Nat.mod_one]
        have hCL : CanonLevel cfg id := ⟨hv', by omega, by omega, hmd'⟩
        rw [if_neg (by simp), if_pos hCL]

/-- a run of consecutive cells each continuing the sibling run of its predecessor -/
inductive LinkedRun (cfg : Config) : List CellID → Prop
  | single (a : CellID) : LinkedRun cfg [a]
  | cons {a b : CellID} {t : List CellID} : Linked cfg a b → LinkedRun cfg (b :: t) → LinkedRun cfg (a :: b :: t)

theorem LinkedRun.ne_nil {cfg : Config} {w : List CellID} (h : LinkedRun cfg w) : w ≠ [] := by
  cases h <;> simp

/-- `R` holds between every two consecutive elements -/
def AdjAll (R : CellID → CellID → Prop) : List CellID → Prop
  | a :: b :: t => R a b ∧ AdjAll R (b :: t)
  | _ => True

theorem adjAll_and (R S : CellID → CellID → Prop) : ∀ l, AdjAll (fun a b => R a b ∧ S a b) l ↔ AdjAll R l ∧ AdjAll S l
  | [] => by simp [AdjAll]
  | [_] => by simp [AdjAll]
  | a :: b :: t => by
    simp only [AdjAll]
    rw [adjAll_and R S (b :: t)]
    constructor
    · rintro ⟨⟨h1, h2⟩, h3, h4⟩; exact ⟨⟨h1, h3⟩, h2, h4⟩
    · rintro ⟨⟨h1, h3⟩, h2, h4⟩; exact ⟨⟨h1, h2⟩, h3, h4⟩

theorem adjAll_of_pairwise {R : CellID → CellID → Prop} : ∀ {l}, List.Pairwise R l → AdjAll R l
  | [], _ => trivial
  | [_], _ => trivial
  | a :: b :: t, h => by
    rw [List.pairwise_cons] at h
    exact ⟨h.1 b (by simp), adjAll_of_pairwise h.2⟩

/-- the budget a run starting at the head may still use: `cnt - 1` cells are already counted -/
def PfxOK (cfg : Config) (cnt : Nat) (l : List CellID) : Prop :=
  ∀ w, w <+: l → LinkedRun cfg w → cnt - 1 + w.length < 1 <<< (2 * cfg.levelMod)

def InfixOK (cfg : Config) (l : List CellID) : Prop :=
  ∀ w, w <:+: l → LinkedRun cfg w → w.length < 1 <<< (2 * cfg.levelMod)

theorem infixOK_cons {cfg : Config} (b : CellID) (t : List CellID) :
    InfixOK cfg (b :: t) ↔ PfxOK cfg 1 (b :: t) ∧ InfixOK cfg t := by
  unfold InfixOK PfxOK
  constructor
  · intro h
    exact ⟨fun w hw hr => by have := h w hw.isInfix hr; omega, fun w hw hr => h w (List.infix_cons hw) hr⟩
  · rintro ⟨h1, h2⟩ w hw hr
    rcases List.infix_cons_iff.mp hw with hp | hi
    · have := h1 w hp hr; omega
    · exact h2 w hi hr

theorem pfxOK_mono {cfg : Config} {c c' : Nat} {l : List CellID} (hcc : c ≤ c') (h : PfxOK cfg c' l) : PfxOK cfg c l :=
  fun w hw hr => by have := h w hw hr; omega

/-- prefix budget through a linked step -/
theorem pfxOK_linked {cfg : Config} {a b : CellID} {t : List CellID} {cnt : Nat} (hc : 1 ≤ cnt)
    (hcN : cnt < 1 <<< (2 * cfg.levelMod)) (hL : Linked cfg a b) :
    PfxOK cfg cnt (a :: b :: t) ↔ PfxOK cfg (cnt + 1) (b :: t) := by
  unfold PfxOK
  constructor
  · intro h w hw hr
    obtain ⟨w', rfl⟩ : ∃ w', w = b :: w' := by
      cases w with
      | nil => exact absurd rfl hr.ne_nil
      | cons x w' =>
        have := List.cons_prefix_cons.mp hw
        exact ⟨w', by rw [this.1]⟩
    have := h (a :: b :: w') (List.cons_prefix_cons.mpr ⟨rfl, hw⟩) (LinkedRun.cons hL hr)
    simp only [List.length_cons] at this ⊢
    omega
  · intro h w hw hr
    cases hr with
    | single x => simp only [List.length_singleton]; omega
    | @cons x y t' hxy hr' =>
      have h1 := List.cons_prefix_cons.mp hw
      have := h (y :: t') h1.2 hr'
      simp only [List.length_cons] at this ⊢
      omega

/-- prefix budget through an unlinked step: nothing to check beyond `cnt < N` -/
theorem pfxOK_unlinked {cfg : Config} {a b : CellID} {t : List CellID} {cnt : Nat} (hc : 1 ≤ cnt)
    (hcN : cnt < 1 <<< (2 * cfg.levelMod)) (hL : ¬ Linked cfg a b) : PfxOK cfg cnt (a :: b :: t) := by
  intro w hw hr
  cases hr with
  | single x => simp only [List.length_singleton]; omega
  | @cons x y t' hxy hr' =>
    have h1 := List.cons_prefix_cons.mp hw
    have h2 := List.cons_prefix_cons.mp h1.2
    rw [h1.1, h2.1] at hxy
    exact absurd hxy hL

theorem one_lt_shl (cfg : Config) (h : CfgOK cfg) : 1 < 1 <<< (2 * cfg.levelMod) := by
  rcases h.mod_cases with h1 | h1 | h1 <;> rw [h1] <;> decide

theorem valid_ne_zero {c : CellID} (h : isValid c = true) : c ≠ 0 := by
  intro h0; subst h0; revert h; decide

/-- what the loop of `isCanonical` decides from the state `(prev, cnt)` on -/
theorem foldl_canonStep_iff {cfg : Config} (h : CfgOK cfg) (tm : Bool) : ∀ (l : List CellID) (prev : CellID) (cnt : Nat),
    prev ≠ 0 → 1 ≤ cnt → cnt < 1 <<< (2 * cfg.levelMod) →
    ((l.foldl (canonStep cfg tm) (some (prev, cnt))).isSome = true ↔
      (∀ c ∈ l, CanonLevel cfg c) ∧ AdjAll (AdjOK cfg tm) (prev :: l) ∧ PfxOK cfg cnt (prev :: l) ∧ InfixOK cfg l) := by
  intro l
  induction l with
  | nil =>
    intro prev cnt _ hc hcN
    simp only [List.foldl_nil, Option.isSome_some, List.not_mem_nil, false_imp_iff, implies_true, true_and, true_iff]
    refine ⟨trivial, ?_, ?_⟩
    · intro w hw hr
      cases hr with
      | single x => simp only [List.length_singleton]; omega
      | @cons x y t' hxy hr' =>
        have h1 := List.cons_prefix_cons.mp hw
        have := List.prefix_nil.mp h1.2
        cases this
    · intro w hw hr
      have := List.infix_nil.mp hw
      exact absurd this hr.ne_nil
  | cons b t ih =>
    intro prev cnt hp hc hcN
    simp only [List.foldl_cons]
    rw [canonStep_spec h tm hp cnt b]
    by_cases hC : CanonLevel cfg b ∧ AdjOK cfg tm prev b
    · rw [if_pos hC]
      have hb0 : b ≠ 0 := valid_ne_zero hC.1.1
      have hlev : (∀ c ∈ b :: t, CanonLevel cfg c) ↔ (∀ c ∈ t, CanonLevel cfg c) := by
        simp only [List.mem_cons, forall_eq_or_imp]
        exact ⟨fun h => h.2, fun h => ⟨hC.1, h⟩⟩
      have hadj : AdjAll (AdjOK cfg tm) (prev :: b :: t) ↔ AdjAll (AdjOK cfg tm) (b :: t) := by
        simp only [AdjAll]
        exact ⟨fun h => h.2, fun h => ⟨hC.2, h⟩⟩
      by_cases hL : Linked cfg prev b
      · rw [if_pos hL]
        by_cases hN : cnt + 1 = 1 <<< (2 * cfg.levelMod)
        · rw [if_pos hN, foldl_canonStep_none]
          simp only [Option.isSome_none, Bool.false_eq_true, false_iff]
          rintro ⟨_, _, hP, _⟩
          have := hP [prev, b] (by simp) (LinkedRun.cons hL (LinkedRun.single b))
          simp only [List.length_cons, List.length_nil] at this
          omega
        · rw [if_neg hN, ih b (cnt + 1) hb0 (by omega) (by omega), hlev, hadj, pfxOK_linked hc hcN hL, infixOK_cons]
          constructor
          · rintro ⟨a1, a2, a3, a4⟩
            exact ⟨a1, a2, a3, pfxOK_mono (by omega) a3, a4⟩
          · rintro ⟨a1, a2, a3, _, a4⟩
            exact ⟨a1, a2, a3, a4⟩
      · rw [if_neg hL, ih b 1 hb0 (Nat.le_refl _) (one_lt_shl cfg h), hlev, hadj, infixOK_cons]
        constructor
        · rintro ⟨a1, a2, a3, a4⟩
          exact ⟨a1, a2, pfxOK_unlinked hc hcN hL, a3, a4⟩
        · rintro ⟨a1, a2, _, a3, a4⟩
          exact ⟨a1, a2, a3, a4⟩
    · rw [if_neg hC, foldl_canonStep_none]
      simp only [Option.isSome_none, Bool.false_eq_true, false_iff]
      rintro ⟨a1, a2, _, _⟩
      exact hC ⟨a1 b (by simp), a2.1⟩

theorem shl_eq_pow (m : Nat) : 1 <<< (2 * m) = 4 ^ m := by
  rw [Nat.shiftLeft_eq, Nat.one_mul, Nat.pow_mul]

theorem adjAll_imp (p : Prop) (S : CellID → CellID → Prop) : ∀ l, AdjAll (fun a b => p → S a b) l ↔ (p → AdjAll S l)
  | [] => by simp [AdjAll]
  | [_] => by simp [AdjAll]
  | a :: b :: t => by
    simp only [AdjAll]
    rw [adjAll_imp p S (b :: t)]
    constructor
    · rintro ⟨h1, h2⟩ hp; exact ⟨h1 hp, h2 hp⟩
    · intro h; exact ⟨fun hp => (h hp).1, fun hp => (h hp).2⟩

/-- all cells of a linked run have the level of the first one and share its ancestor `levelMod` levels up,
    and that level is at least `minLevel + levelMod` when the run has two cells or more -/
theorem LinkedRun.same {cfg : Config} {w : List CellID} (h : LinkedRun cfg w) :
    ∀ a t, w = a :: t → ∀ x ∈ w, level x = level a ∧
      parent x (level a - cfg.levelMod) = parent a (level a - cfg.levelMod) ∧
      (t ≠ [] → cfg.minLevel + cfg.levelMod ≤ level a) := by
  induction h with
  | single a =>
    intro a' t' he x hx
    simp only [List.cons.injEq] at he
    obtain ⟨rfl, rfl⟩ := he
    simp only [List.mem_singleton] at hx
    subst hx
    exact ⟨rfl, rfl, fun h => absurd rfl h⟩
  | @cons a b t hab _ ih =>
    intro a' t' he x hx
    simp only [List.cons.injEq] at he
    obtain ⟨rfl, rfl⟩ := he
    obtain ⟨l1, l2, l3⟩ := hab
    simp only [List.mem_cons] at hx
    rcases hx with rfl | hx
    · exact ⟨rfl, rfl, fun _ => by omega⟩
    · obtain ⟨i1, i2, _⟩ := ih b t rfl x (by simpa using hx)
      rw [l2] at i1 i2 l3
      exact ⟨i1, by rw [i2, l3], fun _ => by omega⟩

/-- the declarative reading of `IsCanonical` -/
structure CanonSpec (cfg : Config) (cov : CU) : Prop where
  /-- valid cells, `minLevel ≤ level ≤ trueMax`, on the LevelMod grid -/
  levels : ∀ c ∈ cov, CanonLevel cfg c
  /-- sorted and pairwise disjoint -/
  sorted : List.Pairwise (fun a b => rangeMax a < rangeMin b) cov
  /-- with more than `maxCells` cells, no two consecutive cells have a common ancestor at `minLevel` or deeper -/
  sparse : (cov.length : Int) > cfg.maxCells →
    AdjAll (fun a b => ∀ lev, commonAncestorLevel b a = some lev → lev < cfg.minLevel) cov
  /-- no `4^levelMod` consecutive cells forming a sibling run (same level `≥ minLevel + levelMod`, same
      ancestor `levelMod` levels up) -/
  noRun : ∀ w, w <:+: cov → LinkedRun cfg w → w.length < 4 ^ cfg.levelMod

/-- `isCanonical` decides exactly `CanonSpec` -/
theorem isCanonical_iff {cfg : Config} (h : CfgOK cfg) (cov : CU) : isCanonical cfg cov = true ↔ CanonSpec cfg cov := by
  cases cov with
  | nil =>
    simp only [isCanonical, List.foldl_nil, Option.isSome_some, true_iff]
    exact ⟨by simp, List.Pairwise.nil, fun _ => trivial, fun w hw hr => absurd (List.infix_nil.mp hw) hr.ne_nil⟩
  | cons a t =>
    have key : ∀ tm : Bool, CanonLevel cfg a →
        (((a :: t).foldl (canonStep cfg tm) (some (0, 1))).isSome = true ↔
          (∀ c ∈ t, CanonLevel cfg c) ∧ AdjAll (AdjOK cfg tm) (a :: t) ∧ PfxOK cfg 1 (a :: t) ∧ InfixOK cfg t) := by
      intro tm hA
      simp only [List.foldl_cons]
      rw [canonStep_first h, if_pos hA]
      exact foldl_canonStep_iff h tm t a 1 (valid_ne_zero hA.1) (Nat.le_refl _) (one_lt_shl cfg h)
    constructor
    · intro hc
      have hsound := isCanonical_levels h _ hc
      have hA : CanonLevel cfg a := hsound.1 a (by simp)
      unfold isCanonical at hc
      simp only [] at hc
      obtain ⟨k1, k2, k3, k4⟩ := (key _ hA).mp hc
      have k2' := (adjAll_and _ _ _).mp k2
      refine ⟨hsound.1, hsound.2, fun htm => ?_, ?_⟩
      · exact (adjAll_imp _ _ _).mp k2'.2 (by simpa using htm)
      · rw [← shl_eq_pow]
        exact (infixOK_cons a t).mpr ⟨k3, k4⟩
    · rintro ⟨s1, s2, s3, s4⟩
      have hA : CanonLevel cfg a := s1 a (by simp)
      unfold isCanonical
      simp only []
      rw [key _ hA]
      rw [← shl_eq_pow] at s4
      obtain ⟨i1, i2⟩ := (infixOK_cons a t).mp s4
      refine ⟨fun c hc => s1 c (by simp [hc]), ?_, i1, i2⟩
      apply (adjAll_and _ _ _).mpr
      exact ⟨adjAll_of_pairwise s2, (adjAll_imp _ _ _).mpr (fun htm => s3 (by simpa using htm))⟩

end S2Proofs.C05
