/-
  S2Proofs.C05.Term — the search loop terminates within `loopFuel`: a popped candidate of level
  `k` is replaced by at most 64 candidates of level `> k`.
-/
import S2Proofs.C05.Sound
open S2 S2.CellID S2.CellUnion S2.Coverer
namespace S2Proofs.C05

variable {Q : Type}

/-- weight of a queued candidate of level `k` -/
def W (k : Nat) : Nat := 65 ^ (31 - k)

theorem W_pos (k : Nat) : 1 ≤ W k := Nat.pow_pos (by omega)
theorem W_anti {k k' : Nat} (h : k ≤ k') : W k' ≤ W k := Nat.pow_le_pow_right (by omega) (by omega)
theorem W_step {k : Nat} (h : k ≤ 30) : 64 * W (k + 1) + 1 ≤ W k := by
  unfold W
  have e : 31 - k = (31 - (k + 1)) + 1 := by omega
  rw [e, Nat.pow_succ]
  have := Nat.pow_pos (n := 31 - (k+1)) (show 0 < 65 by omega)
  omega
theorem W_le (k : Nat) : W k ≤ 65 ^ 31 := Nat.pow_le_pow_right (by omega) (by omega)

def mu {ops : PQOps Q} (law : LawfulPQ ops) (q : Q) : Nat := ((law.toList q).map (fun c => W (level c.id))).sum

theorem flatMap_four_length {β} (id : CellID) (f : CellID → List β) (B : Nat) (hf : ∀ ci, (f ci).length ≤ B) :
    ((childrenList id).flatMap f).length ≤ 4 * B := by
  unfold childrenList
  generalize children id = q
  obtain ⟨c0, c1, c2, c3⟩ := q
  simp only [List.flatMap_cons, List.flatMap_nil, List.length_append, List.append_nil]
  have h0 := hf c0; have h1 := hf c1; have h2 := hf c2; have h3 := hf c3
  omega

theorem expandChildren_length {cfg : Config} {interior : Bool} {R : Region} :
    ∀ (m : Nat) (id : CellID), (expandChildren cfg interior R m id).length ≤ 4 ^ m := by
  intro m
  induction m with
  | zero => intro id; simp [expandChildren]
  | succ m ih =>
    intro id
    rw [expandChildren, Nat.pow_succ, Nat.mul_comm]
    apply flatMap_four_length
    intro ci
    by_cases hm : m > 0
    · simp only [hm, if_true]
      split
      · exact ih ci
      · simp
    · simp only [hm, if_false]
      have := Nat.pow_pos (n := m) (show 0 < 4 by omega)
      split <;> simp <;> omega

/-- side invariant for termination -/
def TermCand (cfg : Config) (cand : Cand) : Prop :=
  LvCand cfg cand ∧ cand.children.length ≤ 64 ∧ level cand.id ≤ 30 ∧
    ∀ ch ∈ cand.children, level cand.id < level ch.id

theorem term_closure {cfg : Config} (h : CfgOK cfg) (interior : Bool) (R : Region) :
    Closure cfg interior R (fun _ => True) (TermCand cfg) (LvChild cfg) where
  term := fun _ _ _ => trivial
  expand := by
    intro ch hch ht children hc hlen
    refine ⟨fun _ _ _ => trivial, fun p => ⟨((levels_closure h interior R).expand ch hch ht children hc hlen).2 p, ?_⟩⟩
    obtain ⟨k, hg, hp⟩ := hch
    have hnt := hg.nonterm ht
    have hmin := h.min_le; have hmax := h.max_le
    have hmod := h.mod_ge; have hmod3 := h.mod_le
    simp only []
    rw [hg.cell.level_eq] at hc ⊢
    refine ⟨?_, hg.cell.k_le, ?_⟩
    · rw [hc]
      refine Nat.le_trans (expandChildren_length _ _) ?_
      split
      · omega
      · have : cfg.levelMod = 1 ∨ cfg.levelMod = 2 ∨ cfg.levelMod = 3 := by omega
        rcases this with e | e | e <;> rw [e] <;> omega
    · intro c hcm
      rw [hc] at hcm
      by_cases hlt : k < cfg.minLevel
      · simp only [hlt, if_true] at hcm
        have := (expandChildren_good 1 ch.id k hg.cell (by omega) c hcm).cell
        rw [this.level_eq]; omega
      · simp only [hlt, if_false] at hcm
        have := (expandChildren_good cfg.levelMod ch.id k hg.cell (by omega) c hcm).cell
        rw [this.level_eq]; omega
  kids := fun cand hc => hc.1.2
  self := fun _ _ _ _ => trivial

section
variable {ops : PQOps Q} (law : LawfulPQ ops) {cfg : Config} {interior : Bool} {R : Region}

theorem mu_push (q : Q) (c : Cand) : mu law (ops.push q c) = W (level c.id) + mu law q := by
  unfold mu
  rw [List.Perm.sum_nat ((law.push_perm q c).map _)]
  simp

theorem mu_pop {q q' : Q} {c : Cand} (h : ops.pop? q = some (c, q')) : mu law q = W (level c.id) + mu law q' := by
  unfold mu
  rw [List.Perm.sum_nat ((law.pop_perm q c q' h).map _)]
  simp

theorem addCandidate_mu (st : St Q) (ch : Child) :
    mu law (addCandidate ops cfg interior R st ch).pq ≤ mu law st.pq + W (level ch.id) := by
  unfold addCandidate
  split
  · simp
  · simp only []
    generalize expandChildren cfg interior R (if level ch.id < cfg.minLevel then 1 else cfg.levelMod) ch.id = children
    split
    · simp
    · split
      · simp
      · simp only []
        rw [mu_push]; simp only []; omega

theorem foldl_mu (k : Nat) : ∀ (chs : List Child) (st : St Q), (∀ ch ∈ chs, k < level ch.id) →
    mu law (chs.foldl (fun st ch =>
        if !interior || (st.result.length : Int) < cfg.maxCells then addCandidate ops cfg interior R st ch else st) st).pq
      ≤ mu law st.pq + chs.length * W (k + 1) := by
  intro chs
  induction chs with
  | nil => intro st _; simp
  | cons ch t ih =>
    intro st hall
    simp only [List.foldl_cons, List.length_cons]
    refine Nat.le_trans (ih _ (fun c hc => hall c (by simp [hc]))) ?_
    have hW : W (level ch.id) ≤ W (k + 1) := W_anti (hall ch (by simp))
    have : mu law (if (!interior || decide ((st.result.length : Int) < cfg.maxCells)) = true
        then addCandidate ops cfg interior R st ch else st).pq ≤ mu law st.pq + W (k + 1) := by
      split
      · exact Nat.le_trans (addCandidate_mu law st ch) (by omega)
      · omega
    rw [Nat.add_mul, Nat.one_mul]; omega

/-- the loop condition of `coveringInternal` -/
def loopCond (ops : PQOps Q) (cfg : Config) (interior : Bool) (st : St Q) : Bool :=
  ops.size st.pq > 0 && (!interior || (st.result.length : Int) < cfg.maxCells)

/-- with more fuel than the weight of the queue, the loop ends because its own condition fails -/
theorem coverLoop_exit (h : CfgOK cfg) :
    ∀ (fuel : Nat) (st : St Q), StInv law (fun _ => True) (TermCand cfg) st → mu law st.pq < fuel →
      loopCond ops cfg interior (coverLoop ops cfg interior R fuel st) = false := by
  intro fuel
  induction fuel with
  | zero => intro st _ hlt; omega
  | succ fuel ih =>
    intro st hinv hlt
    unfold coverLoop
    split
    · rename_i hcond
      split
      · rename_i hpop
        exfalso
        have h0 := law.pop_none _ hpop
        have hs := law.size_eq st.pq
        rw [h0] at hs
        simp only [Bool.and_eq_true, decide_eq_true_eq] at hcond
        simp at hs; omega
      · rename_i cand q hpop
        have hperm := law.pop_perm _ _ _ hpop
        have hcand : TermCand cfg cand := hinv.2 cand (hperm.mem_iff.mpr (by simp))
        have hst' : StInv law (fun _ => True) (TermCand cfg) { st with pq := q } :=
          ⟨hinv.1, fun c hc => hinv.2 c (hperm.mem_iff.mpr (by simp [hc]))⟩
        have hmu := mu_pop law hpop
        have hstep := W_step hcand.2.2.1
        simp only []
        split
        · apply ih
          · exact foldl_addCandidate_inv law (term_closure h interior R) _ _ hst' ((term_closure h interior R).kids cand hcand)
          · have hf := foldl_mu law (cfg := cfg) (interior := interior) (R := R) (level cand.id) cand.children { st with pq := q } hcand.2.2.2
            have hlen : cand.children.length * W (level cand.id + 1) ≤ 64 * W (level cand.id + 1) :=
              Nat.mul_le_mul_right _ hcand.2.1
            simp only [] at hf
            omega
        · apply ih
          · exact ⟨fun _ _ => trivial, hst'.2⟩
          · simp only []
            have := W_pos (level cand.id)
            omega
    · rename_i hcond
      unfold loopCond
      simpa using hcond

theorem adjustCellLevels_length (cfg : Config) (start : CU) : (adjustCellLevels cfg start).length ≤ start.length := by
  unfold adjustCellLevels
  split
  · omega
  · rw [List.length_reverse]
    have : ∀ (cells out : List CellID), (cells.foldl (adjustStep cfg) out).length ≤ out.length + cells.length := by
      intro cells
      induction cells with
      | nil => intro out; simp
      | cons x t ih =>
        intro out
        simp only [List.foldl_cons, List.length_cons]
        refine Nat.le_trans (ih _) ?_
        have : (adjustStep cfg out x).length ≤ out.length + 1 := by
          rw [adjustStep_eq]
          cases out with
          | nil => simp
          | cons last tl =>
            simp only []
            split
            · omega
            · have := (List.dropWhile_sublist (fun o => contains (adj cfg x) o) (l := last :: tl)).length_le
              simp only [List.length_cons] at this ⊢
              omega
        omega
    have := this start []
    simpa using this

theorem initState_mu (start : CU) :
    mu law (initState ops cfg interior R start).pq < loopFuel start := by
  unfold initState loopFuel
  have : ∀ (l : List CellID) (st : St Q),
      mu law (l.foldl (addStart ops cfg interior R) st).pq ≤ mu law st.pq + l.length * 65 ^ 31 := by
    intro l
    induction l with
    | nil => intro st; simp
    | cons ci t ih =>
      intro st
      simp only [List.foldl_cons, List.length_cons]
      refine Nat.le_trans (ih _) ?_
      have : mu law (addStart ops cfg interior R st ci).pq ≤ mu law st.pq + 65 ^ 31 := by
        unfold addStart
        split
        · omega
        · rename_i ch _
          exact Nat.le_trans (addCandidate_mu law st ch) (by have := W_le (level ch.id); omega)
      rw [Nat.add_mul, Nat.one_mul]; omega
  have h1 := this (adjustCellLevels cfg start) ⟨[], ops.empty⟩
  have h0 : mu law (⟨[], ops.empty⟩ : St Q).pq = 0 := by
    unfold mu; simp only []; rw [law.empty_toList]; rfl
  have hl := adjustCellLevels_length cfg start
  have hle : (adjustCellLevels cfg start).length * 65 ^ 31 ≤ start.length * 65 ^ 31 := Nat.mul_le_mul_right _ hl
  have hpos : 0 < 65 ^ 31 := Nat.pow_pos (by omega)
  rw [Nat.add_mul, Nat.one_mul]
  omega
end

end S2Proofs.C05
