/-
  S2Proofs.C05.Canonical — soundness direction of `isCanonical`.
-/
import S2Proofs.C05.Basic
open S2 S2.CellID S2.CellUnion S2.Coverer
namespace S2Proofs.C05

theorem canonStep_some {cfg : Config} {tm : Bool} {prev : CellID} {cnt : Nat} {id p' : CellID} {c' : Nat}
    (h : canonStep cfg tm (some (prev, cnt)) id = some (p', c')) :
    p' = id ∧ isValid id = true ∧ cfg.minLevel ≤ level id ∧ (level id : Int) ≤ trueMax cfg ∧
      (cfg.levelMod > 1 → (level id - cfg.minLevel) % cfg.levelMod = 0) ∧
      (prev ≠ 0 → rangeMax prev < rangeMin id) := by
  unfold canonStep at h
  simp only [] at h
  split at h
  · cases h
  · rename_i hv
    split at h
    · cases h
    · rename_i hl
      split at h
      · cases h
      · rename_i hm
        have hv' : isValid id = true := by simpa using hv
        simp only [Bool.or_eq_true, decide_eq_true_eq, not_or, Int.not_lt, gt_iff_lt] at hl
        have hm' : cfg.levelMod > 1 → (level id - cfg.minLevel) % cfg.levelMod = 0 := by
          intro h1
          simpa [h1] using hm
        have hbase : isValid id = true ∧ cfg.minLevel ≤ level id ∧ (level id : Int) ≤ trueMax cfg ∧
            (cfg.levelMod > 1 → (level id - cfg.minLevel) % cfg.levelMod = 0) :=
          ⟨hv', by omega, hl.2, hm'⟩
        obtain ⟨b1, b2, b3, b4⟩ := hbase
        split at h
        · rename_i hp
          split at h
          · cases h
          · rename_i hr
            have hr' : rangeMax prev < rangeMin id := by
              simpa [UInt64.not_le] using hr
            have hfin : ∀ (bad : Bool), (if bad = true then none
                else if (decide (level id < cfg.minLevel + cfg.levelMod) || level id != level prev ||
                    parent id (level id - cfg.levelMod) != parent prev (level id - cfg.levelMod)) = true
                  then some (id, 1)
                else if (cnt + 1 == 1 <<< (2 * cfg.levelMod)) = true then none else some (id, cnt + 1))
                  = some (p', c') → p' = id := by
              intro bad hb
              split at hb
              · cases hb
              · split at hb
                · simp only [Option.some.injEq, Prod.mk.injEq] at hb; exact hb.1.symm
                · split at hb
                  · cases hb
                  · simp only [Option.some.injEq, Prod.mk.injEq] at hb; exact hb.1.symm
            exact ⟨hfin _ h, b1, b2, b3, b4, fun _ => hr'⟩
        · rename_i hp
          simp only [Option.some.injEq, Prod.mk.injEq] at h
          refine ⟨h.1.symm, b1, b2, b3, b4, fun hne => ?_⟩
          exfalso; apply hp; simpa using hne

theorem foldl_canonStep_none (cfg : Config) (tm : Bool) (l : List CellID) :
    l.foldl (canonStep cfg tm) none = none := by
  induction l with
  | nil => rfl
  | cons x t ih => simpa [List.foldl_cons, canonStep] using ih

/-- the level clauses checked by `isCanonical` -/
def CanonLevel (cfg : Config) (c : CellID) : Prop :=
  isValid c = true ∧ cfg.minLevel ≤ level c ∧ ((level c : Int) ≤ trueMax cfg) ∧
    (level c - cfg.minLevel) % cfg.levelMod = 0

theorem range_trans {a b c : CellID} (hb : isValid b = true) (h1 : rangeMax a < rangeMin b)
    (h2 : rangeMax b < rangeMin c) : rangeMax a < rangeMin c := by
  obtain ⟨k, hk⟩ := (isValid_iff b).mp hb
  have := hk.rangeMin_le
  rw [UInt64.lt_iff_toNat_lt] at *
  omega

theorem foldl_canonStep_some {cfg : Config} (h : CfgOK cfg) (tm : Bool) : ∀ (l : List CellID) (prev : CellID) (cnt : Nat),
    (l.foldl (canonStep cfg tm) (some (prev, cnt))).isSome = true →
    (∀ c ∈ l, CanonLevel cfg c) ∧ List.Pairwise (fun a b => rangeMax a < rangeMin b) l ∧
      (prev ≠ 0 → ∀ c ∈ l, rangeMax prev < rangeMin c) := by
  intro l
  induction l with
  | nil => intro prev cnt _; simp
  | cons id t ih =>
    intro prev cnt hs
    simp only [List.foldl_cons] at hs
    cases hstep : canonStep cfg tm (some (prev, cnt)) id with
    | none => rw [hstep, foldl_canonStep_none] at hs; cases hs
    | some pc =>
      obtain ⟨p', c'⟩ := pc
      rw [hstep] at hs
      obtain ⟨rfl, hv, hmin, hmax, hmod, hr⟩ := canonStep_some hstep
      obtain ⟨hall, hpw, hnext⟩ := ih _ _ hs
      have hne : p' ≠ 0 := by
        intro h0; subst h0; revert hv; decide
      have hnext' := hnext hne
      have hlev : CanonLevel cfg p' := by
        refine ⟨hv, hmin, hmax, ?_⟩
        by_cases h1 : cfg.levelMod > 1
        · exact hmod h1
        · have : cfg.levelMod = 1 := by have := h.mod_ge; omega
          rw [this, Nat.mod_one]
      refine ⟨?_, ?_, ?_⟩
      · intro c hc
        simp only [List.mem_cons] at hc
        rcases hc with rfl | hc
        · exact hlev
        · exact hall c hc
      · exact List.pairwise_cons.mpr ⟨hnext', hpw⟩
      · intro hp c hc
        simp only [List.mem_cons] at hc
        rcases hc with rfl | hc
        · exact hr hp
        · exact range_trans hv (hr hp) (hnext' c hc)

/-- SOUNDNESS of `isCanonical`: a covering it accepts consists of valid cells on the level grid
    between `minLevel` and `trueMax`, sorted and pairwise disjoint (`rangeMax a < rangeMin b` for
    every earlier `a` and later `b`). -/
theorem isCanonical_levels {cfg : Config} (h : CfgOK cfg) (cov : CU) (hc : isCanonical cfg cov = true) :
    (∀ c ∈ cov, isValid c = true ∧ cfg.minLevel ≤ level c ∧ ((level c : Int) ≤ trueMax cfg) ∧
        (level c - cfg.minLevel) % cfg.levelMod = 0)
    ∧ List.Pairwise (fun a b => rangeMax a < rangeMin b) cov := by
  unfold isCanonical at hc
  obtain ⟨h1, h2, _⟩ := foldl_canonStep_some h _ cov 0 1 hc
  exact ⟨h1, h2⟩

/-- non-vacuity: a two-cell covering accepted by `isCanonical` (MinLevel 1, LevelMod 2, MaxCells 8) -/
example : CfgOK (newCoverer ⟨1, 30, 2, 8⟩) ∧
    isCanonical (newCoverer ⟨1, 30, 2, 8⟩) [child (fromFace 0) 0, child (child (child (fromFace 0) 2) 1) 3] = true :=
  ⟨newCoverer_ok _, by decide +kernel⟩

/-- ... and a rejected one: overlapping cells -/
example : isCanonical (newCoverer ⟨0, 30, 1, 8⟩) [fromFace 0, child (fromFace 0) 2] = false := by decide +kernel

end S2Proofs.C05
