/-
  S2Proofs.C05.Regions — the region hypotheses of C05 (`IntersectsSafe`, `ContainsSafe`) discharged
  for the two regions whose predicates are exact id arithmetic: `cellRegion id` (s2.Cell) and
  `cellUnionRegion cu` (*s2.CellUnion).  Point set: the LEAF ids (odd numbers) covered.
-/
import S2Proofs.Properties.C05
import S2.CovererRegions
open S2 S2.CellID S2.CellUnion S2.Coverer
namespace S2Proofs.C05

/-- the leaf set of a cell union, as a predicate on (odd) leaf ids -/
def LeafIn (cu : CU) (n : Nat) : Prop := coversLeaf cu n = true

theorem leafIn_iff (cu : CU) (n : Nat) : LeafIn cu n ↔ Covered cu n := coversLeaf_iff cu n

theorem leafIn_single (id : CellID) (n : Nat) : LeafIn [id] n ↔ InCell id n := by
  rw [leafIn_iff]; unfold Covered; simp

/-! ### transport along the point set -/

theorem IntersectsSafe.congr {R : Region} {P P' : Nat → Prop} (h : IntersectsSafe R P) (hPP : ∀ n, P' n → P n) :
    IntersectsSafe R P' :=
  fun c hc hno n hn hin hP' => h c hc hno n hn hin (hPP n hP')

theorem ContainsSafe.congr {R : Region} {P P' : Nat → Prop} (h : ContainsSafe R P) (hPP : ∀ n, P n → P' n) :
    ContainsSafe R P' :=
  fun c hc hyes n hn hin => hPP n (h c hc hyes n hn hin)

theorem isValidCU_single (id : CellID) : isValidCU [id] = isValid id := by
  simp [isValidCU, isValidCU.go]

/-! ### a single cell -/

/-- `Cell.IntersectsCell` answers *no* only for cells sharing no leaf with the region cell
    (no validity needed: it is a comparison of the two leaf ranges) -/
theorem cellRegion_intersectsSafe (id : CellID) : IntersectsSafe (cellRegion id) (InCell id) := by
  intro c _ hno n _ hc hid
  have : ¬ (intersects id c = true) := by simpa [cellRegion] using hno
  rw [intersects_iff] at this
  unfold InCell at hc hid
  omega

/-- `Cell.ContainsCell` answers *yes* only for cells all of whose leaves are leaves of the region cell -/
theorem cellRegion_containsSafe {id : CellID} (hid : isValid id = true) : ContainsSafe (cellRegion id) (InCell id) := by
  intro c hc hyes n _ hin
  have h : contains id c = true := hyes
  have := (contains_range hid hc).mp h
  unfold InCell at hin ⊢
  unfold lo hi at this
  omega

/-! ### a cell union: `sort.Search` facts that need no sortedness -/

/-- what `sort.Search` guarantees on ANY slice: the returned index is `n` or satisfies the test, and
    its predecessor (if any) fails the test -/
theorem searchGT_go_local (a : Array CellID) (id : CellID) : ∀ (fuel i j : Nat), i ≤ j → j ≤ a.size →
    j - i ≤ fuel → (i = 0 ∨ ¬ id < a[i-1]!) → (j = a.size ∨ id < a[j]!) →
    searchGT.go a id fuel i j ≤ a.size ∧
      (searchGT.go a id fuel i j = 0 ∨ ¬ id < a[searchGT.go a id fuel i j - 1]!) ∧
      (searchGT.go a id fuel i j = a.size ∨ id < a[searchGT.go a id fuel i j]!) := by
  intro fuel
  induction fuel with
  | zero =>
    intro i j hij hj hf h1 h2
    have : i = j := by omega
    subst this
    unfold searchGT.go
    exact ⟨hj, h1, h2⟩
  | succ fuel ih =>
    intro i j hij hj hf h1 h2
    unfold searchGT.go
    by_cases hlt : i < j
    · simp only [hlt, ↓reduceIte]
      by_cases hc : id < a[(i + j) / 2]!
      · simp only [hc, decide_true, Bool.not_true, Bool.false_eq_true, ↓reduceIte]
        exact ih i ((i + j) / 2) (by omega) (by omega) (by omega) h1 (Or.inr hc)
      · simp only [hc, decide_false, Bool.not_false, ↓reduceIte]
        exact ih ((i + j) / 2 + 1) j (by omega) hj (by omega) (Or.inr (by simpa using hc)) h2
    · have : i = j := by omega
      subst this
      simp only [hlt, ↓reduceIte]
      exact ⟨hj, h1, h2⟩

theorem searchGT_local (a : Array CellID) (id : CellID) :
    searchGT a id ≤ a.size ∧ (searchGT a id = 0 ∨ ¬ id < a[searchGT a id - 1]!) ∧
      (searchGT a id = a.size ∨ id < a[searchGT a id]!) :=
  searchGT_go_local a id a.size 0 a.size (Nat.zero_le _) (Nat.le_refl _) (by omega) (Or.inl rfl) (Or.inl rfl)

/-- `ContainsCellID = true` exhibits a member whose range holds the id — on ANY list (sorted or not) -/
theorem containsCellID_witness (cu : CU) (id : CellID) (h : containsCellID cu id = true) :
    ∃ c ∈ cu, (lo c ≤ id.toNat ∧ id < c) ∨ (c ≤ id ∧ id.toNat ≤ hi c) := by
  obtain ⟨r1, r2, r3⟩ := searchGT_local cu.toArray id
  unfold containsCellID at h
  simp only [List.size_toArray, List.getElem!_toArray] at h r1 r2 r3
  generalize searchGT cu.toArray id = i at h r1 r2 r3
  split at h
  · rename_i hc
    simp only [Bool.and_eq_true, bne_iff_ne, ne_eq, decide_eq_true_eq] at hc
    have hlt : i < cu.length := by omega
    refine ⟨cu[i]!, (mem_iff_idx cu _).mpr ⟨i, hlt, rfl⟩, Or.inl ⟨UInt64.le_iff_toNat_le.mp hc.2, ?_⟩⟩
    rcases r3 with r3 | r3
    · omega
    · exact r3
  · simp only [Bool.and_eq_true, bne_iff_ne, ne_eq, decide_eq_true_eq, ge_iff_le] at h
    have hlt : i - 1 < cu.length := by omega
    refine ⟨cu[i-1]!, (mem_iff_idx cu _).mpr ⟨i-1, hlt, rfl⟩, Or.inr ⟨?_, UInt64.le_iff_toNat_le.mp h.2⟩⟩
    rcases r2 with r2 | r2
    · omega
    · exact UInt64.not_lt.mp r2

/-- `CellUnion.ContainsCell` answers *yes* only for cells all of whose leaves are covered, for EVERY
    list of valid cells — sorted or not, normalized or not (the caveat in cellunion.go is about
    false negatives only) -/
theorem cellUnionRegion_containsSafe {cu : CU} (hv : ∀ c ∈ cu, isValid c = true) :
    ContainsSafe (cellUnionRegion cu) (LeafIn cu) := by
  intro id hid hyes n _ hin
  have h : containsCellID cu id = true := hyes
  obtain ⟨c, hc, hw⟩ := containsCellID_witness cu id h
  have fc := valid_facts (hv c hc)
  have fid := valid_facts hid
  have hcon : contains c id = true := by
    rw [contains_iff]
    rcases hw with ⟨h1, h2⟩ | ⟨h1, h2⟩
    · have := UInt64.lt_iff_toNat_lt.mp h2; unfold lo hi at *; omega
    · have := UInt64.le_iff_toNat_le.mp h1; unfold lo hi at *; omega
  have := (contains_range (hv c hc) hid).mp hcon
  rw [leafIn_iff]
  refine ⟨c, hc, ?_⟩
  unfold InCell at hin ⊢
  unfold lo hi at this
  omega

/-- `CellUnion.IntersectsCell` answers *no* only for cells sharing no leaf with the union, for every
    VALID union (sorted, disjoint; normalization is not needed) -/
theorem cellUnionRegion_intersectsSafe {cu : CU} (hcu : isValidCU cu = true) :
    IntersectsSafe (cellUnionRegion cu) (LeafIn cu) := by
  intro id hid hno n hn hin hP
  have h : ¬ (intersectsCellID cu id = true) := by
    have : intersectsCellID cu id = false := hno
    simp [this]
  apply h
  rw [S2Proofs.C11.intersectsCellID_iff cu id hcu hid]
  exact ⟨n, hn, (leafIn_single id n).mpr hin, hP⟩

/-! ### `FastCovering` never loses a leaf of its bound -/

/-- every (odd) leaf covered by `a` is covered by `b` -/
def Sub (a b : CU) : Prop := ∀ n, n % 2 = 1 → Covered a n → Covered b n

theorem Sub.refl (a : CU) : Sub a a := fun _ _ h => h
theorem Sub.trans {a b c : CU} (h1 : Sub a b) (h2 : Sub b c) : Sub a c := fun n hn h => h2 n hn (h1 n hn h)

theorem sub_iff_leavesSubset (a b : CU) : Sub a b ↔ S2Proofs.C11.LeavesSubset a b := by
  unfold Sub S2Proofs.C11.LeavesSubset
  simp only [coversLeaf_iff]

theorem sub_of_sameLeaves {a b : CU} (h : S2Proofs.C11.SameLeaves b a) : Sub a b := by
  intro n hn hc
  rw [← coversLeaf_iff] at hc ⊢
  rw [h n hn]; exact hc

/-- first block of `normalizeCovering`: replacing cells by ancestors loses nothing -/
theorem clampLevels_sub (cfg : Config) (cov : CU) (hb : ∀ c ∈ cov, isValid c = true) :
    Sub cov (clampLevels cfg cov) := by
  intro n _ hc
  unfold clampLevels
  split
  · obtain ⟨c, hcm, hin⟩ := hc
    obtain ⟨k, hk⟩ := (isValid_iff c).mp (hb c hcm)
    refine ⟨_, List.mem_map.mpr ⟨c, hcm, rfl⟩, ?_⟩
    simp only []
    split
    · rw [hk.level_eq]
      have hle := adjustLevel_le cfg (min k cfg.maxLevel)
      exact parent_sup hk (by omega) hin
    · exact hin
  · exact hc

theorem preNormalize_sub {cfg : Config} (h : CfgOK cfg) (cov : CU) (hb : ∀ c ∈ cov, isValid c = true) :
    Sub cov (preNormalize cfg cov) := by
  have hcl : AllValid (clampLevels cfg cov) := fun c hc => by
    obtain ⟨k, hk, _⟩ := clampLevels_top h cov hb c hc; exact isCell_valid hk
  have h1 := clampLevels_sub cfg cov hb
  have h2 : Sub (clampLevels cfg cov) (normalize (clampLevels cfg cov)) :=
    sub_of_sameLeaves (S2Proofs.C11.normalize_leaves _ hcl)
  unfold preNormalize
  simp only []
  split
  · have hnv := S2Proofs.C11.normalize_allValid _ hcl
    have h3 := (S2Proofs.C11.denormalize_leaves _ cfg.minLevel cfg.levelMod hnv h.min_le ⟨h.mod_ge, h.mod_le⟩).2.1
    exact (h1.trans h2).trans (sub_of_sameLeaves h3)
  · exact h1.trans h2

/-- `replaceCellsWithAncestor` on a valid sorted covering that holds a descendant of `id`: nothing is lost -/
theorem replace_sub {cov : CU} {id : CellID} (hv : AllValid cov) (hs : Sorted cov) (hid : isValid id = true)
    {i : Nat} (hi' : i < cov.length) (hci : contains id cov[i]! = true) :
    Sub cov (replaceCellsWithAncestor cov id) := by
  obtain ⟨b, e, hbi, hie, hel, heq, hbef, haft, hmid⟩ := replace_spec hv hs hid hi' hci
  rw [heq]
  intro n _ ⟨c, hcm, hin⟩
  obtain ⟨t, ht, rfl⟩ := (mem_iff_idx cov c).mp hcm
  by_cases h1 : t < b
  · refine ⟨cov[t]!, ?_, hin⟩
    rw [getElem!_pos cov t ht]
    exact List.mem_append_left _ (List.mem_take_iff_getElem.mpr ⟨t, by omega, rfl⟩)
  · by_cases h2 : t < e
    · refine ⟨id, by simp, ?_⟩
      have := hmid t (by omega) h2
      unfold InCell at hin ⊢
      unfold lo hi at this
      omega
    · refine ⟨cov[t]!, ?_, hin⟩
      rw [getElem!_pos cov t ht]
      apply List.mem_append_right
      apply List.mem_cons_of_mem
      exact List.mem_drop_iff_getElem.mpr ⟨t - e, by omega, by congr 1; omega⟩

theorem mergeUp_sub (cfg : Config) : ∀ (fuel : Nat) (cov : CU) (id : CellID) (bl : Int),
    AllValid cov → Sorted cov → id ∈ cov → (∃ k, IsCell id k ∧ bl ≤ (k : Int)) →
    Sub cov (mergeUp cfg fuel cov id bl) := by
  intro fuel
  induction fuel with
  | zero => intro cov id bl _ _ _ _; exact Sub.refl _
  | succ fuel ih =>
    intro cov id bl hv hs hmem hk
    obtain ⟨k, hid, hbl⟩ := hk
    rw [mergeUp]
    split
    · simp only []
      have hn : (bl - (cfg.levelMod : Int)).toNat ≤ k := by omega
      have hid' := hid.parent_isCell hn
      generalize hpe : parent id (bl - (cfg.levelMod : Int)).toNat = id' at *
      split
      · exact Sub.refl _
      · obtain ⟨t, ht, hte⟩ := mem_idx hmem
        have hvid' : isValid id' = true := (isValid_iff id').mpr ⟨_, hid'⟩
        have hc : contains id' cov[t]! = true := by
          rw [hte]; exact (hid'.contains_iff_parent hid).mpr ⟨hn, hpe⟩
        obtain ⟨r1, r2, r3, r4⟩ := replace_ok hv hs hvid' ht hc
        exact (replace_sub hv hs hvid' ht hc).trans
          (ih _ id' (bl - (cfg.levelMod : Int)) r1 r2 r4 ⟨_, hid', Int.self_le_toNat _⟩)
    · exact Sub.refl _

/-- one round of the outer merge loop loses nothing -/
theorem mergeLoop_round_sub (cfg : Config) {cov : CU} (hv : AllValid cov) (hs : Sorted cov)
    {bi bl : Int} (hbp : bestPair cfg cov = (bi, bl)) (hge : ¬ bl < (cfg.minLevel : Int)) :
    Sub cov (mergeUp cfg 31 (replaceCellsWithAncestor cov (parent (cov.toArray[bi.toNat]!) bl.toNat))
        (parent (cov.toArray[bi.toNat]!) bl.toNat) bl) := by
  have hinv := bestPair_inv cfg cov
  rw [hbp] at hinv
  rcases hinv with hinv | ⟨i, l, hi', hca, hbest⟩
  · simp only [Prod.mk.injEq] at hinv
    omega
  · simp only [Prod.mk.injEq] at hbest
    obtain ⟨rfl, rfl⟩ := hbest
    simp only [Int.toNat_natCast, List.getElem!_toArray] at *
    simp only [List.size_toArray] at hi'
    obtain ⟨hval, _⟩ := cov_idx_facts hv hs
    obtain ⟨kx, hx⟩ := (isValid_iff _).mp (hval i (by omega))
    obtain ⟨ky, hy⟩ := (isValid_iff _).mp (hval (i+1) hi')
    obtain ⟨l1, l2, _⟩ := commonAncestorLevel_spec hx hy hca
    have hal := adjustLevel_le cfg l
    have hid : IsCell (parent cov[i]! (adjustLevel cfg l)) (adjustLevel cfg l) := hx.parent_isCell (by omega)
    generalize hide : parent cov[i]! (adjustLevel cfg l) = id at *
    have hvid : isValid id = true := (isValid_iff id).mpr ⟨_, hid⟩
    have hcx : contains id cov[i]! = true := (hid.contains_iff_parent hx).mpr ⟨by omega, hide⟩
    obtain ⟨r1, r2, _, r4⟩ := replace_ok hv hs hvid (by omega : i < cov.length) hcx
    exact (replace_sub hv hs hvid (by omega : i < cov.length) hcx).trans
      (mergeUp_sub cfg 31 _ id (adjustLevel cfg l : Int) r1 r2 r4 ⟨_, hid, Int.le_refl _⟩)

/-- the merge loop of `normalizeCovering` loses nothing -/
theorem mergeLoop_sub (cfg : Config) : ∀ (fuel : Nat) (cov : CU), AllValid cov → Sorted cov →
    Sub cov (mergeLoop cfg fuel cov) := by
  intro fuel
  induction fuel with
  | zero => intro cov _ _; exact Sub.refl _
  | succ fuel ih =>
    intro cov hv hs
    rw [mergeLoop]
    split
    · generalize hbp : bestPair cfg cov = best
      obtain ⟨bi, bl⟩ := best
      simp only []
      split
      · exact Sub.refl _
      · rename_i hge
        obtain ⟨q1, q2, _⟩ := mergeLoop_round_shrinks cfg hv hs hbp hge
        exact (mergeLoop_round_sub cfg hv hs hbp hge).trans (ih _ q1 q2)
    · exact Sub.refl _

/-- `normalizeCovering` loses nothing of its bound, for ANY `recover` that loses nothing on the valid
    on-grid coverings it is handed -/
theorem normalizeCovering_sub {cfg : Config} (h : CfgOK cfg) (recover : CU → CU) (bound : CU)
    (hb : ∀ c ∈ bound, isValid c = true)
    (hrec : ∀ cov, AllValid cov → Sorted cov → Sub cov (recover cov)) :
    Sub bound (normalizeCovering cfg recover bound) := by
  have hpre := preNormalize_sub h bound hb
  have hcl : AllValid (clampLevels cfg bound) := fun c hc => by
    obtain ⟨k, hk, _⟩ := clampLevels_top h bound hb c hc; exact isCell_valid hk
  have hvalid : isValidCU (preNormalize cfg bound) = true := by
    have hn := S2Proofs.C11.normalize_isValidCU _ hcl
    unfold preNormalize
    simp only []
    split
    · exact S2Proofs.C11.denormalize_valid _ _ _ hn h.min_le ⟨h.mod_ge, h.mod_le⟩
    · exact hn
  obtain ⟨hv, hs⟩ := (isValidCU_iff _).mp hvalid
  unfold normalizeCovering
  simp only []
  generalize preNormalize cfg bound = cov at *
  split
  · exact hpre
  · split
    · exact hpre.trans (hrec cov hv hs)
    · exact hpre.trans (mergeLoop_sub cfg _ cov hv hs)

/-- what is assumed of `(&cu).CellUnionBound()` (= `cu.CapBound().CellUnionBound()`, float geometry, outside
    the id algebra): valid cells that cover the union -/
structure GeoSound (geo : CU → CU) : Prop where
  valid : ∀ cu, ∀ c ∈ geo cu, isValid c = true
  covers : ∀ cu, isValidCU cu = true → Sub cu (geo cu)

/-- `normalizeCovering` with the re-cover recursion of the code (any depth) loses nothing of its bound -/
theorem normalizeCoveringRec_sub {geo : CU → CU} (hgeo : GeoSound geo) :
    ∀ (fuel : Nat) (cfg : Config), CfgOK cfg → ∀ (cov : CU), (∀ c ∈ cov, isValid c = true) →
      Sub cov (normalizeCoveringRec fuel geo cfg cov) := by
  intro fuel
  induction fuel with
  | zero =>
    intro cfg h cov hb
    unfold normalizeCoveringRec
    exact normalizeCovering_sub h _ cov hb (fun c _ _ => Sub.refl c)
  | succ fuel ih =>
    intro cfg h cov hb
    unfold normalizeCoveringRec
    apply normalizeCovering_sub h _ cov hb
    intro cu hv hs n hn hc
    have hcu : isValidCU cu = true := (isValidCU_iff cu).mpr ⟨hv, hs⟩
    unfold recoverOwn
    have hst : StartOK (newCoverer (optionsOf cfg))
        (normalizeCoveringRec fuel geo (newCoverer (tempOptions cfg)) (geo cu)) := by
      rw [newCoverer_optionsOf h]
      exact startOK_of_temp_res h (normalizeCoveringRec_res geo hgeo.valid fuel _ (newCoverer_ok _) _ (hgeo.valid cu))
    have := covering_covers_heap (optionsOf cfg) (cellUnionRegion cu) (LeafIn cu)
      (cellUnionRegion_intersectsSafe hcu) _ hst
      (fun m hm hP => (coversLeaf_iff _ _).mpr
        (ih _ (newCoverer_ok _) (geo cu) (hgeo.valid cu) m hm (hgeo.covers cu hcu m hm ((leafIn_iff cu m).mp hP))))
      n hn ((leafIn_iff cu n).mpr hc)
    exact (coversLeaf_iff _ _).mp this.1

end S2Proofs.C05
