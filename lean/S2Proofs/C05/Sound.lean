/-
  S2Proofs.C05.Sound — the search never loses a point of the region (exterior coverings), for
  every lawful queue; interior coverings only return cells the region reports as contained.
-/
import S2Proofs.C05.Levels
import S2Proofs.C05.Geom
open S2 S2.CellID S2.CellUnion S2.Coverer
namespace S2Proofs.C05

variable {Q : Type}

/-- `IntersectsCell` is one-sidedly safe w.r.t. the leaf set `P`: a valid cell reported as not
    intersecting contains no leaf of the region. -/
def IntersectsSafe (R : Region) (P : Nat → Prop) : Prop :=
  ∀ c, isValid c = true → R.intersectsCell c = false → ∀ n, n % 2 = 1 → InCell c n → ¬ P n

/-- `ContainsCell` is one-sidedly safe: all leaves of a valid cell reported as contained are in the region. -/
def ContainsSafe (R : Region) (P : Nat → Prop) : Prop :=
  ∀ c, isValid c = true → R.containsCell c = true → ∀ n, n % 2 = 1 → InCell c n → P n

theorem isCell_valid {c : CellID} {k : Nat} (h : IsCell c k) : isValid c = true := (isValid_iff c).mpr ⟨k, h⟩

theorem child_mem_childrenList (id : CellID) {t : Nat} (ht : t < 4) : child id t ∈ childrenList id := by
  unfold childrenList child
  generalize children id = q
  obtain ⟨c0, c1, c2, c3⟩ := q
  have ht' : t = 0 ∨ t = 1 ∨ t = 2 ∨ t = 3 := by omega
  rcases ht' with rfl | rfl | rfl | rfl <;> simp

theorem newCandidate_none {cfg : Config} {R : Region} {id : CellID}
    (h : newCandidate cfg false R id = none) : R.intersectsCell id = false := by
  unfold newCandidate at h
  cases hI : R.intersectsCell id
  · rfl
  · exfalso
    cases hC : R.containsCell id <;>
      by_cases hge : level id ≥ cfg.minLevel <;> by_cases hmx : level id + cfg.levelMod > cfg.maxLevel <;>
      simp [hI, hC, hge, hmx] at h

section
variable {cfg : Config} {R : Region} {P : Nat → Prop}

/-- the children produced by `expandChildren` cover every region leaf of the expanded cell -/
theorem expandChildren_covers (hI : IntersectsSafe R P) :
    ∀ (m : Nat) (id : CellID) (k : Nat), IsCell id k → k + (m + 1) ≤ 30 →
      ∀ n, n % 2 = 1 → P n → InCell id n →
      ∃ ch ∈ expandChildren cfg false R (m + 1) id, InCell ch.id n := by
  intro m
  induction m with
  | zero =>
    intro id k hid hk n hn hP hin
    obtain ⟨t, ht, hct⟩ := child_tiles hid (by omega) hn hin
    have hc := hid.child_isCell (by omega) ht
    simp only [expandChildren, List.mem_flatMap]
    cases hnc : newCandidate cfg false R (child id t) with
    | none => exact absurd hP (hI _ (isCell_valid hc) (newCandidate_none hnc) n hn hct)
    | some ch =>
      refine ⟨ch, ⟨child id t, ?_, ?_⟩, ?_⟩
      · exact child_mem_childrenList id ht
      · simp [hnc]
      · rw [newCandidate_id hnc]; exact hct
  | succ m ih =>
    intro id k hid hk n hn hP hin
    obtain ⟨t, ht, hct⟩ := child_tiles hid (by omega) hn hin
    have hc := hid.child_isCell (by omega) ht
    have hint : R.intersectsCell (child id t) = true := by
      cases hh : R.intersectsCell (child id t)
      · exact absurd hP (hI _ (isCell_valid hc) hh n hn hct)
      · rfl
    obtain ⟨ch, hch, hchin⟩ := ih (child id t) (k + 1) hc (by omega) n hn hP hct
    refine ⟨ch, ?_, hchin⟩
    rw [expandChildren]
    simp only [List.mem_flatMap]
    refine ⟨child id t, ?_, ?_⟩
    · exact child_mem_childrenList id ht
    · simp only [show m + 1 > 0 by omega, if_true, hint]
      exact hch

/-- all cells produced by `expandChildren` lie inside the expanded cell -/
theorem expandChildren_nested {interior : Bool} :
    ∀ (m : Nat) (id : CellID) (k : Nat), IsCell id k → k + m ≤ 30 →
      ∀ ch ∈ expandChildren cfg interior R m id, ∀ n, InCell ch.id n → InCell id n := by
  intro m
  induction m with
  | zero => intro id k _ _ ch h; simp [expandChildren] at h
  | succ m ih =>
    intro id k hid hk ch h n hin
    simp only [expandChildren, List.mem_flatMap] at h
    obtain ⟨ci, hci, hch⟩ := h
    obtain ⟨t, ht, rfl⟩ := mem_childrenList hci
    have hc := hid.child_isCell (by omega) ht
    by_cases hm : m > 0
    · simp only [hm, if_true] at hch
      split at hch
      · exact child_sub hid (by omega) ht (ih _ (k+1) hc (by omega) ch hch n hin)
      · simp at hch
    · simp only [hm, if_false] at hch
      split at hch
      · rename_i c hc'
        simp only [List.mem_singleton] at hch; subst hch
        rw [newCandidate_id hc'] at hin
        exact child_sub hid (by omega) ht hin
      · simp at hch
end

/-! ### universal side invariant: levels + nesting of children -/

def NestCand (cfg : Config) (cand : Cand) : Prop :=
  LvCand cfg cand ∧ ∀ ch ∈ cand.children, ∀ n, InCell ch.id n → InCell cand.id n

theorem nest_closure {cfg : Config} (h : CfgOK cfg) (interior : Bool) (R : Region) :
    Closure cfg interior R (fun _ => True) (NestCand cfg) (LvChild cfg) where
  term := fun _ _ _ => trivial
  expand := by
    intro ch hch ht children hc hlen
    refine ⟨fun _ _ _ => trivial, fun p => ⟨((levels_closure h interior R).expand ch hch ht children hc hlen).2 p, ?_⟩⟩
    obtain ⟨k, hg, hp⟩ := hch
    have hnt := hg.nonterm ht
    have hmin := h.min_le; have hmax := h.max_le
    intro c hcm n hin
    simp only [] at hcm
    rw [hc, hg.cell.level_eq] at hcm
    by_cases hlt : k < cfg.minLevel
    · simp only [hlt, if_true] at hcm
      exact expandChildren_nested 1 ch.id k hg.cell (by omega) c hcm n hin
    · simp only [hlt, if_false] at hcm
      exact expandChildren_nested cfg.levelMod ch.id k hg.cell (by omega) c hcm n hin
  kids := fun cand hc => hc.1.2
  self := fun _ _ _ _ => trivial

/-! ### the existential invariant -/

/-- leaf `n` is accounted for: in the result, or in a child of a queued candidate -/
def Good {ops : PQOps Q} (law : LawfulPQ ops) (st : St Q) (n : Nat) : Prop :=
  Covered st.result n ∨ ∃ cand ∈ law.toList st.pq, ∃ ch ∈ cand.children, InCell ch.id n

section
variable {ops : PQOps Q} (law : LawfulPQ ops) {cfg : Config} {R : Region} {P : Nat → Prop}

theorem addCandidate_good_mono (interior : Bool) {st : St Q} {n : Nat} (ch : Child) (hg : Good law st n) :
    Good law (addCandidate ops cfg interior R st ch) n := by
  unfold addCandidate
  split
  · rcases hg with ⟨c, hc, hin⟩ | hq
    · exact Or.inl ⟨c, by simp [hc], hin⟩
    · exact Or.inr hq
  · simp only []
    generalize expandChildren cfg interior R (if level ch.id < cfg.minLevel then 1 else cfg.levelMod) ch.id = children
    split
    · exact hg
    · split
      · rcases hg with ⟨c, hc, hin⟩ | hq
        · exact Or.inl ⟨c, by simp [hc], hin⟩
        · exact Or.inr hq
      · rcases hg with hr | ⟨cand, hc, hrest⟩
        · exact Or.inl hr
        · exact Or.inr ⟨cand, (law.push_perm _ _).mem_iff.mpr (by simp [hc]), hrest⟩

theorem addCandidate_good (h : CfgOK cfg) (hI : IntersectsSafe R P) {st : St Q} {n : Nat} (hn : n % 2 = 1) (hP : P n)
    {ch : Child} (hch : LvChild cfg ch) (hin : InCell ch.id n) :
    Good law (addCandidate ops cfg false R st ch) n := by
  obtain ⟨k, hg, hp⟩ := hch
  unfold addCandidate
  split
  · exact Or.inl ⟨ch.id, by simp, hin⟩
  · rename_i ht
    have ht' : ch.terminal = false := by simpa using ht
    have hnt := hg.nonterm ht'
    have hmin := h.min_le; have hmax := h.max_le
    have hmod := h.mod_ge
    simp only []
    rw [hg.cell.level_eq]
    have hex : ∃ c ∈ expandChildren cfg false R (if k < cfg.minLevel then 1 else cfg.levelMod) ch.id, InCell c.id n := by
      by_cases hlt : k < cfg.minLevel
      · simp only [hlt, if_true]
        exact expandChildren_covers hI 0 ch.id k hg.cell (by omega) n hn hP hin
      · simp only [hlt, if_false]
        obtain ⟨m, hm⟩ : ∃ m, cfg.levelMod = m + 1 := ⟨cfg.levelMod - 1, by omega⟩
        rw [hm]
        exact expandChildren_covers hI m ch.id k hg.cell (by omega) n hn hP hin
    generalize expandChildren cfg false R (if k < cfg.minLevel then 1 else cfg.levelMod) ch.id = children at hex ⊢
    obtain ⟨c, hc, hcin⟩ := hex
    split
    · rename_i hlen
      have : children = [] := List.eq_nil_of_length_eq_zero hlen
      rw [this] at hc; cases hc
    · split
      · exact Or.inl ⟨ch.id, by simp, hin⟩
      · refine Or.inr ⟨_, (law.push_perm _ _).mem_iff.mpr (List.mem_cons_self), c, hc, hcin⟩

theorem foldl_children_good (h : CfgOK cfg) (hI : IntersectsSafe R P) {n : Nat} (hn : n % 2 = 1) (hP : P n) :
    ∀ (chs : List Child) (st : St Q), (∀ ch ∈ chs, LvChild cfg ch) →
      (Good law st n ∨ ∃ ch ∈ chs, InCell ch.id n) →
      Good law (chs.foldl (fun st ch =>
        if !false || (st.result.length : Int) < cfg.maxCells then addCandidate ops cfg false R st ch else st) st) n := by
  intro chs
  induction chs with
  | nil =>
    intro st _ hg
    rcases hg with hg | ⟨ch, hc, _⟩
    · exact hg
    · cases hc
  | cons ch t ih =>
    intro st hall hg
    simp only [List.foldl_cons, Bool.not_false, Bool.true_or, if_true]
    have ih' := ih (addCandidate ops cfg false R st ch) (fun c hc => hall c (by simp [hc]))
    simp only [Bool.not_false, Bool.true_or, if_true] at ih'
    apply ih'
    rcases hg with hg | ⟨c, hc, hin⟩
    · exact Or.inl (addCandidate_good_mono law false ch hg)
    · simp only [List.mem_cons] at hc
      rcases hc with rfl | hc
      · exact Or.inl (addCandidate_good law h hI hn hP (hall c (by simp)) hin)
      · exact Or.inr ⟨c, hc, hin⟩

/-- one iteration keeps every region leaf accounted for -/
theorem coverLoop_good (h : CfgOK cfg) (hI : IntersectsSafe R P) {n : Nat} (hn : n % 2 = 1) (hP : P n) :
    ∀ (fuel : Nat) (st : St Q), StInv law (fun _ => True) (NestCand cfg) st → Good law st n →
      Good law (coverLoop ops cfg false R fuel st) n := by
  intro fuel
  induction fuel with
  | zero => intro st _ hg; exact hg
  | succ fuel ih =>
    intro st hinv hg
    unfold coverLoop
    split
    · split
      · exact hg
      · rename_i cand q hpop
        have hperm := law.pop_perm _ _ _ hpop
        have hcand : NestCand cfg cand := hinv.2 cand (hperm.mem_iff.mpr (by simp))
        have hst' : StInv law (fun _ => True) (NestCand cfg) { st with pq := q } :=
          ⟨hinv.1, fun c hc => hinv.2 c (hperm.mem_iff.mpr (by simp [hc]))⟩
        -- where is n?
        have hcase : Good law { st with pq := q } n ∨ ∃ ch ∈ cand.children, InCell ch.id n := by
          rcases hg with hr | ⟨c, hc, hrest⟩
          · exact Or.inl (Or.inl hr)
          · have := hperm.mem_iff.mp hc
            simp only [List.mem_cons] at this
            rcases this with rfl | hcq
            · exact Or.inr hrest
            · exact Or.inl (Or.inr ⟨c, hcq, hrest⟩)
        simp only []
        split
        · apply ih
          · exact foldl_addCandidate_inv law (nest_closure h false R) _ _ hst' ((nest_closure h false R).kids cand hcand)
          · have := foldl_children_good law h hI hn hP cand.children { st with pq := q } hcand.1.2 hcase
            simpa using this
        · apply ih
          · exact ⟨fun _ _ => trivial, hst'.2⟩
          · rcases hcase with hgq | ⟨ch, hch, hin⟩
            · rcases hgq with ⟨c, hc, hcin⟩ | hq
              · exact Or.inl ⟨c, by simp [hc], hcin⟩
              · exact Or.inr hq
            · exact Or.inl ⟨cand.id, by simp, hcand.2 ch hch n hin⟩
    · exact hg
end

end S2Proofs.C05
