/-
  S2Proofs.C05.Levels — level discipline: the search, adjustCellLevels, Normalize, Denormalize.
-/
import S2Proofs.C05.Loop
import S2Proofs.CU.Normalize
open S2 S2.CellID S2.CellUnion S2.Coverer
namespace S2Proofs.C05

variable {Q : Type}

/-! ### adjustCellLevels -/

/-- the replacement made by `adjustCellLevels` for one cell -/
def adj (cfg : Config) (ci : CellID) : CellID :=
  if adjustLevel cfg (level ci) != level ci then parent ci (adjustLevel cfg (level ci)) else ci

theorem adjustStep_eq (cfg : Config) (out : List CellID) (ci : CellID) :
    adjustStep cfg out ci = match out with
      | last :: _ => if contains last (adj cfg ci) then out
                     else adj cfg ci :: out.dropWhile (fun o => contains (adj cfg ci) o)
      | [] => [adj cfg ci] := by
  cases out <;> rfl

theorem mem_foldl_adjustStep (cfg : Config) : ∀ (cells out : List CellID) (c : CellID),
    c ∈ cells.foldl (adjustStep cfg) out → c ∈ out ∨ ∃ x ∈ cells, c = adj cfg x := by
  intro cells
  induction cells with
  | nil => intro out c h; exact Or.inl h
  | cons x t ih =>
    intro out c h
    simp only [List.foldl_cons] at h
    rcases ih _ c h with h1 | ⟨y, hy, rfl⟩
    · rw [adjustStep_eq] at h1
      cases out with
      | nil =>
        simp only [List.mem_singleton] at h1
        exact Or.inr ⟨x, by simp, h1⟩
      | cons last tl =>
        simp only [] at h1
        split at h1
        · exact Or.inl h1
        · simp only [List.mem_cons] at h1
          rcases h1 with rfl | h1
          · exact Or.inr ⟨x, by simp, rfl⟩
          · exact Or.inl (by simpa using (List.dropWhile_sublist _).subset h1)
    · exact Or.inr ⟨y, by simp [hy], rfl⟩

theorem adj_pre {cfg : Config} (h : CfgOK cfg) {x : CellID} {k : Nat} (hx : IsCell x k) (hk : k ≤ cfg.maxLevel) :
    CellAt (Pre cfg) (adj cfg x) := by
  unfold adj
  rw [hx.level_eq]
  have hle := adjustLevel_le cfg k
  have hg := adjustLevel_grid h k
  have hpre : Pre cfg (adjustLevel cfg k) := by
    refine ⟨le_top h (by omega) (by rcases hg with hg | hg; exact Or.inl hg.1; exact Or.inr hg), ?_⟩
    rcases hg with hg | hg
    · by_cases hlt : adjustLevel cfg k < cfg.minLevel
      · exact Or.inl hlt
      · right; unfold Grid; have : adjustLevel cfg k = cfg.minLevel := by omega
        rw [this]; simp
    · exact Or.inr hg
  split
  · exact ⟨_, hx.parent_isCell hle, hpre⟩
  · rename_i hne
    have : adjustLevel cfg k = k := by simpa using hne
    rw [this] at hpre
    exact ⟨k, hx, hpre⟩

theorem adjustCellLevels_pre {cfg : Config} (h : CfgOK cfg) (start : CU)
    (hstart : ∀ c ∈ start, CellAt (· ≤ cfg.maxLevel) c) :
    ∀ c ∈ adjustCellLevels cfg start, CellAt (Pre cfg) c := by
  intro c hc
  unfold adjustCellLevels at hc
  split at hc
  · rename_i h1
    obtain ⟨k, hx, hk⟩ := hstart c hc
    refine ⟨k, hx, le_top h hk ?_, ?_⟩
    · unfold Grid; rw [h1]; omega
    · unfold Grid; rw [h1]; omega
  · rw [List.mem_reverse] at hc
    rcases mem_foldl_adjustStep cfg _ _ _ hc with h0 | ⟨x, hx, rfl⟩
    · simp at h0
    · obtain ⟨k, hxc, hk⟩ := hstart x hx
      exact adj_pre h hxc hk

/-! ### the search -/

def LvChild (cfg : Config) (ch : Child) : Prop := ∃ k, GoodChild cfg ch k ∧ Pre cfg k
def LvCand (cfg : Config) (cand : Cand) : Prop :=
  (∃ k, IsCell cand.id k ∧ Pre cfg k) ∧ ∀ ch ∈ cand.children, LvChild cfg ch

theorem levels_closure {cfg : Config} (h : CfgOK cfg) (interior : Bool) (R : Region) :
    Closure cfg interior R (CellAt (Res cfg)) (LvCand cfg) (LvChild cfg) where
  term := by
    rintro ch ⟨k, hg, hp⟩ ht
    refine ⟨k, hg.cell, ?_, hp.1⟩
    have := hg.term ht
    rcases hp.2 with h1 | h1
    · omega
    · exact h1
  expand := by
    rintro ch ⟨k, hg, hp⟩ ht children hch hlen
    have hcell := hg.cell
    have hnt := hg.nonterm ht
    rw [hcell.level_eq] at hch ⊢
    have hmin := h.min_le; have hmax := h.max_le
    have htop := top_ge_min h
    refine ⟨?_, ?_⟩
    · intro _ hge _
      refine ⟨k, hcell, ?_, hp.1⟩
      rcases hp.2 with h1 | h1
      · omega
      · exact h1
    · intro p
      refine ⟨⟨k, hcell, hp⟩, ?_⟩
      intro c hc
      simp only [] at hc
      rw [hch] at hc
      by_cases hlt : k < cfg.minLevel
      · simp only [hlt, if_true] at hc
        have hgc := expandChildren_good 1 ch.id k hcell (by omega) c hc
        refine ⟨k + 1, hgc, by omega, ?_⟩
        by_cases h2 : k + 1 < cfg.minLevel
        · exact Or.inl h2
        · right; unfold Grid; have : k + 1 = cfg.minLevel := by omega
          rw [this]; simp
      · simp only [hlt, if_false] at hc
        have hk2 : k + cfg.levelMod ≤ cfg.maxLevel := by omega
        have hgc := expandChildren_good cfg.levelMod ch.id k hcell (by omega) c hc
        have hgrid : Grid cfg k := by rcases hp.2 with h1 | h1; omega; exact h1
        have hgrid' : Grid cfg (k + cfg.levelMod) := by
          unfold Grid at hgrid ⊢; mod_omega h
        exact ⟨k + cfg.levelMod, hgc, le_top h hk2 (Or.inr hgrid'), Or.inr hgrid'⟩
  kids := fun cand hc => hc.2
  self := by
    rintro cand ⟨⟨k, hcell, hp⟩, _⟩ _ hge
    rw [hcell.level_eq] at hge
    refine ⟨k, hcell, ?_, hp.1⟩
    rcases hp.2 with h1 | h1
    · omega
    · exact h1

/-- every cell of the raw result of the search is valid, on the level grid, `≥ minLevel`, `≤ top` -/
theorem rawResult_levels {ops : PQOps Q} (law : LawfulPQ ops) {cfg : Config} (h : CfgOK cfg)
    (interior : Bool) (R : Region) (start : CU) (hstart : ∀ c ∈ start, CellAt (· ≤ cfg.maxLevel) c) :
    ∀ c ∈ rawResult ops cfg interior R start, CellAt (Res cfg) c := by
  apply rawResult_inv law (levels_closure h interior R) start
  intro ci hci ch hch
  obtain ⟨k, hx, hp⟩ := adjustCellLevels_pre h start hstart ci hci
  exact ⟨k, newCandidate_good hx hch, hp⟩

/-! ### Normalize never produces a level above the maximum of its input -/

theorem areSiblings_not_face {a b c d : CellID} (h : areSiblings a b c d = true) : isFace d = false := by
  unfold areSiblings at h
  split at h
  · cases h
  · simp only [Bool.and_eq_true, Bool.not_eq_true'] at h
    exact h.2

theorem collapse_levels (M : Nat) : ∀ (out : List CellID) (ci : CellID),
    (∀ c ∈ out, CellAt (· ≤ M) c) → CellAt (· ≤ M) ci → ∀ c ∈ collapse out ci, CellAt (· ≤ M) c := by
  intro out ci
  fun_induction collapse out ci with
  | case1 c b a rest ci hs ih =>
    intro hout hci
    apply ih
    · intro x hx; exact hout x (by simp [hx])
    · obtain ⟨k, hk, hM⟩ := hci
      have hf := areSiblings_not_face hs
      rw [hk.isFace_eq] at hf
      have hk0 : 0 < k := Nat.pos_of_ne_zero (by simpa using hf)
      rw [hk.immediateParent_eq hk0]
      exact ⟨k - 1, hk.parent_isCell (by omega), by omega⟩
  | case2 c b a rest ci hs =>
    intro hout hci x hx
    simp only [List.mem_cons] at hx
    rcases hx with rfl | hx
    · exact hci
    · exact hout x (by simpa using hx)
  | case3 out ci hne =>
    intro hout hci x hx
    simp only [List.mem_cons] at hx
    rcases hx with rfl | hx
    · exact hci
    · exact hout x hx

theorem normStep_levels (M : Nat) (out : List CellID) (ci : CellID)
    (hout : ∀ c ∈ out, CellAt (· ≤ M) c) (hci : CellAt (· ≤ M) ci) :
    ∀ c ∈ normStep out ci, CellAt (· ≤ M) c := by
  unfold normStep
  split
  · split
    · exact hout
    · apply collapse_levels M _ _ _ hci
      intro x hx; exact hout x ((List.dropWhile_sublist _).subset hx)
  · exact collapse_levels M _ _ (by simp) hci

theorem normalize_levels (M : Nat) (cu : CU) (hcu : ∀ c ∈ cu, CellAt (· ≤ M) c) :
    ∀ c ∈ normalize cu, CellAt (· ≤ M) c := by
  unfold normalize normalizeSorted
  have hs : ∀ c ∈ sortIDs cu, CellAt (· ≤ M) c := by
    intro c hc; exact hcu c ((List.mergeSort_perm _ _).mem_iff.mp hc)
  have : ∀ (l out : List CellID), (∀ c ∈ out, CellAt (· ≤ M) c) → (∀ c ∈ l, CellAt (· ≤ M) c) →
      ∀ c ∈ l.foldl normStep out, CellAt (· ≤ M) c := by
    intro l
    induction l with
    | nil => intro out h _; exact h
    | cons x t ih =>
      intro out h hl
      simp only [List.foldl_cons]
      exact ih _ (normStep_levels M out x h (hl x (by simp))) (fun c hc => hl c (by simp [hc]))
  intro c hc
  rw [List.mem_reverse] at hc
  exact this _ _ (by simp) hs c hc

/-! ### Denormalize puts every cell on the grid -/

theorem childrenAtLevel_isCell {id : CellID} {k l : Nat} (hid : IsCell id k) (hkl : k ≤ l) (hl : l ≤ 30) :
    ∀ x ∈ childrenAtLevel id l, IsCell x l := by
  intro x hx
  unfold childrenAtLevel at hx
  simp only [List.mem_map, List.mem_range] at hx
  obtain ⟨j, hj, rfl⟩ := hx
  rw [hid.level_eq] at hj
  have hlsb := hid.lsb_eq
  have hlfl := lsbForLevel_toNat l hl
  obtain ⟨hk, hf, hlow⟩ := hid
  -- abbreviations
  have e4 : (4:Nat)^(l-k) = 2^(2*(l-k)) := by rw [Nat.pow_mul]
  have hE : (2:Nat)^(61 - 2*k) = 2^(61 - 2*l) * 2^(2*(l-k)) := by rw [← Nat.pow_add]; congr 1; omega
  have hE2 : (2:Nat)^(61 - 2*l) = 2 * 2^(60 - 2*l) := by rw [← Nat.pow_succ']; congr 1; omega
  have hE3 : (2:Nat)^(61 - 2*k) = 2 * 2^(60 - 2*k) := by rw [← Nat.pow_succ']; congr 1; omega
  have hpos := Nat.two_pow_pos (60 - 2*l)
  have hposk := Nat.two_pow_pos (60 - 2*k)
  have hle61 : (2:Nat)^(61 - 2*k) ≤ 2^61 := Nat.pow_le_pow_right (by omega) (by omega)
  -- A = x - 2^(60-2k) is a multiple of 2^(61-2k)
  have hdm := Nat.div_add_mod id.toNat (2^(61 - 2*k))
  rw [hlow] at hdm
  have hxl := id.toNat_lt
  have hAmod : (id.toNat - 2^(60 - 2*k)) % 2^(61 - 2*l) = 0 := by
    have e : id.toNat - 2^(60 - 2*k) = 2^(61 - 2*l) * (2^(2*(l-k)) * (id.toNat / 2^(61 - 2*k))) := by
      rw [← Nat.mul_assoc, ← hE]; omega
    rw [e]; exact Nat.mul_mod_right _ _
  -- face bound: A + 2^(61-2k) ≤ 6*2^61
  have hAface : id.toNat - 2^(60 - 2*k) + 2^(61 - 2*k) ≤ 6 * 2^61 := by
    have hq : id.toNat / 2^(61 - 2*k) < 6 * 2^(2*k) := by
      apply Nat.div_lt_of_lt_mul
      have : (2:Nat)^(61 - 2*k) * (6 * 2^(2*k)) = 6 * 2^61 := by
        rw [Nat.mul_comm, Nat.mul_assoc, ← Nat.pow_add]; congr 2; omega
      omega
    have h1 : 2^(61 - 2*k) * (id.toNat / 2^(61 - 2*k) + 1) ≤ 2^(61 - 2*k) * (6 * 2^(2*k)) :=
      Nat.mul_le_mul_left _ hq
    have : (2:Nat)^(61 - 2*k) * (6 * 2^(2*k)) = 6 * 2^61 := by
      rw [Nat.mul_comm, Nat.mul_assoc, ← Nat.pow_add]; congr 2; omega
    rw [this, Nat.mul_add, Nat.mul_one] at h1
    omega
  -- j * step
  have hjs : j * 2^(61 - 2*l) + 2^(61 - 2*l) ≤ 2^(61 - 2*k) := by
    rw [e4] at hj
    have : (j + 1) * 2^(61 - 2*l) ≤ 2^(2*(l-k)) * 2^(61 - 2*l) := Nat.mul_le_mul_right _ hj
    rw [hE, Nat.mul_comm (2^(61 - 2*l))]
    rw [Nat.add_mul, Nat.one_mul] at this
    exact this
  have hjlt : j < 2^64 := by
    have : j * 1 ≤ j * 2^(61 - 2*l) := Nat.mul_le_mul_left _ (Nat.two_pow_pos _)
    omega
  have hstep : (lsbForLevel l <<< 1).toNat = 2^(61 - 2*l) := by
    rw [UInt64.toNat_shiftLeft, hlfl, Nat.shiftLeft_eq]
    have : (1:UInt64).toNat % 64 = 1 := rfl
    rw [this, Nat.pow_one, hE2, Nat.mul_comm]
    apply Nat.mod_eq_of_lt; omega
  have hval : (id - lsb id + lsbForLevel l + UInt64.ofNat j * (lsbForLevel l <<< 1)).toNat
      = id.toNat - 2^(60 - 2*k) + 2^(60 - 2*l) + j * 2^(61 - 2*l) := by
    have hle : 2^(60 - 2*k) ≤ id.toNat := by omega
    have hle2 : (2:Nat)^(60 - 2*l) ≤ 2^(60-2*k) := Nat.pow_le_pow_right (by omega) (by omega)
    rw [UInt64.toNat_add, UInt64.toNat_add, UInt64.toNat_sub_of_le, UInt64.toNat_mul, hstep, hlsb, hlfl,
      UInt64.toNat_ofNat']
    · rw [Nat.mod_eq_of_lt hjlt, Nat.mod_eq_of_lt (a := j * _) (by omega),
        Nat.mod_eq_of_lt (a := id.toNat - _ + _) (by omega), Nat.mod_eq_of_lt (by omega)]
    · rw [UInt64.le_iff_toNat_le, hlsb]; exact hle
  unfold childBeginAtLevel
  refine ⟨hl, ?_, ?_⟩
  · rw [hval]; omega
  · rw [hval, Nat.add_mod, Nat.mul_mod_left, Nat.add_zero, Nat.mod_mod, Nat.add_mod, hAmod, Nat.zero_add, Nat.mod_mod]
    apply Nat.mod_eq_of_lt; omega

/-- the level chosen by `Denormalize` for a cell of level `k` -/
def denormLevel (minLevel levelMod k : Nat) : Nat :=
  let nl := if k < minLevel then minLevel else k
  if levelMod > 1 then
    let nl' := nl + (maxLevel - (nl - minLevel)) % levelMod
    if nl' > maxLevel then maxLevel else nl'
  else nl

theorem denormLevel_res {cfg : Config} (h : CfgOK cfg) {k : Nat} (hk : k ≤ top cfg) :
    Res cfg (denormLevel cfg.minLevel cfg.levelMod k) ∧ k ≤ denormLevel cfg.minLevel cfg.levelMod k := by
  have h30 := top_le_30 h
  have hmin := top_ge_min h
  have hg := top_grid h
  unfold Res Grid denormLevel at *
  simp only [maxLevel]
  generalize top cfg = T at *
  rcases CfgOK.mod_cases h with hm | hm | hm <;> simp only [hm] at * <;>
    (split_ifs <;> omega)

theorem denormalize_levels {cfg : Config} (h : CfgOK cfg) (cu : CU) (hcu : ∀ c ∈ cu, CellAt (· ≤ top cfg) c) :
    ∀ c ∈ denormalize cu cfg.minLevel cfg.levelMod, CellAt (Res cfg) c := by
  intro c hc
  unfold denormalize at hc
  simp only [List.mem_flatMap] at hc
  obtain ⟨id, hid, hc⟩ := hc
  obtain ⟨k, hcell, hk⟩ := hcu id hid
  rw [hcell.level_eq] at hc
  have hd := denormLevel_res h hk
  change c ∈ (if (denormLevel cfg.minLevel cfg.levelMod k == k) = true then [id]
      else childrenAtLevel id (denormLevel cfg.minLevel cfg.levelMod k)) at hc
  split at hc
  · rename_i heq
    simp only [List.mem_singleton] at hc; subst hc
    have : denormLevel cfg.minLevel cfg.levelMod k = k := by simpa using heq
    rw [this] at hd
    exact ⟨k, hcell, hd.1⟩
  · exact ⟨_, childrenAtLevel_isCell hcell hd.2 (by have := top_le_30 h; have := hd.1.2; omega) c hc, hd.1⟩

end S2Proofs.C05
