/-
  S2Proofs.C05.Geom — leaf ranges: children tile the parent, ancestors contain descendants.
-/
import S2Proofs.C05.Basic
open S2 S2.CellID S2.CellUnion S2.Coverer
namespace S2Proofs.C05

/-- leaf position `n` lies in the leaf range of cell `c` -/
def InCell (c : CellID) (n : Nat) : Prop := (rangeMin c).toNat ≤ n ∧ n ≤ (rangeMax c).toNat

/-- some cell of the list covers leaf position `n` -/
def Covered (cu : List CellID) (n : Nat) : Prop := ∃ c ∈ cu, InCell c n

theorem coversLeaf_iff (cu : CU) (n : Nat) : coversLeaf cu n = true ↔ Covered cu n := by
  unfold coversLeaf Covered InCell
  simp only [List.any_eq_true, Bool.and_eq_true, decide_eq_true_eq]

theorem child_range {c : CellID} {k t : Nat} (h : IsCell c k) (hk : k < 30) (ht : t < 4) :
    (rangeMin (child c t)).toNat = (rangeMin c).toNat + t * 2^(59 - 2*k) ∧
    (rangeMax (child c t)).toNat + 2 = (rangeMin c).toNat + (t + 1) * 2^(59 - 2*k) ∧
    (rangeMax c).toNat + 2 = (rangeMin c).toNat + 4 * 2^(59 - 2*k) ∧
    (rangeMin c).toNat % 2 = 1 := by
  have hc := h.child_isCell hk ht
  have e := h.child_toNat hk ht
  rw [hc.rangeMin_eq, hc.rangeMax_eq, h.rangeMin_eq, h.rangeMax_eq, e]
  obtain ⟨_, hf, hlow⟩ := h
  have ht' : t = 0 ∨ t = 1 ∨ t = 2 ∨ t = 3 := by omega
  rcases ht' with rfl | rfl | rfl | rfl <;> interval_cases k <;> cell_omega

theorem child_tiles {c : CellID} {k : Nat} (h : IsCell c k) (hk : k < 30) {n : Nat} (hn : n % 2 = 1)
    (hin : InCell c n) : ∃ t, t < 4 ∧ InCell (child c t) n := by
  obtain ⟨a0, b0, c0, d0⟩ := child_range h hk (t := 0) (by omega)
  obtain ⟨a1, b1, _, _⟩ := child_range h hk (t := 1) (by omega)
  obtain ⟨a2, b2, _, _⟩ := child_range h hk (t := 2) (by omega)
  obtain ⟨a3, b3, _, _⟩ := child_range h hk (t := 3) (by omega)
  have hS : (2:Nat)^(59 - 2*k) = 2 * 2^(58 - 2*k) := by rw [← Nat.pow_succ']; congr 1; omega
  generalize (2:Nat)^(58 - 2*k) = S' at hS
  generalize (2:Nat)^(59 - 2*k) = S at *
  unfold InCell at *
  by_cases h0 : n < (rangeMin c).toNat + S
  · exact ⟨0, by omega, by omega⟩
  · by_cases h1 : n < (rangeMin c).toNat + 2 * S
    · exact ⟨1, by omega, by omega⟩
    · by_cases h2 : n < (rangeMin c).toNat + 3 * S
      · exact ⟨2, by omega, by omega⟩
      · exact ⟨3, by omega, by omega⟩

theorem child_sub {c : CellID} {k t : Nat} (h : IsCell c k) (hk : k < 30) (ht : t < 4) {n : Nat}
    (hin : InCell (child c t) n) : InCell c n := by
  obtain ⟨a, b, c0, _⟩ := child_range h hk ht
  have hpos := Nat.two_pow_pos (59 - 2*k)
  generalize (2:Nat)^(59 - 2*k) = S at *
  unfold InCell at *
  have ht' : t = 0 ∨ t = 1 ∨ t = 2 ∨ t = 3 := by omega
  rcases ht' with rfl | rfl | rfl | rfl <;> omega

theorem parent_sup {x : CellID} {k j : Nat} (hx : IsCell x k) (hj : j ≤ k) {n : Nat}
    (hin : InCell x n) : InCell (parent x j) n := by
  have hp := hx.parent_isCell hj
  unfold InCell at *
  rw [hp.rangeMin_eq, hp.rangeMax_eq, parent_toNat x j hp.k_le]
  rw [hx.rangeMin_eq, hx.rangeMax_eq] at hin
  obtain ⟨hb, hne, hadd⟩ := hx.finer_facts j hj
  have hpos := Nat.two_pow_pos (60 - 2*k)
  have hj30 := hp.k_le
  interval_cases j <;> cell_omega

theorem contains_sub {x y : CellID} {k j : Nat} (hx : IsCell x k) (hy : IsCell y j)
    (hc : contains x y = true) {n : Nat} (hin : InCell y n) : InCell x n := by
  obtain ⟨hkj, hp⟩ := (hx.contains_iff_parent hy).mp hc
  rw [← hp]; exact parent_sup hy hkj hin

theorem mem_dropWhile_or {α} (p : α → Bool) : ∀ (l : List α) (x : α), x ∈ l → x ∈ l.dropWhile p ∨ p x = true := by
  intro l
  induction l with
  | nil => intro x h; cases h
  | cons a t ih =>
    intro x h
    by_cases hp : p a = true
    · simp only [List.dropWhile_cons, hp, if_true]
      simp only [List.mem_cons] at h
      rcases h with rfl | h
      · exact Or.inr hp
      · exact ih x h
    · simp only [List.dropWhile_cons, hp]
      exact Or.inl h

end S2Proofs.C05
