/-
  S2Proofs.C05.Fast — level discipline of `normalizeCovering` / `FastCovering` when the
  re-cover branch (`NewRegionCoverer().Covering(covering)`) is not taken.
-/
import S2Proofs.C05.Levels
open S2 S2.CellID S2.CellUnion S2.Coverer
namespace S2Proofs.C05

/-! ### commonAncestorLevel never exceeds the level of its first argument -/

theorem commonAncestorLevel_le {ci other : CellID} {k l : Nat} (hc : IsCell ci k)
    (h : commonAncestorLevel ci other = some l) : l ≤ k := by
  unfold commonAncestorLevel at h
  simp only [] at h
  generalize hb : (if (if ci ^^^ other < lsb ci then lsb ci else ci ^^^ other) < lsb other then lsb other
      else (if ci ^^^ other < lsb ci then lsb ci else ci ^^^ other)) = bits at h
  have hge : (lsb ci).toNat ≤ bits.toNat := by
    rw [← hb]
    split <;> split <;> simp only [UInt64.lt_iff_toNat_lt] at * <;> omega
  rw [hc.lsb_eq] at hge
  have hk := hc.k_le
  have hpos := Nat.two_pow_pos (60 - 2*k)
  have hm : 60 - 2*k ≤ msbPos bits := by
    unfold msbPos
    exact (Nat.le_log2 (by omega)).mpr hge
  split at h
  · cases h
  · simp only [Option.some.injEq] at h
    subst h
    rw [Nat.shiftRight_eq_div_pow]
    omega

/-! ### replaceCellsWithAncestor only rearranges `cov` and inserts `id` -/

theorem mem_replaceCellsWithAncestor {cov : CU} {id x : CellID}
    (h : x ∈ replaceCellsWithAncestor cov id) : x ∈ cov ∨ x = id := by
  unfold replaceCellsWithAncestor at h
  simp only [List.mem_append, List.mem_cons] at h
  rcases h with h | h | h
  · exact Or.inl (List.mem_of_mem_take h)
  · exact Or.inr h
  · have h := List.mem_of_mem_drop h
    split at h
    · simp only [Array.set!_eq_setIfInBounds, Array.toList_setIfInBounds] at h
      exact List.mem_or_eq_of_mem_set h
    · exact Or.inl (by simpa using h)

/-! ### bestPair -/

/-- what `bestPair` can return -/
def BestInv (cfg : Config) (a : Array CellID) (best : Int × Int) : Prop :=
  best = (-1, -1) ∨ ∃ i l, i + 1 < a.size ∧ commonAncestorLevel a[i]! a[i+1]! = some l ∧
    best = ((i : Int), (adjustLevel cfg l : Int))

theorem bestPair_inv (cfg : Config) (cov : CU) : BestInv cfg cov.toArray (bestPair cfg cov) := by
  unfold bestPair
  simp only []
  generalize cov.toArray = a
  have : ∀ (is : List Nat) (best : Int × Int), (∀ i ∈ is, i + 1 < a.size) → BestInv cfg a best →
      BestInv cfg a (is.foldl (fun (best : Int × Int) i =>
        match commonAncestorLevel a[i]! a[i+1]! with
        | none => best
        | some lev =>
          let lev := adjustLevel cfg lev
          if (lev : Int) > best.2 then ((i : Int), (lev : Int)) else best) best) := by
    intro is
    induction is with
    | nil => intro best _ hb; exact hb
    | cons i t ih =>
      intro best hi hb
      simp only [List.foldl_cons]
      apply ih _ (fun j hj => hi j (by simp [hj]))
      cases hca : commonAncestorLevel a[i]! a[i+1]! with
      | none => exact hb
      | some l =>
        simp only []
        split
        · exact Or.inr ⟨i, l, hi i (by simp), hca, rfl⟩
        · exact hb
  apply this _ _ _ (Or.inl rfl)
  intro i hi
  simp only [List.mem_range] at hi
  omega

/-! ### mergeUp / mergeLoop keep every cell on the grid -/

theorem grid_step {cfg : Config} (h : CfgOK cfg) {bl : Nat} (hg : Grid cfg bl) (hgt : cfg.minLevel < bl) :
    cfg.levelMod ≤ bl ∧ Grid cfg (bl - cfg.levelMod) := by
  unfold Grid at *
  mod_omega h

theorem replace_res {cfg : Config} {cov : CU} {id : CellID} (hcov : ∀ c ∈ cov, CellAt (Res cfg) c)
    (hid : CellAt (Res cfg) id) : ∀ c ∈ replaceCellsWithAncestor cov id, CellAt (Res cfg) c := by
  intro c hc
  rcases mem_replaceCellsWithAncestor hc with h | rfl
  · exact hcov c h
  · exact hid

theorem mergeUp_res {cfg : Config} (h : CfgOK cfg) : ∀ (fuel : Nat) (cov : CU) (id : CellID) (bl : Nat),
    (∀ c ∈ cov, CellAt (Res cfg) c) → IsCell id bl → Grid cfg bl → bl ≤ top cfg →
    ∀ c ∈ mergeUp cfg fuel cov id (bl : Int), CellAt (Res cfg) c := by
  intro fuel
  induction fuel with
  | zero => intro cov id bl hcov _ _ _; exact hcov
  | succ fuel ih =>
    intro cov id bl hcov hid hg ht
    rw [mergeUp]
    by_cases hgt : (bl : Int) > cfg.minLevel
    · have hgt' : cfg.minLevel < bl := by omega
      obtain ⟨hle, hg'⟩ := grid_step h hg hgt'
      have e : (bl : Int) - cfg.levelMod = ((bl - cfg.levelMod : Nat) : Int) := by omega
      simp only [hgt, if_true, e, Int.toNat_natCast]
      have hid' : IsCell (parent id (bl - cfg.levelMod)) (bl - cfg.levelMod) :=
        hid.parent_isCell (by omega)
      split
      · exact hcov
      · exact ih _ _ _ (replace_res hcov ⟨_, hid', hg', by omega⟩) hid' hg' (by omega)
    · simp only [hgt, if_false]; exact hcov

theorem mergeLoop_res {cfg : Config} (h : CfgOK cfg) : ∀ (fuel : Nat) (cov : CU),
    (∀ c ∈ cov, CellAt (Res cfg) c) → ∀ c ∈ mergeLoop cfg fuel cov, CellAt (Res cfg) c := by
  intro fuel
  induction fuel with
  | zero => intro cov hcov; exact hcov
  | succ fuel ih =>
    intro cov hcov
    rw [mergeLoop]
    split
    · have hinv := bestPair_inv cfg cov
      generalize bestPair cfg cov = best at hinv
      obtain ⟨bi, bl⟩ := best
      simp only []
      split
      · exact hcov
      · rename_i hlt
        rcases hinv with hinv | ⟨i, l, hi, hca, hbest⟩
        · simp only [Prod.mk.injEq] at hinv
          omega
        · simp only [Prod.mk.injEq] at hbest
          obtain ⟨rfl, rfl⟩ := hbest
          simp only [Int.toNat_natCast]
          have hsz : cov.toArray.size = cov.length := by simp
          have hmem : cov.toArray[i]! ∈ cov := by
            have : i < cov.length := by omega
            simp [this]
          obtain ⟨k, hk, hres⟩ := hcov _ hmem
          have hlk := commonAncestorLevel_le hk hca
          have hal := adjustLevel_le cfg l
          have hag := adjustLevel_grid h l
          have hmin : cfg.minLevel ≤ adjustLevel cfg l := by omega
          have hg : Grid cfg (adjustLevel cfg l) := by
            rcases hag with hag | hag
            · have : adjustLevel cfg l = cfg.minLevel := by omega
              rw [this]; unfold Grid; simp
            · exact hag
          have htop : adjustLevel cfg l ≤ top cfg := by have := hres.2; omega
          have hid : IsCell (parent cov.toArray[i]! (adjustLevel cfg l)) (adjustLevel cfg l) :=
            hk.parent_isCell (by omega)
          apply ih
          exact mergeUp_res h 31 _ _ _ (replace_res hcov ⟨_, hid, hg, htop⟩) hid hg htop
    · exact hcov

/-! ### clampLevels / preNormalize -/

theorem clampLevels_top {cfg : Config} (h : CfgOK cfg) (cov : CU) (hb : ∀ c ∈ cov, isValid c = true) :
    ∀ c ∈ clampLevels cfg cov, CellAt (· ≤ top cfg) c := by
  intro c hc
  unfold clampLevels at hc
  split at hc
  · simp only [List.mem_map] at hc
    obtain ⟨ci, hci, rfl⟩ := hc
    obtain ⟨k, hk⟩ := (isValid_iff ci).mp (hb ci hci)
    rw [hk.level_eq]
    have hle := adjustLevel_le cfg (min k cfg.maxLevel)
    have hg := adjustLevel_grid h (min k cfg.maxLevel)
    have htop : adjustLevel cfg (min k cfg.maxLevel) ≤ top cfg :=
      le_top h (by omega) (by rcases hg with hg | hg; exact Or.inl hg.1; exact Or.inr hg)
    split
    · exact ⟨_, hk.parent_isCell (by omega), htop⟩
    · rename_i hne
      have : adjustLevel cfg (min k cfg.maxLevel) = k := by simpa using hne
      rw [this] at htop
      exact ⟨k, hk, htop⟩
  · rename_i hcond
    simp only [Bool.or_eq_true, decide_eq_true_eq, not_or, maxLevel] at hcond
    obtain ⟨k, hk⟩ := (isValid_iff c).mp (hb c hc)
    have h1 : cfg.levelMod = 1 := by have := h.mod_ge; omega
    have := hk.k_le
    have hM : ¬ cfg.maxLevel < 30 := fun hlt => hcond.1 (decide_eq_true hlt)
    refine ⟨k, hk, le_top h (by omega) ?_⟩
    by_cases hkm : k ≤ cfg.minLevel
    · exact Or.inl hkm
    · right; unfold Grid; rw [h1]; omega

theorem preNormalize_res {cfg : Config} (h : CfgOK cfg) (cov : CU) (hb : ∀ c ∈ cov, isValid c = true) :
    ∀ c ∈ preNormalize cfg cov, CellAt (Res cfg) c := by
  have hn := normalize_levels (top cfg) _ (clampLevels_top h cov hb)
  unfold preNormalize
  simp only []
  split
  · exact denormalize_levels h _ hn
  · rename_i hc
    simp only [Bool.or_eq_true, decide_eq_true_eq, not_or] at hc
    intro c hcm
    obtain ⟨k, hk, hkt⟩ := hn c hcm
    have h1 : cfg.levelMod = 1 := by have := h.mod_ge; omega
    exact ⟨k, hk, ⟨by omega, by rw [h1]; omega⟩, hkt⟩

/-! ### normalizeCovering / FastCovering without the re-cover branch -/

/-- PARTIAL level discipline of `normalizeCovering`: when the covering is not handed to
    `NewRegionCoverer().Covering` (`takesRecover = false`), every returned cell is valid, on the
    (minLevel, levelMod) grid and `≤ top`.  `recover` is arbitrary (it is never called). -/
theorem normalizeCovering_levels {cfg : Config} (h : CfgOK cfg) (recover : CU → CU) (bound : CU)
    (hb : ∀ c ∈ bound, isValid c = true) (hnr : takesRecover cfg bound = false) :
    ∀ c ∈ normalizeCovering cfg recover bound, CellAt (Res cfg) c := by
  have hpre := preNormalize_res h bound hb
  unfold takesRecover at hnr
  unfold normalizeCovering
  simp only [] at hnr ⊢
  generalize preNormalize cfg bound = cov at *
  split
  · exact hpre
  · rename_i hc
    split
    · rename_i hex
      exfalso
      simp only [hc, hex, Bool.not_false, Bool.true_and, decide_true, Bool.true_eq_false] at hnr
    · exact mergeLoop_res h _ _ hpre

theorem fastCovering_res (o : Options) (recover : CU → CU) (bound : CU)
    (hb : ∀ c ∈ bound, isValid c = true) (hnr : takesRecover (newCoverer o) bound = false) :
    ∀ c ∈ fastCovering o recover bound, CellAt (Res (newCoverer o)) c :=
  normalizeCovering_levels (newCoverer_ok o) recover bound hb hnr

/-- the temporary coverer of `initialCandidates`: `MinLevel 0, LevelMod 1, MaxLevel = c.maxLevel` -/
theorem newCoverer_tempOptions {cfg : Config} (h : CfgOK cfg) :
    (newCoverer (tempOptions cfg)).minLevel = 0 ∧ (newCoverer (tempOptions cfg)).maxLevel = cfg.maxLevel ∧
      (newCoverer (tempOptions cfg)).levelMod = 1 := by
  have := h.max_le
  simp only [newCoverer, tempOptions, clamp]
  omega

theorem startCells_cellAt (o : Options) (recover : CU → CU) (bound : CU) (hb : ∀ c ∈ bound, isValid c = true)
    (hnr : takesRecover (newCoverer (tempOptions (newCoverer o))) bound = false) :
    ∀ c ∈ startCells o recover bound, CellAt (· ≤ (newCoverer o).maxLevel) c := by
  intro c hc
  obtain ⟨h0, hM, h1⟩ := newCoverer_tempOptions (newCoverer_ok o)
  obtain ⟨k, hk, _, ht⟩ := fastCovering_res (tempOptions (newCoverer o)) recover bound hb hnr c hc
  refine ⟨k, hk, ?_⟩
  have : top (newCoverer (tempOptions (newCoverer o))) = (newCoverer o).maxLevel := by
    unfold top; rw [h0, hM, h1]; simp [Nat.mod_one]
  omega

/-- level discipline of `normalizeCovering` for ANY `recover` that keeps the level limits -/
theorem normalizeCovering_levels_of_recover {cfg : Config} (h : CfgOK cfg) (recover : CU → CU) (bound : CU)
    (hb : ∀ c ∈ bound, isValid c = true)
    (hrec : ∀ cov, (∀ c ∈ cov, CellAt (Res cfg) c) → ∀ c ∈ recover cov, CellAt (Res cfg) c) :
    ∀ c ∈ normalizeCovering cfg recover bound, CellAt (Res cfg) c := by
  have hpre := preNormalize_res h bound hb
  unfold normalizeCovering
  simp only []
  generalize preNormalize cfg bound = cov at *
  split
  · exact hpre
  · split
    · exact hrec cov hpre
    · exact mergeLoop_res h _ _ hpre

end S2Proofs.C05
