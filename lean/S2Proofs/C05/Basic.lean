/-
  S2Proofs.C05.Basic — configuration arithmetic, lawful queues, and the level facts of
  newCandidate / expandChildren / adjustCellLevels.
-/
import S2.Coverer
import S2Proofs.CellIDLemmas
open S2 S2.CellID S2.CellUnion S2.Coverer
namespace S2Proofs.C05

/-- what `newCoverer` guarantees about the clamped parameters -/
structure CfgOK (cfg : Config) : Prop where
  min_le : cfg.minLevel ≤ 30
  max_le : cfg.maxLevel ≤ 30
  mod_ge : 1 ≤ cfg.levelMod
  mod_le : cfg.levelMod ≤ 3

theorem newCoverer_ok (o : Options) : CfgOK (newCoverer o) := by
  refine ⟨?_, ?_, ?_, ?_⟩ <;> simp only [newCoverer, clamp] <;> omega

theorem CfgOK.mod_cases {cfg : Config} (h : CfgOK cfg) : cfg.levelMod = 1 ∨ cfg.levelMod = 2 ∨ cfg.levelMod = 3 := by
  have := h.mod_ge; have := h.mod_le; omega

/-- level is on the (minLevel, levelMod) grid -/
def Grid (cfg : Config) (k : Nat) : Prop := cfg.minLevel ≤ k ∧ (k - cfg.minLevel) % cfg.levelMod = 0

/-- the largest level a returned cell may have: `trueMax` when `minLevel ≤ maxLevel`, else `minLevel`
    (`MinLevel` wins when the user sets `MaxLevel < MinLevel`). -/
def top (cfg : Config) : Nat :=
  if cfg.minLevel ≤ cfg.maxLevel then cfg.maxLevel - (cfg.maxLevel - cfg.minLevel) % cfg.levelMod else cfg.minLevel

/-- admissible level of a cell the search works on -/
def Pre (cfg : Config) (k : Nat) : Prop := k ≤ top cfg ∧ (k < cfg.minLevel ∨ Grid cfg k)
/-- admissible level of a returned cell -/
def Res (cfg : Config) (k : Nat) : Prop := Grid cfg k ∧ k ≤ top cfg

/-- tactic: split `levelMod` into 1,2,3 and finish by linear arithmetic -/
macro "mod_omega" h:ident : tactic =>
  `(tactic| (rcases CfgOK.mod_cases $h with hm | hm | hm <;> simp only [hm] at * <;> omega))

theorem top_le_30 {cfg : Config} (h : CfgOK cfg) : top cfg ≤ 30 := by
  have := h.min_le; have := h.max_le
  unfold top; split <;> omega

theorem top_ge_min {cfg : Config} (h : CfgOK cfg) : cfg.minLevel ≤ top cfg := by
  unfold top; split
  · mod_omega h
  · omega

theorem top_grid {cfg : Config} (h : CfgOK cfg) : Grid cfg (top cfg) := by
  unfold Grid top; split
  · mod_omega h
  · simp

theorem top_le_max {cfg : Config} (hmm : cfg.minLevel ≤ cfg.maxLevel) : top cfg ≤ cfg.maxLevel := by
  unfold top; simp only [hmm, if_true]; omega

/-- a level `≤ maxLevel` that is below `minLevel` or on the grid is `≤ top` -/
theorem le_top {cfg : Config} (h : CfgOK cfg) {k : Nat} (hk : k ≤ cfg.maxLevel)
    (hg : k ≤ cfg.minLevel ∨ Grid cfg k) : k ≤ top cfg := by
  unfold Grid at hg; unfold top; split
  · mod_omega h
  · omega

theorem adjustLevel_le (cfg : Config) (k : Nat) : adjustLevel cfg k ≤ k := by
  unfold adjustLevel; split <;> omega

theorem adjustLevel_grid {cfg : Config} (h : CfgOK cfg) (k : Nat) :
    adjustLevel cfg k ≤ cfg.minLevel ∧ adjustLevel cfg k = k ∨ Grid cfg (adjustLevel cfg k) := by
  unfold adjustLevel Grid
  split
  · rename_i hc
    simp only [Bool.and_eq_true, decide_eq_true_eq] at hc
    right; mod_omega h
  · rename_i hc
    simp only [Bool.and_eq_true, decide_eq_true_eq, not_and] at hc
    by_cases h1 : cfg.levelMod > 1
    · left; have := hc h1; omega
    · have h1' : cfg.levelMod = 1 := by have := h.mod_ge; omega
      by_cases h2 : k ≤ cfg.minLevel
      · left; omega
      · right; simp only [h1']; omega

/-- `x` is a valid cell whose level satisfies `P` -/
def CellAt (P : Nat → Prop) (c : CellID) : Prop := ∃ k, IsCell c k ∧ P k

theorem CellAt.mono {P Q : Nat → Prop} {c : CellID} (h : CellAt P c) (hPQ : ∀ k, k ≤ 30 → P k → Q k) : CellAt Q c := by
  obtain ⟨k, hc, hp⟩ := h; exact ⟨k, hc, hPQ k hc.k_le hp⟩

/-! ### lawful priority queues: "every pop order" -/

/-- A queue implementation is lawful if it behaves as a multiset of candidates.  Nothing is said
    about WHICH element `pop?` returns. -/
structure LawfulPQ {Q : Type} (ops : PQOps Q) where
  toList : Q → List Cand
  empty_toList : toList ops.empty = []
  push_perm : ∀ q c, (toList (ops.push q c)).Perm (c :: toList q)
  pop_perm : ∀ q c q', ops.pop? q = some (c, q') → (toList q).Perm (c :: toList q')
  pop_none : ∀ q, ops.pop? q = none → toList q = []
  size_eq : ∀ q, ops.size q = (toList q).length

def stackLawful : LawfulPQ stackOps where
  toList := id
  empty_toList := rfl
  push_perm := fun _ _ => List.Perm.refl _
  pop_perm := by
    intro q c q' h
    cases q with
    | nil => simp [stackOps] at h
    | cons a t => simp only [stackOps, Option.some.injEq, Prod.mk.injEq] at h; obtain ⟨rfl, rfl⟩ := h; exact List.Perm.refl _
  pop_none := by
    intro q h
    cases q with
    | nil => rfl
    | cons a t => simp [stackOps] at h
  size_eq := fun _ => rfl

/-! ### newCandidate / expandChildren -/

/-- what is known about a fresh candidate at level `k` -/
structure GoodChild (cfg : Config) (ch : Child) (k : Nat) : Prop where
  cell : IsCell ch.id k
  term : ch.terminal = true → cfg.minLevel ≤ k
  nonterm : ch.terminal = false → k < cfg.minLevel ∨ k + cfg.levelMod ≤ cfg.maxLevel

theorem newCandidate_good {cfg : Config} {interior : Bool} {R : Region} {id : CellID} {k : Nat}
    (hid : IsCell id k) {ch : Child} (h : newCandidate cfg interior R id = some ch) : GoodChild cfg ch k := by
  unfold newCandidate at h
  rw [hid.level_eq] at h
  cases hI : R.intersectsCell id <;> cases hint : interior <;> cases hC : R.containsCell id <;>
    by_cases hge : k ≥ cfg.minLevel <;> by_cases hmx : k + cfg.levelMod > cfg.maxLevel <;>
    simp [hI, hint, hC, hge, hmx] at h <;>
    (subst h; refine ⟨hid, ?_, ?_⟩ <;> simp <;> omega)

theorem newCandidate_id {cfg : Config} {interior : Bool} {R : Region} {id : CellID}
    {ch : Child} (h : newCandidate cfg interior R id = some ch) : ch.id = id := by
  unfold newCandidate at h
  cases hI : R.intersectsCell id <;> cases hint : interior <;> cases hC : R.containsCell id <;>
    by_cases hge : level id ≥ cfg.minLevel <;> by_cases hmx : level id + cfg.levelMod > cfg.maxLevel <;>
    simp [hI, hint, hC, hge, hmx] at h <;>
    (subst h; rfl)

theorem mem_childrenList {id ci : CellID} (h : ci ∈ childrenList id) : ∃ t, t < 4 ∧ ci = child id t := by
  unfold childrenList at h
  simp only [List.mem_cons, List.not_mem_nil, or_false] at h
  rcases h with rfl | rfl | rfl | rfl
  · exact ⟨0, by omega, rfl⟩
  · exact ⟨1, by omega, rfl⟩
  · exact ⟨2, by omega, rfl⟩
  · exact ⟨3, by omega, rfl⟩

theorem expandChildren_good {cfg : Config} {interior : Bool} {R : Region} :
    ∀ (n : Nat) (id : CellID) (k : Nat), IsCell id k → k + n ≤ 30 →
      ∀ ch ∈ expandChildren cfg interior R n id, GoodChild cfg ch (k + n) := by
  intro n
  induction n with
  | zero => intro id k _ _ ch h; simp [expandChildren] at h
  | succ n ih =>
    intro id k hid hk ch h
    simp only [expandChildren, List.mem_flatMap] at h
    obtain ⟨ci, hci, hch⟩ := h
    obtain ⟨t, ht, rfl⟩ := mem_childrenList hci
    have hc := hid.child_isCell (by omega) ht
    by_cases hn : n > 0
    · simp only [hn, if_true] at hch
      split at hch
      · have := ih _ (k+1) hc (by omega) ch hch
        rwa [show k + 1 + n = k + (n + 1) by omega] at this
      · simp at hch
    · simp only [hn, if_false] at hch
      have hn0 : n = 0 := by omega
      subst hn0
      split at hch
      · rename_i c hc'
        simp only [List.mem_singleton] at hch; subst hch
        exact newCandidate_good hc hc'
      · simp at hch

end S2Proofs.C05
