/-
  S2Proofs.C05.Loop — a generic "universal invariant" principle for the search loop of
  coveringInternal, valid for every lawful queue.
-/
import S2Proofs.C05.Basic
open S2 S2.CellID S2.CellUnion S2.Coverer
namespace S2Proofs.C05

variable {Q : Type}

/-- closure conditions for predicates on returned cells (`PR`), queued candidates (`PC`) and fresh
    candidates (`PCh`) -/
structure Closure (cfg : Config) (interior : Bool) (R : Region)
    (PR : CellID → Prop) (PC : Cand → Prop) (PCh : Child → Prop) : Prop where
  term : ∀ ch, PCh ch → ch.terminal = true → PR ch.id
  expand : ∀ ch, PCh ch → ch.terminal = false →
    ∀ children, children = expandChildren cfg interior R (if level ch.id < cfg.minLevel then 1 else cfg.levelMod) ch.id →
      children.length ≠ 0 →
      (interior = false → level ch.id ≥ cfg.minLevel → numTerminals children = 1 <<< (2 * cfg.levelMod) → PR ch.id) ∧
      ∀ p, PC ⟨ch.id, children.length, children, p⟩
  kids : ∀ cand, PC cand → ∀ ch ∈ cand.children, PCh ch
  self : ∀ cand, PC cand → interior = false → level cand.id ≥ cfg.minLevel → PR cand.id

def StInv {ops : PQOps Q} (law : LawfulPQ ops) (PR : CellID → Prop) (PC : Cand → Prop) (st : St Q) : Prop :=
  (∀ c ∈ st.result, PR c) ∧ (∀ cand ∈ law.toList st.pq, PC cand)

section
variable {ops : PQOps Q} (law : LawfulPQ ops) {cfg : Config} {interior : Bool} {R : Region}
  {PR : CellID → Prop} {PC : Cand → Prop} {PCh : Child → Prop}

theorem addCandidate_inv (hcl : Closure cfg interior R PR PC PCh) {st : St Q} (hst : StInv law PR PC st)
    {ch : Child} (hch : PCh ch) : StInv law PR PC (addCandidate ops cfg interior R st ch) := by
  obtain ⟨hr, hq⟩ := hst
  unfold addCandidate
  split
  · rename_i ht
    exact ⟨by intro c hc; simp only [List.mem_cons] at hc; rcases hc with rfl | hc; exact hcl.term _ hch ht; exact hr c hc, hq⟩
  · rename_i ht
    have ht' : ch.terminal = false := by simpa using ht
    have hex := hcl.expand ch hch ht' _ rfl
    simp only []
    generalize expandChildren cfg interior R (if level ch.id < cfg.minLevel then 1 else cfg.levelMod) ch.id = children at hex ⊢
    by_cases hlen : children.length = 0
    · simp only [hlen, if_true]; exact ⟨hr, hq⟩
    · simp only [hlen, if_false]
      have hex := hex hlen
      split
      · rename_i hopt
        simp only [Bool.and_eq_true, Bool.not_eq_true', beq_iff_eq, decide_eq_true_eq] at hopt
        refine ⟨?_, hq⟩
        intro c hc; simp only [List.mem_cons] at hc
        rcases hc with rfl | hc
        · exact hex.1 hopt.1.1 hopt.2 hopt.1.2
        · exact hr c hc
      · refine ⟨hr, ?_⟩
        intro cand hc
        have := (law.push_perm st.pq _).mem_iff.mp hc
        simp only [List.mem_cons] at this
        rcases this with rfl | h
        · exact hex.2 _
        · exact hq cand h

theorem foldl_addCandidate_inv (hcl : Closure cfg interior R PR PC PCh) :
    ∀ (chs : List Child) (st : St Q), StInv law PR PC st → (∀ ch ∈ chs, PCh ch) →
      StInv law PR PC (chs.foldl (fun st ch =>
        if !interior || (st.result.length : Int) < cfg.maxCells then addCandidate ops cfg interior R st ch else st) st) := by
  intro chs
  induction chs with
  | nil => intro st h _; exact h
  | cons ch t ih =>
    intro st h hall
    simp only [List.foldl_cons]
    apply ih
    · split
      · exact addCandidate_inv law hcl h (hall ch (by simp))
      · exact h
    · intro c hc; exact hall c (by simp [hc])

theorem coverLoop_inv (hcl : Closure cfg interior R PR PC PCh) :
    ∀ (fuel : Nat) (st : St Q), StInv law PR PC st → StInv law PR PC (coverLoop ops cfg interior R fuel st) := by
  intro fuel
  induction fuel with
  | zero => intro st h; exact h
  | succ fuel ih =>
    intro st h
    unfold coverLoop
    split
    · split
      · exact h
      · rename_i cand q hpop
        have hperm := law.pop_perm _ _ _ hpop
        have hcand : PC cand := h.2 cand (hperm.mem_iff.mpr (by simp))
        have hst' : StInv law PR PC { st with pq := q } :=
          ⟨h.1, fun c hc => h.2 c (hperm.mem_iff.mpr (by simp [hc]))⟩
        simp only []
        split
        · apply ih
          exact foldl_addCandidate_inv law hcl _ _ hst' (hcl.kids cand hcand)
        · rename_i hcond
          simp only [Bool.or_eq_true, decide_eq_true_eq, not_or, Bool.not_eq_true] at hcond
          apply ih
          refine ⟨?_, hst'.2⟩
          intro c hc; simp only [List.mem_cons] at hc
          rcases hc with rfl | hc
          · exact hcl.self cand hcand hcond.1.1.1 (by omega)
          · exact h.1 c hc
    · exact h

theorem initState_inv (hcl : Closure cfg interior R PR PC PCh) (start : CU)
    (hstart : ∀ ci ∈ adjustCellLevels cfg start, ∀ ch, newCandidate cfg interior R ci = some ch → PCh ch) :
    StInv law PR PC (initState ops cfg interior R start) := by
  unfold initState
  have : ∀ (l : List CellID) (st : St Q), StInv law PR PC st →
      (∀ ci ∈ l, ∀ ch, newCandidate cfg interior R ci = some ch → PCh ch) →
      StInv law PR PC (l.foldl (addStart ops cfg interior R) st) := by
    intro l
    induction l with
    | nil => intro st h _; exact h
    | cons ci t ih =>
      intro st h hall
      simp only [List.foldl_cons]
      apply ih
      · unfold addStart
        split
        · exact h
        · rename_i ch hch
          exact addCandidate_inv law hcl h (hall ci (by simp) ch hch)
      · intro c hc; exact hall c (by simp [hc])
  apply this _ _ _ hstart
  exact ⟨by simp, by rw [law.empty_toList]; simp⟩

include law in
/-- every cell of the raw result satisfies `PR` -/
theorem rawResult_inv (hcl : Closure cfg interior R PR PC PCh) (start : CU)
    (hstart : ∀ ci ∈ adjustCellLevels cfg start, ∀ ch, newCandidate cfg interior R ci = some ch → PCh ch) :
    ∀ c ∈ rawResult ops cfg interior R start, PR c := by
  intro c hc
  unfold rawResult at hc
  rw [List.mem_reverse] at hc
  exact (coverLoop_inv law hcl _ _ (initState_inv law hcl start hstart)).1 c hc
end

end S2Proofs.C05
