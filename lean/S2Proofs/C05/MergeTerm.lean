/-
  S2Proofs.C05.MergeTerm — the merge loop of `normalizeCovering` (repaired `replaceCellsWithAncestor`,
  `begin` found with `>=`) ends by its own exit tests: every round that does not stop strictly
  shortens the covering, so the fuel `cov.length` is never what ends it.
-/
import S2Proofs.C05.Fast
import S2Proofs.CU.Normal
open S2 S2.CellID S2.CellUnion S2.Coverer
namespace S2Proofs.C05

/-! ### `sort.Search` -/

theorem sortSearch_go_spec (f : Nat → Bool) (n : Nat) : ∀ (fuel i j : Nat), i ≤ j → j ≤ n → j - i ≤ fuel →
    (∀ t, t < i → f t = false) → (∀ t, j ≤ t → t < n → f t = true) →
    (∀ s t, s ≤ t → t < n → f s = true → f t = true) →
    sortSearch.go f fuel i j ≤ n ∧ (∀ t, t < sortSearch.go f fuel i j → f t = false) ∧
      (∀ t, sortSearch.go f fuel i j ≤ t → t < n → f t = true) := by
  intro fuel
  induction fuel with
  | zero =>
    intro i j hij hj hf h1 h2 _
    have : i = j := by omega
    subst this
    unfold sortSearch.go
    exact ⟨hj, h1, h2⟩
  | succ fuel ih =>
    intro i j hij hj hf h1 h2 hm
    unfold sortSearch.go
    by_cases hlt : i < j
    · simp only [hlt, ↓reduceIte]
      cases hc : f ((i + j) / 2) with
      | false =>
        simp only [Bool.not_false, ↓reduceIte]
        apply ih _ _ (by omega) hj (by omega) _ h2 hm
        intro t ht
        cases hft : f t with
        | false => rfl
        | true =>
          have := hm t ((i + j) / 2) (by omega) (by omega) hft
          rw [hc] at this; cases this
      | true =>
        simp only [Bool.not_true, Bool.false_eq_true, ↓reduceIte]
        apply ih _ _ (by omega) (by omega) (by omega) h1 _ hm
        intro t ht1 ht2
        exact hm _ t ht1 ht2 hc
    · have : i = j := by omega
      subst this
      simp only [hlt, ↓reduceIte]
      exact ⟨hj, h1, h2⟩

/-- for a predicate that is monotone on `[0,n)` (false … false true … true) `sort.Search(n, f)` is
    the least index where it holds, or `n` -/
theorem sortSearch_spec (f : Nat → Bool) (n : Nat) (hm : ∀ s t, s ≤ t → t < n → f s = true → f t = true) :
    sortSearch n f ≤ n ∧ (∀ t, t < sortSearch n f → f t = false) ∧
      (∀ t, sortSearch n f ≤ t → t < n → f t = true) := by
  unfold sortSearch
  exact sortSearch_go_spec f n n 0 n (Nat.zero_le _) (Nat.le_refl _) (by omega) (fun t ht => by omega)
    (fun t h1 h2 => by omega) hm

/-! ### `replaceCellsWithAncestor` on a valid sorted covering -/

/-- index form of a valid sorted covering -/
theorem cov_idx_facts {cu : CU} (hv : AllValid cu) (hs : Sorted cu) :
    (∀ t, t < cu.length → isValid cu[t]! = true) ∧
    (∀ s t, s < t → t < cu.length → hi cu[s]! < lo cu[t]!) := by
  constructor
  · intro t ht
    rw [getElem!_pos cu t ht]; exact hv _ (List.getElem_mem _)
  · intro s t hst ht
    unfold Sorted at hs; rw [List.pairwise_iff_getElem] at hs
    rw [getElem!_pos cu t ht, getElem!_pos cu s (by omega)]
    exact hs s t (by omega) ht hst

/-- every cell of a valid sorted covering that has a descendant-or-self of `id` at index `i` lies
    before `id`, inside `id`, or after `id` -/
theorem cov_trichotomy {cov : CU} {id : CellID} (hv : AllValid cov) (hs : Sorted cov) (hid : isValid id = true)
    {i : Nat} (hi' : i < cov.length) (hci : contains id cov[i]! = true) :
    ∀ t, t < cov.length → hi cov[t]! < lo id ∨ (lo id ≤ lo cov[t]! ∧ hi cov[t]! ≤ hi id) ∨ hi id < lo cov[t]! := by
  obtain ⟨hval, hdis⟩ := cov_idx_facts hv hs
  have hci' := (contains_range hid (hval i hi')).mp hci
  have fi := valid_facts (hval i hi')
  intro t ht
  have ft := valid_facts (hval t ht)
  rcases nested_or_disjoint (hval t ht) hid with h | h | h | h
  · rcases Nat.lt_trichotomy t i with hlt | heq | hgt
    · have := hdis t i hlt hi'; omega
    · subst heq; right; left; omega
    · have := hdis i t hgt ht; omega
  · exact Or.inr (Or.inl h)
  · exact Or.inl h
  · exact Or.inr (Or.inr h)

/-- SPEC of the repaired `replaceCellsWithAncestor`: on a valid sorted covering holding a
    descendant-or-self of `id` at index `i`, the cells inside `id` are the block `[b, e)` with
    `b ≤ i < e`, and the result is `cov[:b] ++ id :: cov[e:]` (no aliasing effect since `b < e`). -/
theorem replace_spec {cov : CU} {id : CellID} (hv : AllValid cov) (hs : Sorted cov) (hid : isValid id = true)
    {i : Nat} (hi' : i < cov.length) (hci : contains id cov[i]! = true) :
    ∃ b e, b ≤ i ∧ i < e ∧ e ≤ cov.length ∧
      replaceCellsWithAncestor cov id = cov.take b ++ id :: cov.drop e ∧
      (∀ t, t < b → hi cov[t]! < lo id) ∧
      (∀ t, e ≤ t → t < cov.length → hi id < lo cov[t]!) ∧
      (∀ t, b ≤ t → t < e → lo id ≤ lo cov[t]! ∧ hi cov[t]! ≤ hi id) := by
  obtain ⟨hval, hdis⟩ := cov_idx_facts hv hs
  have tri := cov_trichotomy hv hs hid hi' hci
  have hci' := (contains_range hid (hval i hi')).mp hci
  have fid := valid_facts hid
  have hfb : ∀ t, t < cov.length →
      ((decide (cov.toArray[t]! ≥ rangeMin id)) = true ↔ ¬ hi cov[t]! < lo id) := by
    intro t ht
    have ft := valid_facts (hval t ht)
    have := tri t ht
    simp only [List.getElem!_toArray, decide_eq_true_eq, ge_iff_le, UInt64.le_iff_toNat_le]
    show lo id ≤ cov[t]!.toNat ↔ _
    omega
  have hfe : ∀ t, t < cov.length →
      ((decide (cov.toArray[t]! > rangeMax id)) = true ↔ hi id < lo cov[t]!) := by
    intro t ht
    have ft := valid_facts (hval t ht)
    have := tri t ht
    simp only [List.getElem!_toArray, decide_eq_true_eq, gt_iff_lt, UInt64.lt_iff_toNat_lt]
    show hi id < cov[t]!.toNat ↔ _
    omega
  have hsz : cov.toArray.size = cov.length := by simp
  obtain ⟨b1, b2, b3⟩ := sortSearch_spec (fun t => decide (cov.toArray[t]! ≥ rangeMin id)) cov.toArray.size (by
    intro s t hst ht hfs
    rw [hsz] at ht
    rw [hfb t ht]; rw [hfb s (by omega)] at hfs
    rcases Nat.eq_or_lt_of_le hst with rfl | hlt
    · exact hfs
    · have := hdis s t hlt ht
      have ft := valid_facts (hval t ht)
      omega)
  obtain ⟨e1, e2, e3⟩ := sortSearch_spec (fun t => decide (cov.toArray[t]! > rangeMax id)) cov.toArray.size (by
    intro s t hst ht hfs
    rw [hsz] at ht
    rw [hfe t ht]; rw [hfe s (by omega)] at hfs
    rcases Nat.eq_or_lt_of_le hst with rfl | hlt
    · exact hfs
    · have := hdis s t hlt ht
      have fs := valid_facts (hval s (by omega))
      omega)
  unfold replaceCellsWithAncestor
  simp only []
  generalize sortSearch cov.toArray.size (fun t => decide (cov.toArray[t]! ≥ rangeMin id)) = b at b1 b2 b3
  generalize sortSearch cov.toArray.size (fun t => decide (cov.toArray[t]! > rangeMax id)) = e at e1 e2 e3
  rw [hsz] at b1 b3 e1 e3
  have fi := valid_facts (hval i hi')
  have hbi : b ≤ i := by
    by_cases h : b ≤ i
    · exact h
    · have h1 := b2 i (by omega)
      have h2 := (hfb i hi').mpr (by omega)
      rw [h1] at h2; cases h2
  have hie : i < e := by
    by_cases h : i < e
    · exact h
    · have h1 := e3 i (by omega) hi'
      have := (hfe i hi').mp h1
      omega
  refine ⟨b, e, hbi, hie, e1, ?_, ?_, ?_, ?_⟩
  · have hblt : b < cov.toArray.size := by rw [hsz]; omega
    simp only [hblt, if_true, Array.set!_eq_setIfInBounds, Array.toList_setIfInBounds]
    rw [List.drop_set_of_lt (by omega)]
  · intro t ht
    have h1 := b2 t ht
    have h2 := hfb t (by omega)
    rw [h1] at h2
    simpa using h2
  · intro t ht1 ht2
    exact (hfe t ht2).mp (e3 t ht1 ht2)
  · intro t ht1 ht2
    have h1 := (hfb t (by omega)).mp (b3 t ht1 (by omega))
    have h2 := e2 t ht2
    have h3 := hfe t (by omega)
    rw [h2] at h3
    have := tri t (by omega)
    have h4 : ¬ hi id < lo cov[t]! := by simpa using h3
    omega

/-- the repaired `replaceCellsWithAncestor` keeps a covering valid and sorted, never lengthens it,
    and puts `id` into it -/
theorem replace_ok {cov : CU} {id : CellID} (hv : AllValid cov) (hs : Sorted cov) (hid : isValid id = true)
    {i : Nat} (hi' : i < cov.length) (hci : contains id cov[i]! = true) :
    AllValid (replaceCellsWithAncestor cov id) ∧ Sorted (replaceCellsWithAncestor cov id) ∧
      (replaceCellsWithAncestor cov id).length ≤ cov.length ∧ id ∈ replaceCellsWithAncestor cov id := by
  obtain ⟨b, e, hbi, hie, hel, heq, hbef, haft, _⟩ := replace_spec hv hs hid hi' hci
  have fid := valid_facts hid
  rw [heq]
  have hmt : ∀ a ∈ cov.take b, hi a < lo id := by
    intro a ha
    obtain ⟨t, ht, rfl⟩ := List.mem_take_iff_getElem.mp ha
    have := hbef t (by omega)
    rwa [getElem!_pos cov t (by omega)] at this
  have hmd : ∀ x ∈ cov.drop e, hi id < lo x := by
    intro x hx
    obtain ⟨t, ht, rfl⟩ := List.mem_drop_iff_getElem.mp hx
    have := haft (e + t) (by omega) (by omega)
    rwa [getElem!_pos cov (e + t) (by omega)] at this
  refine ⟨?_, ?_, ?_, by simp⟩
  · intro c hc
    simp only [List.mem_append, List.mem_cons] at hc
    rcases hc with h | rfl | h
    · exact hv c (List.mem_of_mem_take h)
    · exact hid
    · exact hv c (List.mem_of_mem_drop h)
  · unfold Sorted at *
    rw [List.pairwise_append]
    refine ⟨hs.sublist (List.take_sublist _ _), List.pairwise_cons.mpr ⟨hmd, hs.sublist (List.drop_sublist _ _)⟩, ?_⟩
    intro a ha x hx
    have h1 := hmt a ha
    simp only [List.mem_cons] at hx
    rcases hx with rfl | hx
    · exact h1
    · have := hmd x hx; omega
  · simp only [List.length_append, List.length_cons, List.length_take, List.length_drop]
    omega

/-- `replace_length`: with two different cells of the covering inside `id`, the repaired
    `replaceCellsWithAncestor` strictly shortens the covering -/
theorem replace_length {cov : CU} {id : CellID} (hv : AllValid cov) (hs : Sorted cov) (hid : isValid id = true)
    {i j : Nat} (hij : i < j) (hj : j < cov.length)
    (hci : contains id cov[i]! = true) (hcj : contains id cov[j]! = true) :
    (replaceCellsWithAncestor cov id).length + 1 ≤ cov.length := by
  obtain ⟨b, e, hbi, hie, hel, heq, hbef, haft, _⟩ := replace_spec hv hs hid (by omega : i < cov.length) hci
  obtain ⟨hval, _⟩ := cov_idx_facts hv hs
  have hcj' := (contains_range hid (hval j hj)).mp hcj
  have fj := valid_facts (hval j hj)
  have hje : j < e := by
    by_cases h : j < e
    · exact h
    · have := haft j (by omega) hj; omega
  rw [heq]
  simp only [List.length_append, List.length_cons, List.length_take, List.length_drop]
  omega

/-! ### `CommonAncestorLevel` really is a common ancestor level -/

theorem xor_zero_eq (a b : Nat) (h : a ^^^ b = 0) : a = b := by
  apply Nat.eq_of_testBit_eq
  intro i
  have : (a ^^^ b).testBit i = false := by rw [h]; simp
  rw [Nat.testBit_xor] at this
  cases ha : a.testBit i <;> cases hb : b.testBit i <;> simp [ha, hb] at this ⊢

theorem div_eq_of_xor_lt (a b n : Nat) (h : a ^^^ b < 2^n) : a / 2^n = b / 2^n := by
  apply xor_zero_eq
  rw [← Nat.shiftRight_eq_div_pow, ← Nat.shiftRight_eq_div_pow, ← Nat.shiftRight_xor_distrib,
    Nat.shiftRight_eq_div_pow]
  exact Nat.div_eq_of_lt h

/-- the level returned by `CommonAncestorLevel` is at most the level of either cell, and the two
    ids agree above the bits of that level -/
theorem commonAncestorLevel_spec {x y : CellID} {kx ky l : Nat} (hx : IsCell x kx) (hy : IsCell y ky)
    (h : commonAncestorLevel x y = some l) :
    l ≤ kx ∧ l ≤ ky ∧ x.toNat / 2^(61 - 2*l) = y.toNat / 2^(61 - 2*l) := by
  have h1 := commonAncestorLevel_le hx h
  unfold commonAncestorLevel at h
  simp only [] at h
  generalize hb : (if (if x ^^^ y < lsb x then lsb x else x ^^^ y) < lsb y then lsb y
      else (if x ^^^ y < lsb x then lsb x else x ^^^ y)) = bits at h
  have hge : (lsb y).toNat ≤ bits.toNat ∧ (x ^^^ y).toNat ≤ bits.toNat := by
    rw [← hb]
    split <;> split <;> simp only [UInt64.lt_iff_toNat_lt] at * <;> omega
  rw [hy.lsb_eq, UInt64.toNat_xor] at hge
  have hk := hy.k_le
  have hpos := Nat.two_pow_pos (60 - 2*ky)
  have hm : 60 - 2*ky ≤ msbPos bits := by
    unfold msbPos
    exact (Nat.le_log2 (by omega)).mpr hge.1
  have hlt : bits.toNat < 2^(msbPos bits + 1) := by
    unfold msbPos; exact Nat.lt_log2_self
  split at h
  · cases h
  · rename_i hm60
    simp only [Option.some.injEq] at h
    subst h
    rw [Nat.shiftRight_eq_div_pow] at h1 ⊢
    refine ⟨h1, by omega, ?_⟩
    apply div_eq_of_xor_lt
    have : 2^(msbPos bits + 1) ≤ 2^(61 - 2*((60 - msbPos bits) / 2^1)) :=
      Nat.pow_le_pow_right (by omega) (by omega)
    omega

/-- below the common ancestor level the two cells have the same ancestors -/
theorem commonAncestorLevel_parent {x y : CellID} {kx ky l j : Nat} (hx : IsCell x kx) (hy : IsCell y ky)
    (h : commonAncestorLevel x y = some l) (hj : j ≤ l) : parent x j = parent y j := by
  obtain ⟨h1, h2, h3⟩ := commonAncestorLevel_spec hx hy h
  have hkx := hx.k_le
  have hj30 : j ≤ 30 := by omega
  apply UInt64.toNat_inj.mp
  rw [parent_toNat x j hj30, parent_toNat y j hj30]
  have e : 61 - 2*j = (61 - 2*l) + 2*(l - j) := by omega
  have hd : x.toNat / 2^(61 - 2*j) = y.toNat / 2^(61 - 2*j) := by
    rw [e, Nat.pow_add, ← Nat.div_div_eq_div_mul, ← Nat.div_div_eq_div_mul, h3]
  have dx := Nat.div_add_mod x.toNat (2^(61 - 2*j))
  have dy := Nat.div_add_mod y.toNat (2^(61 - 2*j))
  rw [hd] at dx
  omega

/-! ### the merge loop -/

theorem mem_idx {cov : CU} {c : CellID} (h : c ∈ cov) : ∃ t, t < cov.length ∧ cov[t]! = c := by
  obtain ⟨t, ht, rfl⟩ := List.mem_iff_getElem.mp h
  exact ⟨t, ht, getElem!_pos cov t ht⟩

/-- the inner `for bestLevel > c.minLevel` loop keeps the covering valid and sorted and never
    lengthens it -/
theorem mergeUp_ok (cfg : Config) : ∀ (fuel : Nat) (cov : CU) (id : CellID) (bl : Int),
    AllValid cov → Sorted cov → id ∈ cov → (∃ k, IsCell id k ∧ bl ≤ (k : Int)) →
    AllValid (mergeUp cfg fuel cov id bl) ∧ Sorted (mergeUp cfg fuel cov id bl) ∧
      (mergeUp cfg fuel cov id bl).length ≤ cov.length := by
  intro fuel
  induction fuel with
  | zero => intro cov id bl hv hs _ _; exact ⟨hv, hs, Nat.le_refl _⟩
  | succ fuel ih =>
    intro cov id bl hv hs hmem hk
    obtain ⟨k, hid, hbl⟩ := hk
    rw [mergeUp]
    split
    · simp only []
      have hn : (bl - (cfg.levelMod : Int)).toNat ≤ k := by omega
      have hid' := hid.parent_isCell hn
      generalize hpe : parent id (bl - (cfg.levelMod : Int)).toNat = id' at *
      split
      · exact ⟨hv, hs, Nat.le_refl _⟩
      · obtain ⟨t, ht, hte⟩ := mem_idx hmem
        have hvid' : isValid id' = true := (isValid_iff id').mpr ⟨_, hid'⟩
        have hc : contains id' cov[t]! = true := by
          rw [hte]; exact (hid'.contains_iff_parent hid).mpr ⟨hn, hpe⟩
        obtain ⟨r1, r2, r3, r4⟩ := replace_ok hv hs hvid' ht hc
        obtain ⟨q1, q2, q3⟩ := ih _ id' (bl - (cfg.levelMod : Int)) r1 r2 r4
          ⟨_, hid', Int.self_le_toNat _⟩
        exact ⟨q1, q2, by omega⟩
    · exact ⟨hv, hs, Nat.le_refl _⟩

/-- `mergeLoop_round_shrinks`: a round of the outer loop that passes both exit tests replaces the
    best adjacent pair by an ancestor that contains both cells, so the covering it hands to the next
    round is valid, sorted and STRICTLY shorter -/
theorem mergeLoop_round_shrinks (cfg : Config) {cov : CU} (hv : AllValid cov) (hs : Sorted cov)
    {bi bl : Int} (hbp : bestPair cfg cov = (bi, bl)) (hge : ¬ bl < (cfg.minLevel : Int)) :
    AllValid (mergeUp cfg 31 (replaceCellsWithAncestor cov (parent (cov.toArray[bi.toNat]!) bl.toNat))
        (parent (cov.toArray[bi.toNat]!) bl.toNat) bl) ∧
    Sorted (mergeUp cfg 31 (replaceCellsWithAncestor cov (parent (cov.toArray[bi.toNat]!) bl.toNat))
        (parent (cov.toArray[bi.toNat]!) bl.toNat) bl) ∧
    (mergeUp cfg 31 (replaceCellsWithAncestor cov (parent (cov.toArray[bi.toNat]!) bl.toNat))
        (parent (cov.toArray[bi.toNat]!) bl.toNat) bl).length + 1 ≤ cov.length := by
  have hinv := bestPair_inv cfg cov
  rw [hbp] at hinv
  rcases hinv with hinv | ⟨i, l, hi', hca, hbest⟩
  · simp only [Prod.mk.injEq] at hinv
    omega
  · simp only [Prod.mk.injEq] at hbest
    obtain ⟨rfl, rfl⟩ := hbest
    simp only [Int.toNat_natCast, List.getElem!_toArray] at *
    simp only [List.size_toArray] at hi'
    obtain ⟨hval, _⟩ := cov_idx_facts hv hs
    obtain ⟨kx, hx⟩ := (isValid_iff _).mp (hval i (by omega))
    obtain ⟨ky, hy⟩ := (isValid_iff _).mp (hval (i+1) hi')
    obtain ⟨l1, l2, _⟩ := commonAncestorLevel_spec hx hy hca
    have hal := adjustLevel_le cfg l
    have hpe := commonAncestorLevel_parent hx hy hca hal
    have hid : IsCell (parent cov[i]! (adjustLevel cfg l)) (adjustLevel cfg l) := hx.parent_isCell (by omega)
    generalize hide : parent cov[i]! (adjustLevel cfg l) = id at *
    have hvid : isValid id = true := (isValid_iff id).mpr ⟨_, hid⟩
    have hcx : contains id cov[i]! = true := (hid.contains_iff_parent hx).mpr ⟨by omega, hide⟩
    have hcy : contains id cov[i+1]! = true := (hid.contains_iff_parent hy).mpr ⟨by omega, hpe.symm⟩
    have hlen := replace_length hv hs hvid (Nat.lt_succ_self i) hi' hcx hcy
    obtain ⟨r1, r2, _, r4⟩ := replace_ok hv hs hvid (by omega : i < cov.length) hcx
    obtain ⟨q1, q2, q3⟩ := mergeUp_ok cfg 31 _ id (adjustLevel cfg l : Int) r1 r2 r4 ⟨_, hid, Int.le_refl _⟩
    exact ⟨q1, q2, by omega⟩

theorem bestPair_nil (cfg : Config) : bestPair cfg [] = (-1, -1) := rfl

theorem mergeLoop_nil (cfg : Config) : ∀ fuel, mergeLoop cfg fuel [] = [] := by
  intro fuel
  cases fuel with
  | zero => rfl
  | succ fuel =>
    rw [mergeLoop]
    split
    · rw [bestPair_nil]
      simp only []
      split
      · rfl
      · rename_i h; exfalso; apply h; omega
    · rfl

/-- the two exit tests of the outer loop: `len(covering) ≤ maxCells`, or no adjacent pair has a
    common ancestor at a level `≥ minLevel` -/
def MergeDone (cfg : Config) (cov : CU) : Prop :=
  ¬ ((cov.length : Int) > cfg.maxCells) ∨ (bestPair cfg cov).2 < (cfg.minLevel : Int)

/-- with `fuel ≥ len(covering)` the model's loop ends by one of the exit tests of the Go loop (never
    by running out of fuel), and the covering stays valid, sorted and no longer than it was -/
theorem mergeLoop_done (cfg : Config) : ∀ (fuel : Nat) (cov : CU), AllValid cov → Sorted cov → cov.length ≤ fuel →
    MergeDone cfg (mergeLoop cfg fuel cov) ∧ AllValid (mergeLoop cfg fuel cov) ∧ Sorted (mergeLoop cfg fuel cov) ∧
      (mergeLoop cfg fuel cov).length ≤ cov.length := by
  intro fuel
  induction fuel with
  | zero =>
    intro cov hv hs hl
    have : cov = [] := List.eq_nil_of_length_eq_zero (by omega)
    subst this
    refine ⟨Or.inr ?_, hv, hs, Nat.le_refl _⟩
    show (bestPair cfg []).2 < _
    rw [bestPair_nil]; omega
  | succ fuel ih =>
    intro cov hv hs hl
    rw [mergeLoop]
    split
    · generalize hbp : bestPair cfg cov = best
      obtain ⟨bi, bl⟩ := best
      simp only []
      split
      · rename_i hlt
        exact ⟨Or.inr (by rw [hbp]; exact hlt), hv, hs, Nat.le_refl _⟩
      · rename_i hge
        obtain ⟨q1, q2, q3⟩ := mergeLoop_round_shrinks cfg hv hs hbp hge
        obtain ⟨d1, d2, d3, d4⟩ := ih _ q1 q2 (by omega)
        exact ⟨d1, d2, d3, by omega⟩
    · rename_i hle
      exact ⟨Or.inl hle, hv, hs, Nat.le_refl _⟩

/-- the result of the loop does not depend on the fuel once it is `≥ len(covering)` -/
theorem mergeLoop_fuel_indep (cfg : Config) : ∀ (fuel fuel' : Nat) (cov : CU), AllValid cov → Sorted cov →
    cov.length ≤ fuel → cov.length ≤ fuel' → mergeLoop cfg fuel cov = mergeLoop cfg fuel' cov := by
  intro fuel
  induction fuel with
  | zero =>
    intro fuel' cov hv hs hl _
    have : cov = [] := List.eq_nil_of_length_eq_zero (by omega)
    subst this
    rw [mergeLoop_nil, mergeLoop_nil]
  | succ fuel ih =>
    intro fuel' cov hv hs hl hl'
    cases fuel' with
    | zero =>
      have : cov = [] := List.eq_nil_of_length_eq_zero (by omega)
      subst this
      rw [mergeLoop_nil, mergeLoop_nil]
    | succ fuel' =>
      rw [mergeLoop, mergeLoop]
      split
      · generalize hbp : bestPair cfg cov = best
        obtain ⟨bi, bl⟩ := best
        simp only []
        split
        · rfl
        · rename_i hge
          obtain ⟨q1, q2, q3⟩ := mergeLoop_round_shrinks cfg hv hs hbp hge
          exact ih fuel' _ q1 q2 (by omega) (by omega)
      · rfl

/-- THE HANG IS GONE: on a valid sorted covering (what `normalizeCovering` hands to the loop) the
    fuel `len(covering)` used by `normalizeCovering` is never what ends the loop — any larger fuel
    gives the same result. -/
theorem mergeLoop_fuel_suffices (cfg : Config) {cov : CU} (hv : AllValid cov) (hs : Sorted cov) (k : Nat) :
    mergeLoop cfg (cov.length + k) cov = mergeLoop cfg cov.length cov :=
  mergeLoop_fuel_indep cfg _ _ cov hv hs (by omega) (Nat.le_refl _)

/-- non-vacuity, on the very shape that made the unrepaired loop spin (a LEAF cell that is the first
    leaf of the chosen ancestor): the first two leaves of face 0 with `MaxCells = 1` are merged in
    one round into their level-29 parent, and the loop stops by `len ≤ maxCells`. -/
example : AllValid [0x0000000000000001, 0x0000000000000003] ∧ Sorted [0x0000000000000001, 0x0000000000000003] ∧
    mergeLoop (newCoverer ⟨0, 30, 1, 1⟩) 2 [0x0000000000000001, 0x0000000000000003] = [0x0000000000000004] ∧
    MergeDone (newCoverer ⟨0, 30, 1, 1⟩) [0x0000000000000004] := by
  refine ⟨?_, ?_, ?_, ?_⟩
  · intro c hc
    simp only [List.mem_cons, List.not_mem_nil, or_false] at hc
    rcases hc with rfl | rfl <;> decide +kernel
  · unfold Sorted; decide +kernel
  · decide +kernel
  · left; decide +kernel

end S2Proofs.C05
