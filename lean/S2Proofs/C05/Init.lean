/-
  S2Proofs.C05.Init — the initial candidates keep the region covered; interior-covering closure.
-/
import S2Proofs.C05.Term
open S2 S2.CellID S2.CellUnion S2.Coverer
namespace S2Proofs.C05

variable {Q : Type}

theorem adj_sup {cfg : Config} {x : CellID} {k : Nat} (hx : IsCell x k) {n : Nat} (hin : InCell x n) :
    InCell (adj cfg x) n := by
  unfold adj
  rw [hx.level_eq]
  split
  · exact parent_sup hx (adjustLevel_le cfg k) hin
  · exact hin

theorem adj_valid {cfg : Config} {x : CellID} {k : Nat} (hx : IsCell x k) : ∃ j, IsCell (adj cfg x) j := by
  unfold adj
  rw [hx.level_eq]
  split
  · exact ⟨_, hx.parent_isCell (adjustLevel_le cfg k)⟩
  · exact ⟨k, hx⟩

/-- `adjustCellLevels` only enlarges the covered leaf set -/
theorem adjustCellLevels_covers (cfg : Config) (start : CU) (hv : ∀ c ∈ start, isValid c = true) {n : Nat}
    (hc : Covered start n) : Covered (adjustCellLevels cfg start) n := by
  unfold adjustCellLevels
  split
  · exact hc
  · have key : ∀ (cells out : List CellID), (∀ c ∈ cells, isValid c = true) → (∀ c ∈ out, isValid c = true) →
        (Covered out n ∨ Covered cells n) → Covered (cells.foldl (adjustStep cfg) out) n := by
      intro cells
      induction cells with
      | nil =>
        intro out _ _ h
        rcases h with h | ⟨c, hc, _⟩
        · exact h
        · cases hc
      | cons x t ih =>
        intro out hcv hov h
        simp only [List.foldl_cons]
        obtain ⟨k, hxk⟩ := (isValid_iff x).mp (hcv x (by simp))
        obtain ⟨j, hadj⟩ := adj_valid (cfg := cfg) hxk
        have hstepv : ∀ c ∈ adjustStep cfg out x, isValid c = true := by
          intro c hc
          rw [adjustStep_eq] at hc
          cases out with
          | nil => simp only [List.mem_singleton] at hc; subst hc; exact isCell_valid hadj
          | cons last tl =>
            simp only [] at hc
            split at hc
            · exact hov c hc
            · simp only [List.mem_cons] at hc
              rcases hc with rfl | hc
              · exact isCell_valid hadj
              · exact hov c (by simpa using (List.dropWhile_sublist _).subset hc)
        apply ih _ (fun c hc => hcv c (by simp [hc])) hstepv
        -- coverage after the step
        have hx_in : Covered [x] n → Covered (adjustStep cfg out x) n ∨ False := by
          intro ⟨c, hc, hin⟩
          simp only [List.mem_singleton] at hc; subst hc
          left
          have hin' := adj_sup (cfg := cfg) hxk hin
          rw [adjustStep_eq]
          cases out with
          | nil => exact ⟨_, by simp, hin'⟩
          | cons last tl =>
            simp only []
            split
            · rename_i hcont
              obtain ⟨kl, hl⟩ := (isValid_iff last).mp (hov last (by simp))
              exact ⟨last, by simp, contains_sub hl hadj hcont hin'⟩
            · exact ⟨_, by simp, hin'⟩
        have hout_in : Covered out n → Covered (adjustStep cfg out x) n := by
          intro ⟨c, hc, hin⟩
          rw [adjustStep_eq]
          cases out with
          | nil => cases hc
          | cons last tl =>
            simp only []
            split
            · exact ⟨c, hc, hin⟩
            · rcases mem_dropWhile_or (fun o => contains (adj cfg x) o) _ c hc with hd | hp
              · exact ⟨c, by simp only [List.mem_cons]; right; simpa using hd, hin⟩
              · obtain ⟨kc, hck⟩ := (isValid_iff c).mp (hov c hc)
                exact ⟨_, by simp, contains_sub hadj hck hp hin⟩
        rcases h with h | ⟨c, hc, hin⟩
        · exact Or.inl (hout_in h)
        · simp only [List.mem_cons] at hc
          rcases hc with rfl | hc
          · rcases hx_in ⟨c, by simp, hin⟩ with h1 | h1
            · exact Or.inl h1
            · exact h1.elim
          · exact Or.inr ⟨c, hc, hin⟩
    obtain ⟨c, hcm, hin⟩ := key start [] hv (by simp) (Or.inr hc)
    exact ⟨c, by simpa using hcm, hin⟩

section
variable {ops : PQOps Q} (law : LawfulPQ ops) {cfg : Config} {R : Region} {P : Nat → Prop}

theorem initState_good (h : CfgOK cfg) (hI : IntersectsSafe R P) (start : CU)
    (hs : ∀ c ∈ start, CellAt (· ≤ cfg.maxLevel) c) {n : Nat} (hn : n % 2 = 1) (hP : P n)
    (hc : Covered start n) : Good law (initState ops cfg false R start) n := by
  have hv : ∀ c ∈ start, isValid c = true := fun c hc => by
    obtain ⟨k, hk, _⟩ := hs c hc; exact isCell_valid hk
  have hcov := adjustCellLevels_covers cfg start hv hc
  have hpre := adjustCellLevels_pre h start hs
  unfold initState
  generalize adjustCellLevels cfg start = cells at hcov hpre
  have key : ∀ (l : List CellID) (st : St Q), (∀ c ∈ l, CellAt (Pre cfg) c) →
      (Good law st n ∨ Covered l n) → Good law (l.foldl (addStart ops cfg false R) st) n := by
    intro l
    induction l with
    | nil =>
      intro st _ hg
      rcases hg with hg | ⟨c, hc, _⟩
      · exact hg
      · cases hc
    | cons ci t ih =>
      intro st hall hg
      simp only [List.foldl_cons]
      apply ih _ (fun c hc => hall c (by simp [hc]))
      obtain ⟨k, hk, hp⟩ := hall ci (by simp)
      rcases hg with hg | ⟨c, hc, hin⟩
      · left
        unfold addStart
        split
        · exact hg
        · exact addCandidate_good_mono law false _ hg
      · simp only [List.mem_cons] at hc
        rcases hc with rfl | hc
        · left
          unfold addStart
          split
          · rename_i hnone
            exact absurd hP (hI _ (isCell_valid hk) (newCandidate_none hnone) n hn hin)
          · rename_i ch hch
            have hid := newCandidate_id hch
            exact addCandidate_good law h hI hn hP ⟨k, newCandidate_good hk hch, hp⟩ (by rw [hid]; exact hin)
        · exact Or.inr ⟨c, hc, hin⟩
  exact key cells _ hpre (Or.inr hcov)
end

/-! ### interior coverings -/

theorem newCandidate_interior_terminal {cfg : Config} {R : Region} {id : CellID} {ch : Child}
    (h : newCandidate cfg true R id = some ch) (ht : ch.terminal = true) : R.containsCell ch.id = true := by
  unfold newCandidate at h
  cases hI : R.intersectsCell id <;> cases hC : R.containsCell id <;>
    by_cases hge : level id ≥ cfg.minLevel <;> by_cases hmx : level id + cfg.levelMod > cfg.maxLevel <;>
    simp [hI, hC, hge, hmx] at h <;> (subst h; simp_all)

theorem expandChildren_from_newCandidate {cfg : Config} {interior : Bool} {R : Region} :
    ∀ (m : Nat) (id : CellID), ∀ ch ∈ expandChildren cfg interior R m id,
      ∃ ci, newCandidate cfg interior R ci = some ch := by
  intro m
  induction m with
  | zero => intro id ch h; simp [expandChildren] at h
  | succ m ih =>
    intro id ch h
    simp only [expandChildren, List.mem_flatMap] at h
    obtain ⟨ci, _, hch⟩ := h
    by_cases hm : m > 0
    · simp only [hm, if_true] at hch
      split at hch
      · exact ih ci ch hch
      · simp at hch
    · simp only [hm, if_false] at hch
      split at hch
      · rename_i c hc'
        simp only [List.mem_singleton] at hch; subst hch
        exact ⟨ci, hc'⟩
      · simp at hch

def IntChild (cfg : Config) (R : Region) (ch : Child) : Prop :=
  LvChild cfg ch ∧ (ch.terminal = true → R.containsCell ch.id = true)
def IntCand (cfg : Config) (R : Region) (cand : Cand) : Prop :=
  LvCand cfg cand ∧ ∀ ch ∈ cand.children, ch.terminal = true → R.containsCell ch.id = true

theorem interior_closure {cfg : Config} (h : CfgOK cfg) (R : Region) (P : Nat → Prop) (hC : ContainsSafe R P) :
    Closure cfg true R (fun c => ∀ n, n % 2 = 1 → InCell c n → P n) (IntCand cfg R) (IntChild cfg R) where
  term := by
    rintro ch ⟨⟨k, hg, _⟩, hc⟩ ht
    exact hC _ (isCell_valid hg.cell) (hc ht)
  expand := by
    intro ch hch ht children hc hlen
    refine ⟨(fun hf => nomatch hf), fun p => ⟨((levels_closure h true R).expand ch hch.1 ht children hc hlen).2 p, ?_⟩⟩
    intro c hcm hterm
    simp only [] at hcm
    rw [hc] at hcm
    obtain ⟨ci, hci⟩ := expandChildren_from_newCandidate _ _ c hcm
    exact newCandidate_interior_terminal hci hterm
  kids := fun cand hc ch hch => ⟨hc.1.2 ch hch, hc.2 ch hch⟩
  self := fun _ _ hf => nomatch hf

end S2Proofs.C05
