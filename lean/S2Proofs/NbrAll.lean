/-
  S2Proofs.NbrAll — `vertexNeighbors` and `allNeighbors` for ALL valid cells (face boundary and cube corners included):
  every reported cell is a cell of the requested level; for `allNeighbors` it neither contains nor is contained in the
  cell.  Uses `same_leaf` (`WrapAll`): `cellIDFromFaceIJSame` returns a leaf of the same face iff both coordinates
  are in range, a leaf of ANOTHER face otherwise (float wrap proved).
-/
import S2Proofs.WrapAll
import S2Proofs.EdgeNbrAll
open S2 S2.CellID S2.Hilbert S2.STUV
set_option linter.unusedVariables false
namespace S2Proofs.C01W

theorem inR_nat (x : Nat) (hx : x < 2^30) : InR (x : Int) := by unfold InR; omega

/-- the same-face flag of `vertexNeighbors` says exactly "the translated coordinate is in range" -/
theorem vnSame_iff (x lvl : Nat) (hx : x < 2^30) : vnSame x lvl = true ↔ InR ((x:Int) + vnOff x lvl) := by
  unfold vnSame vnOff InR
  have hs : 0 ≤ ((sizeIJ (lvl + 1) <<< 1 : Nat) : Int) := Int.natCast_nonneg _
  generalize ((sizeIJ (lvl + 1) <<< 1 : Nat) : Int) = s at *
  by_cases hb : (x &&& sizeIJ (lvl + 1) != 0) = true
  · rw [if_pos hb, if_pos hb]; simp only [decide_eq_true_eq]; omega
  · rw [if_neg hb, if_neg hb]; simp only [decide_eq_true_eq]; omega

section
variable {L : Nat} (hL : L = 30)
include hL

theorem same_parent_isCell (f : Nat) (hf : f < 6) (a b : Int) (flag : Bool) (hflag : flag = true ↔ (InR a ∧ InR b))
    (lvl : Nat) (hl : lvl ≤ 30) : IsCell (parent (cellIDFromFaceIJSame f a b flag) lvl) lvl :=
  (same_leaf hL f hf a b flag hflag).1.parent_isCell hl

/-- every element of `vertexNeighbors id lvl` (lvl < level id) is a level-`lvl` cell -/
theorem vertexNeighbors_cells (id : CellID) (K : Nat) (h : IsCell id K) (lvl : Nat) (hl : lvl < K)
    (n : CellID) (hn : n ∈ vertexNeighbors id lvl) : IsCell n lvl := by
  have hK := h.k_le
  obtain ⟨g1, g2, g3, _, _⟩ := faceIJOrientation_leaf_in_cell hL id K h
  rw [vertexNeighbors_eq] at hn
  generalize faceIJOrientation id = r at *
  obtain ⟨f, i, j, o⟩ := r
  simp only at g1 g2 g3
  subst g1
  rw [vnAux_eq] at hn
  have hf := h.face_lt6
  have c0 : IsCell (parent id lvl) lvl := h.parent_isCell (by omega)
  have c1 := same_parent_isCell hL (face id) hf ((i:Int) + vnOff i lvl) (j:Int) (vnSame i lvl)
    (by rw [vnSame_iff i lvl g2]; exact ⟨fun h => ⟨h, inR_nat j g3⟩, fun h => h.1⟩) lvl (by omega)
  have c2 := same_parent_isCell hL (face id) hf (i:Int) ((j:Int) + vnOff j lvl) (vnSame j lvl)
    (by rw [vnSame_iff j lvl g3]; exact ⟨fun h => ⟨inR_nat i g2, h⟩, fun h => h.2⟩) lvl (by omega)
  have c3 := same_parent_isCell hL (face id) hf ((i:Int) + vnOff i lvl) ((j:Int) + vnOff j lvl) (vnSame i lvl && vnSame j lvl)
    (by rw [Bool.and_eq_true, vnSame_iff i lvl g2, vnSame_iff j lvl g3]) lvl (by omega)
  simp only at hn
  split at hn
  · simp only [List.cons_append, List.nil_append, List.mem_cons, List.mem_nil_iff, or_false] at hn
    rcases hn with rfl | rfl | rfl | rfl
    · exact c0
    · exact c1
    · exact c2
    · exact c3
  · simp only [List.mem_cons, List.mem_nil_iff, or_false] at hn
    rcases hn with rfl | rfl | rfl
    · exact c0
    · exact c1
    · exact c2

end

/-! ### allNeighbors -/

/-- membership in one loop iteration, for ANY aligned square of a face (no interior hypothesis):
    the element is `parent (cellIDFromFaceIJSame f a b flag) lvl`, the flag says "in range", and (a,b) is outside
    the cell's own square -/
theorem anRow_mem_all (f lvl : Nat) (i j S nbr : Int) (t : Nat) (hnbr : 0 < nbr) (hS : nbr ≤ S)
    (hi0 : 0 ≤ i) (hi1 : i + S ≤ 1073741824) (hj0 : 0 ≤ j) (hj1 : j + S ≤ 1073741824)
    (hia : i = 0 ∨ S ≤ i) (hja : j = 0 ∨ S ≤ j)
    (hk : (t:Int) * nbr - nbr ≤ S) (n : CellID) (hn : n ∈ anRow f lvl i j S nbr t) :
    ∃ (a b : Int) (flag : Bool), n = parent (cellIDFromFaceIJSame f a b flag) lvl ∧
      (flag = true ↔ (InR a ∧ InR b)) ∧ ¬ (i ≤ a ∧ a < i + S ∧ j ≤ b ∧ b < j + S) := by
  unfold anRow at hn
  simp only [] at hn
  have hk0 : -nbr ≤ (t:Int) * nbr - nbr := by
    have : 0 ≤ (t:Int) * nbr := Int.mul_nonneg (Int.natCast_nonneg t) (le_of_lt hnbr)
    omega
  generalize (t:Int) * nbr - nbr = k at *
  unfold InR
  by_cases c1 : k < 0
  · simp only [c1, if_true, List.nil_append, List.mem_cons, List.mem_nil_iff, or_false] at hn
    rcases hn with rfl | rfl
    · refine ⟨i - nbr, j + k, _, rfl, ?_, by omega⟩
      simp only [Bool.and_eq_true, decide_eq_true_eq]; omega
    · refine ⟨i + S, j + k, _, rfl, ?_, by omega⟩
      simp only [Bool.and_eq_true, decide_eq_true_eq]; omega
  · by_cases c2 : k ≥ S
    · simp only [c1, c2, if_true, if_false, List.nil_append, List.mem_cons, List.mem_nil_iff, or_false] at hn
      rcases hn with rfl | rfl
      · refine ⟨i - nbr, j + k, _, rfl, ?_, by omega⟩
        simp only [Bool.and_eq_true, decide_eq_true_eq]; omega
      · refine ⟨i + S, j + k, _, rfl, ?_, by omega⟩
        simp only [Bool.and_eq_true, decide_eq_true_eq]; omega
    · simp only [c1, c2, if_true, if_false, List.cons_append, List.nil_append, List.mem_cons, List.mem_nil_iff,
        or_false] at hn
      rcases hn with rfl | rfl | rfl | rfl
      · refine ⟨i + k, j - nbr, _, rfl, ?_, by omega⟩
        simp only [decide_eq_true_eq]; omega
      · refine ⟨i + k, j + S, _, rfl, ?_, by omega⟩
        simp only [decide_eq_true_eq]; omega
      · refine ⟨i - nbr, j + k, _, rfl, ?_, by omega⟩
        simp only [Bool.true_and, decide_eq_true_eq]; omega
      · refine ⟨i + S, j + k, _, rfl, ?_, by omega⟩
        simp only [Bool.true_and, decide_eq_true_eq]; omega

section
variable {L : Nat} (hL : L = 30)
include hL

/-- `allNeighbors` for EVERY valid cell and every level `level id ≤ lvl ≤ 30`: each reported cell is a level-`lvl`
    cell that neither is contained in nor contains `id` -/
theorem allNeighbors_all (id : CellID) (K : Nat) (h : IsCell id K) (lvl : Nat) (h1 : K ≤ lvl) (h2 : lvl ≤ 30)
    (n : CellID) (hn : n ∈ allNeighbors id lvl) :
    IsCell n lvl ∧ contains id n = false ∧ contains n id = false := by
  have hK := h.k_le
  obtain ⟨g1, g2, g3, _, g5⟩ := faceIJOrientation_leaf_in_cell hL id K h
  rw [allNeighbors_eq] at hn
  generalize faceIJOrientation id = r at *
  obtain ⟨f, i0, j0, o⟩ := r
  simp only at g1 g2 g3 g5
  subst g1
  rw [anAux_eq _ _ _ _ _ _ (by rw [h.level_eq]; exact h1) h2, h.level_eq, sizeIJ_eq, sizeIJ_eq] at hn
  have hpow : (2:Nat)^(30 - K) * 2^K = 2^30 := by rw [← Nat.pow_add]; congr 1; omega
  have hNS : (2:Nat)^(30 - lvl) ≤ 2^(30 - K) := Nat.pow_le_pow_right (by omega) (by omega)
  have hN0 : 0 < (2:Nat)^(30 - lvl) := Nat.two_pow_pos _
  generalize hSdef : (2:Nat)^(30 - K) = S at *
  generalize hNdef : (2:Nat)^(30 - lvl) = N at *
  have hS0 : 0 < S := by omega
  obtain ⟨l, hl, hnl⟩ := List.mem_flatten.mp hn
  obtain ⟨t, ht, rfl⟩ := List.mem_map.mp hl
  rw [List.mem_range] at ht
  have hkN : t * N ≤ S + N := by
    have : t ≤ S / N + 1 := by omega
    calc t * N ≤ (S / N + 1) * N := Nat.mul_le_mul_right _ this
      _ = S / N * N + N := by rw [Nat.add_mul, Nat.one_mul]
      _ ≤ S + N := Nat.add_le_add_right (Nat.div_mul_le_self S N) N
  have hA : (i0:Int) - (i0:Int) % (S:Int) = ((i0 / S * S : Nat) : Int) := by
    have := Nat.div_add_mod i0 S
    rw [← Int.natCast_mod]
    have e : (i0:Int) = ((S * (i0 / S) + i0 % S : Nat) : Int) := by rw [this]
    rw [Nat.mul_comm] at e
    omega
  have hB : (j0:Int) - (j0:Int) % (S:Int) = ((j0 / S * S : Nat) : Int) := by
    have := Nat.div_add_mod j0 S
    rw [← Int.natCast_mod]
    have e : (j0:Int) = ((S * (j0 / S) + j0 % S : Nat) : Int) := by rw [this]
    rw [Nat.mul_comm] at e
    omega
  rw [hA, hB] at hnl
  -- the aligned square
  have hIlt : i0 / S < 2^K := by rw [Nat.div_lt_iff_lt_mul hS0, Nat.mul_comm, hpow]; exact g2
  have hJlt : j0 / S < 2^K := by rw [Nat.div_lt_iff_lt_mul hS0, Nat.mul_comm, hpow]; exact g3
  generalize hIdef : i0 / S = I at *
  generalize hJdef : j0 / S = J at *
  have iS2 : I * S + S ≤ 2^30 := by
    calc I * S + S = (I + 1) * S := by rw [Nat.add_mul, Nat.one_mul]
      _ ≤ 2^K * S := Nat.mul_le_mul_right _ (by omega)
      _ = 2^30 := by rw [Nat.mul_comm]; exact hpow
  have jS2 : J * S + S ≤ 2^30 := by
    calc J * S + S = (J + 1) * S := by rw [Nat.add_mul, Nat.one_mul]
      _ ≤ 2^K * S := Nat.mul_le_mul_right _ (by omega)
      _ = 2^30 := by rw [Nat.mul_comm]; exact hpow
  have ia : I * S = 0 ∨ S ≤ I * S := by
    rcases Nat.eq_zero_or_pos I with h0 | h0
    · left; rw [h0, Nat.zero_mul]
    · right; exact Nat.le_mul_of_pos_left S h0
  have ja : J * S = 0 ∨ S ≤ J * S := by
    rcases Nat.eq_zero_or_pos J with h0 | h0
    · left; rw [h0, Nat.zero_mul]
    · right; exact Nat.le_mul_of_pos_left S h0
  have hkI : ((t:Nat):Int) * (N:Int) - (N:Int) ≤ (S:Int) := by
    have : ((t * N : Nat) : Int) ≤ ((S + N : Nat) : Int) := by exact_mod_cast hkN
    push_cast at this; omega
  have hdI : ∀ x : Nat, (x / S = I ↔ I * S ≤ x ∧ x < I * S + S) := by
    intro x
    constructor
    · intro hx
      have e := Nat.div_add_mod x S
      rw [hx, Nat.mul_comm] at e
      have r := Nat.mod_lt x hS0
      omega
    · rintro ⟨a1, a2⟩
      have e : x = I * S + (x - I * S) := by omega
      rw [e]; exact div_lem _ _ _ (by omega)
  have hdJ : ∀ x : Nat, (x / S = J ↔ J * S ≤ x ∧ x < J * S + S) := by
    intro x
    constructor
    · intro hx
      have e := Nat.div_add_mod x S
      rw [hx, Nat.mul_comm] at e
      have r := Nat.mod_lt x hS0
      omega
    · rintro ⟨a1, a2⟩
      have e : x = J * S + (x - J * S) := by omega
      rw [e]; exact div_lem _ _ _ (by omega)
  generalize hAdef : I * S = A at *
  generalize hBdef : J * S = B at *
  obtain ⟨a, b, flag, rfl, hflag, hout⟩ := anRow_mem_all (face id) lvl (A:Int) (B:Int) (S:Int) (N:Int) t
    (by omega) (by omega) (by omega) (by omega) (by omega) (by omega) (by omega) (by omega) hkI n hnl
  obtain ⟨cleaf, hsame, hother⟩ := same_leaf hL (face id) h.face_lt6 a b flag hflag
  have c1 : IsCell (parent (cellIDFromFaceIJSame (face id) a b flag) lvl) lvl := cleaf.parent_isCell h2
  have hnot : contains id (parent (cellIDFromFaceIJSame (face id) a b flag) lvl) = false := by
    rw [Bool.eq_false_iff]; intro hc
    have hp := ((h.contains_iff_parent c1).mp hc).2
    rw [parent_parent _ K lvl h1 h2] at hp
    cases hfl : flag
    · -- other face
      apply hother hfl
      rw [← cleaf.parent_face (j := K) (by omega), hp]
    · -- same face, outside the square
      have hin := hflag.1 hfl
      unfold InR at hin
      rw [hsame hfl] at hp
      have key := (parent_cellIDFromFaceIJ_eq_iff hL (face id) a.toNat b.toNat (face id) i0 j0 K h.face_lt6 h.face_lt6
        (by omega) (by omega) g2 g3 hK).mp (hp.trans g5.symm)
      rw [hSdef, hIdef, hJdef] at key
      obtain ⟨_, kx, ky⟩ := key
      have := (hdI a.toNat).1 kx
      have := (hdJ b.toNat).1 ky
      apply hout; omega
  refine ⟨c1, hnot, ?_⟩
  rw [Bool.eq_false_iff]; intro hc
  obtain ⟨hle, hp⟩ := (c1.contains_iff_parent h).mp hc
  have hlk : lvl = K := by omega
  subst hlk
  rw [h.parent_self_id] at hp
  rw [← hp, (h.contains_iff_parent h).mpr ⟨le_refl _, h.parent_self_id⟩] at hnot
  cases hnot

end
end S2Proofs.C01W
