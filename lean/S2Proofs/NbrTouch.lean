/-
  S2Proofs.NbrTouch — every cell reported by `allNeighbors` TOUCHES the cell (exact cube boxes meet), for ALL valid
  cells: interior, on a face boundary, at a cube corner.  Cross-face results are identified with the table `nbrSq`
  (through `nbr_dir0..3` at the requested level) and `FoldTouch` gives the contact.
-/
import S2Proofs.FoldTouch
open S2 S2.CellID S2.Hilbert S2.STUV
set_option linter.unusedVariables false
set_option linter.unusedSimpArgs false
namespace S2Proofs.C01W

/-- with both coordinates out of range, on faces 0,1,2 the result is the same as with the i-coordinate moved to the
    nearest in-range column (the wrap across the j-side wins at a cube corner) -/
theorem wrapIJ_corner_reduce_lo (f : Nat) (hf : f < 3) (i j : Int) (hi : i ≤ -1 ∨ 1073741824 ≤ i)
    (hj : j ≤ -1 ∨ 1073741824 ≤ j) :
    wrapIJ f i j = wrapIJ f (if i ≤ -1 then 0 else 1073741823) j := by
  have c0 := corner0; have c1 := corner1; have c2 := corner2
  have hf6 : f < 6 := by omega
  rw [wrapIJ_clamp f i j]
  rcases hi with hi | hi <;> rcases hj with hj | hj
  · rw [clamp_lo i hi, clamp_lo j hj, if_pos hi, wrapIJ_jLo f hf6 0 j hj (by decide) (by decide)]
    interval_cases f <;> simp [c0.1, c1.1, c2.1]
  · rw [clamp_lo i hi, clamp_hi j hj, if_pos hi, wrapIJ_jHi f hf6 0 j hj (by decide) (by decide)]
    interval_cases f <;> simp [c0.2.1, c1.2.1, c2.2.1]
  · rw [clamp_hi i hi, clamp_lo j hj, if_neg (by omega), wrapIJ_jLo f hf6 1073741823 j hj (by decide) (by decide)]
    interval_cases f <;> simp [c0.2.2.1, c1.2.2.1, c2.2.2.1]
  · rw [clamp_hi i hi, clamp_hi j hj, if_neg (by omega), wrapIJ_jHi f hf6 1073741823 j hj (by decide) (by decide)]
    interval_cases f <;> simp [c0.2.2.2, c1.2.2.2, c2.2.2.2]

/-- on faces 3,4,5 the wrap across the i-side wins -/
theorem wrapIJ_corner_reduce_hi (f : Nat) (hf3 : 3 ≤ f) (hf : f < 6) (i j : Int) (hi : i ≤ -1 ∨ 1073741824 ≤ i)
    (hj : j ≤ -1 ∨ 1073741824 ≤ j) :
    wrapIJ f i j = wrapIJ f i (if j ≤ -1 then 0 else 1073741823) := by
  have c3 := corner3; have c4 := corner4; have c5 := corner5
  rw [wrapIJ_clamp f i j]
  rcases hi with hi | hi <;> rcases hj with hj | hj
  · rw [clamp_lo i hi, clamp_lo j hj, if_pos hj, wrapIJ_iLo f hf i 0 hi (by decide) (by decide)]
    interval_cases f <;> simp [c3.1, c4.1, c5.1]
  · rw [clamp_lo i hi, clamp_hi j hj, if_neg (by omega), wrapIJ_iLo f hf i 1073741823 hi (by decide) (by decide)]
    interval_cases f <;> simp [c3.2.1, c4.2.1, c5.2.1]
  · rw [clamp_hi i hi, clamp_lo j hj, if_pos hj, wrapIJ_iHi f hf i 0 hi (by decide) (by decide)]
    interval_cases f <;> simp [c3.2.2.1, c4.2.2.1, c5.2.2.1]
  · rw [clamp_hi i hi, clamp_hi j hj, if_neg (by omega), wrapIJ_iHi f hf i 1073741823 hi (by decide) (by decide)]
    interval_cases f <;> simp [c3.2.2.2, c4.2.2.2, c5.2.2.2]

theorem wrapIJ_congr_clamp (f : Nat) (a a' b b' : Int)
    (ha : clampInt a (-1) 1073741824 = clampInt a' (-1) 1073741824)
    (hb : clampInt b (-1) 1073741824 = clampInt b' (-1) 1073741824) : wrapIJ f a b = wrapIJ f a' b' := by
  rw [wrapIJ_clamp f a b, wrapIJ_clamp f a' b', ha, hb]

theorem wrap_congr (f : Nat) (a b a' b' : Int) (h : wrapIJ f a b = wrapIJ f a' b') :
    cellIDFromFaceIJWrap f a b = cellIDFromFaceIJWrap f a' b' := by
  rw [cellIDFromFaceIJWrap_eq, cellIDFromFaceIJWrap_eq, h]

section
variable {L : Nat} (hL : L = 30)
include hL

/-- the cube box of a cell given as a square -/
theorem cubeBox_isSq (n : CellID) (k f I J : Nat) (h : IsSq n k f I J) : cubeBox n = sqBox f I J (2^(30-k)) := by
  obtain ⟨c, e1, e2, e3⟩ := h
  rw [cubeBox_cell hL n k c, e1, e2, e3]; rfl

/-- handler: result across the i = 0 side -/
theorem touch_left (f lvl : Nat) (hf : f < 6) (hl : lvl ≤ 30) (a b : Int) (ha : a ≤ -1) (j' : Nat) (hj' : j' < 2^30)
    (hw : wrapIJ f a b = wrapIJ f a (j' : Int)) (u2 v1 v2 : Int)
    (hu : -1073741824 ≤ u2 ∧ u2 ≤ 1073741824) (hv : -1073741824 ≤ v1 ∧ v1 ≤ v2 ∧ v2 ≤ 1073741824)
    (hm : max v1 (cubeLo (j' / 2^(30-lvl)) (2^(30-lvl))) ≤
          min v2 (cubeLo (j' / 2^(30-lvl)) (2^(30-lvl)) + 2 * ((2^(30-lvl) : Nat) : Int))) :
    boxMeet (faceBox f (-1073741824, u2) (v1, v2)) (cubeBox (parent (cellIDFromFaceIJWrap f a b) lvl)) ≠ none := by
  have hN0 := Nat.two_pow_pos (30 - lvl)
  have e : cellIDFromFaceIJWrap f a b =
      cellIDFromFaceIJWrap f (((0:Nat):Int) - ((2^(30-lvl) : Nat) : Int)) (j' : Int) := by
    apply wrap_congr
    rw [hw]
    apply wrapIJ_congr_clamp _ _ _ _ _ _ rfl
    rw [clamp_lo a ha, clamp_lo _ (by omega)]
  rw [e, cubeBox_isSq hL _ _ _ _ _ (nbr_dir3 hL f 0 j' lvl hf (by decide) hj' hl)]
  obtain ⟨j1, _⟩ := sq_arith lvl j' hl hj'
  exact fold_touch3 f (0 / 2^(30-lvl)) _ (2^lvl) _ hf (pow_split lvl hl) hN0 (by rw [Nat.zero_div]; omega) j1
    (Nat.zero_div _) _ _ _ _ ⟨rfl, by omega, by omega⟩ hv hm

/-- handler: result across the i = max side -/
theorem touch_right (f lvl : Nat) (hf : f < 6) (hl : lvl ≤ 30) (a b : Int) (ha : 1073741824 ≤ a) (j' : Nat) (hj' : j' < 2^30)
    (hw : wrapIJ f a b = wrapIJ f a (j' : Int)) (u1 v1 v2 : Int)
    (hu : -1073741824 ≤ u1 ∧ u1 ≤ 1073741824) (hv : -1073741824 ≤ v1 ∧ v1 ≤ v2 ∧ v2 ≤ 1073741824)
    (hm : max v1 (cubeLo (j' / 2^(30-lvl)) (2^(30-lvl))) ≤
          min v2 (cubeLo (j' / 2^(30-lvl)) (2^(30-lvl)) + 2 * ((2^(30-lvl) : Nat) : Int))) :
    boxMeet (faceBox f (u1, 1073741824) (v1, v2)) (cubeBox (parent (cellIDFromFaceIJWrap f a b) lvl)) ≠ none := by
  have hN0 := Nat.two_pow_pos (30 - lvl)
  have hNle : 2^(30-lvl) ≤ 1073741824 := by
    have := pow_split lvl hl; have := Nat.two_pow_pos lvl
    calc 2^(30-lvl) ≤ 2^lvl * 2^(30-lvl) := Nat.le_mul_of_pos_left _ (by omega)
      _ = 1073741824 := pow_split lvl hl
  have e : cellIDFromFaceIJWrap f a b =
      cellIDFromFaceIJWrap f (((1073741824 - 2^(30-lvl) : Nat):Int) + ((2^(30-lvl) : Nat) : Int)) (j' : Int) := by
    apply wrap_congr
    rw [hw]
    apply wrapIJ_congr_clamp _ _ _ _ _ _ rfl
    rw [clamp_hi a ha, clamp_hi _ (by omega)]
  rw [e, cubeBox_isSq hL _ _ _ _ _ (nbr_dir1 hL f (1073741824 - 2^(30-lvl)) j' lvl hf (by omega) hj' hl)]
  obtain ⟨j1, _⟩ := sq_arith lvl j' hl hj'
  obtain ⟨i1, i2, i3, _⟩ := sq_arith lvl (2^(30-lvl) - 1) hl (by omega)
  have hX : (1073741824 - 2^(30-lvl)) / 2^(30-lvl) = 2^lvl - 1 := by
    have e1 : 1073741824 - 2^(30-lvl) = (2^lvl - 1) * 2^(30-lvl) := by
      rw [Nat.sub_mul, Nat.one_mul, pow_split lvl hl]
    rw [e1]; exact Nat.mul_div_cancel _ hN0
  exact fold_touch1 f _ _ (2^lvl) _ hf (pow_split lvl hl) hN0 (by rw [hX]) j1 hX _ _ _ _
    ⟨by omega, by omega, rfl⟩ hv hm

/-- handler: result across the j = 0 side -/
theorem touch_down (f lvl : Nat) (hf : f < 6) (hl : lvl ≤ 30) (a b : Int) (hb : b ≤ -1) (i' : Nat) (hi' : i' < 2^30)
    (hw : wrapIJ f a b = wrapIJ f (i' : Int) b) (u1 u2 v2 : Int)
    (hu : -1073741824 ≤ u1 ∧ u1 ≤ u2 ∧ u2 ≤ 1073741824) (hv : -1073741824 ≤ v2 ∧ v2 ≤ 1073741824)
    (hm : max u1 (cubeLo (i' / 2^(30-lvl)) (2^(30-lvl))) ≤
          min u2 (cubeLo (i' / 2^(30-lvl)) (2^(30-lvl)) + 2 * ((2^(30-lvl) : Nat) : Int))) :
    boxMeet (faceBox f (u1, u2) (-1073741824, v2)) (cubeBox (parent (cellIDFromFaceIJWrap f a b) lvl)) ≠ none := by
  have hN0 := Nat.two_pow_pos (30 - lvl)
  have e : cellIDFromFaceIJWrap f a b =
      cellIDFromFaceIJWrap f (i' : Int) (((0:Nat):Int) - ((2^(30-lvl) : Nat) : Int)) := by
    apply wrap_congr
    rw [hw]
    apply wrapIJ_congr_clamp _ _ _ _ _ rfl
    rw [clamp_lo b hb, clamp_lo _ (by omega)]
  rw [e, cubeBox_isSq hL _ _ _ _ _ (nbr_dir0 hL f i' 0 lvl hf hi' (by decide) hl)]
  obtain ⟨i1, _⟩ := sq_arith lvl i' hl hi'
  exact fold_touch0 f _ (0 / 2^(30-lvl)) (2^lvl) _ hf (pow_split lvl hl) hN0 i1 (by rw [Nat.zero_div]; omega)
    (Nat.zero_div _) _ _ _ _ hu ⟨rfl, by omega, by omega⟩ hm

/-- handler: result across the j = max side -/
theorem touch_up (f lvl : Nat) (hf : f < 6) (hl : lvl ≤ 30) (a b : Int) (hb : 1073741824 ≤ b) (i' : Nat) (hi' : i' < 2^30)
    (hw : wrapIJ f a b = wrapIJ f (i' : Int) b) (u1 u2 v1 : Int)
    (hu : -1073741824 ≤ u1 ∧ u1 ≤ u2 ∧ u2 ≤ 1073741824) (hv : -1073741824 ≤ v1 ∧ v1 ≤ 1073741824)
    (hm : max u1 (cubeLo (i' / 2^(30-lvl)) (2^(30-lvl))) ≤
          min u2 (cubeLo (i' / 2^(30-lvl)) (2^(30-lvl)) + 2 * ((2^(30-lvl) : Nat) : Int))) :
    boxMeet (faceBox f (u1, u2) (v1, 1073741824)) (cubeBox (parent (cellIDFromFaceIJWrap f a b) lvl)) ≠ none := by
  have hN0 := Nat.two_pow_pos (30 - lvl)
  have hNle : 2^(30-lvl) ≤ 1073741824 := by
    calc 2^(30-lvl) ≤ 2^lvl * 2^(30-lvl) := Nat.le_mul_of_pos_left _ (Nat.two_pow_pos lvl)
      _ = 1073741824 := pow_split lvl hl
  have e : cellIDFromFaceIJWrap f a b =
      cellIDFromFaceIJWrap f (i' : Int) (((1073741824 - 2^(30-lvl) : Nat):Int) + ((2^(30-lvl) : Nat) : Int)) := by
    apply wrap_congr
    rw [hw]
    apply wrapIJ_congr_clamp _ _ _ _ _ rfl
    rw [clamp_hi b hb, clamp_hi _ (by omega)]
  rw [e, cubeBox_isSq hL _ _ _ _ _ (nbr_dir2 hL f i' (1073741824 - 2^(30-lvl)) lvl hf hi' (by omega) hl)]
  obtain ⟨i1, _⟩ := sq_arith lvl i' hl hi'
  have hY : (1073741824 - 2^(30-lvl)) / 2^(30-lvl) = 2^lvl - 1 := by
    have e1 : 1073741824 - 2^(30-lvl) = (2^lvl - 1) * 2^(30-lvl) := by
      rw [Nat.sub_mul, Nat.one_mul, pow_split lvl hl]
    rw [e1]; exact Nat.mul_div_cancel _ hN0
  exact fold_touch2 f _ _ (2^lvl) _ hf (pow_split lvl hl) hN0 i1 (by rw [hY]) hY _ _ _ _
    hu ⟨by omega, by omega, rfl⟩ hm

/-- THE GENERAL CONTACT LEMMA.  `R` is the rectangle [cA·N, (cA+m)·N] × [cB·N, (cB+m)·N] of face f (in leaf units; N = 2^(30−lvl)),
    (a,b) a grid position of the ring around it (a = (cA+p−1)·N, b = (cB+q−1)·N, 0 ≤ p,q ≤ m+1), possibly outside the face
    in one or both coordinates (m = 0: R is a grid VERTEX and the four positions are the cells around it).  The level-`lvl` cell `parent (cellIDFromFaceIJSame f a b flag) lvl` touches R. -/
theorem touch_any (f lvl : Nat) (hf : f < 6) (hl : lvl ≤ 30) (cA cB m p q : Nat) (hp : p ≤ m + 1) (hq : q ≤ m + 1)
    (hA : (cA + m) * 2^(30-lvl) ≤ 1073741824) (hB : (cB + m) * 2^(30-lvl) ≤ 1073741824) (a b : Int)
    (ha : a = (((cA + p) * 2^(30-lvl) : Nat) : Int) - ((2^(30-lvl) : Nat) : Int))
    (hb : b = (((cB + q) * 2^(30-lvl) : Nat) : Int) - ((2^(30-lvl) : Nat) : Int))
    (flag : Bool) (hflag : flag = true ↔ (InR a ∧ InR b)) (u1 u2 v1 v2 : Int)
    (hu1 : u1 = 2 * ((cA * 2^(30-lvl) : Nat) : Int) - 1073741824)
    (hu2 : u2 = 2 * (((cA + m) * 2^(30-lvl) : Nat) : Int) - 1073741824)
    (hv1 : v1 = 2 * ((cB * 2^(30-lvl) : Nat) : Int) - 1073741824)
    (hv2 : v2 = 2 * (((cB + m) * 2^(30-lvl) : Nat) : Int) - 1073741824) :
    boxMeet (faceBox f (u1, u2) (v1, v2)) (cubeBox (parent (cellIDFromFaceIJSame f a b flag) lvl)) ≠ none := by
  have hN0 := Nat.two_pow_pos (30 - lvl)
  have hKN := pow_split lvl hl
  have hLL0 := Nat.two_pow_pos lvl
  -- grid arithmetic
  have eAp : (cA + p) * 2^(30-lvl) = cA * 2^(30-lvl) + p * 2^(30-lvl) := Nat.add_mul _ _ _
  have eBq : (cB + q) * 2^(30-lvl) = cB * 2^(30-lvl) + q * 2^(30-lvl) := Nat.add_mul _ _ _
  have eAm : (cA + m) * 2^(30-lvl) = cA * 2^(30-lvl) + m * 2^(30-lvl) := Nat.add_mul _ _ _
  have eBm : (cB + m) * 2^(30-lvl) = cB * 2^(30-lvl) + m * 2^(30-lvl) := Nat.add_mul _ _ _
  have hpN : p * 2^(30-lvl) ≤ m * 2^(30-lvl) + 2^(30-lvl) := by
    have := Nat.mul_le_mul_right (2^(30-lvl)) hp
    rw [Nat.add_mul, Nat.one_mul] at this; exact this
  have hqN : q * 2^(30-lvl) ≤ m * 2^(30-lvl) + 2^(30-lvl) := by
    have := Nat.mul_le_mul_right (2^(30-lvl)) hq
    rw [Nat.add_mul, Nat.one_mul] at this; exact this
  have hp0 : p = 0 → p * 2^(30-lvl) = 0 := fun h => by rw [h, Nat.zero_mul]
  have hq0 : q = 0 → q * 2^(30-lvl) = 0 := fun h => by rw [h, Nat.zero_mul]
  have hp1 : 1 ≤ p → 2^(30-lvl) ≤ p * 2^(30-lvl) := fun h => Nat.le_mul_of_pos_left _ h
  have hq1 : 1 ≤ q → 2^(30-lvl) ≤ q * 2^(30-lvl) := fun h => Nat.le_mul_of_pos_left _ h
  have hcA0 : cA = 0 → cA * 2^(30-lvl) = 0 := fun h => by rw [h, Nat.zero_mul]
  have hcB0 : cB = 0 → cB * 2^(30-lvl) = 0 := fun h => by rw [h, Nat.zero_mul]
  have hcA1 : 1 ≤ cA → 2^(30-lvl) ≤ cA * 2^(30-lvl) := fun h => Nat.le_mul_of_pos_left _ h
  have hcB1 : 1 ≤ cB → 2^(30-lvl) ≤ cB * 2^(30-lvl) := fun h => Nat.le_mul_of_pos_left _ h
  rw [eAp] at ha; rw [eBq] at hb; rw [eAm] at hA hu2; rw [eBm] at hB hv2
  -- the squares of in-range coordinates
  have sqa : InR a → a.toNat / 2^(30-lvl) = cA + p - 1 ∧ a.toNat < 2^30 ∧
      (a.toNat / 2^(30-lvl)) * 2^(30-lvl) + 2^(30-lvl) = cA * 2^(30-lvl) + p * 2^(30-lvl) := by
    intro h; unfold InR at h
    have h1 : 1 ≤ cA + p := by
      rcases Nat.eq_zero_or_pos (cA + p) with h0 | h0
      · have hz : cA = 0 ∧ p = 0 := by omega
        have z1 := hcA0 hz.1; have z2 := hp0 hz.2; omega
      · exact h0
    have e : a.toNat = (cA + p - 1) * 2^(30-lvl) := by
      rw [Nat.sub_mul, Nat.one_mul, eAp]; omega
    refine ⟨by rw [e]; exact Nat.mul_div_cancel _ hN0, by omega, ?_⟩
    rw [e, Nat.mul_div_cancel _ hN0, Nat.sub_mul, Nat.one_mul, eAp]
    have : 2^(30-lvl) ≤ cA * 2^(30-lvl) + p * 2^(30-lvl) := by
      rw [← eAp]; exact Nat.le_mul_of_pos_left _ h1
    omega
  have sqb : InR b → b.toNat / 2^(30-lvl) = cB + q - 1 ∧ b.toNat < 2^30 ∧
      (b.toNat / 2^(30-lvl)) * 2^(30-lvl) + 2^(30-lvl) = cB * 2^(30-lvl) + q * 2^(30-lvl) := by
    intro h; unfold InR at h
    have h1 : 1 ≤ cB + q := by
      rcases Nat.eq_zero_or_pos (cB + q) with h0 | h0
      · have hz : cB = 0 ∧ q = 0 := by omega
        have z1 := hcB0 hz.1; have z2 := hq0 hz.2; omega
      · exact h0
    have e : b.toNat = (cB + q - 1) * 2^(30-lvl) := by
      rw [Nat.sub_mul, Nat.one_mul, eBq]; omega
    refine ⟨by rw [e]; exact Nat.mul_div_cancel _ hN0, by omega, ?_⟩
    rw [e, Nat.mul_div_cancel _ hN0, Nat.sub_mul, Nat.one_mul, eBq]
    have : 2^(30-lvl) ≤ cB * 2^(30-lvl) + q * 2^(30-lvl) := by
      rw [← eBq]; exact Nat.le_mul_of_pos_left _ h1
    omega
  have hX0 : (0:Nat) / 2^(30-lvl) = 0 := Nat.zero_div _
  have hXm : 1073741823 / 2^(30-lvl) * 2^(30-lvl) = 1073741824 - 2^(30-lvl) := by
    rw [(sq_arith lvl 0 hl (by decide)).2.1, Nat.sub_mul, Nat.one_mul, hKN]
  by_cases hia : InR a
  · by_cases hib : InR b
    · -- same face
      have hfl : flag = true := hflag.2 ⟨hia, hib⟩
      obtain ⟨xa, la, ea⟩ := sqa hia
      obtain ⟨xb, lb, eb⟩ := sqb hib
      have e0 : cellIDFromFaceIJSame f a b flag = cellIDFromFaceIJ f a.toNat b.toNat := by
        unfold cellIDFromFaceIJSame; rw [hfl, if_pos rfl]
      rw [e0, cubeBox_isSq hL _ _ _ _ _ (isSq_leaf_parent hL f a.toNat b.toNat lvl hf la lb hl)]
      unfold sqBox cubeLo
      apply faceBox_meet_same f hf <;> omega
    · -- b out of range, a in range
      have hfl : flag = false := by
        cases hc : flag
        · rfl
        · exact absurd (hflag.1 hc).2 hib
      obtain ⟨xa, la, ea⟩ := sqa hia
      have e0 : cellIDFromFaceIJSame f a b flag = cellIDFromFaceIJWrap f a b := by
        unfold cellIDFromFaceIJSame; rw [hfl]; simp
      rw [e0]
      have hat : ((a.toNat : Nat) : Int) = a := by unfold InR at hia; omega
      unfold InR at hib
      by_cases hblo : b ≤ -1
      · have : v1 = -1073741824 := by
          have : cB = 0 ∧ q = 0 := by
            rcases Nat.eq_zero_or_pos (cB + q) with h0 | h0
            · omega
            · have := Nat.le_mul_of_pos_left (2^(30-lvl)) h0; rw [eBq] at this; omega
          have := hcB0 this.1; omega
        rw [this]
        apply touch_down hL f lvl hf hl a b hblo a.toNat la (by rw [hat]) u1 u2 v2 (by omega) (by omega)
        unfold cubeLo; omega
      · have hbhi : 1073741824 ≤ b := by omega
        have : v2 = 1073741824 := by omega
        rw [this]
        apply touch_up hL f lvl hf hl a b hbhi a.toNat la (by rw [hat]) u1 u2 v1 (by omega) (by omega)
        unfold cubeLo; omega
  · have hfl : flag = false := by
      cases hc : flag
      · rfl
      · exact absurd (hflag.1 hc).1 hia
    have e0 : cellIDFromFaceIJSame f a b flag = cellIDFromFaceIJWrap f a b := by
      unfold cellIDFromFaceIJSame; rw [hfl]; simp
    rw [e0]
    have hia' : a ≤ -1 ∨ 1073741824 ≤ a := by unfold InR at hia; omega
    by_cases hib : InR b
    · -- a out of range, b in range
      obtain ⟨xb, lb, eb⟩ := sqb hib
      have hbt : ((b.toNat : Nat) : Int) = b := by unfold InR at hib; omega
      rcases hia' with halo | hahi
      · have : u1 = -1073741824 := by
          have : cA = 0 ∧ p = 0 := by
            rcases Nat.eq_zero_or_pos (cA + p) with h0 | h0
            · omega
            · have := Nat.le_mul_of_pos_left (2^(30-lvl)) h0; rw [eAp] at this; omega
          have := hcA0 this.1; omega
        rw [this]
        apply touch_left hL f lvl hf hl a b halo b.toNat lb (by rw [hbt]) u2 v1 v2 (by omega) (by omega)
        unfold cubeLo; omega
      · have : u2 = 1073741824 := by omega
        rw [this]
        apply touch_right hL f lvl hf hl a b hahi b.toNat lb (by rw [hbt]) u1 v1 v2 (by omega) (by omega)
        unfold cubeLo; omega
    · -- a cube corner
      have hib' : b ≤ -1 ∨ 1073741824 ≤ b := by unfold InR at hib; omega
      have zA : a ≤ -1 → cA * 2^(30-lvl) = 0 := by
        intro h
        have : cA = 0 ∧ p = 0 := by
          rcases Nat.eq_zero_or_pos (cA + p) with h0 | h0
          · omega
          · have := Nat.le_mul_of_pos_left (2^(30-lvl)) h0; rw [eAp] at this; omega
        exact hcA0 this.1
      have zB : b ≤ -1 → cB * 2^(30-lvl) = 0 := by
        intro h
        have : cB = 0 ∧ q = 0 := by
          rcases Nat.eq_zero_or_pos (cB + q) with h0 | h0
          · omega
          · have := Nat.le_mul_of_pos_left (2^(30-lvl)) h0; rw [eBq] at this; omega
        exact hcB0 this.1
      by_cases hf3 : f < 3
      · -- the j-side wins: move a into range
        have hred := wrapIJ_corner_reduce_lo f hf3 a b hia' hib'
        rcases hib' with hblo | hbhi
        · have : v1 = -1073741824 := by have := zB hblo; omega
          rw [this]
          rcases hia' with halo | hahi
          · rw [if_pos halo] at hred
            apply touch_down hL f lvl hf hl a b hblo 0 (by decide) hred u1 u2 v2 (by omega) (by omega)
            unfold cubeLo; rw [hX0, Nat.zero_mul]; have := zA halo; omega
          · rw [if_neg (by omega)] at hred
            apply touch_down hL f lvl hf hl a b hblo 1073741823 (by decide) hred u1 u2 v2 (by omega) (by omega)
            unfold cubeLo; rw [hXm]; omega
        · have : v2 = 1073741824 := by omega
          rw [this]
          rcases hia' with halo | hahi
          · rw [if_pos halo] at hred
            apply touch_up hL f lvl hf hl a b hbhi 0 (by decide) hred u1 u2 v1 (by omega) (by omega)
            unfold cubeLo; rw [hX0, Nat.zero_mul]; have := zA halo; omega
          · rw [if_neg (by omega)] at hred
            apply touch_up hL f lvl hf hl a b hbhi 1073741823 (by decide) hred u1 u2 v1 (by omega) (by omega)
            unfold cubeLo; rw [hXm]; omega
      · -- the i-side wins: move b into range
        have hred := wrapIJ_corner_reduce_hi f (by omega) hf a b hia' hib'
        rcases hia' with halo | hahi
        · have : u1 = -1073741824 := by have := zA halo; omega
          rw [this]
          rcases hib' with hblo | hbhi
          · rw [if_pos hblo] at hred
            apply touch_left hL f lvl hf hl a b halo 0 (by decide) hred u2 v1 v2 (by omega) (by omega)
            unfold cubeLo; rw [hX0, Nat.zero_mul]; have := zB hblo; omega
          · rw [if_neg (by omega)] at hred
            apply touch_left hL f lvl hf hl a b halo 1073741823 (by decide) hred u2 v1 v2 (by omega) (by omega)
            unfold cubeLo; rw [hXm]; omega
        · have : u2 = 1073741824 := by omega
          rw [this]
          rcases hib' with hblo | hbhi
          · rw [if_pos hblo] at hred
            apply touch_right hL f lvl hf hl a b hahi 0 (by decide) hred u1 v1 v2 (by omega) (by omega)
            unfold cubeLo; rw [hX0, Nat.zero_mul]; have := zB hblo; omega
          · rw [if_neg (by omega)] at hred
            apply touch_right hL f lvl hf hl a b hahi 1073741823 (by decide) hred u1 v1 v2 (by omega) (by omega)
            unfold cubeLo; rw [hXm]; omega

end

/-- membership in one loop iteration with the GRID position of the element: (a,b) = (i − nbr + p·nbr, j − nbr + q·nbr),
    0 ≤ p, q ≤ m+1 (S = m·nbr), flag = "in range" -/
theorem anRow_mem_grid (f lvl : Nat) (i j S nbr : Int) (m t : Nat) (hnbr : 0 < nbr) (hSm : S = (m:Int) * nbr) (hm : 1 ≤ m)
    (hi0 : 0 ≤ i) (hi1 : i + S ≤ 1073741824) (hj0 : 0 ≤ j) (hj1 : j + S ≤ 1073741824)
    (hia : i = 0 ∨ S ≤ i) (hja : j = 0 ∨ S ≤ j) (ht : t ≤ m + 1)
    (n : CellID) (hn : n ∈ anRow f lvl i j S nbr t) :
    ∃ (p q : Nat) (flag : Bool), p ≤ m + 1 ∧ q ≤ m + 1 ∧
      n = parent (cellIDFromFaceIJSame f (i - nbr + (p:Int) * nbr) (j - nbr + (q:Int) * nbr) flag) lvl ∧
      (flag = true ↔ (InR (i - nbr + (p:Int) * nbr) ∧ InR (j - nbr + (q:Int) * nbr))) := by
  have hS : nbr ≤ S := by
    rw [hSm]; have : (1:Int) ≤ m := by omega
    nlinarith
  have htk : (t:Int) * nbr - nbr ≤ S := by
    rw [hSm]
    have h1 : (t:Int) ≤ (m:Int) + 1 := by omega
    have := Int.mul_le_mul_of_nonneg_right h1 (le_of_lt hnbr)
    rw [Int.add_mul, Int.one_mul] at this
    omega
  have hk0 : -nbr ≤ (t:Int) * nbr - nbr := by
    have : 0 ≤ (t:Int) * nbr := Int.mul_nonneg (Int.natCast_nonneg t) (le_of_lt hnbr)
    omega
  have e0 : i - nbr = i - nbr + ((0:Nat):Int) * nbr := by simp
  have eS : i + S = i - nbr + ((m + 1 : Nat):Int) * nbr := by rw [hSm]; push_cast; ring
  have eS' : j + S = j - nbr + ((m + 1 : Nat):Int) * nbr := by rw [hSm]; push_cast; ring
  have e0' : j - nbr = j - nbr + ((0:Nat):Int) * nbr := by simp
  have ek : ∀ x : Int, x + ((t:Int) * nbr - nbr) = x - nbr + (t:Int) * nbr := by intro x; ring
  unfold anRow at hn
  simp only [] at hn
  rw [ek, ek] at hn
  generalize hkdef : (t:Int) * nbr - nbr = k at *
  unfold InR
  have hkt : (t:Int) * nbr = k + nbr := by omega
  by_cases c1 : k < 0
  · simp only [c1, if_true, List.nil_append, List.mem_cons, List.mem_nil_iff, or_false] at hn
    rcases hn with rfl | rfl
    · refine ⟨0, t, _, by omega, ht, by rw [← e0], ?_⟩
      rw [← e0]
      simp only [Bool.and_eq_true, decide_eq_true_eq]; omega
    · refine ⟨m + 1, t, _, by omega, ht, by rw [← eS], ?_⟩
      rw [← eS]
      simp only [Bool.and_eq_true, decide_eq_true_eq]; omega
  · by_cases c2 : k ≥ S
    · simp only [c1, c2, if_true, if_false, List.nil_append, List.mem_cons, List.mem_nil_iff, or_false] at hn
      rcases hn with rfl | rfl
      · refine ⟨0, t, _, by omega, ht, by rw [← e0], ?_⟩
        rw [← e0]
        simp only [Bool.and_eq_true, decide_eq_true_eq]; omega
      · refine ⟨m + 1, t, _, by omega, ht, by rw [← eS], ?_⟩
        rw [← eS]
        simp only [Bool.and_eq_true, decide_eq_true_eq]; omega
    · simp only [c1, c2, if_true, if_false, List.cons_append, List.nil_append, List.mem_cons, List.mem_nil_iff,
        or_false] at hn
      rcases hn with rfl | rfl | rfl | rfl
      · refine ⟨t, 0, _, ht, by omega, by rw [← e0'], ?_⟩
        rw [← e0']
        simp only [decide_eq_true_eq]; omega
      · refine ⟨t, m + 1, _, ht, by omega, by rw [← eS'], ?_⟩
        rw [← eS']
        simp only [decide_eq_true_eq]; omega
      · refine ⟨0, t, _, by omega, ht, by rw [← e0], ?_⟩
        rw [← e0]
        simp only [Bool.true_and, decide_eq_true_eq]; omega
      · refine ⟨m + 1, t, _, by omega, ht, by rw [← eS], ?_⟩
        rw [← eS]
        simp only [Bool.true_and, decide_eq_true_eq]; omega

section
variable {L : Nat} (hL : L = 30)
include hL

set_option maxHeartbeats 800000 in
/-- every cell reported by `allNeighbors` touches the cell — ALL valid cells, all levels `level id ≤ lvl ≤ 30` -/
theorem allNeighbors_touch_all (id : CellID) (K : Nat) (h : IsCell id K) (lvl : Nat) (h1 : K ≤ lvl) (h2 : lvl ≤ 30)
    (n : CellID) (hn : n ∈ allNeighbors id lvl) : boxMeet (cubeBox id) (cubeBox n) ≠ none := by
  have hK := h.k_le
  obtain ⟨g1, g2, g3, _, g5⟩ := faceIJOrientation_leaf_in_cell hL id K h
  rw [cubeBox_cell hL id K h]
  unfold cubeLo sqI sqJ
  rw [allNeighbors_eq] at hn
  generalize faceIJOrientation id = r at *
  obtain ⟨f, i0, j0, o⟩ := r
  simp only at g1 g2 g3 g5
  subst g1
  rw [anAux_eq _ _ _ _ _ _ (by rw [h.level_eq]; exact h1) h2, h.level_eq, sizeIJ_eq, sizeIJ_eq] at hn
  have hpow : (2:Nat)^(30 - K) * 2^K = 2^30 := by rw [← Nat.pow_add]; congr 1; omega
  have hSN : (2:Nat)^(30 - K) = 2^(lvl - K) * 2^(30 - lvl) := by
    rw [← Nat.pow_add]; congr 1; omega
  have hN0 : 0 < (2:Nat)^(30 - lvl) := Nat.two_pow_pos _
  have hm0 : 0 < (2:Nat)^(lvl - K) := Nat.two_pow_pos _
  -- keep N = 2^(30-lvl) literal (touch_any is stated with it); abbreviate S and m
  generalize hSdef : (2:Nat)^(30 - K) = S at *
  generalize hmdef : (2:Nat)^(lvl - K) = m at *
  have hS0 : 0 < S := by rw [hSN]; exact Nat.mul_pos hm0 hN0
  obtain ⟨l, hl, hnl⟩ := List.mem_flatten.mp hn
  obtain ⟨t, ht, rfl⟩ := List.mem_map.mp hl
  rw [List.mem_range] at ht
  have hdiv : S / 2^(30-lvl) = m := by rw [hSN]; exact Nat.mul_div_cancel _ hN0
  rw [hdiv] at ht
  have hA : (i0:Int) - (i0:Int) % (S:Int) = ((i0 / S * S : Nat) : Int) := by
    have := Nat.div_add_mod i0 S
    rw [← Int.natCast_mod]
    have e : (i0:Int) = ((S * (i0 / S) + i0 % S : Nat) : Int) := by rw [this]
    rw [Nat.mul_comm] at e
    omega
  have hB : (j0:Int) - (j0:Int) % (S:Int) = ((j0 / S * S : Nat) : Int) := by
    have := Nat.div_add_mod j0 S
    rw [← Int.natCast_mod]
    have e : (j0:Int) = ((S * (j0 / S) + j0 % S : Nat) : Int) := by rw [this]
    rw [Nat.mul_comm] at e
    omega
  rw [hA, hB] at hnl
  have hIlt : i0 / S < 2^K := by rw [Nat.div_lt_iff_lt_mul hS0, Nat.mul_comm, hpow]; exact g2
  have hJlt : j0 / S < 2^K := by rw [Nat.div_lt_iff_lt_mul hS0, Nat.mul_comm, hpow]; exact g3
  generalize i0 / S = I at *
  generalize j0 / S = J at *
  have iS2 : I * S + S ≤ 2^30 := by
    calc I * S + S = (I + 1) * S := by rw [Nat.add_mul, Nat.one_mul]
      _ ≤ 2^K * S := Nat.mul_le_mul_right _ (by omega)
      _ = 2^30 := by rw [Nat.mul_comm]; exact hpow
  have jS2 : J * S + S ≤ 2^30 := by
    calc J * S + S = (J + 1) * S := by rw [Nat.add_mul, Nat.one_mul]
      _ ≤ 2^K * S := Nat.mul_le_mul_right _ (by omega)
      _ = 2^30 := by rw [Nat.mul_comm]; exact hpow
  have ia : I * S = 0 ∨ S ≤ I * S := by
    rcases Nat.eq_zero_or_pos I with h0 | h0
    · left; rw [h0, Nat.zero_mul]
    · right; exact Nat.le_mul_of_pos_left S h0
  have ja : J * S = 0 ∨ S ≤ J * S := by
    rcases Nat.eq_zero_or_pos J with h0 | h0
    · left; rw [h0, Nat.zero_mul]
    · right; exact Nat.le_mul_of_pos_left S h0
  have hSmI : (S:Int) = (m:Int) * ((2^(30-lvl) : Nat) : Int) := by rw [hSN]; push_cast; rfl
  obtain ⟨p, q, flag, hp, hq, rfl, hflag⟩ := anRow_mem_grid (face id) lvl ((I * S : Nat) : Int) ((J * S : Nat) : Int)
    (S:Int) ((2^(30-lvl) : Nat) : Int) m t (by exact_mod_cast hN0) hSmI (by omega) (by omega) (by omega) (by omega)
    (by omega) (by omega) (by omega) (by omega) n hnl
  have eIS : I * S = I * m * 2^(30-lvl) := by rw [hSN, Nat.mul_assoc]
  have eJS : J * S = J * m * 2^(30-lvl) := by rw [hSN, Nat.mul_assoc]
  have eIS' : (I * m + m) * 2^(30-lvl) = I * S + S := by rw [Nat.add_mul, ← eIS, ← hSN]
  have eJS' : (J * m + m) * 2^(30-lvl) = J * S + S := by rw [Nat.add_mul, ← eJS, ← hSN]
  apply touch_any hL (face id) lvl h.face_lt6 h2 (I * m) (J * m) m p q hp hq
    (by rw [eIS']; omega) (by rw [eJS']; omega) _ _ ?_ ?_ flag hflag
  · rw [← eIS]
  · rw [eIS']; push_cast; ring
  · rw [← eJS]
  · rw [eJS']; push_cast; ring
  · rw [Nat.add_mul, ← eIS]; push_cast; ring
  · rw [Nat.add_mul, ← eJS]; push_cast; ring

end
end S2Proofs.C01W
