/-
  C04Grid.Orient — `orient_H` / `orient_V` as statements about `exactDecision`, with index hypotheses in `Nat`
  (omega-friendly): an edge along a grid line, a third vertex `d ≥ 1` cells off that line and at most `3d` cells away
  from the first endpoint along it.
-/
import S2Proofs.C04Grid.Vertex

set_option linter.unusedSimpArgs false
set_option linter.unusedVariables false

namespace S2Proofs.C04Grid
open S2 S2.Pred S2Proofs.C17Err S2Proofs.C17Err.R3

theorem U_lt {k i i' : Nat} (hk : k ≤ 30) (h : i < i') (hi : i' ≤ 2 ^ k) : U k i < U k i' := by
  obtain ⟨l, -⟩ := U_gap hk h hi
  have hc : (i : ℝ) < i' := by exact_mod_cast h
  have : 0 < ((i' : ℝ) - i) * (2 ^ (30 - k) / 2 ^ 31) := mul_pos (by linarith) (by positivity)
  linarith

private theorem one_le_abs {a b : Nat} (h : a ≠ b) : 1 ≤ |(b : ℝ) - a| := by
  rcases Nat.lt_or_gt_of_ne h with h | h
  · have : (a : ℝ) + 1 ≤ b := by exact_mod_cast h
    rw [abs_of_nonneg (by linarith)]; linarith
  · have : (b : ℝ) + 1 ≤ a := by exact_mod_cast h
    rw [abs_of_nonpos (by linarith)]; linarith

private theorem abs_eq_d {a b d : Nat} (h : b = a + d ∨ a = b + d) : |(b : ℝ) - a| = d := by
  rcases h with rfl | rfl
  · push_cast; rw [abs_of_nonneg (by linarith [Nat.cast_nonneg (α := ℝ) d])]; ring
  · push_cast; rw [abs_of_nonpos (by linarith [Nat.cast_nonneg (α := ℝ) d])]; ring

private theorem cone_cast {a b d : Nat} (h1 : b ≤ a + 3 * d) (h2 : a ≤ b + 3 * d) : |(b : ℝ) - a| ≤ 3 * (d : ℝ) := by
  have c1 : (b : ℝ) ≤ a + 3 * d := by exact_mod_cast h1
  have c2 : (a : ℝ) ≤ b + 3 * d := by exact_mod_cast h2
  rw [abs_le]; constructor <;> linarith

section
variable (f k : Nat) (hk : k ≤ 30)
include hk

theorem fin_gridV {i j : Nat} (hi : i ≤ 2 ^ k) (hj : j ≤ 2 ^ k) : S2Proofs.F64Order.Fin3 (gridV f k i j) :=
  (gridV_decomp f k i j hk hi hj).1

/-- horizontal edge `(iA, jc) → (iB, jc)`, third vertex `(iW, jW)`: the exact sign is `+1` when
    `(u_B − u_A)(v_W − v_c) > 0` -/
theorem exact_H_pos {iA iB jc iW jW d : Nat} (hA : iA ≤ 2 ^ k) (hB : iB ≤ 2 ^ k) (hc : jc ≤ 2 ^ k) (hW : iW ≤ 2 ^ k)
    (hW' : jW ≤ 2 ^ k) (hd : 1 ≤ d) (hoff : jW = jc + d ∨ jc = jW + d) (h1 : iW ≤ iA + 3 * d) (h2 : iA ≤ iW + 3 * d)
    (hs : (iA < iB ∧ jc < jW) ∨ (iB < iA ∧ jW < jc)) :
    exactDecision (gridV f k iA jc) (gridV f k iB jc) (gridV f k iW jW) = 1 := by
  have hne : iA ≠ iB := by omega
  have hdr : (1 : ℝ) ≤ d := by exact_mod_cast hd
  have key := orient_H f k hk hA hB hc hW hW' (one_le_abs hne) (by rw [abs_eq_d hoff]; exact hdr)
    (by rw [abs_eq_d hoff]; exact cone_cast h1 h2)
  apply exact_of_real_pos (fin_gridV f k hk hA hc) (fin_gridV f k hk hB hc) (fin_gridV f k hk hW hW')
  have hpos : 0 < (U k iB - U k iA) * (U k jW - U k jc) := by
    rcases hs with ⟨a, b⟩ | ⟨a, b⟩
    · exact mul_pos (by linarith [U_lt hk a hB]) (by linarith [U_lt hk b hW'])
    · exact mul_pos_of_neg_of_neg (by linarith [U_lt hk a hA]) (by linarith [U_lt hk b hc])
  exact (pos_iff_pos_of_mul_pos key).mp hpos

theorem exact_H_neg {iA iB jc iW jW d : Nat} (hA : iA ≤ 2 ^ k) (hB : iB ≤ 2 ^ k) (hc : jc ≤ 2 ^ k) (hW : iW ≤ 2 ^ k)
    (hW' : jW ≤ 2 ^ k) (hd : 1 ≤ d) (hoff : jW = jc + d ∨ jc = jW + d) (h1 : iW ≤ iA + 3 * d) (h2 : iA ≤ iW + 3 * d)
    (hs : (iA < iB ∧ jW < jc) ∨ (iB < iA ∧ jc < jW)) :
    exactDecision (gridV f k iA jc) (gridV f k iB jc) (gridV f k iW jW) = -1 := by
  have hne : iA ≠ iB := by omega
  have hdr : (1 : ℝ) ≤ d := by exact_mod_cast hd
  have key := orient_H f k hk hA hB hc hW hW' (one_le_abs hne) (by rw [abs_eq_d hoff]; exact hdr)
    (by rw [abs_eq_d hoff]; exact cone_cast h1 h2)
  apply exact_of_real_neg (fin_gridV f k hk hA hc) (fin_gridV f k hk hB hc) (fin_gridV f k hk hW hW')
  have hneg : (U k iB - U k iA) * (U k jW - U k jc) < 0 := by
    rcases hs with ⟨a, b⟩ | ⟨a, b⟩
    · exact mul_neg_of_pos_of_neg (by linarith [U_lt hk a hB]) (by linarith [U_lt hk b hc])
    · exact mul_neg_of_neg_of_pos (by linarith [U_lt hk a hA]) (by linarith [U_lt hk b hW'])
  by_contra hcon
  have := mul_nonpos_of_nonpos_of_nonneg hneg.le (not_lt.mp hcon)
  linarith

/-- vertical edge `(ic, jA) → (ic, jB)`, third vertex `(iW, jW)`: `+1` when `(v_B − v_A)(u_W − u_c) < 0` -/
theorem exact_V_pos {ic jA jB iW jW d : Nat} (hc : ic ≤ 2 ^ k) (hA : jA ≤ 2 ^ k) (hB : jB ≤ 2 ^ k) (hW : iW ≤ 2 ^ k)
    (hW' : jW ≤ 2 ^ k) (hd : 1 ≤ d) (hoff : iW = ic + d ∨ ic = iW + d) (h1 : jW ≤ jA + 3 * d) (h2 : jA ≤ jW + 3 * d)
    (hs : (jA < jB ∧ iW < ic) ∨ (jB < jA ∧ ic < iW)) :
    exactDecision (gridV f k ic jA) (gridV f k ic jB) (gridV f k iW jW) = 1 := by
  have hne : jA ≠ jB := by omega
  have hdr : (1 : ℝ) ≤ d := by exact_mod_cast hd
  have key := orient_V f k hk hc hA hB hW hW' (one_le_abs hne) (by rw [abs_eq_d hoff]; exact hdr)
    (by rw [abs_eq_d hoff]; exact cone_cast h1 h2)
  apply exact_of_real_pos (fin_gridV f k hk hc hA) (fin_gridV f k hk hc hB) (fin_gridV f k hk hW hW')
  have hneg : (U k jB - U k jA) * (U k iW - U k ic) < 0 := by
    rcases hs with ⟨a, b⟩ | ⟨a, b⟩
    · exact mul_neg_of_pos_of_neg (by linarith [U_lt hk a hB]) (by linarith [U_lt hk b hc])
    · exact mul_neg_of_neg_of_pos (by linarith [U_lt hk a hA]) (by linarith [U_lt hk b hW])
  by_contra hcon
  have := mul_nonneg_of_nonpos_of_nonpos hneg.le (not_lt.mp hcon)
  linarith

theorem exact_V_neg {ic jA jB iW jW d : Nat} (hc : ic ≤ 2 ^ k) (hA : jA ≤ 2 ^ k) (hB : jB ≤ 2 ^ k) (hW : iW ≤ 2 ^ k)
    (hW' : jW ≤ 2 ^ k) (hd : 1 ≤ d) (hoff : iW = ic + d ∨ ic = iW + d) (h1 : jW ≤ jA + 3 * d) (h2 : jA ≤ jW + 3 * d)
    (hs : (jA < jB ∧ ic < iW) ∨ (jB < jA ∧ iW < ic)) :
    exactDecision (gridV f k ic jA) (gridV f k ic jB) (gridV f k iW jW) = -1 := by
  have hne : jA ≠ jB := by omega
  have hdr : (1 : ℝ) ≤ d := by exact_mod_cast hd
  have key := orient_V f k hk hc hA hB hW hW' (one_le_abs hne) (by rw [abs_eq_d hoff]; exact hdr)
    (by rw [abs_eq_d hoff]; exact cone_cast h1 h2)
  apply exact_of_real_neg (fin_gridV f k hk hc hA) (fin_gridV f k hk hc hB) (fin_gridV f k hk hW hW')
  have hpos : 0 < (U k jB - U k jA) * (U k iW - U k ic) := by
    rcases hs with ⟨a, b⟩ | ⟨a, b⟩
    · exact mul_pos (by linarith [U_lt hk a hB]) (by linarith [U_lt hk b hW])
    · exact mul_pos_of_neg_of_neg (by linarith [U_lt hk a hA]) (by linarith [U_lt hk b hc])
  by_contra hcon
  have := mul_nonneg hpos.le (not_lt.mp hcon)
  linarith

end
end S2Proofs.C04Grid
