/-
  C04Grid.Margin — the two quantitative ingredients of `ConeHyp` for the real cell vertices.

  (1) `det_main`: a 3×3 determinant `det(A, A+P, A+Q)` with `A ≈ (u, v, 1)`, `P ≈ (p1, 0, 0)`, `Q ≈ (q1, q2, 0)` has the
      sign of `p1·q2` as soon as the perturbations `e` are small against `|p1|`, `|q2|` and `|q1| ≤ K·|q2|` (the cone).
  (2) `grid_gap`: the float uv grid `stToUV(k/2^30)` grows by at least `2^-31` and at most `2^-28` per grid step
      (two-sided version of `C12Dist.CellOK.stToUV_g_gap`).
-/
import S2Proofs.C12Dist.CellOK
import Mathlib.Tactic.Ring
import Mathlib.Tactic.Linarith
import Mathlib.Tactic.NormNum
import Mathlib.Tactic.Positivity

namespace S2Proofs.C04Grid
open S2 S2.STUV

/-! ## (1) the determinant -/

/-- the determinant of the rows `(x,y,z)`, `(p1,p2,p3)`, `(q1,q2,q3)` -/
noncomputable def det9 (x y z p1 p2 p3 q1 q2 q3 : ℝ) : ℝ :=
  x * (p2 * q3 - p3 * q2) + y * (p3 * q1 - p1 * q3) + z * (p1 * q2 - p2 * q1)

private theorem mul_abs_le {a b A B : ℝ} (ha : |a| ≤ A) (hb : |b| ≤ B) : |a * b| ≤ A * B := by
  rw [abs_mul]; exact mul_le_mul ha hb (abs_nonneg _) (le_trans (abs_nonneg _) ha)

/-- **the main term decides**: `|x|,|y| ≤ 2`, `z ≥ 1/2`, the entries `p2 p3 q3` at most `e`, `|q1| ≤ K|q2|`,
    `|p1| > (16K+8)e`, `|q2| ≥ 16e` ⇒ the determinant has the sign of `p1·q2`. -/
theorem det_main {x y z p1 p2 p3 q1 q2 q3 e K : ℝ} (he : 0 ≤ e) (hK : 0 ≤ K)
    (hx : |x| ≤ 2) (hy : |y| ≤ 2) (hz : 1 / 2 ≤ z)
    (hp2 : |p2| ≤ e) (hp3 : |p3| ≤ e) (hq3 : |q3| ≤ e) (hq1 : |q1| ≤ K * |q2|)
    (hp1 : (16 * K + 8) * e < |p1|) (hq2 : 16 * e ≤ |q2|) (hq2' : 0 < |q2|) :
    0 < (p1 * q2) * det9 x y z p1 p2 p3 q1 q2 q3 := by
  set m := |p1| with hm
  set q := |q2| with hq
  have hm0 : 0 < m := lt_of_le_of_lt (by positivity) hp1
  have hme : e ≤ m := by nlinarith
  set S := p1 * q2 with hS
  have hSabs : |S| = m * q := abs_mul _ _
  have hSS : S * S = (m * q) * (m * q) := by rw [← hSabs]; exact (abs_mul_abs_self S).symm
  have hKq : 0 ≤ K * q := mul_nonneg hK hq2'.le
  -- the small products
  have t1 : |p2 * q1| ≤ e * (K * q) := mul_abs_le hp2 hq1
  have t2 : |p2 * q3| ≤ e * e := mul_abs_le hp2 hq3
  have t3 : |p3 * q2| ≤ e * q := mul_abs_le hp3 (le_refl _)
  have t4 : |p3 * q1| ≤ e * (K * q) := mul_abs_le hp3 hq1
  have t5 : |p1 * q3| ≤ m * e := mul_abs_le (le_refl _) hq3
  set r := x * (p2 * q3 - p3 * q2) + y * (p3 * q1 - p1 * q3) with hr
  have hr1 : |x * (p2 * q3 - p3 * q2)| ≤ 2 * (e * e + e * q) := by
    refine mul_abs_le hx ?_
    have := abs_sub (p2 * q3) (p3 * q2)
    linarith
  have hr2 : |y * (p3 * q1 - p1 * q3)| ≤ 2 * (e * (K * q) + m * e) := by
    refine mul_abs_le hy ?_
    have := abs_sub (p3 * q1) (p1 * q3)
    linarith
  have hR : |r| ≤ 2 * (e * e + e * q) + 2 * (e * (K * q) + m * e) :=
    le_trans (abs_add_le _ _) (add_le_add hr1 hr2)
  set R := 2 * (e * e + e * q) + 2 * (e * (K * q) + m * e) with hRdef
  have hσ : 0 < m * q := mul_pos hm0 hq2'
  -- S * r ≥ -σ R
  have hSr : -((m * q) * R) ≤ S * r := by
    have : |S * r| ≤ (m * q) * R := mul_abs_le (le_of_eq hSabs) hR
    exact le_trans (neg_le_neg this) (neg_abs_le _)
  have hST : S * (p2 * q1) ≤ (m * q) * (e * (K * q)) := by
    have : |S * (p2 * q1)| ≤ (m * q) * (e * (K * q)) := mul_abs_le (le_of_eq hSabs) t1
    exact le_trans (le_abs_self _) this
  have hdet : S * det9 x y z p1 p2 p3 q1 q2 q3 = z * (S * S - S * (p2 * q1)) + S * r := by
    simp only [det9, hr, hS]; ring
  rw [hdet]
  have hin : (m * q) * (m * q) - (m * q) * (e * (K * q)) ≤ S * S - S * (p2 * q1) := by rw [hSS]; linarith
  -- σ − eKq − 2R > 0
  have f1 : 0 < q * (m - (16 * K + 8) * e) := mul_pos hq2' (by linarith)
  have f2 : 0 ≤ m * (q - 16 * e) := mul_nonneg hm0.le (by linarith)
  have f3 : 0 ≤ e * (m - e) := mul_nonneg he (by linarith)
  have f4 : 0 ≤ K * (e * q) := mul_nonneg hK (mul_nonneg he hq2'.le)
  have hgap : 0 < m * q - e * (K * q) - 2 * R := by
    simp only [hRdef]; linarith [f1, f2, f3, f4]
  have hpos : 0 ≤ (m * q) * (m * q) - (m * q) * (e * (K * q)) := by
    have : 0 ≤ (m * q) * (m * q - e * (K * q)) := mul_nonneg hσ.le (by linarith [mul_nonneg he (mul_nonneg hK hq2'.le), mul_nonneg (mul_nonneg he hK) hq2'.le, hR, abs_nonneg r])
    linarith
  have hz' : (1 / 2) * ((m * q) * (m * q) - (m * q) * (e * (K * q))) ≤ z * (S * S - S * (p2 * q1)) :=
    mul_le_mul hz hin hpos (by linarith)
  have hfin : 0 < (m * q) * (m * q - e * (K * q) - 2 * R) := mul_pos hσ hgap
  linarith [hz', hSr, hfin]

/-! ## (2) the float uv grid: two-sided gap -/

open S2Proofs.C12M S2Proofs.C12ST S2Proofs.C12C S2Proofs.C12H S2Proofs.C12 S2Proofs.C12Dist.CellOK

private theorem keyq (a b : ℚ) (ha : 1 ≤ a) (hab : a ≤ b) (hb : b ≤ 2) :
    2 / 3 * (b - a) ≤ (b * b - 1) / 3 - (a * a - 1) / 3 ∧ (b * b - 1) / 3 - (a * a - 1) / 3 ≤ 4 / 3 * (b - a) := by
  constructor <;> nlinarith

/-- the real map on the grid is bi-Lipschitz: slope between `1/(3·2^28)` and `1/(3·2^27)` per grid step -/
theorem uReal_lip (k1 k2 : Nat) (h12 : k1 ≤ k2) (hk : k2 ≤ 2 ^ 30) :
    ((k2 : ℚ) - k1) / 2 ^ 28 / 3 ≤ uReal k2 - uReal k1 ∧ uReal k2 - uReal k1 ≤ ((k2 : ℚ) - k1) / 2 ^ 27 / 3 := by
  have hq12 : (k1 : ℚ) ≤ k2 := by exact_mod_cast h12
  have hq2 : (k2 : ℚ) ≤ 2 ^ 30 := by exact_mod_cast hk
  have hq0 : (0 : ℚ) ≤ k1 := by positivity
  unfold uReal
  by_cases h2 : 2 ^ 29 ≤ k2
  · rw [if_pos h2]
    have hq2' : (2 : ℚ) ^ 29 ≤ k2 := by exact_mod_cast h2
    have hb1 : (1 : ℚ) ≤ (k2 : ℚ) / 2 ^ 29 := by rw [le_div_iff₀ (by positivity)]; linarith
    have hb2 : (k2 : ℚ) / 2 ^ 29 ≤ 2 := by rw [div_le_iff₀ (by positivity)]; linarith
    by_cases h1 : 2 ^ 29 ≤ k1
    · rw [if_pos h1]
      have hq1 : (2 : ℚ) ^ 29 ≤ k1 := by exact_mod_cast h1
      have ha : (1 : ℚ) ≤ (k1 : ℚ) / 2 ^ 29 := by rw [le_div_iff₀ (by positivity)]; linarith
      have hab : (k1 : ℚ) / 2 ^ 29 ≤ (k2 : ℚ) / 2 ^ 29 := div_le_div_of_nonneg_right hq12 (by positivity)
      obtain ⟨l, u⟩ := keyq _ _ ha hab hb2
      have e : (k2 : ℚ) / 2 ^ 29 - (k1 : ℚ) / 2 ^ 29 = ((k2 : ℚ) - k1) / 2 ^ 29 := by ring
      rw [e] at l u
      constructor <;> linarith
    · rw [if_neg h1]
      have h1' : k1 < 2 ^ 29 := not_le.1 h1
      have hj : ((2 ^ 30 - k1 : Nat) : ℚ) = 2 ^ 30 - (k1 : ℚ) := by
        rw [Nat.cast_sub (by omega)]; push_cast; ring
      have hq1 : (k1 : ℚ) ≤ 2 ^ 29 := by exact_mod_cast (le_of_lt h1')
      rw [hj]
      have hc1 : (1 : ℚ) ≤ (2 ^ 30 - (k1 : ℚ)) / 2 ^ 29 := by rw [le_div_iff₀ (by positivity)]; linarith
      have hc2 : (2 ^ 30 - (k1 : ℚ)) / 2 ^ 29 ≤ 2 := by rw [div_le_iff₀ (by positivity)]; linarith
      obtain ⟨l1, u1⟩ := keyq 1 _ (le_refl _) hb1 hb2
      obtain ⟨l2, u2⟩ := keyq 1 _ (le_refl _) hc1 hc2
      have e : ((k2 : ℚ) / 2 ^ 29 - 1) + ((2 ^ 30 - (k1 : ℚ)) / 2 ^ 29 - 1) = ((k2 : ℚ) - k1) / 2 ^ 29 := by ring
      constructor <;> linarith
  · rw [if_neg h2]
    have h2' : k2 < 2 ^ 29 := not_le.1 h2
    have h1 : ¬ 2 ^ 29 ≤ k1 := by omega
    rw [if_neg h1]
    have hj1 : ((2 ^ 30 - k1 : Nat) : ℚ) = 2 ^ 30 - (k1 : ℚ) := by
      rw [Nat.cast_sub (by omega)]; push_cast; ring
    have hj2 : ((2 ^ 30 - k2 : Nat) : ℚ) = 2 ^ 30 - (k2 : ℚ) := by
      rw [Nat.cast_sub (by omega)]; push_cast; ring
    rw [hj1, hj2]
    have hq2' : (k2 : ℚ) ≤ 2 ^ 29 := by exact_mod_cast (le_of_lt h2')
    have ha : (1 : ℚ) ≤ (2 ^ 30 - (k2 : ℚ)) / 2 ^ 29 := by rw [le_div_iff₀ (by positivity)]; linarith
    have hab : (2 ^ 30 - (k2 : ℚ)) / 2 ^ 29 ≤ (2 ^ 30 - (k1 : ℚ)) / 2 ^ 29 :=
      div_le_div_of_nonneg_right (by linarith) (by positivity)
    have hb : (2 ^ 30 - (k1 : ℚ)) / 2 ^ 29 ≤ 2 := by rw [div_le_iff₀ (by positivity)]; linarith
    obtain ⟨l, u⟩ := keyq _ _ ha hab hb
    have e : (2 ^ 30 - (k1 : ℚ)) / 2 ^ 29 - (2 ^ 30 - (k2 : ℚ)) / 2 ^ 29 = ((k2 : ℚ) - k1) / 2 ^ 29 := by ring
    rw [e] at l u
    constructor <;> linarith

/-- the real value of the float grid coordinate `stToUV(k/2^30)` -/
noncomputable def gU (k : Nat) : ℝ := FloatErr.val (stToUV (g k))

/-- **the float uv grid grows by at least `2^-31` and at most `2^-28` per grid step** -/
theorem grid_gap (k1 k2 : Nat) (h12 : k1 < k2) (hk : k2 ≤ 2 ^ 30) :
    ((k2 : ℝ) - k1) / 2 ^ 31 ≤ gU k2 - gU k1 ∧ gU k2 - gU k1 ≤ ((k2 : ℝ) - k1) / 2 ^ 28 := by
  have c1 := stToUV_g_close k1 (by omega)
  have c2 := stToUV_g_close k2 hk
  obtain ⟨l, u⟩ := uReal_lip k1 k2 (le_of_lt h12) hk
  rw [abs_le] at c1 c2
  have hd : (1 : ℚ) ≤ (k2 : ℚ) - k1 := by
    have : (k1 : ℚ) + 1 ≤ k2 := by exact_mod_cast h12
    linarith
  have hE : (4 : ℚ) * E ≤ 1 / 2 ^ 31 / 3 := by unfold E; norm_num
  have lq : ((k2 : ℚ) - k1) / 2 ^ 31 ≤ F64Round.val (stToUV (g k2)) - F64Round.val (stToUV (g k1)) := by
    have : ((k2 : ℚ) - k1) / 2 ^ 31 + 1 / 2 ^ 31 / 3 ≤ ((k2 : ℚ) - k1) / 2 ^ 28 / 3 := by
      have : (1 : ℚ) / 2 ^ 31 / 3 ≤ ((k2 : ℚ) - k1) * (1 / 2 ^ 31 / 3) := by nlinarith
      have e : ((k2 : ℚ) - k1) / 2 ^ 28 / 3 = ((k2 : ℚ) - k1) / 2 ^ 31 + ((k2 : ℚ) - k1) * (1 / 2 ^ 31 / 3) * 5 := by ring
      nlinarith
    linarith
  have uq : F64Round.val (stToUV (g k2)) - F64Round.val (stToUV (g k1)) ≤ ((k2 : ℚ) - k1) / 2 ^ 28 := by
    have : ((k2 : ℚ) - k1) / 2 ^ 27 / 3 + 1 / 2 ^ 31 / 3 ≤ ((k2 : ℚ) - k1) / 2 ^ 28 := by
      have e : ((k2 : ℚ) - k1) / 2 ^ 28 = ((k2 : ℚ) - k1) / 2 ^ 27 / 3 + ((k2 : ℚ) - k1) * (1 / 2 ^ 28 / 3) := by ring
      have : (1 : ℚ) / 2 ^ 28 / 3 ≤ ((k2 : ℚ) - k1) * (1 / 2 ^ 28 / 3) := by nlinarith
      have : (1 : ℚ) / 2 ^ 31 / 3 ≤ 1 / 2 ^ 28 / 3 := by norm_num
      linarith
    linarith
  unfold gU
  rw [val_bridge, val_bridge]
  constructor
  · have := (Rat.cast_le (K := ℝ)).2 lq
    push_cast at this
    exact this
  · have := (Rat.cast_le (K := ℝ)).2 uq
    push_cast at this
    exact this

theorem gU_abs_le (k : Nat) (hk : k ≤ 2 ^ 30) : |gU k| ≤ 1 := by
  rw [abs_le]; exact ⟨stToUV_g_ge k hk, stToUV_g_le k hk⟩

end S2Proofs.C04Grid
