/-
  C04Grid.CrossFace — LONG separators: the great circle through the two boundary vertices `(a, 0)`, `(a, 2^k)` of a
  column line of face `f` (endpoints a quarter turn apart: no lever arm, the rounding of the endpoints tilts it by 2^-51
  only).  Every vertex of face `f` in another column is strictly on its left / right, and every vertex of the face
  adjacent to `f` in the `+u` (`−u`) direction is strictly on its right (left) — for every column `1 ≤ a ≤ 2^k − 1`.

      D, D_bound, D_perturb      a 3×3 determinant under entrywise perturbations
      gridV_in_frame             a vertex of face `h` written in the frame of face `g`
      long_col                   the sign of `[V(a,0), V(a,2^k), W]` from the exact quantity `u_a·w₃ − w₁`
-/
import S2Proofs.C04Grid.Orient

set_option linter.unusedSimpArgs false
set_option linter.unusedVariables false

namespace S2Proofs.C04Grid
open S2 S2.Pred S2.STUV S2Proofs.FloatErr
open S2Proofs.C17Err S2Proofs.C17Err.R3 S2Proofs.C12Dist2

/-! ### a determinant under perturbation (pure real) -/

/-- the determinant of the rows `x`, `y`, `z` -/
noncomputable def D (x1 x2 x3 y1 y2 y3 z1 z2 z3 : ℝ) : ℝ :=
  x1 * (y2 * z3 - y3 * z2) + x2 * (y3 * z1 - y1 * z3) + x3 * (y1 * z2 - y2 * z1)

private theorem abs3 {a b c A B C : ℝ} (ha : |a| ≤ A) (hb : |b| ≤ B) (hc : |c| ≤ C) : |a * b * c| ≤ A * B * C := by
  rw [abs_mul, abs_mul]
  have hA := le_trans (abs_nonneg _) ha
  have hB := le_trans (abs_nonneg _) hb
  exact mul_le_mul (mul_le_mul ha hb (abs_nonneg _) hA) hc (abs_nonneg _) (mul_nonneg hA hB)

theorem D_bound {x1 x2 x3 y1 y2 y3 z1 z2 z3 X Y Z : ℝ} (hx1 : |x1| ≤ X) (hx2 : |x2| ≤ X) (hx3 : |x3| ≤ X)
    (hy1 : |y1| ≤ Y) (hy2 : |y2| ≤ Y) (hy3 : |y3| ≤ Y) (hz1 : |z1| ≤ Z) (hz2 : |z2| ≤ Z) (hz3 : |z3| ≤ Z) :
    |D x1 x2 x3 y1 y2 y3 z1 z2 z3| ≤ 6 * (X * Y * Z) := by
  have t1 := abs_le.mp (abs3 hx1 hy2 hz3)
  have t2 := abs_le.mp (abs3 hx1 hy3 hz2)
  have t3 := abs_le.mp (abs3 hx2 hy3 hz1)
  have t4 := abs_le.mp (abs3 hx2 hy1 hz3)
  have t5 := abs_le.mp (abs3 hx3 hy1 hz2)
  have t6 := abs_le.mp (abs3 hx3 hy2 hz1)
  have e : D x1 x2 x3 y1 y2 y3 z1 z2 z3 = x1 * y2 * z3 - x1 * y3 * z2 + x2 * y3 * z1 - x2 * y1 * z3
      + x3 * y1 * z2 - x3 * y2 * z1 := by unfold D; ring
  rw [e, abs_le]
  constructor <;> linarith

private theorem abs_add_le' {a b A B : ℝ} (ha : |a| ≤ A) (hb : |b| ≤ B) : |a + b| ≤ A + B :=
  le_trans (abs_add_le _ _) (add_le_add ha hb)

/-- entries at most 2, perturbations at most `η ≤ 1`: the determinant moves by at most `114 η` -/
theorem D_perturb {a1 a2 a3 b1 b2 b3 c1 c2 c3 α1 α2 α3 β1 β2 β3 γ1 γ2 γ3 η : ℝ} (hη : 0 ≤ η) (hη1 : η ≤ 1)
    (ha1 : |a1| ≤ 2) (ha2 : |a2| ≤ 2) (ha3 : |a3| ≤ 2) (hb1 : |b1| ≤ 2) (hb2 : |b2| ≤ 2) (hb3 : |b3| ≤ 2)
    (hc1 : |c1| ≤ 2) (hc2 : |c2| ≤ 2) (hc3 : |c3| ≤ 2)
    (hα1 : |α1| ≤ η) (hα2 : |α2| ≤ η) (hα3 : |α3| ≤ η) (hβ1 : |β1| ≤ η) (hβ2 : |β2| ≤ η) (hβ3 : |β3| ≤ η)
    (hγ1 : |γ1| ≤ η) (hγ2 : |γ2| ≤ η) (hγ3 : |γ3| ≤ η) :
    |D (a1 + α1) (a2 + α2) (a3 + α3) (b1 + β1) (b2 + β2) (b3 + β3) (c1 + γ1) (c2 + γ2) (c3 + γ3)
      - D a1 a2 a3 b1 b2 b3 c1 c2 c3| ≤ 114 * η := by
  have e : D (a1 + α1) (a2 + α2) (a3 + α3) (b1 + β1) (b2 + β2) (b3 + β3) (c1 + γ1) (c2 + γ2) (c3 + γ3)
      - D a1 a2 a3 b1 b2 b3 c1 c2 c3
      = D α1 α2 α3 (b1 + β1) (b2 + β2) (b3 + β3) (c1 + γ1) (c2 + γ2) (c3 + γ3)
        + D a1 a2 a3 β1 β2 β3 (c1 + γ1) (c2 + γ2) (c3 + γ3) + D a1 a2 a3 b1 b2 b3 γ1 γ2 γ3 := by
    unfold D; ring
  have h3 : (2 : ℝ) + η ≤ 3 := by linarith
  have B1 := D_bound hα1 hα2 hα3 (le_trans (abs_add_le' hb1 hβ1) h3) (le_trans (abs_add_le' hb2 hβ2) h3)
    (le_trans (abs_add_le' hb3 hβ3) h3) (le_trans (abs_add_le' hc1 hγ1) h3) (le_trans (abs_add_le' hc2 hγ2) h3)
    (le_trans (abs_add_le' hc3 hγ3) h3)
  have B2 := D_bound ha1 ha2 ha3 hβ1 hβ2 hβ3 (le_trans (abs_add_le' hc1 hγ1) h3) (le_trans (abs_add_le' hc2 hγ2) h3)
    (le_trans (abs_add_le' hc3 hγ3) h3)
  have B3 := D_bound ha1 ha2 ha3 hb1 hb2 hb3 hγ1 hγ2 hγ3
  rw [e]
  refine le_trans (abs_add_le _ _) ?_
  refine le_trans (add_le_add (abs_add_le _ _) (le_refl _)) ?_
  linarith

/-! ### the two ends of a grid line -/

theorem gu_lo (k : Nat) : gu k 0 = F64.neg F64.one := by
  unfold gu; rw [Nat.zero_mul]; exact S2Proofs.C12M.stToUV_g_zero

theorem gu_hi (k : Nat) (hk : k ≤ 30) : gu k (2 ^ k) = F64.one := by
  unfold gu
  have : 2 ^ k * 2 ^ (30 - k) = 2 ^ 30 := by rw [← Nat.pow_add]; congr 1; omega
  rw [this]; exact S2Proofs.C12M.stToUV_g_one

theorem U_lo (k : Nat) : U k 0 = -1 := by
  show val (gu k 0) = -1
  rw [gu_lo, S2Proofs.FloatErr.val_neg, S2Proofs.C12Dist.VertexErr.val_one]

theorem U_hi (k : Nat) (hk : k ≤ 30) : U k (2 ^ k) = 1 := by
  show val (gu k (2 ^ k)) = 1
  rw [gu_hi k hk, S2Proofs.C12Dist.VertexErr.val_one]

/-- an interior grid coordinate is at least `2^-31` inside `(−1, 1)` -/
theorem U_interior {k a : Nat} (hk : k ≤ 30) (h1 : 1 ≤ a) (h2 : a + 1 ≤ 2 ^ k) : |U k a| ≤ 1 - 1 / 2 ^ 31 := by
  have hS := S_ge_one k
  have g1 := (U_gap hk (i := 0) (i' := a) (by omega) (by omega)).1
  have g2 := (U_gap hk (i := a) (i' := 2 ^ k) (by omega) (le_refl _)).1
  rw [U_lo] at g1
  rw [U_hi k hk] at g2
  have c1 : (1 : ℝ) ≤ (a : ℝ) - ((0 : ℕ) : ℝ) := by
    have : (1 : ℝ) ≤ a := by exact_mod_cast h1
    simpa using this
  have c2 : (1 : ℝ) ≤ ((2 ^ k : ℕ) : ℝ) - (a : ℝ) := by
    have : (a : ℝ) + 1 ≤ ((2 ^ k : ℕ) : ℝ) := by exact_mod_cast h2
    linarith
  have p : (1 : ℝ) / 2 ^ 31 ≤ 2 ^ (30 - k) / 2 ^ 31 := div_le_div_of_nonneg_right hS (by positivity)
  have p0 : (0 : ℝ) ≤ 2 ^ (30 - k) / 2 ^ 31 := by positivity
  have m1 : 1 * (2 ^ (30 - k) / 2 ^ 31) ≤ ((a : ℝ) - ((0 : ℕ) : ℝ)) * (2 ^ (30 - k) / 2 ^ 31) :=
    mul_le_mul_of_nonneg_right c1 p0
  have m2 : 1 * (2 ^ (30 - k) / 2 ^ 31) ≤ (((2 ^ k : ℕ) : ℝ) - (a : ℝ)) * (2 ^ (30 - k) / 2 ^ 31) :=
    mul_le_mul_of_nonneg_right c2 p0
  rw [abs_le]; constructor <;> linarith

/-! ### a vertex of face `h` in the frame of face `g` -/

theorem uvwC_abs_le (f : Nat) (w : R3) {m : ℝ} (hx : |w.x| ≤ m) (hy : |w.y| ≤ m) (hz : |w.z| ≤ m) :
    |(uvwC f w).x| ≤ m ∧ |(uvwC f w).y| ≤ m ∧ |(uvwC f w).z| ≤ m := by
  unfold uvwC
  split <;> simp only [abs_neg] <;> exact ⟨by assumption, by assumption, by assumption⟩

/-- the exact position of the vertex `(i, j)` of face `h`, in the `(u, v, w)` frame of face `g` -/
noncomputable def inFrame (g h k i j : Nat) : R3 := uvwC g (xyzC h ⟨U k i, U k j, 1⟩)

theorem gridV_in_frame (g h k i j : Nat) (hk : k ≤ 30) (hi : i ≤ 2 ^ k) (hj : j ≤ 2 ^ k) :
    ∃ (s : ℝ) (ν : R3), 0 < s ∧
      vecR (gridV h k i j) = comb s (xyzC g ⟨(inFrame g h k i j).x + ν.x, (inFrame g h k i j).y + ν.y,
        (inFrame g h k i j).z + ν.z⟩) 0 (xyzC g ν) ∧
      |ν.x| ≤ 1 / 2 ^ 51 ∧ |ν.y| ≤ 1 / 2 ^ 51 ∧ |ν.z| ≤ 1 / 2 ^ 51 ∧
      |(inFrame g h k i j).x| ≤ 1 ∧ |(inFrame g h k i j).y| ≤ 1 ∧ |(inFrame g h k i j).z| ≤ 1 := by
  obtain ⟨-, s, ν, hs, e, n1, n2, n3⟩ := gridV_decomp h k i j hk hi hj
  obtain ⟨m1, m2, m3⟩ := xyzC_abs_le h ν n1 n2 n3
  obtain ⟨l1, l2, l3⟩ := uvwC_abs_le g _ m1 m2 m3
  have au := U_abs_le hk hi
  have av := U_abs_le hk hj
  have a1 : |(1 : ℝ)| ≤ 1 := by norm_num
  obtain ⟨p1, p2, p3⟩ := xyzC_abs_le h ⟨U k i, U k j, 1⟩ au av a1
  obtain ⟨q1, q2, q3⟩ := uvwC_abs_le g _ p1 p2 p3
  refine ⟨s, uvwC g (xyzC h ν), hs, ?_, l1, l2, l3, q1, q2, q3⟩
  rw [e]
  have e1 : (⟨U k i + ν.x, U k j + ν.y, 1 + ν.z⟩ : R3) = comb 1 ⟨U k i, U k j, 1⟩ 1 ν := by
    unfold comb; simp only [R3.mk.injEq]; refine ⟨by ring, by ring, by ring⟩
  have e2 : (⟨(inFrame g h k i j).x + (uvwC g (xyzC h ν)).x, (inFrame g h k i j).y + (uvwC g (xyzC h ν)).y,
      (inFrame g h k i j).z + (uvwC g (xyzC h ν)).z⟩ : R3) = comb 1 (inFrame g h k i j) 1 (uvwC g (xyzC h ν)) := by
    unfold comb; simp only [R3.mk.injEq]; refine ⟨by ring, by ring, by ring⟩
  rw [e1, e2, xyzC_comb g, xyzC_comb h]
  unfold inFrame
  rw [xyzC_uvwC, xyzC_uvwC]

/-! ### the long column line of face `f` against any vertex -/

/-- the real determinant of `V_f(a,0)`, `V_f(a,2^k)` and the vertex `(i,j)` of face `h` is `s·(2(u_a·w₃ − w₁) ± 2^-44)`,
    `s > 0`, `w` = the position of the third vertex in the frame of `f` -/
theorem long_col_det (f h k : Nat) (hk : k ≤ 30) {a i j : Nat} (ha : a ≤ 2 ^ k) (hi : i ≤ 2 ^ k) (hj : j ≤ 2 ^ k) :
    ∃ s δ : ℝ, 0 < s ∧ |δ| ≤ 114 / 2 ^ 51 ∧
      (vecR (gridV f k a 0)).dot ((vecR (gridV f k a (2 ^ k))).cross (vecR (gridV h k i j)))
        = s * (2 * (U k a * (inFrame f h k i j).z - (inFrame f h k i j).x) + δ) := by
  obtain ⟨-, sA, α, hsA, eA, a1, a2, a3⟩ := gridV_decomp f k a 0 hk ha (Nat.zero_le _)
  obtain ⟨-, sB, β, hsB, eB, b1, b2, b3⟩ := gridV_decomp f k a (2 ^ k) hk ha (le_refl _)
  obtain ⟨sW, γ, hsW, eW, c1, c2, c3, w1, w2, w3⟩ := gridV_in_frame f h k i j hk hi hj
  rw [eA, eB, eW, det_frame]
  simp only
  rw [U_lo, U_hi k hk]
  set w := inFrame f h k i j with hw
  have hu := U_abs_le hk ha
  have two : ∀ {x : ℝ}, |x| ≤ 1 → |x| ≤ 2 := fun h => le_trans h (by norm_num)
  have one2 : |(1 : ℝ)| ≤ 2 := by norm_num
  have mone2 : |(-1 : ℝ)| ≤ 2 := by norm_num
  have hP := D_perturb (a1 := U k a) (a2 := -1) (a3 := 1) (b1 := U k a) (b2 := 1) (b3 := 1)
    (c1 := w.x) (c2 := w.y) (c3 := w.z) (α1 := α.x) (α2 := α.y) (α3 := α.z) (β1 := β.x) (β2 := β.y) (β3 := β.z)
    (γ1 := γ.x) (γ2 := γ.y) (γ3 := γ.z) (η := 1 / 2 ^ 51) (by positivity) (by norm_num)
    (two hu) mone2 one2 (two hu) one2 one2 (two w1) (two w2) (two w3) a1 a2 a3 b1 b2 b3 c1 c2 c3
  have hex : D (U k a) (-1) 1 (U k a) 1 1 w.x w.y w.z = 2 * (U k a * w.z - w.x) := by unfold D; ring
  rw [hex] at hP
  refine ⟨sA * sB * sW, _, mul_pos (mul_pos hsA hsB) hsW, by
    have : (114 : ℝ) * (1 / 2 ^ 51) = 114 / 2 ^ 51 := by ring
    rw [← this]; exact hP, ?_⟩
  congr 1
  unfold det9 D; ring

theorem long_col_pos (f h k : Nat) (hk : k ≤ 30) {a i j : Nat} (ha : a ≤ 2 ^ k) (hi : i ≤ 2 ^ k) (hj : j ≤ 2 ^ k)
    (hm : 1 / 2 ^ 32 ≤ U k a * (inFrame f h k i j).z - (inFrame f h k i j).x) :
    exactDecision (gridV f k a 0) (gridV f k a (2 ^ k)) (gridV h k i j) = 1 := by
  obtain ⟨s, δ, hs, hδ, e⟩ := long_col_det f h k hk ha hi hj
  apply exact_of_real_pos (fin_gridV f k hk ha (Nat.zero_le _)) (fin_gridV f k hk ha (le_refl _)) (fin_gridV h k hk hi hj)
  rw [e]
  have := abs_le.mp hδ
  have : (114 : ℝ) / 2 ^ 51 < 2 * (1 / 2 ^ 32) := by norm_num
  exact mul_pos hs (by linarith)

theorem long_col_neg (f h k : Nat) (hk : k ≤ 30) {a i j : Nat} (ha : a ≤ 2 ^ k) (hi : i ≤ 2 ^ k) (hj : j ≤ 2 ^ k)
    (hm : U k a * (inFrame f h k i j).z - (inFrame f h k i j).x ≤ -(1 / 2 ^ 32)) :
    exactDecision (gridV f k a 0) (gridV f k a (2 ^ k)) (gridV h k i j) = -1 := by
  obtain ⟨s, δ, hs, hδ, e⟩ := long_col_det f h k hk ha hi hj
  apply exact_of_real_neg (fin_gridV f k hk ha (Nat.zero_le _)) (fin_gridV f k hk ha (le_refl _)) (fin_gridV h k hk hi hj)
  rw [e]
  have := abs_le.mp hδ
  have : (114 : ℝ) / 2 ^ 51 < 2 * (1 / 2 ^ 32) := by norm_num
  exact mul_neg_of_pos_of_neg hs (by linarith)

/-! ### the long ROW line of face `f` (through `(0, b)` and `(2^k, b)`) against any vertex -/

theorem long_row_det (f h k : Nat) (hk : k ≤ 30) {b i j : Nat} (hb : b ≤ 2 ^ k) (hi : i ≤ 2 ^ k) (hj : j ≤ 2 ^ k) :
    ∃ s δ : ℝ, 0 < s ∧ |δ| ≤ 114 / 2 ^ 51 ∧
      (vecR (gridV f k 0 b)).dot ((vecR (gridV f k (2 ^ k) b)).cross (vecR (gridV h k i j)))
        = s * (2 * ((inFrame f h k i j).y - U k b * (inFrame f h k i j).z) + δ) := by
  obtain ⟨-, sA, α, hsA, eA, a1, a2, a3⟩ := gridV_decomp f k 0 b hk (Nat.zero_le _) hb
  obtain ⟨-, sB, β, hsB, eB, b1, b2, b3⟩ := gridV_decomp f k (2 ^ k) b hk (le_refl _) hb
  obtain ⟨sW, γ, hsW, eW, c1, c2, c3, w1, w2, w3⟩ := gridV_in_frame f h k i j hk hi hj
  rw [eA, eB, eW, det_frame]
  simp only
  rw [U_lo, U_hi k hk]
  set w := inFrame f h k i j with hw
  have hu := U_abs_le hk hb
  have two : ∀ {x : ℝ}, |x| ≤ 1 → |x| ≤ 2 := fun h => le_trans h (by norm_num)
  have one2 : |(1 : ℝ)| ≤ 2 := by norm_num
  have mone2 : |(-1 : ℝ)| ≤ 2 := by norm_num
  have hP := D_perturb (a1 := -1) (a2 := U k b) (a3 := 1) (b1 := 1) (b2 := U k b) (b3 := 1)
    (c1 := w.x) (c2 := w.y) (c3 := w.z) (α1 := α.x) (α2 := α.y) (α3 := α.z) (β1 := β.x) (β2 := β.y) (β3 := β.z)
    (γ1 := γ.x) (γ2 := γ.y) (γ3 := γ.z) (η := 1 / 2 ^ 51) (by positivity) (by norm_num)
    mone2 (two hu) one2 one2 (two hu) one2 (two w1) (two w2) (two w3) a1 a2 a3 b1 b2 b3 c1 c2 c3
  have hex : D (-1) (U k b) 1 1 (U k b) 1 w.x w.y w.z = 2 * (w.y - U k b * w.z) := by unfold D; ring
  rw [hex] at hP
  refine ⟨sA * sB * sW, _, mul_pos (mul_pos hsA hsB) hsW, by
    have : (114 : ℝ) * (1 / 2 ^ 51) = 114 / 2 ^ 51 := by ring
    rw [← this]; exact hP, ?_⟩
  congr 1
  unfold det9 D; ring

theorem long_row_pos (f h k : Nat) (hk : k ≤ 30) {b i j : Nat} (hb : b ≤ 2 ^ k) (hi : i ≤ 2 ^ k) (hj : j ≤ 2 ^ k)
    (hm : 1 / 2 ^ 32 ≤ (inFrame f h k i j).y - U k b * (inFrame f h k i j).z) :
    exactDecision (gridV f k 0 b) (gridV f k (2 ^ k) b) (gridV h k i j) = 1 := by
  obtain ⟨s, δ, hs, hδ, e⟩ := long_row_det f h k hk hb hi hj
  apply exact_of_real_pos (fin_gridV f k hk (Nat.zero_le _) hb) (fin_gridV f k hk (le_refl _) hb) (fin_gridV h k hk hi hj)
  rw [e]
  have := abs_le.mp hδ
  have : (114 : ℝ) / 2 ^ 51 < 2 * (1 / 2 ^ 32) := by norm_num
  exact mul_pos hs (by linarith)

theorem long_row_neg (f h k : Nat) (hk : k ≤ 30) {b i j : Nat} (hb : b ≤ 2 ^ k) (hi : i ≤ 2 ^ k) (hj : j ≤ 2 ^ k)
    (hm : (inFrame f h k i j).y - U k b * (inFrame f h k i j).z ≤ -(1 / 2 ^ 32)) :
    exactDecision (gridV f k 0 b) (gridV f k (2 ^ k) b) (gridV h k i j) = -1 := by
  obtain ⟨s, δ, hs, hδ, e⟩ := long_row_det f h k hk hb hi hj
  apply exact_of_real_neg (fin_gridV f k hk (Nat.zero_le _) hb) (fin_gridV f k hk (le_refl _) hb) (fin_gridV h k hk hi hj)
  rw [e]
  have := abs_le.mp hδ
  have : (114 : ℝ) / 2 ^ 51 < 2 * (1 / 2 ^ 32) := by norm_num
  exact mul_neg_of_pos_of_neg hs (by linarith)

/-! ### which face lies in which direction -/

/-- `h` is the neighbour of `f` beyond `u = +1` / `u = −1` / `v = +1` / `v = −1`: in the frame of `f` every point of
    face `h` has first (second) coordinate `±1` -/
def PlusU (f h : Nat) : Prop := ∀ u v : ℝ, (uvwC f (xyzC h ⟨u, v, 1⟩)).x = 1
def MinusU (f h : Nat) : Prop := ∀ u v : ℝ, (uvwC f (xyzC h ⟨u, v, 1⟩)).x = -1
def PlusV (f h : Nat) : Prop := ∀ u v : ℝ, (uvwC f (xyzC h ⟨u, v, 1⟩)).y = 1
def MinusV (f h : Nat) : Prop := ∀ u v : ℝ, (uvwC f (xyzC h ⟨u, v, 1⟩)).y = -1

theorem plusU_all : PlusU 0 1 ∧ PlusU 1 3 ∧ PlusU 2 3 ∧ PlusU 3 5 ∧ PlusU 4 5 ∧ PlusU 5 1 := by
  refine ⟨?_, ?_, ?_, ?_, ?_, ?_⟩ <;> intro u v <;> simp [uvwC, xyzC]
theorem minusU_all : MinusU 0 4 ∧ MinusU 1 0 ∧ MinusU 2 0 ∧ MinusU 3 2 ∧ MinusU 4 2 ∧ MinusU 5 4 := by
  refine ⟨?_, ?_, ?_, ?_, ?_, ?_⟩ <;> intro u v <;> simp [uvwC, xyzC]
theorem plusV_all : PlusV 0 2 ∧ PlusV 1 2 ∧ PlusV 2 4 ∧ PlusV 3 4 ∧ PlusV 4 0 ∧ PlusV 5 0 := by
  refine ⟨?_, ?_, ?_, ?_, ?_, ?_⟩ <;> intro u v <;> simp [uvwC, xyzC]
theorem minusV_all : MinusV 0 5 ∧ MinusV 1 5 ∧ MinusV 2 1 ∧ MinusV 3 1 ∧ MinusV 4 3 ∧ MinusV 5 3 := by
  refine ⟨?_, ?_, ?_, ?_, ?_, ?_⟩ <;> intro u v <;> simp [uvwC, xyzC]

/-! ### the signs -/

private theorem prod_le {x c : ℝ} (hx : |x| ≤ 1 - 1 / 2 ^ 31) (hc : |c| ≤ 1) : |x * c| ≤ 1 - 1 / 2 ^ 31 := by
  rw [abs_mul]
  have h0 := abs_nonneg x
  have : |x| * |c| ≤ |x| * 1 := mul_le_mul_of_nonneg_left hc h0
  linarith

section signs
variable (f h k : Nat) (hk : k ≤ 30)
include hk

theorem inFrame_self {i j : Nat} : inFrame f f k i j = ⟨U k i, U k j, 1⟩ := by
  unfold inFrame; rw [uvwC_xyzC]

theorem inFrame_z_le {i j : Nat} (hi : i ≤ 2 ^ k) (hj : j ≤ 2 ^ k) : |(inFrame f h k i j).z| ≤ 1 := by
  obtain ⟨_, _, _, _, _, _, _, _, _, h3⟩ := gridV_in_frame f h k i j hk hi hj; exact h3

/-- a vertex of the same face left of column `a` -/
theorem col_left {a i j : Nat} (ha : a ≤ 2 ^ k) (hj : j ≤ 2 ^ k) (hia : i < a) :
    exactDecision (gridV f k a 0) (gridV f k a (2 ^ k)) (gridV f k i j) = 1 := by
  refine long_col_pos f f k hk ha (by omega) hj ?_
  rw [inFrame_self f k hk]; simp only
  have g := (U_gap hk hia ha).1
  have hS := S_ge_one k
  have c : (1 : ℝ) ≤ (a : ℝ) - i := by
    have : (i : ℝ) + 1 ≤ a := by exact_mod_cast hia
    linarith
  have p : (1 : ℝ) / 2 ^ 31 ≤ 2 ^ (30 - k) / 2 ^ 31 := div_le_div_of_nonneg_right hS (by positivity)
  have : 1 * (2 ^ (30 - k) / 2 ^ 31) ≤ ((a : ℝ) - i) * (2 ^ (30 - k) / 2 ^ 31) :=
    mul_le_mul_of_nonneg_right c (by positivity)
  have : (1 : ℝ) / 2 ^ 32 ≤ 1 / 2 ^ 31 := by norm_num
  linarith

theorem col_right {a i j : Nat} (hi : i ≤ 2 ^ k) (hj : j ≤ 2 ^ k) (hia : a < i) :
    exactDecision (gridV f k a 0) (gridV f k a (2 ^ k)) (gridV f k i j) = -1 := by
  refine long_col_neg f f k hk (by omega) hi hj ?_
  rw [inFrame_self f k hk]; simp only
  have g := (U_gap hk hia hi).1
  have hS := S_ge_one k
  have c : (1 : ℝ) ≤ (i : ℝ) - a := by
    have : (a : ℝ) + 1 ≤ i := by exact_mod_cast hia
    linarith
  have p : (1 : ℝ) / 2 ^ 31 ≤ 2 ^ (30 - k) / 2 ^ 31 := div_le_div_of_nonneg_right hS (by positivity)
  have : 1 * (2 ^ (30 - k) / 2 ^ 31) ≤ ((i : ℝ) - a) * (2 ^ (30 - k) / 2 ^ 31) :=
    mul_le_mul_of_nonneg_right c (by positivity)
  have : (1 : ℝ) / 2 ^ 32 ≤ 1 / 2 ^ 31 := by norm_num
  linarith

/-- every vertex of the `+u` neighbour is right of every interior column line -/
theorem col_plusU (hd : PlusU f h) {a i j : Nat} (h1 : 1 ≤ a) (h2 : a + 1 ≤ 2 ^ k) (hi : i ≤ 2 ^ k) (hj : j ≤ 2 ^ k) :
    exactDecision (gridV f k a 0) (gridV f k a (2 ^ k)) (gridV h k i j) = -1 := by
  refine long_col_neg f h k hk (by omega) hi hj ?_
  have hx : (inFrame f h k i j).x = 1 := hd _ _
  have hp := abs_le.mp (prod_le (U_interior hk h1 h2) (inFrame_z_le f h k hk hi hj))
  have : (1 : ℝ) / 2 ^ 32 ≤ 1 / 2 ^ 31 := by norm_num
  rw [hx]; linarith

/-- every vertex of the `−u` neighbour is left of every interior column line -/
theorem col_minusU (hd : MinusU f h) {a i j : Nat} (h1 : 1 ≤ a) (h2 : a + 1 ≤ 2 ^ k) (hi : i ≤ 2 ^ k) (hj : j ≤ 2 ^ k) :
    exactDecision (gridV f k a 0) (gridV f k a (2 ^ k)) (gridV h k i j) = 1 := by
  refine long_col_pos f h k hk (by omega) hi hj ?_
  have hx : (inFrame f h k i j).x = -1 := hd _ _
  have hp := abs_le.mp (prod_le (U_interior hk h1 h2) (inFrame_z_le f h k hk hi hj))
  have : (1 : ℝ) / 2 ^ 32 ≤ 1 / 2 ^ 31 := by norm_num
  rw [hx]; linarith

/-- a vertex of the same face above row `b` is LEFT of the row line `(0,b) → (2^k,b)` -/
theorem row_above {b i j : Nat} (hi : i ≤ 2 ^ k) (hj : j ≤ 2 ^ k) (hbj : b < j) :
    exactDecision (gridV f k 0 b) (gridV f k (2 ^ k) b) (gridV f k i j) = 1 := by
  refine long_row_pos f f k hk (by omega) hi hj ?_
  rw [inFrame_self f k hk]; simp only
  have g := (U_gap hk hbj hj).1
  have hS := S_ge_one k
  have c : (1 : ℝ) ≤ (j : ℝ) - b := by
    have : (b : ℝ) + 1 ≤ j := by exact_mod_cast hbj
    linarith
  have p : (1 : ℝ) / 2 ^ 31 ≤ 2 ^ (30 - k) / 2 ^ 31 := div_le_div_of_nonneg_right hS (by positivity)
  have : 1 * (2 ^ (30 - k) / 2 ^ 31) ≤ ((j : ℝ) - b) * (2 ^ (30 - k) / 2 ^ 31) :=
    mul_le_mul_of_nonneg_right c (by positivity)
  have : (1 : ℝ) / 2 ^ 32 ≤ 1 / 2 ^ 31 := by norm_num
  linarith

theorem row_below {b i j : Nat} (hb : b ≤ 2 ^ k) (hi : i ≤ 2 ^ k) (hjb : j < b) :
    exactDecision (gridV f k 0 b) (gridV f k (2 ^ k) b) (gridV f k i j) = -1 := by
  refine long_row_neg f f k hk hb hi (by omega) ?_
  rw [inFrame_self f k hk]; simp only
  have g := (U_gap hk hjb hb).1
  have hS := S_ge_one k
  have c : (1 : ℝ) ≤ (b : ℝ) - j := by
    have : (j : ℝ) + 1 ≤ b := by exact_mod_cast hjb
    linarith
  have p : (1 : ℝ) / 2 ^ 31 ≤ 2 ^ (30 - k) / 2 ^ 31 := div_le_div_of_nonneg_right hS (by positivity)
  have : 1 * (2 ^ (30 - k) / 2 ^ 31) ≤ ((b : ℝ) - j) * (2 ^ (30 - k) / 2 ^ 31) :=
    mul_le_mul_of_nonneg_right c (by positivity)
  have : (1 : ℝ) / 2 ^ 32 ≤ 1 / 2 ^ 31 := by norm_num
  linarith

theorem row_plusV (hd : PlusV f h) {b i j : Nat} (h1 : 1 ≤ b) (h2 : b + 1 ≤ 2 ^ k) (hi : i ≤ 2 ^ k) (hj : j ≤ 2 ^ k) :
    exactDecision (gridV f k 0 b) (gridV f k (2 ^ k) b) (gridV h k i j) = 1 := by
  refine long_row_pos f h k hk (by omega) hi hj ?_
  have hx : (inFrame f h k i j).y = 1 := hd _ _
  have hp := abs_le.mp (prod_le (U_interior hk h1 h2) (inFrame_z_le f h k hk hi hj))
  have : (1 : ℝ) / 2 ^ 32 ≤ 1 / 2 ^ 31 := by norm_num
  rw [hx]; linarith

theorem row_minusV (hd : MinusV f h) {b i j : Nat} (h1 : 1 ≤ b) (h2 : b + 1 ≤ 2 ^ k) (hi : i ≤ 2 ^ k) (hj : j ≤ 2 ^ k) :
    exactDecision (gridV f k 0 b) (gridV f k (2 ^ k) b) (gridV h k i j) = -1 := by
  refine long_row_neg f h k hk (by omega) hi hj ?_
  have hx : (inFrame f h k i j).y = -1 := hd _ _
  have hp := abs_le.mp (prod_le (U_interior hk h1 h2) (inFrame_z_le f h k hk hi hj))
  have : (1 : ℝ) / 2 ^ 32 ≤ 1 / 2 ^ 31 := by norm_num
  rw [hx]; linarith

end signs

end S2Proofs.C04Grid
