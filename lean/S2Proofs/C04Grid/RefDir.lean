/-
  C04Grid.RefDir — the reference direction `s2Ortho a = (a × temp).Normalize()` of a unit-ish float vector is finite and
  not `==` to the vector: `PtOK a` for every finite `a` with `| |a| − 1 | ≤ 2^-40`; in particular for every cell vertex.

  Ingredients: c16acc's `vcross_facts` (float cross product, norm-wise error) and `scaleSpec` (Normalize), c06face's
  `largest_cases`.  `a × temp` has a component of magnitude `≥ (63/64)·max|a_i| ≥ 0.55` (temp has a `1` in a coordinate
  where `a` is NOT largest and entries `≤ 2^-6` elsewhere), so the normalisation is harmless; and the result is
  perpendicular to `a` up to `2^-38`, so it cannot be `==` to `a`.
-/
import S2Proofs.C04Grid.Vertex
import S2Proofs.C06Face.Normal
import S2Proofs.C16Acc.ProjGlue
import S2Proofs.Properties.C04_Tiling

set_option linter.unusedSimpArgs false
set_option linter.unusedVariables false

namespace S2Proofs.C04Grid
open S2 S2.Contain S2.Exact S2Proofs.FloatErr S2Proofs.F64Order S2Proofs.C16Acc

theorem fin_gridV' (f k i j : Nat) (hk : k ≤ 30) (hi : i ≤ 2 ^ k) (hj : j ≤ 2 ^ k) : Fin3 (gridV f k i j) :=
  (gridV_decomp f k i j hk hi hj).1

theorem ofV_eq_of_feq {a b : V3} (ha : Fin3 a) (hb : Fin3 b) (h : V3.feq a b = true) : ofV a = ofV b := by
  have e := (v3feq_iff ha hb).1 h
  have e1 : toInt a.x = toInt b.x := congrArg IV3.x e
  have e2 : toInt a.y = toInt b.y := congrArg IV3.y e
  have e3 : toInt a.z = toInt b.z := congrArg IV3.z e
  unfold ofV
  rw [(S2Proofs.C12Dist.VertexErr.val_eq_iff _ _).2 e1, (S2Proofs.C12Dist.VertexErr.val_eq_iff _ _).2 e2,
    (S2Proofs.C12Dist.VertexErr.val_eq_iff _ _).2 e3]

private theorem tiny1000 : (1 : ℝ) / 2 ^ 1000 ≤ 1 / 2 ^ 60 :=
  one_div_le_one_div_of_le (by positivity) (pow_le_pow_right₀ (by norm_num) (by norm_num))

/-- the core: `a` unit-ish, `t` of norm ≤ 2, `|a × t| ≥ 0.55` ⇒ `(a × t).Normalize()` is finite and not `==` a -/
theorem ortho_core (a t : V3) (ha : Fin3 a) (ht : Fin3 t)
    (hlen1 : 1 - 1 / 2 ^ 40 ≤ (ofV a).norm) (hlen2 : (ofV a).norm ≤ 1 + 1 / 2 ^ 40) (tn : (ofV t).norm ≤ 2)
    (hbig : 11 / 20 ≤ (R3.cross (ofV a) (ofV t)).norm) :
    Fin3 (a.cross t).normalize ∧ V3.feq a (a.cross t).normalize = false := by
  have hu0 := uR_nonneg
  set A := ofV a with hA
  set T := ofV t with hT
  set X := R3.cross A T with hX
  have An2 : A.norm ≤ 2 := le_trans hlen2 (by norm_num)
  obtain ⟨a1, a2, a3⟩ := R3.abs_comp_le_norm A
  obtain ⟨t1, t2, t3⟩ := R3.abs_comp_le_norm T
  have a1' : |val a.x| ≤ A.norm := a1
  have a2' : |val a.y| ≤ A.norm := a2
  have a3' : |val a.z| ≤ A.norm := a3
  have t1' : |val t.x| ≤ T.norm := t1
  have t2' : |val t.y| ≤ T.norm := t2
  have t3' : |val t.z| ≤ T.norm := t3
  have ma : |val a.x| ≤ 5 ∧ |val a.y| ≤ 5 ∧ |val a.z| ≤ 5 := ⟨by linarith, by linarith, by linarith⟩
  have mt : |val t.x| ≤ 5 ∧ |val t.y| ≤ 5 ∧ |val t.z| ≤ 5 := ⟨by linarith, by linarith, by linarith⟩
  obtain ⟨fc, herr⟩ := ProjGlue.vcross_facts a t ha ht ma mt
  set c := a.cross t with hc
  set C := ofV c with hC
  have hAT : A.norm * T.norm ≤ 4 := by
    have := mul_le_mul An2 tn (R3.norm_nonneg _) (by norm_num)
    linarith
  have hXn : X.norm ≤ 4 := le_trans (R3.norm_cross_le A T) hAT
  have hE : (R3.sub C X).norm ≤ 1 / 2 ^ 40 := by
    refine le_trans herr ?_
    have h1 : (uR + uR ^ 2) * (14143 / 10000) * (A.norm * T.norm) ≤ (uR + uR ^ 2) * (14143 / 10000) * 4 :=
      mul_le_mul_of_nonneg_left hAT (by positivity)
    have h2 : uR * X.norm ≤ uR * 4 := mul_le_mul_of_nonneg_left hXn hu0
    have h3 : (uR + uR ^ 2) * (14143 / 10000) * 4 + uR * 4 + 1 / 2 ^ 60 ≤ 1 / 2 ^ 40 := by unfold uR; norm_num
    have := tiny1000
    linarith
  have hClo : 1 / 2 ≤ C.norm := by
    have := R3.norm_le_add_sub X C
    rw [R3.norm_sub_comm] at this
    have : (11 : ℝ) / 20 - 1 / 2 ^ 40 ≥ 1 / 2 := by norm_num
    linarith
  have hChi : C.norm ≤ 5 := by
    have := R3.norm_le_add_sub C X
    have : (1 : ℝ) / 2 ^ 40 ≤ 1 := by norm_num
    linarith
  obtain ⟨c1, c2, c3⟩ := R3.abs_comp_le_norm C
  have p14 : (5 : ℝ) ≤ 2 ^ 14 := by norm_num
  have m1 : |val c.x| ≤ 2 ^ 14 := le_trans (show |val c.x| ≤ C.norm from c1) (le_trans hChi p14)
  have m2 : |val c.y| ≤ 2 ^ 14 := le_trans (show |val c.y| ≤ C.norm from c2) (le_trans hChi p14)
  have m3 : |val c.z| ≤ 2 ^ 14 := le_trans (show |val c.z| ≤ C.norm from c3) (le_trans hChi p14)
  obtain ⟨fn, herr2⟩ := norm2_wide c fc ⟨m1, m2, m3⟩
  have hS : 1 / 4 ≤ C.norm2 := by
    rw [← R3.norm_sq]; nlinarith
  have hn2' : 1 / 16 ≤ val c.norm2 := by
    have hρ := rhoU_le3
    have hρ2 : rhoU uR ≤ 1 / 2 := le_trans hρ (by unfold uR; norm_num)
    have h1' := mul_le_mul_of_nonneg_right hρ2 (le_trans (by norm_num) hS : (0 : ℝ) ≤ _)
    have h2 := S2Proofs.C12Dist.VertexErr.four_eR_le_u
    have h3 : uR / 1000 ≤ 1 / 16 := by unfold uR; norm_num
    have hb := abs_le.mp herr2
    linarith
  have hlo : 1 / 2 ^ 1022 ≤ val c.norm2 :=
    le_trans (one_div_le_one_div_of_le (by norm_num)
      (le_trans (by norm_num : (16 : ℝ) ≤ 2 ^ 4) (pow_le_pow_right₀ (by norm_num) (by norm_num)))) hn2'
  have hfeq : F64.feq c.norm2 (F64.zero false) = false := by
    cases h : F64.feq c.norm2 (F64.zero false)
    · rfl
    · exfalso
      have h1 := (F64Order.feq_iff fn (zero_val false).1).1 h
      have h2 := (S2Proofs.C12Dist.VertexErr.val_eq_iff _ _).2 h1
      rw [S2Proofs.C12Dist.VertexErr.val_zero] at h2
      linarith
  rw [normalize_eq c hfeq]
  obtain ⟨_, _, fq, _, _, s, ν, hs0, hsn, heq, hν⟩ := scaleSpec c fc m1 m2 m3 hlo
  refine ⟨fq, ?_⟩
  cases hq : V3.feq a (c.mul (F64.one / F64.sqrt c.norm2))
  · rfl
  · exfalso
    have e := ofV_eq_of_feq ha fq hq
    rw [heq] at e
    -- A = s (C + ν)
    have hdot : A.norm2 = s * (R3.dot A (R3.sub C X) + R3.dot A ν) := by
      have h0 : R3.dot A X = 0 := by rw [hX]; unfold R3.dot R3.cross; ring
      have h1 : A.norm2 = R3.dot A (R3.smul s (R3.add C ν)) := by
        rw [R3.norm2_eq_dot]; congr 1
      rw [h1]
      have : R3.dot A (R3.smul s (R3.add C ν)) = s * (R3.dot A (R3.sub C X) + R3.dot A X + R3.dot A ν) := by
        unfold R3.dot R3.smul R3.add R3.sub; ring
      rw [this, h0]; ring
    have b1 : R3.dot A (R3.sub C X) ≤ A.norm * (1 / 2 ^ 40) :=
      le_trans (R3.dot_le _ _) (mul_le_mul_of_nonneg_left hE (R3.norm_nonneg _))
    have b2 : R3.dot A ν ≤ A.norm * ν.norm := R3.dot_le _ _
    have hApos : 0 < A.norm := lt_of_lt_of_le (by norm_num) hlen1
    have hsC := abs_le.mp hsn
    have h8 : 8 * uR ≤ 1 / 2 := by unfold uR; norm_num
    have hs3 : s ≤ 3 := by
      have : s * (1 / 2) ≤ s * C.norm := mul_le_mul_of_nonneg_left hClo hs0.le
      linarith
    have hδ : uR + 1 / 2 ^ 500 ≤ 1 / 2 ^ 52 := by
      have := S2Proofs.C12Dist2.delta_small
      have : (1 + 1 / 1000) * uR ≤ 1 / 2 ^ 52 := by unfold uR; norm_num
      linarith
    have hsν : s * ν.norm ≤ 1 / 2 ^ 51 := by
      have h1 : s * ν.norm ≤ s * ((uR + 1 / 2 ^ 500) * C.norm) := mul_le_mul_of_nonneg_left hν hs0.le
      have h2 : s * ((uR + 1 / 2 ^ 500) * C.norm) = (uR + 1 / 2 ^ 500) * (s * C.norm) := by ring
      have h3 : (uR + 1 / 2 ^ 500) * (s * C.norm) ≤ (1 / 2 ^ 52) * 2 :=
        mul_le_mul hδ (by linarith) (mul_nonneg hs0.le (R3.norm_nonneg _)) (by norm_num)
      have : (1 : ℝ) / 2 ^ 52 * 2 = 1 / 2 ^ 51 := by norm_num
      linarith
    -- A.norm ≤ s (E + |ν|)
    have hkey : A.norm * A.norm ≤ A.norm * (s * (1 / 2 ^ 40) + s * ν.norm) := by
      rw [R3.norm_mul_self, hdot]
      have : s * (R3.dot A (R3.sub C X) + R3.dot A ν) ≤ s * (A.norm * (1 / 2 ^ 40) + A.norm * ν.norm) :=
        mul_le_mul_of_nonneg_left (by linarith) hs0.le
      calc _ ≤ s * (A.norm * (1 / 2 ^ 40) + A.norm * ν.norm) := this
        _ = _ := by ring
    have hle : A.norm ≤ s * (1 / 2 ^ 40) + s * ν.norm := le_of_mul_le_mul_left hkey hApos
    have : s * (1 / 2 ^ 40) ≤ 3 * (1 / 2 ^ 40) := mul_le_mul_of_nonneg_right hs3 (by positivity)
    have : (3 : ℝ) * (1 / 2 ^ 40) + 1 / 2 ^ 51 < 1 - 1 / 2 ^ 40 := by norm_num
    linarith

/-! ### the three branches of `s2Ortho` -/

def t0 : F64 := ⟨0x3f889374bc6a7efa⟩
def t1 : F64 := ⟨0x3f75b573eab367a1⟩
def t2 : F64 := ⟨0x3f72b7fe08aefb2b⟩

theorem s2Ortho_eq0 {a : V3} (h : a.largestComponent = 0) : s2Ortho a = (a.cross ⟨t0, t1, F64.one⟩).normalize := by
  unfold s2Ortho; rw [h]; rfl
theorem s2Ortho_eq1 {a : V3} (h : a.largestComponent = 1) : s2Ortho a = (a.cross ⟨F64.one, t1, t2⟩).normalize := by
  unfold s2Ortho; rw [h]; rfl
theorem s2Ortho_eq2 {a : V3} (h : a.largestComponent = 2) : s2Ortho a = (a.cross ⟨t0, F64.one, t2⟩).normalize := by
  unfold s2Ortho; rw [h]; rfl

private theorem small_lit {x : F64} (h : 0 ≤ toInt x ∧ toInt x ≤ 2 ^ 1068) : 0 ≤ val x ∧ val x ≤ 1 / 64 := by
  obtain ⟨h0, h1⟩ := h
  have c0 : (0 : ℝ) ≤ (toInt x : ℝ) := by exact_mod_cast h0
  have c1 : (toInt x : ℝ) ≤ 2 ^ 1068 := by exact_mod_cast h1
  have e : (2 : ℝ) ^ 1074 = 2 ^ 1068 * 2 ^ 6 := by rw [← pow_add]
  have hp : (0 : ℝ) < 2 ^ 1068 := pow_pos (by norm_num) _
  unfold val
  constructor
  · exact div_nonneg c0 (pow_nonneg (by norm_num) _)
  · rw [e, div_le_iff₀ (mul_pos hp (by norm_num))]
    have : (1 : ℝ) / 64 * (2 ^ 1068 * 2 ^ 6) = 2 ^ 1068 := by ring
    rw [this]; exact c1

theorem t0_small : 0 ≤ val t0 ∧ val t0 ≤ 1 / 64 := small_lit (by decide +kernel)
theorem t1_small : 0 ≤ val t1 ∧ val t1 ≤ 1 / 64 := small_lit (by decide +kernel)
theorem t2_small : 0 ≤ val t2 ∧ val t2 ≤ 1 / 64 := small_lit (by decide +kernel)
theorem t_fin : Fin t0 ∧ Fin t1 ∧ Fin t2 ∧ Fin F64.one := by decide +kernel

/-- one component of the cross product is large -/
private theorem comp_big {p q r w τ : ℝ} (hq : |q| ≤ |p|) (hr : |r| ≤ |p|) (hw : |w| ≤ |p|)
    (hn : (1 - 1 / 2 ^ 40) ^ 2 ≤ p ^ 2 + q ^ 2 + r ^ 2) (hτ0 : 0 ≤ τ) (hτ : τ ≤ 1 / 64) :
    11 / 20 ≤ |w * τ - p * 1| := by
  have hp2 : p ^ 2 = |p| ^ 2 := (sq_abs p).symm
  have hq2 : q ^ 2 ≤ |p| ^ 2 := by rw [← sq_abs q]; exact pow_le_pow_left₀ (abs_nonneg _) hq 2
  have hr2 : r ^ 2 ≤ |p| ^ 2 := by rw [← sq_abs r]; exact pow_le_pow_left₀ (abs_nonneg _) hr 2
  have hm : (57 : ℝ) / 100 ≤ |p| := by
    by_contra hc
    have hc := not_le.mp hc
    have : |p| ^ 2 < (57 / 100) ^ 2 := pow_lt_pow_left₀ hc (abs_nonneg _) (by norm_num)
    have : (3 : ℝ) * (57 / 100) ^ 2 < (1 - 1 / 2 ^ 40) ^ 2 := by norm_num
    linarith
  have h1 : |w * τ| ≤ |p| * (1 / 64) := by
    rw [abs_mul, abs_of_nonneg hτ0]
    exact mul_le_mul hw hτ hτ0 (abs_nonneg _)
  have h2 : |p| - |w * τ| ≤ |w * τ - p * 1| := by
    have := abs_sub_abs_le_abs_sub (p * 1) (w * τ)
    rw [abs_sub_comm (p * 1)] at this
    simpa using this
  linarith

private theorem temp_norm {x y z : ℝ} (hx : |x| ≤ 1) (hy : |y| ≤ 1) (hz : |z| ≤ 1) : (R3.mk x y z).norm ≤ 2 := by
  apply R3.norm_le_of_sq (by norm_num)
  unfold R3.norm2
  have := abs_le.mp hx; have := abs_le.mp hy; have := abs_le.mp hz
  simp only
  nlinarith

/-- **a finite float vector whose length is within `2^-40` of 1 has a usable reference direction** -/
theorem ptOK_of_unitish (a : V3) (ha : Fin3 a) (h1 : 1 - 1 / 2 ^ 40 ≤ (ofV a).norm)
    (h2 : (ofV a).norm ≤ 1 + 1 / 2 ^ 40) : S2Proofs.C04.PtOK a := by
  have v1 : val F64.one = 1 := S2Proofs.C12Dist.VertexErr.val_one
  obtain ⟨f0, f1, f2, fone⟩ := t_fin
  obtain ⟨p0, q0⟩ := t0_small
  obtain ⟨p1, q1⟩ := t1_small
  obtain ⟨p2, q2⟩ := t2_small
  have hn : (1 - 1 / 2 ^ 40) ^ 2 ≤ (ofV a).norm2 := by
    rw [← R3.norm_sq]; exact pow_le_pow_left₀ (by norm_num) h1 2
  have ab : ∀ {τ : ℝ}, 0 ≤ τ → τ ≤ 1 / 64 → |τ| ≤ 1 := fun h0 h => by rw [abs_of_nonneg h0]; linarith
  have one1 : |(1 : ℝ)| ≤ 1 := by norm_num
  rcases S2Proofs.C06Face.largest_cases a ha with ⟨hl, b1, b2⟩ | ⟨hl, b1, b2⟩ | ⟨hl, b1, b2⟩
  · -- x largest: component y of the cross product
    have tn : (ofV (⟨t0, t1, F64.one⟩ : V3)).norm ≤ 2 := by
      unfold ofV; simp only [v1]; exact temp_norm (ab p0 q0) (ab p1 q1) one1
    have hbig : 11 / 20 ≤ (R3.cross (ofV a) (ofV (⟨t0, t1, F64.one⟩ : V3))).norm := by
      refine le_trans ?_ (R3.abs_comp_le_norm _).2.1
      have := comp_big (p := val a.x) (q := val a.y) (r := val a.z) (w := val a.z) (τ := val t0) b1 b2 b2
        (by unfold ofV R3.norm2 at hn; exact hn) p0 q0
      unfold R3.cross ofV; simp only [v1]; exact this
    have := ortho_core a ⟨t0, t1, F64.one⟩ ha ⟨f0, f1, fone⟩ h1 h2 tn hbig
    rw [← s2Ortho_eq0 hl] at this
    exact ⟨ha, this.1, this.2⟩
  · -- y largest: component z
    have tn : (ofV (⟨F64.one, t1, t2⟩ : V3)).norm ≤ 2 := by
      unfold ofV; simp only [v1]; exact temp_norm one1 (ab p1 q1) (ab p2 q2)
    have hbig : 11 / 20 ≤ (R3.cross (ofV a) (ofV (⟨F64.one, t1, t2⟩ : V3))).norm := by
      refine le_trans ?_ (R3.abs_comp_le_norm _).2.2
      have := comp_big (p := val a.y) (q := val a.x) (r := val a.z) (w := val a.x) (τ := val t1) b1 b2 b1
        (by unfold ofV R3.norm2 at hn; simp only at hn; linarith) p1 q1
      unfold R3.cross ofV; simp only [v1]; exact this
    have := ortho_core a ⟨F64.one, t1, t2⟩ ha ⟨fone, f1, f2⟩ h1 h2 tn hbig
    rw [← s2Ortho_eq1 hl] at this
    exact ⟨ha, this.1, this.2⟩
  · -- z largest: component x
    have tn : (ofV (⟨t0, F64.one, t2⟩ : V3)).norm ≤ 2 := by
      unfold ofV; simp only [v1]; exact temp_norm (ab p0 q0) one1 (ab p2 q2)
    have hbig : 11 / 20 ≤ (R3.cross (ofV a) (ofV (⟨t0, F64.one, t2⟩ : V3))).norm := by
      refine le_trans ?_ (R3.abs_comp_le_norm _).1
      have := comp_big (p := val a.z) (q := val a.x) (r := val a.y) (w := val a.y) (τ := val t2) b1 b2 b2
        (by unfold ofV R3.norm2 at hn; simp only at hn; linarith) p2 q2
      unfold R3.cross ofV; simp only [v1]; exact this
    have := ortho_core a ⟨t0, F64.one, t2⟩ ha ⟨f0, fone, f2⟩ h1 h2 tn hbig
    rw [← s2Ortho_eq2 hl] at this
    exact ⟨ha, this.1, this.2⟩

/-! ### the cell vertices -/

open S2.STUV S2Proofs.C12Dist2 S2Proofs.C12M in
/-- the float vertex `(i, j)` of every face and level has length within `10u` of 1 -/
theorem gridV_len (f k i j : Nat) (hk : k ≤ 30) (hi : i ≤ 2 ^ k) (hj : j ≤ 2 ^ k) :
    |(ofV (gridV f k i j)).norm - 1| ≤ 10 * uR := by
  have fu : F64Order.Fin (gu k i) := fin_stToUV_g _ (idx_le hk hi)
  have fv : F64Order.Fin (gu k j) := fin_stToUV_g _ (idx_le hk hj)
  set x := faceUVToXYZ f (gu k i) (gu k j) with hxdef
  have hx : F64Order.Fin3 x := fin3_faceUVToXYZ f fu fv
  have hraw : S2Proofs.C17Err.vecR x = xyzC f ⟨U k i, U k j, 1⟩ := vecR_faceUVToXYZ f _ _
  have au := U_abs_le hk hi
  have av := U_abs_le hk hj
  have a1 : |(1 : ℝ)| ≤ 1 := by norm_num
  obtain ⟨b1, b2, b3⟩ := xyzC_abs_le f ⟨U k i, U k j, 1⟩ au av a1
  rw [← hraw] at b1 b2 b3
  have p14 : (1 : ℝ) ≤ 2 ^ 14 := by norm_num
  have hn2 : (S2Proofs.C17Err.vecR x).n2 = U k i * U k i + U k j * U k j + 1 := by
    rw [hraw, xyzC_n2]; unfold S2Proofs.C17Err.R3.n2 S2Proofs.C17Err.R3.dot; ring
  have h1 : 1 ≤ (S2Proofs.C17Err.vecR x).n2 := by
    rw [hn2]; nlinarith [mul_self_nonneg (U k i), mul_self_nonneg (U k j)]
  obtain ⟨-, -, hl, -⟩ := normalize_dir x hx (le_trans b1 p14) (le_trans b2 p14) (le_trans b3 p14) h1
  rw [vecR_len_acc] at hl
  exact hl

/-- **every cell vertex has a usable reference direction** (`PtOK`), every face, every level -/
theorem ptOK_gridV (f k i j : Nat) (hk : k ≤ 30) (hi : i ≤ 2 ^ k) (hj : j ≤ 2 ^ k) :
    S2Proofs.C04.PtOK (gridV f k i j) := by
  have h := abs_le.mp (gridV_len f k i j hk hi hj)
  have hu : 10 * uR ≤ 1 / 2 ^ 40 := by unfold uR; norm_num
  exact ptOK_of_unitish _ (fin_gridV' f k i j hk hi hj) (by linarith) (by linarith)

end S2Proofs.C04Grid
