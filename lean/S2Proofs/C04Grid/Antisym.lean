/-
  C04Grid.Antisym — the float `stToUV` is antisymmetric on the grid: `stToUV(1 − s) = −stToUV(s)` up to the sign of a
  zero (`F64Sym2.R`), for every grid point `s = m/2^30`; at `s = 1/2` both sides are zeros (`+0` and `−0`: the ±0 twin).
  Hence `gu k (2^k − i)` is `−gu k i` up to the sign of zero (`gu_R`): the boundary vertices of two faces along a
  common cube edge are Go-`==` (`Properties/C04_Grid.lean` §3b).
-/
import S2Proofs.C04Grid.CrossFace
import S2Proofs.F64Sym2
import S2Proofs.F64Inj

set_option linter.unusedSimpArgs false
set_option linter.unusedVariables false

namespace S2Proofs.C04Grid
open S2 S2.STUV S2.Exact S2Proofs.F64Sym2 S2Proofs.C12M

/-- `1 − g(m') = g(m)` bit for bit, `m + m' = 2^30`, `m > 0` -/
theorem one_sub_g {m m' : Nat} (hm : m + m' = 2 ^ 30) (hpos : 0 < m) : F64.one - g m' = g m := by
  obtain ⟨fg', tg'⟩ := g_spec m' (by omega)
  obtain ⟨fg, tg⟩ := g_spec m (by omega)
  have e : toInt F64.one - toInt (g m') = (m : Int) * 2 ^ 1044 := by
    rw [S2Proofs.F64Round.toInt_one, tg']
    have : (2 : Int) ^ 1074 = 2 ^ 30 * 2 ^ 1044 := by rw [← pow_add]
    rw [this]
    have : ((m : Int) + m') = 2 ^ 30 := by exact_mod_cast hm
    rw [← this]; ring
  have hm53 : (m : Int).natAbs < 2 ^ 53 := by
    have : m ≤ 2 ^ 30 := by omega
    simp only [Int.natAbs_natCast]
    exact lt_of_le_of_lt this (by norm_num)
  obtain ⟨fs, vs⟩ := sub_exact fin_one fg' (by rw [e]; exact rep_mul_two_pow _ _ hm53) (by
    rw [e, natAbs_mul_two_pow]
    have g1 : (m : Int).natAbs * 2 ^ 1044 < 2 ^ 53 * 2 ^ 1044 :=
      Nat.mul_lt_mul_of_pos_right hm53 (Nat.two_pow_pos _)
    have g2 : (2 : Nat) ^ 53 * 2 ^ 1044 = 2 ^ 1097 := by rw [← Nat.pow_add]
    have g3 : (2 : Nat) ^ 1097 < 2 ^ 2098 := Nat.pow_lt_pow_right (by decide) (by decide)
    omega)
  -- equal values, finite, non-zero ⇒ equal bits
  have ht : toInt (F64.one - g m') = toInt (g m) := by
    have hv : S2Proofs.F64Round.val (F64.one - g m') = S2Proofs.F64Round.val (g m) := by
      show S2Proofs.F64Round.val (F64.sub F64.one (g m')) = _
      rw [vs]
      unfold S2Proofs.F64Round.val
      rw [S2Proofs.F64Round.toInt_one, tg', tg]
      have : ((m : ℚ) + m') = 2 ^ 30 := by exact_mod_cast hm
      have e2 : (2 : ℚ) ^ 1074 = 2 ^ 30 * 2 ^ 1044 := by rw [← pow_add]
      push_cast
      rw [e2, ← this]; ring
    exact S2Proofs.F64Round.val_eq_iff.1 hv
  have z0 : toInt (F64.zero true) = 0 := by decide
  have hne : toInt (g m) ≠ 0 := by
    rw [tg]
    have : (0 : Int) < (m : Int) * 2 ^ 1044 := mul_pos (by exact_mod_cast hpos) (by positivity)
    omega
  exact S2Proofs.F64Inj.toInt_inj ht (fun h0 => hne (by rw [← ht, h0, z0])) (fun h0 => hne (by rw [h0, z0]))

/-- **antisymmetry of the float `stToUV` on the grid** -/
theorem stToUV_R {m m' : Nat} (hm : m + m' = 2 ^ 30) : R (stToUV (g m')) (stToUV (g m)) := by
  have key : ∀ {a b : Nat}, a + b = 2 ^ 30 → 2 ^ 29 < a → R (stToUV (g b)) (stToUV (g a)) := by
    intro a b hab ha
    rw [stToUV_pos_eq a (by omega) (by omega), stToUV_neg_eq b (by omega), one_sub_g hab (by omega)]
    exact mul_R_right (Z.refl _) (sub_swap_all _ _)
  rcases Nat.lt_trichotomy m (2 ^ 29) with h | h | h
  · exact (key (by omega : m' + m = 2 ^ 30) (by omega)).symm
  · have : m' = 2 ^ 29 := by omega
    rw [this, h, stToUV_g_half]
    exact Z_of_zero (by decide) (by decide)
  · exact key hm h

/-- `gu k (2^k − i)` is `−gu k i` up to the sign of a zero -/
theorem gu_R (k : Nat) (hk : k ≤ 30) {i i' : Nat} (h : i + i' = 2 ^ k) : R (gu k i') (gu k i) := by
  unfold gu
  apply stToUV_R
  have : 2 ^ k * 2 ^ (30 - k) = 2 ^ 30 := by rw [← Nat.pow_add]; congr 1; omega
  rw [← Nat.add_mul, h, this]

/-- `−gu k (2^k − i)` and `gu k i` are the same float up to the sign of a zero -/
theorem neg_gu_Z (k : Nat) (hk : k ≤ 30) {i i' : Nat} (h : i + i' = 2 ^ k) : Z (-(gu k i')) (gu k i) := by
  have := neg_Z (gu_R k hk h)
  rwa [S2Proofs.F64Sym.neg_neg] at this

end S2Proofs.C04Grid
