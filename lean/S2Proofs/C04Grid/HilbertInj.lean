/-
  C04Grid.HilbertInj — two cells of the same level and face with the same ij-square `(I, J)` (`prefixState`) are the same
  cell id: the Hilbert digits are determined step by step by `(I, J)` (each `posToIJ[o]` is a permutation), and a cell id is
  its face, its digits and the trailing `1 0…0`.
-/
import S2Proofs.C12.HilbertSpec
import S2Proofs.CellIDLemmas

set_option linter.unusedSimpArgs false
set_option linter.unusedVariables false

namespace S2Proofs.C04Grid
open S2 S2.CellID S2.Hilbert S2Proofs.C12H

private theorem bits_le : ∀ o < 4, ∀ d < 4, posToIJ[o]![d]! >>> 1 ≤ 1 ∧ posToIJ[o]![d]! &&& 1 ≤ 1 := by decide

private theorem digit_of_bits : ∀ o < 4, ∀ d < 4, ∀ d' < 4, posToIJ[o]![d]! >>> 1 = posToIJ[o]![d']! >>> 1 →
    posToIJ[o]![d]! &&& 1 = posToIJ[o]![d']! &&& 1 → d = d' := by decide

/-- equal `(I, J)` at level `k` ⇒ equal orientation and equal digits below `k` -/
theorem prefix_inj {x y : CellID} (hf : face x = face y) (k : Nat)
    (h1 : (prefixState x k).1 = (prefixState y k).1) (h2 : (prefixState x k).2.1 = (prefixState y k).2.1) :
    (prefixState x k).2.2 = (prefixState y k).2.2 ∧ ∀ t, t < k → digit x t = digit y t := by
  induction k with
  | zero =>
    refine ⟨?_, fun t ht => absurd ht (Nat.not_lt_zero _)⟩
    rw [prefixState_zero, prefixState_zero, hf]
  | succ k ih =>
    rw [prefixState_succ, prefixState_succ] at h1 h2 ⊢
    obtain ⟨-, -, ho⟩ := prefixState_bounds x k
    obtain ⟨-, -, ho'⟩ := prefixState_bounds y k
    have hd := digit_lt x k
    have hd' := digit_lt y k
    obtain ⟨b1, c1⟩ := bits_le _ ho _ hd
    obtain ⟨b2, c2⟩ := bits_le _ ho' _ hd'
    simp only [stepSpec] at h1 h2 ⊢
    obtain ⟨io, dg⟩ := ih (by omega) (by omega)
    rw [← io] at h1 h2 b2 c2 ⊢
    have hdd : digit x k = digit y k := digit_of_bits _ ho _ hd _ hd' (by omega) (by omega)
    refine ⟨by rw [hdd], fun t ht => ?_⟩
    rcases Nat.lt_succ_iff_lt_or_eq.mp ht with h | h
    · exact dg t h
    · rw [h]; exact hdd

private theorem face_div (x : CellID) : face x = x.toNat / 2 ^ 61 := by
  unfold face
  rw [UInt64.toNat_shiftRight, Nat.shiftRight_eq_div_pow]
  rfl

/-- equal face and equal digits below `k` ⇒ equal leading bits -/
theorem high_bits_eq {x y : CellID} (hf : face x = face y) (k : Nat) (hk : k ≤ 30)
    (hd : ∀ t, t < k → digit x t = digit y t) : x.toNat / 2 ^ (61 - 2 * k) = y.toNat / 2 ^ (61 - 2 * k) := by
  induction k with
  | zero => rw [← face_div, ← face_div]; exact hf
  | succ k ih =>
    have ih' := ih (by omega) (fun t ht => hd t (by omega))
    have e1 : 61 - 2 * (k + 1) = 59 - 2 * k := by omega
    have e2 : (2 : Nat) ^ (61 - 2 * k) = 2 ^ (59 - 2 * k) * 4 := by
      rw [show 61 - 2 * k = (59 - 2 * k) + 2 by omega, Nat.pow_add]
    rw [e1]
    rw [e2, ← Nat.div_div_eq_div_mul, ← Nat.div_div_eq_div_mul] at ih'
    have dx := digit_eq x k
    have dy := digit_eq y k
    have := hd k (Nat.lt_succ_self k)
    omega

/-- **two cells of the same level and face with the same ij-square are the same cell** -/
theorem cell_eq_of_ij {x y : CellID} {n : Nat} (hx : IsCell x n) (hy : IsCell y n) (hf : face x = face y)
    (h1 : (prefixState x n).1 = (prefixState y n).1) (h2 : (prefixState x n).2.1 = (prefixState y n).2.1) : x = y := by
  obtain ⟨-, hd⟩ := prefix_inj hf n h1 h2
  have hq := high_bits_eq hf n hx.k_le hd
  have lx := hx.low
  have ly := hy.low
  have : x.toNat = y.toNat := by
    have ex := Nat.div_add_mod x.toNat (2 ^ (61 - 2 * n))
    have ey := Nat.div_add_mod y.toNat (2 ^ (61 - 2 * n))
    rw [lx] at ex
    rw [ly, ← hq] at ey
    omega
  exact UInt64.toNat_inj.mp this

end S2Proofs.C04Grid
