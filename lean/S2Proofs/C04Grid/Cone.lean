/-
  C04 — one face as a grid, second version: `ConeHyp`.

  c04tiling2's `GridHyp` asks, for the top edge of a cell, that EVERY grid vertex two or more rows above it is on the
  outer side of the great circle through the edge — also vertices arbitrarily far to the left or right.  For the real
  `Cell.Vertex` arrays this is FALSE at high levels (see `Properties/C04_Grid.lean`, `gridHyp_false_level30`): the two
  endpoints of a level-30 edge are 2^-30 apart and carry independent rounding errors of 2^-53, so the great circle through
  them is tilted by up to 2^-22 and, half a face away, misses the grid line by 2^-22 ≫ a cell width.
  `ConeHyp` restricts the three families to vertices inside the cone of slope one around the edge (horizontal offset
  beyond the edge at most vertical distance + 1): there the tilt moves the circle by at most 2^-22 cell widths.  This is
  still enough for `edgeSep` of every pair of cells: a far pair is separated by the edge that faces the larger of the two
  index distances.
-/
import S2Proofs.Properties.C04_Tiling2_Grid
namespace S2Proofs.C04
open S2 S2.Contain S2.Pred S2.Exact S2Proofs.Contain S2Proofs.F64Order S2Proofs.ExactLaws

/-- convex cells, and the orientations of a grid vertex against an edge line, for vertices at least one full cell
    away from the line and inside the slope-one cone around the edge -/
structure ConeHyp (V : Nat → Nat → V3) (n : Nat) : Prop where
  ok : ∀ i j, i < n → j < n → (gcell V i j).OK
  top : ∀ i j a b, i < n → j < n → a ≤ n → b ≤ n → j + 2 ≤ b → a + j ≤ i + b + 1 → i + j ≤ a + b →
    exactDecision (V (i + 1) (j + 1)) (V i (j + 1)) (V a b) = -1
  bot : ∀ i j a b, i < n → j < n → a ≤ n → b ≤ n → b + 1 ≤ j → a + b ≤ i + j + 2 → i + b ≤ a + j + 1 →
    exactDecision (V i j) (V (i + 1) j) (V a b) = -1
  right : ∀ i j a b, i < n → j < n → a ≤ n → b ≤ n → i + 2 ≤ a → b + i ≤ j + a + 1 → j + i ≤ b + a →
    exactDecision (V (i + 1) j) (V (i + 1) (j + 1)) (V a b) = -1

/-- `GridHyp` is the stronger hypothesis -/
theorem GridHyp.cone {V : Nat → Nat → V3} {n : Nat} (h : GridHyp V n) : ConeHyp V n where
  ok := h.ok
  top := fun i j a b hi hj ha hb h1 _ _ => h.top i j a b hi hj ha hb h1
  bot := fun i j a b hi hj ha hb h1 _ _ => h.bot i j a b hi hj ha hb h1
  right := fun i j a b hi hj ha hb h1 _ _ => h.right i j a b hi hj ha hb h1

section cone
variable {V : Nat → Nat → V3} {n : Nat}

private theorem gverts' {i j : Nat} {y : V3} (hy : y ∈ (gcell V i j).verts) :
    y = V i j ∨ y = V (i + 1) j ∨ y = V (i + 1) (j + 1) ∨ y = V i (j + 1) := by
  simpa [Q4.verts, gcell] using hy

/-- **Every two cells of the grid are edge-separated**, from `ConeHyp` alone. -/
theorem cone_pair_edgeSep_exact (h : ConeHyp V n) {i j i' j' : Nat} (hi : i < n) (hj : j < n) (hi' : i' < n)
    (hj' : j' < n) (hlt : i < i' ∨ (i = i' ∧ j < j')) :
    edgeSep (gcell V i j) (gcell V i' j') = true := by
  have hq := h.ok i j hi hj
  have hq' := h.ok i' j' hi' hj'
  -- the top edge, when the row distance is ≥ 2 and at least the column distance
  have farTop : j + 2 ≤ j' → i ≤ i' → i' + j ≤ i + j' →
      edgeSep (gcell V i j) (gcell V i' j') = true := by
    intro hjj hii hc
    refine far_edgeSep_exact hq (e := (V (i + 1) (j + 1), V i (j + 1))) (by simp [Q4.edges, gcell])
      (fun y hy => ?_)
    rcases gverts' hy with rfl | rfl | rfl | rfl <;>
      (rw [h.top i j _ _ hi hj (by omega) (by omega) (by omega) (by omega) (by omega)]; decide)
  have farBot : j' + 2 ≤ j → i ≤ i' → i' + j' ≤ i + j →
      edgeSep (gcell V i j) (gcell V i' j') = true := by
    intro hjj hii hc
    refine far_edgeSep_exact hq (e := (V i j, V (i + 1) j)) (by simp [Q4.edges, gcell]) (fun y hy => ?_)
    rcases gverts' hy with rfl | rfl | rfl | rfl <;>
      (rw [h.bot i j _ _ hi hj (by omega) (by omega) (by omega) (by omega) (by omega)]; decide)
  have farRight : i + 2 ≤ i' → j' + i + 1 ≤ j + i' ∨ j' ≤ j + 1 → j + i + 1 ≤ j' + i' ∨ j ≤ j' + 1 →
      edgeSep (gcell V i j) (gcell V i' j') = true := by
    intro hii c1 c2
    refine far_edgeSep_exact hq (e := (V (i + 1) j, V (i + 1) (j + 1))) (by simp [Q4.edges, gcell])
      (fun y hy => ?_)
    rcases gverts' hy with rfl | rfl | rfl | rfl <;>
      (rw [h.right i j _ _ hi hj (by omega) (by omega) (by omega) (by omega) (by omega)]; decide)
  rcases hlt with hlt | ⟨rfl, hlt⟩
  · by_cases t1 : j + 2 ≤ j' ∧ i' + j ≤ i + j'
    · exact farTop t1.1 (by omega) t1.2
    by_cases t2 : j' + 2 ≤ j ∧ i' + j' ≤ i + j
    · exact farBot t2.1 (by omega) t2.2
    by_cases hfar : i + 2 ≤ i'
    · exact farRight hfar (by omega) (by omega)
    · obtain rfl : i' = i + 1 := by omega
      by_cases c2 : j' = j + 1
      · subst c2
        -- diagonal
        refine diagonal_edgeSep_exact hq hq' (feq_refl hq.2.2.1) ?_ ?_ ?_ ?_
        · exact h.top i j (i + 1 + 1) (j + 1 + 1) hi hj (by omega) (by omega) (by omega) (by omega) (by omega)
        · exact h.top i j (i + 1) (j + 1 + 1) hi hj (by omega) (by omega) (by omega) (by omega) (by omega)
        · exact h.bot (i + 1) (j + 1) i j hi' hj' (by omega) (by omega) (by omega) (by omega) (by omega)
        · exact h.bot (i + 1) (j + 1) (i + 1) j hi' hj' (by omega) (by omega) (by omega) (by omega) (by omega)
      by_cases c3 : j' = j
      · subst c3
        exact shared_edge_edgeSep_exact (a := V (i + 1) j') (b := V (i + 1) (j' + 1)) (a' := V (i + 1) j')
          (b' := V (i + 1) (j' + 1)) hq hq' (by simp [Q4.edges, gcell]) (by simp [Q4.edges, gcell])
          (feq_refl hq.2.1) (feq_refl hq.2.2.1)
      · obtain rfl : j = j' + 1 := by omega
        -- anti-diagonal
        refine antidiagonal_edgeSep_exact hq hq' (feq_refl hq.2.1) ?_ ?_ ?_ ?_
        · exact h.bot i (j' + 1) (i + 1) j' hi hj (by omega) (by omega) (by omega) (by omega) (by omega)
        · exact h.bot i (j' + 1) (i + 1 + 1) j' hi hj (by omega) (by omega) (by omega) (by omega) (by omega)
        · exact h.top (i + 1) j' (i + 1) (j' + 1 + 1) hi' hj' (by omega) (by omega) (by omega) (by omega) (by omega)
        · exact h.top (i + 1) j' i (j' + 1 + 1) hi' hj' (by omega) (by omega) (by omega) (by omega) (by omega)
  · by_cases c1 : j + 2 ≤ j'
    · exact farTop c1 (le_refl _) (by omega)
    · obtain rfl : j' = j + 1 := by omega
      exact shared_edge_edgeSep_exact (a := V (i + 1) (j + 1)) (b := V i (j + 1)) (a' := V (i + 1) (j + 1))
        (b' := V i (j + 1)) hq hq' (by simp [Q4.edges, gcell]) (by simp [Q4.edges, gcell])
        (feq_refl hq.2.2.1) (feq_refl hq.2.2.2.1)

private theorem pairwiseB_of_pairwise' {α : Type} {r : α → α → Bool} {l : List α}
    (h : l.Pairwise (fun a b => r a b = true)) : pairwiseB r l = true := by
  induction l with
  | nil => rfl
  | cons a l ih =>
    rw [List.pairwise_cons] at h
    simp only [pairwiseB, Bool.and_eq_true, List.all_eq_true]
    exact ⟨h.1, ih h.2⟩

/-- the separation certificate of the whole grid -/
theorem cone_edgeSepAll_exact (h : ConeHyp V n) : edgeSepAll (gridCells V n) = true := by
  apply pairwiseB_of_pairwise'
  unfold gridCells
  rw [List.pairwise_flatMap]
  constructor
  · intro i hi
    rw [List.pairwise_map]
    refine List.Pairwise.imp_of_mem ?_ (List.pairwise_lt_range (n := n))
    intro j j' hj hj' hlt
    exact cone_pair_edgeSep_exact h (List.mem_range.1 hi) (List.mem_range.1 hj) (List.mem_range.1 hi)
      (List.mem_range.1 hj') (Or.inr ⟨rfl, hlt⟩)
  · refine List.Pairwise.imp_of_mem ?_ (List.pairwise_lt_range (n := n))
    intro i i' hi hi' hlt x hx y hy
    obtain ⟨j, hj, rfl⟩ := List.mem_map.1 hx
    obtain ⟨j', hj', rfl⟩ := List.mem_map.1 hy
    exact cone_pair_edgeSep_exact h (List.mem_range.1 hi) (List.mem_range.1 hj) (List.mem_range.1 hi')
      (List.mem_range.1 hj') (Or.inl hlt)

/-- **The cell loops of one face at one level: at most one contains p**, for every point that is not `==` to a grid
    vertex — GIVEN `ConeHyp`. -/
theorem cone_cells_count_le_one_exact {o p : V3} (h : ConeHyp V n) (hd : FamilyDom o (gridCells V n) p) :
    containCount o ((gridCells V n).map (Q4.loop o)) p ≤ 1 :=
  cells_count_le_one_exact hd (cone_edgeSepAll_exact h)

end cone
/-! ## the general assembly lemma: ANY pairwise exclusion gives count ≤ 1

  `cells_count_le_one_exact` wants a separator among the eight edges of each pair; for cells on different faces the
  natural separators are other great circles (long grid lines, `Properties/C04_Grid.lean` §3c).  Whatever the argument,
  pairwise "no common inner point at p" is all the count needs. -/

private theorem filter_le_one {α : Type} (f : α → Bool) (l : List α)
    (h : l.Pairwise (fun a b => ¬ (f a = true ∧ f b = true))) : (l.filter f).length ≤ 1 := by
  induction l with
  | nil => simp
  | cons a l ih =>
    rw [List.pairwise_cons] at h
    cases ha : f a
    · rw [List.filter_cons_of_neg (by simp [ha])]; exact ih h.2
    · have : l.filter f = [] := by
        rw [List.filter_eq_nil_iff]
        intro b hb hfb
        exact h.1 b hb ⟨ha, hfb⟩
      rw [List.filter_cons_of_pos (by simp [ha]), this]; simp

/-- **at most one cell loop of a family contains p, if no two cells of the family have p as a common inner point** -/
theorem cells_count_le_one_of_disjoint {o p : V3} {cells : List Q4} (hd : FamilyDom o cells p)
    (hpw : cells.Pairwise (fun q q' => ¬ (q.inner p = true ∧ q'.inner p = true))) :
    containCount o (cells.map (Q4.loop o)) p ≤ 1 := by
  rw [containCount_cells_exact hd]
  exact filter_le_one _ _ hpw

end S2Proofs.C04
