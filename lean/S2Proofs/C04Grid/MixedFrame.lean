/-
  C04Grid.MixedFrame — the LOCAL margin lemma across faces (tool for the open case "both cells within two cells of the
  common cube edge"): a SHORT edge of face `f` along a grid line against a vertex of ANY face `h`, written in the frame of
  `f` (`inFrame f h k i j = w`, homogeneous: the third coordinate `w.z` need not be 1).

      vertical edge  `(c, jA) → (c, jB)` :  the determinant has the sign of `(v_B − v_A)·(u_c·w.z − w.x)`
      horizontal edge `(iA, c) → (iB, c)`:  the sign of `(u_B − u_A)·(w.y − v_c·w.z)`
  provided the exact quantity `m = u_c·w.z − w.x` (resp. `w.y − v_c·w.z`) is at least `2^-32` in magnitude and the third
  vertex is within `2^12·|m|` of the first endpoint in all three homogeneous coordinates (the cone).
-/
import S2Proofs.C04Grid.CrossFace

set_option linter.unusedSimpArgs false
set_option linter.unusedVariables false

namespace S2Proofs.C04Grid
open S2 S2.Pred S2.STUV S2Proofs.FloatErr
open S2Proofs.C17Err S2Proofs.C17Err.R3 S2Proofs.C12Dist2

private theorem mul_abs_le' {a b A B : ℝ} (ha : |a| ≤ A) (hb : |b| ≤ B) : |a * b| ≤ A * B := by
  rw [abs_mul]; exact mul_le_mul ha hb (abs_nonneg _) (le_trans (abs_nonneg _) ha)

private theorem same_sign' {p d c : ℝ} (h : |p - d| ≤ c) (hc : c < |d|) : 0 < p * d := by
  have := abs_le.mp h
  rcases lt_or_ge d 0 with hd | hd
  · rw [abs_of_neg hd] at hc
    exact mul_pos_of_neg_of_neg (by linarith) hd
  · rw [abs_of_nonneg hd] at hc
    exact mul_pos (by linarith) (by linarith)

/-- vertical short edge, third row arbitrary but within `L`: the main term is `p2·(x·q3 − z·q1)` -/
theorem det_vert {x y z p1 p2 p3 q1 q2 q3 e L : ℝ} (he : 0 ≤ e) (hL : 0 ≤ L)
    (hx : |x| ≤ 2) (hy : |y| ≤ 2) (hz : |z| ≤ 2) (hp1 : |p1| ≤ e) (hp3 : |p3| ≤ e)
    (hq1 : |q1| ≤ L) (hq2 : |q2| ≤ L) (hq3 : |q3| ≤ L)
    (hmain : 16 * e * L < |p2 * (x * q3 - z * q1)|) :
    0 < (p2 * (x * q3 - z * q1)) * det9 x y z p1 p2 p3 q1 q2 q3 := by
  set S := p2 * (x * q3 - z * q1) with hS
  set r := -(x * (p3 * q2)) + y * (p3 * q1) - y * (p1 * q3) + z * (p1 * q2) with hr
  have e1 : det9 x y z p1 p2 p3 q1 q2 q3 = S + r := by simp only [det9, hS, hr]; ring
  have t1 := abs_le.mp (mul_abs_le' hx (mul_abs_le' hp3 hq2))
  have t2 := abs_le.mp (mul_abs_le' hy (mul_abs_le' hp3 hq1))
  have t3 := abs_le.mp (mul_abs_le' hy (mul_abs_le' hp1 hq3))
  have t4 := abs_le.mp (mul_abs_le' hz (mul_abs_le' hp1 hq2))
  have hrb : |r| ≤ 8 * e * L := by
    rw [abs_le]; constructor <;> (simp only [hr]; linarith)
  have hSpos : 0 < |S| := lt_of_le_of_lt (by positivity) hmain
  rw [e1]
  have h1 : S * (S + r) = S * S + S * r := by ring
  have h2 : S * S = |S| * |S| := (abs_mul_abs_self S).symm
  have h3 : -(|S| * (8 * e * L)) ≤ S * r := by
    have : |S * r| ≤ |S| * (8 * e * L) := mul_abs_le' (le_refl _) hrb
    exact le_trans (neg_le_neg this) (neg_abs_le _)
  have h4 : 0 < |S| * (|S| - 8 * e * L) := mul_pos hSpos (by nlinarith [mul_nonneg he hL])
  rw [h1, h2]; linarith

/-- horizontal short edge: the main term is `p1·(z·q2 − y·q3)` -/
theorem det_horiz {x y z p1 p2 p3 q1 q2 q3 e L : ℝ} (he : 0 ≤ e) (hL : 0 ≤ L)
    (hx : |x| ≤ 2) (hy : |y| ≤ 2) (hz : |z| ≤ 2) (hp2 : |p2| ≤ e) (hp3 : |p3| ≤ e)
    (hq1 : |q1| ≤ L) (hq2 : |q2| ≤ L) (hq3 : |q3| ≤ L)
    (hmain : 16 * e * L < |p1 * (z * q2 - y * q3)|) :
    0 < (p1 * (z * q2 - y * q3)) * det9 x y z p1 p2 p3 q1 q2 q3 := by
  have hm' : 16 * e * L < |p1 * (y * q3 - z * q2)| := by
    have : p1 * (y * q3 - z * q2) = -(p1 * (z * q2 - y * q3)) := by ring
    rw [this, abs_neg]; exact hmain
  have h := det_vert (x := y) (y := x) (z := z) (p1 := p2) (p2 := p1) (p3 := p3) (q1 := q2) (q2 := q1) (q3 := q3)
    he hL hy hx hz hp2 hp3 hq2 hq1 hq3 hm'
  have e : det9 y x z p2 p1 p3 q2 q1 q3 = - det9 x y z p1 p2 p3 q1 q2 q3 := by unfold det9; ring
  rw [e] at h
  have : p1 * (y * q3 - z * q2) * -det9 x y z p1 p2 p3 q1 q2 q3
      = p1 * (z * q2 - y * q3) * det9 x y z p1 p2 p3 q1 q2 q3 := by ring
  rw [this] at h; exact h

private theorem small2 {a b : ℝ} (ha : |a| ≤ 1 / 2 ^ 51) (hb : |b| ≤ 1 / 2 ^ 51) : |b - a| ≤ 1 / 2 ^ 50 := by
  have := abs_le.mp ha
  have := abs_le.mp hb
  rw [abs_le]; constructor <;> norm_num at * <;> linarith

/-- pure real core, vertical edge `A = (uc, vA, 1)`, `B = (uc, vB, 1)`, third point `(w1, w2, w3)` homogeneous, all nine
    coordinates perturbed by at most `2^-51` -/
theorem core_vert_mixed {uc vA vB w1 w2 w3 a1 a2 a3 b1 b2 b3 c1 c2 c3 L : ℝ}
    (ha1 : |a1| ≤ 1 / 2 ^ 51) (ha2 : |a2| ≤ 1 / 2 ^ 51) (ha3 : |a3| ≤ 1 / 2 ^ 51)
    (hb1 : |b1| ≤ 1 / 2 ^ 51) (hb2 : |b2| ≤ 1 / 2 ^ 51) (hb3 : |b3| ≤ 1 / 2 ^ 51)
    (hc1 : |c1| ≤ 1 / 2 ^ 51) (hc2 : |c2| ≤ 1 / 2 ^ 51) (hc3 : |c3| ≤ 1 / 2 ^ 51)
    (hu : |uc| ≤ 1) (hvA : |vA| ≤ 1) (hw1 : |w1| ≤ 1) (hw3 : |w3| ≤ 1)
    (hAB : 1 / 2 ^ 31 ≤ |vB - vA|) (hm : 1 / 2 ^ 32 ≤ |uc * w3 - w1|)
    (hL1 : |w1 - uc| ≤ L) (hL2 : |w2 - vA| ≤ L) (hL3 : |w3 - 1| ≤ L) (hcone : L ≤ 2 ^ 12 * |uc * w3 - w1|) :
    0 < (vB - vA) * (uc * w3 - w1) *
      det9 (uc + a1) (vA + a2) (1 + a3) ((uc + b1) - (uc + a1)) ((vB + b2) - (vA + a2)) ((1 + b3) - (1 + a3))
        ((w1 + c1) - (uc + a1)) ((w2 + c2) - (vA + a2)) ((w3 + c3) - (1 + a3)) := by
  set m := uc * w3 - w1 with hmdef
  have hL0 : 0 ≤ L := le_trans (abs_nonneg _) hL1
  have hm0 : 0 < |m| := lt_of_lt_of_le (by positivity) hm
  have ex := abs_le.mp ha1
  have ey := abs_le.mp ha2
  have ez := abs_le.mp ha3
  have bu := abs_le.mp hu
  have bv := abs_le.mp hvA
  have hx2 : |uc + a1| ≤ 2 := by rw [abs_le]; constructor <;> linarith [(by norm_num : (1 : ℝ) / 2 ^ 51 ≤ 1)]
  have hy2 : |vA + a2| ≤ 2 := by rw [abs_le]; constructor <;> linarith [(by norm_num : (1 : ℝ) / 2 ^ 51 ≤ 1)]
  have hz2 : |1 + a3| ≤ 2 := by rw [abs_le]; constructor <;> linarith [(by norm_num : (1 : ℝ) / 2 ^ 51 ≤ 1)]
  have hp1 : |(uc + b1) - (uc + a1)| ≤ 1 / 2 ^ 50 := by
    have : (uc + b1) - (uc + a1) = b1 - a1 := by ring
    rw [this]; exact small2 ha1 hb1
  have hp3 : |(1 + b3) - (1 + a3)| ≤ 1 / 2 ^ 50 := by
    have : (1 + b3) - (1 + a3) = b3 - a3 := by ring
    rw [this]; exact small2 ha3 hb3
  set p2 := (vB + b2) - (vA + a2) with hp2def
  have hp2 : |p2 - (vB - vA)| ≤ 1 / 2 ^ 50 := by
    have : p2 - (vB - vA) = b2 - a2 := by rw [hp2def]; ring
    rw [this]; exact small2 ha2 hb2
  have hq1 : |(w1 + c1) - (uc + a1)| ≤ L + 1 / 2 ^ 50 := by
    have : (w1 + c1) - (uc + a1) = (w1 - uc) + (c1 - a1) := by ring
    rw [this]; exact le_trans (abs_add_le _ _) (add_le_add hL1 (small2 ha1 hc1))
  have hq2 : |(w2 + c2) - (vA + a2)| ≤ L + 1 / 2 ^ 50 := by
    have : (w2 + c2) - (vA + a2) = (w2 - vA) + (c2 - a2) := by ring
    rw [this]; exact le_trans (abs_add_le _ _) (add_le_add hL2 (small2 ha2 hc2))
  have hq3 : |(w3 + c3) - (1 + a3)| ≤ L + 1 / 2 ^ 50 := by
    have : (w3 + c3) - (1 + a3) = (w3 - 1) + (c3 - a3) := by ring
    rw [this]; exact le_trans (abs_add_le _ _) (add_le_add hL3 (small2 ha3 hc3))
  set M := (uc + a1) * ((w3 + c3) - (1 + a3)) - (1 + a3) * ((w1 + c1) - (uc + a1)) with hM
  have hMm : |M - m| ≤ 1 / 2 ^ 48 := by
    have e : M - m = uc * c3 + a1 * w3 + a1 * c3 - c1 - a3 * w1 - a3 * c1 := by rw [hM, hmdef]; ring
    rw [e]
    have k1 := abs_le.mp (mul_abs_le' hu hc3)
    have k2 := abs_le.mp (mul_abs_le' ha1 hw3)
    have k3 := abs_le.mp (mul_abs_le' ha1 hc3)
    have k4 := abs_le.mp (mul_abs_le' ha3 hw1)
    have k5 := abs_le.mp (mul_abs_le' ha3 hc1)
    have gx := abs_le.mp hc1
    have n1 : (1 : ℝ) * (1 / 2 ^ 51) + 1 / 2 ^ 51 * 1 + 1 / 2 ^ 51 * (1 / 2 ^ 51) + 1 / 2 ^ 51 + 1 / 2 ^ 51 * 1
        + 1 / 2 ^ 51 * (1 / 2 ^ 51) ≤ 1 / 2 ^ 48 := by norm_num
    rw [abs_le]; constructor <;> linarith
  have hMabs : |m| / 2 ≤ |M| := by
    have := abs_sub_abs_le_abs_sub m M
    rw [abs_sub_comm] at hMm
    have : (1 : ℝ) / 2 ^ 48 ≤ (1 / 2 ^ 32) / 2 := by norm_num
    linarith
  have hp2abs : 1 / 2 ^ 32 ≤ |p2| := by
    have := abs_sub_abs_le_abs_sub (vB - vA) p2
    rw [abs_sub_comm] at hp2
    have : (1 : ℝ) / 2 ^ 31 - 1 / 2 ^ 50 ≥ 1 / 2 ^ 32 := by norm_num
    linarith
  have hmain : 16 * (1 / 2 ^ 50) * (L + 1 / 2 ^ 50) < |p2 * M| := by
    rw [abs_mul]
    have hb : (1 / 2 ^ 32) * (|m| / 2) ≤ |p2| * |M| := mul_le_mul hp2abs hMabs (by positivity) (abs_nonneg _)
    have hc2 : L + 1 / 2 ^ 50 ≤ 2 ^ 12 * |m| + 1 / 2 ^ 50 := by linarith
    have : 16 * (1 / 2 ^ 50) * (2 ^ 12 * |m| + 1 / 2 ^ 50) < (1 / 2 ^ 32) * (|m| / 2) := by
      have e1 : (16 : ℝ) * (1 / 2 ^ 50) * (2 ^ 12 * |m| + 1 / 2 ^ 50) = |m| / 2 ^ 34 + 1 / 2 ^ 96 := by ring
      have e2 : (1 : ℝ) / 2 ^ 32 * (|m| / 2) = |m| / 2 ^ 33 := by ring
      rw [e1, e2]
      have : (1 : ℝ) / 2 ^ 96 < (1 / 2 ^ 32) / 2 ^ 34 := by norm_num
      have : (1 / 2 ^ 32 : ℝ) / 2 ^ 34 ≤ |m| / 2 ^ 34 := div_le_div_of_nonneg_right hm (by positivity)
      have : |m| / 2 ^ 33 = |m| / 2 ^ 34 + |m| / 2 ^ 34 := by ring
      linarith
    have hmono : 16 * (1 / 2 ^ 50) * (L + 1 / 2 ^ 50) ≤ 16 * (1 / 2 ^ 50) * (2 ^ 12 * |m| + 1 / 2 ^ 50) :=
      mul_le_mul_of_nonneg_left hc2 (by positivity)
    linarith
  have core := det_vert (e := 1 / 2 ^ 50) (L := L + 1 / 2 ^ 50) (by positivity) (by positivity) hx2 hy2 hz2 hp1 hp3
    hq1 hq2 hq3 hmain
  have s1 : 0 < p2 * (vB - vA) := same_sign' hp2 (by
    have : (1 : ℝ) / 2 ^ 50 < 1 / 2 ^ 31 := by norm_num
    linarith)
  have s2 : 0 < M * m := same_sign' hMm (by
    have : (1 : ℝ) / 2 ^ 48 < 1 / 2 ^ 32 := by norm_num
    linarith)
  set Dd := det9 (uc + a1) (vA + a2) (1 + a3) ((uc + b1) - (uc + a1)) p2 ((1 + b3) - (1 + a3))
    ((w1 + c1) - (uc + a1)) ((w2 + c2) - (vA + a2)) ((w3 + c3) - (1 + a3)) with hDd
  have hpos := mul_pos (mul_pos core s1) s2
  have e : (p2 * M * Dd) * (p2 * (vB - vA)) * (M * m) = (p2 * M) ^ 2 * ((vB - vA) * m * Dd) := by ring
  rw [e] at hpos
  rcases le_or_gt ((vB - vA) * m * Dd) 0 with h0 | h0
  · exfalso
    have := mul_nonpos_of_nonneg_of_nonpos (sq_nonneg (p2 * M)) h0
    linarith
  · exact h0

/-- horizontal edge `A = (uA, vc, 1)`, `B = (uB, vc, 1)` -/
theorem core_horiz_mixed {uA uB vc w1 w2 w3 a1 a2 a3 b1 b2 b3 c1 c2 c3 L : ℝ}
    (ha1 : |a1| ≤ 1 / 2 ^ 51) (ha2 : |a2| ≤ 1 / 2 ^ 51) (ha3 : |a3| ≤ 1 / 2 ^ 51)
    (hb1 : |b1| ≤ 1 / 2 ^ 51) (hb2 : |b2| ≤ 1 / 2 ^ 51) (hb3 : |b3| ≤ 1 / 2 ^ 51)
    (hc1 : |c1| ≤ 1 / 2 ^ 51) (hc2 : |c2| ≤ 1 / 2 ^ 51) (hc3 : |c3| ≤ 1 / 2 ^ 51)
    (hu : |uA| ≤ 1) (hv : |vc| ≤ 1) (hw2 : |w2| ≤ 1) (hw3 : |w3| ≤ 1)
    (hAB : 1 / 2 ^ 31 ≤ |uB - uA|) (hm : 1 / 2 ^ 32 ≤ |w2 - vc * w3|)
    (hL1 : |w1 - uA| ≤ L) (hL2 : |w2 - vc| ≤ L) (hL3 : |w3 - 1| ≤ L) (hcone : L ≤ 2 ^ 12 * |w2 - vc * w3|) :
    0 < (uB - uA) * (w2 - vc * w3) *
      det9 (uA + a1) (vc + a2) (1 + a3) ((uB + b1) - (uA + a1)) ((vc + b2) - (vc + a2)) ((1 + b3) - (1 + a3))
        ((w1 + c1) - (uA + a1)) ((w2 + c2) - (vc + a2)) ((w3 + c3) - (1 + a3)) := by
  have hm' : 1 / 2 ^ 32 ≤ |vc * w3 - w2| := by rw [abs_sub_comm]; exact hm
  have hcone' : L ≤ 2 ^ 12 * |vc * w3 - w2| := by rw [abs_sub_comm]; exact hcone
  have h := core_vert_mixed (uc := vc) (vA := uA) (vB := uB) (w1 := w2) (w2 := w1) (w3 := w3)
    (a1 := a2) (a2 := a1) (a3 := a3) (b1 := b2) (b2 := b1) (b3 := b3) (c1 := c2) (c2 := c1) (c3 := c3) (L := L)
    ha2 ha1 ha3 hb2 hb1 hb3 hc2 hc1 hc3 hv hu hw2 hw3 hAB hm' hL2 hL1 hL3 hcone'
  have e : ∀ x y z p1 p2 p3 q1 q2 q3 : ℝ, det9 x y z p1 p2 p3 q1 q2 q3 = - det9 y x z p2 p1 p3 q2 q1 q3 := by
    intro x y z p1 p2 p3 q1 q2 q3; unfold det9; ring
  rw [e]
  have e2 : ∀ D : ℝ, (uB - uA) * (w2 - vc * w3) * -D = (uB - uA) * (vc * w3 - w2) * D := by intro D; ring
  rw [e2]; exact h

section mixed
variable (f h k : Nat) (hk : k ≤ 30)
include hk

/-- **vertical short edge `(c, jA) → (c, jB)` of face `f` against the vertex `(i, j)` of any face `h`** -/
theorem orient_vert_mixed {c jA jB i j : Nat} {L : ℝ} (hc : c ≤ 2 ^ k) (hA : jA ≤ 2 ^ k) (hB : jB ≤ 2 ^ k)
    (hi : i ≤ 2 ^ k) (hj : j ≤ 2 ^ k) (hAB : 1 / 2 ^ 31 ≤ |U k jB - U k jA|)
    (hm : 1 / 2 ^ 32 ≤ |U k c * (inFrame f h k i j).z - (inFrame f h k i j).x|)
    (hL1 : |(inFrame f h k i j).x - U k c| ≤ L) (hL2 : |(inFrame f h k i j).y - U k jA| ≤ L)
    (hL3 : |(inFrame f h k i j).z - 1| ≤ L)
    (hcone : L ≤ 2 ^ 12 * |U k c * (inFrame f h k i j).z - (inFrame f h k i j).x|) :
    0 < (U k jB - U k jA) * (U k c * (inFrame f h k i j).z - (inFrame f h k i j).x) *
      (vecR (gridV f k c jA)).dot ((vecR (gridV f k c jB)).cross (vecR (gridV h k i j))) := by
  obtain ⟨-, sA, α, hsA, eA, a1, a2, a3⟩ := gridV_decomp f k c jA hk hc hA
  obtain ⟨-, sB, β, hsB, eB, b1, b2, b3⟩ := gridV_decomp f k c jB hk hc hB
  obtain ⟨sW, γ, hsW, eW, c1, c2, c3, w1, w2, w3⟩ := gridV_in_frame f h k i j hk hi hj
  rw [eA, eB, eW, det_frame]
  simp only
  have core := core_vert_mixed a1 a2 a3 b1 b2 b3 c1 c2 c3 (U_abs_le hk hc) (U_abs_le hk hA) w1 w3 hAB hm hL1 hL2 hL3 hcone
  have hs : 0 < sA * sB * sW := mul_pos (mul_pos hsA hsB) hsW
  have := mul_pos hs core
  linarith [this]

/-- **horizontal short edge `(iA, c) → (iB, c)` of face `f` against the vertex `(i, j)` of any face `h`** -/
theorem orient_horiz_mixed {c iA iB i j : Nat} {L : ℝ} (hc : c ≤ 2 ^ k) (hA : iA ≤ 2 ^ k) (hB : iB ≤ 2 ^ k)
    (hi : i ≤ 2 ^ k) (hj : j ≤ 2 ^ k) (hAB : 1 / 2 ^ 31 ≤ |U k iB - U k iA|)
    (hm : 1 / 2 ^ 32 ≤ |(inFrame f h k i j).y - U k c * (inFrame f h k i j).z|)
    (hL1 : |(inFrame f h k i j).x - U k iA| ≤ L) (hL2 : |(inFrame f h k i j).y - U k c| ≤ L)
    (hL3 : |(inFrame f h k i j).z - 1| ≤ L)
    (hcone : L ≤ 2 ^ 12 * |(inFrame f h k i j).y - U k c * (inFrame f h k i j).z|) :
    0 < (U k iB - U k iA) * ((inFrame f h k i j).y - U k c * (inFrame f h k i j).z) *
      (vecR (gridV f k iA c)).dot ((vecR (gridV f k iB c)).cross (vecR (gridV h k i j))) := by
  obtain ⟨-, sA, α, hsA, eA, a1, a2, a3⟩ := gridV_decomp f k iA c hk hA hc
  obtain ⟨-, sB, β, hsB, eB, b1, b2, b3⟩ := gridV_decomp f k iB c hk hB hc
  obtain ⟨sW, γ, hsW, eW, c1, c2, c3, w1, w2, w3⟩ := gridV_in_frame f h k i j hk hi hj
  rw [eA, eB, eW, det_frame]
  simp only
  have core := core_horiz_mixed a1 a2 a3 b1 b2 b3 c1 c2 c3 (U_abs_le hk hA) (U_abs_le hk hc) w2 w3 hAB hm hL1 hL2 hL3 hcone
  have hs : 0 < sA * sB * sW := mul_pos (mul_pos hsA hsB) hsW
  have := mul_pos hs core
  linarith [this]

end mixed
end S2Proofs.C04Grid
