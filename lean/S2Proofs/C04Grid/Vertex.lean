/-
  C04Grid.Vertex — the float vertex array of one face at one level, and the exact orientation of three of its vertices.

      gu k i          the float grid coordinate `stToUV(ijToSTMin(i·2^(30-k)))`
      gridV f k i j   the float vertex `faceUVToXYZ(f, gu k i, gu k j).Normalize()` (what `Cell.Vertex` computes)
      gridV_decomp    `vecR (gridV f k i j) = s · xyzC f ((u_i, v_j, 1) + ν)`, `s > 0`, `|ν| ≤ 2^-51` componentwise
      orient_H / orient_V   the exact determinant of (A, B, W), A B on one grid line, W at least one cell off that line and
                      inside the slope-three cone around A: its sign is the sign of the exact uv configuration
-/
import S2Proofs.C04Grid.Margin
import S2Proofs.C12Dist2.VertexDir
import S2Proofs.Properties.C17_Pairs
import S2Proofs.ExactSignLaws

set_option linter.unusedSimpArgs false
set_option linter.unusedVariables false

namespace S2Proofs.C04Grid
open S2 S2.CellM S2.STUV S2.Pred S2.Exact S2Proofs.FloatErr
open S2Proofs.C17Err S2Proofs.C17Err.R3 S2Proofs.C17Pairs S2Proofs.C12Dist S2Proofs.C08World S2Proofs.C12Dist2
open S2Proofs.C12M S2Proofs.ExactLaws

/-- the float grid coordinate of index `i` at level `k` -/
def gu (k i : Nat) : F64 := stToUV (g (i * 2 ^ (30 - k)))

/-- the float vertex `(i, j)` of the level-`k` grid of face `f` -/
def gridV (f k i j : Nat) : V3 := (faceUVToXYZ f (gu k i) (gu k j)).normalize

/-- its real grid coordinate -/
noncomputable def U (k i : Nat) : ℝ := gU (i * 2 ^ (30 - k))

theorem idx_le {k i : Nat} (hk : k ≤ 30) (hi : i ≤ 2 ^ k) : i * 2 ^ (30 - k) ≤ 2 ^ 30 := by
  have h1 : i * 2 ^ (30 - k) ≤ 2 ^ k * 2 ^ (30 - k) := Nat.mul_le_mul_right _ hi
  have h2 : 2 ^ k * 2 ^ (30 - k) = 2 ^ 30 := by rw [← Nat.pow_add]; congr 1; omega
  omega

theorem U_abs_le {k i : Nat} (hk : k ≤ 30) (hi : i ≤ 2 ^ k) : |U k i| ≤ 1 := gU_abs_le _ (idx_le hk hi)

/-- one index step is at least `2^-31`, `m` steps at most `m·2^(30-k)/2^28` -/
theorem U_gap {k i i' : Nat} (hk : k ≤ 30) (h : i < i') (hi : i' ≤ 2 ^ k) :
    ((i' : ℝ) - i) * (2 ^ (30 - k) / 2 ^ 31) ≤ U k i' - U k i ∧ U k i' - U k i ≤ ((i' : ℝ) - i) * (2 ^ (30 - k) / 2 ^ 28) := by
  have hlt : i * 2 ^ (30 - k) < i' * 2 ^ (30 - k) := Nat.mul_lt_mul_of_pos_right h (Nat.two_pow_pos _)
  obtain ⟨l, u⟩ := grid_gap _ _ hlt (idx_le hk hi)
  unfold U
  push_cast at l u
  constructor
  · calc ((i' : ℝ) - i) * (2 ^ (30 - k) / 2 ^ 31) = ((i' : ℝ) * 2 ^ (30 - k) - (i : ℝ) * 2 ^ (30 - k)) / 2 ^ 31 := by ring
      _ ≤ _ := l
  · calc _ ≤ ((i' : ℝ) * 2 ^ (30 - k) - (i : ℝ) * 2 ^ (30 - k)) / 2 ^ 28 := u
      _ = _ := by ring

/-- the cell scale `2^(30-k)` is at least 1 -/
theorem S_ge_one (k : Nat) : (1 : ℝ) ≤ 2 ^ (30 - k) := one_le_pow₀ (by norm_num)

/-! ### the float vertex as a scaled, slightly perturbed `(u, v, 1)` -/

theorem abs_x_le_len (a : R3) : |a.x| ≤ a.len ∧ |a.y| ≤ a.len ∧ |a.z| ≤ a.len := by
  unfold R3.len R3.n2 R3.dot
  refine ⟨Real.abs_le_sqrt ?_, Real.abs_le_sqrt ?_, Real.abs_le_sqrt ?_⟩ <;> nlinarith [sq_nonneg a.x, sq_nonneg a.y, sq_nonneg a.z]

theorem gridV_decomp (f k i j : Nat) (hk : k ≤ 30) (hi : i ≤ 2 ^ k) (hj : j ≤ 2 ^ k) :
    F64Order.Fin3 (gridV f k i j) ∧ ∃ (s : ℝ) (ν : R3), 0 < s ∧
      vecR (gridV f k i j) = comb s (xyzC f ⟨U k i + ν.x, U k j + ν.y, 1 + ν.z⟩) 0 (xyzC f ν) ∧
      |ν.x| ≤ 1 / 2 ^ 51 ∧ |ν.y| ≤ 1 / 2 ^ 51 ∧ |ν.z| ≤ 1 / 2 ^ 51 := by
  have fu : F64Order.Fin (gu k i) := fin_stToUV_g _ (idx_le hk hi)
  have fv : F64Order.Fin (gu k j) := fin_stToUV_g _ (idx_le hk hj)
  set x := faceUVToXYZ f (gu k i) (gu k j) with hxdef
  have hx : F64Order.Fin3 x := fin3_faceUVToXYZ f fu fv
  have hraw : vecR x = xyzC f ⟨U k i, U k j, 1⟩ := vecR_faceUVToXYZ f _ _
  have au := U_abs_le hk hi
  have av := U_abs_le hk hj
  have a1 : |(1 : ℝ)| ≤ 1 := by norm_num
  obtain ⟨b1, b2, b3⟩ := xyzC_abs_le f ⟨U k i, U k j, 1⟩ au av a1
  rw [← hraw] at b1 b2 b3
  have p14 : (1 : ℝ) ≤ 2 ^ 14 := by norm_num
  have m1 := le_trans b1 p14
  have m2 := le_trans b2 p14
  have m3 := le_trans b3 p14
  have hn2 : (vecR x).n2 = U k i * U k i + U k j * U k j + 1 := by
    rw [hraw, xyzC_n2]; unfold R3.n2 R3.dot; ring
  have h1 : 1 ≤ (vecR x).n2 := by rw [hn2]; nlinarith [mul_self_nonneg (U k i), mul_self_nonneg (U k j)]
  have h4 : (vecR x).n2 ≤ 2 ^ 2 := by
    rw [hn2]
    have := abs_le.mp au
    have := abs_le.mp av
    nlinarith
  have hlen2 : (vecR x).len ≤ 2 := by
    unfold R3.len; exact Real.sqrt_le_iff.mpr ⟨by norm_num, h4⟩
  -- as in `normalize_dir`
  have hu0 := uR_nonneg
  obtain ⟨fn, herr⟩ := C16Acc.norm2_wide _ hx ⟨m1, m2, m3⟩
  have hS1 : 1 ≤ (C16Acc.ofV x).norm2 := by rw [← C12Dist2.vecR_n2']; exact h1
  have hn2' : 1 / 4 ≤ val x.norm2 := by
    have hρ := C16Acc.rhoU_le3
    have hρ2 : rhoU uR ≤ 1 / 2 := le_trans hρ (by unfold uR; norm_num)
    have h1' := mul_le_mul_of_nonneg_right hρ2 (le_trans (by norm_num) hS1 : (0 : ℝ) ≤ _)
    have h2 := VertexErr.four_eR_le_u
    have h3 : uR / 1000 ≤ 1 / 4 := by unfold uR; norm_num
    have hb := abs_le.mp herr
    linarith
  have hlo : 1 / 2 ^ 1022 ≤ val x.norm2 :=
    le_trans (one_div_le_one_div_of_le (by norm_num)
      (le_trans (by norm_num : (4 : ℝ) ≤ 2 ^ 2) (pow_le_pow_right₀ (by norm_num) (by norm_num)))) hn2'
  have hfeq : F64.feq x.norm2 (F64.zero false) = false := by
    cases h : F64.feq x.norm2 (F64.zero false)
    · rfl
    · exfalso
      have h1 := (F64Order.feq_iff fn (zero_val false).1).1 h
      have h2 := (VertexErr.val_eq_iff _ _).2 h1
      rw [VertexErr.val_zero] at h2
      linarith
  have hgv : gridV f k i j = x.mul (F64.one / F64.sqrt x.norm2) := by
    unfold gridV; rw [← hxdef]; exact C16Acc.normalize_eq x hfeq
  obtain ⟨_, _, fq, hn512, _, s, ν, hs0, hsn, heq, hν⟩ := C16Acc.scaleSpec _ hx m1 m2 m3 hlo
  have hN : (ofAcc ν).len ≤ (uR + 1 / 2 ^ 500) * (vecR x).len := by rw [ofAcc_len, vecR_len_acc]; exact hν
  have hr : vecR (x.mul (F64.one / F64.sqrt x.norm2))
      = comb s (comb 1 (vecR x) 1 (ofAcc ν)) 0 (comb 1 (vecR x) 1 (ofAcc ν)) := by
    rw [← ofAcc_ofV, heq]
    unfold ofAcc C16Acc.R3.smul C16Acc.R3.add comb vecR C16Acc.ofV
    simp only [R3.mk.injEq]
    refine ⟨by ring, by ring, by ring⟩
  rw [hgv]
  refine ⟨fq, s, uvwC f (ofAcc ν), hs0, ?_, ?_⟩
  · rw [hr, hraw]
    have e : comb 1 (xyzC f ⟨U k i, U k j, 1⟩) 1 (ofAcc ν)
        = xyzC f ⟨U k i + (uvwC f (ofAcc ν)).x, U k j + (uvwC f (ofAcc ν)).y, 1 + (uvwC f (ofAcc ν)).z⟩ := by
      have : (⟨U k i + (uvwC f (ofAcc ν)).x, U k j + (uvwC f (ofAcc ν)).y, 1 + (uvwC f (ofAcc ν)).z⟩ : R3)
          = comb 1 ⟨U k i, U k j, 1⟩ 1 (uvwC f (ofAcc ν)) := by
        unfold comb; simp only [R3.mk.injEq]; refine ⟨by ring, by ring, by ring⟩
      rw [this, xyzC_comb, xyzC_uvwC]
    rw [e]
    unfold comb; simp only [R3.mk.injEq]; refine ⟨by ring, by ring, by ring⟩
  · have hlen : (uvwC f (ofAcc ν)).len = (ofAcc ν).len := by unfold R3.len; rw [uvwC_n2]
    have hb : (ofAcc ν).len ≤ 1 / 2 ^ 51 := by
      have hδ : uR + 1 / 2 ^ 500 ≤ 1 / 2 ^ 52 := by
        have := delta_small
        have : (1 + 1 / 1000) * uR ≤ 1 / 2 ^ 52 := by unfold uR; norm_num
        linarith
      have hδ0 : 0 ≤ uR + 1 / 2 ^ 500 := add_nonneg hu0 (div_nonneg zero_le_one (pow_nonneg (by norm_num) _))
      calc (ofAcc ν).len ≤ (uR + 1 / 2 ^ 500) * (vecR x).len := hN
        _ ≤ (1 / 2 ^ 52) * 2 := mul_le_mul hδ hlen2 (R3.len_nonneg _) (by norm_num)
        _ = 1 / 2 ^ 51 := by norm_num
    obtain ⟨c1, c2, c3⟩ := abs_x_le_len (uvwC f (ofAcc ν))
    rw [hlen] at c1 c2 c3
    exact ⟨le_trans c1 hb, le_trans c2 hb, le_trans c3 hb⟩

/-! ### determinants -/

/-- the face frame preserves the determinant; rows `A`, `B`, `W` as `A`, `B − A`, `W − A` -/
theorem det_frame (f : Nat) (s1 s2 s3 : ℝ) (a b c a' b' c' : R3) :
    (comb s1 (xyzC f a) 0 a').dot ((comb s2 (xyzC f b) 0 b').cross (comb s3 (xyzC f c) 0 c'))
      = s1 * s2 * s3 * det9 a.x a.y a.z (b.x - a.x) (b.y - a.y) (b.z - a.z) (c.x - a.x) (c.y - a.y) (c.z - a.z) := by
  match f with
  | 0 | 1 | 2 | 3 | 4 | (n + 5) => (simp only [xyzC, comb, R3.dot, R3.cross, det9]; ring)

theorem exact_of_real_neg {a b c : V3} (ha : F64Order.Fin3 a) (hb : F64Order.Fin3 b) (hc : F64Order.Fin3 c)
    (h : (vecR a).dot ((vecR b).cross (vecR c)) < 0) : exactDecision a b c = -1 := by
  rw [E_eq ha hb hc]
  apply EI_eq_neg_one_of_det_neg
  rw [S2Proofs.C17.det_int] at h
  have hp : (0 : ℝ) < (2 ^ 1074) ^ 3 := by positivity
  have : (((ofV3 a).dot ((ofV3 b).cross (ofV3 c)) : ℤ) : ℝ) < 0 := by
    by_contra hc'
    have := div_nonneg (not_lt.mp hc') hp.le
    linarith
  unfold det3
  exact_mod_cast this

theorem exact_of_real_pos {a b c : V3} (ha : F64Order.Fin3 a) (hb : F64Order.Fin3 b) (hc : F64Order.Fin3 c)
    (h : 0 < (vecR a).dot ((vecR b).cross (vecR c))) : exactDecision a b c = 1 := by
  rw [E_eq ha hb hc]
  apply EI_eq_one_of_det_pos
  rw [S2Proofs.C17.det_int] at h
  have hp : (0 : ℝ) < (2 ^ 1074) ^ 3 := by positivity
  have := (div_pos_iff_of_pos_right hp).mp h
  unfold det3
  exact_mod_cast this

/-! ### the sign of the determinant of three grid vertices -/

private theorem same_sign {p d c : ℝ} (h : |p - d| ≤ c) (hc : c < |d|) : 0 < p * d := by
  have := abs_le.mp h
  rcases lt_or_ge d 0 with hd | hd
  · rw [abs_of_neg hd] at hc
    exact mul_pos_of_neg_of_neg (by linarith) hd
  · rw [abs_of_nonneg hd] at hc
    exact mul_pos (by linarith) (by linarith)

private theorem small {a b : ℝ} (ha : |a| ≤ 1 / 2 ^ 51) (hb : |b| ≤ 1 / 2 ^ 51) : |b - a| ≤ 1 / 2 ^ 50 := by
  have := abs_le.mp ha
  have := abs_le.mp hb
  rw [abs_le]; constructor <;> norm_num at * <;> linarith

/-- pure real core, horizontal edge: `A = (uA, vc)`, `B = (uB, vc)`, `W = (uW, vW)`, perturbations `a b c` -/
theorem core_H {uA uB uW vc vW a1 a2 a3 b1 b2 b3 c1 c2 c3 t : ℝ}
    (ha1 : |a1| ≤ 1 / 2 ^ 51) (ha2 : |a2| ≤ 1 / 2 ^ 51) (ha3 : |a3| ≤ 1 / 2 ^ 51)
    (hb1 : |b1| ≤ 1 / 2 ^ 51) (hb2 : |b2| ≤ 1 / 2 ^ 51) (hb3 : |b3| ≤ 1 / 2 ^ 51)
    (hc1 : |c1| ≤ 1 / 2 ^ 51) (hc2 : |c2| ≤ 1 / 2 ^ 51) (hc3 : |c3| ≤ 1 / 2 ^ 51)
    (hu : |uA| ≤ 1) (hv : |vc| ≤ 1) (ht : 1 ≤ t)
    (hp : 1 / 2 ^ 31 ≤ |uB - uA|) (hq : t / 2 ^ 31 ≤ |vW - vc|) (hh : |uW - uA| ≤ 3 * t / 2 ^ 28) :
    0 < (uB - uA) * (vW - vc) *
      det9 (uA + a1) (vc + a2) (1 + a3) ((uB + b1) - (uA + a1)) ((vc + b2) - (vc + a2)) ((1 + b3) - (1 + a3))
        ((uW + c1) - (uA + a1)) ((vW + c2) - (vc + a2)) ((1 + c3) - (1 + a3)) := by
  set p1 := (uB + b1) - (uA + a1) with hp1
  set q2 := (vW + c2) - (vc + a2) with hq2
  set q1 := (uW + c1) - (uA + a1) with hq1
  have e1 : |p1 - (uB - uA)| ≤ 1 / 2 ^ 50 := by
    have : p1 - (uB - uA) = b1 - a1 := by rw [hp1]; ring
    rw [this]; exact small ha1 hb1
  have e2 : |q2 - (vW - vc)| ≤ 1 / 2 ^ 50 := by
    have : q2 - (vW - vc) = c2 - a2 := by rw [hq2]; ring
    rw [this]; exact small ha2 hc2
  have e3 : |q1 - (uW - uA)| ≤ 1 / 2 ^ 50 := by
    have : q1 - (uW - uA) = c1 - a1 := by rw [hq1]; ring
    rw [this]; exact small ha1 hc1
  -- lower / upper bounds of the perturbed differences
  have lp1 : |uB - uA| - 1 / 2 ^ 50 ≤ |p1| := by
    have := abs_sub_abs_le_abs_sub (uB - uA) p1
    have e1' : |uB - uA - p1| ≤ 1 / 2 ^ 50 := by rw [abs_sub_comm]; exact e1
    linarith
  have lq2 : |vW - vc| - 1 / 2 ^ 50 ≤ |q2| := by
    have := abs_sub_abs_le_abs_sub (vW - vc) q2
    have e2' : |vW - vc - q2| ≤ 1 / 2 ^ 50 := by rw [abs_sub_comm]; exact e2
    linarith
  have uq1 : |q1| ≤ |uW - uA| + 1 / 2 ^ 50 := by
    have := abs_sub_abs_le_abs_sub q1 (uW - uA)
    linarith
  have hq2pos : 0 < |q2| := by
    have : (1 : ℝ) / 2 ^ 31 ≤ t / 2 ^ 31 := div_le_div_of_nonneg_right ht (by positivity)
    have : (1 : ℝ) / 2 ^ 50 < 1 / 2 ^ 31 := by norm_num
    linarith
  have hmain := det_main (x := uA + a1) (y := vc + a2) (z := 1 + a3) (p1 := p1)
    (p2 := (vc + b2) - (vc + a2)) (p3 := (1 + b3) - (1 + a3)) (q1 := q1) (q2 := q2) (q3 := (1 + c3) - (1 + a3))
    (e := 1 / 2 ^ 50) (K := 64) (by positivity) (by norm_num)
    (by
      have := abs_le.mp ha1; have := abs_le.mp hu
      rw [abs_le]; constructor <;> norm_num at * <;> linarith)
    (by
      have := abs_le.mp ha2; have := abs_le.mp hv
      rw [abs_le]; constructor <;> norm_num at * <;> linarith)
    (by have := abs_le.mp ha3; norm_num at *; linarith)
    (by
      have : (vc + b2) - (vc + a2) = b2 - a2 := by ring
      rw [this]; exact small ha2 hb2)
    (by
      have : (1 + b3) - (1 + a3) = b3 - a3 := by ring
      rw [this]; exact small ha3 hb3)
    (by
      have : (1 + c3) - (1 + a3) = c3 - a3 := by ring
      rw [this]; exact small ha3 hc3)
    (by
      have h1 : t / 2 ^ 31 = 8 * (t / 2 ^ 34) := by ring
      have h2 : 3 * t / 2 ^ 28 = 192 * (t / 2 ^ 34) := by ring
      have h3 : (1 : ℝ) / 2 ^ 34 ≤ t / 2 ^ 34 := div_le_div_of_nonneg_right ht (by positivity)
      have h4 : (130 : ℝ) / 2 ^ 50 ≤ 1 / 2 ^ 34 := by norm_num
      have h5 : (64 : ℝ) * (1 / 2 ^ 50) + 1 / 2 ^ 50 ≤ 130 / 2 ^ 50 := by norm_num
      linarith)
    (by
      have : ((16 : ℝ) * 64 + 8) * (1 / 2 ^ 50) + 1 / 2 ^ 50 < 1 / 2 ^ 31 := by norm_num
      linarith)
    (by
      have : (1 : ℝ) / 2 ^ 31 ≤ t / 2 ^ 31 := div_le_div_of_nonneg_right ht (by positivity)
      have : (16 : ℝ) * (1 / 2 ^ 50) + 1 / 2 ^ 50 ≤ 1 / 2 ^ 31 := by norm_num
      linarith)
    hq2pos
  have s1 : 0 < p1 * (uB - uA) := same_sign e1 (by
    have : (1 : ℝ) / 2 ^ 50 < 1 / 2 ^ 31 := by norm_num
    linarith)
  have s2 : 0 < q2 * (vW - vc) := same_sign e2 (by
    have : (1 : ℝ) / 2 ^ 31 ≤ t / 2 ^ 31 := div_le_div_of_nonneg_right ht (by positivity)
    have : (1 : ℝ) / 2 ^ 50 < 1 / 2 ^ 31 := by norm_num
    linarith)
  set D := det9 (uA + a1) (vc + a2) (1 + a3) p1 ((vc + b2) - (vc + a2)) ((1 + b3) - (1 + a3)) q1 q2
    ((1 + c3) - (1 + a3)) with hD
  have hpos := mul_pos (mul_pos hmain s1) s2
  have e : (p1 * q2 * D) * (p1 * (uB - uA)) * (q2 * (vW - vc)) = (p1 * q2) ^ 2 * ((uB - uA) * (vW - vc) * D) := by ring
  rw [e] at hpos
  rcases le_or_gt ((uB - uA) * (vW - vc) * D) 0 with h | h
  · exfalso
    have := mul_nonpos_of_nonneg_of_nonpos (sq_nonneg (p1 * q2)) h
    linarith
  · exact h

/-- vertical edge: `A = (uc, vA)`, `B = (uc, vB)`, `W = (uW, vW)` -/
theorem core_V {uc uW vA vB vW a1 a2 a3 b1 b2 b3 c1 c2 c3 t : ℝ}
    (ha1 : |a1| ≤ 1 / 2 ^ 51) (ha2 : |a2| ≤ 1 / 2 ^ 51) (ha3 : |a3| ≤ 1 / 2 ^ 51)
    (hb1 : |b1| ≤ 1 / 2 ^ 51) (hb2 : |b2| ≤ 1 / 2 ^ 51) (hb3 : |b3| ≤ 1 / 2 ^ 51)
    (hc1 : |c1| ≤ 1 / 2 ^ 51) (hc2 : |c2| ≤ 1 / 2 ^ 51) (hc3 : |c3| ≤ 1 / 2 ^ 51)
    (hu : |uc| ≤ 1) (hv : |vA| ≤ 1) (ht : 1 ≤ t)
    (hp : 1 / 2 ^ 31 ≤ |vB - vA|) (hq : t / 2 ^ 31 ≤ |uW - uc|) (hh : |vW - vA| ≤ 3 * t / 2 ^ 28) :
    (vB - vA) * (uW - uc) *
      det9 (uc + a1) (vA + a2) (1 + a3) ((uc + b1) - (uc + a1)) ((vB + b2) - (vA + a2)) ((1 + b3) - (1 + a3))
        ((uW + c1) - (uc + a1)) ((vW + c2) - (vA + a2)) ((1 + c3) - (1 + a3)) < 0 := by
  have h := core_H (uA := vA) (uB := vB) (uW := vW) (vc := uc) (vW := uW) (a1 := a2) (a2 := a1) (a3 := a3)
    (b1 := b2) (b2 := b1) (b3 := b3) (c1 := c2) (c2 := c1) (c3 := c3) (t := t)
    ha2 ha1 ha3 hb2 hb1 hb3 hc2 hc1 hc3 hv hu ht hp hq hh
  have e : ∀ x y z p1 p2 p3 q1 q2 q3 : ℝ, det9 x y z p1 p2 p3 q1 q2 q3 = - det9 y x z p2 p1 p3 q2 q1 q3 := by
    intro x y z p1 p2 p3 q1 q2 q3; unfold det9; ring
  rw [e]
  linarith [h]

/-- index differences to coordinate differences -/
theorem U_absdiff {k i i' : Nat} (hk : k ≤ 30) (hi : i ≤ 2 ^ k) (hi' : i' ≤ 2 ^ k) :
    |(i' : ℝ) - i| * 2 ^ (30 - k) / 2 ^ 31 ≤ |U k i' - U k i| ∧ |U k i' - U k i| ≤ |(i' : ℝ) - i| * 2 ^ (30 - k) / 2 ^ 28 := by
  rcases lt_trichotomy i i' with h | h | h
  · obtain ⟨l, u⟩ := U_gap hk h hi'
    have hc : (i : ℝ) < i' := by exact_mod_cast h
    have hS := S_ge_one k
    have h0 : 0 ≤ U k i' - U k i := le_trans (by positivity) (le_trans (mul_nonneg (by linarith) (by positivity)) l)
    rw [abs_of_pos (by linarith), abs_of_nonneg h0]
    constructor
    · calc _ = ((i' : ℝ) - i) * (2 ^ (30 - k) / 2 ^ 31) := by ring
        _ ≤ _ := l
    · calc _ ≤ ((i' : ℝ) - i) * (2 ^ (30 - k) / 2 ^ 28) := u
        _ = _ := by ring
  · subst h; simp
  · obtain ⟨l, u⟩ := U_gap hk h hi
    have hc : (i' : ℝ) < i := by exact_mod_cast h
    have hS := S_ge_one k
    have h0 : 0 ≤ U k i - U k i' := le_trans (by positivity) (le_trans (mul_nonneg (by linarith) (by positivity)) l)
    rw [abs_of_neg (by linarith), abs_of_nonpos (by linarith)]
    constructor
    · calc _ = ((i : ℝ) - i') * (2 ^ (30 - k) / 2 ^ 31) := by ring
        _ ≤ U k i - U k i' := l
        _ = _ := by ring
    · calc -(U k i' - U k i) = U k i - U k i' := by ring
        _ ≤ ((i : ℝ) - i') * (2 ^ (30 - k) / 2 ^ 28) := u
        _ = _ := by ring

section orient
variable (f k : Nat) (hk : k ≤ 30)
include hk

/-- **horizontal edge** `A = (iA, jc)`, `B = (iB, jc)`, `W = (iW, jW)` off the grid line `jc`, inside the slope-three cone
    around `A`: the exact determinant of the three float vertices has the sign of `(u_B − u_A)(v_W − v_c)` -/
theorem orient_H {iA iB jc iW jW : Nat} (hA : iA ≤ 2 ^ k) (hB : iB ≤ 2 ^ k) (hc : jc ≤ 2 ^ k) (hW : iW ≤ 2 ^ k)
    (hW' : jW ≤ 2 ^ k) (hAB : 1 ≤ |(iB : ℝ) - iA|) (hoff : 1 ≤ |(jW : ℝ) - jc|)
    (hcone : |(iW : ℝ) - iA| ≤ 3 * |(jW : ℝ) - jc|) :
    0 < (U k iB - U k iA) * (U k jW - U k jc) *
      (vecR (gridV f k iA jc)).dot ((vecR (gridV f k iB jc)).cross (vecR (gridV f k iW jW))) := by
  obtain ⟨-, sA, νA, hsA, eA, a1, a2, a3⟩ := gridV_decomp f k iA jc hk hA hc
  obtain ⟨-, sB, νB, hsB, eB, b1, b2, b3⟩ := gridV_decomp f k iB jc hk hB hc
  obtain ⟨-, sW, νW, hsW, eW, c1, c2, c3⟩ := gridV_decomp f k iW jW hk hW hW'
  rw [eA, eB, eW, det_frame]
  simp only
  have hS := S_ge_one k
  set t := |(jW : ℝ) - jc| * 2 ^ (30 - k) with ht
  have ht1 : 1 ≤ t := by
    have : (1 : ℝ) * 1 ≤ |(jW : ℝ) - jc| * 2 ^ (30 - k) := mul_le_mul hoff hS (by norm_num) (by positivity)
    linarith
  have hp : 1 / 2 ^ 31 ≤ |U k iB - U k iA| := by
    refine le_trans ?_ (U_absdiff hk hA hB).1
    have : (1 : ℝ) * 1 ≤ |(iB : ℝ) - iA| * 2 ^ (30 - k) := mul_le_mul hAB hS (by norm_num) (by positivity)
    exact div_le_div_of_nonneg_right (by linarith) (by positivity)
  have hq : t / 2 ^ 31 ≤ |U k jW - U k jc| := (U_absdiff hk hc hW').1
  have hh : |U k iW - U k iA| ≤ 3 * t / 2 ^ 28 := by
    refine le_trans (U_absdiff hk hA hW).2 ?_
    refine div_le_div_of_nonneg_right ?_ (by positivity)
    have := mul_le_mul_of_nonneg_right hcone (by positivity : (0 : ℝ) ≤ 2 ^ (30 - k))
    rw [ht]; linarith
  have core := core_H a1 a2 a3 b1 b2 b3 c1 c2 c3 (U_abs_le hk hA) (U_abs_le hk hc) ht1 hp hq hh
  have hs : 0 < sA * sB * sW := mul_pos (mul_pos hsA hsB) hsW
  have := mul_pos hs core
  linarith [this]

/-- **vertical edge** `A = (ic, jA)`, `B = (ic, jB)`, `W = (iW, jW)` off the grid line `ic`: the sign is that of
    `−(v_B − v_A)(u_W − u_c)` -/
theorem orient_V {ic jA jB iW jW : Nat} (hc : ic ≤ 2 ^ k) (hA : jA ≤ 2 ^ k) (hB : jB ≤ 2 ^ k) (hW : iW ≤ 2 ^ k)
    (hW' : jW ≤ 2 ^ k) (hAB : 1 ≤ |(jB : ℝ) - jA|) (hoff : 1 ≤ |(iW : ℝ) - ic|)
    (hcone : |(jW : ℝ) - jA| ≤ 3 * |(iW : ℝ) - ic|) :
    (U k jB - U k jA) * (U k iW - U k ic) *
      (vecR (gridV f k ic jA)).dot ((vecR (gridV f k ic jB)).cross (vecR (gridV f k iW jW))) < 0 := by
  obtain ⟨-, sA, νA, hsA, eA, a1, a2, a3⟩ := gridV_decomp f k ic jA hk hc hA
  obtain ⟨-, sB, νB, hsB, eB, b1, b2, b3⟩ := gridV_decomp f k ic jB hk hc hB
  obtain ⟨-, sW, νW, hsW, eW, c1, c2, c3⟩ := gridV_decomp f k iW jW hk hW hW'
  rw [eA, eB, eW, det_frame]
  simp only
  have hS := S_ge_one k
  set t := |(iW : ℝ) - ic| * 2 ^ (30 - k) with ht
  have ht1 : 1 ≤ t := by
    have : (1 : ℝ) * 1 ≤ |(iW : ℝ) - ic| * 2 ^ (30 - k) := mul_le_mul hoff hS (by norm_num) (by positivity)
    linarith
  have hp : 1 / 2 ^ 31 ≤ |U k jB - U k jA| := by
    refine le_trans ?_ (U_absdiff hk hA hB).1
    have : (1 : ℝ) * 1 ≤ |(jB : ℝ) - jA| * 2 ^ (30 - k) := mul_le_mul hAB hS (by norm_num) (by positivity)
    exact div_le_div_of_nonneg_right (by linarith) (by positivity)
  have hq : t / 2 ^ 31 ≤ |U k iW - U k ic| := (U_absdiff hk hc hW).1
  have hh : |U k jW - U k jA| ≤ 3 * t / 2 ^ 28 := by
    refine le_trans (U_absdiff hk hA hW').2 ?_
    refine div_le_div_of_nonneg_right ?_ (by positivity)
    have := mul_le_mul_of_nonneg_right hcone (by positivity : (0 : ℝ) ≤ 2 ^ (30 - k))
    rw [ht]; linarith
  have core := core_V a1 a2 a3 b1 b2 b3 c1 c2 c3 (U_abs_le hk hc) (U_abs_le hk hA) ht1 hp hq hh
  have hs : 0 < sA * sB * sW := mul_pos (mul_pos hsA hsB) hsW
  have := mul_neg_of_pos_of_neg hs core
  linarith [this]

end orient

end S2Proofs.C04Grid
