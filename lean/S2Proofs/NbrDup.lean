/-
  S2Proofs.NbrDup — the LIST returned by `allNeighbors`: its length, and when it contains a cell twice.
  * `allNeighbors_rows`: the result is the concatenation of the loop iterations t = 0 … m+1 (m = 2^(lvl−K)) on the
    aligned square of the cell;
  * `allNeighbors_length_eq`: always 4·m + 4 entries;
  * `allNeighbors_dup_corner`: a cell that reaches a cube corner gets one cell twice (the ring position with both
    coordinates out of range is wrapped onto a side neighbour).
-/
import S2Proofs.NbrCompleteAll
open S2 S2.CellID S2.Hilbert S2.STUV
set_option linter.unusedVariables false
set_option linter.unusedSimpArgs false
namespace S2Proofs.C01W

theorem anRow_length (f lvl : Nat) (i j S nbr : Int) (t : Nat) :
    (anRow f lvl i j S nbr t).length =
      if (t:Int) * nbr - nbr < 0 ∨ (t:Int) * nbr - nbr ≥ S then 2 else 4 := by
  unfold anRow
  simp only []
  generalize (t:Int) * nbr - nbr = k
  by_cases c1 : k < 0
  · simp [c1]
  · by_cases c2 : k ≥ S
    · simp [c1, c2]
    · simp [c1, c2]

theorem sum_range_ring (g : Nat → Nat) (m : Nat) (h0 : g 0 = 2) (hm : g (m + 1) = 2)
    (hmid : ∀ t, 1 ≤ t → t ≤ m → g t = 4) : ((List.range (m + 2)).map g).sum = 4 * m + 4 := by
  have key : ∀ k, k ≤ m → ((List.range (k + 1)).map g).sum = 2 + 4 * k := by
    intro k
    induction k with
    | zero => intro _; simp [h0]
    | succ k ih =>
      intro hk
      rw [List.range_succ, List.map_append, List.sum_append, ih (by omega)]
      simp [hmid (k + 1) (by omega) hk]; omega
  rw [List.range_succ, List.map_append, List.sum_append, key m (le_refl _)]
  simp [hm]; omega

section
variable {L : Nat} (hL : L = 30)
include hL

/-- `allNeighbors` as the concatenation of its loop iterations on the aligned square of the cell -/
theorem allNeighbors_rows (id : CellID) (K : Nat) (h : IsCell id K) (lvl : Nat) (h1 : K ≤ lvl) (h2 : lvl ≤ 30) :
    allNeighbors id lvl =
      ((List.range (2^(lvl-K) + 2)).map
        (anRow (face id) lvl ((sqI id K * 2^(30-K) : Nat) : Int) ((sqJ id K * 2^(30-K) : Nat) : Int)
          ((2^(30-K) : Nat) : Int) ((2^(30-lvl) : Nat) : Int))).flatten := by
  obtain ⟨g1, g2, g3, _, g5⟩ := faceIJOrientation_leaf_in_cell hL id K h
  unfold sqI sqJ
  rw [allNeighbors_eq]
  generalize faceIJOrientation id = r at *
  obtain ⟨f, i0, j0, o⟩ := r
  simp only at g1 g2 g3 g5
  subst g1
  rw [anAux_eq _ _ _ _ _ _ (by rw [h.level_eq]; exact h1) h2, h.level_eq, sizeIJ_eq, sizeIJ_eq]
  have hSN : (2:Nat)^(30 - K) = 2^(lvl - K) * 2^(30 - lvl) := by
    rw [← Nat.pow_add]; congr 1; omega
  have hN0 : 0 < (2:Nat)^(30 - lvl) := Nat.two_pow_pos _
  have hdiv : 2^(30-K) / 2^(30-lvl) = 2^(lvl-K) := by rw [hSN]; exact Nat.mul_div_cancel _ hN0
  rw [hdiv]
  generalize (2:Nat)^(30 - K) = S at *
  have hA : ∀ x : Nat, (x:Int) - (x:Int) % (S:Int) = ((x / S * S : Nat) : Int) := by
    intro x
    have := Nat.div_add_mod x S
    rw [← Int.natCast_mod]
    have e : (x:Int) = ((S * (x / S) + x % S : Nat) : Int) := by rw [this]
    rw [Nat.mul_comm] at e
    omega
  rw [hA, hA]

/-- the list always has 4·2^(lvl−K) + 4 entries -/
theorem allNeighbors_length_eq (id : CellID) (K : Nat) (h : IsCell id K) (lvl : Nat) (h1 : K ≤ lvl) (h2 : lvl ≤ 30) :
    (allNeighbors id lvl).length = 4 * 2^(lvl-K) + 4 := by
  rw [allNeighbors_rows hL id K h lvl h1 h2, List.length_flatten, List.map_map]
  have hSN : (2:Nat)^(30 - K) = 2^(lvl - K) * 2^(30 - lvl) := by
    rw [← Nat.pow_add]; congr 1; omega
  have hN0 : 0 < (2:Nat)^(30 - lvl) := Nat.two_pow_pos _
  have hm0 : 0 < (2:Nat)^(lvl - K) := Nat.two_pow_pos _
  rw [hSN]
  generalize (2:Nat)^(lvl - K) = m at *
  generalize (2:Nat)^(30 - lvl) = N at *
  apply sum_range_ring
  · simp only [Function.comp, anRow_length]
    rw [if_pos (by left; push_cast; omega)]
  · simp only [Function.comp, anRow_length]
    rw [if_pos (by right; push_cast; nlinarith)]
  · intro t ht1 ht2
    simp only [Function.comp, anRow_length]
    have a1 : (N:Int) ≤ (t:Int) * (N:Int) := by
      have : (1:Int) ≤ (t:Int) := by omega
      nlinarith [Int.natCast_nonneg N]
    have a2 : (t:Int) * (N:Int) ≤ (m:Int) * (N:Int) := by
      have : (t:Int) ≤ (m:Int) := by omega
      exact Int.mul_le_mul_of_nonneg_right this (Int.natCast_nonneg N)
    rw [if_neg (by push_cast; omega)]

/-- membership of a ring position in its loop iteration, on the rows of `allNeighbors_rows` -/
theorem ring_has_row (id : CellID) (K : Nat) (h : IsCell id K) (lvl : Nat) (h1 : K ≤ lvl) (h2 : lvl ≤ 30)
    (p q : Nat) (hp : p ≤ 2^(lvl-K) + 1) (hq : q ≤ 2^(lvl-K) + 1)
    (hbd : p = 0 ∨ p = 2^(lvl-K) + 1 ∨ q = 0 ∨ q = 2^(lvl-K) + 1) (a b : Int)
    (ha : a = (((sqI id K * 2^(lvl-K) + p) * 2^(30-lvl) : Nat) : Int) - ((2^(30-lvl) : Nat) : Int))
    (hb : b = (((sqJ id K * 2^(lvl-K) + q) * 2^(30-lvl) : Nat) : Int) - ((2^(30-lvl) : Nat) : Int))
    (flag : Bool) (hflag : flag = true ↔ (InR a ∧ InR b)) :
    ringRow (2^(lvl-K)) p q < 2^(lvl-K) + 2 ∧
    parent (cellIDFromFaceIJSame (face id) a b flag) lvl ∈
      anRow (face id) lvl ((sqI id K * 2^(30-K) : Nat) : Int) ((sqJ id K * 2^(30-K) : Nat) : Int)
        ((2^(30-K) : Nat) : Int) ((2^(30-lvl) : Nat) : Int) (ringRow (2^(lvl-K)) p q) := by
  have hK := h.k_le
  obtain ⟨bI, bJ⟩ := sq_le hL id K h
  have hpowK : (2:Nat)^K * 2^(30 - K) = 1073741824 := pow_split K hK
  have hSN : (2:Nat)^(30 - K) = 2^(lvl - K) * 2^(30 - lvl) := by
    rw [← Nat.pow_add]; congr 1; omega
  have hN0 : 0 < (2:Nat)^(30 - lvl) := Nat.two_pow_pos _
  have hm0 : 0 < (2:Nat)^(lvl - K) := Nat.two_pow_pos _
  have hKK0 : 0 < (2:Nat)^K := Nat.two_pow_pos _
  generalize sqI id K = I at *
  generalize sqJ id K = J at *
  generalize hSdef : (2:Nat)^(30 - K) = S at *
  generalize hmdef : (2:Nat)^(lvl - K) = m at *
  generalize hNdef : (2:Nat)^(30 - lvl) = N at *
  generalize (2:Nat)^K = KK at *
  have hS0 : 0 < S := by rw [hSN]; exact Nat.mul_pos hm0 hN0
  have iS2 : I * S + S ≤ 1073741824 := by
    calc I * S + S = (I + 1) * S := by rw [Nat.add_mul, Nat.one_mul]
      _ ≤ KK * S := Nat.mul_le_mul_right _ (by omega)
      _ = 1073741824 := hpowK
  have jS2 : J * S + S ≤ 1073741824 := by
    calc J * S + S = (J + 1) * S := by rw [Nat.add_mul, Nat.one_mul]
      _ ≤ KK * S := Nat.mul_le_mul_right _ (by omega)
      _ = 1073741824 := hpowK
  have ia : I * S = 0 ∨ S ≤ I * S := by
    rcases Nat.eq_zero_or_pos I with h0 | h0
    · left; rw [h0, Nat.zero_mul]
    · right; exact Nat.le_mul_of_pos_left S h0
  have ja : J * S = 0 ∨ S ≤ J * S := by
    rcases Nat.eq_zero_or_pos J with h0 | h0
    · left; rw [h0, Nat.zero_mul]
    · right; exact Nat.le_mul_of_pos_left S h0
  have hSmI : (S:Int) = (m:Int) * (N:Int) := by rw [hSN]; push_cast; rfl
  have ea : a = ((I * S : Nat) : Int) - (N:Int) + (p:Int) * (N:Int) := by
    rw [ha, hSN]; push_cast; ring
  have eb : b = ((J * S : Nat) : Int) - (N:Int) + (q:Int) * (N:Int) := by
    rw [hb, hSN]; push_cast; ring
  rw [ea, eb] at hflag
  obtain ⟨ht, hmem⟩ := anRow_has_grid_t (face id) lvl ((I * S : Nat) : Int) ((J * S : Nat) : Int)
    (S:Int) (N:Int) m (by exact_mod_cast hN0) hSmI (by omega) (by omega) (by omega) (by omega) (by omega)
    (by omega) (by omega) p q hp hq hbd flag hflag
  rw [ea, eb]
  exact ⟨by omega, hmem⟩

end

/-- a value that occurs in two different rows makes the concatenation non-duplicate-free -/
theorem flatten_not_nodup {α : Type} (g : Nat → List α) (n t t' : Nat) (x : α) (ht : t < n) (ht' : t' < n) (hne : t ≠ t')
    (hx : x ∈ g t) (hx' : x ∈ g t') : ¬ ((List.range n).map g).flatten.Nodup := by
  intro hnd
  unfold List.Nodup at hnd
  rw [List.pairwise_flatten, List.pairwise_map] at hnd
  have hp := hnd.2
  rw [List.pairwise_iff_getElem] at hp
  rcases Nat.lt_or_gt_of_ne hne with hlt | hlt
  · have := hp t t' (by simpa using ht) (by simpa using ht') hlt
    simp only [List.getElem_range] at this
    exact this x hx x hx' rfl
  · have := hp t' t (by simpa using ht') (by simpa using ht) hlt
    simp only [List.getElem_range] at this
    exact this x hx' x hx rfl

section
variable {L : Nat} (hL : L = 30)
include hL

/-- beyond the j-range the wrapped cell of level `lvl` only depends on the level-`lvl` column of i -/
theorem wrap_parent_congr_i (f lvl : Nat) (hf : f < 6) (hl : lvl ≤ 30) (i1 i2 : Nat) (h1 : i1 < 2^30) (h2 : i2 < 2^30)
    (hd : i1 / 2^(30-lvl) = i2 / 2^(30-lvl)) (b : Int) (hb : b ≤ -1 ∨ 1073741824 ≤ b) :
    parent (cellIDFromFaceIJWrap f (i1:Int) b) lvl = parent (cellIDFromFaceIJWrap f (i2:Int) b) lvl := by
  have hN0 := Nat.two_pow_pos (30-lvl)
  have hNle : 2^(30-lvl) ≤ 1073741824 := by
    calc 2^(30-lvl) ≤ 2^lvl * 2^(30-lvl) := Nat.le_mul_of_pos_left _ (Nat.two_pow_pos lvl)
      _ = 1073741824 := pow_split lvl hl
  rcases hb with hb | hb
  · have e : ∀ i : Nat, cellIDFromFaceIJWrap f (i:Int) b =
        cellIDFromFaceIJWrap f (i:Int) (((0:Nat):Int) - ((2^(30-lvl) : Nat) : Int)) := by
      intro i; apply wrap_congr; apply wrapIJ_congr_clamp _ _ _ _ _ rfl
      rw [clamp_lo b hb, clamp_lo _ (by omega)]
    rw [e i1, e i2]
    have s1 := nbr_dir0 hL f i1 0 lvl hf h1 (by decide) hl
    have s2 := nbr_dir0 hL f i2 0 lvl hf h2 (by decide) hl
    rw [hd] at s1
    exact isSq_unique hL s1 s2
  · have e : ∀ i : Nat, cellIDFromFaceIJWrap f (i:Int) b =
        cellIDFromFaceIJWrap f (i:Int) (((1073741824 - 2^(30-lvl) : Nat):Int) + ((2^(30-lvl) : Nat) : Int)) := by
      intro i; apply wrap_congr; apply wrapIJ_congr_clamp _ _ _ _ _ rfl
      rw [clamp_hi b hb, clamp_hi _ (by omega)]
    rw [e i1, e i2]
    have s1 := nbr_dir2 hL f i1 (1073741824 - 2^(30-lvl)) lvl hf h1 (by omega) hl
    have s2 := nbr_dir2 hL f i2 (1073741824 - 2^(30-lvl)) lvl hf h2 (by omega) hl
    rw [hd] at s1
    exact isSq_unique hL s1 s2

/-- beyond the i-range the wrapped cell of level `lvl` only depends on the level-`lvl` row of j -/
theorem wrap_parent_congr_j (f lvl : Nat) (hf : f < 6) (hl : lvl ≤ 30) (j1 j2 : Nat) (h1 : j1 < 2^30) (h2 : j2 < 2^30)
    (hd : j1 / 2^(30-lvl) = j2 / 2^(30-lvl)) (a : Int) (ha : a ≤ -1 ∨ 1073741824 ≤ a) :
    parent (cellIDFromFaceIJWrap f a (j1:Int)) lvl = parent (cellIDFromFaceIJWrap f a (j2:Int)) lvl := by
  have hN0 := Nat.two_pow_pos (30-lvl)
  have hNle : 2^(30-lvl) ≤ 1073741824 := by
    calc 2^(30-lvl) ≤ 2^lvl * 2^(30-lvl) := Nat.le_mul_of_pos_left _ (Nat.two_pow_pos lvl)
      _ = 1073741824 := pow_split lvl hl
  rcases ha with ha | ha
  · have e : ∀ j : Nat, cellIDFromFaceIJWrap f a (j:Int) =
        cellIDFromFaceIJWrap f (((0:Nat):Int) - ((2^(30-lvl) : Nat) : Int)) (j:Int) := by
      intro j; apply wrap_congr; apply wrapIJ_congr_clamp _ _ _ _ _ _ rfl
      rw [clamp_lo a ha, clamp_lo _ (by omega)]
    rw [e j1, e j2]
    have s1 := nbr_dir3 hL f 0 j1 lvl hf (by decide) h1 hl
    have s2 := nbr_dir3 hL f 0 j2 lvl hf (by decide) h2 hl
    rw [hd] at s1
    exact isSq_unique hL s1 s2
  · have e : ∀ j : Nat, cellIDFromFaceIJWrap f a (j:Int) =
        cellIDFromFaceIJWrap f (((1073741824 - 2^(30-lvl) : Nat):Int) + ((2^(30-lvl) : Nat) : Int)) (j:Int) := by
      intro j; apply wrap_congr; apply wrapIJ_congr_clamp _ _ _ _ _ _ rfl
      rw [clamp_hi a ha, clamp_hi _ (by omega)]
    rw [e j1, e j2]
    have s1 := nbr_dir1 hL f (1073741824 - 2^(30-lvl)) j1 lvl hf (by omega) h1 hl
    have s2 := nbr_dir1 hL f (1073741824 - 2^(30-lvl)) j2 lvl hf (by omega) h2 hl
    rw [hd] at s1
    exact isSq_unique hL s1 s2

/-- AT A CUBE CORNER (both coordinates out of range) the wrapped cell of level `lvl` is the cell obtained from the
    nearest in-range column (faces 0,1,2) resp. row (faces 3,4,5): a copy of a side neighbour -/
theorem corner_dup (f lvl : Nat) (hf : f < 6) (hl : lvl ≤ 30) (a b : Int) (ha : a ≤ -1 ∨ 1073741824 ≤ a)
    (hb : b ≤ -1 ∨ 1073741824 ≤ b) :
    parent (cellIDFromFaceIJWrap f a b) lvl =
      if f < 3 then parent (cellIDFromFaceIJWrap f (((if a ≤ -1 then 0 else 1073741824 - 2^(30-lvl) : Nat)) : Int) b) lvl
      else parent (cellIDFromFaceIJWrap f a (((if b ≤ -1 then 0 else 1073741824 - 2^(30-lvl) : Nat)) : Int)) lvl := by
  have hN0 := Nat.two_pow_pos (30-lvl)
  have hNle : 2^(30-lvl) ≤ 1073741824 := by
    calc 2^(30-lvl) ≤ 2^lvl * 2^(30-lvl) := Nat.le_mul_of_pos_left _ (Nat.two_pow_pos lvl)
      _ = 1073741824 := pow_split lvl hl
  have hMNd : (1073741824 - 2^(30-lvl)) / 2^(30-lvl) = 2^lvl - 1 := by
    have : 1073741824 - 2^(30-lvl) = (2^lvl - 1) * 2^(30-lvl) := by rw [Nat.sub_mul, Nat.one_mul, pow_split lvl hl]
    rw [this]; exact Nat.mul_div_cancel _ hN0
  have hM1 : 1073741823 / 2^(30-lvl) = 2^lvl - 1 := (sq_arith lvl 0 hl (by decide)).2.1
  by_cases hf3 : f < 3
  · rw [if_pos hf3]
    have hred := wrap_congr f a b _ _ (wrapIJ_corner_reduce_lo f hf3 a b ha hb)
    rw [hred]
    by_cases hlo : a ≤ -1
    · rw [if_pos hlo, if_pos hlo]; rfl
    · rw [if_neg hlo, if_neg hlo]
      exact wrap_parent_congr_i hL f lvl hf hl 1073741823 (1073741824 - 2^(30-lvl)) (by decide) (by omega)
        (by rw [hM1, hMNd]) b hb
  · rw [if_neg hf3]
    have hred := wrap_congr f a b _ _ (wrapIJ_corner_reduce_hi f (by omega) hf a b ha hb)
    rw [hred]
    by_cases hlo : b ≤ -1
    · rw [if_pos hlo, if_pos hlo]; rfl
    · rw [if_neg hlo, if_neg hlo]
      exact wrap_parent_congr_j hL f lvl hf hl 1073741823 (1073741824 - 2^(30-lvl)) (by decide) (by omega)
        (by rw [hM1, hMNd]) a ha

omit hL in
/-- one axis of a corner cell: the ring coordinate `pc` whose leaf coordinate is out of range, and the neighbouring
    in-range ring coordinate `pc'` -/
theorem corner_axis (I KK m N S : Nat) (hKS : KK * S = 1073741824) (hSN : S = m * N) (hm0 : 0 < m) (hN0 : 0 < N)
    (hKK0 : 0 < KK) (hI : I = 0 ∨ I = KK - 1) :
    ∃ pc pc' : Nat, (pc = 0 ∨ pc = m + 1) ∧ 1 ≤ pc' ∧ pc' ≤ m ∧
      ((((I * m + pc) * N : Nat) : Int) - (N:Int) ≤ -1 ∨ 1073741824 ≤ (((I * m + pc) * N : Nat) : Int) - (N:Int)) ∧
      (((if (((I * m + pc) * N : Nat) : Int) - (N:Int) ≤ -1 then 0 else 1073741824 - N : Nat)) : Int) =
        (((I * m + pc') * N : Nat) : Int) - (N:Int) := by
  by_cases h0 : I = 0
  · subst h0
    refine ⟨0, 1, Or.inl rfl, le_refl _, hm0, ?_, ?_⟩
    · left; simp; omega
    · have e : (((0 * m + 0) * N : Nat) : Int) - (N:Int) ≤ -1 := by simp; omega
      rw [if_pos e]; simp
  · have hI' : I = KK - 1 := by omega
    have e1 : (I * m + (m + 1)) * N = 1073741824 + N := by
      have : (I * m + (m + 1)) * N = (I + 1) * (m * N) + N := by ring
      rw [this, ← hSN, hI']
      have : KK - 1 + 1 = KK := by omega
      rw [this, hKS]
    have e2 : (I * m + m) * N = 1073741824 := by
      have : (I * m + m) * N = (I + 1) * (m * N) := by ring
      rw [this, ← hSN, hI']
      have : KK - 1 + 1 = KK := by omega
      rw [this, hKS]
    have hNle : N ≤ 1073741824 := by
      rw [← e2]; exact Nat.le_mul_of_pos_left N (by have := Nat.mul_pos (Nat.pos_of_ne_zero h0) hm0; omega)
    refine ⟨m + 1, m, Or.inr rfl, hm0, le_refl _, ?_, ?_⟩
    · right; rw [e1]; push_cast; omega
    · have e : ¬ ((((I * m + (m + 1)) * N : Nat) : Int) - (N:Int) ≤ -1) := by rw [e1]; push_cast; omega
      rw [if_neg e, e2]; omega

set_option maxHeartbeats 800000 in
/-- a cell that reaches a cube corner (its square is a corner square of its face) gets at least one cell twice -/
theorem allNeighbors_dup_corner (id : CellID) (K : Nat) (h : IsCell id K) (lvl : Nat) (h1 : K ≤ lvl) (h2 : lvl ≤ 30)
    (hcI : sqI id K = 0 ∨ sqI id K = 2^K - 1) (hcJ : sqJ id K = 0 ∨ sqJ id K = 2^K - 1) :
    ¬ (allNeighbors id lvl).Nodup := by
  have hK := h.k_le
  have hf := h.face_lt6
  have hpowK : (2:Nat)^K * 2^(30 - K) = 1073741824 := pow_split K hK
  have hSN : (2:Nat)^(30 - K) = 2^(lvl - K) * 2^(30 - lvl) := by
    rw [← Nat.pow_add]; congr 1; omega
  have hN0 : 0 < (2:Nat)^(30 - lvl) := Nat.two_pow_pos _
  have hm0 : 0 < (2:Nat)^(lvl - K) := Nat.two_pow_pos _
  have hKK0 : 0 < (2:Nat)^K := Nat.two_pow_pos _
  obtain ⟨pc, pc', hpc, hpc1, hpc2, houtA, heA⟩ := corner_axis (sqI id K) (2^K) (2^(lvl-K)) (2^(30-lvl)) (2^(30-K))
    hpowK hSN hm0 hN0 hKK0 hcI
  obtain ⟨qc, qc', hqc, hqc1, hqc2, houtB, heB⟩ := corner_axis (sqJ id K) (2^K) (2^(lvl-K)) (2^(30-lvl)) (2^(30-K))
    hpowK hSN hm0 hN0 hKK0 hcJ
  have wrapEq : ∀ a b : Int, cellIDFromFaceIJSame (face id) a b false = cellIDFromFaceIJWrap (face id) a b := by
    intro a b; unfold cellIDFromFaceIJSame; simp
  have flagF : ∀ a b : Int, ¬ (InR a ∧ InR b) → ((false = true) ↔ (InR a ∧ InR b)) :=
    fun a b hh => ⟨fun hc => (by cases hc), fun hc => absurd hc hh⟩
  rw [allNeighbors_rows hL id K h lvl h1 h2]
  -- the corner position
  obtain ⟨r0, m0⟩ := ring_has_row hL id K h lvl h1 h2 pc qc (by omega) (by omega) (by omega) _ _ rfl rfl false
    (flagF _ _ (by unfold InR; omega))
  have hr0 : ringRow (2^(lvl-K)) pc qc = qc := by unfold ringRow; rw [if_pos hpc]
  rw [wrapEq, corner_dup hL (face id) lvl hf h2 _ _ houtA houtB] at m0
  rw [hr0] at m0 r0
  by_cases hf3 : face id < 3
  · rw [if_pos hf3] at m0
    obtain ⟨r1, m1⟩ := ring_has_row hL id K h lvl h1 h2 pc' qc (by omega) (by omega) (by omega) _ _ heA rfl false
      (flagF _ _ (by unfold InR; omega))
    have hr1 : ringRow (2^(lvl-K)) pc' qc = pc' := by unfold ringRow; rw [if_neg (by omega)]
    rw [wrapEq] at m1
    rw [hr1] at m1 r1
    exact flatten_not_nodup _ _ qc pc' _ r0 r1 (by omega) m0 m1
  · rw [if_neg hf3] at m0
    obtain ⟨r1, m1⟩ := ring_has_row hL id K h lvl h1 h2 pc qc' (by omega) (by omega) (by omega) _ _ rfl heB false
      (flagF _ _ (by unfold InR; omega))
    have hr1 : ringRow (2^(lvl-K)) pc qc' = qc' := by unfold ringRow; rw [if_pos hpc]
    rw [wrapEq] at m1
    rw [hr1] at m1 r1
    exact flatten_not_nodup _ _ qc qc' _ r0 r1 (by omega) m0 m1

end
end S2Proofs.C01W
