/-
  Soundness lemmas for the rational interval arithmetic `S2.IA` used by the C16 / C17 judges.

  PROVED (all inputs unless a hypothesis is stated):
   (a) `isqrtSlow_spec`  : isqrtSlow n = ⌊√n⌋
   (b) `isqrt_spec`      : isqrt n = ⌊√n⌋  (whatever the Newton candidate `F64.isqrt` returns)
   (c) value map `Q.val : Q → ℚ`; `+ − × neg` and `le / lt / min / max` agree with ℚ for positive denominators
   (d) `sqrtLo_sq_le`, `lt_sqrtHi_sq` (hence `le_sqrtHi_sq`), `sqrtLo_nonneg`, `sqrtHi_pos`
   (e) containment: `I.add`, `I.sub`, `I.neg`, `I.mulNN` (non-negative intervals), `I.min`, `I.max`, `I.pt`,
       and preservation of well-formedness (`I.WF`) by these operations
   (f) `Q.div` / `I.divNN` (non-negative / positive), `I.scale`, outward rounding `floorTo` / `ceilTo` / `I.trim`,
       `I.sqrt` (`mem_sqrt`: every r ≥ 0 with r² ∈ a lies in `I.sqrt a bits`), `certLe` / `certGt` soundness
  NOT covered: `sinLo` / `sinEncl` (need the real sine) and the geometric judges built on top.
-/
import S2.IA
import Mathlib.Tactic.Ring
import Mathlib.Tactic.Linarith
import Mathlib.Tactic.Positivity
import Mathlib.Tactic.FieldSimp
import Mathlib.Tactic.NormNum
import Mathlib.Algebra.Order.Field.Basic
import Mathlib.Algebra.Order.Field.Rat

namespace S2Proofs.IALemmas
open S2 S2.IA

/-! ## (a), (b) integer square root -/

theorem isqrtSlow_spec (n : Nat) : isqrtSlow n ^ 2 ≤ n ∧ n < (isqrtSlow n + 1) ^ 2 := by
  induction n using Nat.strong_induction_on with
  | _ n ih =>
    rw [isqrtSlow]
    split
    · rename_i h; subst h; simp
    · rename_i h
      obtain ⟨h1, h2⟩ := ih (n / 4) (by omega)
      generalize isqrtSlow (n / 4) = s at h1 h2 ⊢
      have hdm := Nat.div_add_mod n 4
      have hm := Nat.mod_lt n (show 4 > 0 by norm_num)
      have h1' : s * s ≤ n / 4 := by rw [← pow_two]; exact h1
      have h2' : n / 4 < s * s + 2 * s + 1 := by
        have e : (s + 1) ^ 2 = s * s + 2 * s + 1 := by ring
        rw [← e]; exact h2
      have e3 : (2 * s + 1) * (2 * s + 1) = 4 * (s * s) + 4 * s + 1 := by ring
      have e4 : (2 * s) ^ 2 = 4 * (s * s) := by ring
      have e5 : (2 * s + 1) ^ 2 = 4 * (s * s) + 4 * s + 1 := by ring
      have e6 : (2 * s + 1 + 1) ^ 2 = 4 * (s * s) + 8 * s + 4 := by ring
      simp only [e3]
      split
      · rename_i hc
        rw [e5, e6]
        generalize s * s = t at *
        omega
      · rename_i hc
        rw [e4, e5]
        generalize s * s = t at *
        omega

theorem isqrt_spec (n : Nat) : isqrt n ^ 2 ≤ n ∧ n < (isqrt n + 1) ^ 2 := by
  unfold isqrt
  simp only
  split
  · rename_i h
    simpa [pow_two] using h
  · exact isqrtSlow_spec n

/-! ## (c) the value of a fraction -/

/-- the rational number denoted by the un-normalised fraction `num / den` -/
def Q.val (q : Q) : ℚ := (q.num : ℚ) / (q.den : ℚ)

theorem denq {d : Nat} (h : 0 < d) : (0 : ℚ) < (d : ℚ) := by exact_mod_cast h

theorem val_add (a b : Q) (ha : 0 < a.den) (hb : 0 < b.den) : Q.val (a + b) = Q.val a + Q.val b := by
  have h1 := (denq ha).ne'
  have h2 := (denq hb).ne'
  show Q.val (Q.add a b) = _
  unfold Q.val Q.add
  push_cast
  field_simp

theorem val_sub (a b : Q) (ha : 0 < a.den) (hb : 0 < b.den) : Q.val (a - b) = Q.val a - Q.val b := by
  have h1 := (denq ha).ne'
  have h2 := (denq hb).ne'
  show Q.val (Q.sub a b) = _
  unfold Q.val Q.sub
  push_cast
  field_simp

theorem val_mul (a b : Q) (ha : 0 < a.den) (hb : 0 < b.den) : Q.val (a * b) = Q.val a * Q.val b := by
  have h1 := (denq ha).ne'
  have h2 := (denq hb).ne'
  show Q.val (Q.mul a b) = _
  unfold Q.val Q.mul
  push_cast
  field_simp

/-- negation needs no hypothesis (`x / 0 = 0` on both sides) -/
theorem val_neg (a : Q) : Q.val (-a) = -Q.val a := by
  show Q.val (Q.neg a) = _
  unfold Q.val Q.neg
  push_cast
  ring

theorem den_add (a b : Q) (ha : 0 < a.den) (hb : 0 < b.den) : 0 < (a + b).den := Nat.mul_pos ha hb
theorem den_sub (a b : Q) (ha : 0 < a.den) (hb : 0 < b.den) : 0 < (a - b).den := Nat.mul_pos ha hb
theorem den_mul (a b : Q) (ha : 0 < a.den) (hb : 0 < b.den) : 0 < (a * b).den := Nat.mul_pos ha hb
theorem den_neg (a : Q) (ha : 0 < a.den) : 0 < (-a).den := ha

theorem le_iff (a b : Q) (ha : 0 < a.den) (hb : 0 < b.den) : Q.le a b = true ↔ Q.val a ≤ Q.val b := by
  unfold Q.le Q.val
  rw [decide_eq_true_iff, div_le_div_iff₀ (denq ha) (denq hb)]
  constructor
  · intro h; exact_mod_cast h
  · intro h; exact_mod_cast h

theorem lt_iff (a b : Q) (ha : 0 < a.den) (hb : 0 < b.den) : Q.lt a b = true ↔ Q.val a < Q.val b := by
  unfold Q.lt Q.val
  rw [decide_eq_true_iff, div_lt_div_iff₀ (denq ha) (denq hb)]
  constructor
  · intro h; exact_mod_cast h
  · intro h; exact_mod_cast h

theorem val_min (a b : Q) (ha : 0 < a.den) (hb : 0 < b.den) : Q.val (Q.min a b) = min (Q.val a) (Q.val b) := by
  unfold Q.min
  by_cases h : Q.le a b = true
  · rw [if_pos h, min_eq_left ((le_iff a b ha hb).mp h)]
  · rw [if_neg h, min_eq_right (le_of_not_ge (fun h' => h ((le_iff a b ha hb).mpr h')))]

theorem val_max (a b : Q) (ha : 0 < a.den) (hb : 0 < b.den) : Q.val (Q.max a b) = max (Q.val a) (Q.val b) := by
  unfold Q.max
  by_cases h : Q.le a b = true
  · rw [if_pos h, max_eq_right ((le_iff a b ha hb).mp h)]
  · rw [if_neg h, max_eq_left (le_of_not_ge (fun h' => h ((le_iff a b ha hb).mpr h')))]

theorem den_min (a b : Q) (ha : 0 < a.den) (hb : 0 < b.den) : 0 < (Q.min a b).den := by
  unfold Q.min; split <;> assumption

theorem den_max (a b : Q) (ha : 0 < a.den) (hb : 0 < b.den) : 0 < (Q.max a b).den := by
  unfold Q.max; split <;> assumption

/-! ## (d) square-root enclosures -/

theorem den_sqrtLo (q : Q) (k : Nat) (hd : 0 < q.den) : 0 < (sqrtLo q k).den :=
  Nat.mul_pos hd (Nat.pow_pos (by norm_num))

theorem den_sqrtHi (q : Q) (k : Nat) (hd : 0 < q.den) : 0 < (sqrtHi q k).den :=
  Nat.mul_pos hd (Nat.pow_pos (by norm_num))

theorem sqrtLo_nonneg (q : Q) (k : Nat) : 0 ≤ Q.val (sqrtLo q k) := by
  unfold Q.val sqrtLo
  positivity

theorem sqrtHi_pos (q : Q) (k : Nat) (hd : 0 < q.den) : 0 < Q.val (sqrtHi q k) := by
  have := denq hd
  unfold Q.val sqrtHi
  push_cast
  positivity

theorem cast_radicand (q : Q) (k : Nat) (hn : 0 ≤ q.num) :
    ((q.num.toNat * q.den * 4 ^ k : Nat) : ℚ) = (q.num : ℚ) * (q.den : ℚ) * ((2 : ℚ) ^ k) ^ 2 := by
  have h1 : ((q.num.toNat : Nat) : ℚ) = (q.num : ℚ) := by
    have : ((q.num.toNat : Nat) : Int) = q.num := Int.toNat_of_nonneg hn
    exact_mod_cast this
  have h4 : ((4 : ℚ)) ^ k = ((2 : ℚ) ^ k) ^ 2 := by
    rw [← pow_mul, mul_comm, pow_mul]; norm_num
  push_cast
  rw [h1, h4]

/-- `sqrtLo q k` is a lower bound of √q : its square is at most q. -/
theorem sqrtLo_sq_le (q : Q) (k : Nat) (hn : 0 ≤ q.num) (hd : 0 < q.den) :
    (Q.val (sqrtLo q k)) ^ 2 ≤ Q.val q := by
  have hD := denq hd
  have hP : (0 : ℚ) < (2 : ℚ) ^ k := by positivity
  have hs := (isqrt_spec (q.num.toNat * q.den * 4 ^ k)).1
  have hs' : ((isqrt (q.num.toNat * q.den * 4 ^ k) : Nat) : ℚ) ^ 2
      ≤ ((q.num.toNat * q.den * 4 ^ k : Nat) : ℚ) := by exact_mod_cast hs
  rw [cast_radicand q k hn] at hs'
  unfold Q.val sqrtLo
  push_cast
  generalize ((isqrt (q.num.toNat * q.den * 4 ^ k) : Nat) : ℚ) = r at hs' ⊢
  rw [div_pow, div_le_div_iff₀ (by positivity) hD]
  have := mul_le_mul_of_nonneg_right hs' hD.le
  nlinarith [this]

/-- `sqrtHi q k` is a strict upper bound of √q : its square exceeds q. -/
theorem lt_sqrtHi_sq (q : Q) (k : Nat) (hn : 0 ≤ q.num) (hd : 0 < q.den) :
    Q.val q < (Q.val (sqrtHi q k)) ^ 2 := by
  have hD := denq hd
  have hP : (0 : ℚ) < (2 : ℚ) ^ k := by positivity
  have hs := (isqrt_spec (q.num.toNat * q.den * 4 ^ k)).2
  have hs' : ((q.num.toNat * q.den * 4 ^ k : Nat) : ℚ)
      < (((isqrt (q.num.toNat * q.den * 4 ^ k) : Nat) : ℚ) + 1) ^ 2 := by exact_mod_cast hs
  rw [cast_radicand q k hn] at hs'
  unfold Q.val sqrtHi
  push_cast
  generalize ((isqrt (q.num.toNat * q.den * 4 ^ k) : Nat) : ℚ) = r at hs' ⊢
  rw [div_pow, div_lt_div_iff₀ hD (by positivity)]
  have := mul_lt_mul_of_pos_right hs' hD
  nlinarith [this]

theorem le_sqrtHi_sq (q : Q) (k : Nat) (hn : 0 ≤ q.num) (hd : 0 < q.den) :
    Q.val q ≤ (Q.val (sqrtHi q k)) ^ 2 := (lt_sqrtHi_sq q k hn hd).le

example : (0 : Int) ≤ (Q.mk 2 1).num ∧ 0 < (Q.mk 2 1).den := by decide

/-- consequently every non-negative rational `x` with `x² = q` (or merely `x² ≤ q` / `q ≤ x²`) is enclosed -/
theorem sqrtLo_le_of_sq (q : Q) (k : Nat) (hn : 0 ≤ q.num) (hd : 0 < q.den) (x : ℚ) (hx : 0 ≤ x)
    (h : Q.val q ≤ x ^ 2) : Q.val (sqrtLo q k) ≤ x := by
  have h1 := sqrtLo_sq_le q k hn hd
  have h0 := sqrtLo_nonneg q k
  by_contra hc
  have hc := not_le.mp hc
  nlinarith

theorem le_sqrtHi_of_sq (q : Q) (k : Nat) (hn : 0 ≤ q.num) (hd : 0 < q.den) (x : ℚ) (hx : 0 ≤ x)
    (h : x ^ 2 ≤ Q.val q) : x ≤ Q.val (sqrtHi q k) := by
  have h1 := lt_sqrtHi_sq q k hn hd
  have h0 := sqrtHi_pos q k hd
  by_contra hc
  have hc := not_le.mp hc
  nlinarith

/-! ## (e) interval containment -/

/-- `x` lies in the closed interval denoted by `a` -/
def I.mem (x : ℚ) (a : I) : Prop := Q.val a.lo ≤ x ∧ x ≤ Q.val a.hi

/-- both end points have positive denominators -/
def I.WF (a : I) : Prop := 0 < a.lo.den ∧ 0 < a.hi.den

instance (a : I) : Decidable (I.WF a) := by unfold I.WF; infer_instance

example : I.WF (I.pt (Q.ofNat 3)) := by decide

theorem mem_pt (q : Q) : I.mem (Q.val q) (I.pt q) := ⟨le_refl _, le_refl _⟩

theorem wf_pt (q : Q) (h : 0 < q.den) : I.WF (I.pt q) := ⟨h, h⟩

theorem mem_add {x y : ℚ} {a b : I} (wa : I.WF a) (wb : I.WF b) (hx : I.mem x a) (hy : I.mem y b) :
    I.mem (x + y) (I.add a b) := by
  unfold I.mem I.add at *
  simp only
  rw [val_add _ _ wa.1 wb.1, val_add _ _ wa.2 wb.2]
  exact ⟨add_le_add hx.1 hy.1, add_le_add hx.2 hy.2⟩

theorem wf_add {a b : I} (wa : I.WF a) (wb : I.WF b) : I.WF (I.add a b) :=
  ⟨den_add _ _ wa.1 wb.1, den_add _ _ wa.2 wb.2⟩

theorem mem_neg {x : ℚ} {a : I} (hx : I.mem x a) : I.mem (-x) (I.neg a) := by
  unfold I.mem I.neg at *
  simp only
  rw [val_neg, val_neg]
  exact ⟨neg_le_neg hx.2, neg_le_neg hx.1⟩

theorem wf_neg {a : I} (wa : I.WF a) : I.WF (I.neg a) := ⟨wa.2, wa.1⟩

theorem mem_sub {x y : ℚ} {a b : I} (wa : I.WF a) (wb : I.WF b) (hx : I.mem x a) (hy : I.mem y b) :
    I.mem (x - y) (I.sub a b) := by
  unfold I.mem I.sub at *
  simp only
  rw [val_sub _ _ wa.1 wb.2, val_sub _ _ wa.2 wb.1]
  exact ⟨sub_le_sub hx.1 hy.2, sub_le_sub hx.2 hy.1⟩

theorem wf_sub {a b : I} (wa : I.WF a) (wb : I.WF b) : I.WF (I.sub a b) :=
  ⟨den_sub _ _ wa.1 wb.2, den_sub _ _ wa.2 wb.1⟩

/-- product of two intervals whose lower ends are non-negative -/
theorem mem_mulNN {x y : ℚ} {a b : I} (wa : I.WF a) (wb : I.WF b)
    (na : 0 ≤ Q.val a.lo) (nb : 0 ≤ Q.val b.lo) (hx : I.mem x a) (hy : I.mem y b) :
    I.mem (x * y) (I.mulNN a b) := by
  unfold I.mem I.mulNN at *
  simp only
  rw [val_mul _ _ wa.1 wb.1, val_mul _ _ wa.2 wb.2]
  have hx0 : 0 ≤ x := le_trans na hx.1
  have hy0 : 0 ≤ y := le_trans nb hy.1
  exact ⟨mul_le_mul hx.1 hy.1 nb hx0, mul_le_mul hx.2 hy.2 hy0 (le_trans hx0 hx.2)⟩

theorem wf_mulNN {a b : I} (wa : I.WF a) (wb : I.WF b) : I.WF (I.mulNN a b) :=
  ⟨den_mul _ _ wa.1 wb.1, den_mul _ _ wa.2 wb.2⟩

example : I.WF (I.pt (Q.ofNat 3)) ∧ (0 : Int) ≤ (I.pt (Q.ofNat 3)).lo.num := by decide

theorem mem_min {x y : ℚ} {a b : I} (wa : I.WF a) (wb : I.WF b) (hx : I.mem x a) (hy : I.mem y b) :
    I.mem (min x y) (I.min a b) := by
  unfold I.mem I.min at *
  simp only
  rw [val_min _ _ wa.1 wb.1, val_min _ _ wa.2 wb.2]
  exact ⟨min_le_min hx.1 hy.1, min_le_min hx.2 hy.2⟩

theorem wf_min {a b : I} (wa : I.WF a) (wb : I.WF b) : I.WF (I.min a b) :=
  ⟨den_min _ _ wa.1 wb.1, den_min _ _ wa.2 wb.2⟩

theorem mem_max {x y : ℚ} {a b : I} (wa : I.WF a) (wb : I.WF b) (hx : I.mem x a) (hy : I.mem y b) :
    I.mem (max x y) (I.max a b) := by
  unfold I.mem I.max at *
  simp only
  rw [val_max _ _ wa.1 wb.1, val_max _ _ wa.2 wb.2]
  exact ⟨max_le_max hx.1 hy.1, max_le_max hx.2 hy.2⟩

theorem wf_max {a b : I} (wa : I.WF a) (wb : I.WF b) : I.WF (I.max a b) :=
  ⟨den_max _ _ wa.1 wb.1, den_max _ _ wa.2 wb.2⟩

/-- the certain comparisons of enclosures are sound -/
theorem certLe_sound {x y : ℚ} {a b : I} (wa : I.WF a) (wb : I.WF b) (hx : I.mem x a) (hy : I.mem y b)
    (h : I.certLe a b = true) : x ≤ y := by
  unfold I.certLe at h
  exact le_trans hx.2 (le_trans ((le_iff _ _ wa.2 wb.1).mp h) hy.1)

theorem certGt_sound {x y : ℚ} {a b : I} (wa : I.WF a) (wb : I.WF b) (hx : I.mem x a) (hy : I.mem y b)
    (h : I.certGt a b = true) : y < x := by
  unfold I.certGt at h
  exact lt_of_le_of_lt hy.2 (lt_of_lt_of_le ((lt_iff _ _ wb.2 wa.1).mp h) hx.1)

/-! ## further operations of the judges: division, scaling, outward rounding, square root of an interval -/

theorem val_nonneg_iff (q : Q) (hd : 0 < q.den) : 0 ≤ Q.val q ↔ 0 ≤ q.num := by
  unfold Q.val
  rw [div_nonneg_iff]
  have := denq hd
  constructor
  · rintro (⟨h, _⟩ | ⟨_, h⟩)
    · exact_mod_cast h
    · linarith
  · intro h; left; exact ⟨by exact_mod_cast h, this.le⟩

theorem val_pos_iff (q : Q) (hd : 0 < q.den) : 0 < Q.val q ↔ 0 < q.num := by
  unfold Q.val
  rw [div_pos_iff]
  have := denq hd
  constructor
  · rintro (⟨h, _⟩ | ⟨_, h⟩)
    · exact_mod_cast h
    · linarith
  · intro h; left; exact ⟨by exact_mod_cast h, this⟩

theorem isNonneg_iff (q : Q) (hd : 0 < q.den) : q.isNonneg = true ↔ 0 ≤ Q.val q := by
  rw [val_nonneg_iff q hd]; unfold Q.isNonneg; simp

/-- `Q.div a b` is the quotient when the divisor is positive -/
theorem val_div (a b : Q) (ha : 0 < a.den) (hb : 0 < b.den) (hn : 0 < b.num) :
    Q.val (Q.div a b) = Q.val a / Q.val b := by
  have h1 := (denq ha).ne'
  have h2 := (denq hb).ne'
  have h3 : ((b.num.toNat : Nat) : ℚ) = (b.num : ℚ) := by
    have : ((b.num.toNat : Nat) : Int) = b.num := Int.toNat_of_nonneg hn.le
    exact_mod_cast this
  have h4 : (b.num : ℚ) ≠ 0 := by
    have : (0 : ℚ) < (b.num : ℚ) := by exact_mod_cast hn
    exact this.ne'
  unfold Q.val Q.div
  push_cast
  rw [h3]
  field_simp

theorem den_div (a b : Q) (ha : 0 < a.den) (hn : 0 < b.num) : 0 < (Q.div a b).den := by
  unfold Q.div
  exact Nat.mul_pos ha (by omega)

/-- quotient of a non-negative interval by a positive interval -/
theorem mem_divNN {x y : ℚ} {a b : I} (wa : I.WF a) (wb : I.WF b)
    (na : 0 ≤ Q.val a.lo) (pb : 0 < b.lo.num) (hx : I.mem x a) (hy : I.mem y b) :
    I.mem (x / y) (I.divNN a b) := by
  have hblo : 0 < Q.val b.lo := (val_pos_iff _ wb.1).mpr pb
  have hy0 : 0 < y := lt_of_lt_of_le hblo hy.1
  have hbhi : 0 < Q.val b.hi := lt_of_lt_of_le hy0 hy.2
  have pbh : 0 < b.hi.num := (val_pos_iff _ wb.2).mp hbhi
  have hx0 : 0 ≤ x := le_trans na hx.1
  unfold I.mem I.divNN at *
  simp only
  rw [val_div _ _ wa.1 wb.2 pbh, val_div _ _ wa.2 wb.1 pb]
  constructor
  · rw [div_le_div_iff₀ hbhi hy0]
    nlinarith [hx.1, hy.2]
  · rw [div_le_div_iff₀ hy0 hblo]
    nlinarith [hx.2, hy.1]

example : I.WF (I.pt (Q.ofNat 3)) ∧ (0 : Int) < (I.pt (Q.ofNat 3)).lo.num := by decide

theorem wf_divNN {a b : I} (wa : I.WF a) (pl : 0 < b.lo.num) (ph : 0 < b.hi.num) : I.WF (I.divNN a b) :=
  ⟨den_div _ _ wa.1 ph, den_div _ _ wa.2 pl⟩

/-- multiplication of an interval by a constant of either sign -/
theorem mem_scale {x : ℚ} {a : I} (k : Q) (hk : 0 < k.den) (wa : I.WF a) (hx : I.mem x a) :
    I.mem (Q.val k * x) (I.scale k a) := by
  unfold I.scale
  by_cases h : k.isNonneg = true
  · have hk0 := (isNonneg_iff k hk).mp h
    rw [if_pos h]
    unfold I.mem at *
    simp only
    rw [val_mul _ _ hk wa.1, val_mul _ _ hk wa.2]
    exact ⟨mul_le_mul_of_nonneg_left hx.1 hk0, mul_le_mul_of_nonneg_left hx.2 hk0⟩
  · have hk0 : Q.val k ≤ 0 := le_of_not_ge (fun hh => h ((isNonneg_iff k hk).mpr hh))
    rw [if_neg h]
    unfold I.mem at *
    simp only
    rw [val_mul _ _ hk wa.1, val_mul _ _ hk wa.2]
    exact ⟨mul_le_mul_of_nonpos_left hx.2 hk0, mul_le_mul_of_nonpos_left hx.1 hk0⟩

theorem wf_scale {a : I} (k : Q) (hk : 0 < k.den) (wa : I.WF a) : I.WF (I.scale k a) := by
  unfold I.scale
  split
  · exact ⟨den_mul _ _ hk wa.1, den_mul _ _ hk wa.2⟩
  · exact ⟨den_mul _ _ hk wa.2, den_mul _ _ hk wa.1⟩

/-- rounding down to a multiple of 2^-p does not increase the value -/
theorem floorTo_le (q : Q) (p : Nat) (hd : 0 < q.den) : Q.val (q.floorTo p) ≤ Q.val q := by
  have hD := denq hd
  have hP : (0 : ℚ) < ((2 ^ p : Nat) : ℚ) := by positivity
  have hdz : (q.den : Int) ≠ 0 := by omega
  have h := Int.ediv_mul_le (q.num * ((2 ^ p : Nat) : Int)) hdz
  have h' : (((q.num * ((2 ^ p : Nat) : Int)) / (q.den : Int) : Int) : ℚ) * (q.den : ℚ)
      ≤ (q.num : ℚ) * ((2 ^ p : Nat) : ℚ) := by exact_mod_cast h
  unfold Q.val Q.floorTo
  simp only
  rw [div_le_div_iff₀ hP hD]
  exact h'

/-- rounding up to a multiple of 2^-p does not decrease the value -/
theorem le_ceilTo (q : Q) (p : Nat) (hd : 0 < q.den) : Q.val q ≤ Q.val (q.ceilTo p) := by
  have hD := denq hd
  have hP : (0 : ℚ) < ((2 ^ p : Nat) : ℚ) := by positivity
  have hdz : (q.den : Int) ≠ 0 := by omega
  have h := Int.ediv_mul_le (-q.num * ((2 ^ p : Nat) : Int)) hdz
  have h' : (((-q.num * ((2 ^ p : Nat) : Int)) / (q.den : Int) : Int) : ℚ) * (q.den : ℚ)
      ≤ -(q.num : ℚ) * ((2 ^ p : Nat) : ℚ) := by exact_mod_cast h
  unfold Q.val Q.ceilTo
  simp only
  rw [div_le_div_iff₀ hD hP]
  push_cast at h' ⊢
  linarith

theorem den_floorTo (q : Q) (p : Nat) : 0 < (q.floorTo p).den := Nat.pow_pos (by norm_num)
theorem den_ceilTo (q : Q) (p : Nat) : 0 < (q.ceilTo p).den := Nat.pow_pos (by norm_num)

/-- outward rounding keeps every member -/
theorem mem_trim {x : ℚ} {a : I} (bits : Nat) (wa : I.WF a) (hx : I.mem x a) : I.mem x (I.trim a bits) := by
  unfold I.mem I.trim at *
  exact ⟨le_trans (floorTo_le _ _ wa.1) hx.1, le_trans hx.2 (le_ceilTo _ _ wa.2)⟩

theorem wf_trim (a : I) (bits : Nat) : I.WF (I.trim a bits) := ⟨den_floorTo _ _, den_ceilTo _ _⟩

/-- **square root of an interval**: every non-negative `r` whose square lies in `a` lies in `I.sqrt a bits` -/
theorem mem_sqrt {r : ℚ} {a : I} (bits : Nat) (wa : I.WF a) (hr : 0 ≤ r) (hx : I.mem (r ^ 2) a) :
    I.mem r (I.sqrt a bits) := by
  have ht := mem_trim (2 * bits) wa hx
  have wt := wf_trim a (2 * bits)
  have hx0 : 0 ≤ r ^ 2 := by positivity
  unfold I.sqrt
  simp only
  generalize I.trim a (2 * bits) = t at ht wt
  have hz : Q.val Q.zero = 0 := by unfold Q.val Q.zero; simp
  constructor
  · simp only
    by_cases h : t.lo.isNonneg = true
    · rw [if_pos h]
      exact sqrtLo_le_of_sq _ _ ((val_nonneg_iff _ wt.1).mp ((isNonneg_iff _ wt.1).mp h)) wt.1 r hr ht.1
    · rw [if_neg h]
      exact sqrtLo_le_of_sq _ _ (le_refl _) (by decide) r hr (by rw [hz]; exact hx0)
  · simp only
    by_cases h : t.hi.isNonneg = true
    · rw [if_pos h]
      exact le_sqrtHi_of_sq _ _ ((val_nonneg_iff _ wt.2).mp ((isNonneg_iff _ wt.2).mp h)) wt.2 r hr ht.2
    · exfalso
      exact h ((isNonneg_iff _ wt.2).mpr (le_trans hx0 ht.2))

theorem wf_sqrt (a : I) (bits : Nat) : I.WF (I.sqrt a bits) := by
  have wt := wf_trim a (2 * bits)
  unfold I.sqrt
  simp only
  generalize I.trim a (2 * bits) = t at wt
  constructor
  · simp only
    split
    · exact den_sqrtLo _ _ wt.1
    · exact den_sqrtLo _ _ (by decide)
  · simp only
    split
    · exact den_sqrtHi _ _ wt.2
    · exact den_sqrtHi _ _ (by decide)

example : I.WF (I.pt (Q.ofNat 2)) := by decide

end S2Proofs.IALemmas
