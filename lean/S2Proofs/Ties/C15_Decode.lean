/-
  Ties/C15_Decode — the two views of the Go decoders agree on every bound check.

  Property C15 is proved about the decoder IR that translator_c15 extracts (S2/Generated/DecoderIR.lean); the round-trip
  theorems of C09 are about the `Dec` programs (S2/Codec/*.lean), which Ties/C09_Decode.lean ties to the Go source through
  translator_c15b.  Here: the error guards (`failIf` / `errIf`), branch conditions (`ite`), allocation counts (`alloc`) and
  loop bounds (`loop`, `whileLt`) of the IR statement of every decoder are, in order and content, the expressions that
  translator_c15b reads from the same Go function independently (S2/Generated/DecodeGuards.lean; variables are matched BY
  NAME through the IR's variable table).
-/
import S2.Generated.DecodeGuards
import S2.Codec
set_option linter.unusedSimpArgs false
namespace S2Proofs.Ties.C15Decode
open S2.DecoderIR S2.Generated

/-- the bound checks of an IR statement in execution order (callees are separate functions with their own list) -/
def guardsOf : Stmt → List (String × Expr)
  | .seq a b => guardsOf a ++ guardsOf b
  | .failIf c => [("failIf", c)]
  | .errIf c => [("errIf", c)]
  | .alloc _ n _ => [("alloc", n)]
  | .loop _ n b => ("loop", n) :: guardsOf b
  | .whileLt _ bnd b _ => ("whileLt", bnd) :: guardsOf b
  | .ite c t e => ("ite", c) :: (guardsOf t ++ guardsOf e)
  | _ => []

theorem guards_decodeFaceRun : guardsOf DecoderIR.decodeFaceRun = DecodeGuards.decodeFaceRun_guards := by decide
theorem guards_decodeFaces : guardsOf DecoderIR.decodeFaces = DecodeGuards.decodeFaces_guards := by decide
theorem guards_decodePointCompressed : guardsOf DecoderIR.decodePointCompressed = DecodeGuards.decodePointCompressed_guards := by decide
theorem guards_decodeFirstPointFixedLength : guardsOf DecoderIR.decodeFirstPointFixedLength = DecodeGuards.decodeFirstPointFixedLength_guards := by decide
theorem guards_decodePointsCompressed : guardsOf DecoderIR.decodePointsCompressed = DecodeGuards.decodePointsCompressed_guards := by decide
theorem guards_Point_decode : guardsOf DecoderIR.Point_decode = DecodeGuards.Point_decode_guards := by decide
theorem guards_Cap_decode : guardsOf DecoderIR.Cap_decode = DecodeGuards.Cap_decode_guards := by decide
theorem guards_Rect_decode : guardsOf DecoderIR.Rect_decode = DecodeGuards.Rect_decode_guards := by decide
theorem guards_CellID_decode : guardsOf DecoderIR.CellID_decode = DecodeGuards.CellID_decode_guards := by decide
theorem guards_Cell_decode : guardsOf DecoderIR.Cell_decode = DecodeGuards.Cell_decode_guards := by decide
theorem guards_CellUnion_decode : guardsOf DecoderIR.CellUnion_decode = DecodeGuards.CellUnion_decode_guards := by decide
theorem guards_Polyline_decode : guardsOf DecoderIR.Polyline_decode = DecodeGuards.Polyline_decode_guards := by decide
theorem guards_Loop_decode : guardsOf DecoderIR.Loop_decode = DecodeGuards.Loop_decode_guards := by decide
theorem guards_Loop_decodeCompressed : guardsOf DecoderIR.Loop_decodeCompressed = DecodeGuards.Loop_decodeCompressed_guards := by decide
theorem guards_Polygon_decode : guardsOf DecoderIR.Polygon_decode = DecodeGuards.Polygon_decode_guards := by decide
theorem guards_Polygon_decodeCompressed : guardsOf DecoderIR.Polygon_decodeCompressed = DecodeGuards.Polygon_decodeCompressed_guards := by decide
theorem guards_Point_Decode : guardsOf DecoderIR.Point_Decode = DecodeGuards.Point_Decode_guards := by decide
theorem guards_Cap_Decode : guardsOf DecoderIR.Cap_Decode = DecodeGuards.Cap_Decode_guards := by decide
theorem guards_Rect_Decode : guardsOf DecoderIR.Rect_Decode = DecodeGuards.Rect_Decode_guards := by decide
theorem guards_CellID_Decode : guardsOf DecoderIR.CellID_Decode = DecodeGuards.CellID_Decode_guards := by decide
theorem guards_Cell_Decode : guardsOf DecoderIR.Cell_Decode = DecodeGuards.Cell_Decode_guards := by decide
theorem guards_CellUnion_Decode : guardsOf DecoderIR.CellUnion_Decode = DecodeGuards.CellUnion_Decode_guards := by decide
theorem guards_Polyline_Decode : guardsOf DecoderIR.Polyline_Decode = DecodeGuards.Polyline_Decode_guards := by decide
theorem guards_Loop_Decode : guardsOf DecoderIR.Loop_Decode = DecodeGuards.Loop_Decode_guards := by decide
theorem guards_Polygon_Decode : guardsOf DecoderIR.Polygon_Decode = DecodeGuards.Polygon_Decode_guards := by decide

/-- every function the generated file lists is covered above (the list is regenerated) -/
theorem guards_functions : DecodeGuards.functions = ["decodeFaceRun", "decodeFaces", "decodePointCompressed", "decodeFirstPointFixedLength", "decodePointsCompressed", "Point_decode", "Cap_decode", "Rect_decode", "CellID_decode", "Cell_decode", "CellUnion_decode", "Polyline_decode", "Loop_decode", "Loop_decodeCompressed", "Polygon_decode", "Polygon_decodeCompressed", "Point_Decode", "Cap_Decode", "Rect_Decode", "CellID_Decode", "Cell_Decode", "CellUnion_Decode", "Polyline_Decode", "Loop_Decode", "Polygon_Decode"] := by decide

/-- every variable name used by translator_c15b exists in the IR's variable table (`vid` found it) -/
theorem guards_vars_resolved :
    ((DecodeGuards.decodeFaceRun_guards ++ DecodeGuards.decodeFaces_guards ++ DecodeGuards.decodeFirstPointFixedLength_guards ++
      DecodeGuards.decodePointsCompressed_guards ++ DecodeGuards.Point_decode_guards ++ DecodeGuards.Rect_decode_guards ++
      DecodeGuards.Cell_decode_guards ++ DecodeGuards.CellUnion_decode_guards ++ DecodeGuards.Polyline_decode_guards ++
      DecodeGuards.Loop_decode_guards ++ DecodeGuards.Loop_decodeCompressed_guards ++ DecodeGuards.Polygon_decode_guards ++
      DecodeGuards.Polygon_decodeCompressed_guards ++ DecodeGuards.Polygon_Decode_guards).all
        (fun g => g.2.vars.all (· < 4294967295))) = true := by decide

/-! ## content: the IR guard, evaluated with the IR semantics on the IR value of what was read, is the Boolean on which
    the `Dec` program (hand model = regenerated decoder, Ties/C09_Decode.lean) fails.  One theorem per limit / version /
    negative-count check; the right-hand sides are the conditions of S2/Codec/*.lean. -/

/-- the k-th bound check of a list -/
def nth (l : List (String × Expr)) (k : Nat) : Expr := (l.getD k ("", .lit 0)).2

/-- a guard fires (IR semantics, decoder without error) in an environment -/
def fires (g : Expr) (env : Env) : Bool := eval false env g != 0

theorem get_single (x : Var) (v : Int) : S2.DecoderIR.get [(x, v)] x = v := by simp [S2.DecoderIR.get]
theorem get_two_1 (x y : Var) (v w : Int) : S2.DecoderIR.get [(x, v), (y, w)] x = v := by simp [S2.DecoderIR.get]
theorem get_two_2 (x y : Var) (v w : Int) (h : y ≠ x) : S2.DecoderIR.get [(x, v), (y, w)] y = w := by
  simp [S2.DecoderIR.get, h]

theorem sem_Polyline_nvertices (n : UInt32) :
    fires (nth DecodeGuards.Polyline_decode_guards 1) [(DecodeGuards.vid "Polyline_decode.nvertices", (n.toNat : Int))]
      = decide (n.toNat > S2.Codec.maxEncodedVertices) := by
  simp only [nth, DecodeGuards.Polyline_decode_guards, List.getD_cons_succ, List.getD_cons_zero, fires, eval, evalBin,
    get_single, b2i, S2.Codec.maxEncodedVertices]
  by_cases h : n.toNat > 50000000 <;> simp [h] <;> omega

theorem wrapS64_eq_toInt64 (v : Nat) : conv .int (v : Int) = S2.Codec.toInt64 v := by
  simp only [conv, wrapS, S2.Codec.toInt64]
  rw [show (2 ^ 64 : Nat) = 18446744073709551616 from by decide,
    show (2 ^ (64 - 1) : Nat) = 9223372036854775808 from by decide]
  split <;> split <;> omega

/-- version bytes: the IR holds the `int8` value, the `Dec` program the unsigned byte -/
theorem sem_Point_version (v : Nat) (hv : v < 256) :
    fires (nth DecodeGuards.Point_decode_guards 0) [(DecodeGuards.vid "Point_decode.version", conv .i8 (v : Int))]
      = (v != S2.Codec.encodingVersion) := by
  have key : (conv .i8 (v : Int) = 1) ↔ v = 1 := by
    simp only [conv, wrapS]
    rw [show (2 ^ 8 : Nat) = 256 from by decide, show (2 ^ (8 - 1) : Nat) = 128 from by decide]
    split <;> omega
  simp only [nth, DecodeGuards.Point_decode_guards, List.getD_cons_zero, fires, eval, evalBin, get_single, b2i,
    S2.Codec.encodingVersion]
  by_cases h : v = 1
  · subst h; decide
  · have h' : ¬ conv .i8 (v : Int) = 1 := fun e => h (key.mp e)
    simp [h, h']

theorem sem_CellUnion_count (n : Int) :
    fires (nth DecodeGuards.CellUnion_decode_guards 1) [(DecodeGuards.vid "CellUnion_decode.n", n)]
      = (decide (n < 0) || decide (n > (S2.Codec.maxCells : Int))) := by
  simp only [nth, DecodeGuards.CellUnion_decode_guards, List.getD_cons_succ, List.getD_cons_zero, fires, eval, evalBin,
    get_single, b2i, S2.Codec.maxCells]
  by_cases h1 : n < 0 <;> by_cases h2 : n > 1000000 <;> simp [h1, h2] <;> omega

theorem sem_LoopCompressed_nvertices (v : Nat) :
    fires (nth DecodeGuards.Loop_decodeCompressed_guards 0) [(DecodeGuards.vid "Loop_decodeCompressed.nvertices", (v : Int))]
      = decide (v > S2.Codec.maxEncodedVertices) := by
  simp only [nth, DecodeGuards.Loop_decodeCompressed_guards, List.getD_cons_zero, fires, eval, evalBin,
    get_single, b2i, S2.Codec.maxEncodedVertices]
  by_cases h : v > 50000000 <;> simp [h] <;> omega

theorem sem_Polygon_nloops (n : UInt32) :
    fires (nth DecodeGuards.Polygon_decode_guards 0) [(DecodeGuards.vid "Polygon_decode.nloops", (n.toNat : Int))]
      = decide (n.toNat > S2.Codec.maxEncodedLoops) := by
  simp only [nth, DecodeGuards.Polygon_decode_guards, List.getD_cons_zero, fires, eval, evalBin,
    get_single, b2i, S2.Codec.maxEncodedLoops]
  by_cases h : n.toNat > 10000000 <;> simp [h] <;> omega

/-- `nloops := int(d.readUvarint())`: the IR variable holds `conv int v`, the `Dec` program `toInt64 v` -/
theorem sem_PolygonCompressed_nloops (v : Nat) :
    fires (nth DecodeGuards.Polygon_decodeCompressed_guards 1) [(DecodeGuards.vid "Polygon_decodeCompressed.nloops", conv .int (v : Int))]
      = (decide (S2.Codec.toInt64 v < 0) || decide (S2.Codec.toInt64 v > (S2.Codec.maxEncodedLoops : Int))) := by
  rw [wrapS64_eq_toInt64]
  generalize S2.Codec.toInt64 v = n
  simp only [nth, DecodeGuards.Polygon_decodeCompressed_guards, List.getD_cons_succ, List.getD_cons_zero, fires, eval, evalBin,
    get_single, b2i, S2.Codec.maxEncodedLoops]
  by_cases h1 : n < 0 <;> by_cases h2 : n > 10000000 <;> simp [h1, h2] <;> omega

theorem sem_PolygonCompressed_snapLevel (s : UInt8) :
    fires (nth DecodeGuards.Polygon_decodeCompressed_guards 0) [(DecodeGuards.vid "Polygon_decodeCompressed.snapLevel", (s.toNat : Int))]
      = decide (s.toNat > 30) := by
  simp only [nth, DecodeGuards.Polygon_decodeCompressed_guards, List.getD_cons_zero, fires, eval, evalBin, get_single, b2i]
  by_cases h : s.toNat > 30 <;> simp [h] <;> omega

/-- `decodeFaceRun`: `ret.count <= 0` on the `int`; the `Dec` program tests the unsigned quotient -/
theorem sem_faceRun_count (c : Nat) :
    fires (nth DecodeGuards.decodeFaceRun_guards 0) [(DecodeGuards.vid "decodeFaceRun.ret.count", (c : Int))]
      = decide (c ≤ 0) := by
  simp only [nth, DecodeGuards.decodeFaceRun_guards, List.getD_cons_zero, fires, eval, evalBin, get_single, b2i]
  by_cases h : c = 0 <;> simp [h] <;> omega

end S2Proofs.Ties.C15Decode
