/-
  S2Proofs.Ties.C06_Build — regenerated-instance obligations for the ShapeIndex construction of s2/shapeindex.go
  (applyUpdatesInternal and everything below it, the tracker) and s2/metric.go, against the hand model S2.IndexBuild.

  `S2.Generated.BuildFns.*` is rewritten from the Go source on every run by translator_c04.
  * value mode (`Metric.MinLevel`, `maxLevelForEdge`, `clipUBound`, `clipVBound`, `clipVAxis`, `trackerOrigin`,
    `tracker.atCellID`): hand model function = regenerated function;
  * skeletons (recursion, appends, maps): the hand model's step / branch structure is stated over the regenerated
    conditions and values; statement order, argument texts and every extracted definition are pinned in the last section.
-/
import S2.IndexBuild
import S2.Generated.BuildFns
set_option linter.unusedSimpArgs false
namespace S2Proofs.Ties.C06_Build
open S2 S2.STUV S2.CellM S2.PaddedCellM S2.CellID S2.IndexBuild S2.Generated

theorem f64_eq_of_bits {a b : F64} (h : a.bits = b.bits) : a = b := by
  cases a; cases b; simp_all

/-! ### constants -/
theorem tie_cellPadding : IndexBuild.cellPadding = BuildFns.cellPadding := f64_eq_of_bits (by decide +kernel)
/-- `maxUV := 1 - cellPadding` is a Go constant expression (one rounding) -/
theorem tie_maxUV : maxUV = BuildFns.addFaceEdge_val0 := f64_eq_of_bits (by decide +kernel)
theorem tie_maxEdgesPerCell : maxEdgesPerCell = BuildFns.NewShapeIndex_maxEdgesPerCell := rfl
theorem tie_avgEdgeDeriv : avgEdgeDeriv = BuildFns.AvgEdgeMetric.2 := f64_eq_of_bits (by decide +kernel)
theorem tie_avgEdgeDim : BuildFns.AvgEdgeMetric.1 = 1 := rfl
theorem tie_cellSizeToLongEdgeRatio : F64.one = BuildFns.cellSizeToLongEdgeRatio := rfl
theorem tie_MaxLevel : CellID.maxLevel = BuildFns.MaxLevel := rfl

/-! ### s2/metric.go, maxLevelForEdge -/
/-- `AvgEdgeMetric.MinLevel(val)`: Dim = 1, the shift is by 0; the result is a level 0 … 30 -/
theorem tie_avgEdgeMinLevel (val : F64) :
    (avgEdgeMinLevel val : Int) = BuildFns.Metric_MinLevel BuildFns.AvgEdgeMetric val := by
  have hd : avgEdgeDeriv = (⟨0x3FF758F08369A1A5⟩ : F64) := f64_eq_of_bits (by decide +kernel)
  have hz : fzero = (⟨0x0000000000000000⟩ : F64) := rfl
  unfold avgEdgeMinLevel BuildFns.Metric_MinLevel BuildFns.AvgEdgeMetric
  simp only [hd, hz, Nat.sub_self, Int.shiftRight_zero]
  by_cases h1 : F64.lt val ⟨0⟩ = true
  · simp [h1, maxLevel]
  · simp only [h1, if_false]
    generalize -(ilogb (val / _)) = L
    by_cases h2 : L > 30 <;> by_cases h3 : L < 0 <;> simp [h2, h3] <;> omega
theorem tie_maxLevelForEdge (v0 v1 : V3) :
    (maxLevelForEdge v0 v1 : Int) = BuildFns.maxLevelForEdge (v0, v1) := by
  unfold maxLevelForEdge BuildFns.maxLevelForEdge
  exact tie_avgEdgeMinLevel _

/-! ### the tracker -/
theorem tie_trackerOrigin : trackerOrigin = BuildFns.trackerOrigin := rfl
theorem tie_focus (t : Tracker) : t.b = BuildFns.tracker_focus t := rfl
theorem tie_atCellID (t : Tracker) (id : CellID) : t.atCellID id = BuildFns.tracker_atCellID t id := rfl
theorem tie_addShape (t : Tracker) (id : Nat) (c : Bool) :
    t.addShape id c =
      (let t := { t with isActive := true }
       if BuildFns.tracker_addShape_cond0 c then { t with shapeIDs := toggle id t.shapeIDs } else t) := rfl
theorem tie_testEdge (t : Tracker) (id : Nat) (v0 v1 : V3) :
    t.testEdge id v0 v1 =
      (let (c, r) := Crosser.edgeOrVertexCrossing t.crosser v0 v1
       let t := { t with crosser := c }
       if BuildFns.tracker_testEdge_cond0 r then { t with shapeIDs := toggle id t.shapeIDs } else t) := rfl
/-- `toggleShape`: empty list (`len == 0`) -/
theorem tie_toggle_nil (id : Nat) : BuildFns.tracker_toggleShape_cond0 ([] : List Nat).length = true ∧ toggle id [] = [id] :=
  ⟨rfl, rfl⟩
/-- `toggleShape`: the first-element shortcut agrees with the loop -/
theorem tie_toggle_first (id s : Nat) (rest : List Nat) (h : BuildFns.tracker_toggleShape_cond1 s id = true) :
    toggle id (s :: rest) = rest := by
  simp [BuildFns.tracker_toggleShape_cond1] at h
  simp [toggle, h]
/-- `toggleShape`: one iteration of `for i, s := range t.shapeIDs` (skip / cut out / insert before) -/
theorem tie_toggle_step (id s : Nat) (rest : List Nat) :
    toggle id (s :: rest) =
      if BuildFns.tracker_toggleShape_cond2 s id then s :: toggle id rest
      else if BuildFns.tracker_toggleShape_cond3 s id then rest
      else id :: s :: rest := by
  simp [toggle, BuildFns.tracker_toggleShape_cond2, BuildFns.tracker_toggleShape_cond3]

/-! ### child edge clipping -/
theorem tie_updateBound (e : ClippedEdge) (uEnd : Nat) (u : F64) (vEnd : Nat) (v : F64) :
    updateBound e uEnd u vEnd v =
      { fe := e.fe,
        bound := (if BuildFns.updateBound_cond0 uEnd then (u, e.bound.1.2) else (e.bound.1.1, u),
                  if BuildFns.updateBound_cond1 vEnd then (v, e.bound.2.2) else (e.bound.2.1, v)) } := rfl
theorem tie_clipUBound (e : ClippedEdge) (uEnd : Nat) (u : F64) :
    clipUBound e uEnd u = BuildFns.clipUBound e uEnd u := by
  unfold clipUBound BuildFns.clipUBound positiveSlope
  cases h : (uEnd == 0) <;> simp only [Bool.false_eq_true, if_true, if_false] <;> split <;> rfl
theorem tie_clipVBound (e : ClippedEdge) (vEnd : Nat) (v : F64) :
    clipVBound e vEnd v = BuildFns.clipVBound e vEnd v := by
  unfold clipVBound BuildFns.clipVBound positiveSlope
  cases h : (vEnd == 0) <;> simp only [Bool.false_eq_true, if_true, if_false] <;> split <;> rfl
theorem tie_clipVAxis (e : ClippedEdge) (middle : Ivl) : clipVAxis e middle = BuildFns.clipVAxis e middle := rfl
/-- one iteration of the distribution loop of `updateEdges`: the four tests against `middle`, in source order -/
theorem tie_edgeChildren (mid : Rect2) (e : ClippedEdge) :
    edgeChildren mid e =
      if BuildFns.updateEdges_cond2 e.bound.1.2 mid.1.1 then
        (let ab := clipVAxis e mid.2; ⟨ab.1, ab.2, none, none⟩)
      else if BuildFns.updateEdges_cond5 e.bound.1.1 mid.1.2 then
        (let ab := clipVAxis e mid.2; ⟨none, none, ab.1, ab.2⟩)
      else if BuildFns.updateEdges_cond8 e.bound.2.2 mid.2.1 then
        ⟨some (clipUBound e 1 mid.1.2), none, some (clipUBound e 0 mid.1.1), none⟩
      else if BuildFns.updateEdges_cond11 e.bound.2.1 mid.2.2 then
        ⟨none, some (clipUBound e 1 mid.1.2), none, some (clipUBound e 0 mid.1.1)⟩
      else
        (let ab := clipVAxis (clipUBound e 1 mid.1.2) mid.2
         let cd := clipVAxis (clipUBound e 0 mid.1.1) mid.2
         ⟨ab.1, ab.2, cd.1, cd.2⟩) := rfl
/-- an edge is appended to a child list iff the clipped pointer is not nil (`Quad.get` / `filterMap` of the model) -/
theorem tie_append_nonnil (o : Option ClippedEdge) :
    [BuildFns.updateEdges_cond3 o.isNone, BuildFns.updateEdges_cond4 o.isNone, BuildFns.updateEdges_cond6 o.isNone,
     BuildFns.updateEdges_cond7 o.isNone, BuildFns.updateEdges_cond9 o.isNone, BuildFns.updateEdges_cond10 o.isNone,
     BuildFns.updateEdges_cond12 o.isNone, BuildFns.updateEdges_cond13 o.isNone, BuildFns.updateEdges_cond14 o.isNone,
     BuildFns.updateEdges_cond15 o.isNone, BuildFns.updateEdges_cond16 o.isNone, BuildFns.updateEdges_cond17 o.isNone]
      = List.replicate 12 o.isSome := by
  cases o <;> rfl

/-! ### updateEdges: recursion -/
/-- first update (`disjointFromIndex = true`): no lookup, no absorbed cell; subdivide iff `makeIndexCell` returned false -/
theorem tie_updateEdges_disjoint (made : Bool) :
    BuildFns.updateEdges_cond0 true = false ∧ BuildFns.updateEdges_cond1 true made = !made ∧
      BuildFns.updateEdges_cond20 false = false := ⟨rfl, by cases made <;> rfl, rfl⟩
/-- `for pos := 0; pos < 4; pos++` -/
theorem tie_updateEdges_positions :
    (List.range 5).map BuildFns.updateEdges_cond18 = [true, true, true, true, false] := by decide
/-- the test of `visitChild`: `len(childEdges[i][j]) > 0 || len(t.shapeIDs) > 0` -/
theorem tie_visitChild_test (es : List ClippedEdge) (ids : List Nat) :
    (!es.isEmpty || !ids.isEmpty) = BuildFns.updateEdges_cond19 es.length ids.length := by
  cases es <;> cases ids <;> simp [BuildFns.updateEdges_cond19]

/-! ### makeIndexCell -/
theorem tie_makeIndexCell_empty (edges : List ClippedEdge) (ids : List Nat) :
    (edges.isEmpty && ids.isEmpty) = BuildFns.makeIndexCell_cond0 edges.length ids.length := by
  cases edges <;> cases ids <;> simp [BuildFns.makeIndexCell_cond0]
/-- one iteration of the counting loop -/
theorem tie_countExceeds_step (level count : Nat) (e : ClippedEdge) (es : List ClippedEdge) :
    countExceeds level count (e :: es) =
      (let count := if BuildFns.makeIndexCell_cond1 level e.fe.maxLevel then count + 1 else count
       if BuildFns.makeIndexCell_cond2 count BuildFns.NewShapeIndex_maxEdgesPerCell then true
       else countExceeds level count es) := by
  simp [countExceeds, BuildFns.makeIndexCell_cond1, BuildFns.makeIndexCell_cond2, maxEdgesPerCell,
    BuildFns.NewShapeIndex_maxEdgesPerCell]
theorem tie_countExceeds_nil (level count : Nat) : countExceeds level count [] = false := rfl
/-- the two tracker blocks: `t.isActive && len(edges) != 0`, `!t.atCellID(p.id)` -/
theorem tie_makeIndexCell_tracker (active : Bool) (edges : List ClippedEdge) (at_ : Bool) :
    (active && !edges.isEmpty) = BuildFns.makeIndexCell_cond3 active edges.length ∧
    (active && !edges.isEmpty) = BuildFns.makeIndexCell_cond12 active edges.length ∧
    (!at_) = BuildFns.makeIndexCell_cond4 at_ := by
  cases edges <;> cases active <;> simp [BuildFns.makeIndexCell_cond3, BuildFns.makeIndexCell_cond12, BuildFns.makeIndexCell_cond4]
/-- `eshapeID` / `cshapeID` with their sentinel -/
theorem tie_headShapeID (sentinel : Nat) (es : List ClippedEdge) :
    headShapeID sentinel es = if BuildFns.makeIndexCell_cond6 0 es.length then (es[0]!).fe.shapeID else sentinel := by
  cases es <;> simp [headShapeID, BuildFns.makeIndexCell_cond6]
theorem tie_headID (sentinel : Nat) (cs : List Nat) :
    headID sentinel cs = if BuildFns.makeIndexCell_cond7 0 cs.length then cs[0]! else sentinel := by
  cases cs <;> simp [headID, BuildFns.makeIndexCell_cond7]
/-- one iteration of the merge loop -/
theorem tie_fillShapes_step (sentinel n : Nat) (es : List ClippedEdge) (cs : List Nat) :
    fillShapes sentinel (n + 1) es cs =
      (let eid := headShapeID sentinel es
       let cid := headID sentinel cs
       if BuildFns.makeIndexCell_cond8 cid eid then ⟨cid, true, []⟩ :: fillShapes sentinel n es cs.tail
       else
         let mine := es.takeWhile fun e => BuildFns.makeIndexCell_cond9 0 1 e.fe.shapeID eid
         let rest := es.dropWhile fun e => BuildFns.makeIndexCell_cond9 0 1 e.fe.shapeID eid
         if BuildFns.makeIndexCell_cond11 cid eid then ⟨eid, true, mine.map (·.fe.edgeID)⟩ :: fillShapes sentinel n rest cs.tail
         else ⟨eid, false, mine.map (·.fe.edgeID)⟩ :: fillShapes sentinel n rest cs) := by
  simp [fillShapes, BuildFns.makeIndexCell_cond8, BuildFns.makeIndexCell_cond9, BuildFns.makeIndexCell_cond11]
theorem tie_fillShapes_zero (sentinel : Nat) (es : List ClippedEdge) (cs : List Nat) :
    fillShapes sentinel 0 es cs = [] ∧ BuildFns.makeIndexCell_cond5 0 0 = false := ⟨rfl, rfl⟩
/-- the in-bounds test of the inner counting loop `for eNext < len(edges) && …` -/
theorem tie_mine_inbounds (eNext len sid eid : Nat) :
    BuildFns.makeIndexCell_cond9 eNext len sid eid = (decide (eNext < len) && sid == eid) := rfl

/-! ### countShapes, testAllEdges -/
theorem tie_countShapes_same (last sid : Nat) : (some last == some sid) = BuildFns.countShapes_cond0 sid last := by
  by_cases h : last = sid
  · subst h; simp [BuildFns.countShapes_cond0]
  · simp only [BuildFns.countShapes_cond0, Option.some_beq_some]
    rw [beq_eq_false_iff_ne.mpr h, beq_eq_false_iff_ne.mpr (Ne.symm h)]
theorem tie_skipContaining_step (last count c : Nat) (cs : List Nat) :
    skipContaining last count (c :: cs) =
      if BuildFns.countShapes_cond2 c last then (count, c :: cs)
      else skipContaining last (if BuildFns.countShapes_cond3 c last then count + 1 else count) cs := by
  simp [skipContaining, BuildFns.countShapes_cond2, BuildFns.countShapes_cond3]
theorem tie_skipContaining_nil (last count : Nat) :
    skipContaining last count [] = (count, []) ∧ BuildFns.countShapes_cond1 0 ([] : List Nat).length = false := ⟨rfl, rfl⟩
/-- `count += len(shapeIDs) - shapeIDidx` -/
theorem tie_countShapes_rest (count : Nat) (cs : List Nat) (last : Option Nat) :
    countShapesGo last count [] cs = count + BuildFns.countShapes_val1 cs.length 0 := rfl
theorem tie_testAllEdges (edges : List ClippedEdge) (t : Tracker) :
    testAllEdges edges t =
      edges.foldl (fun t e => if BuildFns.testAllEdges_cond0 e.fe.hasInterior then t.testEdge e.fe.shapeID e.fe.v0 e.fe.v1 else t) t := rfl

/-! ### updateFaceEdges, skipCellRange -/
theorem tie_updateFaceEdges_tests (fes : List FaceEdge) (ids : List Nat) (shrunk pid : CellID) :
    (fes.isEmpty && ids.isEmpty) = BuildFns.updateFaceEdges_cond0 fes.length ids.length ∧
    (!fes.isEmpty) = BuildFns.updateFaceEdges_cond2 fes.length ∧
    (shrunk != pid) = BuildFns.updateFaceEdges_cond3 shrunk pid := by
  cases fes <;> cases ids <;> simp [BuildFns.updateFaceEdges_cond0, BuildFns.updateFaceEdges_cond2, BuildFns.updateFaceEdges_cond3]
/-- first update: `shrinkToFit` is `pcell.ShrinkToFit(bound)` (the iterator lookup is skipped) -/
theorem tie_shrinkToFit_first (a b : CellID) : BuildFns.shrinkToFit_cond0 true a b = false := rfl
theorem tie_skipCellRange_test (ids : List Nat) : ids.isEmpty = BuildFns.skipCellRange_cond0 ids.length := by
  cases ids <;> simp [BuildFns.skipCellRange_cond0]

/-! ### addShapeInternal, addFaceEdge, applyUpdatesInternal -/
theorem tie_hasInterior (s : Shape) : (s.dim == 2) = BuildFns.addShapeInternal_val0 s.dim := rfl
theorem tie_addShapeTracker (t : Tracker) (id : Nat) (s : Shape) :
    addShapeTracker t id s =
      if BuildFns.addShapeInternal_cond1 (BuildFns.addShapeInternal_val0 s.dim) then t.addShape id (containsBruteForce s t.b) else t := rfl
/-- the same-face shortcut of `addFaceEdge`, else the clip to all six faces (`face < 6`) -/
theorem tie_addFaceEdge (fe : FaceEdge) :
    addFaceEdge fe =
      (let aFace := STUV.face fe.v0
       let direct : Option FaceEdge :=
         if BuildFns.addFaceEdge_cond0 aFace (STUV.face fe.v1) then
           let a := STUV.validFaceXYZToUV aFace fe.v0
           let b := STUV.validFaceXYZToUV aFace fe.v1
           if BuildFns.addFaceEdge_cond1 a.1 BuildFns.addFaceEdge_val0 a.2 b.1 b.2 then some { fe with a := a, b := b } else none
         else none
       match direct with
       | some fe' => [(aFace, fe')]
       | none =>
         (List.range 6).filterMap fun face =>
           match clipToPaddedFace fe.v0 fe.v1 face BuildFns.cellPadding with
           | some (a, b) => some (face, { fe with a := a, b := b })
           | none => none) := by
  rw [← tie_maxUV, ← tie_cellPadding]; rfl
theorem tie_face_loops :
    (List.range 7).map BuildFns.addFaceEdge_cond2 = [true, true, true, true, true, true, false] ∧
    (List.range 7).map BuildFns.applyUpdatesInternal_cond2 = [true, true, true, true, true, true, false] := by decide
/-- `applyUpdatesInternal`: a non-first update with anything pending resets the index and rebuilds (the model is the
    first-update path); the shape ids run over `pendingAdditionsPos ≤ id < nextID` -/
theorem tie_applyUpdates_reset (pos next nrem : Nat) :
    BuildFns.applyUpdatesInternal_cond0 (BuildFns.isFirstUpdate_val0 pos) pos next nrem =
      (pos != 0 && (decide (pos < next) || decide (nrem > 0))) := rfl
theorem tie_applyUpdates_ids (id next : Nat) : BuildFns.applyUpdatesInternal_cond1 id next = decide (id < next) := rfl
theorem tie_addShapeInternal_edges (e n : Nat) : BuildFns.addShapeInternal_cond2 e n = decide (e < n) := rfl

/-! ### whole functions over the regenerated tests -/
/-- `makeIndexCell`, the whole function over the regenerated tests (statement order: `shape_makeIndexCell`) -/
theorem tie_makeIndexCell (n : Nat) (p : PaddedCell) (edges : List ClippedEdge) (t : Tracker) :
    makeIndexCell n p edges t =
      if BuildFns.makeIndexCell_cond0 edges.length t.shapeIDs.length then some ([], t)
      else if countExceeds p.level 0 edges then none
      else
        let t1 :=
          if BuildFns.makeIndexCell_cond3 t.isActive edges.length then
            let t := if BuildFns.makeIndexCell_cond4 (BuildFns.tracker_atCellID t p.id) then t.moveTo (entryVertex p) else t
            testAllEdges edges (t.drawTo (center p))
          else t
        let cell : IndexCell := ⟨p.id, fillShapes n (countShapes edges t1.shapeIDs) edges t1.shapeIDs⟩
        let t2 :=
          if BuildFns.makeIndexCell_cond12 t1.isActive edges.length then
            (testAllEdges edges (t1.drawTo (exitVertex p))).setNextCellID (next p.id)
          else t1
        some ([cell], t2) := by
  have h3 : ∀ a : Bool, BuildFns.makeIndexCell_cond3 a edges.length = (a && !edges.isEmpty) :=
    fun a => ((tie_makeIndexCell_tracker a edges true).1).symm
  have h12 : ∀ a : Bool, BuildFns.makeIndexCell_cond12 a edges.length = (a && !edges.isEmpty) :=
    fun a => ((tie_makeIndexCell_tracker a edges true).2.1).symm
  have h4 : ∀ b : Bool, BuildFns.makeIndexCell_cond4 b = !b := fun _ => rfl
  unfold makeIndexCell
  rw [tie_makeIndexCell_empty]
  simp only [h3, h12, h4, ← tie_atCellID]

/-- `visitChild`: one iteration of the `pos` loop -/
theorem tie_visitChild (recur : PaddedCell → List ClippedEdge → Tracker → Res) (p : PaddedCell) (quads : List Quad) (r : Res) (pos : Nat) :
    visitChild recur p quads r pos =
      (let ij := PaddedCellM.childIJ p pos
       let es := childEdges quads ij.1 ij.2
       if BuildFns.updateEdges_cond19 es.length r.t.shapeIDs.length then
         let r' := recur (fromParentIJ p ij.1 ij.2) es r.t
         ⟨r.cells ++ r'.cells, r'.t, r.ok && r'.ok⟩
       else r) := by
  unfold visitChild
  simp only [tie_visitChild_test]

/-- `skipCellRange` -/
theorem tie_skipCellRange (n : Nat) (b e : CellID) (t : Tracker) :
    skipCellRange n b e t =
      if BuildFns.skipCellRange_cond0 t.shapeIDs.length then ⟨[], t, true⟩ else
      (CellUnion.fromRange b e).foldl (fun (r : Res) cell =>
        let r' := updateEdges n fuel (fromCellID cell) (isFace cell) [] r.t
        ⟨r.cells ++ r'.cells, r'.t, r.ok && r'.ok⟩) ⟨[], t, true⟩ := by
  unfold skipCellRange
  rw [tie_skipCellRange_test]

/-- `updateFaceEdges`, the whole function -/
theorem tie_updateFaceEdges (n face : Nat) (faceEdges : List FaceEdge) (t : Tracker) :
    updateFaceEdges n face faceEdges t =
      if BuildFns.updateFaceEdges_cond0 faceEdges.length t.shapeIDs.length then ⟨[], t, true⟩ else
      let clipped : List ClippedEdge := faceEdges.map fun fe => ⟨fe, rectFromPoints fe.a fe.b⟩
      let bound := clipped.foldl (fun b c => Rect2.addRect b c.bound) emptyRect
      let faceID := fromFace face
      let pcell := fromCellID faceID
      let shrunkID := if BuildFns.updateFaceEdges_cond2 faceEdges.length then shrinkToFit pcell BuildFns.cellPadding bound else pcell.id
      if BuildFns.updateFaceEdges_cond3 shrunkID pcell.id then
        let r1 := skipCellRange n (rangeMin faceID) (rangeMin shrunkID) t
        let r2 := updateEdges n fuel (fromCellID shrunkID) (isFace shrunkID) clipped r1.t
        let r3 := skipCellRange n (next (rangeMax shrunkID)) (next (rangeMax faceID)) r2.t
        ⟨r1.cells ++ r2.cells ++ r3.cells, r3.t, r1.ok && r2.ok && r3.ok⟩
      else
        updateEdges n fuel pcell true clipped t := by
  unfold updateFaceEdges
  rw [(tie_updateFaceEdges_tests faceEdges t.shapeIDs 0 0).1, ← tie_cellPadding]
  cases faceEdges <;> simp [BuildFns.updateFaceEdges_cond2, BuildFns.updateFaceEdges_cond3]

/-- `subdivide`: `middle := pcell.Middle()`, the distribution loop, the four children in Hilbert order -/
theorem tie_subdivide (recur : PaddedCell → List ClippedEdge → Tracker → Res) (p : PaddedCell) (preset : Bool)
    (edges : List ClippedEdge) (t : Tracker) :
    subdivide recur p preset edges t =
      (let mid := middle p BuildFns.cellPadding preset
       let quads := edges.map (edgeChildren mid)
       (List.range 4).foldl (visitChild recur p quads) ⟨[], t, true⟩) := by
  rw [← tie_cellPadding]; rfl

/-! ### value-mode functions of s2/metric.go without a hand model counterpart -/
/-- the general `Metric.MinLevel` (the hand model has only the `AvgEdgeMetric` instance, `tie_avgEdgeMinLevel`) -/
theorem pin_Metric_MinLevel (m : Nat × F64) (val : F64) :
    BuildFns.Metric_MinLevel m val =
      (if F64.lt val (⟨0⟩ : F64) then 30 else
       let level : Int := -((ilogb (val / m.2)) >>> (m.1 - 1))
       let level : Int := if level > 30 then 30 else level
       if level < 0 then 0 else level) := rfl
theorem pin_Metric_MaxLevel (m : Nat × F64) (val : F64) :
    BuildFns.Metric_MaxLevel m val =
      (if F64.le val (⟨0⟩ : F64) then 30 else
       let level : Int := (ilogb (m.2 / val)) >>> (m.1 - 1)
       let level : Int := if level > 30 then 30 else level
       if level < 0 then 0 else level) := rfl
theorem pin_Metric_ClosestLevel (m : Nat × F64) (val : F64) :
    BuildFns.Metric_ClosestLevel m val =
      BuildFns.Metric_MinLevel m ((if m.1 == 2 then (⟨0x4000000000000000⟩ : F64) else (⟨0x3FF6A09E667F3BCD⟩ : F64)) * val) := rfl

/-! ### skeletons: statement structure, argument texts, every extracted condition / value (translator_c04/mkshapes.py) -/
-- BEGIN PINS BuildFns
theorem atoms_Metric_Value : BuildFns.Metric_Value_atoms =
    "" := rfl
theorem shape_Metric_Value : BuildFns.Metric_Value_shape =
    "return math.Ldexp(m.Deriv, -m.Dim * level)" := rfl
theorem atoms_NewShapeIndex : BuildFns.NewShapeIndex_atoms =
    "" := rfl
theorem shape_NewShapeIndex : BuildFns.NewShapeIndex_shape =
    "return &ShapeIndex{maxEdgesPerCell: 10, shapes: make(map[int32]Shape), cellMap: make(map[CellID]*ShapeIndexCell), cells: nil, status: fresh}" := rfl
theorem atoms_isFirstUpdate : BuildFns.isFirstUpdate_atoms =
    "val0(s.pendingAdditionsPos)" := rfl
theorem shape_isFirstUpdate : BuildFns.isFirstUpdate_shape =
    "return val0" := rfl
theorem atoms_applyUpdatesInternal : BuildFns.applyUpdatesInternal_atoms =
    "cond0(s.isFirstUpdate(), s.pendingAdditionsPos, s.nextID, len(s.pendingRemovals)); cond1(id, s.nextID); cond2(face)" := rfl
theorem shape_applyUpdatesInternal : BuildFns.applyUpdatesInternal_shape =
    "if cond0 {s.cellMap = make(map[CellID]*ShapeIndexCell); s.cells = nil; s.pendingAdditionsPos = 0; s.pendingRemovals = s.pendingRemovals[:0]}; t := newTracker(); allEdges := make([][]faceEdge, 6); range _, p := s.pendingRemovals {s.removeShapeInternal(p, allEdges, t)}; for[id := s.pendingAdditionsPos] cond1 [id++] {s.addShapeInternal(id, allEdges, t)}; for[face := 0] cond2 [face++] {s.updateFaceEdges(face, allEdges[face], t)}; s.pendingRemovals = s.pendingRemovals[:0]; s.pendingAdditionsPos = s.nextID" := rfl
theorem atoms_addShapeInternal : BuildFns.addShapeInternal_atoms =
    "cond0(ok); val0(shape.Dimension()); cond1(faceEdge.hasInterior); cond2(e, numEdges)" := rfl
theorem shape_addShapeInternal : BuildFns.addShapeInternal_shape =
    "shape, ok := s.shapes[shapeID]; if cond0 {return}; faceEdge := faceEdge{shapeID: shapeID, hasInterior: val0}; if cond1 {t.addShape(shapeID, containsBruteForce(shape, t.focus()))}; numEdges := shape.NumEdges(); for[e := 0] cond2 [e++] {edge := shape.Edge(e); faceEdge.edgeID = e; faceEdge.edge = edge; faceEdge.MaxLevel = maxLevelForEdge(edge); s.addFaceEdge(faceEdge, allEdges)}" := rfl
theorem atoms_addFaceEdge : BuildFns.addFaceEdge_atoms =
    "cond0(aFace, face(fe.edge.V1.Vector)); val0(); cond1(fe.a.X, maxUV, fe.a.Y, fe.b.X, fe.b.Y); cond2(face); cond3(intersects)" := rfl
theorem shape_addFaceEdge : BuildFns.addFaceEdge_shape =
    "aFace := face(fe.edge.V0.Vector); if cond0 {x, y := validFaceXYZToUV(aFace, fe.edge.V0.Vector); fe.a = r2.Point{X: x, Y: y}; x, y = validFaceXYZToUV(aFace, fe.edge.V1.Vector); fe.b = r2.Point{X: x, Y: y}; maxUV := val0‹1 - cellPadding›; if cond1 {allEdges[aFace] = append(allEdges[aFace], fe); return}}; for[face := 0] cond2 [face++] {if[aClip, bClip, intersects := ClipToPaddedFace(fe.edge.V0, fe.edge.V1, face, cellPadding)] cond3 {fe.a = aClip; fe.b = bClip; allEdges[face] = append(allEdges[face], fe)}}" := rfl
theorem atoms_updateFaceEdges : BuildFns.updateFaceEdges_atoms =
    "cond0(numEdges, len(t.shapeIDs)); cond1(e, numEdges); cond2(numEdges); cond3(shrunkID, pcell.id)" := rfl
theorem shape_updateFaceEdges : BuildFns.updateFaceEdges_shape =
    "numEdges := len(faceEdges); if cond0 {return}; clippedEdges := make([]*clippedEdge, numEdges); bound := r2.EmptyRect(); for[e := 0] cond1 [e++] {clipped := &clippedEdge{faceEdge: &faceEdges[e]}; clipped.bound = r2.RectFromPoints(faceEdges[e].a, faceEdges[e].b); clippedEdges[e] = clipped; bound = bound.AddRect(clipped.bound)}; faceID := CellIDFromFace(face); pcell := PaddedCellFromCellID(faceID, cellPadding); disjointFromIndex := s.isFirstUpdate(); if cond2 {shrunkID := s.shrinkToFit(pcell, bound); if cond3 {s.skipCellRange(faceID.RangeMin(), shrunkID.RangeMin(), t, disjointFromIndex); pcell = PaddedCellFromCellID(shrunkID, cellPadding); s.updateEdges(pcell, clippedEdges, t, disjointFromIndex); s.skipCellRange(shrunkID.RangeMax().Next(), faceID.RangeMax().Next(), t, disjointFromIndex); return}}; s.updateEdges(pcell, clippedEdges, t, disjointFromIndex)" := rfl
theorem atoms_shrinkToFit : BuildFns.shrinkToFit_atoms =
    "cond0(s.isFirstUpdate(), shrunkID, pcell.CellID()); cond1(iter.LocateCellID(shrunkID))" := rfl
theorem shape_shrinkToFit : BuildFns.shrinkToFit_shape =
    "shrunkID := pcell.ShrinkToFit(bound); if cond0 {iter := s.Iterator(); if cond1 {shrunkID = iter.CellID()}}; return shrunkID" := rfl
theorem atoms_skipCellRange : BuildFns.skipCellRange_atoms =
    "cond0(len(t.shapeIDs))" := rfl
theorem shape_skipCellRange : BuildFns.skipCellRange_shape =
    "if cond0 {return}; skipped := CellUnionFromRange(begin, end); range _, cell := skipped {var clippedEdges []*clippedEdge; s.updateEdges(PaddedCellFromCellID(cell, cellPadding), clippedEdges, t, disjointFromIndex)}" := rfl
theorem atoms_updateEdges : BuildFns.updateEdges_atoms =
    "cond0(disjointFromIndex); cond1(disjointFromIndex, s.makeIndexCell(pcell, edges, t)); cond2(edge.bound.X.Hi, middle.X.Lo); cond3(a == nil); cond4(b == nil); cond5(edge.bound.X.Lo, middle.X.Hi); cond6(a == nil); cond7(b == nil); cond8(edge.bound.Y.Hi, middle.Y.Lo); cond9(a == nil); cond10(b == nil); cond11(edge.bound.Y.Lo, middle.Y.Hi); cond12(a == nil); cond13(b == nil); cond14(a == nil); cond15(b == nil); cond16(a == nil); cond17(b == nil); cond18(pos); cond19(len(childEdges[i][j]), len(t.shapeIDs)); cond20(indexCellAbsorbed)" := rfl
theorem shape_updateEdges : BuildFns.updateEdges_shape =
    "indexCellAbsorbed := false; if cond0 {iter := s.Iterator(); r := iter.LocateCellID(pcell.id); switch r {case Disjoint: disjointFromIndex = true | case Indexed: s.absorbIndexCell(pcell, iter, edges, t); indexCellAbsorbed = true; disjointFromIndex = true | case Subdivided: }}; if cond1 {childEdges := [2][2][]*clippedEdge{}; middle := pcell.Middle(); range _, edge := edges {if cond2 {a, b := s.clipVAxis(edge, middle.Y); if cond3 {childEdges[0][0] = append(childEdges[0][0], a)}; if cond4 {childEdges[0][1] = append(childEdges[0][1], b)}} else if cond5 {a, b := s.clipVAxis(edge, middle.Y); if cond6 {childEdges[1][0] = append(childEdges[1][0], a)}; if cond7 {childEdges[1][1] = append(childEdges[1][1], b)}} else if cond8 {if[a := s.clipUBound(edge, 1, middle.X.Hi)] cond9 {childEdges[0][0] = append(childEdges[0][0], a)}; if[b := s.clipUBound(edge, 0, middle.X.Lo)] cond10 {childEdges[1][0] = append(childEdges[1][0], b)}} else if cond11 {if[a := s.clipUBound(edge, 1, middle.X.Hi)] cond12 {childEdges[0][1] = append(childEdges[0][1], a)}; if[b := s.clipUBound(edge, 0, middle.X.Lo)] cond13 {childEdges[1][1] = append(childEdges[1][1], b)}} else {left := s.clipUBound(edge, 1, middle.X.Hi); a, b := s.clipVAxis(left, middle.Y); if cond14 {childEdges[0][0] = append(childEdges[0][0], a)}; if cond15 {childEdges[0][1] = append(childEdges[0][1], b)}; right := s.clipUBound(edge, 0, middle.X.Lo); a, b = s.clipVAxis(right, middle.Y); if cond16 {childEdges[1][0] = append(childEdges[1][0], a)}; if cond17 {childEdges[1][1] = append(childEdges[1][1], b)}}}; for[pos := 0] cond18 [pos++] {i, j := pcell.ChildIJ(pos); if cond19 {s.updateEdges(PaddedCellFromParentIJ(pcell, i, j), childEdges[i][j], t, disjointFromIndex)}}}; if cond20 {t.restoreStateBefore(s.pendingAdditionsPos)}" := rfl
theorem atoms_makeIndexCell : BuildFns.makeIndexCell_atoms =
    "cond0(len(edges), len(t.shapeIDs)); cond1(p.Level(), ce.faceEdge.MaxLevel); cond2(count, s.maxEdgesPerCell); cond3(t.isActive, len(edges)); cond4(t.atCellID(p.id)); cond5(i, numShapes); cond6(eNext, len(edges)); cond7(cNextIdx, len(cshapeIDs)); cond8(cshapeID, eshapeID); cond9(eNext, len(edges), edges[eNext].faceEdge.shapeID, eshapeID); val0(eNext, eBegin); cond10(e, eNext); cond11(cshapeID, eshapeID); cond12(t.isActive, len(edges))" := rfl
theorem shape_makeIndexCell : BuildFns.makeIndexCell_shape =
    "if cond0 {return true}; count := 0; range _, ce := edges {if cond1 {count++}; if cond2 {return false}}; if cond3 {if cond4 {t.moveTo(p.EntryVertex())}; t.drawTo(p.Center()); s.testAllEdges(edges, t)}; cshapeIDs := t.shapeIDs; numShapes := s.countShapes(edges, cshapeIDs); cell := NewShapeIndexCell(numShapes); eNext := 0; cNextIdx := 0; for[i := 0] cond5 [i++] {var clipped *clippedShape; eshapeID := s.nextID; cshapeID := eshapeID; if cond6 {eshapeID = edges[eNext].faceEdge.shapeID}; if cond7 {cshapeID = cshapeIDs[cNextIdx]}; eBegin := eNext; if cond8 {clipped = newClippedShape(cshapeID, 0); clipped.containsCenter = true; cNextIdx++} else {for cond9 {eNext++}; clipped = newClippedShape(eshapeID, val0); for[e := eBegin] cond10 [e++] {clipped.edges[e-eBegin] = edges[e].faceEdge.edgeID}; if cond11 {clipped.containsCenter = true; cNextIdx++}}; cell.shapes[i] = clipped}; s.cellMap[p.id] = cell; s.cells = append(s.cells, p.id); if cond12 {t.drawTo(p.ExitVertex()); s.testAllEdges(edges, t); t.setNextCellID(p.id.Next())}; return true" := rfl
theorem atoms_updateBound : BuildFns.updateBound_atoms =
    "cond0(uEnd); cond1(vEnd)" := rfl
theorem shape_updateBound : BuildFns.updateBound_shape =
    "c := &clippedEdge{faceEdge: edge.faceEdge}; if cond0 {c.bound.X.Lo = u; c.bound.X.Hi = edge.bound.X.Hi} else {c.bound.X.Lo = edge.bound.X.Lo; c.bound.X.Hi = u}; if cond1 {c.bound.Y.Lo = v; c.bound.Y.Hi = edge.bound.Y.Hi} else {c.bound.Y.Lo = edge.bound.Y.Lo; c.bound.Y.Hi = v}; return c" := rfl
theorem atoms_absorbIndexCell : BuildFns.absorbIndexCell_atoms =
    "cond0(t.isActive, len(edges), s.isShapeBeingRemoved(edges[0].faceEdge.shapeID)); cond1(t.atCellID(p.id)); cond2(s.isShapeBeingRemoved(fe.shapeID)); cond3(fe.hasInterior); cond4(shape == nil); val0(shape.Dimension()); cond5(edge.hasInterior); cond6(trackerMoved, numClipped); cond7(i, numClipped); cond8(edge.hasInterior); cond9(ok); cond10(s.isShapeBeingRemoved(clipped.faceEdge.shapeID))" := rfl
theorem shape_absorbIndexCell : BuildFns.absorbIndexCell_shape =
    "if cond0 {if cond1 {t.moveTo(p.EntryVertex())}; t.drawTo(p.ExitVertex()); t.setNextCellID(p.id.Next()); range _, edge := edges {fe := edge.faceEdge; if cond2 {break}; if cond3 {t.testEdge(fe.shapeID, fe.edge)}}}; t.saveAndClearStateBefore(s.pendingAdditionsPos); var faceEdges []*faceEdge; trackerMoved := false; cell := iter.IndexCell(); range _, clipped := cell.shapes {shapeID := clipped.shapeID; shape := s.Shape(shapeID); if cond4 {continue}; numClipped := clipped.numEdges(); edge := &faceEdge{shapeID: shapeID, hasInterior: val0}; if cond5 {t.addShape(shapeID, clipped.containsCenter); if cond6 {t.moveTo(p.Center()); t.drawTo(p.EntryVertex()); t.setNextCellID(p.id); trackerMoved = true}}; for[i := 0] cond7 [i++] {edgeID := clipped.edges[i]; edge.edgeID = edgeID; edge.edge = shape.Edge(edgeID); edge.MaxLevel = maxLevelForEdge(edge.edge); if cond8 {t.testEdge(shapeID, edge.edge)}; var ok bool; edge.a, edge.b, ok = ClipToPaddedFace(edge.edge.V0, edge.edge.V1, p.id.Face(), cellPadding); if cond9 {panic(\"invariant failure in ShapeIndex\")}; faceEdges = append(faceEdges, edge)}}; var newEdges []*clippedEdge; range _, faceEdge := faceEdges {clipped := &clippedEdge{faceEdge: faceEdge, bound: clippedEdgeBound(faceEdge.a, faceEdge.b, p.bound)}; newEdges = append(newEdges, clipped)}; range i, clipped := edges {if cond10 {newEdges = append(newEdges, edges[i:]...); break}}; edges, newEdges = newEdges, edges; delete(s.cellMap, p.id)" := rfl
theorem atoms_testAllEdges : BuildFns.testAllEdges_atoms =
    "cond0(edge.faceEdge.hasInterior)" := rfl
theorem shape_testAllEdges : BuildFns.testAllEdges_shape =
    "range _, edge := edges {if cond0 {t.testEdge(edge.faceEdge.shapeID, edge.faceEdge.edge)}}" := rfl
theorem atoms_countShapes : BuildFns.countShapes_atoms =
    "val0(); cond0(edge.faceEdge.shapeID, lastShapeID); cond1(shapeIDidx, len(shapeIDs)); cond2(clippedNext, lastShapeID); cond3(clippedNext, lastShapeID); val1(len(shapeIDs), shapeIDidx)" := rfl
theorem shape_countShapes : BuildFns.countShapes_shape =
    "count := 0; lastShapeID := int32(-1); clippedNext := val0‹int32(0)›; shapeIDidx := 0; range _, edge := edges {if cond0 {continue}; count++; lastShapeID = edge.faceEdge.shapeID; for cond1 [shapeIDidx++] {clippedNext = shapeIDs[shapeIDidx]; if cond2 {break}; if cond3 {count++}}}; count += val1; return count" := rfl
theorem atoms_removeShapeInternal : BuildFns.removeShapeInternal_atoms =
    "" := rfl
theorem shape_removeShapeInternal : BuildFns.removeShapeInternal_shape =
    "" := rfl
theorem atoms_newClippedShape : BuildFns.newClippedShape_atoms =
    "" := rfl
theorem shape_newClippedShape : BuildFns.newClippedShape_shape =
    "return &clippedShape{shapeID: id, edges: make([]int, numEdges)}" := rfl
theorem atoms_NewShapeIndexCell : BuildFns.NewShapeIndexCell_atoms =
    "" := rfl
theorem shape_NewShapeIndexCell : BuildFns.NewShapeIndexCell_shape =
    "return &ShapeIndexCell{shapes: make([]*clippedShape, numShapes)}" := rfl
theorem atoms_newTracker : BuildFns.newTracker_atoms =
    "" := rfl
theorem shape_newTracker : BuildFns.newTracker_shape =
    "t := &tracker{isActive: false, b: trackerOrigin(), nextCellID: CellIDFromFace(0).ChildBeginAtLevel(MaxLevel)}; t.drawTo(Point{faceUVToXYZ(0, -1, -1).Normalize()}); return t" := rfl
theorem atoms_tracker_addShape : BuildFns.tracker_addShape_atoms =
    "cond0(containsFocus)" := rfl
theorem shape_tracker_addShape : BuildFns.tracker_addShape_shape =
    "t.isActive = true; if cond0 {t.toggleShape(shapeID)}" := rfl
theorem atoms_tracker_moveTo : BuildFns.tracker_moveTo_atoms =
    "" := rfl
theorem shape_tracker_moveTo : BuildFns.tracker_moveTo_shape =
    "t.b = b" := rfl
theorem atoms_tracker_drawTo : BuildFns.tracker_drawTo_atoms =
    "" := rfl
theorem shape_tracker_drawTo : BuildFns.tracker_drawTo_shape =
    "t.a = t.b; t.b = b; t.crosser = NewEdgeCrosser(t.a, t.b)" := rfl
theorem atoms_tracker_testEdge : BuildFns.tracker_testEdge_atoms =
    "cond0(t.crosser.EdgeOrVertexCrossing(edge.V0, edge.V1))" := rfl
theorem shape_tracker_testEdge : BuildFns.tracker_testEdge_shape =
    "if cond0 {t.toggleShape(shapeID)}" := rfl
theorem atoms_tracker_setNextCellID : BuildFns.tracker_setNextCellID_atoms =
    "" := rfl
theorem shape_tracker_setNextCellID : BuildFns.tracker_setNextCellID_shape =
    "t.nextCellID = nextCellID.RangeMin()" := rfl
theorem atoms_tracker_toggleShape : BuildFns.tracker_toggleShape_atoms =
    "cond0(len(t.shapeIDs)); cond1(t.shapeIDs[0], shapeID); cond2(s, shapeID); cond3(s, shapeID)" := rfl
theorem shape_tracker_toggleShape : BuildFns.tracker_toggleShape_shape =
    "if cond0 {t.shapeIDs = append(t.shapeIDs, shapeID); return}; if cond1 {t.shapeIDs = t.shapeIDs[1:]; return}; range i, s := t.shapeIDs {if cond2 {continue}; if cond3 {copy(t.shapeIDs[i:], t.shapeIDs[i+1:]); t.shapeIDs = t.shapeIDs[:len(t.shapeIDs)-1]; return}; t.shapeIDs = append(t.shapeIDs[0:i], append([]int32{shapeID}, t.shapeIDs[i:len(t.shapeIDs)]...)...); return}; t.shapeIDs = append(t.shapeIDs, shapeID)" := rfl
theorem atoms_tracker_saveAndClearStateBefore : BuildFns.tracker_saveAndClearStateBefore_atoms =
    "" := rfl
theorem shape_tracker_saveAndClearStateBefore : BuildFns.tracker_saveAndClearStateBefore_shape =
    "limit := t.lowerBound(limitShapeID); t.savedIDs = append([]int32(nil), t.shapeIDs[:limit]...); t.shapeIDs = t.shapeIDs[limit:]" := rfl
theorem atoms_tracker_restoreStateBefore : BuildFns.tracker_restoreStateBefore_atoms =
    "" := rfl
theorem shape_tracker_restoreStateBefore : BuildFns.tracker_restoreStateBefore_shape =
    "limit := t.lowerBound(limitShapeID); t.shapeIDs = append(append([]int32(nil), t.savedIDs...), t.shapeIDs[limit:]...); t.savedIDs = nil" := rfl
theorem atoms_tracker_lowerBound : BuildFns.tracker_lowerBound_atoms =
    "" := rfl
theorem shape_tracker_lowerBound : BuildFns.tracker_lowerBound_shape =
    "panic(\"not implemented\")" := rfl
theorem pin_isFirstUpdate_val0 (s_pendingAdditionsPos : Nat) :
    BuildFns.isFirstUpdate_val0 s_pendingAdditionsPos = (s_pendingAdditionsPos == 0) := rfl
theorem pin_applyUpdatesInternal_cond0 (s_isFirstUpdate : Bool) (s_pendingAdditionsPos : Nat) (s_nextID : Nat) (len_s_pendingRemovals : Nat) :
    BuildFns.applyUpdatesInternal_cond0 s_isFirstUpdate s_pendingAdditionsPos s_nextID len_s_pendingRemovals = ((!s_isFirstUpdate) && ((decide (s_pendingAdditionsPos < s_nextID)) || (decide (len_s_pendingRemovals > 0)))) := rfl
theorem pin_applyUpdatesInternal_cond1 (id : Nat) (s_nextID : Nat) :
    BuildFns.applyUpdatesInternal_cond1 id s_nextID = (decide (id < s_nextID)) := rfl
theorem pin_applyUpdatesInternal_cond2 (face : Nat) :
    BuildFns.applyUpdatesInternal_cond2 face = (decide (face < 6)) := rfl
theorem pin_addShapeInternal_cond0 (ok : Bool) :
    BuildFns.addShapeInternal_cond0 ok = (!ok) := rfl
theorem pin_addShapeInternal_val0 (shape_Dimension : Nat) :
    BuildFns.addShapeInternal_val0 shape_Dimension = (shape_Dimension == 2) := rfl
theorem pin_addShapeInternal_cond1 (faceEdge_hasInterior : Bool) :
    BuildFns.addShapeInternal_cond1 faceEdge_hasInterior = (faceEdge_hasInterior) := rfl
theorem pin_addShapeInternal_cond2 (e : Nat) (numEdges : Nat) :
    BuildFns.addShapeInternal_cond2 e numEdges = (decide (e < numEdges)) := rfl
theorem pin_addFaceEdge_cond0 (aFace : Nat) (face_fe_edge_V1_Vector : Nat) :
    BuildFns.addFaceEdge_cond0 aFace face_fe_edge_V1_Vector = (aFace == face_fe_edge_V1_Vector) := rfl
theorem pin_addFaceEdge_val0 :
    BuildFns.addFaceEdge_val0 = ((⟨0x3fefffffffffffde⟩ : F64)) := rfl
theorem pin_addFaceEdge_cond1 (fe_a_X : F64) (maxUV : F64) (fe_a_Y : F64) (fe_b_X : F64) (fe_b_Y : F64) :
    BuildFns.addFaceEdge_cond1 fe_a_X maxUV fe_a_Y fe_b_X fe_b_Y = ((((F64.le (F64.abs fe_a_X) maxUV) && (F64.le (F64.abs fe_a_Y) maxUV)) && (F64.le (F64.abs fe_b_X) maxUV)) && (F64.le (F64.abs fe_b_Y) maxUV)) := rfl
theorem pin_addFaceEdge_cond2 (face : Nat) :
    BuildFns.addFaceEdge_cond2 face = (decide (face < 6)) := rfl
theorem pin_addFaceEdge_cond3 (intersects : Bool) :
    BuildFns.addFaceEdge_cond3 intersects = (intersects) := rfl
theorem pin_updateFaceEdges_cond0 (numEdges : Nat) (len_t_shapeIDs : Nat) :
    BuildFns.updateFaceEdges_cond0 numEdges len_t_shapeIDs = ((numEdges == 0) && (len_t_shapeIDs == 0)) := rfl
theorem pin_updateFaceEdges_cond1 (e : Nat) (numEdges : Nat) :
    BuildFns.updateFaceEdges_cond1 e numEdges = (decide (e < numEdges)) := rfl
theorem pin_updateFaceEdges_cond2 (numEdges : Nat) :
    BuildFns.updateFaceEdges_cond2 numEdges = (decide (numEdges > 0)) := rfl
theorem pin_updateFaceEdges_cond3 (shrunkID : UInt64) (pcell_id : UInt64) :
    BuildFns.updateFaceEdges_cond3 shrunkID pcell_id = (shrunkID != pcell_id) := rfl
theorem pin_shrinkToFit_cond0 (s_isFirstUpdate : Bool) (shrunkID : UInt64) (pcell_CellID : UInt64) :
    BuildFns.shrinkToFit_cond0 s_isFirstUpdate shrunkID pcell_CellID = ((!s_isFirstUpdate) && (shrunkID != pcell_CellID)) := rfl
theorem pin_shrinkToFit_cond1 (iter_LocateCellID_shrunkID : Nat) :
    BuildFns.shrinkToFit_cond1 iter_LocateCellID_shrunkID = (iter_LocateCellID_shrunkID == 0) := rfl
theorem pin_skipCellRange_cond0 (len_t_shapeIDs : Nat) :
    BuildFns.skipCellRange_cond0 len_t_shapeIDs = (len_t_shapeIDs == 0) := rfl
theorem pin_updateEdges_cond0 (disjointFromIndex : Bool) :
    BuildFns.updateEdges_cond0 disjointFromIndex = (!disjointFromIndex) := rfl
theorem pin_updateEdges_cond1 (disjointFromIndex : Bool) (s_makeIndexCell_pcell_edges_t : Bool) :
    BuildFns.updateEdges_cond1 disjointFromIndex s_makeIndexCell_pcell_edges_t = ((!disjointFromIndex) || (!s_makeIndexCell_pcell_edges_t)) := rfl
theorem pin_updateEdges_cond2 (edge_bound_X_Hi : F64) (middle_X_Lo : F64) :
    BuildFns.updateEdges_cond2 edge_bound_X_Hi middle_X_Lo = (F64.le edge_bound_X_Hi middle_X_Lo) := rfl
theorem pin_updateEdges_cond3 (a_nil : Bool) :
    BuildFns.updateEdges_cond3 a_nil = (!a_nil) := rfl
theorem pin_updateEdges_cond4 (b_nil : Bool) :
    BuildFns.updateEdges_cond4 b_nil = (!b_nil) := rfl
theorem pin_updateEdges_cond5 (edge_bound_X_Lo : F64) (middle_X_Hi : F64) :
    BuildFns.updateEdges_cond5 edge_bound_X_Lo middle_X_Hi = (F64.le middle_X_Hi edge_bound_X_Lo) := rfl
theorem pin_updateEdges_cond6 (a_nil : Bool) :
    BuildFns.updateEdges_cond6 a_nil = (!a_nil) := rfl
theorem pin_updateEdges_cond7 (b_nil : Bool) :
    BuildFns.updateEdges_cond7 b_nil = (!b_nil) := rfl
theorem pin_updateEdges_cond8 (edge_bound_Y_Hi : F64) (middle_Y_Lo : F64) :
    BuildFns.updateEdges_cond8 edge_bound_Y_Hi middle_Y_Lo = (F64.le edge_bound_Y_Hi middle_Y_Lo) := rfl
theorem pin_updateEdges_cond9 (a_nil : Bool) :
    BuildFns.updateEdges_cond9 a_nil = (!a_nil) := rfl
theorem pin_updateEdges_cond10 (b_nil : Bool) :
    BuildFns.updateEdges_cond10 b_nil = (!b_nil) := rfl
theorem pin_updateEdges_cond11 (edge_bound_Y_Lo : F64) (middle_Y_Hi : F64) :
    BuildFns.updateEdges_cond11 edge_bound_Y_Lo middle_Y_Hi = (F64.le middle_Y_Hi edge_bound_Y_Lo) := rfl
theorem pin_updateEdges_cond12 (a_nil : Bool) :
    BuildFns.updateEdges_cond12 a_nil = (!a_nil) := rfl
theorem pin_updateEdges_cond13 (b_nil : Bool) :
    BuildFns.updateEdges_cond13 b_nil = (!b_nil) := rfl
theorem pin_updateEdges_cond14 (a_nil : Bool) :
    BuildFns.updateEdges_cond14 a_nil = (!a_nil) := rfl
theorem pin_updateEdges_cond15 (b_nil : Bool) :
    BuildFns.updateEdges_cond15 b_nil = (!b_nil) := rfl
theorem pin_updateEdges_cond16 (a_nil : Bool) :
    BuildFns.updateEdges_cond16 a_nil = (!a_nil) := rfl
theorem pin_updateEdges_cond17 (b_nil : Bool) :
    BuildFns.updateEdges_cond17 b_nil = (!b_nil) := rfl
theorem pin_updateEdges_cond18 (pos : Nat) :
    BuildFns.updateEdges_cond18 pos = (decide (pos < 4)) := rfl
theorem pin_updateEdges_cond19 (len_childEdges_i_j : Nat) (len_t_shapeIDs : Nat) :
    BuildFns.updateEdges_cond19 len_childEdges_i_j len_t_shapeIDs = ((decide (len_childEdges_i_j > 0)) || (decide (len_t_shapeIDs > 0))) := rfl
theorem pin_updateEdges_cond20 (indexCellAbsorbed : Bool) :
    BuildFns.updateEdges_cond20 indexCellAbsorbed = (indexCellAbsorbed) := rfl
theorem pin_makeIndexCell_cond0 (len_edges : Nat) (len_t_shapeIDs : Nat) :
    BuildFns.makeIndexCell_cond0 len_edges len_t_shapeIDs = ((len_edges == 0) && (len_t_shapeIDs == 0)) := rfl
theorem pin_makeIndexCell_cond1 (p_Level : Nat) (ce_faceEdge_MaxLevel : Nat) :
    BuildFns.makeIndexCell_cond1 p_Level ce_faceEdge_MaxLevel = (decide (p_Level < ce_faceEdge_MaxLevel)) := rfl
theorem pin_makeIndexCell_cond2 (count : Nat) (s_maxEdgesPerCell : Nat) :
    BuildFns.makeIndexCell_cond2 count s_maxEdgesPerCell = (decide (count > s_maxEdgesPerCell)) := rfl
theorem pin_makeIndexCell_cond3 (t_isActive : Bool) (len_edges : Nat) :
    BuildFns.makeIndexCell_cond3 t_isActive len_edges = (t_isActive && (len_edges != 0)) := rfl
theorem pin_makeIndexCell_cond4 (t_atCellID_p_id : Bool) :
    BuildFns.makeIndexCell_cond4 t_atCellID_p_id = (!t_atCellID_p_id) := rfl
theorem pin_makeIndexCell_cond5 (i : Nat) (numShapes : Nat) :
    BuildFns.makeIndexCell_cond5 i numShapes = (decide (i < numShapes)) := rfl
theorem pin_makeIndexCell_cond6 (eNext : Nat) (len_edges : Nat) :
    BuildFns.makeIndexCell_cond6 eNext len_edges = (eNext != len_edges) := rfl
theorem pin_makeIndexCell_cond7 (cNextIdx : Nat) (len_cshapeIDs : Nat) :
    BuildFns.makeIndexCell_cond7 cNextIdx len_cshapeIDs = (decide (cNextIdx < len_cshapeIDs)) := rfl
theorem pin_makeIndexCell_cond8 (cshapeID : Nat) (eshapeID : Nat) :
    BuildFns.makeIndexCell_cond8 cshapeID eshapeID = (decide (cshapeID < eshapeID)) := rfl
theorem pin_makeIndexCell_cond9 (eNext : Nat) (len_edges : Nat) (edges_eNext_faceEdge_shapeID : Nat) (eshapeID : Nat) :
    BuildFns.makeIndexCell_cond9 eNext len_edges edges_eNext_faceEdge_shapeID eshapeID = ((decide (eNext < len_edges)) && (edges_eNext_faceEdge_shapeID == eshapeID)) := rfl
theorem pin_makeIndexCell_val0 (eNext : Nat) (eBegin : Nat) :
    BuildFns.makeIndexCell_val0 eNext eBegin = (eNext - eBegin) := rfl
theorem pin_makeIndexCell_cond10 (e : Nat) (eNext : Nat) :
    BuildFns.makeIndexCell_cond10 e eNext = (decide (e < eNext)) := rfl
theorem pin_makeIndexCell_cond11 (cshapeID : Nat) (eshapeID : Nat) :
    BuildFns.makeIndexCell_cond11 cshapeID eshapeID = (cshapeID == eshapeID) := rfl
theorem pin_makeIndexCell_cond12 (t_isActive : Bool) (len_edges : Nat) :
    BuildFns.makeIndexCell_cond12 t_isActive len_edges = (t_isActive && (len_edges != 0)) := rfl
theorem pin_updateBound_cond0 (uEnd : Nat) :
    BuildFns.updateBound_cond0 uEnd = (uEnd == 0) := rfl
theorem pin_updateBound_cond1 (vEnd : Nat) :
    BuildFns.updateBound_cond1 vEnd = (vEnd == 0) := rfl
theorem pin_absorbIndexCell_cond0 (t_isActive : Bool) (len_edges : Nat) (s_isShapeBeingRemoved_edges_0_faceEdge_shapeID : Bool) :
    BuildFns.absorbIndexCell_cond0 t_isActive len_edges s_isShapeBeingRemoved_edges_0_faceEdge_shapeID = ((t_isActive && (len_edges != 0)) && s_isShapeBeingRemoved_edges_0_faceEdge_shapeID) := rfl
theorem pin_absorbIndexCell_cond1 (t_atCellID_p_id : Bool) :
    BuildFns.absorbIndexCell_cond1 t_atCellID_p_id = (!t_atCellID_p_id) := rfl
theorem pin_absorbIndexCell_cond2 (s_isShapeBeingRemoved_fe_shapeID : Bool) :
    BuildFns.absorbIndexCell_cond2 s_isShapeBeingRemoved_fe_shapeID = (!s_isShapeBeingRemoved_fe_shapeID) := rfl
theorem pin_absorbIndexCell_cond3 (fe_hasInterior : Bool) :
    BuildFns.absorbIndexCell_cond3 fe_hasInterior = (fe_hasInterior) := rfl
theorem pin_absorbIndexCell_cond4 (shape_nil : Bool) :
    BuildFns.absorbIndexCell_cond4 shape_nil = (shape_nil) := rfl
theorem pin_absorbIndexCell_val0 (shape_Dimension : Nat) :
    BuildFns.absorbIndexCell_val0 shape_Dimension = (shape_Dimension == 2) := rfl
theorem pin_absorbIndexCell_cond5 (edge_hasInterior : Bool) :
    BuildFns.absorbIndexCell_cond5 edge_hasInterior = (edge_hasInterior) := rfl
theorem pin_absorbIndexCell_cond6 (trackerMoved : Bool) (numClipped : Nat) :
    BuildFns.absorbIndexCell_cond6 trackerMoved numClipped = ((!trackerMoved) && (decide (numClipped > 0))) := rfl
theorem pin_absorbIndexCell_cond7 (i : Nat) (numClipped : Nat) :
    BuildFns.absorbIndexCell_cond7 i numClipped = (decide (i < numClipped)) := rfl
theorem pin_absorbIndexCell_cond8 (edge_hasInterior : Bool) :
    BuildFns.absorbIndexCell_cond8 edge_hasInterior = (edge_hasInterior) := rfl
theorem pin_absorbIndexCell_cond9 (ok : Bool) :
    BuildFns.absorbIndexCell_cond9 ok = (!ok) := rfl
theorem pin_absorbIndexCell_cond10 (s_isShapeBeingRemoved_clipped_faceEdge_shapeID : Bool) :
    BuildFns.absorbIndexCell_cond10 s_isShapeBeingRemoved_clipped_faceEdge_shapeID = (!s_isShapeBeingRemoved_clipped_faceEdge_shapeID) := rfl
theorem pin_testAllEdges_cond0 (edge_faceEdge_hasInterior : Bool) :
    BuildFns.testAllEdges_cond0 edge_faceEdge_hasInterior = (edge_faceEdge_hasInterior) := rfl
theorem pin_countShapes_val0 :
    BuildFns.countShapes_val0 = (0) := rfl
theorem pin_countShapes_cond0 (edge_faceEdge_shapeID : Nat) (lastShapeID : Nat) :
    BuildFns.countShapes_cond0 edge_faceEdge_shapeID lastShapeID = (edge_faceEdge_shapeID == lastShapeID) := rfl
theorem pin_countShapes_cond1 (shapeIDidx : Nat) (len_shapeIDs : Nat) :
    BuildFns.countShapes_cond1 shapeIDidx len_shapeIDs = (decide (shapeIDidx < len_shapeIDs)) := rfl
theorem pin_countShapes_cond2 (clippedNext : Nat) (lastShapeID : Nat) :
    BuildFns.countShapes_cond2 clippedNext lastShapeID = (decide (clippedNext > lastShapeID)) := rfl
theorem pin_countShapes_cond3 (clippedNext : Nat) (lastShapeID : Nat) :
    BuildFns.countShapes_cond3 clippedNext lastShapeID = (decide (clippedNext < lastShapeID)) := rfl
theorem pin_countShapes_val1 (len_shapeIDs : Nat) (shapeIDidx : Nat) :
    BuildFns.countShapes_val1 len_shapeIDs shapeIDidx = (len_shapeIDs - shapeIDidx) := rfl
theorem pin_tracker_addShape_cond0 (containsFocus : Bool) :
    BuildFns.tracker_addShape_cond0 containsFocus = (containsFocus) := rfl
theorem pin_tracker_testEdge_cond0 (t_crosser_EdgeOrVertexCrossing_edge_V0_edge_V1 : Bool) :
    BuildFns.tracker_testEdge_cond0 t_crosser_EdgeOrVertexCrossing_edge_V0_edge_V1 = (t_crosser_EdgeOrVertexCrossing_edge_V0_edge_V1) := rfl
theorem pin_tracker_toggleShape_cond0 (len_t_shapeIDs : Nat) :
    BuildFns.tracker_toggleShape_cond0 len_t_shapeIDs = (len_t_shapeIDs == 0) := rfl
theorem pin_tracker_toggleShape_cond1 (t_shapeIDs_0 : Nat) (shapeID : Nat) :
    BuildFns.tracker_toggleShape_cond1 t_shapeIDs_0 shapeID = (t_shapeIDs_0 == shapeID) := rfl
theorem pin_tracker_toggleShape_cond2 (s : Nat) (shapeID : Nat) :
    BuildFns.tracker_toggleShape_cond2 s shapeID = (decide (s < shapeID)) := rfl
theorem pin_tracker_toggleShape_cond3 (s : Nat) (shapeID : Nat) :
    BuildFns.tracker_toggleShape_cond3 s shapeID = (s == shapeID) := rfl
/-- number of extracted conditions / values per function, in generation order -/
theorem counts_BuildFns :
    [(BuildFns.Metric_Value_numConds, BuildFns.Metric_Value_numVals), (BuildFns.NewShapeIndex_numConds, BuildFns.NewShapeIndex_numVals), (BuildFns.isFirstUpdate_numConds, BuildFns.isFirstUpdate_numVals), (BuildFns.applyUpdatesInternal_numConds, BuildFns.applyUpdatesInternal_numVals), (BuildFns.addShapeInternal_numConds, BuildFns.addShapeInternal_numVals), (BuildFns.addFaceEdge_numConds, BuildFns.addFaceEdge_numVals), (BuildFns.updateFaceEdges_numConds, BuildFns.updateFaceEdges_numVals), (BuildFns.shrinkToFit_numConds, BuildFns.shrinkToFit_numVals), (BuildFns.skipCellRange_numConds, BuildFns.skipCellRange_numVals), (BuildFns.updateEdges_numConds, BuildFns.updateEdges_numVals), (BuildFns.makeIndexCell_numConds, BuildFns.makeIndexCell_numVals), (BuildFns.updateBound_numConds, BuildFns.updateBound_numVals), (BuildFns.absorbIndexCell_numConds, BuildFns.absorbIndexCell_numVals), (BuildFns.testAllEdges_numConds, BuildFns.testAllEdges_numVals), (BuildFns.countShapes_numConds, BuildFns.countShapes_numVals), (BuildFns.removeShapeInternal_numConds, BuildFns.removeShapeInternal_numVals), (BuildFns.newClippedShape_numConds, BuildFns.newClippedShape_numVals), (BuildFns.NewShapeIndexCell_numConds, BuildFns.NewShapeIndexCell_numVals), (BuildFns.newTracker_numConds, BuildFns.newTracker_numVals), (BuildFns.tracker_addShape_numConds, BuildFns.tracker_addShape_numVals), (BuildFns.tracker_moveTo_numConds, BuildFns.tracker_moveTo_numVals), (BuildFns.tracker_drawTo_numConds, BuildFns.tracker_drawTo_numVals), (BuildFns.tracker_testEdge_numConds, BuildFns.tracker_testEdge_numVals), (BuildFns.tracker_setNextCellID_numConds, BuildFns.tracker_setNextCellID_numVals), (BuildFns.tracker_toggleShape_numConds, BuildFns.tracker_toggleShape_numVals), (BuildFns.tracker_saveAndClearStateBefore_numConds, BuildFns.tracker_saveAndClearStateBefore_numVals), (BuildFns.tracker_restoreStateBefore_numConds, BuildFns.tracker_restoreStateBefore_numVals), (BuildFns.tracker_lowerBound_numConds, BuildFns.tracker_lowerBound_numVals)] =
    [(0, 0), (0, 0), (0, 1), (3, 0), (3, 1), (4, 1), (4, 0), (2, 0), (1, 0), (21, 0), (13, 1), (2, 0), (11, 1), (1, 0), (4, 2), (0, 0), (0, 0), (0, 0), (0, 0), (1, 0), (0, 0), (0, 0), (1, 0), (0, 0), (4, 0), (0, 0), (0, 0), (0, 0)] := rfl
-- END PINS BuildFns

end S2Proofs.Ties.C06_Build
