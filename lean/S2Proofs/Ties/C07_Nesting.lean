/-
  S2Proofs.Ties.C07_Nesting — regenerated-instance obligations for the loop-nesting discovery of s2/polygon.go
  (`S2.Nesting`) and the wedge tests of s2/wedge_relations.go / s2/loop.go / `OrderedCCW` (`S2.Relate`).

  `S2.Generated.NestingFns.*` is rewritten from the Go source on every run by translator_c09.  The wedge functions are
  translated in full (generic over the point type, `RobustSign = G.sg`); the nesting functions work on a map of
  slices and an explicit stack and are emitted as skeletons: every condition / computed value is a definition, the
  statement structure is the `*_shape` string and the source text of the arguments of every definition is the
  `*_atoms` string.  The theorems state the hand model's step equations with the regenerated conditions and pin the
  two strings.
-/
import S2.Relate
import S2.Nesting
import S2.Generated.NestingFns
set_option linter.unusedSectionVars false
namespace S2Proofs.Ties.C07_Nesting
open S2 S2.Relate S2.Nesting S2.Generated

section wedges
variable {α : Type} [DecidableEq α] (G : Geo α)

/-- `sum := 0; if RobustSign(b,o,a) != Clockwise { sum++ } …; return sum >= 2` -/
theorem tie_OrderedCCW (a b c o : α) : orderedCCW G a b c o = NestingFns.OrderedCCW G a b c o := by
  unfold orderedCCW NestingFns.OrderedCCW
  by_cases h1 : (G.sg b o a != -1) = true <;> by_cases h2 : (G.sg c o b != -1) = true <;>
    by_cases h3 : (G.sg a o c == 1) = true <;> simp [h1, h2, h3]
theorem tie_WedgeContains (a0 ab1 a2 b0 b2 : α) :
    wedgeContains G a0 ab1 a2 b0 b2 = NestingFns.WedgeContains G a0 ab1 a2 b0 b2 := rfl
theorem tie_WedgeIntersects (a0 ab1 a2 b0 b2 : α) :
    wedgeIntersects G a0 ab1 a2 b0 b2 = NestingFns.WedgeIntersects G a0 ab1 a2 b0 b2 := rfl
theorem tie_wedgeContainsSemiwedge (a0 ab1 a2 b2 : α) (reverse : Bool) :
    wedgeContainsSemiwedge G a0 ab1 a2 b2 reverse = NestingFns.wedgeContainsSemiwedge G a0 ab1 a2 b2 reverse := by
  unfold wedgeContainsSemiwedge NestingFns.wedgeContainsSemiwedge
  by_cases h1 : b2 = a0 <;> by_cases h2 : b2 = a2 <;> simp [h1, h2]
  all_goals (first | rfl | (by_cases h3 : a2 = a0 <;> simp [h3]))
end wedges

/-! ### nesting -/
variable (c : Nat → Nat → Bool) (new : Nat)

/-- `if len(p.loops) == 1 { p.initOneLoop(); return }` -/
theorem tie_initNested_one (x : Nat) :
    initNested c [x] = [(x, 0)] ∧ NestingFns.initNested_cond0 ([x] : List Nat).length = true := ⟨rfl, rfl⟩
theorem tie_initNested_general (order : List Nat) (h : order.length ≠ 1) :
    initNested c order = (buildForest c order).flat 0 ∧ NestingFns.initNested_cond0 order.length = false := by
  constructor
  · match order, h with
    | [], _ => rfl
    | _ :: _ :: _, _ => rfl
  · simp only [NestingFns.initNested_cond0]
    have : ¬ ((order.length : Int) = 1) := by omega
    exact beq_eq_false_iff_ne.mpr this

/-- first loop of `insertLoop`: descend below the FIRST child with `child.ContainsNested(newLoop)` -/
theorem tie_descend_step (x : Nat) (k r : Forest) :
    Forest.descend c new (Forest.node x k r) =
      if NestingFns.insertLoop_cond1 (c x new) then
        some (Forest.node x (match Forest.descend c new k with | some k' => k' | none => Forest.place c new k) r)
      else (Forest.descend c new r).map (Forest.node x k) := rfl
/-- second loop: the children with `newLoop.ContainsNested(child)` move below the new loop, the others stay -/
theorem tie_inside_step (x : Nat) (k r : Forest) :
    Forest.inside c new (Forest.node x k r) =
      if NestingFns.insertLoop_cond3 (c new x) then Forest.node x k (Forest.inside c new r) else Forest.inside c new r := rfl
theorem tie_outside_step (x : Nat) (k r : Forest) :
    Forest.outside c new (Forest.node x k r) =
      if NestingFns.insertLoop_cond3 (c new x) then Forest.outside c new r else Forest.node x k (Forest.outside c new r) := rfl
/-- the loop bounds: the outer loop runs while `!done`, the second while `i < len(children)` -/
theorem tie_insertLoop_bounds (d : Bool) (i n : Nat) :
    NestingFns.insertLoop_cond0 d = !d ∧ NestingFns.insertLoop_cond2 i n = decide (i < n) := by
  constructor
  · rfl
  · simp [NestingFns.insertLoop_cond2]

/-- `initLoops`: `child.depth = depth + 1`; the stack loop runs while `len(stack) > 0`, children are pushed for
    `i = len(children)-1, …, 0` -/
theorem tie_flat_step (d x : Nat) (k r : Forest) :
    Forest.flat d (Forest.node x k r) = (x, d) :: (Forest.flat (NestingFns.initLoops_val1 d).toNat k ++ Forest.flat d r) := by
  have : (NestingFns.initLoops_val1 d).toNat = d + 1 := by simp only [NestingFns.initLoops_val1]; omega
  rw [this]; rfl
/-- the virtual root has `depth := -1`, so the top level gets depth `val1 (-1) = 0` -/
theorem tie_flat_top : NestingFns.initLoops_val1 (-1) = 0 := rfl
theorem tie_initLoops_bounds (n : Nat) (i : Int) (isNil : Bool) :
    NestingFns.initLoops_cond0 n = decide (0 < n) ∧ NestingFns.initLoops_val0 n = (n : Int) - 1 ∧
    NestingFns.initLoops_cond2 i = decide (0 ≤ i) ∧ NestingFns.initLoops_cond1 isNil = !isNil := by
  refine ⟨?_, rfl, rfl, rfl⟩
  simp [NestingFns.initLoops_cond0]

/-- `initLoopProperties`: `hasHoles` is set exactly in the `l.IsHole()` branch -/
theorem tie_initLoopProperties (h : Bool) : NestingFns.initLoopProperties_cond0 h = h := rfl

/-- `Parent(k)` as written in polygon.go: depth 0 → (-1, false); the backward scan continues while
    `k >= 0 && p.loops[k].depth <= depth` -/
theorem tie_parentGo (depths : List Nat) (k : Nat) :
    parentGo depths k =
      (let d := depths.getD k 0
       if NestingFns.Parent_cond0 d then (-1, false) else
         let before := (depths.take k).reverse
         let skipped := (before.takeWhile (fun (e : Nat) => NestingFns.Parent_cond1 0 e d)).length
         ((k : Int) - 1 - skipped, true)) := by
  have h0 : ∀ d : Nat, NestingFns.Parent_cond0 d = (d == 0) := by
    intro d
    by_cases h : d = 0
    · subst h; rfl
    · have h' : ¬ ((d : Int) = 0) := by omega
      simp only [NestingFns.Parent_cond0]
      rw [beq_eq_false_iff_ne.mpr h, beq_eq_false_iff_ne.mpr h']
  have h1 : ∀ e d : Nat, NestingFns.Parent_cond1 0 e d = decide (e ≤ d) := by
    intro e d; simp [NestingFns.Parent_cond1]
  simp only [parentGo, h0, h1]
/-- the scan stops at `k < 0` -/
theorem tie_parent_stop (e d : Int) : NestingFns.Parent_cond1 (-1) e d = false := by
  simp [NestingFns.Parent_cond1]

/-- `LastDescendant(k)`, `k ≥ 0`: the forward scan continues while `k < len(p.loops) && p.loops[k].depth > depth`;
    the result is `k - 1` -/
theorem tie_lastDescendant (depths : List Nat) (k : Nat) :
    lastDescendant depths k =
      (let d := depths.getD k 0
       k + ((depths.drop (k + 1)).takeWhile (fun (e : Nat) => NestingFns.LastDescendant_cond1 0 1 e d)).length) := by
  have h1 : ∀ e d : Nat, NestingFns.LastDescendant_cond1 0 1 e d = decide (e > d) := by
    intro e d; simp [NestingFns.LastDescendant_cond1]
  simp only [lastDescendant, h1]
theorem tie_lastDescendant_bounds (k n : Nat) (e d : Int) :
    NestingFns.LastDescendant_cond0 k = false ∧ NestingFns.LastDescendant_val0 n = (n : Int) - 1 ∧
    NestingFns.LastDescendant_val1 k = (k : Int) - 1 ∧ NestingFns.LastDescendant_cond1 n n e d = false := by
  refine ⟨?_, rfl, rfl, ?_⟩
  · simp [NestingFns.LastDescendant_cond0]
  · simp [NestingFns.LastDescendant_cond1]

/-! ### statement structure and argument texts -/
theorem shape_initNested : NestingFns.initNested_shape =
    "if cond0 {p.initOneLoop(); return}; lm := make(loopMap); range _, l := p.loops {lm.insertLoop(l, nil)}; p.loops = nil; p.initLoops(lm); p.initLoopProperties()" := rfl
theorem atoms_initNested : NestingFns.initNested_atoms =
    "cond0(len(p.loops))" := rfl
theorem shape_insertLoop : NestingFns.insertLoop_shape =
    "var children []*Loop; for[done := false] cond0 {children = lm[parent]; done = true; range _, child := children {if cond1 {parent = child; done = false; break}}}; newChildren := lm[newLoop]; for[i := 0] cond2 {child := children[i]; if cond3 {newChildren = append(newChildren, child); children = append(children[0:i], children[i+1:]...)} else {i++}}; lm[newLoop] = newChildren; lm[parent] = append(children, newLoop)" := rfl
theorem atoms_insertLoop : NestingFns.insertLoop_atoms =
    "cond0(done); cond1(child.ContainsNested(newLoop)); cond2(i, len(children)); cond3(newLoop.ContainsNested(child))" := rfl
theorem shape_initLoops : NestingFns.initLoops_shape =
    "var stack loopStack; stack.push(nil); depth := -1; for cond0 {loop := stack.pop(); if cond1 {depth = loop.depth; p.loops = append(p.loops, loop)}; children := lm[loop]; for[i := val0] cond2 [i--] {child := children[i]; child.depth = val1; stack.push(child)}}" := rfl
theorem atoms_initLoops : NestingFns.initLoops_atoms =
    "cond0(len(stack)); cond1(loop == nil); val0(len(children)); cond2(i); val1(depth)" := rfl
theorem shape_initOneLoop : NestingFns.initOneLoop_shape =
    "p.hasHoles = false; p.numVertices = len(p.loops[0].vertices); p.bound = p.loops[0].RectBound(); p.subregionBound = ExpandForSubregions(p.bound); p.loops[0].depth = 0; p.initEdgesAndIndex()" := rfl
theorem shape_initLoopProperties : NestingFns.initLoopProperties_shape =
    "p.numVertices = 0; p.bound = EmptyRect(); p.hasHoles = false; range _, l := p.loops {if cond0 {p.hasHoles = true} else {p.bound = p.bound.Union(l.RectBound())}; p.numVertices += l.NumVertices()}; p.subregionBound = ExpandForSubregions(p.bound); p.initEdgesAndIndex()" := rfl
theorem atoms_initLoopProperties : NestingFns.initLoopProperties_atoms =
    "cond0(l.IsHole())" := rfl
theorem shape_IsHole : NestingFns.IsHole_shape =
    "return l.depth&1 != 0" := rfl
theorem shape_Parent : NestingFns.Parent_shape =
    "depth := p.loops[k].depth; if cond0 {return -1, false}; for[k--] cond1 [k--] {}; return k, true" := rfl
theorem atoms_Parent : NestingFns.Parent_atoms =
    "cond0(depth); cond1(k, p.loops[k].depth, depth)" := rfl
theorem shape_LastDescendant : NestingFns.LastDescendant_shape =
    "if cond0 {return val0}; depth := p.loops[k].depth; for[k++] cond1 [k++] {}; return val1" := rfl
theorem atoms_LastDescendant : NestingFns.LastDescendant_atoms =
    "cond0(k); val0(len(p.loops)); cond1(k, len(p.loops), p.loops[k].depth, depth); val1(k)" := rfl
theorem shape_WedgeRelation : NestingFns.WedgeRelation_shape =
    "if ‹a0 == b0 && a2 == b2› {return WedgeEquals}; if cond0 {if cond1 {return WedgeProperlyContains}; if ‹a2 == b2› {return WedgeIsProperlyContained}; return WedgeProperlyOverlaps}; if cond2 {return WedgeIsProperlyContained}; if cond3 {return WedgeIsDisjoint}; return WedgeProperlyOverlaps" := rfl
theorem atoms_WedgeRelation : NestingFns.WedgeRelation_atoms =
    "cond0(OrderedCCW(a0, a2, b2, ab1)); cond1(OrderedCCW(b2, b0, a0, ab1)); cond2(OrderedCCW(a0, b0, b2, ab1)); cond3(OrderedCCW(a0, b0, a2, ab1))" := rfl

end S2Proofs.Ties.C07_Nesting
