/-
  S2Proofs.Ties.C13 — regenerated-instance obligations for the per-call option bookkeeping of s2/edge_query.go +
  s2/query_options.go and for the field writes of ShapeIndex.Reset / Add / EdgeQuery.Reset.

  `S2.Generated.QueryOptsIR.*` is rewritten from the Go source on every run by translator_c19:
   * per EdgeQuery method an EVENT LIST — option object copied (`x := *p`), setter applied (`p.MaxResults(1)…`, field
     resolved through the setter table read from query_options.go), `e.opts` saved / stored, query method called with
     which options pointer and which limit — every name resolved by go/types;
   * the skeleton (conditions, values, statement structure) of the same methods and of Reset / Add.

  Below, the event lists are RUN on an abstract heap (`runEvs`), starting from the public entry point of every
  `QKind` of the hand model `S2.History`.  `tie_override` says: exactly one options object reaches
  `findEdgesInternal`, its contents are `QKind.override k` of the caller's options, and afterwards `e.opts` points
  to the caller's object again and that object is unchanged.  This is the `d8 = true` reading of
  `S2.History.eqCall` (`stepV Fixes.all`), see `tie_eqCall`.  Writing an override through `e.opts` (the defect D8),
  dropping the restore `e.opts = userOpts`, changing `MaxResults(1)`, swapping `DistanceLimit` / `MaxError` arguments,
  or a setter of query_options.go writing another field all change the result of the run.
-/
import S2.History
import S2.Generated.QueryOptsIR
namespace S2Proofs.Ties.C13
open S2 S2.History S2.Generated S2.Generated.QueryOptsIR

/-! ### the abstract heap machine -/

structure M where
  /-- option objects; object 0 is the caller's (= the query's own) options object -/
  heap : List Opts
  /-- the object `e.opts` points to -/
  eopts : Nat
  /-- contents of the object handed to `findEdgesInternal`, one entry per call -/
  trace : List Opts
  /-- the values handed to `target.setMaxError`, one entry per (unconditional) call -/
  tmax : List Lim := []
deriving DecidableEq, Repr

structure Frame where
  param : Option Nat
  limit : Option Lim
  structs : List (Nat × Nat)
  ptrs : List (Nat × Nat)

def lookup (l : List (Nat × Nat)) (i : Nat) : Option Nat := (l.find? (·.1 == i)).map (·.2)

def resolve (m : M) (fr : Frame) : Ref → Option Nat
  | .eopts => some m.eopts
  | .param => fr.param
  | .loc i => lookup fr.ptrs i
  | .addr i => lookup fr.structs i

def evalLim (fr : Frame) : Val → Option Lim
  | .limit => fr.limit
  | .limitExpanded => match fr.limit with | some (.val l) => some (.expanded l) | _ => none
  | .limitShrunk => match fr.limit with | some (.val l) => some (.shrunk l) | _ => none
  | .straight => some .straight
  | _ => none

/-- a setter call; anything the hand model has no counterpart for stops the run -/
def setField (fr : Frame) (o : Opts) (f : Field) (v : Val) : Option Opts :=
  match f, v with
  | .maxResults, .int n => if n ≥ 0 then some { o with maxResults := n.toNat } else none
  | .distanceLimit, v => (evalLim fr v).map fun l => { o with distanceLimit := l }
  | .maxError, v => (evalLim fr v).map fun l => { o with maxError := l }
  | _, _ => none

/-- run an event list (one unit of fuel per event; calls run the callee's list in a fresh frame) -/
def runEvs : Nat → List Ev → Frame → M → Option M
  | _, [], _, m => some m
  | 0, _ :: _, _, _ => none
  | fuel + 1, ev :: rest, fr, m =>
    match ev with
    | .copy dst src =>
      match resolve m fr src with
      | none => none
      | some s =>
        match m.heap[s]? with
        | none => none
        | some v => runEvs fuel rest { fr with structs := (dst, m.heap.length) :: fr.structs } { m with heap := m.heap ++ [v] }
    | .save dst => runEvs fuel rest { fr with ptrs := (dst, m.eopts) :: fr.ptrs } m
    | .store src =>
      match resolve m fr src with
      | none => none
      | some s => runEvs fuel rest fr { m with eopts := s }
    | .set obj f v =>
      match resolve m fr obj with
      | none => none
      | some s =>
        match m.heap[s]? with
        | none => none
        | some o =>
          match setField fr o f v with
          | none => none
          | some o' => runEvs fuel rest fr { m with heap := m.heap.set s o' }
    | .tsetMaxError guards v =>
      -- only an UNCONDITIONAL `e.target.setMaxError(opts.maxError)` (opts = the options parameter) has a
      -- counterpart in the hand model (`Target.setMaxError` with the repair of D49); a guard stops the run
      match guards, v, fr.param with
      | [], .optsField .maxError, some p =>
        match m.heap[p]? with
        | none => none
        | some o => runEvs fuel rest fr { m with tmax := m.tmax ++ [o.maxError] }
      | _, _, _ => none
    | .call fn opts limit =>
      let param : Option (Option Nat) := match opts with
        | none => some none
        | some r => (resolve m fr r).map some
      let lim : Option (Option Lim) := match limit with
        | none => some none
        | some v => (evalLim fr v).map some
      match param, lim with
      | some param, some lim =>
        let m : Option M :=
          if fn = .findEdgesInternal then
            match param with
            | none => none
            | some p => (m.heap[p]?).map fun o => { m with trace := m.trace ++ [o] }
          else some m
        match m with
        | none => none
        | some m =>
          match runEvs fuel (events fn) ⟨param, lim, [], []⟩ m with
          | none => none
          | some m' => runEvs fuel rest fr m'
      | _, _ => none

/-- the public entry point of every kind of call of the hand model (`findEdge` is reached through the hook
    `VerifFindEdge(e, target) = e.findEdge(target, e.opts)`) -/
def entry : QKind → Fn × Option Nat × Option Lim
  | .findEdges => (.FindEdges, none, none)
  | .findEdge => (.findEdge, some 0, none)
  | .distance => (.Distance, none, none)
  | .isDistanceLess l => (.IsDistanceLess, none, some (.val l))
  | .isDistanceGreater l => (.IsDistanceGreater, none, some (.val l))
  | .isConsLE l => (.IsConservativeDistanceLessOrEqual, none, some (.val l))
  | .isConsGE l => (.IsConservativeDistanceGreaterOrEqual, none, some (.val l))

def runCall (k : QKind) (o : Opts) : Option M :=
  runEvs 64 (events (entry k).1) ⟨(entry k).2.1, (entry k).2.2, [], []⟩ ⟨[o], 0, [], []⟩

/-! ### the obligations -/

/-- For every kind of call and every caller options `o`: the regenerated Go event lists hand exactly one options
    object to `findEdgesInternal`, with contents `k.override o`; afterwards `e.opts` is the caller's object (0)
    again and the caller's object still holds `o`. -/
theorem tie_override (k : QKind) (o : Opts) :
    (runCall k o).map (fun m => (m.trace, m.eopts, m.heap[0]?)) = some ([k.override o], 0, some o) := by
  cases k <;> rfl

/-- … which is what `eqCall` does when the repair of D8 is on (`stepV Fixes.all`): the search runs with the
    override applied to a COPY, the query's own options are untouched. -/
theorem tie_eqCall (idx : Index) (q : EQ) (k : QKind) (thr : Nat) :
    ∃ m o', runCall k q.opts = some m ∧ m.trace = [o'] ∧ m.eopts = 0 ∧ m.heap[0]? = some q.opts ∧
      eqCall Fixes.all idx q k thr = findEdgesCore Fixes.all idx q thr o' k.report := by
  have h := tie_override k q.opts
  cases hr : runCall k q.opts with
  | none => rw [hr] at h; cases h
  | some m =>
    rw [hr] at h
    simp only [Option.map, Option.some.injEq, Prod.mk.injEq] at h
    refine ⟨m, k.override q.opts, rfl, h.1, h.2.1, h.2.2, ?_⟩
    simp only [eqCall, Fixes.all, ↓reduceIte]
    generalize findEdgesCore ⟨true, true, true, true, true, true, true, true⟩ idx q thr (k.override q.opts) k.report = r
    cases r with
    | none => rfl
    | some v => obtain ⟨a, b, c⟩ := v; rfl

/-- the setters the event lists rely on store their argument unchanged into the field of the same name -/
theorem tie_setters :
    (QueryOptsIR.setters.filter (fun s => s.1 ∈ ["MaxResults", "DistanceLimit", "MaxError", "IncludeInteriors", "UseBruteForce"])) =
      [("UseBruteForce", .useBruteForce, true), ("IncludeInteriors", .includeInteriors, true), ("MaxError", .maxError, true),
       ("MaxResults", .maxResults, true), ("DistanceLimit", .distanceLimit, true)] := by decide

/-- `newQueryOptions`: `maxResults: maxQueryResults` (= math.MaxInt32) -/
theorem tie_default_maxResults : (Opts.default.maxResults : Int) = QueryOptsIR.maxQueryResults := rfl

/-! ### conditions of findEdgesInternal that the hand model's `findEdgesCore` branches on -/

/-- Bool equation between an `Int` test on casts and the `Nat` test of the hand model -/
macro "cast_dec" : tactic => `(tactic| (intros; rw [Bool.eq_iff_iff]; simp only [decide_eq_true_eq, beq_iff_eq, bne_iff_ne, ne_eq, Bool.and_eq_true, Bool.or_eq_true]; omega))

/-- `minOptimizedEdges := e.target.maxBruteForceIndexSize() + 1`, the cache test
    `minOptimizedEdges > e.indexNumEdgesLimit && e.indexNumEdges >= e.indexNumEdgesLimit` and the brute-force test
    `opts.useBruteForce || e.indexNumEdges < minOptimizedEdges`: the right-hand sides are the expressions of
    `S2.History.findEdgesCore` (`minOpt = thr + 1`) -/
theorem tie_findEdgesInternal_conds (thr ne nel : Nat) (bf ii : Bool) :
    QueryOptsIR.findEdgesInternal_val2 thr = ((thr + 1 : Nat) : Int) ∧
    QueryOptsIR.findEdgesInternal_cond1 ((thr + 1 : Nat) : Int) nel ne = (decide (thr + 1 > nel) && decide (ne ≥ nel)) ∧
    QueryOptsIR.findEdgesInternal_cond2 bf ne ((thr + 1 : Nat) : Int) = (bf || decide (ne < thr + 1)) ∧
    QueryOptsIR.findEdgesInternal_cond0 ii = ii := by
  refine ⟨by simp only [QueryOptsIR.findEdgesInternal_val2]; omega, ?_, ?_, rfl⟩
  · simp only [QueryOptsIR.findEdgesInternal_cond1]; cast_dec
  · simp only [QueryOptsIR.findEdgesInternal_cond2]; cases bf <;> simp <;> omega

/-! ### Reset / Add: the hand model's field updates next to the regenerated statement lists -/

/-- `ShapeIndex.Reset` (shape below: shapes, nextID, cellMap, cells, pendingAdditionsPos, pendingRemovals, status) -/
theorem tie_Index_reset (s : Index) : Index.reset Fixes.all s = ⟨[], 0, 0, .fresh, [], [], []⟩ := rfl
/-- `ShapeIndex.Add`: `shapes[nextID] = shape; nextID++; status = stale; return nextID - 1` -/
theorem tie_Index_add (s : Index) (sh : Shape) :
    s.add sh = ({ s with shapes := s.shapes ++ [sh], nextID := s.nextID + 1, status := .stale },
      (QueryOptsIR.ShapeIndex_Add_val0 ((s.nextID + 1 : Nat) : Int)).toNat) := by
  simp only [Index.add, QueryOptsIR.ShapeIndex_Add_val0]
  congr 1
  omega
/-- `EdgeQuery.Reset`: indexNumEdges, indexNumEdgesLimit, indexCovering (+ indexCells, scratch) -/
theorem tie_EQ_reset (q : EQ) : q.reset = { q with numEdges := 0, numEdgesLimit := 0, covering := none } := rfl

/-! ### statement structure of every translated function, struct layouts -/
theorem tie_newQueryOptions_shape : QueryOptsIR.newQueryOptions_shape =
    "return &queryOptions{maxResults: maxQueryResults, distanceLimit: d.infinity().chordAngle(), maxError: 0, includeInteriors: true, useBruteForce: false, region: nil}" := rfl
theorem tie_FindEdges_shape : QueryOptsIR.FindEdges_shape =
    "return e.findEdges(target, e.opts)" := rfl
theorem tie_Distance_shape : QueryOptsIR.Distance_shape =
    "return e.findEdge(target, e.opts).Distance()" := rfl
theorem tie_IsDistanceLess_shape : QueryOptsIR.IsDistanceLess_shape =
    "opts := *e.opts; opts.MaxResults(1). DistanceLimit(limit). MaxError(s1.StraightChordAngle); return val0" := rfl
theorem tie_IsDistanceGreater_shape : QueryOptsIR.IsDistanceGreater_shape =
    "return e.IsDistanceLess(target, limit)" := rfl
theorem tie_IsConservativeDistanceLessOrEqual_shape : QueryOptsIR.IsConservativeDistanceLessOrEqual_shape =
    "return e.IsDistanceLess(target, limit.Expanded(minUpdateDistanceMaxError(limit)))" := rfl
theorem tie_IsConservativeDistanceGreaterOrEqual_shape : QueryOptsIR.IsConservativeDistanceGreaterOrEqual_shape =
    "return e.IsDistanceGreater(target, limit.Expanded(val0))" := rfl
theorem tie_findEdges_shape : QueryOptsIR.findEdges_shape =
    "userOpts := e.opts; e.findEdgesInternal(target, opts); e.results = sortAndUniqueResults(e.results); if cond0 {e.results = e.results[:opts.maxResults]}; e.opts = userOpts; return e.results" := rfl
theorem tie_findEdge_shape : QueryOptsIR.findEdge_shape =
    "single := *opts; single.MaxResults(1); e.findEdges(target, &single); if cond0 {return e.results[0]}; return newEdgeQueryResult(target)" := rfl
theorem tie_findEdgesInternal_shape : QueryOptsIR.findEdgesInternal_shape =
    "e.target = target; e.opts = opts; e.testedEdges = make(map[ShapeEdgeID]uint32); e.distanceLimit = target.distance().fromChordAngle(opts.distanceLimit); e.results = make([]EdgeQueryResult, 0); if ‹e.distanceLimit == target.distance().zero()› {return}; if cond0 {shapeIDs := map[int32]struct{}{}; e.target.visitContainingShapes(e.index, func{shapeIDs[e.index.idForShape(containingShape)] = struct{}{}; return val0}); range shapeID := shapeIDs {e.addResult(EdgeQueryResult{target.distance().zero(), shapeID, -1})}; if ‹e.distanceLimit == target.distance().zero()› {return}}; targetTakesMaxError := e.target.setMaxError(opts.maxError); targetUsesMaxError := val1; e.useConservativeCellDistance = targetUsesMaxError && (e.distanceLimit == target.distance().infinity() || target.distance().zero().less(e.distanceLimit.sub(target.distance().fromChordAngle(opts.maxError)))); minOptimizedEdges := val2; if cond1 {e.indexNumEdges = e.index.NumEdgesUpTo(minOptimizedEdges); e.indexNumEdgesLimit = minOptimizedEdges}; if cond2 {e.avoidDuplicates = false; e.findEdgesBruteForce()} else {e.avoidDuplicates = val3; e.findEdgesOptimized()}" := rfl
theorem tie_ShapeIndex_Reset_shape : QueryOptsIR.ShapeIndex_Reset_shape =
    "s.shapes = make(map[int32]Shape); s.nextID = 0; s.cellMap = make(map[CellID]*ShapeIndexCell); s.cells = nil; s.pendingAdditionsPos = 0; s.pendingRemovals = nil; atomic.StoreInt32(&s.status, fresh)" := rfl
theorem tie_ShapeIndex_Add_shape : QueryOptsIR.ShapeIndex_Add_shape =
    "s.shapes[s.nextID] = shape; s.nextID++; atomic.StoreInt32(&s.status, stale); return val0" := rfl
theorem tie_EdgeQuery_Reset_shape : QueryOptsIR.EdgeQuery_Reset_shape =
    "e.indexNumEdges = 0; e.indexNumEdgesLimit = 0; e.indexCovering = nil; e.indexCells = nil" := rfl
theorem tie_queryOptions_fields : QueryOptsIR.queryOptions_fields =
    "maxResults int; distanceLimit s1.ChordAngle; maxError s1.ChordAngle; includeInteriors bool; useBruteForce bool; region s2.Region" := rfl
theorem tie_ShapeIndex_fields : QueryOptsIR.ShapeIndex_fields =
    "shapes map[int32]s2.Shape; maxEdgesPerCell int; nextID int32; cellMap map[s2.CellID]*s2.ShapeIndexCell; cells []s2.CellID; status int32; mu sync.RWMutex; pendingAdditionsPos int32; pendingRemovals []*s2.removedShape" := rfl

end S2Proofs.Ties.C13
