/-
  S2Proofs.Ties.C11 — regenerated-instance obligations for s2/cellunion.go.

  `S2.Generated.CellUnionFns.*` is rewritten from the Go source on every run by translator_c01.
   * `areSiblings`, `ContainsCellID`, `IntersectsCellID` are translated in full and tied to the hand model
     (`sort.Search` = the library's binary search, which is what `searchGT` models);
   * `lowerBound` (return inside a loop) and the two-pointer loop of `CellUnionFromIntersection` (a slice grown by
     `append`) are outside the translated subset: the translator extracts every `if`/`for` condition in source
     order, and the step equations below say that the hand model's loops branch on exactly these conditions, in
     this nesting.  A flipped comparison, `j-1` → `j`, `RangeMax` → `RangeMin` … breaks the step equation.
-/
import S2.CellUnion
import S2.Generated.CellUnionFns
namespace S2Proofs.Ties.C11
open S2 S2.Generated

theorem tie_areSiblings : CellUnion.areSiblings = CellUnionFns.areSiblings := rfl

theorem searchGT_go_eq (a : Array UInt64) (id : UInt64) : ∀ fuel i j,
    CellUnion.searchGT.go a id fuel i j = CellUnionFns.sortSearch.go (fun i => decide (id < a[i]!)) fuel i j := by
  intro fuel
  induction fuel with
  | zero => intro i j; rfl
  | succ n ih =>
    intro i j
    simp only [CellUnion.searchGT.go, CellUnionFns.sortSearch.go, ih]

/-- `sort.Search(len(*cu), func(i int) bool { return id < (*cu)[i] })` -/
theorem tie_search (a : Array UInt64) (id : UInt64) :
    CellUnion.searchGT a id = CellUnionFns.sortSearch a.size (fun i => decide (id < a[i]!)) := by
  simp only [CellUnion.searchGT, CellUnionFns.sortSearch, searchGT_go_eq]

theorem tie_ContainsCellID (cu : List UInt64) (id : UInt64) :
    CellUnion.containsCellID cu id = CellUnionFns.ContainsCellID cu.toArray id := by
  simp only [CellUnion.containsCellID, CellUnionFns.ContainsCellID, tie_search]
  rfl

theorem tie_IntersectsCellID (cu : List UInt64) (id : UInt64) :
    CellUnion.intersectsCellID cu id = CellUnionFns.IntersectsCellID cu.toArray id := by
  simp only [CellUnion.intersectsCellID, CellUnionFns.IntersectsCellID, tie_search]
  rfl

/-- `for i := begin; i < end; i++ { if (*cu)[i] >= id { return i } }; return end` -/
theorem tie_lowerBound_step (a : Array UInt64) (e : Nat) (id : UInt64) (fuel i : Nat) :
    CellUnion.lowerBound.go a e id (fuel + 1) i =
      if CellUnionFns.lowerBound_cond0 i e then
        (if CellUnionFns.lowerBound_cond1 a i id then i else CellUnion.lowerBound.go a e id fuel (i + 1))
      else e := by
  simp only [CellUnion.lowerBound.go, CellUnionFns.lowerBound_cond0, CellUnionFns.lowerBound_cond1, decide_eq_true_eq]

/-- `for i := begin; …`: the scan starts at `begin` and has at most `end - begin` iterations -/
theorem tie_lowerBound_init (a : Array UInt64) (b e : Nat) (id : UInt64) :
    CellUnion.lowerBound a b e id = CellUnion.lowerBound.go a e id (e - b) (CellUnionFns.lowerBound_init0 b) := rfl

theorem tie_lowerBound_conds : CellUnionFns.lowerBound_numConds = 2 := rfl

/-- the loop of `CellUnionFromIntersection`: the hand model's step branches on the eight conditions of the Go
    source, in the Go nesting (`cond3`/`cond6` are evaluated at the NEW j / i returned by lowerBound). -/
theorem tie_intersection_step (x y : Array UInt64) (fuel i j : Nat) (acc : List UInt64) :
    CellUnion.intersectionRaw.go x y (fuel + 1) i j acc =
      if CellUnionFns.CellUnionFromIntersection_cond0 i x j y then
        let iMin := CellIDFns.RangeMin x[i]!
        let jMin := CellIDFns.RangeMin y[j]!
        if CellUnionFns.CellUnionFromIntersection_cond1 iMin jMin then
          if CellUnionFns.CellUnionFromIntersection_cond2 x i y j then
            CellUnion.intersectionRaw.go x y fuel (i + 1) j (x[i]! :: acc)
          else
            let j' := CellUnion.lowerBound y (j + 1) y.size iMin
            let j' := if CellUnionFns.CellUnionFromIntersection_cond3 x i y j' then j' - 1 else j'
            CellUnion.intersectionRaw.go x y fuel i j' acc
        else if CellUnionFns.CellUnionFromIntersection_cond4 jMin iMin then
          if CellUnionFns.CellUnionFromIntersection_cond5 y j x i then
            CellUnion.intersectionRaw.go x y fuel i (j + 1) (y[j]! :: acc)
          else
            let i' := CellUnion.lowerBound x (i + 1) x.size jMin
            let i' := if CellUnionFns.CellUnionFromIntersection_cond6 y j x i' then i' - 1 else i'
            CellUnion.intersectionRaw.go x y fuel i' j acc
        else
          if CellUnionFns.CellUnionFromIntersection_cond7 x i y j then
            CellUnion.intersectionRaw.go x y fuel (i + 1) j (x[i]! :: acc)
          else CellUnion.intersectionRaw.go x y fuel i (j + 1) (y[j]! :: acc)
      else acc := by
  simp only [CellUnion.intersectionRaw.go, CellUnionFns.CellUnionFromIntersection_cond0,
    CellUnionFns.CellUnionFromIntersection_cond1, CellUnionFns.CellUnionFromIntersection_cond2,
    CellUnionFns.CellUnionFromIntersection_cond3, CellUnionFns.CellUnionFromIntersection_cond4,
    CellUnionFns.CellUnionFromIntersection_cond5, CellUnionFns.CellUnionFromIntersection_cond6,
    CellUnionFns.CellUnionFromIntersection_cond7, decide_eq_true_eq]
  rfl

theorem tie_intersection_conds : CellUnionFns.CellUnionFromIntersection_numConds = 8 := rfl

end S2Proofs.Ties.C11
