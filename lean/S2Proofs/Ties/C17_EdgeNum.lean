/-
  S2Proofs.Ties.C17_EdgeNum — regenerated-instance obligations for s2/edge_distances.go, the parts of s2/point.go,
  s2/util.go and s1/chordangle.go it uses.

  `S2.Generated.EdgeNumFns.*` is rewritten from the Go source on every run of ./check by translator_c16 (see
  S2Proofs.Ties.C16_EdgeNum for the scheme and for `handExt`).  The theorems say that the hand model
  `S2.EdgeNum` IS the generated function — same operators, operands, order, constants, tests.
  The libm-dependent functions (`ChordAngle.Angle`, `DistanceFraction`, `Interpolate`) are not in the hand model;
  for them the ties state the generated function in terms of the hand model's parts with libm as a parameter.
-/
import S2.EdgeNum
import S2.Generated.EdgeNumFns
import S2Proofs.Ties.C16_EdgeNum
namespace S2Proofs.Ties.C17_EdgeNum
open S2 S2.EdgeNum S2.Generated S2.Generated.EdgeNumFns S2Proofs.Ties.C16_EdgeNum

section
variable (sin cos asin : F64 → F64) (atan2 : F64 → F64 → F64)
local notation "E" => handExt sin cos asin atan2

/-! ### constants (folded by go/types, ONE rounding) against the hand model's, bit for bit -/
/-- s1's `var dblEpsilon = 2.220446049e-16` -/
theorem tie_const_s1Eps : s1EpsF = pkgvar_s1_dblEpsilon := by decide +kernel
/-- `4.75*dblEpsilon`, `8*dblEpsilon*dblEpsilon` of interiorDist -/
theorem tie_const_idC1 : idC1 = interiorDist_k0 := by decide +kernel
theorem tie_const_idC2 : idC2 = interiorDist_k1 := by decide +kernel
/-- `2.5+2*sqrt3`, `2+2*sqrt3/3`, `(23+16/sqrt3)*dblEpsilon`, `dblEpsilon` of minUpdateInteriorDistanceMaxError -/
theorem tie_const_meK1 : meK1 = minUpdateInteriorDistanceMaxError_k5 := by decide +kernel
theorem tie_const_meK2 : meK2 = minUpdateInteriorDistanceMaxError_k7 := by decide +kernel
theorem tie_const_meK3 : meK3 = minUpdateInteriorDistanceMaxError_k10 := by decide +kernel
theorem tie_const_dblEpsilon : dblEpsilonF = minUpdateInteriorDistanceMaxError_k11 := by decide +kernel

/-! ### s1/chordangle.go as used by the hand model S2.EdgeNum -/
theorem tie_ChordAngleFromSquaredLength : @chordFromLen2 = @ChordAngleFromSquaredLength := rfl
theorem tie_MaxPointError : @maxPointError = @ChordAngle_MaxPointError := by
  funext c
  simp only [maxPointError, mpC1, mpC2, tie_const_s1Eps]
  rfl
theorem tie_Expanded : @chordExpanded = @ChordAngle_Expanded := rfl

/-! ### s2/point.go, s2/util.go -/
/-- `pointCrossMinNorm2 = 1.6052e-29` (repair D60): the hand constant is the regenerated one, and that is the decimal
    literal rounded once to nearest even -/
theorem tie_const_pointCrossMinNorm2 : pointCrossMinNorm2 = Point_PointCross_k0 := by decide +kernel
theorem tie_const_pointCrossMinNorm2_decimal :
    (Pred.Q.mk 16052 (10 ^ 33)).toF64 = pointCrossMinNorm2 := by decide +kernel
/-- `PointCross` (repaired, D60): float value when `Norm2 >= pointCrossMinNorm2`, else the exact cross product through
    `PreciseVector.Vector()`, `Ortho` only when the exact product `IsZero` -/
theorem tie_PointCross : @pointCross = @Point_PointCross E := by
  funext p op
  simp only [pointCross, pointCrossExact, Point_PointCross, tie_Vector_Ortho, tie_const_pointCrossMinNorm2, handExt,
    toVector_e _ (-2148)]
  rfl
theorem tie_ChordAngleBetweenPoints : @chordBetween = @ChordAngleBetweenPoints := rfl
/-- `maxChordAngle(x, y)` = `if y > x then y else x` -/
theorem tie_maxChordAngle (x y : F64) : (if F64.gt y x then y else x) = maxChordAngle x [y] := rfl
theorem tie_minChordAngle (x y : F64) : (if F64.lt y x then y else x) = minChordAngle x [y] := rfl

/-! ### s2/edge_distances.go -/
theorem tie_interiorDist : @EdgeNum.interiorDist = @EdgeNumFns.interiorDist E := by
  funext x a b minDist always
  simp only [EdgeNum.interiorDist, tie_const_idC1, tie_const_idC2, tie_PointCross sin cos asin atan2]
  rfl

theorem tie_updateMinDistance : @EdgeNum.updateMinDistance = @EdgeNumFns.updateMinDistance E := by
  funext x a b minDist always
  simp only [EdgeNum.updateMinDistance, EdgeNumFns.updateMinDistance, tie_interiorDist sin cos asin atan2]
  rfl

theorem tie_UpdateMinDistance : @updateMinDistancePub = @UpdateMinDistance E := by
  funext x a b minDist
  simp only [updateMinDistancePub, UpdateMinDistance, tie_updateMinDistance sin cos asin atan2]

theorem tie_IsDistanceLess : @isDistanceLess = @IsDistanceLess E := by
  funext x a b limit
  simp only [isDistanceLess, IsDistanceLess, tie_UpdateMinDistance sin cos asin atan2]

theorem tie_UpdateMinInteriorDistance : @updateMinInteriorDistance = @UpdateMinInteriorDistance E := by
  funext x a b minDist
  simp only [updateMinInteriorDistance, UpdateMinInteriorDistance, tie_interiorDist sin cos asin atan2]

theorem tie_IsInteriorDistanceLess : @isInteriorDistanceLess = @IsInteriorDistanceLess E := by
  funext x a b limit
  simp only [isInteriorDistanceLess, IsInteriorDistanceLess, tie_UpdateMinInteriorDistance sin cos asin atan2]

/-- `DistanceFromSegment` = `ChordAngle.Angle` (libm asin) of the hand model's chord -/
theorem tie_DistanceFromSegment (x a b : V3) :
    DistanceFromSegment E x a b = ChordAngle_Angle E (distanceFromSegmentChord x a b) := by
  simp only [DistanceFromSegment, distanceFromSegmentChord, tie_updateMinDistance sin cos asin atan2]
  rfl

theorem tie_UpdateMaxDistance : @updateMaxDistance = @UpdateMaxDistance E := by
  funext x a b maxDist
  simp only [updateMaxDistance, UpdateMaxDistance, tie_updateMinDistance sin cos asin atan2, tie_MaxPointError, tie_Expanded]
  rfl

theorem tie_Project : @project = @Project E := by
  funext x a b
  simp only [project, Project, tie_PointCross sin cos asin atan2]
  rfl

theorem tie_minUpdateInteriorDistanceMaxError :
    @EdgeNum.minUpdateInteriorDistanceMaxError = @EdgeNumFns.minUpdateInteriorDistanceMaxError := by
  funext dist
  simp only [EdgeNum.minUpdateInteriorDistanceMaxError, tie_const_meK1, tie_const_meK2, tie_const_meK3, tie_const_dblEpsilon]
  rfl

theorem tie_minUpdateDistanceMaxError : @EdgeNum.minUpdateDistanceMaxError = @EdgeNumFns.minUpdateDistanceMaxError := by
  funext dist
  simp only [EdgeNum.minUpdateDistanceMaxError, EdgeNumFns.minUpdateDistanceMaxError, tie_minUpdateInteriorDistanceMaxError,
    tie_MaxPointError]

/-- `CrossingSign(..) == Cross` -/
theorem tie_crosses (a b c d : V3) : crosses a b c d = ((E).CrossingSign a b c d == 0) := by
  simp only [crosses, handExt]
  cases Contain.crossingSign Contain.floatGeo a b c d <;> rfl

theorem tie_updateEdgePairMinDistance : @EdgeNum.updateEdgePairMinDistance = @EdgeNumFns.updateEdgePairMinDistance E := by
  funext a0 a1 b0 b1 minDist
  simp only [EdgeNum.updateEdgePairMinDistance, EdgeNumFns.updateEdgePairMinDistance, tie_crosses sin cos asin atan2,
    tie_UpdateMinDistance sin cos asin atan2]
  rfl

theorem tie_updateEdgePairMaxDistance : @EdgeNum.updateEdgePairMaxDistance = @EdgeNumFns.updateEdgePairMaxDistance E := by
  funext a0 a1 b0 b1 maxDist
  simp only [EdgeNum.updateEdgePairMaxDistance, EdgeNumFns.updateEdgePairMaxDistance, tie_crosses sin cos asin atan2,
    tie_UpdateMaxDistance sin cos asin atan2]
  rfl

/-- the vertex selection of `EdgePairClosestPoints`: `closestVertex := 0; if ok1 { = 1 }; if ok2 { = 2 }; if ok3 { = 3 }`
    followed by `switch closestVertex` (default: panic) against the hand model's `closestVertex` + `match` -/
theorem closest_sel {α : Type} [Inhabited α] (o1 o2 o3 : Bool) (A B C D : α) :
    (match (if o3 then 3 else if o2 then 2 else if o1 then 1 else 0 : Nat) with
      | 0 => A | 1 => B | 2 => C | _ => D) =
    (let cv : Int := 0
     let cv : Int := if o1 then 1 else cv
     let cv : Int := if o2 then 2 else cv
     let cv : Int := if o3 then 3 else cv
     if cv == 0 then A else if cv == 1 then B else if cv == 2 then C else if cv == 3 then D else default) := by
  cases o1 <;> cases o2 <;> cases o3 <;> rfl

theorem tie_EdgePairClosestPoints : @edgePairClosestPoints = @EdgePairClosestPoints E := by
  funext a0 a1 b0 b1
  simp only [edgePairClosestPoints, closestVertex, EdgePairClosestPoints, tie_crosses sin cos asin atan2,
    tie_UpdateMinDistance sin cos asin atan2, tie_updateMinDistance sin cos asin atan2, tie_Project sin cos asin atan2,
    tie_Intersection sin cos asin atan2]
  split
  · rfl
  · let m0 := (EdgeNumFns.updateMinDistance E a0 b0 b1 zero_F64 true).1
    let r1 := UpdateMinDistance E a1 b0 b1 m0
    let r2 := UpdateMinDistance E b0 a0 a1 r1.1
    let r3 := UpdateMinDistance E b1 a0 a1 r2.1
    exact closest_sel (α := V3 × V3) r1.2 r2.2 r3.2 (a0, Project E a0 b0 b1) (a1, Project E a1 b0 b1)
      (Project E b0 a0 a1, b0) (Project E b1 a0 a1, b1)

/-! ### libm-dependent functions: the generated function over the hand model's vector operations, libm abstract -/
/-- `r3.Vector.Angle` = `atan2(|v × ov|, v · ov) * 1` (`* s1.Radian`) -/
theorem tie_Vector_Angle (v ov : V3) : Vector_Angle E v ov = atan2 (v.cross ov).norm (v.dot ov) * f1 := rfl
/-- `DistanceFraction` = `d0 / (d0 + d1)` with `d0 = x.Angle(a)`, `d1 = x.Angle(b)` -/
theorem tie_DistanceFraction (x a b : V3) :
    DistanceFraction E x a b = Vector_Angle E x a / (Vector_Angle E x a + Vector_Angle E x b) := rfl
/-- `InterpolateAtDistance` = `(a * cos(ax) + tangent * (sin(ax) / |tangent|)).Normalize()` with
    `tangent = a.PointCross(b) × a` (the hand model's `pointCross`) -/
theorem tie_InterpolateAtDistance (ax : F64) (a b : V3) :
    InterpolateAtDistance E ax a b =
      ((a.mul (cos ax)).add (((pointCross a b).cross a).mul (sin ax / ((pointCross a b).cross a).norm))).normalize := by
  simp only [InterpolateAtDistance, tie_PointCross sin cos asin atan2]
  rfl
/-- `Interpolate`: `t == 0` returns a, `t == 1` returns b (bitwise, as the C17 oracle checks), else
    `InterpolateAtDistance(t * a.Angle(b), a, b)` -/
theorem tie_Interpolate (t : F64) (a b : V3) :
    Interpolate E t a b =
      if F64.feq t fz then a else if F64.feq t f1 then b else InterpolateAtDistance E (t * Vector_Angle E a b) a b := rfl
/-- `ChordAngle.Angle`: negative → −1, +Inf → +Inf, else `2 * asin(0.5 * sqrt(c))` -/
theorem tie_ChordAngle_Angle (c : F64) :
    ChordAngle_Angle E c =
      if F64.lt c fz then fNegOne else if (c.isInf && !c.signBit) then fInf else f2 * asin (fhalf * F64.sqrt c) := rfl

end
end S2Proofs.Ties.C17_EdgeNum
