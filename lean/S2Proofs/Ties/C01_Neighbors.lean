/-
  S2Proofs.Ties.C01_Neighbors — regenerated-instance obligations for the (face,i,j) <-> Hilbert position
  functions and the neighbour functions of s2/cellid.go.

  `S2.Generated.CellIDNbrFns.*` is rewritten from the Go source on every run by translator_c01
  (translator_c01/nbr.go).  Each theorem says that the hand-written model (`S2.Hilbert.*`, `S2.STUV.*`)
  IS the regenerated function.
-/
import S2.CellID
import S2.Hilbert
import S2.STUV
import S2.Generated.CellIDFns
import S2.Generated.CellIDNbrFns
import S2Proofs.Ties.C01
import S2Proofs.HilbertNeighbors
namespace S2Proofs.Ties.C01
open S2 S2.Generated

/-! ### folds: two step functions that agree on the elements of the list give the same fold -/
theorem foldl_congr_mem {α β : Type} (f g : α → β → α) (l : List β)
    (h : ∀ a k, k ∈ l → f a k = g a k) : ∀ a, l.foldl f a = l.foldl g a := by
  induction l with
  | nil => intro a; rfl
  | cons x xs ih =>
    intro a
    simp only [List.foldl_cons]
    rw [h a x (List.mem_cons_self ..)]
    exact ih (fun a k hk => h a k (List.mem_cons_of_mem _ hk)) _

theorem mem_countdown7 {k : Nat} (h : k ∈ [7, 6, 5, 4, 3, 2, 1, 0]) : k ≤ 7 := by
  simp only [List.mem_cons, List.not_mem_nil, or_false] at h
  omega

/-! ### cellIDFromFaceIJ -/
theorem tie_cellIDFromFaceIJ : Hilbert.cellIDFromFaceIJ = CellIDNbrFns.cellIDFromFaceIJ := by
  funext f i j
  unfold Hilbert.cellIDFromFaceIJ CellIDNbrFns.cellIDFromFaceIJ
  simp only []
  rw [foldl_congr_mem _ (CellIDNbrFns.cellIDFromFaceIJ_body1 i j)]
  · rfl
  · intro a k hk
    have hk7 := mem_countdown7 hk
    have h64 : k * 2 * 4 < 64 := by omega
    simp only [CellIDNbrFns.cellIDFromFaceIJ_body1, CellIDFns.shl64, h64, if_true, ← tie_lookupPos]
    rfl

/-! ### faceIJOrientation
    The hand model computes `nbits` from k (`if k == 7 then MaxLevel - 7*lookupBits else lookupBits`); the Go code
    carries it as a loop variable (`nbits := MaxLevel - 7*lookupBits` before the loop, `nbits = lookupBits` at the
    end of the body).  The two folds are related by induction over the list. -/

/-- the step function of the hand model's fold (verbatim copy; `hand_faceIJOrientation` is `rfl`) -/
def fioStep (ci : UInt64) (st : Nat × Nat × Nat) (k : Nat) : Nat × Nat × Nat :=
  let (i, j, orientation) := st
  let nbits := if k == 7 then CellID.maxLevel - 7 * Hilbert.lookupBits else Hilbert.lookupBits
  let orientation := orientation +
    ((((ci >>> UInt64.ofNat (k * 2 * Hilbert.lookupBits + 1)).toNat) &&& ((1 <<< (2 * nbits)) - 1)) <<< 2)
  let orientation := Hilbert.lookupIJ[orientation]!
  let i := i + ((orientation >>> (Hilbert.lookupBits + 2)) <<< (k * Hilbert.lookupBits))
  let j := j + (((orientation >>> 2) &&& ((1 <<< Hilbert.lookupBits) - 1)) <<< (k * Hilbert.lookupBits))
  (i, j, orientation &&& (Hilbert.swapMask ||| Hilbert.invertMask))

private theorem hand_faceIJOrientation (ci : UInt64) : Hilbert.faceIJOrientation ci =
    (let r := [7, 6, 5, 4, 3, 2, 1, 0].foldl (fioStep ci) (0, 0, CellID.face ci &&& Hilbert.swapMask)
     (CellID.face ci, r.1, r.2.1,
       if CellID.lsb ci &&& 0x1111111111111110 != 0 then r.2.2 ^^^ Hilbert.swapMask else r.2.2)) := rfl

/-- the generated loop state: the hand model's state plus the carried `nbits` -/
def fioExt (r : Nat × Nat × Nat) (nbits : Nat) : Nat × Nat × Nat × Nat := (r.1, r.2.1, r.2.2, nbits)

/-- one iteration: generated body = hand step, provided the carried `nbits` is what the hand model computes from k -/
theorem fio_step (ci : UInt64) (a : Nat × Nat × Nat) (k : Nat) (hk : k ≤ 7) :
    CellIDNbrFns.faceIJOrientation_body1 ci (fioExt a (if k == 7 then 2 else 4)) k = fioExt (fioStep ci a k) 4 := by
  have h64 : k * 2 * 4 + 1 < 64 := by omega
  simp only [CellIDNbrFns.faceIJOrientation_body1, fioExt, fioStep, CellIDFns.shr64, h64, if_true, ← tie_lookupIJ,
    Hilbert.lookupBits, CellID.maxLevel, Hilbert.swapMask, Hilbert.invertMask]
  rfl

theorem fio_tail (ci : UInt64) : ∀ (l : List Nat), (∀ k ∈ l, k ≤ 6) → ∀ a : Nat × Nat × Nat,
    l.foldl (CellIDNbrFns.faceIJOrientation_body1 ci) (fioExt a 4) = fioExt (l.foldl (fioStep ci) a) 4 := by
  intro l
  induction l with
  | nil => intro _ a; rfl
  | cons x xs ih =>
    intro h a
    have hx : x ≤ 6 := h x (List.mem_cons_self ..)
    have hx7 : (x == 7) = false := by simp; omega
    have := fio_step ci a x (by omega)
    rw [hx7] at this
    simp only [List.foldl_cons]
    rw [show (if false = true then 2 else 4) = 4 from rfl] at this
    rw [this]
    exact ih (fun k hk => h k (List.mem_cons_of_mem _ hk)) _

theorem tie_faceIJOrientation : Hilbert.faceIJOrientation = CellIDNbrFns.faceIJOrientation := by
  funext ci
  rw [hand_faceIJOrientation]
  unfold CellIDNbrFns.faceIJOrientation
  have h7 := fio_step ci (0, 0, CellID.face ci &&& Hilbert.swapMask) 7 (by omega)
  have ht := fio_tail ci [6, 5, 4, 3, 2, 1, 0] (by intro k hk; simp at hk; omega)
    (fioStep ci (0, 0, CellID.face ci &&& Hilbert.swapMask) 7)
  simp only [List.foldl_cons (l := [6, 5, 4, 3, 2, 1, 0]) (a := 7)]
  rw [show (0, 0, CellIDFns.Face ci &&& 1, 2) = fioExt (0, 0, CellID.face ci &&& Hilbert.swapMask) (if 7 == 7 then 2 else 4) from rfl]
  rw [h7, ht]
  rfl

/-! ### clampInt, cellIDFromFaceIJWrap, cellIDFromFaceIJSame  (Go int = Int in the generated code)
    The face `f` is a `Nat` in the hand model and an `Int` in the generated code: the ties are stated at `(f : Int)`.
    `faceUVToXYZ`, `xyzToFaceUV`, `stToIJ` are the same hand models on both sides (referred to by name). -/
theorem tie_clampInt : STUV.clampInt = CellIDNbrFns.clampInt := rfl

/-- `math.Nextafter(1, 2)` evaluated in the soft-float model is the constant of the hand model -/
theorem nextafter_one_two :
    F64.nextafter (⟨0x3FF0000000000000⟩ : F64) (⟨0x4000000000000000⟩ : F64) = (⟨0x3FF0000000000001⟩ : F64) := by
  decide

/-- `i << 1` on int = `2 * i` -/
theorem ishl_one (i : Int) : CellIDNbrFns.ishl i 1 = 2 * i := by
  simp only [CellIDNbrFns.ishl]; omega

theorem tie_cellIDFromFaceIJWrap (f : Nat) (i j : Int) :
    STUV.cellIDFromFaceIJWrap f i j = CellIDNbrFns.cellIDFromFaceIJWrap (f : Int) i j := by
  unfold STUV.cellIDFromFaceIJWrap CellIDNbrFns.cellIDFromFaceIJWrap
  simp only [nextafter_one_two, ishl_one, ← tie_clampInt, ← tie_cellIDFromFaceIJ, Int.toNat_natCast]
  rfl

theorem tie_cellIDFromFaceIJSame (f : Nat) (i j : Int) (same : Bool) :
    STUV.cellIDFromFaceIJSame f i j same = CellIDNbrFns.cellIDFromFaceIJSame (f : Int) i j same := by
  unfold STUV.cellIDFromFaceIJSame CellIDNbrFns.cellIDFromFaceIJSame
  simp only [← tie_cellIDFromFaceIJWrap, ← tie_cellIDFromFaceIJ, Int.toNat_natCast]

/-! ### EdgeNeighbors (Go: `[4]CellID`, generated: a 4-tuple, hand model: a list).  `Level` is tied under `ci ≠ 0`
    (see `level_zero_disagrees` in Ties/C01.lean). -/
theorem tie_EdgeNeighbors (ci : UInt64) (h : ci ≠ 0) :
    STUV.edgeNeighbors ci =
      [(CellIDNbrFns.EdgeNeighbors ci).1, (CellIDNbrFns.EdgeNeighbors ci).2.1,
       (CellIDNbrFns.EdgeNeighbors ci).2.2.1, (CellIDNbrFns.EdgeNeighbors ci).2.2.2] := by
  unfold STUV.edgeNeighbors CellIDNbrFns.EdgeNeighbors
  simp only [← tie_Level ci h, ← tie_sizeIJ, ← tie_Parent, ← tie_faceIJOrientation, Int.ofNat_eq_natCast,
    Int.toNat_natCast, ← tie_cellIDFromFaceIJWrap]

/-- non-vacuity: every valid cell id is non-zero, e.g. face 0 -/
example : CellID.fromFace 0 ≠ 0 ∧ CellID.isValid (CellID.fromFace 0) = true := by decide

/-! ### VertexNeighbors (Go: `[]CellID` built by a literal and one `append`; generated: `Array`; hand model: `List`) -/

/-- Both the hand model and the regenerated `sizeIJ` use the Nat model of Go `int` (truncated subtraction):
    `sizeIJ 31 = 1 <<< (30 - 31) = 1`, whereas Go computes `1 << uint(-1) = 0`.  `VertexNeighbors(level)` calls
    `sizeIJ(level + 1)`, so `tie_VertexNeighbors` describes the Go code for `lvl ≤ 29` only (the C++ original
    requires `level < ci.Level() ≤ 30`; the harness never asks for level 30). -/
theorem sizeIJ_above_maxLevel : CellIDFns.sizeIJ 31 = 1 ∧ Hilbert.sizeIJ 31 = 1 := by decide

/-- non-vacuity of the range in which the Nat model of `sizeIJ` is Go's value: `sizeIJ k = 2^(30-k)` for k ≤ 30 -/
example : CellIDFns.sizeIJ 30 = 1 ∧ CellIDFns.sizeIJ 0 = 1073741824 := by decide
theorem iand_natCast (a b : Nat) : CellIDNbrFns.iand (a : Int) (b : Int) = ((a &&& b : Nat) : Int) := rfl

theorem ishl_natCast_one (h : Nat) : CellIDNbrFns.ishl (h : Int) 1 = ((h <<< 1 : Nat) : Int) := by
  simp only [CellIDNbrFns.ishl, Nat.shiftLeft_eq]; omega

theorem toNat_natCast_succ (n : Nat) : Int.toNat ((n : Int) + 1) = n + 1 := by omega

theorem bne_natCast_zero (n : Nat) : (((n : Int) != 0) = (n != 0)) := by
  cases n with
  | zero => rfl
  | succ m => simp; omega

theorem ite_toList {c : Prop} [Decidable c] (a b : Array UInt64) :
    (if c then a else b).toList = if c then a.toList else b.toList := by split <;> rfl

/-- The hand model is unfolded through `S2Proofs.vertexNeighbors_eq` / `vnAux_eq` (S2Proofs/HilbertNeighbors.lean):
    unfolding its destructuring `let (a, b) := if …` chain directly is pathologically slow in the kernel. -/
theorem tie_VertexNeighbors (ci : UInt64) (lvl : Nat) :
    STUV.vertexNeighbors ci lvl = (CellIDNbrFns.VertexNeighbors ci (lvl : Int)).toList := by
  rw [S2Proofs.vertexNeighbors_eq, CellIDNbrFns.VertexNeighbors]
  rw [← tie_faceIJOrientation, ← tie_sizeIJ, ← tie_Parent, toNat_natCast_succ]
  generalize Hilbert.faceIJOrientation ci = r
  obtain ⟨f, i, j, o⟩ := r
  rw [S2Proofs.vnAux_eq]
  unfold S2Proofs.vnOff S2Proofs.vnSame
  generalize Hilbert.sizeIJ (lvl + 1) = hs
  by_cases c1 : (i &&& hs != 0) = true <;> by_cases c2 : (j &&& hs != 0) = true <;>
    simp only [c1, c2, Int.ofNat_eq_natCast, Int.toNat_natCast, ← tie_cellIDFromFaceIJSame, iand_natCast,
      ishl_natCast_one, bne_natCast_zero, ite_toList, Array.toList_push, Bool.false_eq_true, ↓reduceIte]

/-! ### AllNeighbors (Go: `[]CellID` grown by `append` in a `for k := -nbrSize; ; k += nbrSize { … if k >= size { break } }`
    loop; generated: `Array` and a fuel-recursive loop function; hand model: the rows `t = 0 … size/nbrSize + 1`
    (k = t·nbrSize − nbrSize) concatenated).
    Hypothesis: `isValid ci` — it gives `ci ≠ 0` (for `Level`) and `i, j < 2^30`, which makes the Int model of
    `i &= -size` (two's complement on 64-bit words) equal to the hand model's `i - i % size`.
    The hand model is unfolded through `S2Proofs.allNeighbors_eq` / `anAux_eq` / `anRow` (S2Proofs/HilbertNeighbors.lean). -/

/-- `n & -(2^m)` on int (two's complement) clears the low m bits -/
theorem iand_neg_pow (n m : Nat) (hn : n < 2^62) (hm : m ≤ 62) :
    CellIDNbrFns.iand (n : Int) (-((2^m : Nat) : Int)) = (n : Int) - (n : Int) % ((2^m : Nat) : Int) := by
  have hpos : 0 < 2^m := Nat.two_pow_pos m
  have hle : 2^m ≤ 2^62 := Nat.pow_le_pow_right (by omega) hm
  have hand := S2Proofs.and_neg_pow n m (by omega) (by omega)
  generalize 2^m = s at *
  have h64 : (2:Nat)^64 = 18446744073709551616 := by decide
  rw [h64] at hand
  have e : -(s : Int) = Int.negSucc (s - 1) := by omega
  rw [e]
  show CellID.int64OfWord (CellID.wordOfInt (n : Int) &&& CellID.wordOfInt (Int.negSucc (s - 1))) = _
  have a1 : ((n : Int) % 18446744073709551616).toNat = n := by omega
  have a2 : ((Int.negSucc (s - 1)) % 18446744073709551616).toNat = 18446744073709551616 - s := by omega
  have hmod : n % s ≤ n := Nat.mod_le _ _
  have t : (UInt64.ofNat n &&& UInt64.ofNat (18446744073709551616 - s)).toNat = n - n % s := by
    rw [UInt64.toNat_and, UInt64.toNat_ofNat', UInt64.toNat_ofNat', Nat.mod_eq_of_lt (by omega : n < 2^64),
      Nat.mod_eq_of_lt (by omega : 18446744073709551616 - s < 2^64), hand]
  unfold CellID.wordOfInt CellID.int64OfWord
  rw [a1, a2, t, if_pos (by omega), ← Int.natCast_mod]
  omega

/-- one iteration -/
theorem an_iter (face lvl : Nat) (i j size nbr : Int) (hs : 0 ≤ size) (fuel : Nat) (acc : Array UInt64) (t : Nat) :
    ∃ acc₂ : Array UInt64, acc₂.toList = acc.toList ++ S2Proofs.anRow face lvl i j size nbr t ∧
      CellIDNbrFns.AllNeighbors_loop1 j size (face : Int) i nbr (lvl : Int) (fuel + 1) (acc, (t : Int) * nbr - nbr) =
        if (t : Int) * nbr - nbr ≥ size then (acc₂, (t : Int) * nbr - nbr)
        else CellIDNbrFns.AllNeighbors_loop1 j size (face : Int) i nbr (lvl : Int) fuel (acc₂, (t : Int) * nbr - nbr + nbr) := by
  rw [CellIDNbrFns.AllNeighbors_loop1]
  unfold S2Proofs.anRow
  generalize (t : Int) * nbr - nbr = k
  simp only [← tie_Parent, ← tie_cellIDFromFaceIJSame, Int.toNat_natCast]
  by_cases h1 : k < 0
  · have h2 : ¬ k ≥ size := by omega
    simp only [h1, h2, if_true, if_false]
    exact ⟨_, by simp, rfl⟩
  · by_cases h2 : k ≥ size
    · simp only [h1, h2, if_true, if_false]
      exact ⟨_, by simp, rfl⟩
    · simp only [h1, h2, if_false]
      exact ⟨_, by simp, rfl⟩

theorem an_loop (face lvl : Nat) (i j size nbr : Int) (q : Nat) (hnbr : 0 < nbr) (hsz : size = q * nbr) :
    ∀ (n t : Nat), t + n = q + 1 → ∀ (fuel : Nat) (acc : Array UInt64), n + 1 ≤ fuel →
      (CellIDNbrFns.AllNeighbors_loop1 j size (face : Int) i nbr (lvl : Int) fuel (acc, (t : Int) * nbr - nbr)).1.toList
        = acc.toList ++ ((List.range' t (n + 1)).map (S2Proofs.anRow face lvl i j size nbr)).flatten := by
  have hs : 0 ≤ size := by rw [hsz]; exact Int.mul_nonneg (Int.natCast_nonneg q) (by omega)
  intro n
  induction n with
  | zero =>
    intro t ht fuel acc hf
    obtain ⟨fuel, rfl⟩ : ∃ f, fuel = f + 1 := ⟨fuel - 1, by omega⟩
    obtain ⟨acc₂, ha, hl⟩ := an_iter face lvl i j size nbr hs fuel acc t
    have hk : (t : Int) * nbr - nbr ≥ size := by
      have : (t : Int) = q + 1 := by omega
      rw [this, hsz, Int.add_mul, Int.one_mul]; omega
    rw [hl, if_pos hk, ha]
    simp
  | succ n ih =>
    intro t ht fuel acc hf
    obtain ⟨fuel, rfl⟩ : ∃ f, fuel = f + 1 := ⟨fuel - 1, by omega⟩
    obtain ⟨acc₂, ha, hl⟩ := an_iter face lvl i j size nbr hs fuel acc t
    have hk : ¬ (t : Int) * nbr - nbr ≥ size := by
      have h1 : (t : Int) ≤ q := by omega
      have h2 := Int.mul_le_mul_of_nonneg_right h1 (by omega : (0 : Int) ≤ nbr)
      rw [hsz]; omega
    have hnext : (t : Int) * nbr - nbr + nbr = ((t + 1 : Nat) : Int) * nbr - nbr := by
      rw [Int.natCast_succ, Int.add_mul, Int.one_mul]; omega
    rw [hl, if_neg hk, hnext, ih (t + 1) (by omega) fuel acc₂ (by omega), ha]
    rw [List.range'_succ (s := t)]
    simp [List.append_assoc]

theorem isValid_ne_zero (ci : UInt64) (hv : CellID.isValid ci = true) : ci ≠ 0 := by
  intro h; subst h; revert hv; decide

theorem tie_AllNeighbors (ci : UInt64) (lvl : Nat) (hv : CellID.isValid ci = true) :
    STUV.allNeighbors ci lvl = (CellIDNbrFns.AllNeighbors ci (lvl : Int)).toList := by
  have h0 := isValid_ne_zero ci hv
  have hc := S2Proofs.isCell_of_valid hv
  obtain ⟨_, hi, hj, _, _⟩ := S2Proofs.faceIJOrientation_leaf_in_cell rfl ci _ hc
  rw [S2Proofs.allNeighbors_eq, CellIDNbrFns.AllNeighbors]
  simp only [← tie_Level ci h0, ← tie_sizeIJ, ← tie_faceIJOrientation, Int.toNat_natCast, Int.ofNat_eq_natCast]
  by_cases hg : lvl < CellID.level ci ∨ lvl > 30
  · have hg1 : (decide ((lvl : Int) < (CellID.level ci : Int)) || decide ((lvl : Int) > 30)) = true := by
      simp; omega
    have hg2 : (decide (lvl < CellID.level ci) || decide (lvl > CellID.maxLevel)) = true := by
      simp [CellID.maxLevel]; omega
    rw [if_pos hg1]
    unfold S2Proofs.anAux
    simp only [hg2, if_true]
  · have hl1 : CellID.level ci ≤ lvl := by omega
    have hl2 : lvl ≤ 30 := by omega
    have hg1 : (decide ((lvl : Int) < (CellID.level ci : Int)) || decide ((lvl : Int) > 30)) = false := by
      simp; omega
    rw [hg1]
    simp only [Bool.false_eq_true, if_false]
    generalize Hilbert.faceIJOrientation ci = r at *
    obtain ⟨f, i, j, o⟩ := r
    simp only at hi hj
    rw [S2Proofs.anAux_eq ci lvl f i j o hl1 hl2, S2Proofs.sizeIJ_eq, S2Proofs.sizeIJ_eq,
      iand_neg_pow i (30 - CellID.level ci) (by omega) (by omega),
      iand_neg_pow j (30 - CellID.level ci) (by omega) (by omega)]
    generalize hq : 2 ^ (30 - CellID.level ci) / 2 ^ (30 - lvl) = q
    have hdvd : 2 ^ (30 - lvl) ∣ 2 ^ (30 - CellID.level ci) := Nat.pow_dvd_pow 2 (by omega)
    have hsz : 2 ^ (30 - CellID.level ci) = q * 2 ^ (30 - lvl) := by rw [← hq, Nat.div_mul_cancel hdvd]
    have hpos : 0 < 2 ^ (30 - lvl) := Nat.two_pow_pos _
    have hloop := an_loop f lvl ((i : Int) - (i : Int) % ((2 ^ (30 - CellID.level ci) : Nat) : Int))
      ((j : Int) - (j : Int) % ((2 ^ (30 - CellID.level ci) : Nat) : Int))
      ((2 ^ (30 - CellID.level ci) : Nat) : Int) ((2 ^ (30 - lvl) : Nat) : Int) q (by omega)
      (by rw [hsz]; exact Int.natCast_mul _ _) (q + 1) 0 (by omega) (q + 2) #[] (by omega)
    rw [← Int.natCast_ediv, Int.toNat_natCast, hq]
    rw [show ((0 : Nat) : Int) * ((2 ^ (30 - lvl) : Nat) : Int) - ((2 ^ (30 - lvl) : Nat) : Int)
          = -((2 ^ (30 - lvl) : Nat) : Int) by simp] at hloop
    rw [hloop, List.range_eq_range']
    exact (List.nil_append _).symm

/-- non-vacuity of `isValid`: a face cell, a level-10 cell and a leaf -/
example : CellID.isValid (CellID.fromFace 3) = true ∧ CellID.isValid (CellID.fromFacePosLevel 2 0x123456789abcdef 10) = true ∧
    CellID.isValid (0x1000000000000001 : UInt64) = true := by decide

/-! ### CellIDFromToken (string = String, `len(s)` = number of characters; `strconv.ParseUint(s, 16, 64)` is the hand
    model `CellID.parseHex` on both sides, referred to by name).  For the empty string Go would shift by 64 (result 0)
    and the hand model by 64 mod 64; that branch is unreachable because `parseHex [] = none`. -/
theorem tie_CellIDFromToken (s : String) : CellID.fromToken s = CellIDNbrFns.CellIDFromToken s := by
  unfold CellID.fromToken CellIDNbrFns.CellIDFromToken
  simp only []
  generalize s.toList = cs
  by_cases h : cs.length > 16
  · simp only [h, if_true]
  · simp only [h, if_false]
    cases hp : CellID.parseHex cs with
    | none => rfl
    | some n =>
      simp only []
      by_cases h16 : cs.length < 16
      · have hne : cs ≠ [] := by
          intro e; subst e; simp [CellID.parseHex] at hp
        have hlen : 0 < cs.length := List.length_pos_iff.mpr hne
        have h64 : 4 * (16 - cs.length) < 64 := by omega
        simp only [h16, if_true, CellIDFns.shl64, h64]
      · simp only [h16, if_false]

end S2Proofs.Ties.C01
