/-
  Ties/C09_Decode — the DECODERS of the codec model (S2/Codec/Prim.lean, Points.lean, Types.lean) are the Go decoders:
  `hand model decoder = decoder regenerated from /repo by translator_c15b` (S2/Generated/DecodeFns.lean).
  The reading of a Go decoder as a `Dec` program is described in the header of translator_c15b/main.go.
-/
import S2.Generated.DecodeFns
set_option linter.unusedSimpArgs false
namespace S2Proofs.Ties.C09Decode
open S2 S2.Codec S2.Generated

/-! ## the monad laws of `Dec` (the translator emits every statement; the hand model sometimes uses the shorter form) -/

theorem dec_bind_pure (m : Dec α) : (m >>= pure) = m := by
  funext bs
  show Dec.bind m Dec.pure bs = m bs
  unfold Dec.bind Dec.pure
  cases m bs with
  | none => rfl
  | some p => rfl

theorem dec_pure_bind (a : α) (f : α → Dec β) : (pure a >>= f) = f a := rfl

theorem dec_bind_assoc (m : Dec α) (f : α → Dec β) (g : β → Dec γ) :
    (m >>= f >>= g) = (m >>= fun a => f a >>= g) := by
  funext bs
  show Dec.bind (Dec.bind m f) g bs = Dec.bind m (fun a => Dec.bind (f a) g) bs
  unfold Dec.bind
  cases m bs with
  | none => rfl
  | some p => rfl

theorem dec_ite_pure (c : Prop) [Decidable c] (a b : α) :
    (if c then (pure a : Dec α) else pure b) = pure (if c then a else b) := by
  split <;> rfl

/-! ## s2/encode.go: the decoder primitives -/

theorem tie_readBool : readBool = DecodeFns.decoder_readBool := rfl
theorem tie_readInt8 : readInt8 = DecodeFns.decoder_readInt8 := rfl
theorem tie_readInt64 : readInt64 = DecodeFns.decoder_readInt64 := rfl
/-- `d.r.ReadByte()` is `DecodeFns.readByte` (the fixed model of io.ByteReader on a byte string) -/
theorem tie_readUint8 : readUint8 = DecodeFns.decoder_readUint8 := rfl
theorem tie_readUint32 : readUint32 = DecodeFns.decoder_readUint32 := rfl
theorem tie_readUint64 : readUint64 = DecodeFns.decoder_readUint64 := rfl
/-- `readFloat64`: `io.ReadFull` of the 8-byte buffer, `binary.LittleEndian.Uint64`, `math.Float64frombits`; the model
    function returns the bit pattern and its callers wrap it (`⟨bits⟩ : F64`) -/
theorem tie_readFloat64 : DecodeFns.decoder_readFloat64 = (do let b ← readFloat64Bits; pure (⟨b⟩ : F64)) := by
  show (readLE 8 >>= fun buf => pure (⟨UInt64.ofNat buf⟩ : F64)) =
    ((readLE 8 >>= fun v => pure (UInt64.ofNat v)) >>= fun b => pure (⟨b⟩ : F64))
  rw [dec_bind_assoc]; rfl
/-- `binary.ReadUvarint(d.r)` is `readUvarintAux binary.MaxVarintLen64 0 0` -/
theorem tie_readUvarint : readUvarint = DecodeFns.decoder_readUvarint := rfl
theorem tie_bufferLen : DecodeFns.bufferLen_go = 8 := rfl
theorem tie_derivativeEncodingOrder : derivativeEncodingOrder = DecodeFns.derivativeEncodingOrder_go := rfl

/-! ## the types -/

theorem tie_Point_decode : decodePoint' = DecodeFns.Point_decode := rfl
theorem tie_Cap_decode : decodeCap = DecodeFns.Cap_decode := by
  show (readPoint >>= fun c => readFloat64Bits >>= fun r => pure (⟨c, ⟨r⟩⟩ : CapM)) = _
  unfold readPoint
  simp only [dec_bind_assoc, dec_pure_bind]
  rfl
theorem tie_Rect_decode : decodeRect = DecodeFns.Rect_decode := rfl
theorem tie_CellID_decode : decodeCellID = DecodeFns.CellID_decode := rfl
theorem tie_Polyline_decode : decodePolyline = DecodeFns.Polyline_decode := rfl
theorem tie_Loop_decode : decodeLoop = DecodeFns.Loop_decode := rfl

/-- `Cell.decode`: the id is decoded, must be valid, then `CellFromCellID` (opaque: the model carries the id) -/
theorem tie_Cell_decode : decodeCell = DecodeFns.Cell_decode := by
  funext bs
  show _ = Dec.bind decodeCellID _ bs
  unfold decodeCell Dec.bind
  cases decodeCellID bs with
  | none => rfl
  | some p =>
    obtain ⟨id, rest⟩ := p
    cases h : S2.CellID.isValid id <;> simp [h, Dec.fail] <;> rfl

/-- `CellUnion.decode`: Go tests `n < 0 || n > maxEncodedCells` in one condition, the model in two steps -/
theorem tie_CellUnion_decode : decodeCellUnion = DecodeFns.CellUnion_decode := by
  unfold decodeCellUnion DecodeFns.CellUnion_decode
  congr; funext version; congr; funext n
  by_cases h1 : n > (maxCells : Int) <;> by_cases h2 : n < 0 <;> simp [h1, h2, maxCells] <;> (try omega) <;> rfl

theorem tie_Loop_decodeCompressed (snapLevel : Nat) :
    decodeLoopCompressed snapLevel = DecodeFns.Loop_decodeCompressed snapLevel := by
  unfold decodeLoopCompressed DecodeFns.Loop_decodeCompressed DecodeFns.initBoundC
  congr; funext n; congr; funext vs; congr; funext props; congr; funext depth
  split
  · rfl
  · split <;> rfl

theorem tie_Polygon_decode : decodePolygonLossless = DecodeFns.Polygon_decode := rfl

theorem tie_Polygon_decodeCompressed : decodePolygonCompressed = DecodeFns.Polygon_decodeCompressed := by
  unfold decodePolygonCompressed DecodeFns.Polygon_decodeCompressed DecodeFns.initLoopPropertiesD
  congr; funext snapLevel; congr; funext nloops
  by_cases h1 : toInt64 nloops > (maxEncodedLoops : Int) <;> by_cases h2 : toInt64 nloops < 0 <;>
    simp [h1, h2, maxEncodedLoops] <;> (try omega) <;> rfl

/-- `Polygon.Decode`: the version byte selects the format; any other version is an error -/
theorem tie_Polygon_Decode : decodePolygon = DecodeFns.Polygon_Decode := rfl

/-! ### the exported `Decode` wrappers: `d := &decoder{r: asByteReader(r)}; x.decode(d); return d.err` -/
theorem tie_Point_Decode : decodePoint' = DecodeFns.Point_Decode := rfl
theorem tie_Cap_Decode : decodeCap = DecodeFns.Cap_Decode := rfl
theorem tie_Rect_Decode : decodeRect = DecodeFns.Rect_Decode := rfl
theorem tie_CellID_Decode : decodeCellID = DecodeFns.CellID_Decode := rfl
theorem tie_Cell_Decode : decodeCell = DecodeFns.Cell_Decode := rfl
theorem tie_CellUnion_Decode : decodeCellUnion = DecodeFns.CellUnion_Decode := rfl
theorem tie_Polyline_Decode : decodePolyline = DecodeFns.Polyline_Decode := rfl
theorem tie_Loop_Decode : decodeLoop = DecodeFns.Loop_Decode := rfl

/-! ## s2/pointcompression.go -/

/-- `decodeFaceRun`: Go tests `ret.count <= 0` on an `int`; the count is `faceAndCount / 6 < 2^62`, carried unsigned -/
theorem tie_decodeFaceRun : decodeFaceRun = DecodeFns.decodeFaceRun := by
  unfold decodeFaceRun DecodeFns.decodeFaceRun
  congr; funext fc
  by_cases h : fc / 6 = 0 <;> simp [h] <;> rfl

/-- the `for nparsed := 0; nparsed < numVertices; { … }` loop of `decodeFaces` (Go appends to `frs`; the model conses) -/
theorem whileFaces (n : Nat) : ∀ (fuel np : Nat) (acc : List (Nat × Nat)),
    (DecodeFns.whileDec (fun st => DecodeFns.decodeFaces_loop0_cond n st.1 st.2)
        (fun st => DecodeFns.decodeFaces_loop0 n st.1 st.2) fuel (np, acc) >>= fun st => pure st.2) =
    (decodeFacesAux fuel n np >>= fun rest => pure (acc ++ rest)) := by
  intro fuel
  induction fuel with
  | zero => intro np acc; simp [DecodeFns.whileDec, decodeFacesAux, dec_pure_bind]
  | succ k ih =>
    intro np acc
    unfold DecodeFns.whileDec decodeFacesAux
    by_cases h : np < n
    · simp only [DecodeFns.decodeFaces_loop0_cond, h, decide_true, if_true, DecodeFns.decodeFaces_loop0,
        dec_bind_assoc, dec_pure_bind]
      congr; funext fr
      have e := ih (np + fr.2) (acc ++ [fr])
      simp only [DecodeFns.decodeFaces_loop0_cond, DecodeFns.decodeFaces_loop0] at e
      rw [e]
      simp [List.append_assoc]
    · simp [DecodeFns.decodeFaces_loop0_cond, h, dec_pure_bind]

theorem tie_decodeFaces (n : Nat) : decodeFaces n = DecodeFns.decodeFaces n := by
  unfold decodeFaces DecodeFns.decodeFaces
  have e := whileFaces n n 0 []
  simp only [List.nil_append] at e
  show _ = (DecodeFns.whileDec _ _ (n - 0) (0, []) >>= fun st => pure st.2)
  rw [Nat.sub_zero, e]
  exact (dec_bind_pure _).symm

/-! ### `decodeFirstPointFixedLength`: the byte loop `interleaved |= uint64(rr) << uint(i*8)` reads a little-endian number
    (for every count: bytes beyond the eighth are shifted out in Go and reduced away by `UInt64.ofNat` in the model) -/

theorem u8_toUInt64 (b : UInt8) : b.toUInt64 = UInt64.ofNat b.toNat := by
  apply UInt64.toNat_inj.mp
  rw [UInt8.toNat_toUInt64, UInt64.toNat_ofNat']
  have := b.toNat_lt
  omega

theorem shl64_ofNat (b : UInt8) (i : Nat) :
    DecodeFns.shl64 b.toUInt64 (i * 8) = UInt64.ofNat (b.toNat <<< (8 * i)) := by
  unfold DecodeFns.shl64
  split
  · rename_i h
    rw [UInt64.ofNat_shiftLeft _ _ (by omega), u8_toUInt64, Nat.mul_comm]
  · rename_i h
    symm
    rw [UInt64.ofNat_eq_iff_mod_eq_toNat, Nat.shiftLeft_eq]
    have : 8 * i = 64 + (8 * i - 64) := by omega
    rw [this, Nat.pow_add, ← Nat.mul_assoc, Nat.mul_comm _ (2^64), Nat.mul_assoc, Nat.mul_mod_right]
    rfl

theorem byteStep (b : UInt8) (L i : Nat) :
    UInt64.ofNat ((b.toNat + 256 * L) * 2 ^ (8 * i)) =
      DecodeFns.shl64 b.toUInt64 (i * 8) ||| UInt64.ofNat (L * 2 ^ (8 * (i + 1))) := by
  have hb := b.toNat_lt
  have e : (b.toNat + 256 * L) * 2 ^ (8 * i) = L <<< (8 * i + 8) + b.toNat <<< (8 * i) := by
    rw [Nat.shiftLeft_eq, Nat.shiftLeft_eq, Nat.pow_add]
    have : (2:Nat) ^ 8 = 256 := by decide
    rw [this, Nat.add_mul, Nat.add_comm]
    congr 1
    rw [Nat.mul_comm 256 L, Nat.mul_assoc, Nat.mul_comm 256]
  have lt : b.toNat <<< (8 * i) < 2 ^ (8 * i + 8) := by
    rw [Nat.shiftLeft_eq, Nat.pow_add, Nat.mul_comm]
    have : (2:Nat) ^ 8 = 256 := by decide
    rw [this]
    exact Nat.mul_lt_mul_of_pos_left hb (Nat.pow_pos (by decide))
  rw [e, Nat.shiftLeft_add_eq_or_of_lt lt, UInt64.ofNat_or, shl64_ofNat, UInt64.or_comm]
  simp only [Nat.shiftLeft_eq, Nat.mul_add, Nat.mul_one]

theorem byteLoopAux : ∀ (k i : Nat) (acc : UInt64) (bs : Bytes),
    DecodeFns.forDecAux (fun i st => DecodeFns.decodeFirstPointFixedLength_loop0 i st) k i acc bs =
      if bs.length < k then none else some (acc ||| UInt64.ofNat (leVal (bs.take k) * 2 ^ (8 * i)), bs.drop k) := by
  intro k
  induction k with
  | zero => intro i acc bs; simp [DecodeFns.forDecAux, leVal]; rfl
  | succ k ih =>
    intro i acc bs
    cases bs with
    | nil => simp [DecodeFns.forDecAux]; rfl
    | cons b r =>
      show DecodeFns.forDecAux _ k (i + 1) (acc ||| DecodeFns.shl64 b.toUInt64 (i * 8)) r = _
      rw [ih]
      simp only [List.length_cons, Nat.add_lt_add_iff_right, List.take_succ_cons, List.drop_succ_cons, leVal]
      split
      · rfl
      · rw [byteStep, UInt64.or_assoc]

theorem byteLoop (k : Nat) :
    DecodeFns.forDec k (0 : UInt64) (fun i st => DecodeFns.decodeFirstPointFixedLength_loop0 i st) =
      (readLE k >>= fun v => pure (UInt64.ofNat v)) := by
  funext bs
  show DecodeFns.forDecAux _ k 0 0 bs = Dec.bind (readLE k) _ bs
  rw [byteLoopAux]
  unfold Dec.bind readLE
  split
  · rfl
  · simp; rfl

theorem tie_decodeFirstPointFixedLength (level : Nat) (cp cq : List UInt32) :
    decodeFirstPoint level cp cq = DecodeFns.decodeFirstPointFixedLength level cp cq := by
  unfold DecodeFns.decodeFirstPointFixedLength
  simp only []
  rw [byteLoop, dec_bind_assoc]
  rfl

/-! ### `decodePointsCompressed`: the two loops.  Go fills `target[i]` in place and patches `target[idx].X/.Y/.Z`; the model
    builds the list and replaces whole points. -/

/-- the value of a uvarint fits in 64 bits -/
theorem readUvarintAux_lt : ∀ (fuel x s : Nat) (bs : Bytes) (v : Nat) (r : Bytes),
    x < 2 ^ s → s + 7 * fuel = 70 → readUvarintAux fuel x s bs = some (v, r) → v < 2 ^ 64 := by
  intro fuel
  induction fuel with
  | zero => intro x s bs v r _ _ h; simp [readUvarintAux] at h
  | succ k ih =>
    intro x s bs v r hx hs h
    cases bs with
    | nil => simp [readUvarintAux] at h
    | cons b bs =>
      unfold readUvarintAux at h
      have hb := b.toNat_lt
      split at h
      · rename_i hlt
        have hb7 : b.toNat < 128 := by simpa [UInt8.lt_iff_toNat_lt] using hlt
        split at h
        · simp at h
        · rename_i hk
          simp only [Option.some.injEq, Prod.mk.injEq] at h
          obtain ⟨rfl, _⟩ := h
          by_cases hk0 : k = 0
          · subst hk0
            have hs' : s = 63 := by omega
            subst hs'
            have : b.toNat ≤ 1 := by
              simp [UInt8.lt_iff_toNat_lt] at hk
              omega
            have : b.toNat * 2 ^ 63 ≤ 1 * 2 ^ 63 := Nat.mul_le_mul_right _ this
            omega
          · have hs' : s + 7 ≤ 63 := by omega
            have h1 : b.toNat * 2 ^ s < 128 * 2 ^ s := Nat.mul_lt_mul_of_pos_right hb7 (Nat.pow_pos (by decide))
            have h2 : (2:Nat) ^ (s + 7) ≤ 2 ^ 63 := Nat.pow_le_pow_right (by decide) hs'
            have h3 : (2:Nat) ^ (s + 7) = 128 * 2 ^ s := by rw [Nat.pow_add, Nat.mul_comm]
            omega
      · apply ih _ (s + 7) bs v r _ (by omega) h
        have h1 : (b.toNat - 128) * 2 ^ s ≤ 127 * 2 ^ s := Nat.mul_le_mul_right _ (by omega)
        have h3 : (2:Nat) ^ (s + 7) = 128 * 2 ^ s := by rw [Nat.pow_add, Nat.mul_comm]
        omega

theorem readUvarint_lt (bs : Bytes) (v : Nat) (r : Bytes) (h : readUvarint bs = some (v, r)) : v < 2 ^ 64 :=
  readUvarintAux_lt 10 0 0 bs v r (by decide) (by decide) h

theorem modify3 (x y z : F64) : ∀ (t : List V3) (j : Nat),
    ((t.modify j (fun q => { q with x := x })).modify j (fun q => { q with y := y })).modify j (fun q => { q with z := z })
      = t.set j ⟨x, y, z⟩ := by
  intro t
  induction t with
  | nil => intro j; simp
  | cons a t ih =>
    intro j
    cases j with
    | zero => simp
    | succ j => simp [ih]

theorem toInt64_toNat (idx : Nat) (h : idx < 2 ^ 64) (h0 : ¬ toInt64 idx < 0) : (toInt64 idx).toNat = idx := by
  have hm : idx % 18446744073709551616 = idx := Nat.mod_eq_of_lt h
  by_cases hh : idx ≥ 9223372036854775808
  · exfalso; apply h0; unfold toInt64; rw [hm]; simp only [hh, if_true]; omega
  · unfold toInt64; rw [hm]; simp only [hh, if_false]; simp

theorem bind_readUvarint_congr (f g : Nat → Dec α) (h : ∀ v, v < 2 ^ 64 → f v = g v) :
    (readUvarint >>= f) = (readUvarint >>= g) := by
  funext bs
  show Dec.bind readUvarint f bs = Dec.bind readUvarint g bs
  unfold Dec.bind
  cases hr : readUvarint bs with
  | none => rfl
  | some p =>
    obtain ⟨v, r⟩ := p
    simp only [h v (readUvarint_lt bs v r hr)]

theorem dec_fail_bind (f : α → Dec β) : ((Dec.fail : Dec α) >>= f) = Dec.fail := rfl

theorem offCenterB : ∀ (k i : Nat) (t : List V3),
    DecodeFns.forDecAux (fun i' st => DecodeFns.decodePointsCompressed_loop1 i' st) k i t = decodeOffCenter k t := by
  intro k
  induction k with
  | zero => intro i t; rfl
  | succ k ih =>
    intro i t
    have eR : decodeOffCenter (k + 1) t = (readUvarint >>= fun idx =>
        if toInt64 idx ≥ (t.length : Int) then Dec.fail
        else if toInt64 idx < 0 then Dec.fail
        else readPoint >>= fun p => decodeOffCenter k (t.set idx p)) := rfl
    rw [eR]
    show (DecodeFns.decodePointsCompressed_loop1 i t >>= fun s => DecodeFns.forDecAux _ k (i + 1) s) = _
    simp only [ih]
    unfold DecodeFns.decodePointsCompressed_loop1
    rw [dec_bind_assoc]
    apply bind_readUvarint_congr
    intro idx hlt
    by_cases h1 : toInt64 idx ≥ (t.length : Int)
    · have : (decide (toInt64 idx < (0:Int)) || decide (toInt64 idx ≥ (t.length : Int))) = true := by simp [h1]
      rw [if_pos this, if_pos h1]
      rfl
    · by_cases h2 : toInt64 idx < 0
      · have : (decide (toInt64 idx < (0:Int)) || decide (toInt64 idx ≥ (t.length : Int))) = true := by simp [h2]
        rw [if_pos this, if_neg h1, if_pos h2]
        rfl
      · have : (decide (toInt64 idx < (0:Int)) || decide (toInt64 idx ≥ (t.length : Int))) = false := by simp [h1, h2]
        rw [if_neg (by rw [this]; exact Bool.false_ne_true), if_neg h1, if_neg h2]
        simp only [toInt64_toNat idx hlt h2, modify3, readPoint, dec_bind_assoc, dec_pure_bind]

theorem set_take_drop (t : List V3) (i k : Nat) (p : V3) (h : i + (k + 1) ≤ t.length) (rest : List V3) :
    (t.set i p).take (i + 1) ++ rest ++ (t.set i p).drop (i + 1 + k) = t.take i ++ p :: rest ++ t.drop (i + (k + 1)) := by
  have hi : i < t.length := by omega
  rw [List.set_eq_take_append_cons_drop, if_pos hi]
  have hl : (t.take i).length = i := by simp; omega
  have e1 : (t.take i ++ p :: t.drop (i + 1)).take (i + 1) = t.take i ++ [p] := by
    rw [List.take_append, hl]
    have : i + 1 - i = 1 := by omega
    rw [this, List.take_of_length_le (by omega : (t.take i).length ≤ i + 1)]
    rfl
  have e2 : (t.take i ++ p :: t.drop (i + 1)).drop (i + 1 + k) = t.drop (i + (k + 1)) := by
    rw [List.drop_append, hl, List.drop_of_length_le (by omega : (t.take i).length ≤ i + 1 + k)]
    have : i + 1 + k - i = k + 1 := by omega
    rw [this, List.drop_succ_cons, List.drop_drop, List.nil_append]
    congr 1; omega
  rw [e1, e2]; simp

theorem dec_bind_congr {m : Dec α} {f g : α → Dec β} (h : ∀ a, f a = g a) : (m >>= f) = (m >>= g) := by
  rw [funext h]

theorem pointsLoopA (level : Nat) : ∀ (k i : Nat) (cp cq : List UInt32) (it : List (Nat × Nat) × Nat) (t : List V3),
    i + k ≤ t.length →
    (DecodeFns.forDecAux (fun i' st => DecodeFns.decodePointsCompressed_loop0 level i' st.1 st.2.1 st.2.2.1 st.2.2.2)
        k i (cp, cq, it, t) >>= fun st => pure st.2.2.2) =
    (decodePointsLoop level k (i == 0) cp cq it >>= fun pts => pure (t.take i ++ pts ++ t.drop (i + k))) := by
  intro k
  induction k with
  | zero =>
    intro i cp cq it t _
    show (pure t : Dec (List V3)) = pure (t.take i ++ [] ++ t.drop (i + 0))
    simp
  | succ k ih =>
    intro i cp cq it t h
    show ((DecodeFns.decodePointsCompressed_loop0 level i cp cq it t >>= fun s =>
        DecodeFns.forDecAux _ k (i + 1) s) >>= fun st => pure st.2.2.2) = _
    have eL : DecodeFns.decodePointsCompressed_loop0 level i cp cq it t =
        ((if i == 0 then decodeFirstPoint level cp cq else decodePoint cp cq) >>= fun r =>
          match facesNext it with
          | none => Dec.fail
          | some (f, it') => pure (r.2.2.1, r.2.2.2, it', t.set i (facePiQiToXYZ f r.1 r.2.1 level))) := rfl
    have eR : decodePointsLoop level (k + 1) (i == 0) cp cq it =
        ((if (i == 0) = true then decodeFirstPoint level cp cq else decodePoint cp cq) >>= fun r =>
          match facesNext it with
          | none => Dec.fail
          | some (face, it') => decodePointsLoop level k false r.2.2.1 r.2.2.2 it' >>= fun rest =>
              pure (facePiQiToXYZ face r.1 r.2.1 level :: rest)) := by
      cases (i == 0) <;> rfl
    rw [eL, eR]
    simp only [dec_bind_assoc]
    apply dec_bind_congr; intro r
    cases hf : facesNext it with
    | none => rfl
    | some fa =>
      obtain ⟨f, it'⟩ := fa
      simp only [dec_pure_bind, dec_bind_assoc]
      have e := ih (i + 1) r.2.2.1 r.2.2.2 it' (t.set i (facePiQiToXYZ f r.1 r.2.1 level)) (by simp; omega)
      have hne : (i + 1 == 0) = false := by simp
      rw [hne] at e
      rw [e]
      apply dec_bind_congr; intro rest
      rw [set_take_drop t i k _ h]

/-- `decodePointsCompressed(d, level, target)` fills a slice of `n = len(target)` points whatever its old content -/
theorem tie_decodePointsCompressed (level : Nat) (target : List V3) :
    decodePointsCompressed level target.length = DecodeFns.decodePointsCompressed level target := by
  have eG : DecodeFns.decodePointsCompressed level target =
      (decodeFaces target.length >>= fun faces =>
        ((DecodeFns.forDecAux (fun i' st => DecodeFns.decodePointsCompressed_loop0 level i' st.1 st.2.1 st.2.2.1 st.2.2.2)
            target.length 0 ([], [], (faces, 0), target)) >>= fun st => pure st.2.2.2) >>= fun target_2 =>
        readUvarint >>= fun numOff =>
        if toInt64 numOff > (target.length : Int) then Dec.fail
        else DecodeFns.forDecAux (fun i' st => DecodeFns.decodePointsCompressed_loop1 i' st) (toInt64 numOff).toNat 0 target_2) := by
    unfold DecodeFns.decodePointsCompressed DecodeFns.forDec
    simp only [dec_bind_assoc, dec_pure_bind, dec_bind_pure]
  rw [eG]
  unfold decodePointsCompressed
  apply dec_bind_congr; intro faces
  rw [pointsLoopA level target.length 0 [] [] (faces, 0) target (by omega)]
  simp only [dec_bind_assoc, dec_pure_bind, List.take_zero, List.nil_append, Nat.zero_add, List.drop_length, List.append_nil]
  apply dec_bind_congr; intro pts
  apply dec_bind_congr; intro numOff
  split
  · rfl
  · rw [offCenterB]

/-- `decodePointCompressed` does not use its `level` argument -/
theorem tie_decodePointCompressed (level : Nat) : decodePoint = DecodeFns.decodePointCompressed level := rfl

/-! ## statement skeletons.  What the `Dec` programs do not contain is kept as text in `<F>_shape`: the `if d.err != nil
    { return }` checks (`errchk[…]`), the `&& d.err == nil` conjuncts (`&&errnil`), and the post-decode bookkeeping calls
    (`opaque[…]`: NewShapeIndex, index.Add, ExpandForSubregions, initBound, initLoopProperties, initEdgesAndIndex,
    CellFromCellID, numVertices +=, `*p = Polygon{}`), pinned here by name and position.
    Refresh with translator_c15b/selftest/mkpins.py after an intended change. -/
theorem shape_decoder_readBool : DecodeFns.decoder_readBool_shape =
    "errchk[return];var;asg;ret" := rfl
theorem shape_decoder_readInt8 : DecodeFns.decoder_readInt8_shape =
    "errchk[return];asg;ret" := rfl
theorem shape_decoder_readInt64 : DecodeFns.decoder_readInt64_shape =
    "errchk[return];asg;ret" := rfl
theorem shape_decoder_readUint8 : DecodeFns.decoder_readUint8_shape =
    "errchk[return];asg;ret" := rfl
theorem shape_decoder_readUint32 : DecodeFns.decoder_readUint32_shape =
    "errchk[return];asg;ret" := rfl
theorem shape_decoder_readUint64 : DecodeFns.decoder_readUint64_shape =
    "errchk[return];asg;ret" := rfl
theorem shape_decoder_readFloat64 : DecodeFns.decoder_readFloat64_shape =
    "errchk[return 0];asg;asg;ret" := rfl
theorem shape_decoder_readUvarint : DecodeFns.decoder_readUvarint_shape =
    "errchk[return];asg;ret" := rfl
theorem shape_decodeFaceRun : DecodeFns.decodeFaceRun_shape =
    "asg;asg;if&&errnil{fail};ret" := rfl
theorem shape_decodeFaces : DecodeFns.decodeFaces_shape =
    "var;for{asg;errchk[return nil];asg;asg};ret" := rfl
theorem shape_decodePointCompressed : DecodeFns.decodePointCompressed_shape =
    "asg;asg;ret" := rfl
theorem shape_decodeFirstPointFixedLength : DecodeFns.decodeFirstPointFixedLength_shape =
    "asg;var;for{asg;asg};asg;ret" := rfl
theorem shape_decodePointsCompressed : DecodeFns.decodePointsCompressed_shape =
    "asg;asg;asg;asg;range{asg;if{asg};asg;if(asg)&&errnil{fail;ret};asg};asg;errchk[return];if{fail;ret};for{asg;errchk[return];if{fail;ret};asg;asg;asg}" := rfl
theorem shape_Point_decode : DecodeFns.Point_decode_shape =
    "asg;errchk[return];if{fail;ret};asg;asg;asg" := rfl
theorem shape_Cap_decode : DecodeFns.Cap_decode_shape =
    "asg;asg;asg;asg" := rfl
theorem shape_Rect_decode : DecodeFns.Rect_decode_shape =
    "if(asg)&&errnil{fail;ret};asg;asg;asg;asg" := rfl
theorem shape_CellID_decode : DecodeFns.CellID_decode_shape =
    "asg" := rfl
theorem shape_Cell_decode : DecodeFns.Cell_decode_shape =
    "call;errchk[return];if{fail;ret};opaque[*c = CellFromCellID(c.id)]" := rfl
theorem shape_CellUnion_decode : DecodeFns.CellUnion_decode_shape =
    "asg;errchk[return];if{fail;ret};asg;errchk[return];if{fail;ret};asg;range{call}" := rfl
theorem shape_Polyline_decode : DecodeFns.Polyline_decode_shape =
    "asg;errchk[return];if{fail;ret};asg;errchk[return];if{fail;ret};asg;range{asg;asg;asg}" := rfl
theorem shape_Loop_decode : DecodeFns.Loop_decode_shape =
    "asg;errchk[return];if{fail;ret};asg;if{if&&errnil{fail};ret};asg;range{asg;asg;asg};opaque[l.index = NewShapeIndex()];asg;asg;call;opaque[l.subregionBound = ExpandForSubregions(l.bound)];opaque[l.index.Add(l)]" := rfl
theorem shape_Loop_decodeCompressed : DecodeFns.Loop_decodeCompressed_shape =
    "asg;errchk[return];if{fail;ret};asg;call;asg;errchk[return];opaque[l.index = NewShapeIndex()];asg;asg;if{call;errchk[return];opaque[l.subregionBound = ExpandForSubregions(l.bound)]}else{opaque[l.initBound()]};opaque[l.index.Add(l)]" := rfl
theorem shape_Polygon_decode : DecodeFns.Polygon_decode_shape =
    "opaque[*p = Polygon{}];call;asg;asg;errchk[return];if{fail;ret};asg;range{asg;call;opaque[p.numVertices += len(p.loops[i].vertices)]};call;errchk[return];opaque[p.subregionBound = ExpandForSubregions(p.bound)];opaque[p.initEdgesAndIndex()]" := rfl
theorem shape_Polygon_decodeCompressed : DecodeFns.Polygon_decodeCompressed_shape =
    "asg;if{fail;ret};asg;errchk[return];if{fail;ret};asg;range{asg;call};opaque[p.initLoopProperties()]" := rfl
theorem shape_Point_Decode : DecodeFns.Point_Decode_shape =
    "asg;call;ret" := rfl
theorem shape_Cap_Decode : DecodeFns.Cap_Decode_shape =
    "asg;call;ret" := rfl
theorem shape_Rect_Decode : DecodeFns.Rect_Decode_shape =
    "asg;call;ret" := rfl
theorem shape_CellID_Decode : DecodeFns.CellID_Decode_shape =
    "asg;call;ret" := rfl
theorem shape_Cell_Decode : DecodeFns.Cell_Decode_shape =
    "asg;call;ret" := rfl
theorem shape_CellUnion_Decode : DecodeFns.CellUnion_Decode_shape =
    "asg;call;ret" := rfl
theorem shape_Polyline_Decode : DecodeFns.Polyline_Decode_shape =
    "asg;call;ret" := rfl
theorem shape_Loop_Decode : DecodeFns.Loop_Decode_shape =
    "opaque[*l = Loop{}];asg;call;ret" := rfl
theorem shape_Polygon_Decode : DecodeFns.Polygon_Decode_shape =
    "asg;asg;var;switch{case{asg}case{asg}default{ret}};call;ret" := rfl

end S2Proofs.Ties.C09Decode
