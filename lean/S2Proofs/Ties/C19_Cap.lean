/-
  S2Proofs.Ties.C19_Cap — regenerated-instance obligations for s2/cap.go.

  `S2.Generated.CapFns.*` is rewritten from the Go source on every run by translator_c10 (skeleton extraction over the
  bit-exact soft-float).  The theorems say that the hand model `S2.CapM`, instantiated with the bit-exact carrier
  `S2.CapF64` (`P = V3`, `α = F64`; the instance the oracle uses and about which the C19 cap theorems are stated
  through `ChordLaws`), evaluates exactly the regenerated comparisons / values in the Go branch order:
  IsValid, IsEmpty, IsFull, Height, Contains, Intersects, InteriorIntersects, ContainsPoint, InteriorContainsPoint,
  Complement, AddPoint, AddCap (incl. the rounding allowance `1.5 * maxErr`), Expanded, Equal, the constructors and the
  branch skeleton of Union (its trigonometric part is a parameter of the model).
  `ChordAngleBetweenPoints`, `ChordAngle.Add/Sub/Expanded/MaxPointError` are s1 / s2 functions outside cap.go: they are
  atoms here (`Chord.*` of the model; tied by the correspondence check).
-/
import S2.CapM
import S2.Generated.CapFns
namespace S2Proofs.Ties.C19Cap
open S2 S2.CapM S2.Generated S2.Generated.CapFns S2.CapF64 S2.CapOps S2.CapPt

/-! ### statement structure of every translated function -/
theorem tie_IsValid_shape : IsValid_shape =
    "return val0⟨c.center.IsUnit(); c.radius⟩" := rfl
theorem tie_IsEmpty_shape : IsEmpty_shape =
    "return val0⟨c.radius⟩" := rfl
theorem tie_IsFull_shape : IsFull_shape =
    "return val0⟨c.radius⟩" := rfl
theorem tie_Height_shape : Height_shape =
    "return val0⟨c.radius⟩" := rfl
theorem tie_Contains_shape : Contains_shape =
    "if cond0⟨c.IsFull(); other.IsEmpty()⟩ {return true}; return val0⟨c.radius; ChordAngleBetweenPoints(c.center, other.center).Add(other.radius)⟩" := rfl
theorem tie_Intersects_shape : Intersects_shape =
    "if cond0⟨c.IsEmpty(); other.IsEmpty()⟩ {return false}; return val0⟨c.radius.Add(other.radius); ChordAngleBetweenPoints(c.center, other.center)⟩" := rfl
theorem tie_InteriorIntersects_shape : InteriorIntersects_shape =
    "if cond0⟨c.radius; other.IsEmpty()⟩ {return false}; return val0⟨c.radius.Add(other.radius); ChordAngleBetweenPoints(c.center, other.center)⟩" := rfl
theorem tie_ContainsPoint_shape : ContainsPoint_shape =
    "return val0⟨ChordAngleBetweenPoints(c.center, p); c.radius⟩" := rfl
theorem tie_InteriorContainsPoint_shape : InteriorContainsPoint_shape =
    "return val0⟨c.IsFull(); ChordAngleBetweenPoints(c.center, p); c.radius⟩" := rfl
theorem tie_Complement_shape : Complement_shape =
    "if cond0⟨c.IsFull()⟩ {return EmptyCap()}; if cond1⟨c.IsEmpty()⟩ {return FullCap()}; return CapFromCenterChordAngle(val0⟨c.center⟩, s1.StraightChordAngle.Sub(c.radius))" := rfl
theorem tie_AddPoint_shape : AddPoint_shape =
    "if cond0⟨c.IsEmpty()⟩ {c.center = p; c.radius = 0; return c}; if[newRad := ChordAngleBetweenPoints(c.center, p)] cond1⟨newRad; c.radius⟩ {c.radius = newRad}; return c" := rfl
theorem tie_AddCap_shape : AddCap_shape =
    "if cond0⟨c.IsEmpty()⟩ {return other}; if cond1⟨other.IsEmpty()⟩ {return c}; centerDist := ChordAngleBetweenPoints(c.center, other.center); dist := centerDist.Add(other.radius); delta := val0⟨centerDist; other.radius⟩; maxErr := val1⟨dist; delta; dist.MaxPointError()⟩; if[newRad := dist.Expanded(val2⟨maxErr⟩)] cond2⟨newRad; c.radius⟩ {c.radius = newRad}; return c" := rfl
theorem tie_Expanded_shape : Expanded_shape =
    "if cond0⟨c.IsEmpty()⟩ {return EmptyCap()}; return CapFromCenterChordAngle(c.center, c.radius.Add(s1.ChordAngleFromAngle(distance)))" := rfl
theorem tie_Union_shape : Union_shape =
    "if cond0⟨c.radius; other.radius⟩ {c, other = other, c}; if cond1⟨c.IsFull(); other.IsEmpty()⟩ {return c}; cRadius := c.Radius(); otherRadius := other.Radius(); distance := c.center.Distance(other.center); if cond2⟨cRadius; distance; otherRadius⟩ {return c.AddCap(other)}; resRadius := val0⟨distance; cRadius; otherRadius⟩; resCenter := InterpolateAtDistance(val1⟨distance; cRadius; otherRadius⟩, c.center, other.center); result := CapFromCenterAngle(resCenter, resRadius); if cond3⟨result.IsValid()⟩ {return c.AddCap(other)}; return result.AddCap(c).AddCap(other)" := rfl
theorem tie_CapFromPoint_shape : CapFromPoint_shape =
    "return CapFromCenterChordAngle(p, 0)" := rfl
theorem tie_CapFromCenterChordAngle_shape : CapFromCenterChordAngle_shape =
    "return Cap{center: center, radius: radius}" := rfl
theorem tie_CapFromCenterHeight_shape : CapFromCenterHeight_shape =
    "return CapFromCenterChordAngle(center, s1.ChordAngleFromSquaredLength(val0⟨height⟩))" := rfl
theorem tie_EmptyCap_shape : EmptyCap_shape =
    "return CapFromCenterChordAngle(centerPoint, s1.NegativeChordAngle)" := rfl
theorem tie_FullCap_shape : FullCap_shape =
    "return CapFromCenterChordAngle(centerPoint, s1.StraightChordAngle)" := rfl
theorem tie_Equal_shape : Equal_shape =
    "return val0⟨c.radius; other.radius; c.center; other.center; c.IsEmpty(); other.IsEmpty(); c.IsFull(); other.IsFull()⟩" := rfl

theorem tie_Union_exprs : Union_exprs =
    "cond0: c.radius < other.radius | cond1: c.IsFull() || other.IsEmpty() | cond2: cRadius >= distance+otherRadius | val0: 0.5 * (distance + cRadius + otherRadius) | val1: 0.5 * (distance - cRadius + otherRadius) | cond3: !result.IsValid()" := rfl

/-! ### predicates -/
private theorem dec_le (a b : F64) : decide (a ≤ b) = F64.le a b := by
  show decide (F64.le a b = true) = F64.le a b
  simp
private theorem dec_lt (a b : F64) : decide (a < b) = F64.lt a b := by
  show decide (F64.lt a b = true) = F64.lt a b
  simp
private theorem lt_iff (a b : F64) : (a < b) ↔ F64.lt a b = true := Iff.rfl

theorem tie_isValid (c : Cap) : c.isValid = IsValid_val0 (Chord.isUnit c.center) c.radius := by
  simp only [CapM.isValid, IsValid_val0, dec_le]; rfl
theorem tie_isEmpty (c : Cap) : c.isEmpty = IsEmpty_val0 c.radius := by
  simp only [CapM.isEmpty, IsEmpty_val0, dec_lt]; rfl
theorem tie_isFull (c : Cap) : c.isFull = IsFull_val0 c.radius := rfl
theorem tie_height (c : Cap) : c.height = Height_val0 c.radius := rfl

theorem tie_contains (c o : Cap) :
    c.contains o = if Contains_cond0 c.isFull o.isEmpty then true
      else Contains_val0 c.radius (Chord.add (Chord.between c.center o.center) o.radius) := by
  simp only [CapM.contains, Contains_cond0, Contains_val0, dec_le]; rfl
theorem tie_intersects (c o : Cap) :
    c.intersects o = if Intersects_cond0 c.isEmpty o.isEmpty then false
      else Intersects_val0 (Chord.add c.radius o.radius) (Chord.between c.center o.center) := by
  simp only [CapM.intersects, Intersects_cond0, Intersects_val0, dec_le]; rfl
theorem tie_interiorIntersects (c o : Cap) :
    c.interiorIntersects o = if InteriorIntersects_cond0 c.radius o.isEmpty then false
      else InteriorIntersects_val0 (Chord.add c.radius o.radius) (Chord.between c.center o.center) := by
  simp only [CapM.interiorIntersects, InteriorIntersects_cond0, InteriorIntersects_val0, dec_le, dec_lt]; rfl
theorem tie_containsPoint (c : Cap) (p : V3) :
    c.containsPoint p = ContainsPoint_val0 (Chord.between c.center p) c.radius := by
  simp only [CapM.containsPoint, ContainsPoint_val0, dec_le]; rfl
theorem tie_interiorContainsPoint (c : Cap) (p : V3) :
    c.interiorContainsPoint p = InteriorContainsPoint_val0 c.isFull (Chord.between c.center p) c.radius := by
  simp only [CapM.interiorContainsPoint, InteriorContainsPoint_val0, dec_lt]; rfl
theorem tie_equal (c o : Cap) :
    c.equal o = Equal_val0 c.radius o.radius c.center o.center c.isEmpty o.isEmpty c.isFull o.isFull := rfl

/-! ### constructors, Complement, Expanded -/
theorem tie_fromPoint (p : V3) : (CapM.fromPoint p : Cap) = ⟨p, ⟨0⟩⟩ := rfl
theorem tie_empty_full : (CapM.empty : Cap).radius = ⟨0xbff0000000000000⟩ ∧ (CapM.full : Cap).radius = ⟨0x4010000000000000⟩ ∧
    (CapM.empty : Cap).center = (CapM.full : Cap).center := ⟨rfl, rfl, rfl⟩
theorem tie_CapFromCenterHeight (h : F64) : CapFromCenterHeight_val0 h = F64.two * h := rfl

theorem tie_complement (c : Cap) :
    c.complement = if Complement_cond0 c.isFull then CapM.empty
      else if Complement_cond1 c.isEmpty then CapM.full
      else ⟨Complement_val0 c.center, Chord.sub Chord.f4 c.radius⟩ := rfl

theorem tie_expanded (c : Cap) (dc : F64) :
    c.expanded dc = if Expanded_cond0 c.isEmpty then CapM.empty else ⟨c.center, Chord.add c.radius dc⟩ := rfl

/-! ### AddPoint, AddCap, Union -/
theorem tie_addPoint (c : Cap) (p : V3) :
    c.addPoint p = if AddPoint_cond0 c.isEmpty then ⟨p, ⟨0⟩⟩
      else if AddPoint_cond1 (Chord.between c.center p) c.radius then ⟨c.center, Chord.between c.center p⟩ else c := by
  simp only [CapM.addPoint, AddPoint_cond0, AddPoint_cond1, lt_iff]; rfl

/-- the rounding allowance: `delta`, `maxErr`, `1.5 * maxErr` -/
theorem tie_addCapSlack (centerDist otherRadius dist : F64) :
    Chord.addCapSlack centerDist otherRadius dist =
      let delta := AddCap_val0 centerDist otherRadius
      let maxErr := AddCap_val1 dist delta (Chord.maxPointError dist)
      AddCap_val2 maxErr := rfl

theorem tie_addCap (c o : Cap) :
    c.addCap o = if AddCap_cond0 c.isEmpty then o
      else if AddCap_cond1 o.isEmpty then c
      else
        let centerDist := Chord.between c.center o.center
        let dist := Chord.add centerDist o.radius
        let newRad := Chord.expanded dist (Chord.addCapSlack centerDist o.radius dist)
        if AddCap_cond2 newRad c.radius then ⟨c.center, newRad⟩ else c := by
  simp only [CapM.addCap, AddCap_cond0, AddCap_cond1, AddCap_cond2, lt_iff]; rfl

/-- the branch skeleton of Union: swap so that `c` has the larger radius, the two early returns, the validity test -/
theorem tie_unionWith (c o : Cap) (containedByAngles : Bool) (t : Cap) :
    c.unionWith o containedByAngles t =
      let big := if Union_cond0 c.radius o.radius then o else c
      let small := if Union_cond0 c.radius o.radius then c else o
      if Union_cond1 big.isFull small.isEmpty then big
      else if containedByAngles then big.addCap small
      else if Union_cond3 t.isValid then big.addCap small
      else (t.addCap big).addCap small := by
  simp only [CapM.unionWith, Union_cond0, Union_cond1, Union_cond3, lt_iff]; rfl

end S2Proofs.Ties.C19Cap
