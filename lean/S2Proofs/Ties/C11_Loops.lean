/-
  S2Proofs.Ties.C11_Loops — regenerated-instance obligations for the LOOPS of s2/cellunion.go
  (the conditions of the search functions are tied in Ties/C11.lean by translator_c01; kept).

  `S2.Generated.CellUnionLoops.*` is rewritten from the Go source on every run by translator_c10 (skeleton
  extraction: every `if`/`for` condition = `F_cond<k>`, every assigned / returned / passed value = `F_val<k>`, the
  statement structure with the atom texts = `F_shape`).  For every translated function there is
   * one theorem `tie_F_shape` (the statement skeleton is the one the hand model was written against), and
   * step equations: one iteration of the hand model's recursion (`S2.CellUnion.*`, about which Properties/C11
     proves its theorems) IS the Go loop body — it branches on exactly the regenerated conditions, in the Go nesting,
     and continues with exactly the regenerated values.
  A flipped comparison, `len-3` → `len-2`, `RangeMax` → `RangeMin`, a dropped `immediateParent`, `j+1` → `j`,
  a reordered test … changes a regenerated definition or the shape string, and a theorem below stops to build.
  Go `int` is `Nat` where the hand model uses `Nat` and no intermediate value can be negative, `Int` in `Normalize`
  (`j` runs down to -1).  `CellID.level` / `CellIDFns.Level` differ on the invalid id 0 (see Ties/C01): the two ties
  through `Level` carry the hypothesis `id ≠ 0`.
-/
import S2.CellUnion
import S2.Generated.CellUnionLoops
import S2Proofs.Ties.C01
namespace S2Proofs.Ties.C11Loops
open S2 S2.CellUnion S2.Generated

/-! ### Normalize -/

theorem tie_Normalize_shape : CellUnionLoops.Normalize_shape =
    "sortCellIDs(*cu); output := make([]CellID, 0, len(*cu)); range _, ci := *cu {if cond0⟨output; ci⟩ {continue}; j := val0⟨output⟩; for cond1⟨j⟩ {if cond2⟨ci; j; output⟩ {break}; j--}; output = output[:val1⟨j⟩]; for cond3⟨output; ci⟩ {output = output[:val2⟨output⟩]; ci = val3⟨ci⟩}; output = append(output, ci)}; *cu = output" := rfl

private theorem get0 (rest : List CellID) (a b c : CellID) : (rest.reverse ++ [a, b, c]).toArray[rest.length]! = a := by simp
private theorem get1 (rest : List CellID) (a b c : CellID) : (rest.reverse ++ [a, b, c]).toArray[rest.length + 1]! = b := by simp
private theorem get2 (rest : List CellID) (a b c : CellID) : (rest.reverse ++ [a, b, c]).toArray[rest.length + 2]! = c := by simp

/-- the sibling-collapse loop: `for len(output) >= 3 && areSiblings(output[len-3], output[len-2], output[len-1], ci)
    { output = output[:len-3]; ci = ci.immediateParent() }` (the hand model keeps `output` reversed) -/
theorem tie_collapse_step (a b c ci : CellID) (rest : List CellID) :
    collapse (c :: b :: a :: rest) ci =
      if CellUnionLoops.Normalize_cond3 (rest.reverse ++ [a, b, c]).toArray ci
      then collapse rest (CellUnionLoops.Normalize_val3 ci) else ci :: c :: b :: a :: rest := by
  have h3 : (((rest.length + 3 : Nat) : Int) - 3).toNat = rest.length := by omega
  have h2 : (((rest.length + 3 : Nat) : Int) - 2).toNat = rest.length + 1 := by omega
  have h1 : (((rest.length + 3 : Nat) : Int) - 1).toNat = rest.length + 2 := by omega
  have hs : (rest.reverse ++ [a, b, c]).toArray.size = rest.length + 3 := by simp
  have hd : decide (((rest.length + 3 : Nat) : Int) ≥ 3) = true := by simp; omega
  unfold CellUnionLoops.Normalize_cond3 CellUnionLoops.Normalize_val3
  rw [hs, h1, h2, h3, get0, get1, get2, hd]
  rfl

/-- fewer than three accepted cells: the collapse loop does not run (`len(output) >= 3` fails) -/
theorem tie_collapse_short (out : List CellID) (ci : CellID) (h : out.length < 3) :
    CellUnionLoops.Normalize_cond3 out.reverse.toArray ci = false ∧ collapse out ci = ci :: out := by
  match out, h with
  | [], _ => exact ⟨rfl, rfl⟩
  | [_], _ => exact ⟨rfl, rfl⟩
  | [_, _], _ => exact ⟨rfl, rfl⟩

/-- the slice shrinks by exactly three: `output = output[:len(output)-3]` -/
theorem tie_collapse_len (rest : List CellID) (a b c : CellID) :
    CellUnionLoops.Normalize_val2 (rest.reverse ++ [a, b, c]).toArray = (rest.length : Int) := by
  simp [CellUnionLoops.Normalize_val2]

/-- `if len(output) > 0 && output[len(output)-1].Contains(ci) { continue }`, then the backward scan
    `j := len-1; for j >= 0 { if !ci.Contains(output[j]) { break }; j-- }; output = output[:j+1]` (= `dropWhile` on the
    reversed list; the scan condition is `Normalize_cond2`), then the collapse loop and the append. -/
theorem tie_normStep (last ci : CellID) (rest : List CellID) :
    normStep (last :: rest) ci =
      if CellUnionLoops.Normalize_cond0 (rest.reverse ++ [last]).toArray ci then last :: rest
      else collapse ((last :: rest).dropWhile (fun o => !CellUnionLoops.Normalize_cond2 ci 0 #[o])) ci := by
  have hs : (rest.reverse ++ [last]).toArray.size = rest.length + 1 := by simp
  have h1 : (((rest.length + 1 : Nat) : Int) - 1).toNat = rest.length := by omega
  have hd : decide (((rest.length + 1 : Nat) : Int) > 0) = true := by simp
  have hg : (rest.reverse ++ [last]).toArray[rest.length]! = last := by simp
  have hf : (fun o => !CellUnionLoops.Normalize_cond2 ci 0 #[o]) = (fun o => CellID.contains ci o) := by
    funext o; simp [CellUnionLoops.Normalize_cond2]; rfl
  unfold CellUnionLoops.Normalize_cond0
  rw [hs, h1, hd, hg, hf]
  rfl

theorem tie_normStep_nil (ci : CellID) :
    CellUnionLoops.Normalize_cond0 #[] ci = false ∧ normStep [] ci = collapse [] ci := ⟨rfl, rfl⟩

/-- the index bookkeeping of the backward scan: it starts at `len(output)-1`, runs while `j >= 0`, keeps `j+1` cells -/
theorem tie_normalize_scan_bounds (output : Array CellID) (j : Int) :
    CellUnionLoops.Normalize_val0 output = (output.size : Int) - 1 ∧
    CellUnionLoops.Normalize_cond1 j = decide (0 ≤ j) ∧ CellUnionLoops.Normalize_val1 j = j + 1 := ⟨rfl, rfl, rfl⟩

/-- the backward scan as a loop over the regenerated pieces -/
def scanJ (ci : CellID) (output : Array CellID) : Nat → Int → Int
  | 0, j => j
  | fuel+1, j =>
    if CellUnionLoops.Normalize_cond1 j then
      (if CellUnionLoops.Normalize_cond2 ci j output then j else scanJ ci output fuel (j - 1))
    else j

/-- … keeps exactly the cells that the hand model's `dropWhile` keeps -/
theorem tie_normalize_scan (ci : CellID) (out : List CellID) :
    (out.reverse.take (CellUnionLoops.Normalize_val1
        (scanJ ci out.reverse.toArray (out.length + 1) (CellUnionLoops.Normalize_val0 out.reverse.toArray))).toNat).reverse =
      out.dropWhile (fun o => CellID.contains ci o) := by
  -- generalised: for every prefix `pre` (cells below the scan window) the scan over `pre ++ out.reverse` from
  -- index `|pre| + |out| - 1` keeps `pre ++ (dropWhile out).reverse`
  have key : ∀ (out pre : List CellID) (tail : List CellID) (fuel : Nat), fuel ≥ out.length + 1 →
      (scanJ ci (out.reverse ++ tail).toArray fuel ((out.length : Int) - 1) + 1).toNat =
        (out.dropWhile (fun o => CellID.contains ci o)).length := by
    intro out
    induction out with
    | nil =>
      intro _ tail fuel hf
      cases fuel with
      | zero => omega
      | succ n => simp [scanJ, CellUnionLoops.Normalize_cond1]
    | cons o rest ih =>
      intro pre tail fuel hf
      cases fuel with
      | zero => simp at hf
      | succ n =>
        have hg : ((o :: rest).reverse ++ tail).toArray[rest.length]! = o := by simp
        have hj : (((o :: rest).length : Int) - 1) = (rest.length : Int) := by simp
        have hc1 : CellUnionLoops.Normalize_cond1 (rest.length : Int) = true := by simp [CellUnionLoops.Normalize_cond1]
        have hc2 : CellUnionLoops.Normalize_cond2 ci (rest.length : Int) ((o :: rest).reverse ++ tail).toArray = !CellID.contains ci o := by
          simp only [CellUnionLoops.Normalize_cond2, Int.toNat_natCast, hg]; rfl
        rw [hj]
        unfold scanJ
        rw [hc1, hc2]
        by_cases hco : CellID.contains ci o = true
        · have := ih pre (o :: tail) n (by simp at hf; omega)
          simp only [List.reverse_cons, List.append_assoc, List.singleton_append] at *
          simp [hco, this]
        · simp [hco]
  have h := key out [] [] (out.length + 1) (Nat.le_refl _)
  simp only [List.append_nil] at h
  have hv0 : CellUnionLoops.Normalize_val0 out.reverse.toArray = (out.length : Int) - 1 := by
    simp [CellUnionLoops.Normalize_val0]
  rw [hv0]
  show (out.reverse.take (scanJ ci out.reverse.toArray (out.length + 1) ((out.length : Int) - 1) + 1).toNat).reverse = _
  rw [h]
  have hsplit := List.takeWhile_append_dropWhile (p := fun o => CellID.contains ci o) (l := out)
  have hgen : ∀ (t d : List CellID), ((t ++ d).reverse.take d.length).reverse = d := by
    intro t d; simp [List.reverse_append, List.take_left']
  have := hgen (out.takeWhile (fun o => CellID.contains ci o)) (out.dropWhile (fun o => CellID.contains ci o))
  rw [hsplit] at this
  exact this

/-! ### Denormalize -/

theorem tie_Denormalize_shape : CellUnionLoops.Denormalize_shape =
    "var denorm CellUnion; range _, id := *cu {level := val0⟨id⟩; newLevel := level; if cond0⟨newLevel; minLevel⟩ {newLevel = minLevel}; if cond1⟨levelMod⟩ {newLevel += val1⟨newLevel; minLevel; levelMod⟩; if cond2⟨newLevel⟩ {newLevel = MaxLevel}}; if cond3⟨newLevel; level⟩ {denorm = append(denorm, id)} else {end := val2⟨id; newLevel⟩; for[ci := val3⟨id; newLevel⟩] cond4⟨ci; end⟩ [ci = val4⟨ci⟩] {denorm = append(denorm, ci)}}}; *cu = denorm" := rfl

/-- the body of the range loop over the regenerated level arithmetic -/
def denormBody (minLevel levelMod : Nat) (id : CellID) : List CellID :=
  let level := CellUnionLoops.Denormalize_val0 id
  let newLevel := level
  let newLevel := if CellUnionLoops.Denormalize_cond0 newLevel minLevel then minLevel else newLevel
  let newLevel :=
    if CellUnionLoops.Denormalize_cond1 levelMod then
      let newLevel := newLevel + CellUnionLoops.Denormalize_val1 newLevel minLevel levelMod
      if CellUnionLoops.Denormalize_cond2 newLevel then CellUnionLoops.MaxLevel else newLevel
    else newLevel
  if CellUnionLoops.Denormalize_cond3 newLevel level then [id] else childrenAtLevel id newLevel

theorem tie_denormBody (minLevel levelMod : Nat) (id : CellID) (h : id ≠ 0) :
    denormalize [id] minLevel levelMod = denormBody minLevel levelMod id := by
  have hid := S2Proofs.Ties.C01.tie_Level id h
  simp only [denormalize, List.flatMap_cons, List.flatMap_nil, List.append_nil, denormBody,
    CellUnionLoops.Denormalize_val0, CellUnionLoops.Denormalize_cond0,
    CellUnionLoops.Denormalize_cond1, CellUnionLoops.Denormalize_val1, CellUnionLoops.Denormalize_cond2,
    CellUnionLoops.Denormalize_cond3, CellUnionLoops.MaxLevel, CellID.maxLevel, ← hid, decide_eq_true_eq]
  rfl

theorem tie_denormalize (cu : CU) (minLevel levelMod : Nat) (h : ∀ id ∈ cu, id ≠ 0) :
    denormalize cu minLevel levelMod = cu.flatMap (denormBody minLevel levelMod) := by
  induction cu with
  | nil => simp [denormalize]
  | cons id rest ih =>
    have h1 := tie_denormBody minLevel levelMod id (h id (by simp))
    have h2 := ih (fun x hx => h x (by simp [hx]))
    simp only [List.flatMap_cons, ← h1, ← h2]
    simp only [denormalize, List.flatMap_cons, List.flatMap_nil, List.append_nil]

/-- the child loop `for ci := id.ChildBeginAtLevel(newLevel); ci != end; ci = ci.Next()` with
    `end := id.ChildEndAtLevel(newLevel)`: first element, end marker, step and test of the hand model's enumeration -/
theorem tie_denormalize_children (id ci e : CellID) (lvl : Nat) :
    CellUnionLoops.Denormalize_val3 id lvl = CellID.childBeginAtLevel id lvl ∧
    CellUnionLoops.Denormalize_val2 id lvl = CellID.childEndAtLevel id lvl ∧
    CellUnionLoops.Denormalize_val4 ci = CellID.next ci ∧
    CellUnionLoops.Denormalize_cond4 ci e = (ci != e) := ⟨rfl, rfl, rfl, rfl⟩

/-- `childrenAtLevel` starts at the regenerated begin and every later element is `Next` of its predecessor when the
    predecessor has the lsb of the target level (which is what the hand model's `step` says) -/
theorem tie_childrenAtLevel_head (id : CellID) (lvl : Nat) (h : 0 < 4 ^ (lvl - CellID.level id)) :
    (childrenAtLevel id lvl).head? = some (CellUnionLoops.Denormalize_val3 id lvl) := by
  unfold childrenAtLevel
  obtain ⟨n, hn⟩ : ∃ n, 4 ^ (lvl - CellID.level id) = n + 1 := ⟨_, (Nat.succ_pred_eq_of_pos h).symm⟩
  simp only [hn, List.range_succ_eq_map, List.map_cons, List.head?_cons]
  simp [CellUnionLoops.Denormalize_val3]
  rfl

/-! ### Difference -/

theorem tie_differenceInternal_shape : CellUnionLoops.differenceInternal_shape =
    "if cond0⟨other.IntersectsCellID(id)⟩ {*cu = append((*cu), id); return}; if cond1⟨other.ContainsCellID(id)⟩ {range _, child := id.Children() {cu.cellUnionDifferenceInternal(child, other)}}" := rfl
theorem tie_CellUnionFromDifference_shape : CellUnionLoops.CellUnionFromDifference_shape =
    "var cu CellUnion; range _, xid := x {cu.cellUnionDifferenceInternal(xid, &y)}; return cu" := rfl

/-- one level of the recursion (`IntersectsCellID` / `ContainsCellID` themselves are tied in Ties/C11.lean) -/
theorem tie_differenceInternal_step (other : CU) (fuel : Nat) (id : CellID) (acc : List CellID) :
    differenceInternal other (fuel + 1) id acc =
      if CellUnionLoops.differenceInternal_cond0 (intersectsCellID other id) then id :: acc
      else if CellUnionLoops.differenceInternal_cond1 (containsCellID other id) then
        (CellID.childrenList id).foldl (fun acc ch => differenceInternal other fuel ch acc) acc
      else acc := rfl

theorem tie_difference (x y : CU) :
    difference x y = (x.foldl (fun acc xid => differenceInternal y 32 xid acc) []).reverse := rfl

/-! ### Union, Intersection -/

theorem tie_CellUnionFromUnion_shape : CellUnionLoops.CellUnionFromUnion_shape =
    "var cu CellUnion; range _, cellUnion := cellUnions {cu = append(cu, cellUnion...)}; cu.Normalize(); return cu" := rfl

theorem tie_CellUnionFromIntersection_shape : CellUnionLoops.CellUnionFromIntersection_shape =
    "var cu CellUnion; var i, j int; for cond0⟨i; x; j; y⟩ {iMin := val0⟨i; x⟩; jMin := val1⟨j; y⟩; if cond1⟨iMin; jMin⟩ {if cond2⟨i; x; j; y⟩ {cu = append(cu, x[i]); i++} else {j = y.lowerBound(val2⟨j⟩, len(y), iMin); if cond3⟨i; x; j; y⟩ {j--}}} else if cond4⟨jMin; iMin⟩ {if cond5⟨j; y; i; x⟩ {cu = append(cu, y[j]); j++} else {i = x.lowerBound(val3⟨i⟩, len(x), jMin); if cond6⟨j; y; i; x⟩ {i--}}} else {if cond7⟨i; x; j; y⟩ {cu = append(cu, x[i]); i++} else {cu = append(cu, y[j]); j++}}}; cu.Normalize(); return cu" := rfl

/-- the two-pointer loop with its UPDATES: `iMin`, `jMin`, the `lowerBound` start `j+1` / `i+1` are the regenerated
    values (the eight conditions are also tied, against translator_c01's copy, in Ties/C11.lean) -/
theorem tie_intersection_step (x y : Array UInt64) (fuel i j : Nat) (acc : List UInt64) :
    intersectionRaw.go x y (fuel + 1) i j acc =
      if CellUnionLoops.CellUnionFromIntersection_cond0 i x j y then
        let iMin := CellUnionLoops.CellUnionFromIntersection_val0 i x
        let jMin := CellUnionLoops.CellUnionFromIntersection_val1 j y
        if CellUnionLoops.CellUnionFromIntersection_cond1 iMin jMin then
          if CellUnionLoops.CellUnionFromIntersection_cond2 i x j y then
            intersectionRaw.go x y fuel (i + 1) j (x[i]! :: acc)
          else
            let j' := lowerBound y (CellUnionLoops.CellUnionFromIntersection_val2 j) y.size iMin
            let j' := if CellUnionLoops.CellUnionFromIntersection_cond3 i x j' y then j' - 1 else j'
            intersectionRaw.go x y fuel i j' acc
        else if CellUnionLoops.CellUnionFromIntersection_cond4 jMin iMin then
          if CellUnionLoops.CellUnionFromIntersection_cond5 j y i x then
            intersectionRaw.go x y fuel i (j + 1) (y[j]! :: acc)
          else
            let i' := lowerBound x (CellUnionLoops.CellUnionFromIntersection_val3 i) x.size jMin
            let i' := if CellUnionLoops.CellUnionFromIntersection_cond6 j y i' x then i' - 1 else i'
            intersectionRaw.go x y fuel i' j acc
        else
          if CellUnionLoops.CellUnionFromIntersection_cond7 i x j y then
            intersectionRaw.go x y fuel (i + 1) j (x[i]! :: acc)
          else intersectionRaw.go x y fuel i (j + 1) (y[j]! :: acc)
      else acc := by
  simp only [intersectionRaw.go]
  unfold CellUnionLoops.CellUnionFromIntersection_cond0
    CellUnionLoops.CellUnionFromIntersection_cond1 CellUnionLoops.CellUnionFromIntersection_cond2
    CellUnionLoops.CellUnionFromIntersection_cond3 CellUnionLoops.CellUnionFromIntersection_cond4
    CellUnionLoops.CellUnionFromIntersection_cond5 CellUnionLoops.CellUnionFromIntersection_cond6
    CellUnionLoops.CellUnionFromIntersection_cond7 CellUnionLoops.CellUnionFromIntersection_val0
    CellUnionLoops.CellUnionFromIntersection_val1 CellUnionLoops.CellUnionFromIntersection_val2
    CellUnionLoops.CellUnionFromIntersection_val3
  simp only [decide_eq_true_eq]
  rfl

theorem tie_CellUnionFromIntersectionWithCellID_shape : CellUnionLoops.CellUnionFromIntersectionWithCellID_shape =
    "var cu CellUnion; if cond0⟨x.ContainsCellID(id)⟩ {cu = append(cu, id); cu.Normalize(); return cu}; idmax := val0⟨id⟩; for[i := x.lowerBound(0, len(x), val1⟨id⟩)] cond1⟨i; x; idmax⟩ [i++] {cu = append(cu, x[i])}; cu.Normalize(); return cu" := rfl

theorem tie_intersectionWithCellID (x : CU) (id : CellID) :
    intersectionWithCellID x id =
      if CellUnionLoops.CellUnionFromIntersectionWithCellID_cond0 (containsCellID x id) then normalize [id]
      else
        let idmax := CellUnionLoops.CellUnionFromIntersectionWithCellID_val0 id
        let start := lowerBound x.toArray 0 x.toArray.size (CellUnionLoops.CellUnionFromIntersectionWithCellID_val1 id)
        normalize ((x.drop start).takeWhile
          (fun c => CellUnionLoops.CellUnionFromIntersectionWithCellID_cond1 0 #[c] idmax)) := by
  simp [intersectionWithCellID, CellUnionLoops.CellUnionFromIntersectionWithCellID_cond0,
    CellUnionLoops.CellUnionFromIntersectionWithCellID_cond1, CellUnionLoops.CellUnionFromIntersectionWithCellID_val0,
    CellUnionLoops.CellUnionFromIntersectionWithCellID_val1]
  rfl

/-! ### CellUnionFromRange, LeafCellsCovered -/

theorem tie_CellUnionFromRange_shape : CellUnionLoops.CellUnionFromRange_shape =
    "var cu CellUnion; for[id := val0⟨begin; end⟩] cond0⟨id; end⟩ [id = val1⟨id; end⟩] {cu = append(cu, id)}; return cu" := rfl

theorem tie_fromRange_step (e : CellID) (fuel : Nat) (id : CellID) (acc : List CellID) :
    fromRange.go e (fuel + 1) id acc =
      if CellUnionLoops.CellUnionFromRange_cond0 id e
      then fromRange.go e fuel (CellUnionLoops.CellUnionFromRange_val1 id e) (id :: acc) else acc := by
  simp only [fromRange.go, CellUnionLoops.CellUnionFromRange_cond0, CellUnionLoops.CellUnionFromRange_val1,
    ← S2Proofs.Ties.C01.tie_MaxTile]
  by_cases h : id = e <;> simp [h] <;> rfl

theorem tie_fromRange_init (b e : CellID) :
    fromRange b e = (fromRange.go e 400 (CellUnionLoops.CellUnionFromRange_val0 b e) []).reverse := by
  simp only [fromRange, CellUnionLoops.CellUnionFromRange_val0, ← S2Proofs.Ties.C01.tie_MaxTile]

theorem tie_LeafCellsCovered_shape : CellUnionLoops.LeafCellsCovered_shape =
    "var numLeaves int64; range _, c := *cu {numLeaves += val0⟨c⟩}; return numLeaves" := rfl

/-- `numLeaves += 1 << uint64((MaxLevel-int64(c.Level()))<<1)` -/
theorem tie_leafCellsCovered_term (c : CellID) (h : c ≠ 0) :
    (1 <<< ((CellID.maxLevel - CellID.level c) <<< 1)) = CellUnionLoops.LeafCellsCovered_val0 c := by
  have hl := S2Proofs.Ties.C01.tie_Level c h
  have hb : (30 - CellIDFns.Level c) * 2 < 18446744073709551616 := by omega
  simp only [CellUnionLoops.LeafCellsCovered_val0, ← hl, Nat.shiftLeft_eq, CellID.maxLevel, Nat.pow_one,
    UInt64.toNat_ofNat', Nat.one_mul]
  rw [← hl] at hb
  rw [Nat.mod_eq_of_lt hb]

theorem tie_leafCellsCovered (cu : CU) (h : ∀ c ∈ cu, c ≠ 0) :
    leafCellsCovered cu = cu.foldl (fun n c => n + CellUnionLoops.LeafCellsCovered_val0 c) 0 := by
  unfold leafCellsCovered
  generalize (0 : Nat) = n0
  induction cu generalizing n0 with
  | nil => rfl
  | cons c rest ih =>
    simp only [List.foldl_cons]
    rw [tie_leafCellsCovered_term c (h c (by simp))]
    exact ih (fun x hx => h x (by simp [hx])) _

/-! ### IsValid, IsNormalized, Contains, Intersects, lowerBound -/

theorem tie_IsValid_shape : CellUnionLoops.IsValid_shape =
    "range i, cid := *cu {if cond0⟨cid⟩ {return false}; if cond1⟨i⟩ {continue}; if cond2⟨i; cu; cid⟩ {return false}}; return true" := rfl
theorem tie_IsNormalized_shape : CellUnionLoops.IsNormalized_shape =
    "range i, cid := *cu {if cond0⟨cid⟩ {return false}; if cond1⟨i⟩ {continue}; if cond2⟨i; cu; cid⟩ {return false}; if cond3⟨i⟩ {continue}; if cond4⟨i; cu; cid⟩ {return false}}; return true" := rfl
theorem tie_Contains_shape : CellUnionLoops.Contains_shape =
    "range _, id := o {if cond0⟨cu.ContainsCellID(id)⟩ {return false}}; return true" := rfl
theorem tie_Intersects_shape : CellUnionLoops.Intersects_shape =
    "range _, c := *cu {if cond0⟨o.IntersectsCellID(c)⟩ {return true}}; return false" := rfl
theorem tie_lowerBound_shape : CellUnionLoops.lowerBound_shape =
    "for[i := begin] cond0⟨i; end⟩ [i++] {if cond1⟨i; cu; id⟩ {return i}}; return end" := rfl

/-- `IsValid`: first cell (`i == 0`: only the validity test), later cells (also the overlap test with the predecessor) -/
theorem tie_isValidCU_head (c : CellID) (rest : List CellID) :
    CellUnionLoops.IsValid_cond1 0 = true ∧
    isValidCU (c :: rest) = (!CellUnionLoops.IsValid_cond0 c && isValidCU.go c rest) := by
  refine ⟨rfl, ?_⟩
  simp [isValidCU, CellUnionLoops.IsValid_cond0]; rfl

theorem tie_isValidCU_step (p c : CellID) (rest : List CellID) :
    isValidCU.go p (c :: rest) =
      (!CellUnionLoops.IsValid_cond0 c && !CellUnionLoops.IsValid_cond2 1 #[p, c] c && isValidCU.go c rest) := by
  simp [isValidCU.go, CellUnionLoops.IsValid_cond0, CellUnionLoops.IsValid_cond2]; rfl

theorem tie_isNormalizedCU (cu : CU) :
    isNormalizedCU cu =
      let a := cu.toArray
      (List.range a.size).all fun i =>
        !CellUnionLoops.IsNormalized_cond0 a[i]! &&
        (CellUnionLoops.IsNormalized_cond1 i || !CellUnionLoops.IsNormalized_cond2 i a a[i]!) &&
        (CellUnionLoops.IsNormalized_cond3 i || !CellUnionLoops.IsNormalized_cond4 i a a[i]!) := by
  simp [isNormalizedCU, CellUnionLoops.IsNormalized_cond0, CellUnionLoops.IsNormalized_cond1,
    CellUnionLoops.IsNormalized_cond2, CellUnionLoops.IsNormalized_cond3, CellUnionLoops.IsNormalized_cond4]
  rfl

theorem tie_containsCU (cu o : CU) :
    containsCU cu o = o.all fun id => !CellUnionLoops.Contains_cond0 (containsCellID cu id) := by
  simp [containsCU, CellUnionLoops.Contains_cond0]

theorem tie_intersectsCU (cu o : CU) :
    intersectsCU cu o = cu.any fun c => CellUnionLoops.Intersects_cond0 (intersectsCellID o c) := rfl

theorem tie_lowerBound_step (a : Array UInt64) (e : Nat) (id : UInt64) (fuel i : Nat) :
    lowerBound.go a e id (fuel + 1) i =
      if CellUnionLoops.lowerBound_cond0 i e then
        (if CellUnionLoops.lowerBound_cond1 i a id then i else lowerBound.go a e id fuel (i + 1))
      else e := by
  simp only [lowerBound.go, CellUnionLoops.lowerBound_cond0, CellUnionLoops.lowerBound_cond1, decide_eq_true_eq]

theorem tie_MaxLevel : CellID.maxLevel = CellUnionLoops.MaxLevel := rfl

end S2Proofs.Ties.C11Loops
