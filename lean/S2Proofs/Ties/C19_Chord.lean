/-
  S2Proofs.Ties.C19_Chord — regenerated-instance obligations for s1/chordangle.go against the bit-exact
  ChordAngle arithmetic `S2.Chord` of S2/CapM.lean (the instance the C19 cap oracle runs).

  `S2.Generated.EdgeNumFns.*` is rewritten from the Go source on every run of ./check by translator_c16 (rules:
  header of translator_c16/main.go).  Every theorem is `hand model = generated function`, all by `rfl`.
-/
import S2.CapM
import S2.Generated.EdgeNumFns
namespace S2Proofs.Ties.C19_Chord
open S2 S2.Generated.EdgeNumFns

/-- s1's `var dblEpsilon = 2.220446049e-16` -/
theorem tie_dblEpsilonS1 : Chord.dblEpsilonS1 = pkgvar_s1_dblEpsilon := rfl
theorem tie_FromSquaredLength : @Chord.fromSquaredLength = @ChordAngleFromSquaredLength := rfl
theorem tie_IsInfinity : @Chord.isInfinity = @ChordAngle_IsInfinity := rfl
theorem tie_isSpecial : @Chord.isSpecial = @ChordAngle_isSpecial := rfl
theorem tie_isValid : @Chord.isValid = @ChordAngle_isValid := rfl
theorem tie_Expanded : @Chord.expanded = @ChordAngle_Expanded := rfl
theorem tie_Successor : @Chord.successor = @ChordAngle_Successor := rfl
theorem tie_Predecessor : @Chord.predecessor = @ChordAngle_Predecessor := rfl
theorem tie_MaxPointError : @Chord.maxPointError = @ChordAngle_MaxPointError := rfl
theorem tie_Add : @Chord.add = @ChordAngle_Add := rfl
theorem tie_Sub : @Chord.sub = @ChordAngle_Sub := rfl
theorem tie_Sin2 : @Chord.sin2 = @ChordAngle_Sin2 := rfl
theorem tie_Cos : @Chord.cos = @ChordAngle_Cos := rfl
/-- `ChordAngleBetweenPoints` (s2/point.go) -/
theorem tie_between : @Chord.between = @ChordAngleBetweenPoints := rfl

end S2Proofs.Ties.C19_Chord
