/-
  S2Proofs.Ties.C06_Locate — regenerated-instance obligations for the ShapeIndexIterator of s2/shapeindex.go.

  `S2.Generated.LocateFns.*` is rewritten from the Go source on every run by translator_c08 (locate.go): the
  iterator methods `refresh`, `CellID`, `Done`, `Begin`, `Next`, `Prev`, `End`, `seek`, `LocatePoint`, `LocateCellID`
  are translated IN FULL into Lean functions of (cells, position).  The theorems below say that the hand model
  `S2.Locate` (which the C06 theorems `locatePoint_found`, `locateCellID_indexed` … and the oracle ops
  c06loc / c06locp / c06seek use) IS that translation.  A flipped comparison, a dropped `s.refresh()`, a changed
  operand (`RangeMin` ↔ `RangeMax`), a reordered test or a changed return value changes a generated definition and
  the corresponding theorem no longer builds.
-/
import S2.Locate
import S2.Generated.LocateFns
namespace S2Proofs.Ties.C06_Locate
open S2 S2.Locate S2.CellID S2.Generated

/-- `refresh`, literally: `if s.position < len(s.index.cells) { s.id = s.index.cells[s.position] } else { s.id = SentinelCellID }` -/
theorem tie_refresh_def (cells : List CellID) (pos : Nat) :
    LocateFns.refresh_id cells pos = if pos < cells.length then cells.getD pos CellID.sentinel else CellID.sentinel := rfl

/-- `refresh`: the id held at a position -/
theorem tie_refresh (cells : List CellID) (pos : Nat) : idAt cells pos = LocateFns.refresh_id cells pos := by
  unfold idAt LocateFns.refresh_id
  split
  · rfl
  · rw [List.getD_eq_getElem?_getD, List.getElem?_eq_none (by omega)]; rfl

theorem tie_CellID (cells : List CellID) (pos : Nat) : idAt cells pos = LocateFns.It_CellID cells pos :=
  tie_refresh cells pos

theorem tie_Done (cells : List CellID) (pos : Nat) : done cells pos = LocateFns.It_Done cells pos := by
  simp only [done, LocateFns.It_Done, tie_refresh]

/-- `Begin` / `End` / `Next`: positions 0, len(cells), pos+1 (the hand model writes them inline: `initCoveringGen`,
    `coverLoop` of S2.EdgeQueryM start at `0` and at `prev cells.length`) -/
theorem tie_Begin (cells : List CellID) (pos : Nat) : LocateFns.It_Begin cells pos = 0 := rfl
theorem tie_End (cells : List CellID) (pos : Nat) : LocateFns.It_End cells pos = cells.length := rfl
theorem tie_Next (cells : List CellID) (pos : Nat) : LocateFns.It_Next cells pos = pos + 1 := rfl

theorem tie_Prev (cells : List CellID) (pos : Nat) : prev pos = LocateFns.It_Prev cells pos := rfl

theorem tie_seek (cells : List CellID) (pos : Nat) (target : CellID) :
    seek cells target = LocateFns.It_seek cells pos target := rfl

theorem tie_LocatePoint (cells : List CellID) (pos : Nat) (target : CellID) :
    locatePoint cells target = LocateFns.It_LocatePoint cells pos target := by
  simp only [locatePoint, LocateFns.It_LocatePoint, ← tie_seek cells pos, ← tie_Done, ← tie_CellID, ← tie_Prev]

theorem tie_LocateCellID (cells : List CellID) (pos : Nat) (target : CellID) :
    locateCellID cells target = LocateFns.It_LocateCellID cells pos target := by
  simp only [locateCellID, LocateFns.It_LocateCellID, ← tie_seek cells pos, ← tie_Done, ← tie_CellID, ← tie_Prev]
  cases done cells (seek cells (rangeMin target)) <;> simp

/-- the part of the iterator that is not position arithmetic -/
theorem tie_fields : LocateFns.ShapeIndexIterator_fields =
    "index *s2.ShapeIndex; position int; id s2.CellID; cell *s2.ShapeIndexCell" := rfl
theorem tie_refresh_cell : LocateFns.refresh_cell_shape =
    "if s.position < len(s.index.cells) {s.cell = s.index.cellMap[s.CellID()]} else {s.cell = nil}" := rfl
theorem tie_Begin_opaque : LocateFns.It_Begin_opaque = ["if !s.index.IsFresh() { s.index.maybeApplyUpdates() }"] := rfl

/-! ### the rest of the iterator API (constructor, clone, cell-pointer accessors): statement structure and pins -/
theorem tie_ShapeIndexIterator_fields : LocateFns.ShapeIndexIterator_fields =
    "index *s2.ShapeIndex; position int; id s2.CellID; cell *s2.ShapeIndexCell" := rfl
theorem tie_refresh_cell_shape : LocateFns.refresh_cell_shape =
    "if s.position < len(s.index.cells) {s.cell = s.index.cellMap[s.CellID()]} else {s.cell = nil}" := rfl
theorem tie_NewShapeIndexIterator_shape : LocateFns.NewShapeIndexIterator_shape =
    "s := &ShapeIndexIterator{index: index}; if cond0(len(pos)) {if cond1(len(pos)) {panic(\"too many ShapeIndexIteratorPos arguments\")}; switch pos[0] {case IteratorBegin: s.Begin() | case IteratorEnd: s.End() | default: panic(\"unknown ShapeIndexIteratorPos value\")}}; return s" := rfl
theorem tie_clone_shape : LocateFns.clone_shape =
    "return &ShapeIndexIterator{index: s.index, position: s.position, id: s.id, cell: s.cell}" := rfl
theorem tie_IndexCell_shape : LocateFns.IndexCell_shape =
    "return s.cell" := rfl
theorem tie_Center_shape : LocateFns.Center_shape =
    "return s.CellID().Point()" := rfl
section pins_LocateFns
open S2.Generated.LocateFns
theorem pin_NewShapeIndexIterator_cond0 (len_pos : Int) :
    LocateFns.NewShapeIndexIterator_cond0 len_pos = (decide (len_pos > 0)) := rfl
theorem pin_NewShapeIndexIterator_cond1 (len_pos : Int) :
    LocateFns.NewShapeIndexIterator_cond1 len_pos = (decide (len_pos > 1)) := rfl
end pins_LocateFns
/-- number of extracted conditions / values per function, in generation order -/
theorem tie_counts_LocateFns :
    [(LocateFns.NewShapeIndexIterator_numConds, LocateFns.NewShapeIndexIterator_numVals), (LocateFns.clone_numConds, LocateFns.clone_numVals), (LocateFns.IndexCell_numConds, LocateFns.IndexCell_numVals), (LocateFns.Center_numConds, LocateFns.Center_numVals)] =
    [(2, 0), (0, 0), (0, 0), (0, 0)] := rfl

end S2Proofs.Ties.C06_Locate
