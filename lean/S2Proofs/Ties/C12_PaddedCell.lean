/-
  S2Proofs.Ties.C12_PaddedCell — regenerated-instance obligations for s2/paddedcell.go (serves C12 and, through
  `Ties/C06_PaddedCell.lean`, C06).

  `S2.Generated.PaddedCellFns.*` is rewritten from the Go source on every run by translator_c04.  Value-mode functions
  (CellID, Level, Center, ChildIJ, EntryVertex, ExitVertex, ShrinkToFit): hand model function = regenerated body.
  The constructors and `Middle` assign struct fields one by one: the hand model's record / rectangles are stated over
  the regenerated conditions and values, the statement structure is pinned by the `shape_*` / `atoms_*` theorems.
-/
import S2.PaddedCellM
import S2.Generated.PaddedCellFns
set_option linter.unusedSimpArgs false
namespace S2Proofs.Ties.C12_PaddedCell
open S2 S2.STUV S2.CellM S2.PaddedCellM S2.CellID S2.Hilbert S2.Generated

/-! ### value mode -/
theorem tie_CellID (p : PaddedCell) : p.id = PaddedCellFns.PaddedCell_CellID p := rfl
theorem tie_Level (p : PaddedCell) : p.level = PaddedCellFns.PaddedCell_Level p := rfl
/-- the Go field `padding` is the explicit parameter of the model functions -/
theorem tie_Padding (p : PaddedCell) (padding : F64) : padding = PaddedCellFns.PaddedCell_Padding p padding := rfl
theorem tie_Center (p : PaddedCell) : center p = PaddedCellFns.PaddedCell_Center p := rfl
theorem tie_ChildIJ (p : PaddedCell) (pos : Nat) : childIJ p pos = PaddedCellFns.PaddedCell_ChildIJ p pos := rfl
theorem tie_EntryVertex (p : PaddedCell) : entryVertex p = PaddedCellFns.PaddedCell_EntryVertex p := rfl
theorem tie_ExitVertex (p : PaddedCell) : exitVertex p = PaddedCellFns.PaddedCell_ExitVertex p := rfl
/-- `ShrinkToFit`: the Go code nests the face fast path (`if p.level == 0 { if … { return p.id } }`), the hand model
    writes it as one condition -/
theorem tie_ShrinkToFit (p : PaddedCell) (padding : F64) (rect : Rect2) :
    shrinkToFit p padding rect = PaddedCellFns.PaddedCell_ShrinkToFit p rect padding := by
  have hz : fzero = (⟨0x0000000000000000⟩ : F64) := rfl
  unfold shrinkToFit PaddedCellFns.PaddedCell_ShrinkToFit centerSiTi u32
  simp only [hz]
  cases h0 : (p.level == 0) <;>
  cases h1 : (Ivl.contains rect.1 ⟨0⟩ || Ivl.contains rect.2 ⟨0⟩) <;>
  simp only [Bool.and_true, Bool.and_false, Bool.false_and, Bool.true_and, Bool.false_eq_true, if_true, if_false] <;>
  (try simp only [beq_iff_eq] at h0) <;>
  (try simp only [h0, if_true, if_false, h1, Bool.false_eq_true]) <;>
  rfl

/-! ### `PaddedCellFromCellID` (skeleton) -/
/-- integer fields: the face fast path sets only `orientation = id.Face() & 1`; otherwise `faceIJOrientation`, `Level`,
    `iLo &= -ijSize`, `jLo &= -ijSize` (these statements are in `shape_PaddedCellFromCellID`) -/
theorem tie_fromCellID (id : CellID) :
    fromCellID id =
      if PaddedCellFns.PaddedCellFromCellID_cond0 (isFace id) then
        { id := id, level := 0, orientation := PaddedCellFns.PaddedCellFromCellID_val5 (face id), iLo := 0, jLo := 0 }
      else
        let (_, i, j, o) := faceIJOrientation id
        let lvl := level id
        let ijSize := sizeIJ lvl
        { id := id, level := lvl, orientation := o, iLo := andNeg i ijSize, jLo := andNeg j ijSize } := rfl
/-- the `bound` rectangle: `limit := padding + 1`, `[-limit, limit]²` on the fast path -/
theorem tie_boundFromCellID (id : CellID) (padding : F64) :
    boundFromCellID id padding =
      if PaddedCellFns.PaddedCellFromCellID_cond0 (isFace id) then
        let limit := PaddedCellFns.PaddedCellFromCellID_val0 padding
        ((PaddedCellFns.PaddedCellFromCellID_val1 limit, limit), (PaddedCellFns.PaddedCellFromCellID_val2 limit, limit))
      else
        let (_, i, j, _) := faceIJOrientation id
        Rect2.expandedByMargin (ijLevelToBoundUV i j (level id)) padding := rfl

/-! ### `Middle` (skeleton): the preset of the face fast path, the lazily computed value -/
/-- the lazily computed rectangle (`p.middle` is empty: every cell not built by the face fast path) -/
theorem tie_middle_lazy (p : PaddedCell) (padding : F64) :
    middle p padding false =
      (let ijSize := sizeIJ p.level
       let u := stToUV (siTiToST (PaddedCellFns.PaddedCell_Middle_val0 p.iLo ijSize))
       let v := stToUV (siTiToST (PaddedCellFns.PaddedCell_Middle_val1 p.jLo ijSize))
       ((PaddedCellFns.PaddedCell_Middle_val2 u padding, PaddedCellFns.PaddedCell_Middle_val3 u padding),
        (PaddedCellFns.PaddedCell_Middle_val4 v padding, PaddedCellFns.PaddedCell_Middle_val5 v padding))) := rfl
/-- a face cell: `middle` was preset to `[-padding, padding]²` by `PaddedCellFromCellID`; `Middle()` recomputes it iff
    that rectangle `IsEmpty()` (r2.Rect.IsEmpty tests the X interval) -/
theorem tie_middle_preset (p : PaddedCell) (padding : F64) :
    middle p padding true =
      (let m : Rect2 := ((PaddedCellFns.PaddedCellFromCellID_val3 padding, padding), (PaddedCellFns.PaddedCellFromCellID_val4 padding, padding))
       if PaddedCellFns.PaddedCell_Middle_cond0 (Ivl.isEmpty m.1) then middle p padding false else m) := by
  have e3 : PaddedCellFns.PaddedCellFromCellID_val3 padding = -padding := rfl
  have e4 : PaddedCellFns.PaddedCellFromCellID_val4 padding = -padding := rfl
  simp only [e3, e4, PaddedCellFns.PaddedCell_Middle_cond0]
  unfold middle
  cases h : Ivl.isEmpty (-padding, padding) <;> simp

/-! ### `PaddedCellFromParentIJ` (skeleton) -/
theorem tie_fromParentIJ (parent : PaddedCell) (i j : Nat) :
    fromParentIJ parent i j =
      (let pos := ijToPos[parent.orientation]![2 * i + j]!
       let lvl := PaddedCellFns.PaddedCellFromParentIJ_val1 parent.level
       let ijSize := sizeIJ lvl
       { id := child parent.id pos,
         orientation := PaddedCellFns.PaddedCellFromParentIJ_val0 parent.orientation posToOrientation[pos]!,
         level := lvl,
         iLo := PaddedCellFns.PaddedCellFromParentIJ_val2 parent.iLo i ijSize,
         jLo := PaddedCellFns.PaddedCellFromParentIJ_val3 parent.jLo j ijSize }) := rfl
theorem tie_boundFromParentIJ (parentBound mid : Rect2) (i j : Nat) :
    boundFromParentIJ parentBound mid i j =
      (if PaddedCellFns.PaddedCellFromParentIJ_cond0 i then (mid.1.1, parentBound.1.2) else (parentBound.1.1, mid.1.2),
       if PaddedCellFns.PaddedCellFromParentIJ_cond1 j then (mid.2.1, parentBound.2.2) else (parentBound.2.1, mid.2.2)) := rfl

/-! ### skeletons: statement structure, argument texts, every extracted condition / value (translator_c04/mkshapes.py) -/
-- BEGIN PINS PaddedCellFns
theorem atoms_PaddedCellFromCellID : PaddedCellFns.PaddedCellFromCellID_atoms =
    "cond0(id.isFace()); val0(padding); val1(limit); val2(limit); val3(padding); val4(padding); val5(id.Face())" := rfl
theorem shape_PaddedCellFromCellID : PaddedCellFns.PaddedCellFromCellID_shape =
    "p := &PaddedCell{id: id, padding: padding, middle: r2.EmptyRect()}; if cond0 {limit := val0; p.bound = r2.Rect{X: r1.Interval{Lo: val1, Hi: limit}, Y: r1.Interval{Lo: val2, Hi: limit}}; p.middle = r2.Rect{X: r1.Interval{Lo: val3, Hi: padding}, Y: r1.Interval{Lo: val4, Hi: padding}}; p.orientation = val5; return p}; _, p.iLo, p.jLo, p.orientation = id.faceIJOrientation(); p.level = id.Level(); p.bound = ijLevelToBoundUV(p.iLo, p.jLo, p.level).ExpandedByMargin(padding); ijSize := sizeIJ(p.level); p.iLo &= -ijSize; p.jLo &= -ijSize; return p" := rfl
theorem atoms_PaddedCellFromParentIJ : PaddedCellFns.PaddedCellFromParentIJ_atoms =
    "val0(parent.orientation, posToOrientation[pos]); val1(parent.level); val2(parent.iLo, i, ijSize); val3(parent.jLo, j, ijSize); cond0(i); cond1(j)" := rfl
theorem shape_PaddedCellFromParentIJ : PaddedCellFns.PaddedCellFromParentIJ_shape =
    "pos := ijToPos[parent.orientation][2*i+j]; p := &PaddedCell{id: parent.id.Children()[pos], padding: parent.padding, bound: parent.bound, orientation: val0, level: val1, middle: r2.EmptyRect()}; ijSize := sizeIJ(p.level); p.iLo = val2; p.jLo = val3; middle := parent.Middle(); if cond0 {p.bound.X.Lo = middle.X.Lo} else {p.bound.X.Hi = middle.X.Hi}; if cond1 {p.bound.Y.Lo = middle.Y.Lo} else {p.bound.Y.Hi = middle.Y.Hi}; return p" := rfl
theorem atoms_PaddedCell_Middle : PaddedCellFns.PaddedCell_Middle_atoms =
    "cond0(p.middle.IsEmpty()); val0(p.iLo, ijSize); val1(p.jLo, ijSize); val2(u, p.padding); val3(u, p.padding); val4(v, p.padding); val5(v, p.padding)" := rfl
theorem shape_PaddedCell_Middle : PaddedCellFns.PaddedCell_Middle_shape =
    "if cond0 {ijSize := sizeIJ(p.level); u := stToUV(siTiToST(val0)); v := stToUV(siTiToST(val1)); p.middle = r2.Rect{X: r1.Interval{Lo: val2, Hi: val3}, Y: r1.Interval{Lo: val4, Hi: val5}}}; return p.middle" := rfl
theorem atoms_PaddedCell_Bound : PaddedCellFns.PaddedCell_Bound_atoms =
    "" := rfl
theorem shape_PaddedCell_Bound : PaddedCellFns.PaddedCell_Bound_shape =
    "return p.bound" := rfl
theorem pin_PaddedCellFromCellID_cond0 (id_isFace : Bool) :
    PaddedCellFns.PaddedCellFromCellID_cond0 id_isFace = (id_isFace) := rfl
theorem pin_PaddedCellFromCellID_val0 (padding : F64) :
    PaddedCellFns.PaddedCellFromCellID_val0 padding = (F64.add padding (⟨0x3ff0000000000000⟩ : F64)) := rfl
theorem pin_PaddedCellFromCellID_val1 (limit : F64) :
    PaddedCellFns.PaddedCellFromCellID_val1 limit = (F64.neg limit) := rfl
theorem pin_PaddedCellFromCellID_val2 (limit : F64) :
    PaddedCellFns.PaddedCellFromCellID_val2 limit = (F64.neg limit) := rfl
theorem pin_PaddedCellFromCellID_val3 (padding : F64) :
    PaddedCellFns.PaddedCellFromCellID_val3 padding = (F64.neg padding) := rfl
theorem pin_PaddedCellFromCellID_val4 (padding : F64) :
    PaddedCellFns.PaddedCellFromCellID_val4 padding = (F64.neg padding) := rfl
theorem pin_PaddedCellFromCellID_val5 (id_Face : Nat) :
    PaddedCellFns.PaddedCellFromCellID_val5 id_Face = (id_Face &&& 1) := rfl
theorem pin_PaddedCellFromParentIJ_val0 (parent_orientation : Nat) (posToOrientation_pos : Nat) :
    PaddedCellFns.PaddedCellFromParentIJ_val0 parent_orientation posToOrientation_pos = (parent_orientation ^^^ posToOrientation_pos) := rfl
theorem pin_PaddedCellFromParentIJ_val1 (parent_level : Nat) :
    PaddedCellFns.PaddedCellFromParentIJ_val1 parent_level = (parent_level + 1) := rfl
theorem pin_PaddedCellFromParentIJ_val2 (parent_iLo : Nat) (i : Nat) (ijSize : Nat) :
    PaddedCellFns.PaddedCellFromParentIJ_val2 parent_iLo i ijSize = (parent_iLo + (i * ijSize)) := rfl
theorem pin_PaddedCellFromParentIJ_val3 (parent_jLo : Nat) (j : Nat) (ijSize : Nat) :
    PaddedCellFns.PaddedCellFromParentIJ_val3 parent_jLo j ijSize = (parent_jLo + (j * ijSize)) := rfl
theorem pin_PaddedCellFromParentIJ_cond0 (i : Nat) :
    PaddedCellFns.PaddedCellFromParentIJ_cond0 i = (i == 1) := rfl
theorem pin_PaddedCellFromParentIJ_cond1 (j : Nat) :
    PaddedCellFns.PaddedCellFromParentIJ_cond1 j = (j == 1) := rfl
theorem pin_PaddedCell_Middle_cond0 (p_middle_IsEmpty : Bool) :
    PaddedCellFns.PaddedCell_Middle_cond0 p_middle_IsEmpty = (p_middle_IsEmpty) := rfl
theorem pin_PaddedCell_Middle_val0 (p_iLo : Nat) (ijSize : Nat) :
    PaddedCellFns.PaddedCell_Middle_val0 p_iLo ijSize = (((2 * p_iLo) + ijSize) % 4294967296) := rfl
theorem pin_PaddedCell_Middle_val1 (p_jLo : Nat) (ijSize : Nat) :
    PaddedCellFns.PaddedCell_Middle_val1 p_jLo ijSize = (((2 * p_jLo) + ijSize) % 4294967296) := rfl
theorem pin_PaddedCell_Middle_val2 (u : F64) (p_padding : F64) :
    PaddedCellFns.PaddedCell_Middle_val2 u p_padding = (F64.sub u p_padding) := rfl
theorem pin_PaddedCell_Middle_val3 (u : F64) (p_padding : F64) :
    PaddedCellFns.PaddedCell_Middle_val3 u p_padding = (F64.add u p_padding) := rfl
theorem pin_PaddedCell_Middle_val4 (v : F64) (p_padding : F64) :
    PaddedCellFns.PaddedCell_Middle_val4 v p_padding = (F64.sub v p_padding) := rfl
theorem pin_PaddedCell_Middle_val5 (v : F64) (p_padding : F64) :
    PaddedCellFns.PaddedCell_Middle_val5 v p_padding = (F64.add v p_padding) := rfl
/-- number of extracted conditions / values per function, in generation order -/
theorem counts_PaddedCellFns :
    [(PaddedCellFns.PaddedCellFromCellID_numConds, PaddedCellFns.PaddedCellFromCellID_numVals), (PaddedCellFns.PaddedCellFromParentIJ_numConds, PaddedCellFns.PaddedCellFromParentIJ_numVals), (PaddedCellFns.PaddedCell_Middle_numConds, PaddedCellFns.PaddedCell_Middle_numVals), (PaddedCellFns.PaddedCell_Bound_numConds, PaddedCellFns.PaddedCell_Bound_numVals)] =
    [(1, 6), (2, 4), (1, 6), (0, 0)] := rfl
-- END PINS PaddedCellFns

end S2Proofs.Ties.C12_PaddedCell
