/-
  S2Proofs.Ties.C04_Clip — regenerated-instance obligations for s2/edge_clipping.go and the r1 / r2 helpers.

  `S2.Generated.ClipFns.*` is rewritten from the Go source on every run by translator_c04.  Value-mode functions:
  hand model function (S2.IndexBuild / S2.CellM) = regenerated body (callees = hand model functions).
-/
import S2.IndexBuild
import S2.Generated.ClipFns
namespace S2Proofs.Ties.C04_Clip
open S2 S2.STUV S2.CellM S2.IndexBuild S2.Generated

/-! ### r1.Interval / r2.Rect / r2.Point -/
theorem tie_EmptyInterval : emptyIvl = ClipFns.EmptyInterval := rfl
theorem tie_Interval_IsEmpty (i : Ivl) : Ivl.isEmpty i = ClipFns.Interval_IsEmpty i := rfl
theorem tie_Interval_Contains (i : Ivl) (p : F64) : Ivl.contains i p = ClipFns.Interval_Contains i p := rfl
theorem tie_Interval_Intersects (i oi : Ivl) : Ivl.intersects i oi = ClipFns.Interval_Intersects i oi := rfl
theorem tie_Interval_AddPoint (i : Ivl) (p : F64) : Ivl.addPoint i p = ClipFns.Interval_AddPoint i p := rfl
theorem tie_Interval_ClampPoint (i : Ivl) (p : F64) : Ivl.clampPoint i p = ClipFns.Interval_ClampPoint i p := rfl
theorem tie_Interval_Expanded (i : Ivl) (m : F64) : Ivl.expanded i m = ClipFns.Interval_Expanded i m := rfl
theorem tie_Interval_Union (i o : Ivl) : Ivl.union i o = ClipFns.Interval_Union i o := rfl
theorem tie_EmptyRect : emptyRect = ClipFns.EmptyRect := rfl
theorem tie_Rect_Intersects (r o : Rect2) : Rect2.intersects r o = ClipFns.Rect_Intersects r o := rfl
theorem tie_Rect_AddRect (r o : Rect2) : Rect2.addRect r o = ClipFns.Rect_AddRect r o := rfl
theorem tie_Rect_Expanded (r : Rect2) (mx my : F64) : Rect2.expanded r mx my = ClipFns.Rect_Expanded r (mx, my) := rfl
theorem tie_Rect_ExpandedByMargin (r : Rect2) (m : F64) :
    Rect2.expandedByMargin r m = ClipFns.Rect_ExpandedByMargin r m := rfl
/-- `r2.RectFromPoints(a, b)`: the rect of the first point, then `AddPoint` of the second (shape: `shape_RectFromPoints`) -/
theorem tie_rectFromPoints (a b : R2) :
    rectFromPoints a b = ClipFns.Rect_AddPoint ((a.1, a.1), (a.2, a.2)) b := rfl

/-! ### clipping to a padded face -/
theorem tie_intersectsFace (p : V3) : intersectsFace p = ClipFns.intersectsFace p := rfl
theorem tie_intersectsOppositeEdges (p : V3) : intersectsOppositeEdges p = ClipFns.intersectsOppositeEdges p := rfl
theorem tie_exitAxis (p : V3) : exitAxis p = ClipFns.exitAxis p := rfl
theorem tie_exitPoint (p : V3) (a : Nat) : exitPoint p a = ClipFns.exitPoint p a := rfl
theorem tie_interpolateFloat64 (x a b a1 b1 : F64) :
    interpolateFloat64 x a b a1 b1 = ClipFns.interpolateFloat64 x a b a1 b1 := rfl


/-! ### constants (Go constant expressions: exact arithmetic, one rounding — go/types folds them) -/
theorem f64_eq_of_bits {a b : F64} (h : a.bits = b.bits) : a = b := by
  cases a; cases b; simp_all
theorem tie_edgeClipErrorUVCoord : qEdgeClipErrorUVCoord.toF64 = ClipFns.edgeClipErrorUVCoord := f64_eq_of_bits (by decide +kernel)
theorem tie_faceClipErrorUVCoord : qFaceClipErrorUVCoord.toF64 = ClipFns.faceClipErrorUVCoord := f64_eq_of_bits (by decide +kernel)
theorem tie_maxSafeUVCoord : maxSafeUVCoord = (⟨0x3FEFFFFFFFFFFFF3⟩ : F64) := f64_eq_of_bits (by decide +kernel)

/-- `clipDestination`: the early return inside `if b.Z > 0` of the Go code is the `early : Option` of the hand model -/
theorem tie_clipDestination (a b scaledN aTan bTan : V3) (scaleUV : F64) :
    clipDestination a b scaledN aTan bTan scaleUV = ClipFns.clipDestination a b scaledN aTan bTan scaleUV := by
  have hz : fzero = (⟨0x0000000000000000⟩ : F64) := rfl
  have h1 : F64.one = (⟨0x3FF0000000000000⟩ : F64) := rfl
  unfold clipDestination ClipFns.clipDestination ClipFns.Point_Mul
  rw [tie_maxSafeUVCoord]
  simp only [hz, h1]
  cases hc1 : F64.gt b.z ⟨0⟩ <;>
  cases hc2 : F64.le (F64.fmax (b.x / b.z).abs (b.y / b.z).abs) ⟨0x3FEFFFFFFFFFFFF3⟩ <;>
  cases hc5 : F64.le b.z ⟨0⟩ <;>
  simp only [Bool.false_eq_true, if_true, if_false] <;>
  (split <;> (try split) <;> rfl)

/-- `ClipToPaddedFace`: Go returns `(aUV, bUV, intersects)`; the hand model returns `some (aUV, bUV)` iff `intersects` -/
theorem tie_clipToPaddedFace (a b : V3) (f : Nat) (padding : F64) :
    clipToPaddedFace a b f padding =
      (let r := ClipFns.ClipToPaddedFace a b f padding
       if r.2.2 then some (r.1, r.2.1) else none) := by
  have h1 : F64.one = (⟨0x3FF0000000000000⟩ : F64) := rfl
  have hn : negOne = (⟨0xBFF0000000000000⟩ : F64) := rfl
  have h511 : twoPowM511 = (⟨0x2000000000000000⟩ : F64) := rfl
  have h563 : twoPow563 = (⟨0x6320000000000000⟩ : F64) := rfl
  unfold clipToPaddedFace ClipFns.ClipToPaddedFace
  simp only [h1, hn, h511, h563]
  cases hc1 : (STUV.face a == f && STUV.face b == f)
  · cases hc2 : intersectsFace ⟨(⟨0x3FF0000000000000⟩ + padding) * (faceXYZtoUVW f (Crossing.pointCross a b)).x,
        (⟨0x3FF0000000000000⟩ + padding) * (faceXYZtoUVW f (Crossing.pointCross a b)).y, (faceXYZtoUVW f (Crossing.pointCross a b)).z⟩
    · simp
    · simp only [Bool.false_eq_true, if_false, Bool.not_true]
      split <;> simp_all
  · simp
/-- a face that is not intersected returns the zero points and `false` -/
theorem tie_clipToPaddedFace_none (a b : V3) (f : Nat) (padding : F64)
    (h : clipToPaddedFace a b f padding = none) : (ClipFns.ClipToPaddedFace a b f padding).2.2 = false := by
  rw [tie_clipToPaddedFace] at h
  cases hc : (ClipFns.ClipToPaddedFace a b f padding).2.2 <;> simp_all
theorem tie_ClipToFace (a b : V3) (f : Nat) :
    ClipFns.ClipToFace a b f = ClipFns.ClipToPaddedFace a b f fzero := rfl

/-! ### value-mode helpers without a hand model counterpart (used by the definitions above / the skeletons below) -/
theorem pin_Point_Sub (p op : R2) : ClipFns.Point_Sub p op = (p.1 - op.1, p.2 - op.2) := rfl
theorem pin_Point_Mul (p : R2) (m : F64) : ClipFns.Point_Mul p m = (m * p.1, m * p.2) := rfl
theorem pin_Point_Ortho (p : R2) : ClipFns.Point_Ortho p = (-p.2, p.1) := rfl
theorem pin_Point_Dot (p op : R2) : ClipFns.Point_Dot p op = p.1 * op.1 + p.2 * op.2 := rfl
theorem pin_Rect_VertexIJ (r : Rect2) (i j : Nat) :
    ClipFns.Rect_VertexIJ r i j = (if i == 1 then r.1.2 else r.1.1, if j == 1 then r.2.2 else r.2.1) := rfl
theorem pin_Rect_AddPoint (r : Rect2) (p : R2) :
    ClipFns.Rect_AddPoint r p = (Ivl.addPoint r.1 p.1, Ivl.addPoint r.2 p.2) := rfl
/-- the remaining error constants of edge_clipping.go (no hand model constant: pinned as bit patterns) -/
theorem pin_errorConstants :
    (ClipFns.edgeClipErrorUVDist, ClipFns.faceClipErrorRadians, ClipFns.faceClipErrorUVDist, ClipFns.intersectsRectErrorUVDist) =
      ((⟨0x3CC2000000000000⟩ : F64), (⟨0x3CC8000000000000⟩ : F64), (⟨0x3CE2000000000000⟩ : F64), (⟨0x3CD0F876CCDF6CD9⟩ : F64)) := rfl

/-! ### skeletons: statement structure, argument texts, every extracted condition / value (generated by
    translator_c04/mkshapes.py; 2D edge clipping and FaceSegments have no hand model: pinned only) -/
-- BEGIN PINS ClipFns
theorem atoms_RectFromPoints : ClipFns.RectFromPoints_atoms =
    "cond0(len(pts))" := rfl
theorem shape_RectFromPoints : ClipFns.RectFromPoints_shape =
    "if cond0 {return Rect{}}; r := Rect{X: r1.Interval{Lo: pts[0].X, Hi: pts[0].X}, Y: r1.Interval{Lo: pts[0].Y, Hi: pts[0].Y}}; range _, p := pts[1:] {r = r.AddPoint(p)}; return r" := rfl
theorem atoms_sumEqual : ClipFns.sumEqual_atoms =
    "val0(u, v, w)" := rfl
theorem shape_sumEqual : ClipFns.sumEqual_shape =
    "return val0" := rfl
theorem atoms_updateEndpoint : ClipFns.updateEndpoint_atoms =
    "cond0(highEndpoint); cond1(bound.Hi, value); cond2(bound.Lo, value); cond3(bound.Lo, value); cond4(bound.Hi, value)" := rfl
theorem shape_updateEndpoint : ClipFns.updateEndpoint_shape =
    "if cond0 {if cond1 {return bound, false}; if cond2 {bound.Lo = value}; return bound, true}; if cond3 {return bound, false}; if cond4 {bound.Hi = value}; return bound, true" := rfl
theorem atoms_clipBoundAxis : ClipFns.clipBoundAxis_atoms =
    "cond0(bound0.Lo, clip.Lo); cond1(bound0.Hi, clip.Lo); cond2(updated); cond3(bound0.Hi, clip.Hi); cond4(bound0.Lo, clip.Hi); val0(negSlope); cond5(updated)" := rfl
theorem shape_clipBoundAxis : ClipFns.clipBoundAxis_shape =
    "if cond0 {if cond1 {return bound0, bound1, false}; bound0.Lo = clip.Lo; if[bound1, updated = updateEndpoint(bound1, negSlope, interpolateFloat64(clip.Lo, a0, b0, a1, b1))] cond2 {return bound0, bound1, false}}; if cond3 {if cond4 {return bound0, bound1, false}; bound0.Hi = clip.Hi; if[bound1, updated = updateEndpoint(bound1, val0, interpolateFloat64(clip.Hi, a0, b0, a1, b1))] cond5 {return bound0, bound1, false}}; return bound0, bound1, true" := rfl
theorem atoms_clipEdgeBound : ClipFns.clipEdgeBound_atoms =
    "val0(a.X, b.X, a.Y, b.Y); cond0(up1); cond1(up2)" := rfl
theorem shape_clipEdgeBound : ClipFns.clipEdgeBound_shape =
    "negSlope := val0; b0x, b0y, up1 := clipBoundAxis(a.X, b.X, bound.X, a.Y, b.Y, bound.Y, negSlope, clip.X); if cond0 {return bound, false}; b1y, b1x, up2 := clipBoundAxis(a.Y, b.Y, b0y, a.X, b.X, b0x, negSlope, clip.Y); if cond1 {return r2.Rect{X: b0x, Y: b0y}, false}; return r2.Rect{X: b1x, Y: b1y}, true" := rfl
theorem atoms_clippedEdgeBound : ClipFns.clippedEdgeBound_atoms =
    "cond0(intersects)" := rfl
theorem shape_clippedEdgeBound : ClipFns.clippedEdgeBound_shape =
    "bound := r2.RectFromPoints(a, b); if[b1, intersects := clipEdgeBound(a, b, clip, bound)] cond0 {return b1}; return r2.EmptyRect()" := rfl
theorem atoms_edgeIntersectsRect : ClipFns.edgeIntersectsRect_atoms =
    "cond0(r.Intersects(r2.RectFromPoints(a, b))); cond1(n.X); cond2(n.Y); val0(max, min)" := rfl
theorem shape_edgeIntersectsRect : ClipFns.edgeIntersectsRect_shape =
    "if cond0 {return false}; n := b.Sub(a).Ortho(); i := 0; if cond1 {i = 1}; j := 0; if cond2 {j = 1}; max := n.Dot(r.VertexIJ(i, j).Sub(a)); min := n.Dot(r.VertexIJ(1-i, 1-j).Sub(a)); return val0" := rfl
theorem atoms_ClipEdge : ClipFns.ClipEdge_atoms =
    "cond0(intersects); cond1(a.X, b.X); cond2(a.Y, b.Y); val0(ai); val1(aj)" := rfl
theorem shape_ClipEdge : ClipFns.ClipEdge_shape =
    "bound := r2.RectFromPoints(a, b); if[bound, intersects = clipEdgeBound(a, b, clip, bound)] cond0 {return aClip, bClip, false}; ai := 0; if cond1 {ai = 1}; aj := 0; if cond2 {aj = 1}; return bound.VertexIJ(ai, aj), bound.VertexIJ(val0, val1), true" := rfl
theorem atoms_moveOriginToValidFace : ClipFns.moveOriginToValidFace_atoms =
    "cond0((aUV).X, (aUV).Y); cond1(n.intersectsFace()); cond2(exit.Sub(a.Vector).Dot(aTangent)); cond3((aUV).X, (aUV).Y); cond4(aUV.X); cond5(aUV.Y); val0(aUV.X); val1(aUV.Y)" := rfl
theorem shape_moveOriginToValidFace : ClipFns.moveOriginToValidFace_shape =
    "const maxSafeUVCoord = 1 - faceClipErrorUVCoord; if cond0 {return face, aUV}; z := faceXYZtoUVW(face, ab); n := pointUVW(z); if cond1 {uv := n.exitPoint(n.exitAxis()); exit := faceUVToXYZ(face, uv.X, uv.Y); aTangent := ab.Normalize().Cross(a.Vector); if cond2 {return face, aUV}}; var dir int; if cond3 {if cond4 {dir = 1}; face = uvwFace(face, 0, dir)} else {if cond5 {dir = 1}; face = uvwFace(face, 1, dir)}; aUV.X, aUV.Y = validFaceXYZToUV(face, a.Vector); aUV.X = val0; aUV.Y = val1; return face, aUV" := rfl
theorem atoms_nextFace : ClipFns.nextFace_atoms =
    "cond0(axis); cond1(exitA); cond2(exit1MinusA); cond3(exit1MinusA, uvwFace(face, int(1-axis), exit1MinusAPos), targetFace, sumEqual(exit.X*n.X, exit.Y*n.Y, -n.Z))" := rfl
theorem shape_nextFace : ClipFns.nextFace_shape =
    "exitA := exit.X; exit1MinusA := exit.Y; if cond0 {exitA = exit.Y; exit1MinusA = exit.X}; exitAPos := 0; if cond1 {exitAPos = 1}; exit1MinusAPos := 0; if cond2 {exit1MinusAPos = 1}; if cond3 {return targetFace}; return uvwFace(face, int(axis), exitAPos)" := rfl
theorem atoms_FaceSegments : ClipFns.FaceSegments_atoms =
    "cond0(aFace, bFace); val0(); cond1(face, bFace)" := rfl
theorem shape_FaceSegments : ClipFns.FaceSegments_shape =
    "var segment FaceSegment; var aFace, bFace int; aFace, segment.a.X, segment.a.Y = xyzToFaceUV(a.Vector); bFace, segment.b.X, segment.b.Y = xyzToFaceUV(b.Vector); if cond0 {segment.face = aFace; return []FaceSegment{segment}}; ab := a.PointCross(b); aFace, segment.a = moveOriginToValidFace(aFace, a, ab, segment.a); bFace, segment.b = moveOriginToValidFace(bFace, b, Point{ab.Mul(val0‹-1›)}, segment.b); var segments []FaceSegment; segment.face = aFace; bSaved := segment.b; for[face := aFace] cond1 {z := faceXYZtoUVW(face, ab); n := pointUVW(z); exitAxis := n.exitAxis(); segment.b = n.exitPoint(exitAxis); segments = append(segments, segment); exitXyz := faceUVToXYZ(face, segment.b.X, segment.b.Y); face = nextFace(face, segment.b, exitAxis, n, bFace); exitUvw := faceXYZtoUVW(face, Point{exitXyz}); segment.face = face; segment.a = r2.Point{X: exitUvw.X, Y: exitUvw.Y}}; segment.b = bSaved; return append(segments, segment)" := rfl
theorem pin_RectFromPoints_cond0 (len_pts : Nat) :
    ClipFns.RectFromPoints_cond0 len_pts = (len_pts == 0) := rfl
theorem pin_sumEqual_val0 (u : F64) (v : F64) (w : F64) :
    ClipFns.sumEqual_val0 u v w = (((F64.feq (F64.add u v) w) && (F64.feq u (F64.sub w v))) && (F64.feq v (F64.sub w u))) := rfl
theorem pin_updateEndpoint_cond0 (highEndpoint : Bool) :
    ClipFns.updateEndpoint_cond0 highEndpoint = (!highEndpoint) := rfl
theorem pin_updateEndpoint_cond1 (bound_Hi : F64) (value : F64) :
    ClipFns.updateEndpoint_cond1 bound_Hi value = (F64.lt bound_Hi value) := rfl
theorem pin_updateEndpoint_cond2 (bound_Lo : F64) (value : F64) :
    ClipFns.updateEndpoint_cond2 bound_Lo value = (F64.lt bound_Lo value) := rfl
theorem pin_updateEndpoint_cond3 (bound_Lo : F64) (value : F64) :
    ClipFns.updateEndpoint_cond3 bound_Lo value = (F64.lt value bound_Lo) := rfl
theorem pin_updateEndpoint_cond4 (bound_Hi : F64) (value : F64) :
    ClipFns.updateEndpoint_cond4 bound_Hi value = (F64.lt value bound_Hi) := rfl
theorem pin_clipBoundAxis_cond0 (bound0_Lo : F64) (clip_Lo : F64) :
    ClipFns.clipBoundAxis_cond0 bound0_Lo clip_Lo = (F64.lt bound0_Lo clip_Lo) := rfl
theorem pin_clipBoundAxis_cond1 (bound0_Hi : F64) (clip_Lo : F64) :
    ClipFns.clipBoundAxis_cond1 bound0_Hi clip_Lo = (F64.lt bound0_Hi clip_Lo) := rfl
theorem pin_clipBoundAxis_cond2 (updated : Bool) :
    ClipFns.clipBoundAxis_cond2 updated = (!updated) := rfl
theorem pin_clipBoundAxis_cond3 (bound0_Hi : F64) (clip_Hi : F64) :
    ClipFns.clipBoundAxis_cond3 bound0_Hi clip_Hi = (F64.lt clip_Hi bound0_Hi) := rfl
theorem pin_clipBoundAxis_cond4 (bound0_Lo : F64) (clip_Hi : F64) :
    ClipFns.clipBoundAxis_cond4 bound0_Lo clip_Hi = (F64.lt clip_Hi bound0_Lo) := rfl
theorem pin_clipBoundAxis_val0 (negSlope : Bool) :
    ClipFns.clipBoundAxis_val0 negSlope = (!negSlope) := rfl
theorem pin_clipBoundAxis_cond5 (updated : Bool) :
    ClipFns.clipBoundAxis_cond5 updated = (!updated) := rfl
theorem pin_clipEdgeBound_val0 (a_X : F64) (b_X : F64) (a_Y : F64) (b_Y : F64) :
    ClipFns.clipEdgeBound_val0 a_X b_X a_Y b_Y = ((F64.lt b_X a_X) != (F64.lt b_Y a_Y)) := rfl
theorem pin_clipEdgeBound_cond0 (up1 : Bool) :
    ClipFns.clipEdgeBound_cond0 up1 = (!up1) := rfl
theorem pin_clipEdgeBound_cond1 (up2 : Bool) :
    ClipFns.clipEdgeBound_cond1 up2 = (!up2) := rfl
theorem pin_clippedEdgeBound_cond0 (intersects : Bool) :
    ClipFns.clippedEdgeBound_cond0 intersects = (intersects) := rfl
theorem pin_edgeIntersectsRect_cond0 (r_Intersects_r2_RectFromPoints_a_b : Bool) :
    ClipFns.edgeIntersectsRect_cond0 r_Intersects_r2_RectFromPoints_a_b = (!r_Intersects_r2_RectFromPoints_a_b) := rfl
theorem pin_edgeIntersectsRect_cond1 (n_X : F64) :
    ClipFns.edgeIntersectsRect_cond1 n_X = (F64.le (⟨0x0000000000000000⟩ : F64) n_X) := rfl
theorem pin_edgeIntersectsRect_cond2 (n_Y : F64) :
    ClipFns.edgeIntersectsRect_cond2 n_Y = (F64.le (⟨0x0000000000000000⟩ : F64) n_Y) := rfl
theorem pin_edgeIntersectsRect_val0 (max' : F64) (min' : F64) :
    ClipFns.edgeIntersectsRect_val0 max' min' = ((F64.le (⟨0x0000000000000000⟩ : F64) max') && (F64.le min' (⟨0x0000000000000000⟩ : F64))) := rfl
theorem pin_ClipEdge_cond0 (intersects : Bool) :
    ClipFns.ClipEdge_cond0 intersects = (!intersects) := rfl
theorem pin_ClipEdge_cond1 (a_X : F64) (b_X : F64) :
    ClipFns.ClipEdge_cond1 a_X b_X = (F64.lt b_X a_X) := rfl
theorem pin_ClipEdge_cond2 (a_Y : F64) (b_Y : F64) :
    ClipFns.ClipEdge_cond2 a_Y b_Y = (F64.lt b_Y a_Y) := rfl
theorem pin_ClipEdge_val0 (ai : Nat) :
    ClipFns.ClipEdge_val0 ai = (1 - ai) := rfl
theorem pin_ClipEdge_val1 (aj : Nat) :
    ClipFns.ClipEdge_val1 aj = (1 - aj) := rfl
theorem pin_moveOriginToValidFace_cond0 (aUV_X : F64) (aUV_Y : F64) :
    ClipFns.moveOriginToValidFace_cond0 aUV_X aUV_Y = (F64.le (F64.fmax (F64.abs aUV_X) (F64.abs aUV_Y)) (⟨0x3feffffffffffff3⟩ : F64)) := rfl
theorem pin_moveOriginToValidFace_cond1 (n_intersectsFace : Bool) :
    ClipFns.moveOriginToValidFace_cond1 n_intersectsFace = (n_intersectsFace) := rfl
theorem pin_moveOriginToValidFace_cond2 (exit_Sub_a_Vector_Dot_aTangent : F64) :
    ClipFns.moveOriginToValidFace_cond2 exit_Sub_a_Vector_Dot_aTangent = (F64.le (⟨0xbcc8000000000000⟩ : F64) exit_Sub_a_Vector_Dot_aTangent) := rfl
theorem pin_moveOriginToValidFace_cond3 (aUV_X : F64) (aUV_Y : F64) :
    ClipFns.moveOriginToValidFace_cond3 aUV_X aUV_Y = (F64.le (F64.abs aUV_Y) (F64.abs aUV_X)) := rfl
theorem pin_moveOriginToValidFace_cond4 (aUV_X : F64) :
    ClipFns.moveOriginToValidFace_cond4 aUV_X = (F64.lt (⟨0x0000000000000000⟩ : F64) aUV_X) := rfl
theorem pin_moveOriginToValidFace_cond5 (aUV_Y : F64) :
    ClipFns.moveOriginToValidFace_cond5 aUV_Y = (F64.lt (⟨0x0000000000000000⟩ : F64) aUV_Y) := rfl
theorem pin_moveOriginToValidFace_val0 (aUV_X : F64) :
    ClipFns.moveOriginToValidFace_val0 aUV_X = (F64.fmax (⟨0xbff0000000000000⟩ : F64) (F64.fmin (⟨0x3ff0000000000000⟩ : F64) aUV_X)) := rfl
theorem pin_moveOriginToValidFace_val1 (aUV_Y : F64) :
    ClipFns.moveOriginToValidFace_val1 aUV_Y = (F64.fmax (⟨0xbff0000000000000⟩ : F64) (F64.fmin (⟨0x3ff0000000000000⟩ : F64) aUV_Y)) := rfl
theorem pin_nextFace_cond0 (axis : Nat) :
    ClipFns.nextFace_cond0 axis = (axis == 1) := rfl
theorem pin_nextFace_cond1 (exitA : F64) :
    ClipFns.nextFace_cond1 exitA = (F64.lt (⟨0x0000000000000000⟩ : F64) exitA) := rfl
theorem pin_nextFace_cond2 (exit1MinusA : F64) :
    ClipFns.nextFace_cond2 exit1MinusA = (F64.lt (⟨0x0000000000000000⟩ : F64) exit1MinusA) := rfl
theorem pin_nextFace_cond3 (exit1MinusA : F64) (uvwFace_face_int_1_axis_exit1MinusAPos : Nat) (targetFace : Nat) (sumEqual_exit_X_n_X_exit_Y_n_Y_n_Z : Bool) :
    ClipFns.nextFace_cond3 exit1MinusA uvwFace_face_int_1_axis_exit1MinusAPos targetFace sumEqual_exit_X_n_X_exit_Y_n_Y_n_Z = (((F64.feq (F64.abs exit1MinusA) (⟨0x3ff0000000000000⟩ : F64)) && (uvwFace_face_int_1_axis_exit1MinusAPos == targetFace)) && sumEqual_exit_X_n_X_exit_Y_n_Y_n_Z) := rfl
theorem pin_FaceSegments_cond0 (aFace : Nat) (bFace : Nat) :
    ClipFns.FaceSegments_cond0 aFace bFace = (aFace == bFace) := rfl
theorem pin_FaceSegments_val0 :
    ClipFns.FaceSegments_val0 = ((⟨0xbff0000000000000⟩ : F64)) := rfl
theorem pin_FaceSegments_cond1 (face : Nat) (bFace : Nat) :
    ClipFns.FaceSegments_cond1 face bFace = (face != bFace) := rfl
/-- number of extracted conditions / values per function, in generation order -/
theorem counts_ClipFns :
    [(ClipFns.RectFromPoints_numConds, ClipFns.RectFromPoints_numVals), (ClipFns.sumEqual_numConds, ClipFns.sumEqual_numVals), (ClipFns.updateEndpoint_numConds, ClipFns.updateEndpoint_numVals), (ClipFns.clipBoundAxis_numConds, ClipFns.clipBoundAxis_numVals), (ClipFns.clipEdgeBound_numConds, ClipFns.clipEdgeBound_numVals), (ClipFns.clippedEdgeBound_numConds, ClipFns.clippedEdgeBound_numVals), (ClipFns.edgeIntersectsRect_numConds, ClipFns.edgeIntersectsRect_numVals), (ClipFns.ClipEdge_numConds, ClipFns.ClipEdge_numVals), (ClipFns.moveOriginToValidFace_numConds, ClipFns.moveOriginToValidFace_numVals), (ClipFns.nextFace_numConds, ClipFns.nextFace_numVals), (ClipFns.FaceSegments_numConds, ClipFns.FaceSegments_numVals)] =
    [(1, 0), (0, 1), (5, 0), (6, 1), (2, 1), (1, 0), (3, 1), (3, 2), (6, 2), (4, 0), (2, 1)] := rfl
-- END PINS ClipFns

end S2Proofs.Ties.C04_Clip
