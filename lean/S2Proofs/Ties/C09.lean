/-
  S2Proofs.Ties.C09 — regenerated-instance obligations for the codec constants.

  `S2.Generated.CodecConsts.*` is rewritten from the Go source on every run by translator_c01: the decoder /
  encoder limits and version bytes (s2/encode.go, pointcompression.go, polygon.go, cellunion.go), `maxSiTi`,
  `siTitoPiQi` (translated expression by expression, incl. the clamp constant `maxSiTi - 1` and the shift
  `MaxLevel + 1 - level`) and the two interleave lookup tables of s2/interleave.go packed into one numeral each.
-/
import S2.Codec
import S2.Generated.CodecConsts
namespace S2Proofs.Ties.C09
open S2 S2.Generated

theorem tie_encodingVersion : Codec.encodingVersion = CodecConsts.encodingVersion := rfl
theorem tie_encodingCompressedVersion : Codec.encodingCompressedVersion = CodecConsts.encodingCompressedVersion := rfl
theorem tie_maxEncodedVertices : Codec.maxEncodedVertices = CodecConsts.maxEncodedVertices := rfl
theorem tie_maxEncodedLoops : Codec.maxEncodedLoops = CodecConsts.maxEncodedLoops := rfl
theorem tie_maxEncodedCells : Codec.maxCells = CodecConsts.maxEncodedCells := rfl
theorem tie_derivativeEncodingOrder : Codec.derivativeEncodingOrder = CodecConsts.derivativeEncodingOrder := rfl
theorem tie_maxSiTi : STUV.maxSiTi = CodecConsts.maxSiTi := rfl

/-- `siTitoPiQi`: clamp to `maxSiTi - 1`, shift right by `MaxLevel + 1 - level`; the Go function works on
    `uint32`, the hand model on `Nat`. -/
theorem tie_siTitoPiQi (siTi : UInt32) (level : Nat) :
    (CodecConsts.siTitoPiQi siTi level).toNat = Codec.siTiToPiQi siTi.toNat level := by
  simp only [CodecConsts.siTitoPiQi, Codec.siTiToPiQi]
  have h : (if siTi.toNat > 2147483647 then 2147483647 else siTi.toNat) ≤ 2147483647 := by split <;> omega
  generalize (if siTi.toNat > 2147483647 then 2147483647 else siTi.toNat) = s at h
  have h2 : s >>> (31 - level) ≤ s := by
    rw [Nat.shiftRight_eq_div_pow]; exact Nat.div_le_self _ _
  generalize s >>> (31 - level) = r at h2
  rw [UInt32.toNat_ofNat']
  omega

/-! interleave tables (256 entries each; 4 resp. 16 bits per entry as in S2/Codec/Prim.lean) -/
theorem tie_deinterleaveLookup : Codec.deinterleaveLookupPacked = CodecConsts.deinterleaveLookup_packed4 := by decide +kernel
theorem tie_interleaveLookup : Codec.interleaveLookupPacked = CodecConsts.interleaveLookup_packed16 := by decide +kernel
theorem tie_lookup_lens : CodecConsts.deinterleaveLookup_len = 256 ∧ CodecConsts.interleaveLookup_len = 256 := by decide

end S2Proofs.Ties.C09
