/-
  S2Proofs.Ties.C01_Stuv — regenerated-instance obligations for r3/vector.go and the float functions of s2/stuv.go
  that the cell-id model uses (`S2.V3`, `S2.STUV`).

  `S2.Generated.StuvFns.*` is rewritten from the Go source on every run by translator_c09: every float expression is
  translated operator by operator in the order of the Go AST over the bit-exact soft float `S2.F64`, constants as
  float64 bit patterns.  Each theorem: hand model function = regenerated body (callees = hand model functions).
-/
import S2.STUV
import S2.Generated.StuvFns
namespace S2Proofs.Ties.C01_Stuv
open S2 S2.STUV S2.Generated

/-! ### r3/vector.go -/
theorem tie_Norm (v : V3) : v.norm = StuvFns.Vector_Norm v := rfl
theorem tie_Norm2 (v : V3) : v.norm2 = StuvFns.Vector_Norm2 v := rfl
theorem tie_Normalize (v : V3) : v.normalize = StuvFns.Vector_Normalize v := rfl
theorem tie_Abs (v : V3) : v.abs = StuvFns.Vector_Abs v := rfl
theorem tie_Add (v o : V3) : v.add o = StuvFns.Vector_Add v o := rfl
theorem tie_Sub (v o : V3) : v.sub o = StuvFns.Vector_Sub v o := rfl
theorem tie_Mul (v : V3) (m : F64) : v.mul m = StuvFns.Vector_Mul v m := rfl
theorem tie_Dot (v o : V3) : v.dot o = StuvFns.Vector_Dot v o := rfl
theorem tie_Cross (v o : V3) : v.cross o = StuvFns.Vector_Cross v o := rfl
theorem tie_LargestComponent (v : V3) : v.largestComponent = StuvFns.Vector_LargestComponent v := rfl
theorem tie_SmallestComponent (v : V3) : v.smallestComponent = StuvFns.Vector_SmallestComponent v := rfl
theorem tie_Cmp (v o : V3) : v.cmp o = StuvFns.Vector_Cmp v o := rfl

/-! ### s2/stuv.go -/
theorem tie_siTiToST (si : Nat) : siTiToST si = StuvFns.siTiToST si := rfl
theorem tie_stToUV (s : F64) : stToUV s = StuvFns.stToUV s := rfl
theorem tie_uvToST (u : F64) : uvToST u = StuvFns.uvToST u := rfl
theorem tie_ijToSTMin (i : Int) : ijToSTMin i = StuvFns.ijToSTMin i := rfl
theorem tie_stToIJ (s : F64) : stToIJ s = StuvFns.stToIJ s := rfl
theorem tie_validFaceXYZToUV (f : Nat) (r : V3) : validFaceXYZToUV f r = StuvFns.validFaceXYZToUV f r := rfl
theorem tie_xyzToFaceUV (r : V3) : xyzToFaceUV r = StuvFns.xyzToFaceUV r := by
  simp only [xyzToFaceUV, StuvFns.xyzToFaceUV]
theorem tie_faceUVToXYZ (f : Nat) (u v : F64) : faceUVToXYZ f u v = StuvFns.faceUVToXYZ f u v := rfl
theorem tie_faceSiTiToXYZ (f si ti : Nat) : faceSiTiToXYZ f si ti = StuvFns.faceSiTiToXYZ f si ti := rfl

private theorem hz : (⟨0x0000000000000000⟩ : F64) = F64.zero false := rfl

/-- Go: two `return uint32(…)`; hand model: one truncation of the selected value. -/
theorem tie_stToSiTi (s : F64) : stToSiTi s = StuvFns.stToSiTi s := by
  unfold stToSiTi StuvFns.stToSiTi
  rw [hz]
  split <;> rfl

/-- Go: `f += 3` in the three negative cases; hand model: the literal faces 3, 4, 5. -/
theorem tie_face (r : V3) : face r = StuvFns.face r := by
  unfold face StuvFns.face
  rw [hz]
  generalize r.largestComponent = f
  match f with
  | 0 => simp
  | 1 => simp
  | 2 => simp
  | n+3 => simp

end S2Proofs.Ties.C01_Stuv
